------------------------------- MODULE Crash -------------------------------
(***************************************************************************)
(* Crash safety of the TSDB persistence protocols (property C03).          *)
(*                                                                         *)
(* Extends Db.tla (the single-node TSDB as a client sees it).  Every       *)
(* mutating call of Db is split here into the call's effect on memory      *)
(* (Db's action, taken when the call begins) and a PROGRAM: the sequence   *)
(* of persistence steps the real code performs for that call, in program   *)
(* order, each step = one verifhook site + its effect on the named files   *)
(* of the data directory:                                                  *)
(*                                                                         *)
(*   wal, wbl      write log: segments first..first+Len-1, each a list of   *)
(*                 complete records and at most one torn record at the end  *)
(*   cps, cptmp    wal/checkpoint.N dirs (records) and a checkpoint.N.tmp   *)
(*   blks          block dirs <ulid> with meta.json (parents, hints, stats) *)
(*                 chunks/index (data) and tombstones                       *)
(*   tmpc, tmpd    <ulid>.tmp-for-creation and <ulid>.tmp-for-deletion dirs *)
(*   rep           wal/<k>.repair left by WL.Repair                         *)
(*                                                                         *)
(* `Crash` may fall between any two steps (a process kill: everything a    *)
(* step has written survives, nothing else), also during recovery.         *)
(* `Recover` is tsdb.Open as a program over the same files; the contents   *)
(* of the recovered database are a function of the files alone.            *)
(*                                                                         *)
(* Programs and the Go functions they transcribe (tsdb/...):                *)
(*   LogProg        wlog.WL.Log / log / flushPage / nextSegment            *)
(*   CommitProg     headAppenderBase.Commit -> log(), wbl.Log              *)
(*   DeleteProg     DB.Delete -> Block.Delete (tombstones.WriteFile,        *)
(*                  writeMetaFile), Head.Delete                            *)
(*   BlockProg      LeveledCompactor.write                                 *)
(*   ReloadProg     DB.reloadBlocks / deleteBlocks                         *)
(*   TruncWalProg   Head.truncateWAL -> wlog.Checkpoint, WL.Truncate,      *)
(*                  DeleteCheckpoints                                      *)
(*   OOOProg        DB.compactOOOHead / compactOOO / Head.truncateOOO      *)
(*   BlocksProg     DB.compactBlocks (plan from PlannerOps.tla)            *)
(*   CleanProg      DB.CleanTombstones                                     *)
(*   CloseProg      DB.Close / Head.Close / WL.Close                       *)
(*   OpenProg       tsdb.open: tmp dirs, wlog.NewSize, reload, Head.Init,  *)
(*                  WL.Repair                                              *)
(* Not modelled (opaque, redundant copies of WAL/WBL data; their sites are  *)
(* crash points of the harness only): chunks_head files, chunk snapshots.  *)
(***************************************************************************)
EXTENDS Db

P == INSTANCE PlannerOps

CONSTANTS BigSeries,   \* series whose label set is larger than a WAL page: their series record spans two pages (torn record possible)
          ScriptName,  \* name of the sequence of action kinds the workload must follow ("free" = any), see Script
          MaxCrashes,  \* crashes per behaviour (2 = a second crash during recovery)
          CAllowKF,    \* known findings of C03 whose trigger may be generated (see CKF below)
          CrashOdds,   \* simulation only: a Crash is enabled with probability 1/CrashOdds per step (1 = always: model checking),
          RecOdds,     \*   RecOdds for a second crash during recovery
          CEmit        \* "none" | "all" | "class" (model checking: ACTION_CONSTRAINT CEmitAC) | "walk" (simulation: INVARIANT CEmitWalk)

VARIABLES wal, wbl, cps, cptmp, blks, tmpc, tmpd, rep,   \* files
          nextId,     \* rank of the next block ULID
          cur,        \* [Series -> Nat] generation of the series now in head memory (0 = not in memory); ref = <<s, gen>>
          ngen,       \* [Series -> Nat] last generation handed out
          wexp,       \* Head.walExpiries: set of [ref, until]
          mine,       \* [Apps -> SUBSET Series] series created by the open appender (headAppenderBase.seriesRefs)
          lastTrunc,  \* Head.lastWALTruncationTime
          pc,         \* "idle" | "run" (a call's program is running) | "rec" (recovery program) | "done"
          prog,       \* remaining steps of the running program
          nstep,      \* steps of the running program executed so far
          ackd,       \* ghost: `stored` when the last call returned (what has been acknowledged)
          nack,       \* ghost: index (in hist) of the last acknowledged call
          infl,       \* ghost: kind of the call in flight ("" = none)
          ncrash, ckf,
          tornrec,    \* the WAL of the process being recovered ended in a torn record (Head.Init fails, WL.Repair runs)
          rcont,      \* [Series -> SUBSET Sample] contents of the recovered database (set when recovery completes)
          trace       \* history: hook sites reached by the current process, with "op:<i>:<kind>" markers

fvars == <<wal, wbl, cps, cptmp, blks, tmpc, tmpd, rep>>
mvars == <<nextId, cur, ngen, wexp, mine, lastTrunc>>
gvars == <<ackd, nack, infl, ncrash, ckf, tornrec, rcont>>
dbvars == <<hvars, blk, blkMax, oooSeen, app, stored, kfset, kindv>>
cvars == <<dbvars, nops, hist, fvars, mvars, pc, prog, nstep, gvars, trace>>
CView == <<dbvars, fvars, mvars, pc, prog, ackd, infl, ncrash, ckf, tornrec, rcont>>

WblOn == W > 0
Ranges == <<R, 3 * R, 9 * R>>        \* ExponentialBlockRanges(MinBlockDuration, 10, 3) cut at MaxBlockDuration = 9R

\* Scripts (cfg files cannot hold tuples).  A token names the kind of the next call and optionally what it must achieve:
\*   N NewAppender; A Append (Ai accepted in order at the next time of the axis above the head's maximum, Aj accepted in
\*   order at the first time that makes the head compactable, Ao accepted out of order, Ax rejected); C Commit; B Rollback;
\*   D Delete (Dd deletes something, Db deletes something from a block); H Compact (Hb writes at least one head block); O CompactOOO (Oo with out-of-order data);
\*   T CleanTombstones (Tt rewrites a block); M Mmap; R Reopen
KindOf(tok) ==
   CASE tok = "N" -> "NewAppender" [] tok \in {"A", "Ai", "Aj", "Ah", "Ao", "An", "Ax"} -> "Append" [] tok = "C" -> "Commit" [] tok = "B" -> "Rollback"
     [] tok \in {"D", "Dd", "Db"} -> "Delete" [] tok \in {"H", "Hb"} -> "Compact" [] tok \in {"O", "Oo"} -> "CompactOOO"
     [] tok \in {"T", "Tt"} -> "CleanTombstones" [] tok = "M" -> "Mmap" [] tok = "R" -> "Reopen"
NC == <<"N", "Ai", "C">>
NCC == <<"N", "Ai", "Ai", "C">>
NJC == <<"N", "Aj", "C">>
NOC == <<"N", "Ao", "C">>
Script ==
  CASE ScriptName = "free" -> <<>>
    \* torn record of a big series record with acknowledged out-of-order data in the WBL (KF-C03-1, KF-C03-2)
    [] ScriptName = "k1" -> <<"N", "A", "C">> \o NOC \o NC
    \* restarts (one WAL segment each), head compaction with checkpoint and segment removal, again (old checkpoint removed)
    [] ScriptName = "s1" -> NC \o <<"R">> \o NCC \o <<"R">> \o NC \o <<"R">> \o NJC \o <<"Hb">> \o NJC \o <<"R">> \o NJC \o <<"Hb", "R">>
    \* head compaction, delete over head and block, compaction, tombstone cleaning, restart
    [] ScriptName = "s2" -> NC \o NCC \o NJC \o <<"Hb">> \o NC \o <<"Db", "H", "Tt">> \o NC \o <<"R">>
    \* out-of-order data: WBL, out-of-order compaction, head compaction with out-of-order head and vertical block compaction
    [] ScriptName = "s3" -> NC \o NC \o NOC \o <<"Oo">> \o NC \o NOC \o NJC \o <<"Hb">> \o NJC \o <<"Hb", "R">>
    \* out-of-order data left in the WBL (also across a restart) and in m-mapped chunks, no compaction (C04)
    [] ScriptName = "d1" -> NC \o NCC \o NOC \o NOC \o NC \o <<"R">> \o NOC \o NC \o NOC
    \* one head-chunk file holding several m-mapped out-of-order chunks of one series one after the other (run with a single
    \* series, OOOCap = 2 and a wide window: the 3rd, 5th, 7th ... out-of-order sample m-maps a chunk), WAL and WBL complete (C04)
    [] ScriptName = "d2" -> <<"N", "Ah", "C">> \o <<"N", "An", "An", "An", "C">> \o <<"N", "An", "An", "C">>
                            \o <<"N", "An", "An", "C">> \o <<"N", "An", "An", "C">>
    \* shutdown with series that hold completed (m-mappable) head chunks besides the open one, twice; the harness runs
    \* the workloads of this script with EnableMemorySnapshotOnShutdown (Init record: snap) and kills inside Close
    [] ScriptName = "c1" -> NCC \o NCC \o NC \o <<"R">> \o NCC \o <<"R">>
    \* rollback of a new series, rejected append, commit
    [] ScriptName = "s4" -> NC \o NC \o <<"N", "Ax", "Ai", "C", "N", "Ai", "B", "R">> \o NC \o <<"N", "Ai", "B">> \o NJC \o <<"Hb">>

-----------------------------------------------------------------------------
(* Files *)

EmptySeg == [recs |-> <<>>, nbig |-> 0, dirty |-> FALSE, torn |-> FALSE]
LastIdx(l) == l.first + Len(l.segs) - 1
LastSeg(l) == l.segs[Len(l.segs)]
SetLast(l, sg) == [l EXCEPT !.segs = [@ EXCEPT ![Len(l.segs)] = sg]]

Ref(s) == <<s, cur[s]>>
IsBigRec(r) == r.k = "ser" /\ \E x \in r.refs : x[1] \in BigSeries

\* one step of a program
St(site, e) == [site |-> site, e |-> e]
Nop == [k |-> "nop"]
Mark(site) == St(site, Nop)

\* Apply the effect of a step to the files f = [wal, wbl, cps, cptmp, blks, tmpc, tmpd, rep]
LogOf(f, l) == IF l = "wal" THEN f.wal ELSE f.wbl
WithLog(f, l, v) == IF l = "wal" THEN [f EXCEPT !.wal = v] ELSE [f EXCEPT !.wbl = v]
Apply(f, e) ==
  CASE e.k = "nop" -> f
    [] e.k = "rec" ->      \* the write of the page(s) holding the end of record e.r
         LET lg == LogOf(f, e.l)  sg == LastSeg(lg) IN
         WithLog(f, e.l, SetLast(lg, [sg EXCEPT !.recs = Append(@, e.r), !.dirty = TRUE, !.torn = FALSE,
                                                 !.nbig = IF IsBigRec(e.r) THEN 1 ELSE @]))
    [] e.k = "torn" ->     \* a full page holding the first fragment of a record has been written
         LET lg == LogOf(f, e.l) IN WithLog(f, e.l, SetLast(lg, [LastSeg(lg) EXCEPT !.dirty = TRUE, !.torn = TRUE]))
    [] e.k = "newseg" ->   \* CreateSegment(last + 1)
         LET lg == LogOf(f, e.l) IN WithLog(f, e.l, [lg EXCEPT !.segs = Append(@, EmptySeg)])
    [] e.k = "rmfirst" ->  \* os.Remove of the lowest segment
         LET lg == LogOf(f, e.l) IN WithLog(f, e.l, [first |-> lg.first + 1, segs |-> Tail(lg.segs)])
    [] e.k = "rmlast" ->
         LET lg == LogOf(f, e.l) IN WithLog(f, e.l, [lg EXCEPT !.segs = SubSeq(@, 1, Len(@) - 1)])
    [] e.k = "torepair" -> \* rename <k> -> <k>.repair: the segment disappears from the log
         [f EXCEPT !.rep = <<LastSeg(f.wal)>>, !.wal = [f.wal EXCEPT !.segs = SubSeq(@, 1, Len(@) - 1)]]
    [] e.k = "rmrepair" -> [f EXCEPT !.rep = <<>>]
    [] e.k = "cptmp" -> [f EXCEPT !.cptmp = TRUE]
    [] e.k = "cpcommit" -> [f EXCEPT !.cptmp = FALSE, !.cps = @ \cup {[idx |-> e.idx, recs |-> e.recs]}]
    [] e.k = "cprm" -> [f EXCEPT !.cps = {c \in @ : c.idx # e.idx}]
    [] e.k = "blktmp" -> [f EXCEPT !.tmpc = @ \cup {e.id}]
    [] e.k = "blktmprm" -> [f EXCEPT !.tmpc = @ \ {e.id}]
    [] e.k = "blkcommit" -> [f EXCEPT !.tmpc = @ \ {e.b.id}, !.blks = @ \cup {e.b}]
    [] e.k = "blktombs" -> [f EXCEPT !.blks = {IF b.id = e.id THEN [b EXCEPT !.tomb = e.tomb] ELSE b : b \in @}]
    [] e.k = "blkmeta" -> [f EXCEPT !.blks = {IF b.id = e.id THEN [b EXCEPT !.ntomb = e.ntomb, !.del = e.del] ELSE b : b \in @}]
    [] e.k = "blkdel1" -> [f EXCEPT !.blks = {b \in @ : b.id # e.id}, !.tmpd = @ \cup {e.id}]
    [] e.k = "blkdel2" -> [f EXCEPT !.tmpd = @ \ {e.id}]
    [] e.k = "clean" -> [f EXCEPT !.tmpc = {}, !.tmpd = {}, !.cptmp = FALSE]

RECURSIVE ApplyAll(_, _)
ApplyAll(f, pr) == IF pr = <<>> THEN f ELSE ApplyAll(Apply(f, pr[1].e), Tail(pr))

Files == [wal |-> wal, wbl |-> wbl, cps |-> cps, cptmp |-> cptmp, blks |-> blks, tmpc |-> tmpc, tmpd |-> tmpd, rep |-> rep]
SetFiles(f) == /\ wal' = f.wal /\ wbl' = f.wbl /\ cps' = f.cps /\ cptmp' = f.cptmp
               /\ blks' = f.blks /\ tmpc' = f.tmpc /\ tmpd' = f.tmpd /\ rep' = f.rep

-----------------------------------------------------------------------------
(* WL.Log(rec): one call per record on the commit path.  A record that does not fit into the rest of the
   segment first terminates it (flush of the padded page, CreateSegment).  A record larger than a page is
   written in two page writes; between them the file ends in a `first` fragment: a torn record.
   With 2-page segments a segment takes one big record; small records always fit. *)
Flush(l) == "wlog.page.flushed/" \o l
LogProg(lg, l, r) ==
  LET sg == LastSeg(lg)
      rot == IsBigRec(r) /\ sg.nbig > 0
      pre == IF rot THEN (IF sg.dirty THEN <<Mark(Flush(l))>> ELSE <<>>) \o <<St("wlog.segment.created/" \o l, [k |-> "newseg", l |-> l])>>
             ELSE <<>>
  IN pre \o (IF IsBigRec(r) THEN <<St(Flush(l), [k |-> "torn", l |-> l])>> ELSE <<>>)
         \o <<St(Flush(l), [k |-> "rec", l |-> l, r |-> r])>>

\* several Log calls in sequence on the same log
RECURSIVE LogSeq(_, _, _)
LogSeq(lg, l, rs) ==
  IF rs = <<>> THEN <<>>
  ELSE LET p == LogProg(lg, l, rs[1])
           f1 == ApplyAll([wal |-> lg, wbl |-> lg], p)
       IN p \o LogSeq(LogOf(f1, l), l, Tail(rs))

\* WL.NextSegment / NextSegmentSync: pad and write the page if it holds data, create the next segment
NextSegProg(lg, l) ==
  (IF LastSeg(lg).dirty THEN <<Mark(Flush(l))>> ELSE <<>>) \o <<St("wlog.segment.created/" \o l, [k |-> "newseg", l |-> l])>>

\* WL.Truncate(i): remove segments below index i, lowest first
RECURSIVE RmSegs(_, _, _)
RmSegs(l, from, to) == IF from >= to THEN <<>>
                       ELSE <<St("wlog.segment.removed/" \o l, [k |-> "rmfirst", l |-> l])>> \o RmSegs(l, from + 1, to)

-----------------------------------------------------------------------------
(* What a replay of the files yields: tsdb.open -> reloadBlocks, Head.Init (loadWAL, loadWBL) *)

Parents(B) == UNION {b.parents : b \in B}
\* blocks that stay loaded after reloadBlocks: not a parent of another block in the directory, not marked deletable
Visible(B) == {b \in B : b.id \notin Parents(B) /\ ~b.del}
Live(b, s) == {x \in b.data[s] : \A iv \in b.tomb[s] : ~(iv[1] <= x.t /\ x.t <= iv[2])}
BlkOf(B, s) == UNION {Live(b, s) : b \in Visible(B)}
MaxOr(S, d) == IF S = {} THEN d ELSE SetMax(S)
BlkMaxOf(B) == MaxOr({b.maxt : b \in {x \in Visible(B) : ~x.ooo}}, NegInf)

RECURSIVE Flat(_)
Flat(ss) == IF ss = <<>> THEN <<>> ELSE ss[1].recs \o Flat(Tail(ss))
LastCp(C) == CHOOSE c \in C : \A d \in C : d.idx <= c.idx
\* records read by loadWAL: the newest checkpoint, then the segments above its index
WalRecs(f) ==
  LET cp == IF f.cps = {} THEN <<>> ELSE LastCp(f.cps).recs
      from == IF f.cps = {} THEN f.wal.first ELSE Max2(f.wal.first, LastCp(f.cps).idx + 1)
      n == Len(f.wal.segs)
      k == from - f.wal.first + 1
  IN cp \o (IF k > n THEN <<>> ELSE Flat(SubSeq(f.wal.segs, k, n)))
Torn(f) == \E i \in 1..Len(f.wal.segs) : f.wal.segs[i].torn

\* loadWAL: a sample is appended if its series record was seen, t >= minValidTime and t is above the series' newest sample
RECURSIVE ReplayWal(_, _, _, _)
ReplayWal(rs, seen, acc, mv) ==   \* acc: [Series -> Seq(Sample)] in-order samples; returns [ino, seen, del]
  IF rs = <<>> THEN [ino |-> acc.ino, seen |-> seen, del |-> acc.del]
  ELSE LET r == rs[1] IN
    CASE r.k = "ser" -> ReplayWal(Tail(rs), seen \cup r.refs, acc, mv)
      [] r.k = "smp" ->
           LET RECURSIVE Add(_, _)
               Add(q, a) == IF q = <<>> THEN a
                            ELSE LET x == q[1]  s == x.ref[1] IN
                                 IF x.ref \in seen /\ x.t >= mv /\ (a[s] = <<>> \/ x.t > Last(a[s]).t)
                                 THEN Add(Tail(q), [a EXCEPT ![s] = Append(@, [t |-> x.t, v |-> x.v, ty |-> x.ty])])
                                 ELSE Add(Tail(q), a)
           IN ReplayWal(Tail(rs), seen, [acc EXCEPT !.ino = Add(r.smp, acc.ino)], mv)
      [] r.k = "tomb" -> ReplayWal(Tail(rs), seen, [acc EXCEPT !.del = @ \cup {d \in r.del : d[1] \in seen}], mv)
      [] OTHER -> ReplayWal(Tail(rs), seen, acc, mv)

WblSamples(f, seen) ==
  [s \in Series |-> UNION {{[t |-> x.t, v |-> x.v, ty |-> x.ty] : x \in {y \in Range(r.smp) : y.ref[1] = s /\ y.ref \in seen}}
                           : r \in {q \in Range(Flat(f.wbl.segs)) : q.k = "osmp"}}]

\* contents of the database opened on files f.  A torn WAL record makes Head.Init fail: the WAL is repaired, the head keeps
\* what was replayed before the error, and Init has returned before reading the WBL (KF-C03-1).
RecoveredT(f, torn) ==
  LET mv == BlkMaxOf(f.blks)
      rp == ReplayWal(WalRecs(f), {}, [ino |-> [s \in Series |-> <<>>], del |-> {}], mv)
      oo == IF torn THEN [s \in Series |-> {}] ELSE WblSamples(f, rp.seen)
  IN [s \in Series |->
        {x \in Range(rp.ino[s]) : \A d \in rp.del : ~(d[1][1] = s /\ d[2] = x.t)} \cup oo[s] \cup BlkOf(f.blks, s)]
Recovered(f) == RecoveredT(f, FALSE)

-----------------------------------------------------------------------------
(* Block writing: LeveledCompactor.write(dest, meta, blocks...) *)

NSeries(data) == Cardinality({s \in Series : data[s] # {}})
NoTomb == [s \in Series |-> {}]
MkBlock(id, mint, maxt, ooo, level, parents, src, data) ==
  [id |-> id, mint |-> mint, maxt |-> maxt, ooo |-> ooo, level |-> level, parents |-> parents, src |-> src,
   data |-> data, tomb |-> NoTomb, ntomb |-> 0, del |-> FALSE]
Empty(data) == \A s \in Series : data[s] = {}

BlockProg(b) ==
  <<St("block.tmp.created", [k |-> "blktmp", id |-> b.id]), Mark("block.populated")>>
  \o (IF Empty(b.data)
      THEN <<St("block.files.closed", [k |-> "blktmprm", id |-> b.id])>>     \* empty result: tmp dir removed on return
      ELSE <<Mark("block.files.closed"),
             Mark("blockmeta.tmp.written"), Mark("fileutil.renamed"),       \* meta.json.tmp -> meta.json inside the tmp dir
             Mark("tombstones.tmp.written"), Mark("fileutil.renamed"),      \* empty tombstones file
             Mark("block.dir.synced"),
             St("fileutil.renamed", [k |-> "blkcommit", b |-> b]),          \* <ulid>.tmp-for-creation -> <ulid>
             Mark("block.renamed")>>)

\* DB.reloadBlocks on directory B: swap, then deleteBlocks for the parents of the blocks in the directory and the
\* blocks marked deletable (ascending id; the code iterates a map)
RECURSIVE SeqOfIds(_)
SeqOfIds(S) == IF S = {} THEN <<>> ELSE LET m == SetMin(S) IN <<m>> \o SeqOfIds(S \ {m})
RECURSIVE DelProg(_)
DelProg(ids) == IF ids = <<>> THEN <<>>
                ELSE <<Mark("db.delete.closed"), St("fileutil.renamed", [k |-> "blkdel1", id |-> ids[1]]),
                       Mark("db.delete.renamed"), St("db.delete.removed", [k |-> "blkdel2", id |-> ids[1]])>> \o DelProg(Tail(ids))
Deletable(B) == {b.id : b \in {x \in B : x.id \in Parents(B) \/ x.del}}
ReloadProg(B) == <<Mark("db.reload.pre_swap"), Mark("db.reload.swapped")>> \o DelProg(SeqOfIds(Deletable(B)))

-----------------------------------------------------------------------------
(* tsdb.open *)

\* WL.Repair of the torn segment (always the last written one; NewSize has created an empty one above it)
RepairProg(f) ==
  LET n == Len(f.wal.segs)
      k == CHOOSE i \in 1..n : f.wal.segs[i].torn
      later == [i \in 1..(n - k) |-> St("wlog.repair.later_removed/wal", [k |-> "rmlast", l |-> "wal"])]
      recs == f.wal.segs[k].recs
      fresh == [first |-> 0, segs |-> <<EmptySeg>>]
  IN <<Mark("db.open.head_init_failed")>> \o later
     \o <<St("fileutil.renamed", [k |-> "torepair"]), Mark("wlog.repair.renamed/wal"),
          St("wlog.repair.recreated/wal", [k |-> "newseg", l |-> "wal"])>>
     \o LogSeq(fresh, "wal", recs)                  \* re-insert the records before the corruption
     \o <<Mark(Flush("wal")),                       \* pad the last page
          St("wlog.repair.tmp_removed/wal", [k |-> "rmrepair"]),
          St("wlog.repair.done/wal", [k |-> "newseg", l |-> "wal"])>>

OpenProg(f) ==
  LET p1 == <<St("db.open.tmp_cleaned", [k |-> "clean"]), St("wlog.opened/wal", [k |-> "newseg", l |-> "wal"])>>
            \o (IF WblOn THEN <<St("wlog.opened/wbl", [k |-> "newseg", l |-> "wbl"])>> ELSE <<>>)
      f1 == ApplyAll(f, p1)
      p2 == ReloadProg(f1.blks) \o <<Mark("db.open.reloaded")>>
      f2 == ApplyAll(f1, p2)
      p3 == IF Torn(f2) THEN RepairProg(f2) ELSE <<>>
  IN p1 \o p2 \o p3 \o <<Mark("db.open.done")>>

\* DB.Close -> Head.Close -> WL.Close
CloseLog(lg, l) == (IF LastSeg(lg).dirty THEN <<Mark(Flush(l))>> ELSE <<>>) \o <<Mark("wlog.closed/" \o l)>>
\* (the chunk disk mapper is flushed and closed first: everything m-mapped is on disk before a shutdown snapshot, which
\*  relies on it, can appear)
CloseProg(f) == <<Mark("head.close.mmapped"), Mark("cdm.closed")>> \o CloseLog(f.wal, "wal")
                \o (IF WblOn THEN CloseLog(f.wbl, "wbl") ELSE <<>>) \o <<Mark("head.close.done"), Mark("closed")>>

-----------------------------------------------------------------------------
(* Head.truncateWAL(mint) on files f; keep = refs whose series record stays in the checkpoint *)

FilterRec(r, keep, mint) ==
  CASE r.k = "ser" -> [r EXCEPT !.refs = {x \in @ : x \in keep}]
    [] r.k = "smp" -> [r EXCEPT !.smp = SelectSeq(@, LAMBDA x : x.t >= mint)]
    [] r.k = "tomb" -> [r EXCEPT !.del = {d \in @ : d[1] \in keep /\ d[2] >= mint}]
    [] OTHER -> r
NonEmptyRec(r) == CASE r.k = "ser" -> r.refs # {} [] r.k = "smp" -> r.smp # <<>> [] r.k = "tomb" -> r.del # {} [] OTHER -> TRUE
RECURSIVE FilterRecs(_, _, _)
FilterRecs(rs, keep, mint) ==
  IF rs = <<>> THEN <<>>
  ELSE LET r == FilterRec(rs[1], keep, mint) IN (IF NonEmptyRec(r) THEN <<r>> ELSE <<>>) \o FilterRecs(Tail(rs), keep, mint)

RECURSIVE CpRm(_)
CpRm(ids) == IF ids = <<>> THEN <<>> ELSE <<St("checkpoint.old.removed", [k |-> "cprm", idx |-> ids[1]])>> \o CpRm(Tail(ids))
RECURSIVE Times_(_, _)
Times_(x, n) == IF n <= 0 THEN <<>> ELSE <<x>> \o Times_(x, n - 1)

CpMade(f) == LET first == f.wal.first  last1 == LastIdx(f.wal) - 1 IN
             ~(last1 < 0 \/ first + ((last1 - first) * 2) \div 3 <= first)
TruncWalProg(f, mint, keep) ==
  LET first == f.wal.first
      last0 == LastIdx(f.wal)                 \* wlog.Segments before NextSegment
      p1 == <<Mark("head.wal_trunc.begin")>> \o NextSegProg(f.wal, "wal")
      last1 == last0 - 1                      \* "never consider last segment for checkpoint"
      to == first + ((last1 - first) * 2) \div 3
  IN IF last1 < 0 \/ to <= first THEN p1
     ELSE
       LET cpfrom == IF f.cps = {} THEN first ELSE Max2(first, LastCp(f.cps).idx + 1)
           old == IF f.cps = {} THEN <<>> ELSE LastCp(f.cps).recs
           src == old \o (IF cpfrom > to THEN <<>> ELSE Flat(SubSeq(f.wal.segs, cpfrom - first + 1, to - first + 1)))
           recs == FilterRecs(src, keep, mint)
           nbig == Cardinality({i \in 1..Len(recs) : IsBigRec(recs[i])})
           \* cp.Log(recs...): one page write per page filled by a big record, one for the rest; cp.Close pads the last page
           writes == IF recs = <<>> THEN <<>> ELSE Times_(Mark(Flush("tmp")), nbig + 2)
       IN p1 \o <<St("checkpoint.tmp.created", [k |-> "cptmp"]), Mark("wlog.opened/tmp")>> \o writes
             \o <<Mark("wlog.closed/tmp"), Mark("checkpoint.dir.synced"),
                  St("fileutil.renamed", [k |-> "cpcommit", idx |-> to, recs |-> recs]), Mark("checkpoint.renamed")>>
             \o RmSegs("wal", first, to + 1)
             \o CpRm(SeqOfIds({c.idx : c \in {x \in f.cps : x.idx < to}}))
             \o <<Mark("head.wal_trunc.done")>>

-----------------------------------------------------------------------------
Inc(i) == i + 1
Marker(kind) == "op:" \o ToString(Len(hist)) \o ":" \o kind

InitTrace == <<"db.open.tmp_cleaned", "wlog.opened/wal">> \o (IF WblOn THEN <<"wlog.opened/wbl">> ELSE <<>>)
             \o <<"db.reload.pre_swap", "db.reload.swapped", "db.open.reloaded", "db.open.done">>

CInit ==
  /\ ino = [s \in Series |-> <<>>] /\ ooh = [s \in Series |-> <<>>] /\ oom = [s \in Series |-> {}]
  /\ oghost = [s \in Series |-> {}]
  /\ hdel = [s \in Series |-> {}] /\ htomb = [s \in Series |-> {}] /\ wino = [s \in Series |-> <<>>]
  /\ hInit = FALSE /\ hMin = PosInf /\ hMax = NegInf /\ minValid = NegInf
  /\ blk = [s \in Series |-> {}] /\ blkMax = NegInf /\ oooSeen = (W > 0)
  /\ app = [a \in Apps |-> NoApp]
  /\ stored = [s \in Series |-> {}]
  /\ kfset = {} /\ kindv = "any" /\ nops = 0
  /\ hist = <<[a |-> "Init", R |-> R, W |-> W, cap |-> OOOCap, seg |-> 2, bigs |-> SetToSeq(BigSeries), snap |-> (ScriptName = "c1")]>>
  /\ wal = [first |-> 0, segs |-> <<EmptySeg>>]
  /\ wbl = IF WblOn THEN [first |-> 0, segs |-> <<EmptySeg>>] ELSE [first |-> 0, segs |-> <<>>]
  /\ cps = {} /\ cptmp = FALSE /\ blks = {} /\ tmpc = {} /\ tmpd = {} /\ rep = <<>>
  /\ nextId = 1
  /\ cur = [s \in Series |-> 0] /\ ngen = [s \in Series |-> 0] /\ wexp = {}
  /\ mine = [a \in Apps |-> {}]
  /\ lastTrunc = NegInf
  /\ pc = "idle" /\ prog = <<>> /\ nstep = 0
  /\ ackd = [s \in Series |-> {}] /\ nack = 0 /\ infl = "" /\ ncrash = 0 /\ ckf = {} /\ tornrec = FALSE
  /\ rcont = [s \in Series |-> {}]
  /\ trace = InitTrace
  /\ TLCSet(1, {})

\* a call begins: Db's action has been taken in this step (memory effect, workload record appended to hist)
Begin(kind, pr) ==
  /\ pc' = "run" /\ prog' = pr /\ nstep' = 0
  /\ infl' = kind
  /\ trace' = Append(trace, Marker(kind))
  /\ UNCHANGED <<fvars, ackd, nack, ncrash, ckf, tornrec, rcont>>

\* KF-C03-3: the call removes the in-order block with the highest MaxTime (all its samples were deleted and the block is
\* dropped by block compaction or CleanTombstones) while the WAL still holds samples below that time: after a restart
\* minValidTime is lower and the WAL replay appends the deleted samples again.  Db.tla keeps blkMax monotone.
BeginKF(kind, pr, trig) ==
  /\ (trig => "KF-C03-3" \in CAllowKF)
  /\ pc' = "run" /\ prog' = pr /\ nstep' = 0
  /\ infl' = kind
  /\ trace' = Append(trace, Marker(kind))
  /\ ckf' = IF trig THEN ckf \cup {"KF-C03-3"} ELSE ckf
  /\ UNCHANGED <<fvars, ackd, nack, ncrash, tornrec, rcont>>

ScriptOK(kind) == IF Script = <<>> THEN TRUE ELSE (nops < Len(Script) /\ KindOf(Script[nops + 1]) = kind)
\* what the scripted call must achieve, evaluated on the step that begins it
ScriptAim ==
  IF Script = <<>> THEN TRUE ELSE
  LET tok == Script[nops + 1]  r == hist'[Len(hist')] IN
  CASE tok = "Ai" -> r.ret = "ok" /\ ~r.ooo /\ \A t \in Times : ~(t > hMax /\ t < r.t) /\ (hInit => r.t > hMax)
    [] tok = "Aj" -> r.ret = "ok" /\ ~r.ooo /\ hInit /\ r.t > hMax /\ r.t - hMin > (R \div 2) * 3
                     /\ \A t \in Times : ~(t > hMax /\ t - hMin > (R \div 2) * 3 /\ t < r.t)
    [] tok = "Ao" -> r.ret = "ok" /\ r.ooo
    \* Ah: accepted in order at the top of the time axis; An: accepted out of order at a timestamp the series does not hold yet
    [] tok = "Ah" -> r.ret = "ok" /\ ~r.ooo /\ r.t = SetMax(Times)
    [] tok = "An" -> /\ r.ret = "ok" /\ r.ooo
                     /\ \A x \in stored[r.s] : x.t # r.t
                     /\ \A i \in 1..Len(app[r.app].pend) : ~(app[r.app].pend[i].s = r.s /\ app[r.app].pend[i].t = r.t)
    [] tok = "Ax" -> r.ret # "ok"
    [] tok = "Dd" -> stored' # stored
    [] tok = "Db" -> blk' # blk
    [] tok = "Hb" -> r.nblocks > 0
    [] tok = "Oo" -> \E s \in Series : OOOAll(s) # {}
    [] tok = "Tt" -> prog' # <<>>
    [] OTHER -> TRUE

-----------------------------------------------------------------------------
(* Calls without persistent effect *)

CNewAppender(a, api, rej) ==
  /\ pc = "idle" /\ ScriptOK("NewAppender")
  /\ NewAppender(a, api, rej)
  /\ Begin("NewAppender", <<>>)
  /\ UNCHANGED mvars

\* headAppender.Append: getOrCreate makes the series exist in memory (its record is logged by this appender's Commit/Rollback)
CAppend(a, s, t, v, ty) ==
  /\ pc = "idle" /\ ScriptOK("Append")
  /\ AppendSample(a, s, t, v, ty)
  /\ LET created == s \in app'[a].touched /\ cur[s] = 0 IN
     /\ cur' = IF created THEN [cur EXCEPT ![s] = ngen[s] + 1] ELSE cur
     /\ ngen' = IF created THEN [ngen EXCEPT ![s] = @ + 1] ELSE ngen
     /\ mine' = IF created THEN [mine EXCEPT ![a] = @ \cup {s}] ELSE mine
  /\ Begin("Append", <<>>)
  /\ UNCHANGED <<nextId, wexp, lastTrunc>>

CMmap ==
  /\ pc = "idle" /\ ScriptOK("Mmap")
  /\ Mmap
  /\ Begin("Mmap", <<>>)
  /\ UNCHANGED mvars

-----------------------------------------------------------------------------
(* Commit / Rollback *)

SerRec(a) == IF mine[a] = {} THEN <<>> ELSE <<[k |-> "ser", refs |-> {Ref(s) : s \in mine[a]}]>>
\* one record per batch and sample type, in the order of headAppenderBase.log()
SmpRecs(pend, nb) ==
  LET RECURSIVE B(_)
      Of(b, ty) == LET q == SelectSeq(pend, LAMBDA x : x.b = b /\ x.ty = ty) IN
                   IF q = <<>> THEN <<>>
                   ELSE <<[k |-> "smp", smp |-> [i \in 1..Len(q) |-> [ref |-> Ref(q[i].s), t |-> q[i].t, v |-> q[i].v, ty |-> q[i].ty]]]>>
      B(b) == IF b > nb THEN <<>> ELSE Of(b, "f") \o Of(b, "h") \o Of(b, "fh") \o B(b + 1)
  IN B(1)

CCommit(a) ==
  /\ pc = "idle" /\ ScriptOK("Commit")
  /\ Commit(a)
  /\ LET ap == app[a]
         walrecs == IF ap.st = "init" THEN <<>> ELSE SerRec(a) \o SmpRecs(ap.pend, ap.nb)
         newO(s) == (Range(ooh'[s]) \cup oom'[s]) \ (Range(ooh[s]) \cup oom[s])
         osmp == UNION {{[ref |-> Ref(s), t |-> x.t, v |-> x.v, ty |-> x.ty] : x \in newO(s)} : s \in Series}
         wblrecs == IF osmp = {} \/ ~WblOn THEN <<>> ELSE <<[k |-> "osmp", smp |-> SetToSeq(osmp)]>>
     IN Begin("Commit", LogSeq(wal, "wal", walrecs) \o LogSeq(wbl, "wbl", wblrecs))
  /\ mine' = [mine EXCEPT ![a] = {}]
  /\ UNCHANGED <<nextId, cur, ngen, wexp, lastTrunc>>

CRollback(a) ==
  /\ pc = "idle" /\ ScriptOK("Rollback")
  /\ Rollback(a)
  /\ Begin("Rollback", LogSeq(wal, "wal", SerRec(a)))
  /\ mine' = [mine EXCEPT ![a] = {}]
  /\ UNCHANGED <<nextId, cur, ngen, wexp, lastTrunc>>

-----------------------------------------------------------------------------
(* DB.Delete: every block overlapping [lo, hi] rewrites its tombstones file and meta.json (Block.Delete), the head
   logs a tombstones record (Head.Delete); all in parallel goroutines (program order here: blocks by id, then head) *)

Span(X) == <<SetMin({x.t : x \in X}), SetMax({x.t : x \in X})>>
BlockStones(b, S, lo, hi) ==
  [s \in Series |->
     IF s \in S /\ b.data[s] # {} /\ Span(b.data[s])[1] <= hi /\ lo <= Span(b.data[s])[2]
     THEN b.tomb[s] \cup {<<Max2(lo, Span(b.data[s])[1]), Min2(hi, Span(b.data[s])[2])>>}
     ELSE b.tomb[s]]
NTomb(tb) == LET RECURSIVE Sum(_)
                 Sum(X) == IF X = {} THEN 0 ELSE LET s == CHOOSE y \in X : TRUE IN Cardinality(tb[s]) + Sum(X \ {s})
             IN Sum(Series)
RECURSIVE BlockDelProg(_, _, _, _)
BlockDelProg(bs, S, lo, hi) ==
  IF bs = <<>> THEN <<>>
  ELSE LET b == bs[1]  tb == BlockStones(b, S, lo, hi) IN
       <<Mark("tombstones.tmp.written"), St("fileutil.renamed", [k |-> "blktombs", id |-> b.id, tomb |-> tb]),
         Mark("blockmeta.tmp.written"), St("fileutil.renamed", [k |-> "blkmeta", id |-> b.id, ntomb |-> NTomb(tb), del |-> b.del])>>
       \o BlockDelProg(Tail(bs), S, lo, hi)
RECURSIVE BlocksById(_)
BlocksById(B) == IF B = {} THEN <<>> ELSE LET m == CHOOSE x \in B : \A y \in B : x.id <= y.id IN <<m>> \o BlocksById(B \ {m})

CDelete(S, lo, hi) ==
  /\ pc = "idle" /\ ScriptOK("Delete")
  /\ Delete(S, lo, hi)
  /\ LET bs == BlocksById({b \in Visible(blks) : b.mint <= hi /\ lo < b.maxt})
         headOn == hInit /\ hMin <= hi /\ lo <= hMax
         del == UNION {{<<Ref(s), t>> : t \in hdel'[s]} : s \in {x \in S : cur[x] > 0}}
     IN Begin("Delete", BlockDelProg(bs, S, lo, hi)
                        \o (IF headOn THEN LogSeq(wal, "wal", <<[k |-> "tomb", del |-> del]>>) ELSE <<>>))
  /\ UNCHANGED mvars

-----------------------------------------------------------------------------
(* DB.Compact: head blocks, WAL truncation, out-of-order head, block compaction *)

RECURSIVE HeadBlocks(_)
HeadBlocks(st) ==       \* the blocks written by the loop of DB.Compact (cf. Db!HeadLoop)
  IF ~(st.hMax - st.hMin > (R \div 2) * 3) THEN <<>>
  ELSE LET mint == st.hMin
           maxt == RangeForTs(mint)
           nxt == AfterGC([st EXCEPT !.ino = [s \in Series |-> SelectSeq(st.ino[s], LAMBDA x : x.t >= maxt)],
                                     !.hMin = Max2(st.hMin, maxt), !.minValid = maxt, !.hMax = Max2(st.hMax, maxt)])
       IN <<[mint |-> mint, maxt |-> maxt,
             data |-> [s \in Series |-> {x \in Range(st.ino[s]) : x.t >= mint /\ x.t <= maxt - 1 /\ x.t \notin st.hdel[s]}]]>>
          \o HeadBlocks(nxt)

\* program for writing blocks hb[i..] with ids id.., each followed by reload: returns [p, f, id]
RECURSIVE HeadProg(_, _, _, _)
HeadProg(hb, i, f, id) ==
  IF i > Len(hb) THEN [p |-> <<>>, f |-> f, id |-> id]
  ELSE LET b == MkBlock(id, hb[i].mint, hb[i].maxt, FALSE, 1, {}, {id}, hb[i].data)
           p1 == BlockProg(b) \o <<Mark("db.compact_head.written")>>
           f1 == ApplyAll(f, p1)
           p2 == ReloadProg(f1.blks) \o <<Mark("db.compact_head.reloaded")>>
           f2 == ApplyAll(f1, p2)
           r == HeadProg(hb, i + 1, f2, id + 1)
       IN [p |-> p1 \o p2 \o r.p, f |-> r.f, id |-> r.id]

\* compactOOOHead on files f with out-of-order samples oo = [Series -> SUBSET Sample]
FloorTo(t) == R * (t \div R)
RECURSIVE OOOBlocks(_, _, _, _, _)
OOOBlocks(oo, t, hi, f, id) ==
  IF t > hi THEN [p |-> <<>>, f |-> f, id |-> id]
  ELSE LET b == MkBlock(id, t, t + R, TRUE, 1, {}, {id}, [s \in Series |-> {x \in oo[s] : x.t >= t /\ x.t <= t + R - 1}])
           p1 == BlockProg(b)
           r == OOOBlocks(oo, t + R, hi, ApplyAll(f, p1), id + 1)
       IN [p |-> p1 \o r.p, f |-> r.f, id |-> r.id]
OOOProg(oo, f, id) ==
  LET ts == UNION {{x.t : x \in oo[s]} : s \in Series}
      p0 == NextSegProg(f.wbl, "wbl")                          \* NewOOOCompactionHead: wbl.NextSegmentSync
      f0 == ApplyAll(f, p0)
      w == IF ts = {} THEN [p |-> <<>>, f |-> f0, id |-> id] ELSE OOOBlocks(oo, FloorTo(SetMin(ts)), SetMax(ts), f0, id)
      p2 == <<Mark("db.compact_ooo.written")>> \o ReloadProg(w.f.blks) \o <<Mark("db.compact_ooo.reloaded")>>
      f2 == ApplyAll(w.f, p2)
      p3 == RmSegs("wbl", f2.wbl.first, LastIdx(f2.wbl))      \* truncateOOO: wbl.Truncate(lastWBLFile)
  IN [p |-> p0 \o w.p \o p2 \o p3, f |-> ApplyAll(f2, p3), id |-> w.id]

\* DB.compactBlocks: plan / compact / reload until the plan is empty
MetaOf(b) == [id |-> b.id, mint |-> b.mint, maxt |-> b.maxt, stale |-> FALSE, sel |-> FALSE, ooo |-> b.ooo, failed |-> FALSE,
              tombs |-> b.ntomb, series |-> NSeries(b.data), level |-> b.level, src |-> b.src]
BlockById(B, id) == CHOOSE b \in B : b.id = id
RECURSIVE MarkDel(_)
MarkDel(ids) == IF ids = <<>> THEN <<>>
                ELSE <<Mark("blockmeta.tmp.written"), St("fileutil.renamed", [k |-> "blkmeta", id |-> ids[1].id, ntomb |-> ids[1].ntomb, del |-> TRUE]),
                       Mark("block.marked_deletable")>> \o MarkDel(Tail(ids))
RECURSIVE BlocksProg(_, _, _)
BlocksProg(f, id, fuel) ==
  LET pl == P!Plan({MetaOf(b) : b \in f.blks}, Ranges, TRUE) IN
  IF pl.dirs = <<>> \/ fuel = 0 THEN [p |-> <<>>, f |-> f, id |-> id]
  ELSE LET ps == [i \in 1..Len(pl.dirs) |-> BlockById(f.blks, pl.dirs[i].id)]
           m == P!Merge(id, pl.dirs)
           b == MkBlock(id, m.mint, m.maxt, m.ooo, m.level, {ps[i].id : i \in 1..Len(ps)}, m.src,
                        [s \in Series |-> UNION {Live(ps[i], s) : i \in 1..Len(ps)}])
           p1 == BlockProg(b) \o (IF Empty(b.data) THEN MarkDel(ps) ELSE <<>>)
           f1 == ApplyAll(f, p1)
           p2 == ReloadProg(f1.blks)
           r == BlocksProg(ApplyAll(f1, p2), id + 1, fuel - 1)
       IN [p |-> p1 \o p2 \o r.p, f |-> r.f, id |-> r.id]

HasHead(i, o, s) == i[s] # <<>> \/ o[s] # {}
InoMin(i) == LET ts == UNION {{x.t : x \in Range(i[s])} : s \in Series} IN IF ts = {} THEN PosInf ELSE SetMin(ts)

CCompact ==
  /\ pc = "idle" /\ ScriptOK("Compact")
  /\ Compact
  /\ LET st0 == [ino |-> ino, hdel |-> hdel, hMin |-> hMin, hMax |-> hMax, minValid |-> minValid]
         hb == HeadBlocks(st0)
         nhb == Len(hb)
         h == HeadProg(hb, 1, Files, nextId)
         oo == [s \in Series |-> OOOAll(s)]
         \* series GC after the head loop (truncateMemory -> gc): series without any data left in the head are dropped,
         \* their record stays in checkpoints while walExpiries says so
         cur1 == IF nhb = 0 THEN cur ELSE [s \in Series |-> IF HasHead(ino', oo, s) THEN cur[s] ELSE 0]
         wexp1 == IF nhb = 0 THEN wexp
                  ELSE wexp \cup {[ref |-> Ref(s), until |-> InoMin(ino')] : s \in {x \in Series : cur[x] > 0 /\ cur1[x] = 0}}
         mint == IF nhb = 0 THEN NegInf ELSE hb[nhb].maxt
         keep == {<<s, cur1[s]>> : s \in {x \in Series : cur1[x] > 0}} \cup {e.ref : e \in {x \in wexp1 : x.until >= mint}}
         doTrunc == nhb > 0 /\ mint > lastTrunc
         tw == IF doTrunc THEN TruncWalProg(h.f, mint, keep) ELSE <<>>
         f1 == ApplyAll(h.f, tw)
         doOOO == nhb > 0 /\ oooSeen
         o == IF doOOO THEN OOOProg(oo, f1, h.id) ELSE [p |-> <<>>, f |-> f1, id |-> h.id]
         anyOOO == \E s \in Series : oo[s] # {}
         cur2 == IF doOOO /\ anyOOO THEN [s \in Series |-> IF ino'[s] # <<>> THEN cur1[s] ELSE 0] ELSE cur1
         wexp2 == (IF doTrunc /\ CpMade(h.f) THEN {e \in wexp1 : e.until >= mint} ELSE wexp1)
                  \cup {[ref |-> <<s, cur1[s]>>, until |-> InoMin(ino')] : s \in {x \in Series : cur1[x] > 0 /\ cur2[x] = 0}}
         bc == BlocksProg(o.f, o.id, 4)
     IN /\ BeginKF("Compact", h.p \o tw \o o.p \o bc.p, BlkMaxOf(bc.f.blks) # blkMax')
        /\ nextId' = bc.id
        /\ cur' = cur2 /\ wexp' = wexp2
        /\ lastTrunc' = IF doTrunc THEN mint ELSE lastTrunc
  /\ UNCHANGED <<ngen, mine>>

CCompactOOO ==
  /\ pc = "idle" /\ ScriptOK("CompactOOO")
  /\ CompactOOO
  /\ LET oo == [s \in Series |-> OOOAll(s)]
         o == OOOProg(oo, Files, nextId)
         anyOOO == \E s \in Series : oo[s] # {}
         cur2 == IF anyOOO THEN [s \in Series |-> IF ino'[s] # <<>> THEN cur[s] ELSE 0] ELSE cur
     IN /\ Begin("CompactOOO", o.p)
        /\ nextId' = o.id
        /\ cur' = cur2
        /\ wexp' = wexp \cup {[ref |-> Ref(s), until |-> InoMin(ino')] : s \in {x \in Series : cur[x] > 0 /\ cur2[x] = 0}}
  /\ UNCHANGED <<ngen, mine, lastTrunc>>

-----------------------------------------------------------------------------
(* DB.CleanTombstones: every block with tombstones is rewritten (LeveledCompactor.Write with the old block as parent),
   reloadBlocks deletes the old one; an entirely deleted block is only marked deletable in memory *)
RECURSIVE CleanProg(_, _, _)
CleanProg(f, id, fuel) ==
  LET cand == {b \in Visible(f.blks) : \E s \in Series : b.tomb[s] # {}} IN
  IF cand = {} \/ fuel = 0 THEN [p |-> <<>>, f |-> f, id |-> id]
  ELSE LET old == CHOOSE b \in cand : \A c \in cand : b.mint < c.mint \/ (b.mint = c.mint /\ b.id <= c.id)
           nb == MkBlock(id, old.mint, old.maxt, old.ooo, 1, {old.id}, {id}, [s \in Series |-> Live(old, s)])
           p1 == BlockProg(nb)
           f1 == ApplyAll(f, p1)
           \* pb.meta.Compaction.Deletable = true: in memory only
           f1d == [f1 EXCEPT !.blks = {IF b.id = old.id THEN [b EXCEPT !.del = TRUE] ELSE b : b \in @}]
           p2 == ReloadProg(f1d.blks)
           r == CleanProg(ApplyAll(f1, p2), id + 1, fuel - 1)
       IN [p |-> p1 \o p2 \o r.p, f |-> r.f, id |-> r.id]

CCleanTombstones ==
  /\ pc = "idle" /\ ScriptOK("CleanTombstones")
  /\ CleanTombstones
  /\ LET c == CleanProg(Files, nextId, 4) IN
     /\ BeginKF("CleanTombstones", c.p, BlkMaxOf(c.f.blks) # blkMax')
     /\ nextId' = c.id
  /\ UNCHANGED <<cur, ngen, wexp, mine, lastTrunc>>

-----------------------------------------------------------------------------
(* DB.Close ; tsdb.Open in the same process *)
CReopen ==
  /\ pc = "idle" /\ ScriptOK("Reopen")
  /\ Reopen
  /\ LET p1 == CloseProg(Files) IN Begin("Reopen", p1 \o OpenProg(Files))
  \* loadWAL: a series keeps the ref of its first series record in the log; later records of the same labels are
  \* duplicates (multiRef) whose refs are kept in walExpiries up to their newest sample.  Head.Init ends with a gc:
  \* series without data in the head are not in memory afterwards (their ref goes to walExpiries too).
  /\ LET recs == WalRecs(Files)
         gens(s) == UNION {{x[2] : x \in {y \in r.refs : y[1] = s}} : r \in {q \in Range(recs) : q.k = "ser"}}
         first(s) == IF gens(s) = {} THEN cur[s] ELSE SetMin(gens(s))
         alive(s) == HasHead(ino', [x \in Series |-> Range(ooh'[x]) \cup oom'[x]], s)
         smpT(ref) == UNION {{x.t : x \in {y \in Range(r.smp) : y.ref = ref /\ y.t >= blkMax}} : r \in {q \in Range(recs) : q.k = "smp"}}
     IN /\ cur' = [s \in Series |-> IF alive(s) THEN first(s) ELSE 0]
        /\ wexp' = UNION {{[ref |-> <<s, g>>, until |-> SetMax(smpT(<<s, g>>))] :
                               g \in {x \in 1..4 : x \in gens(s) /\ x # first(s) /\ smpT(<<s, x>>) # {}}} : s \in Series}
                    \cup {[ref |-> <<s, first(s)>>, until |-> InoMin(ino')] : s \in {x \in Series : gens(x) # {} /\ ~alive(x)}}
  /\ lastTrunc' = NegInf
  /\ UNCHANGED <<nextId, ngen, mine>>

-----------------------------------------------------------------------------
(* Running a program, acknowledging, crashing, recovering *)

StepProg ==
  /\ pc \in {"run", "rec"} /\ prog # <<>>
  /\ SetFiles(Apply(Files, prog[1].e))
  /\ prog' = Tail(prog) /\ nstep' = nstep + 1
  /\ trace' = Append(trace, prog[1].site)
  /\ UNCHANGED <<dbvars, nops, hist, mvars, pc, gvars>>

\* the call returns to the client: Commit / Delete (any call) is acknowledged
Ack ==
  /\ pc = "run" /\ prog = <<>>
  /\ pc' = "idle" /\ infl' = "" /\ nstep' = 0
  /\ ackd' = stored /\ nack' = Len(hist) - 1
  /\ UNCHANGED <<dbvars, nops, hist, fvars, mvars, prog, ncrash, ckf, tornrec, rcont, trace>>

Count(q, x) == Cardinality({i \in 1..Len(q) : q[i] = x})

\* Known findings of C03 (deviations of the code from the property, reproduced on the real code):
\*   "KF-C03-1"  a torn last WAL record makes Head.Init fail; open() repairs the WAL but Init has returned before
\*               replaying the WBL: acknowledged out-of-order samples are invisible until the next restart
\*   "KF-C03-3"  see BeginKF
\*   "KF-C03-2"  a second crash inside WL.Repair between the rename of the damaged segment to <k>.repair and the
\*               end of the re-insertion loses the acknowledged records of that segment
CKF(f) == (IF Torn(f) /\ \E s \in Series : WblSamples(f, {<<x, g>> : x \in Series, g \in 0..4})[s] # {} THEN {"KF-C03-1"} ELSE {})
          \cup (IF f.rep # <<>> THEN {"KF-C03-2"} ELSE {})

CrashRec(site, hit) ==
  [a |-> "Crash", site |-> site, hit |-> hit, ops |-> nack, infl |-> infl, trace |-> trace]

\* a process kill between two steps (at the site reached last); during a call only after its first step,
\* between calls as "end-of-workload" (the driver is killed after the last acknowledged call)
Crash ==
  /\ ncrash < MaxCrashes
  /\ \/ pc = "idle"
     \/ pc \in {"run", "rec"} /\ nstep > 0
  /\ LET odds == IF pc = "rec" THEN RecOdds ELSE CrashOdds IN odds = 1 \/ RandomElement(1..odds) = 1
  /\ CKF(Files) \subseteq CAllowKF
  /\ ckf' = ckf \cup CKF(Files)
  /\ LET site == IF pc = "idle" THEN "end-of-workload" ELSE Last(trace)
         hit == IF pc = "idle" THEN 1 ELSE Count(trace, Last(trace))
     IN hist' = Append(hist, CrashRec(site, hit))
  /\ pc' = "rec" /\ prog' = OpenProg(Files) /\ nstep' = 0
  /\ ncrash' = ncrash + 1
  /\ tornrec' = Torn(Files)
  /\ trace' = <<>>
  /\ UNCHANGED <<dbvars, nops, fvars, mvars, ackd, nack, infl, rcont>>

Lower(s) == IF infl = "Delete" THEN stored[s] ELSE ackd[s]
Upper(s) == IF infl = "Commit" THEN ackd[s] \cup stored[s] ELSE ackd[s]

\* tsdb.Open has returned: the contents are what the files give
RecoverDone ==
  /\ pc = "rec" /\ prog = <<>>
  /\ pc' = "done"
  /\ rcont' = RecoveredT(Files, tornrec)
  /\ hist' = Append(hist, [a |-> "Recover", exp |-> ExpAll(RecoveredT(Files, tornrec)),
                           must |-> ExpAll([s \in Series |-> Lower(s)]), may |-> ExpAll([s \in Series |-> Upper(s)]),
                           trace |-> trace, ckf |-> SetToSeq(ckf)])
  /\ UNCHANGED <<dbvars, nops, fvars, mvars, prog, nstep, ackd, nack, infl, ncrash, ckf, tornrec, trace>>

\* the workload ends without a crash: the whole predicted hook trace is handed to the harness
CEnd ==
  /\ pc = "idle" /\ ncrash = 0
  /\ (IF Script = <<>> THEN nops = MaxOps ELSE nops = Len(Script))
  /\ pc' = "done"
  /\ hist' = Append(hist, [a |-> "End", trace |-> trace, ckf |-> SetToSeq(ckf)])
  /\ UNCHANGED <<dbvars, nops, fvars, mvars, prog, nstep, gvars, trace>>

CDo(k) ==
  \/ k = "NewAppender" /\ \E a \in Apps, api \in Apis, rj \in Rej : CNewAppender(a, api, rj)
  \/ k = "Append" /\ \E a \in Apps, s \in Series, t \in Times, v \in Vals \cup {0}, ty \in Types : CAppend(a, s, t, v, ty)
  \/ k = "Commit" /\ \E a \in Apps : CCommit(a)
  \/ k = "Rollback" /\ \E a \in Apps : CRollback(a)
  \/ k = "Delete" /\ \E S \in (SUBSET Series) \ {{}}, lo \in DelLo, hi \in DelHi : lo <= hi /\ CDelete(S, lo - TOff, hi - TOff)
  \/ k = "Compact" /\ CCompact
  \/ k = "CompactOOO" /\ CCompactOOO
  \/ k = "CleanTombstones" /\ CCleanTombstones
  \/ k = "Mmap" /\ CMmap
  \/ k = "Reopen" /\ CReopen

OpBound == IF Script = <<>> THEN nops < MaxOps ELSE nops < Len(Script)

CNext ==
  \/ OpBound /\ ncrash = 0 /\ (\E k \in Acts : CDo(k)) /\ ScriptAim /\ UNCHANGED kindv
  \/ StepProg
  \/ Ack
  \/ Crash
  \/ RecoverDone
  \/ CEnd

CSpec == CInit /\ [][CNext]_cvars

-----------------------------------------------------------------------------
(* Properties *)

TKey(X) == {x.t : x \in X}
VKey(X) == {<<x.t, Norm(x)>> : x \in X}

\* C03: after any crash (and any second crash during recovery) the reopened database holds every acknowledged sample,
\* nothing but acknowledged samples and samples of the commit in flight, with the written values; acknowledged
\* deletions are reflected (a deletion in flight may be applied partly)
Survive ==
  pc = "done" /\ ncrash > 0 /\ ckf = {} =>
    \A s \in Series : /\ TKey(Lower(s)) \subseteq TKey(rcont[s])
                      /\ VKey(rcont[s]) \subseteq VKey(Upper(s))

\* the same without the waiver for known findings (used to exhibit them: CAllowKF = all, expect a counterexample)
SurviveStrict ==
  pc = "done" /\ ncrash > 0 =>
    \A s \in Series : /\ TKey(Lower(s)) \subseteq TKey(rcont[s])
                      /\ VKey(rcont[s]) \subseteq VKey(Upper(s))

\* what is on disk while the process runs agrees with Db's abstraction of it (validates the file model against Db.tla):
\* between calls, a replay of the files gives exactly the committed-and-undeleted set
FilesAgree ==
  pc = "idle" /\ ncrash = 0 /\ kfset = {} /\ ckf = {} =>
    \A s \in Series : /\ TKey(Recovered(Files)[s]) = TKey(stored[s])
                      /\ VKey(Recovered(Files)[s]) \subseteq VKey(stored[s])
BlocksAgree ==
  pc = "idle" /\ ncrash = 0 /\ ckf = {} => /\ \A s \in Series : BlkOf(blks, s) = blk[s]
                               /\ BlkMaxOf(blks) = blkMax

\* no temporary directory survives an Open; never two blocks of which one is the parent of the other
OpenCleans == pc = "done" /\ ncrash > 0 => tmpc = {} /\ tmpd = {} /\ ~cptmp /\ Deletable(blks) = {}
\* the WAL is a contiguous range of segments and the newest checkpoint never leaves a gap below the first segment
WalShape == pc = "rec" \/
            /\ Len(wal.segs) >= 1
            /\ \A c \in cps : c.idx < LastIdx(wal)
            /\ (cps # {} => wal.first <= LastCp(cps).idx + 1)

-----------------------------------------------------------------------------
(* Emission *)
CLast == hist'[Len(hist')]
\* crash classes: site, call in flight, position (first / middle / last step of the program), torn / tmp state of the files
CClass == LET r == CLast  c == hist'[Len(hist') - 1] IN
          IF r.a = "Recover" THEN <<"rec", c.site, infl, ncrash, Torn(Files), Cardinality(blks), rcont' = [s \in Series |-> Lower(s)]>>
          ELSE <<"end", r.trace>>

CEmitAC ==
  CASE CEmit = "none" -> TRUE
    [] hist' = hist -> TRUE
    [] CLast.a \notin {"Recover", "End"} -> TRUE
    [] CEmit = "all" -> PrintT("@@TR " \o ToJson(hist'))
    [] OTHER -> LET cl == CClass IN
                \/ cl \in TLCGet(1)
                \/ /\ TLCSet(1, TLCGet(1) \cup {cl})
                   /\ PrintT("@@TR " \o ToJson(hist'))
CEmitWalk == CEmit # "walk" \/ pc # "done" \/ PrintT("@@TR " \o ToJson(hist))
=============================================================================
