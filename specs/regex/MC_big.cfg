SPECIFICATION Spec
CONSTANTS
  Alphabet <- Alpha8
  MaxLen = 4
  Families = {"lit", "altlit", "altgroup", "altfold", "prefix", "suffix", "contains", "altcontains", "altprefix", "class", "capture", "anchor", "dots"}
  EmitMode = "all"
INVARIANTS AltIsUnion CaptureTransparent FoldGrows LiteralSet DotAll
ACTION_CONSTRAINT Emit
CHECK_DEADLOCK FALSE
