-------------------------------- MODULE Regex --------------------------------
(***************************************************************************)
(* Denotational semantics of the regular expressions accepted by label     *)
(* matchers (C17): labels.FastRegexMatcher must report a match exactly     *)
(* when the fully anchored expression, with '.' matching newlines, matches.*)
(*                                                                         *)
(* An expression is an AST; Lang(e) is the set of strings of a finite      *)
(* universe it matches.  There is no state beyond the expression under     *)
(* test: Init picks an expression of a shape family, the single action     *)
(* Eval records its language.  The shape families mirror the entry         *)
(* conditions of the optimiser in model/labels/regexp.go:                  *)
(*   optimizeAlternatingLiterals: plain alternations of literals, also     *)
(*     with 16 or more alternates (map instead of slice);                  *)
(*   findSetMatches: case-sensitive and case-insensitive alternations,     *)
(*     character classes, concatenations of sets;                          *)
(*   optimizeConcatRegex: literal prefix, suffix, contains, and the        *)
(*     case-insensitive prefix;                                            *)
(*   stringMatcherFromRegexp: dot-star, dot-plus, dot-quest on either side *)
(*     of literals, alternations of those, 16 or more prefixes (prefix map)*)
(*   isSimpleConcatenationPattern: literals separated by dot-stars;        *)
(*   optimizeAlternatingSimpleContains: alternation of contains patterns;  *)
(*   captures, anchors, dot without newline.                               *)
(***************************************************************************)
EXTENDS Integers, Sequences, FiniteSets, TLC, Json

CONSTANTS
  Alphabet,     \* characters of the string universe
  MaxLen,       \* universe = all strings over Alphabet of length <= MaxLen
  Families,     \* shape families to enumerate
  EmitMode      \* "all" | "none"

VARIABLES re, done, hist
vars == <<re, done, hist>>

Range(q) == {q[i] : i \in DOMAIN q}
RECURSIVE Str(_)
Str(q) == IF q = <<>> THEN "" ELSE Head(q) \o Str(Tail(q))

\* Unicode simple case folding restricted to the model characters: a~A, b~B, é~É.
\* "ª" (U+00AA) is NOT fold-equal to a: it only becomes "a" under NFKD normalisation.
FoldPairs == {<<"a", "A">>, <<"b", "B">>, <<"é", "É">>}
FoldEq(c, d) == c = d \/ <<c, d>> \in FoldPairs \/ <<d, c>> \in FoldPairs

RECURSIVE Strings(_)
Strings(k) == IF k = 0 THEN {<<>>} ELSE LET S == Strings(k - 1) IN S \cup {Append(s, c) : s \in {x \in S : Len(x) = k - 1}, c \in Alphabet}
Universe == TLCEval(Strings(MaxLen))

-----------------------------------------------------------------------------
(* Abstract syntax and concrete syntax                                      *)
Lit(w)       == [k |-> "lit", w |-> w]                 \* a literal string (sequence of characters, maybe empty)
AnyCh        == [k |-> "any"]                          \* .   (matches newline: the matcher compiles with (?s))
AnyNoNL      == [k |-> "anynonl"]                      \* (?-s:.)
Class(cs, neg) == [k |-> "class", cs |-> cs, neg |-> neg]
Cat(l, r)    == [k |-> "cat", l |-> l, r |-> r]
Alt(es)      == [k |-> "alt", es |-> es]               \* es: sequence of >= 2 alternatives
Star(e)      == [k |-> "star", e |-> e]
Plus(e)      == [k |-> "plus", e |-> e]
Quest(e)     == [k |-> "quest", e |-> e]
Cap(e)       == [k |-> "cap", e |-> e]
Fold(e)      == [k |-> "fold", e |-> e]                \* (?i:e)
Bol          == [k |-> "bol"]                          \* ^
Eol          == [k |-> "eol"]                          \* $
Raw(es)      == [k |-> "raw", es |-> es]               \* alternation printed without a group: a|b|c (top level only)

Esc(c) == IF c = "\n" THEN "\\n" ELSE c      \* the model characters contain no regex metacharacter
RECURSIVE R(_)
RECURSIVE RBar(_, _)
RBar(es, i) == IF i > Len(es) THEN "" ELSE (IF i > 1 THEN "|" ELSE "") \o R(es[i]) \o RBar(es, i + 1)
R(e) ==
  CASE e.k = "lit"     -> Str([i \in DOMAIN e.w |-> Esc(e.w[i])])
    [] e.k = "any"     -> "."
    [] e.k = "anynonl" -> "(?-s:.)"
    [] e.k = "dots"    -> (IF e.nl THEN "." ELSE "(?-s:.)") \o e.op
    [] e.k = "class"   -> "[" \o (IF e.neg THEN "^" ELSE "") \o Str([i \in DOMAIN e.cs |-> Esc(e.cs[i])]) \o "]"
    [] e.k = "cat"     -> R(e.l) \o R(e.r)
    [] e.k = "alt"     -> "(?:" \o RBar(e.es, 1) \o ")"
    [] e.k = "raw"     -> RBar(e.es, 1)
    [] e.k = "star"    -> "(?:" \o R(e.e) \o ")*"
    [] e.k = "plus"    -> "(?:" \o R(e.e) \o ")+"
    [] e.k = "quest"   -> "(?:" \o R(e.e) \o ")?"
    [] e.k = "cap"     -> "(" \o R(e.e) \o ")"
    [] e.k = "fold"    -> "(?i:" \o R(e.e) \o ")"
    [] e.k = "bol"     -> "^"
    [] e.k = "eol"     -> "$"
\* dot-star, dot-plus, dot-quest are printed the way people write them
DotStar  == [k |-> "dots", op |-> "*", nl |-> TRUE]
DotPlus  == [k |-> "dots", op |-> "+", nl |-> TRUE]
DotQuest == [k |-> "dots", op |-> "?", nl |-> TRUE]
DotStarNoNL == [k |-> "dots", op |-> "*", nl |-> FALSE]
DotPlusNoNL == [k |-> "dots", op |-> "+", nl |-> FALSE]

-----------------------------------------------------------------------------
(* Denotation: Ends(e, s, i, f) = the set of positions j such that e matches *)
(* s[i..j-1]; f = case folding in force.  Anchors refer to the whole string *)
(* (no multi-line mode).                                                    *)
RECURSIVE Ends(_, _, _, _)
RECURSIVE Closure(_, _, _, _)
\* positions reachable by iterating e zero or more times from the set P
Closure(e, s, P, f) ==
  LET N == UNION {Ends(e, s, p, f) : p \in P} \ P IN
  IF N = {} THEN P ELSE Closure(e, s, P \cup N, f)
RECURSIVE LitEnd(_, _, _, _, _)
LitEnd(w, s, i, f, k) ==   \* matches w[k..] at s[i..]
  IF k > Len(w) THEN {i}
  ELSE IF i > Len(s) THEN {}
  ELSE IF s[i] = w[k] \/ (f /\ FoldEq(s[i], w[k])) THEN LitEnd(w, s, i + 1, f, k + 1) ELSE {}
Ends(e, s, i, f) ==
  CASE e.k = "lit"     -> LitEnd(e.w, s, i, f, 1)
    [] e.k = "any"     -> IF i <= Len(s) THEN {i + 1} ELSE {}
    [] e.k = "anynonl" -> IF i <= Len(s) /\ s[i] # "\n" THEN {i + 1} ELSE {}
    [] e.k = "class"   -> IF i <= Len(s) /\ ((\E c \in Range(e.cs) : s[i] = c \/ (f /\ FoldEq(s[i], c))) # e.neg) THEN {i + 1} ELSE {}
    [] e.k = "cat"     -> UNION {Ends(e.r, s, j, f) : j \in Ends(e.l, s, i, f)}
    [] e.k \in {"alt", "raw"} -> UNION {Ends(e.es[x], s, i, f) : x \in DOMAIN e.es}
    [] e.k = "star"    -> Closure(e.e, s, {i}, f)
    [] e.k = "plus"    -> Closure(e.e, s, Ends(e.e, s, i, f), f)
    [] e.k = "quest"   -> {i} \cup Ends(e.e, s, i, f)
    [] e.k = "cap"     -> Ends(e.e, s, i, f)
    [] e.k = "fold"    -> Ends(e.e, s, i, TRUE)
    [] e.k = "bol"     -> IF i = 1 THEN {i} ELSE {}
    [] e.k = "eol"     -> IF i = Len(s) + 1 THEN {i} ELSE {}
    [] e.k = "dots"    -> LET ok(j) == \A x \in i..(j - 1) : e.nl \/ s[x] # "\n"
                              lo == CASE e.op = "*" -> i [] e.op = "+" -> i + 1 [] e.op = "?" -> i
                              hi == IF e.op = "?" THEN i + 1 ELSE Len(s) + 1
                          IN {j \in lo..hi : j <= Len(s) + 1 /\ ok(j)}
\* the property's reference: the fully anchored expression matches the whole string
Matches(e, s) == (Len(s) + 1) \in Ends(e, s, 1, FALSE)
Lang(e) == {s \in Universe : Matches(e, s)}

\* Two classes of strings that FastRegexMatcher used to accept wrongly (known_findings.json
\* KF-C17-1 / KF-C17-2, both repaired in the repository).  They are ordinary members of the
\* universe and are compared like every other string; the predicates only let the harness report
\* how many of these regression inputs every run exercises.
\* (1) case-insensitive literal alternations kept in a map keyed by NFKD + ToLower: a string whose
\*     compatibility normalisation equals an alternative was accepted.  In the model alphabet the
\*     only such character is U+00AA, whose NFKD form is "a".
Nfkd(s) == [i \in DOMAIN s |-> IF s[i] = "ª" THEN "a" ELSE s[i]]
RegressNfkd(e, s) == /\ e.k = "fold" /\ e.e.k \in {"alt", "raw"}
                     /\ \A i \in DOMAIN e.e.es : e.e.es[i].k = "lit"
                     /\ ~Matches(e, s) /\ Matches(e, Nfkd(s))
\* (2) an alternation of single characters of which only some are under (?i:) is parsed into one
\*     character class carrying the FoldCase flag; the whole class was taken for case-insensitive,
\*     so case variants of the case-SENSITIVE alternatives were accepted as well.
OneChar(x)  == x.k = "lit" /\ Len(x.w) = 1
RegressClassFold(e, s) == /\ e.k \in {"alt", "raw"}
                          /\ \A i \in DOMAIN e.es : OneChar(e.es[i]) \/ (e.es[i].k = "fold" /\ OneChar(e.es[i].e))
                          /\ \E i \in DOMAIN e.es : e.es[i].k = "fold"
                          /\ ~Matches(e, s) /\ Matches(Fold(e), s)

-----------------------------------------------------------------------------
(* Shape families                                                           *)
\* literal pool: 20 distinct literals of length 1-2 (enough for the >= 16 map threshold)
Pool == << <<"a">>, <<"b">>, <<"a", "b">>, <<"b", "a">>, <<"A">>, <<"é">>, <<"a", "é">>, <<"b", "b">>, <<"a", "a">>, <<"B">>,
           <<"é", "a">>, <<"A", "b">>, <<"b", "A">>, <<"É">>, <<"a", "\n">>, <<"B", "a">>, <<"é", "é">>, <<"A", "A">>, <<"b", "é">>, <<"é", "b">> >>
L(i) == Lit(Pool[i])
FirstN(n, off) == [i \in 1..n |-> L(((i + off - 1) % Len(Pool)) + 1)]
Sizes == {2, 3, 15, 16, 17}
Offs  == {0, 1, 4}
Few   == {1, 2, 3, 5, 6, 15}          \* pool indexes used where one literal is needed
Dots  == {DotStar, DotPlus, DotQuest, DotStarNoNL, DotPlusNoNL}
RECURSIVE CatAll(_)
CatAll(es) == IF Len(es) = 1 THEN es[1] ELSE Cat(es[1], CatAll(Tail(es)))

Fam(f) ==
  CASE f = "lit"        -> {L(i) : i \in Few} \cup {Lit(<<>>)} \cup {Fold(L(i)) : i \in Few}
    [] f = "altlit"     -> {Raw(FirstN(n, o)) : n \in Sizes, o \in Offs}                                  \* a|b|c  (string fast path)
                           \cup {Raw(Append(FirstN(n, o), Lit(<<>>))) : n \in {2, 16}, o \in Offs}          \* a|b|
    [] f = "altgroup"   -> {Alt(FirstN(n, o)) : n \in Sizes, o \in Offs}                                  \* (?:a|b|c)
                           \cup {Cap(Alt(FirstN(n, o))) : n \in {2, 16}, o \in Offs}
    [] f = "altfold"    -> {Fold(Alt(FirstN(n, o))) : n \in Sizes, o \in Offs}                            \* (?i:a|b|c)
                           \cup {Alt(<<Fold(L(1)), L(2)>>), Alt(<<L(1), Fold(L(2))>>)}                     \* mixed sensitivity
    [] f = "prefix"     -> {Cat(L(i), d) : i \in Few, d \in Dots}                                          \* a.*  a.+  a.?
                           \cup {Cat(Fold(L(i)), d) : i \in Few, d \in {DotStar, DotPlus}}                 \* (?i:a).*
    [] f = "suffix"     -> {Cat(d, L(i)) : i \in Few, d \in Dots}
                           \cup {Cat(d, Fold(L(i))) : i \in Few, d \in {DotStar, DotPlus}}
    [] f = "contains"   -> {CatAll(<<d1, L(i), d2>>) : i \in {1, 3, 6, 9}, d1 \in Dots, d2 \in Dots}           \* .*a.*  .+a.?
                           \cup {CatAll(<<DotStar, L(i), DotStar, L(j), DotStar>>) : i \in {1, 2}, j \in {1, 2, 3}}   \* .*a.*b.*
                           \cup {CatAll(<<L(i), DotStar, L(j)>>) : i \in {1, 2}, j \in {1, 2, 3}}           \* a.*b
                           \cup {CatAll(<<L(i), DotStar, L(j), DotStar, L(i)>>) : i \in {1, 2}, j \in {1, 2}}
    [] f = "altcontains"-> {Raw(<<CatAll(<<DotStar, L(i), DotStar>>), CatAll(<<DotStar, L(j), DotStar>>)>>) : i \in {1, 3}, j \in {2, 6}}
                           \cup {Raw(<<CatAll(<<DotStar, L(1), DotStar>>), CatAll(<<DotStar, Fold(L(2)), DotStar>>)>>)}
    [] f = "altprefix"  -> {Alt([i \in 1..n |-> Cat(L(((i + o - 1) % Len(Pool)) + 1), d)]) : n \in {2, 16, 17}, o \in {0, 4}, d \in {DotStar, DotPlus}}
                           \cup {Alt(<<Cat(L(1), DotStar), L(2), Cat(DotStar, L(3))>>)}
                           \cup {Fold(Alt([i \in 1..n |-> Cat(L(i), DotStar)])) : n \in {2, 16}}
    [] f = "class"      -> {Class(<<"a", "b">>, FALSE), Class(<<"a", "b">>, TRUE), Cat(Class(<<"a", "b">>, FALSE), L(1)),
                            Cat(L(1), Class(<<"a", "é">>, FALSE)), Fold(Class(<<"a", "b">>, FALSE)),
                            Cat(Class(<<"a", "b">>, FALSE), Class(<<"a", "A">>, FALSE)), Plus(Class(<<"a", "b">>, FALSE)),
                            Cat(Class(<<"a", "\n">>, TRUE), DotStar)}
    [] f = "capture"    -> {Cap(L(1)), Cat(Cap(L(1)), Cap(L(2))), Cap(Cap(Alt(<<L(1), L(3)>>))), Alt(<<Cap(L(1)), Cap(Cat(L(2), DotStar))>>),
                            Cat(Cap(DotStar), L(1)), Cat(L(1), Cap(Cat(DotStar, L(2))))}
    [] f = "anchor"     -> {Cat(Bol, L(1)), Cat(L(1), Eol), CatAll(<<Bol, L(1), Eol>>), Bol, Eol, Cat(Bol, Eol),
                            Raw(<<Cat(L(1), Eol), L(2)>>), Raw(<<Cat(Bol, L(1)), Cat(L(2), DotStar)>>), CatAll(<<L(1), Eol, L(2)>>),
                            CatAll(<<DotStar, Eol>>), CatAll(<<Bol, DotStar, L(1)>>), Alt(<<Bol, L(1)>>)}
    [] f = "dots"       -> Dots \cup {Cat(d1, d2) : d1 \in Dots, d2 \in Dots} \cup {Star(L(1)), Plus(L(3)), Quest(L(1)), Cat(Quest(L(1)), L(2)),
                            Cat(L(1), Quest(L(2))), Star(Alt(<<L(1), L(2)>>)), AnyCh, AnyNoNL, Cat(AnyCh, AnyCh)}
Regexes == UNION {Fam(f) : f \in Families}

-----------------------------------------------------------------------------
\* alphabet for the cfg files (a cfg string cannot contain a newline)
Alpha8 == {"a", "b", "A", "B", "é", "É", "ª", "\n"}

Init == /\ re \in Regexes
        /\ done = FALSE
        /\ hist = <<>>
Eval == /\ ~done
        /\ done' = TRUE
        /\ UNCHANGED re
        /\ hist' = <<[re |-> R(re), lang |-> {Str(s) : s \in Lang(re)}, alphabet |-> Alphabet, maxlen |-> MaxLen,
                       regress |-> Cardinality({x \in Universe : RegressNfkd(re, x) \/ RegressClassFold(re, x)})]>>
Next == Eval
Spec == Init /\ [][Next]_vars

-----------------------------------------------------------------------------
(* What TLC checks on the semantics itself (laws the denotation must obey). *)
\* an alternation denotes the union of its alternatives; grouping and captures change nothing
AltIsUnion == re.k \in {"alt", "raw"} => Lang(re) = UNION {Lang(re.es[i]) : i \in DOMAIN re.es}
CaptureTransparent == re.k = "cap" => Lang(re) = Lang(re.e)
\* case folding only adds strings, and is idempotent
FoldGrows == re.k = "fold" => Lang(re.e) \subseteq Lang(re) /\ Lang(Fold(re)) = Lang(re)
\* an alternation of literals denotes exactly its literals (the finite set a matcher may expose)
LiteralSet == (re.k \in {"alt", "raw"} /\ \A i \in DOMAIN re.es : re.es[i].k = "lit")
              => Lang(re) = {re.es[i].w : i \in DOMAIN re.es} \cap Universe
\* .* is neutral on both sides of a language closed under extension; '.' without (?-s) accepts newline
DotAll == (re = DotStar => Lang(re) = Universe) /\ (re = DotPlus => Lang(re) = Universe \ {<<>>})

Emit == CASE EmitMode = "all" /\ hist' # hist -> PrintT("@@TR " \o ToJson(hist'))
          [] OTHER -> TRUE
=============================================================================
