SPECIFICATION Spec
CONSTANTS
  Encs = {"xor", "xor2", "xor2n"}
  TC2 = {"d1", "dsmall", "dbig", "dhuge"}
  TCn = {"z", "s", "p13", "n13", "p14", "n14", "p17", "n17", "p20", "n20", "hugep", "hugen"}
  VCs = {"same", "reuse", "newwin", "stale", "full64", "lead32", "nan2", "negzero", "inf", "rand"}
  SCs = {"none", "same", "prevt", "jit", "big"}
  Reopens = {"same", "bytes"}
  ReopenAt = {3, 17, 31}
  MaxLen = 40
  MaxReads = 6
  MaxOps = 52
  EmitMode = "walk"
INVARIANTS TypeOK EmitWalk
CHECK_DEADLOCK FALSE
