------------------------------ MODULE FloatChunk ------------------------------
(***************************************************************************)
(* Operation / iterator state machine of a float chunk                     *)
(* (tsdb/chunkenc/xor.go, xor2.go, st.go, varbit.go, bstream.go).          *)
(*                                                                         *)
(* The chunk is the sequence of appended (start timestamp, timestamp,      *)
(* value) triples.  The encoder state is modelled at CLASS level: every    *)
(* appended sample names                                                   *)
(*   tc  how its timestamp relates to the previous ones: first sample,     *)
(*       first delta, or a delta-of-delta class around the packing         *)
(*       boundaries of the encodings (13/20/64 bits for XOR2, 14/17/20/64  *)
(*       for XOR);                                                         *)
(*   vc  how its value XORs with the previous one (same, inside the        *)
(*       current leading/trailing window, new window, clamp and wrap       *)
(*       extremes, staleness marker, other NaNs, signed zero, infinity);   *)
(*   sc  how its start timestamp behaves (none, constant, late first       *)
(*       change, jitter around the varbit bucket boundaries, arbitrary).   *)
(* The harness concretises classes to numbers (boundary exact, +-1) and    *)
(* compares bit for bit; TLC decides the operation sequences and what      *)
(* every iterator call must return.                                        *)
(*                                                                         *)
(* Actions:  Append(c)   Appender.Append(st, t, v)                          *)
(*           Reopen(k)   a new Appender(): "same" on the same chunk object, *)
(*                       "bytes" on a chunk reloaded from a copy of its    *)
(*                       bytes (FromData)                                  *)
(*           Open        Chunk.Iterator (fresh or recycled)                *)
(*           Next, Seek(target)   iterator calls with predicted result     *)
(* Property (C10): iteration returns exactly the appended triples in       *)
(* order; Seek(t) returns the first sample at or after t (never moving     *)
(* backwards); re-opening the appender is invisible.                       *)
(***************************************************************************)
EXTENDS Integers, Sequences, FiniteSets, TLC, Json

CONSTANTS
  Encs,      \* subset of {"xor", "xor2", "xor2n"}; "xor2n" = an XOR2 chunk that is never given a start
             \* timestamp (the common case: the ST-free fast paths of the encoder)
  TC2,       \* classes of the first timestamp delta (second sample)
  TCn,       \* delta-of-delta classes (third sample on)
  VCs,       \* value classes
  SCs,       \* start timestamp classes (used by xor2 only; xor ignores ST)
  Reopens,   \* subset of {"same", "bytes"}
  ReopenAt,  \* walk mode: sample counts at which the appender is re-opened (the only enabled step there)
  MaxLen,    \* samples per chunk
  MaxReads,  \* iterator calls per behaviour
  MaxOps,
  EmitMode   \* "all" | "walk" | "none"

VARIABLES enc, chunk, reop, it, reads, nops, hist
vars == <<enc, chunk, reop, it, reads, nops, hist>>
View == <<enc, chunk, reop, it, reads>>

\* it: -1 = no iterator open, or the index of the sample the iterator stands on (0 = before the first,
\* Len+1 = exhausted)
N == Len(chunk)

\* Seek targets are named relative to the samples: <<"at", k>> = the timestamp of sample k,
\* <<"gap", k>> = one more than the timestamp of sample k-1 (for k = 1: one less than the first
\* timestamp), <<"after", N>> = one more than the last timestamp.  Timestamps increase strictly, so
\* the first sample at or after "at k" and "gap k" is sample k in both cases.
Targets == {<<"at", k>> : k \in 1..N} \cup {<<"gap", k>> : k \in 1..N} \cup {<<"after", N>>}
\* reference: put sample k at abstract time 2k
ATime(tg) == IF tg[1] = "at" THEN 2 * tg[2] ELSE IF tg[1] = "gap" THEN 2 * tg[2] - 1 ELSE 2 * N + 1
FirstAtOrAfter(tg) == LET S == {k \in 1..N : 2 * k >= ATime(tg)} IN
                      IF S = {} THEN N + 1 ELSE CHOOSE k \in S : \A j \in S : k <= j

Max2(a, b) == IF a > b THEN a ELSE b

\* Ranges of the timestamp delta-of-delta that the harness sweeps value by value (third sample of a
\* four sample chunk): the packed ranges of the encodings (13 bits XOR2, 14 bits XOR) with a margin, and
\* the neighbourhoods of the wider bucket boundaries (17 bits XOR, 20 bits both).
Sweeps(e) ==
  {[lo |-> 0 - 8200, hi |-> 8200],
   [lo |-> 65536 - 20, hi |-> 65536 + 20], [lo |-> 0 - 65536 - 20, hi |-> 0 - 65536 + 20],
   [lo |-> 524288 - 20, hi |-> 524288 + 20], [lo |-> 0 - 524288 - 20, hi |-> 0 - 524288 + 20]}

Init ==
  /\ enc \in Encs
  /\ chunk = <<>> /\ reop = {} /\ it = -1 /\ reads = 0
  /\ nops = 0
  /\ hist = <<[op |-> "Init", enc |-> enc, sweeps |-> Sweeps(enc)]>>

Step(rec) == nops' = nops + 1 /\ hist' = Append(hist, rec)

SC == IF enc = "xor2n" THEN {"none"} ELSE SCs
Classes == IF N = 0 THEN {[tc |-> "first", vc |-> v, sc |-> s] : v \in VCs \ {"same", "reuse"}, s \in SC}
           ELSE IF N = 1 THEN {[tc |-> t, vc |-> v, sc |-> s] : t \in TC2, v \in VCs, s \in SC}
           ELSE {[tc |-> t, vc |-> v, sc |-> s] : t \in TCn, v \in VCs, s \in SC}

Walk == EmitMode = "walk"
MustReopen == Walk /\ N \in ReopenAt /\ N \notin {r[1] : r \in reop} /\ N < MaxLen /\ Reopens # {}

AppendS(c) ==
  /\ it = -1 /\ N < MaxLen /\ ~MustReopen
  /\ chunk' = Append(chunk, c)
  /\ UNCHANGED <<enc, reop, it, reads>>
  /\ Step([op |-> "Append", c |-> c, n |-> N + 1])

Reopen(k) ==
  /\ it = -1 /\ N > 0 /\ N < MaxLen /\ N \notin {r[1] : r \in reop}
  /\ Walk => MustReopen
  /\ k \in Reopens
  /\ reop' = reop \cup {<<N, k>>}
  /\ UNCHANGED <<enc, chunk, it, reads>>
  /\ Step([op |-> "Reopen", kind |-> k, n |-> N])

Open ==
  /\ it = -1 /\ N > 0
  /\ Walk => N = MaxLen          \* walks fill the chunk before reading
  /\ it' = 0
  /\ UNCHANGED <<enc, chunk, reop, reads>>
  /\ Step([op |-> "Open", n |-> N])

\* Next: the following sample, or none at the end
NextS ==
  /\ it \in 0..N /\ reads < MaxReads
  /\ it' = it + 1
  /\ reads' = reads + 1
  /\ UNCHANGED <<enc, chunk, reop>>
  /\ Step([op |-> "Next", at |-> IF it + 1 <= N THEN it + 1 ELSE 0])

\* Seek(t): the first sample at or after t, but never before the current one (a Seek to an earlier
\* time does not move); the first call positions on sample 1 at least.  at = predicted sample, 0 = none
SeekS(tg) ==
  /\ it \in 0..N /\ reads < MaxReads
  /\ LET a == Max2(Max2(it, 1), FirstAtOrAfter(tg))
     IN /\ it' = a
        /\ Step([op |-> "Seek", tg |-> tg, at |-> IF a <= N THEN a ELSE 0])
  /\ reads' = reads + 1
  /\ UNCHANGED <<enc, chunk, reop>>

Finished == \/ it # -1 /\ (it = N + 1 \/ reads = MaxReads)
            \/ MaxReads = 0 /\ N = MaxLen
End == Walk /\ nops <= MaxOps /\ (Finished \/ nops = MaxOps) /\ nops' = MaxOps + 1
       /\ UNCHANGED <<enc, chunk, reop, it, reads, hist>>

Next ==
  \/ /\ nops < MaxOps
     /\ \/ \E c \in Classes : AppendS(c)
        \/ \E k \in Reopens : Reopen(k)
        \/ Open
        \/ NextS
        \/ \E tg \in Targets : SeekS(tg)
  \/ End

Spec == Init /\ [][Next]_vars

-----------------------------------------------------------------------------
TypeOK == /\ N <= MaxLen /\ \A r \in reop : r[1] \in 1..MaxLen /\ r[2] \in Reopens
          /\ it = -1 \/ it \in 0..(N + 1)

\* an iterator only moves forward, one sample at a time for Next
Forward == [][(it # -1 /\ it' # -1) => it' >= it]_vars

\* a chunk under iteration is not appended to (the model's reading phase)
ReadAfterWrite == [][it # -1 => chunk' = chunk]_vars

-----------------------------------------------------------------------------
\* emit one behaviour per finished iteration (exhausted iterator, or read budget used up), and in
\* "all" mode also for chunks that are never iterated explicitly (the harness always does a full read)
Done == Finished
Emit == EmitMode # "all" \/ hist' = hist \/ ~Done' \/ PrintT("@@TR " \o ToJson(hist'))
EmitWalk == nops <= MaxOps \/ PrintT("@@TR " \o ToJson(hist))
=============================================================================
