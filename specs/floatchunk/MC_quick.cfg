SPECIFICATION Spec
CONSTANTS
  Encs = {"xor", "xor2"}
  TC2 = {"d1", "dbig"}
  TCn = {"z", "s", "p13", "n13", "p14", "n14", "p17", "n17", "p20", "n20", "hugep", "hugen"}
  VCs = {"same", "reuse", "newwin", "stale"}
  SCs = {"none", "jit"}
  Reopens = {"same", "bytes"}
  ReopenAt = {}
  MaxLen = 3
  MaxReads = 0
  MaxOps = 4
  EmitMode = "all"
VIEW View
INVARIANTS TypeOK
PROPERTIES Forward ReadAfterWrite
ACTION_CONSTRAINT Emit
CHECK_DEADLOCK FALSE
