SPECIFICATION Spec
CONSTANTS
  Encs = {"xor", "xor2"}
  TC2 = {"d1", "dbig"}
  TCn = {"z", "p13"}
  VCs = {"newwin", "stale"}
  SCs = {"jit"}
  Reopens = {}
  ReopenAt = {}
  MaxLen = 3
  MaxReads = 3
  MaxOps = 7
  EmitMode = "all"
VIEW View
INVARIANTS TypeOK
PROPERTIES Forward ReadAfterWrite
ACTION_CONSTRAINT Emit
CHECK_DEADLOCK FALSE
