SPECIFICATION Spec
CONSTANTS
  Encs = {"xor", "xor2"}
  TC2 = {"d1", "dbig"}
  TCn = {"z", "p13", "n13", "p20", "n20", "hugep"}
  VCs = {"same", "reuse", "newwin", "stale"}
  SCs = {"none", "jit"}
  Reopens = {}
  ReopenAt = {}
  MaxLen = 4
  MaxReads = 0
  MaxOps = 4
  EmitMode = "all"
VIEW View
INVARIANTS TypeOK
PROPERTIES Forward ReadAfterWrite
ACTION_CONSTRAINT Emit
CHECK_DEADLOCK FALSE
