SPECIFICATION Spec
CONSTANTS
  Encs = {"xor", "xor2n"}
  TC2 = {"d1", "dbig"}
  TCn = {"z", "p13", "hugep"}
  VCs = {"same", "reuse", "newwin", "stale", "lead32"}
  SCs = {"none"}
  Reopens = {}
  ReopenAt = {}
  MaxLen = 4
  MaxReads = 0
  MaxOps = 4
  EmitMode = "all"
VIEW View
INVARIANTS TypeOK
PROPERTIES Forward ReadAfterWrite
ACTION_CONSTRAINT Emit
CHECK_DEADLOCK FALSE
