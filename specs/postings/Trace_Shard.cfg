SPECIFICATION Spec
INVARIANT OneFunction
CHECK_DEADLOCK FALSE
