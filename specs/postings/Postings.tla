------------------------------ MODULE Postings ------------------------------
(***************************************************************************)
(* Series selection and label queries of the TSDB (C16) and query sharding *)
(* (C18).                                                                  *)
(*                                                                         *)
(* Abstract state: `store` = the series of a tsdb.DB (label map -> set of  *)
(* time points that carry a sample) and `phase` = the time container that  *)
(* is currently the head.  Time points 1..6 fall into three containers     *)
(* (1,2 | 3,4 | 5,6); containers below `phase` are persisted blocks, the   *)
(* container `phase` is the head (db.CompactHead moved the others out).    *)
(*                                                                         *)
(* Actions = public calls:                                                 *)
(*   AppendSample   db.Appender().Append+Commit of one in-order sample     *)
(*   Cut            db.CompactHead(NewRangeHead(head, container range))    *)
(*   Query(ms)      db.Querier(r).Select / LabelNames / LabelValues for    *)
(*                  every range of RangeSeq (observations only)            *)
(*   ShardQuery     Select with SelectHints.ShardCount/ShardIndex (C18)    *)
(*                                                                         *)
(* Two layers are kept apart:                                              *)
(*   REFERENCE  what the property demands: RefMatch / May / Must           *)
(*              ("absent label = empty string"), sorted duplicate-free     *)
(*              projections, limit law.                                    *)
(*   TRANSCRIPTION  what the code does: PFM = tsdb.PostingsForMatchers     *)
(*              over an inverted index per block/head, QNames / QVals =    *)
(*              labelNamesWithMatchers / labelValuesWithMatchers, the      *)
(*              merge of per-querier results with truncateToLimit.         *)
(* TLC checks (action properties below) that the transcription meets the   *)
(* reference on every explored (store, matcher list); the behaviours that  *)
(* are replayed into the real DB carry only REFERENCE predictions.         *)
(***************************************************************************)
EXTENDS Integers, Sequences, FiniteSets, TLC, Json

CONSTANTS
  NameSeq,        \* model label names, ascending, e.g. <<"a","b">>
  Vals,           \* storable label values: subset of {"x","y","f"} ("f" = a class of many filler values)
  EqVals,         \* values used by = / != matchers in single-matcher lists
  ReSyms,         \* regex symbols used by =~ / !~ matchers in single-matcher lists
  PairEqVals,     \* the same for lists of length >= 2 (reduced alphabet)
  PairReSyms,
  MaxMs,          \* longest matcher list enumerated (0, 1 or 2)
  InitFamilies,   \* subset of {"empty","pattern"}
  Patterns,       \* names of full pattern stores used as initial states
  AllowedPlaces,  \* point sets a series may reach through Append (bounds the lifecycle)
  MaxSeries,      \* bound on |store| reached through Append
  MaxOps,         \* bound on history length (Append/Cut/Query steps)
  RangeSeq,       \* sequence of query ranges <<lo,hi>> over time points
  LimitSeq,       \* limits used for the limit law (0 = unlimited)
  ShardCounts,    \* shard counts of ShardQuery ({} disables the action)
  EmptyName,      \* BOOLEAN: include matchers on the empty label name
  Mode,           \* "mc" | "sim"   (sim draws arguments with RandomElement)
  EmitMode        \* "all" | "class" | "none"

VARIABLES store, phase, nops, hist
vars == <<store, phase, nops, hist>>
View == <<store, phase>>

Range(q) == {q[i] : i \in DOMAIN q}
Last(q)  == q[Len(q)]
Names    == Range(NameSeq)
BaseName == "__name__"          \* every concrete series also carries __name__="m"
BaseVal  == "m"
NPoints  == 6
Cont(t)  == ((t - 1) \div 2) + 1 \* container of a time point
LabelMaps == [Names -> Vals \cup {""}]   \* "" = label absent
\* A series is identified by the string "va/vb/.." of its label values in NameSeq order (cheap to
\* compare and to print); LM gives the label map back.
RECURSIVE IdFrom(_, _)
IdFrom(l, i) == IF i > Len(NameSeq) THEN ""
                ELSE (IF i > 1 THEN "/" ELSE "") \o l[NameSeq[i]] \o IdFrom(l, i + 1)
Id(l)  == IdFrom(l, 1)
\* (TLCEval materialises these constant tables once; TLC would otherwise keep the function
\* constructors lazy and re-evaluate their bodies at every application)
AllIds == TLCEval({Id(l) : l \in LabelMaps})
LM     == TLCEval([s \in AllIds |-> CHOOSE l \in LabelMaps : Id(l) = s])

-----------------------------------------------------------------------------
(* Regular expressions are symbols with a denotation over the abstract      *)
(* value universe; <x> <y> <z> are placeholders the harness replaces by the *)
(* concrete strings of the values x y z (z is never stored).  `set` is what *)
(* FastRegexMatcher.SetMatches exposes (drives the code path only).         *)
U == {"", "x", "y", "z", "f", "m"}
ReTable == <<
  [re |-> ".*",              den |-> U,                 set |-> {}],
  [re |-> ".+",              den |-> U \ {""},          set |-> {}],
  [re |-> "",                den |-> {""},              set |-> {}],
  [re |-> "<x>",             den |-> {"x"},             set |-> {"x"}],
  [re |-> "<z>",             den |-> {"z"},             set |-> {"z"}],
  [re |-> "<x>|<y>",         den |-> {"x", "y"},        set |-> {"x", "y"}],
  [re |-> "<x>|<z>",         den |-> {"x", "z"},        set |-> {"x", "z"}],
  [re |-> "|<y>",            den |-> {"", "y"},         set |-> {"", "y"}],
  [re |-> "(?:<x>)?",        den |-> {"", "x"},         set |-> {}],
  [re |-> "(?:<x>|<y>)?",    den |-> {"", "x", "y"},    set |-> {}],
  [re |-> "<x>.*",           den |-> {"x"},             set |-> {}],
  [re |-> ".*<y>",           den |-> {"y"},             set |-> {}],
  [re |-> ".*<x>.*",         den |-> {"x"},             set |-> {}],
  [re |-> "(?i)<x>",         den |-> {"x"},             set |-> {}],
  [re |-> "<x>.+",           den |-> {},                set |-> {}],
  [re |-> "(?:<y>|<z>).*",   den |-> {"y", "z"},        set |-> {}]
>>
AllRe  == {ReTable[i].re : i \in DOMAIN ReTable}
ReRow  == TLCEval([r \in AllRe |-> CHOOSE e \in Range(ReTable) : e.re = r])
ReMatch(re, s) == s \in ReRow[re].den
SetOf(re)      == ReRow[re].set

\* values for the sequence-valued constants (TLC cfg files have no tuple syntax: `NameSeq <- NS2`)
NS2 == <<"a", "b">>
NS3 == <<"a", "b", "c">>
R3  == <<<<1, 6>>, <<1, 2>>, <<5, 6>>>>
R6  == <<<<1, 6>>, <<1, 2>>, <<5, 6>>, <<2, 5>>, <<3, 4>>, <<6, 6>>>>
L3  == <<0, 1, 2>>
L4  == <<0, 1, 2, 3>>
AnyPlace == SUBSET (1..6) \ {{}}

ASSUME ReSyms \subseteq AllRe /\ PairReSyms \subseteq AllRe
ASSUME Vals \subseteq {"x", "y", "f"}

-----------------------------------------------------------------------------
(* Matchers                                                                 *)
MkAlpha(eq, res) ==
  [t : {"=", "!="}, n : Names, v : eq] \cup [t : {"=~", "!~"}, n : Names, v : res]
BaseMatchers == {[t |-> "=",  n |-> BaseName, v |-> BaseVal],
                 [t |-> "!=", n |-> BaseName, v |-> BaseVal],
                 [t |-> "=~", n |-> BaseName, v |-> ".+"]}
\* matchers on the empty label name (no series carries it: its value is always ""); they reach the
\* AllPostingsKey shortcut of PostingsForMatchers.  Only used in single-matcher lists.
EmptyNameMatchers == IF EmptyName
                     THEN [t : {"=", "!="}, n : {""}, v : {"", "x"}] \cup [t : {"=~", "!~"}, n : {""}, v : {""}]
                     ELSE {}
Singles   == MkAlpha(EqVals, ReSyms) \cup BaseMatchers \cup EmptyNameMatchers
PairAlpha == MkAlpha(PairEqVals, PairReSyms) \cup {[t |-> "=", n |-> BaseName, v |-> BaseVal]}
MsLists == (IF MaxMs >= 0 THEN {<<>>} ELSE {})
           \cup (IF MaxMs >= 1 THEN {<<m>> : m \in Singles} ELSE {})
           \cup (IF MaxMs >= 2 THEN {<<m1, m2>> : m1 \in PairAlpha, m2 \in PairAlpha} ELSE {})

ValF == TLCEval([s \in AllIds |-> TLCEval([n \in Names \cup {BaseName, ""} |->
                   IF n = BaseName THEN BaseVal ELSE IF n = "" THEN "" ELSE LM[s][n]])])
Val(s, n) == ValF[s][n]          \* value of label n in series s ("" = absent)
IsNot(m)  == m.t \in {"!=", "!~"}
\* labels.Matcher.Matches
Holds(m, v) == CASE m.t = "="  -> v = m.v
                 [] m.t = "!=" -> v # m.v
                 [] m.t = "=~" -> ReMatch(m.v, v)
                 [] m.t = "!~" -> ~ReMatch(m.v, v)
\* labels.Matcher.Inverse
Inverse(m) == [m EXCEPT !.t = CASE m.t = "="  -> "!="
                                [] m.t = "!=" -> "="
                                [] m.t = "=~" -> "!~"
                                [] m.t = "!~" -> "=~"]

-----------------------------------------------------------------------------
(* REFERENCE (the property)                                                 *)
Stored == DOMAIN store
\* a series satisfies a matcher list iff every matcher holds, an absent label counting as ""
AllMatchers == TLCEval(Singles \cup PairAlpha)
MatchSet == TLCEval([m \in AllMatchers |-> TLCEval({s \in AllIds : Holds(m, Val(s, m.n))})])     \* precomputed once
RefMatch(s, ms) == \A i \in DOMAIN ms : s \in MatchSet[ms[i]]
May(ms)         == {s \in Stored : RefMatch(s, ms)}           \* only these may ever be returned
InRange(s, r)   == \E t \in store[s] : r[1] <= t /\ t <= r[2]
Must(ms, r)     == {s \in May(ms) : InRange(s, r)}            \* these have to be returned
NamesOf(S)      == (IF S = {} THEN {} ELSE {BaseName}) \cup {n \in Names : \E s \in S : Val(s, n) # ""}
ValsOf(S, n)    == {Val(s, n) : s \in S} \ {""}
\* limit law: a limited answer has min(N, |unlimited|) entries, all from the unlimited answer
LimitOK(lim, unl, N) == /\ lim \subseteq unl
                        /\ Cardinality(lim) = IF N = 0 \/ Cardinality(unl) < N THEN Cardinality(unl) ELSE N

-----------------------------------------------------------------------------
(* TRANSCRIPTION of tsdb/querier.go over an inverted index `ix` (the set of *)
(* series of one block or of the head).                                     *)
Idx(c) == {s \in Stored : \E t \in store[s] : Cont(t) = c}

\* IndexReader.Postings(name, value): no entry for the empty value
PostEq(ix, n, v)  == {s \in ix : v # "" /\ Val(s, n) = v}
PostSet(ix, n, V) == {s \in ix : Val(s, n) # "" /\ Val(s, n) \in V}
\* IndexReader.PostingsForAllLabelValues
PostAll(ix, n)    == {s \in ix : Val(s, n) # ""}
\* IndexReader.PostingsForLabelMatching(name, f) with f = m.Matches (neg = FALSE) or its negation
PostMatching(ix, m, neg) == {s \in ix : Val(s, m.n) # "" /\ (Holds(m, Val(s, m.n)) # neg)}

\* postingsForMatcher: never returns postings for missing labels
PostingsForMatcher(ix, m) ==
  IF m.t = "=" THEN PostEq(ix, m.n, m.v)
  ELSE IF m.t = "=~" /\ SetOf(m.v) # {} THEN PostSet(ix, m.n, SetOf(m.v))
  ELSE PostMatching(ix, m, FALSE)

\* inversePostingsForMatcher: series with the label set but not matching m
InversePostingsForMatcher(ix, m) ==
  IF m.t = "!~" /\ SetOf(m.v) # {} THEN PostSet(ix, m.n, SetOf(m.v))
  ELSE IF m.t = "!=" THEN PostEq(ix, m.n, m.v)
  ELSE IF m.v = "" /\ m.t \in {"=~", "="} THEN PostAll(ix, m.n)
  ELSE PostMatching(ix, m, TRUE)

MustBeSet(ms, n) == \E i \in DOMAIN ms : ms[i].n = n /\ ~Holds(ms[i], "")      \* labelMustBeSet
IsSub(ms, m)     == ~MustBeSet(ms, m.n) \/ (IsNot(m) /\ Holds(m, ""))          \* isSubtractingMatcher

\* one iteration of the `for _, m := range ms` switch of PostingsForMatchers:
\* k = "nop" | "empty" (early return of EmptyPostings) | "its" | "not"
Mk(k, br, p) == [k |-> k, br |-> br, p |-> p]
OrEmpty(br, p) == IF p = {} THEN Mk("empty", br, {}) ELSE Mk("its", br, p)
Step(ix, ms, m) ==
  CASE m.t = "=~" /\ m.v = ".*" -> Mk("nop", "dotstar", {})
    [] m.t = "!~" /\ m.v = ".*" -> Mk("empty", "notdotstar", {})
    [] m.t = "=~" /\ m.v = ".+" -> OrEmpty("dotplus", PostAll(ix, m.n))
    [] m.t = "!~" /\ m.v = ".+" -> Mk("not", "notdotplus", PostAll(ix, m.n))
    [] OTHER ->
       IF MustBeSet(ms, m.n) THEN
          IF IsNot(m) /\ Holds(m, "") THEN Mk("not", "set.not", PostingsForMatcher(ix, Inverse(m)))     \* l!="foo"
          ELSE IF IsNot(m) THEN OrEmpty("set.notempty", InversePostingsForMatcher(ix, Inverse(m)))      \* l!=""
          ELSE OrEmpty("set.pos", PostingsForMatcher(ix, m))                                             \* l="a"
       ELSE Mk("not", "unset", InversePostingsForMatcher(ix, m))                                         \* l=""

RECURSIVE Inter(_)
Inter(F) == IF Cardinality(F) = 1 THEN CHOOSE x \in F : TRUE
            ELSE LET x == CHOOSE x \in F : TRUE IN x \cap Inter(F \ {x})

\* PostingsForMatchers (the sort of ms does not change the resulting set; a single matcher with
\* empty name and empty value is taken as the AllPostingsKey whatever its type; the empty list
\* yields the empty intersection, exactly as index.Intersect() does)
IsAllKey(ms) == Len(ms) = 1 /\ ms[1].n = "" /\ ms[1].v = ""     \* the type of the matcher is not looked at
PFM(ix, ms) ==
  IF IsAllKey(ms) THEN ix ELSE
  LET st     == [i \in DOMAIN ms |-> Step(ix, ms, ms[i])]
      hasSub == \E i \in DOMAIN ms : IsSub(ms, ms[i])
      hasInt == \E i \in DOMAIN ms : ~IsSub(ms, ms[i])
      its0   == {st[i].p : i \in {j \in DOMAIN ms : st[j].k = "its"}}
      its    == IF hasSub /\ ~hasInt THEN its0 \cup {ix} ELSE its0
      nots   == UNION {st[i].p : i \in {j \in DOMAIN ms : st[j].k = "not"}}
  IN IF \E i \in DOMAIN ms : st[i].k = "empty" THEN {}
     ELSE IF its = {} THEN {}
     ELSE Inter(its) \ nots

\* The per-querier results are tabulated once per query (TLCEval: TLC keeps function constructors
\* lazy otherwise and would recompute PFM at every use).
\* T.pf[c] = PostingsForMatchers on container c, T.qn[c] / T.qv[n][c] = the label names / values
\* of querier c (labelNamesWithMatchers, labelValuesWithMatchers; without matchers: the whole index)
Tab(ms) ==
  LET ix == TLCEval([c \in 1..phase |-> TLCEval(Idx(c))])
      pf == TLCEval([c \in 1..phase |-> TLCEval(PFM(ix[c], ms))])
      qvals(c, n) ==
        IF ms = <<>> THEN ValsOf(ix[c], n)
        ELSE LET all      == ValsOf(ix[c], n)
                 filtered == {v \in all : \A i \in DOMAIN ms : ms[i].n = n => Holds(ms[i], v)}
                 other    == \E i \in DOMAIN ms : ms[i].n # n
             IN IF ~other THEN filtered
                ELSE {v \in filtered : pf[c] \cap PostEq(ix[c], n, v) # {}}      \* FindIntersectingPostings
  IN [ix |-> ix, pf |-> pf,
      qn |-> TLCEval([c \in 1..phase |-> TLCEval(IF ms = <<>> THEN NamesOf(ix[c]) ELSE NamesOf(pf[c]))]),
      qv |-> TLCEval([n \in Names |-> TLCEval([c \in 1..phase |-> TLCEval(qvals(c, n))])])]

\* DB.Querier: blocks overlapping the range plus the head (container granularity)
Included(r) == {c \in 1..phase : Cont(r[1]) <= c /\ c <= Cont(r[2])}
\* blockBaseSeriesSet.Next: the series needs a chunk overlapping the range; a chunk spans the
\* points of the series inside one container
ChunkOverlaps(s, c, r) == LET P == {t \in store[s] : Cont(t) = c} IN
                          P # {} /\ (\E t \in P : t <= r[2]) /\ (\E t \in P : t >= r[1])
ImplSelect(T, r)  == UNION {{s \in T.pf[c] : ChunkOverlaps(s, c, r)} : c \in Included(r)}
ImplNames(T, r)   == UNION {T.qn[c] : c \in Included(r)}
ImplVals(T, n, r) == UNION {T.qv[n][c] : c \in Included(r)}

\* hints.Limit: every querier truncates (any N elements: the head keeps insertion order),
\* mergeGenericQuerier.mergeResults splits the queriers by halves, truncates both halves,
\* merges (deduplicating) and truncates again
Trunc(S, N) == IF N = 0 \/ Cardinality(S) <= N THEN S
               ELSE CHOOSE T \in SUBSET S : Cardinality(T) = N
RECURSIVE MergeResults(_, _)
MergeResults(q, N) ==       \* q = sequence of the queriers' (already limited) answers
  IF Len(q) = 0 THEN {}
  ELSE IF Len(q) = 1 THEN q[1]
  ELSE LET h == Len(q) \div 2 IN
       Trunc(Trunc(MergeResults(SubSeq(q, 1, h), N), N) \cup Trunc(MergeResults(SubSeq(q, h + 1, Len(q)), N), N), N)
\* head first, then the blocks (order of blockQueriers in DB.Querier)
QuerierSeq(I) == (IF phase \in I THEN <<phase>> ELSE <<>>)
                 \o (IF 1 \in I \ {phase} THEN <<1>> ELSE <<>>) \o (IF 2 \in I \ {phase} THEN <<2>> ELSE <<>>)
Limited(f, I, N) == LET qs == QuerierSeq(I) IN          \* f[c] = unlimited answer of querier c
                    MergeResults([i \in DOMAIN qs |-> Trunc(f[qs[i]], N)], N)

-----------------------------------------------------------------------------
(* Sharding (C18): a series belongs to shard H(labels) % n where H is a      *)
(* function of the label set alone.  H is uninterpreted here: the model      *)
(* fixes the algebra (ShardOf / ShardAlgebra below), the observed shard of   *)
(* every series and the real labels.StableHash of the three build variants   *)
(* are validated against Trace_Shard.tla.                                    *)
ShardOf(S, H, n, i) == {s \in S : H[s] % n = i}
\* whatever H is, the shards 0..n-1 of a selection are pairwise disjoint and their union is the
\* selection (checked for three sample hash functions over the series ids)
RECURSIVE EnumIds(_)
EnumIds(S) == IF S = {} THEN <<>> ELSE LET x == CHOOSE x \in S : TRUE IN <<x>> \o EnumIds(S \ {x})
IdSeq  == TLCEval(EnumIds(AllIds))
IdRank == TLCEval([s \in AllIds |-> CHOOSE i \in DOMAIN IdSeq : IdSeq[i] = s])
SampleHashes == {[s \in AllIds |-> 0], IdRank, [s \in AllIds |-> 7 * IdRank[s] + 3]}
ShardAlgebra(S, n) ==
  \A H \in SampleHashes :
    /\ UNION {ShardOf(S, H, n, i) : i \in 0..(n - 1)} = S
    /\ \A i, j \in 0..(n - 1) : i # j => ShardOf(S, H, n, i) \cap ShardOf(S, H, n, j) = {}

-----------------------------------------------------------------------------
(* Behaviour                                                                *)
SeriesDesc(st) == {[id |-> s, l |-> LM[s], pts |-> st[s]] : s \in DOMAIN st}

\* full stores used as initial states: every label map is stored, the placement follows a rule
PatPlace(p, s) ==
  LET a == Val(s, NameSeq[1])
      b == Val(s, NameSeq[Len(NameSeq)]) IN
  CASE p = "allH"  -> {5}
    [] p = "allB"  -> {1}
    [] p = "HB"    -> {2, 5}
    [] p = "three" -> {1, 3, 6}
    [] p = "mixA"  -> (CASE a = "" -> {1} [] a = "x" -> {5} [] a = "y" -> {2, 5} [] OTHER -> {3})
    [] p = "mixB"  -> (CASE b = "" -> {2, 6} [] b = "x" -> {3} [] b = "y" -> {5, 6} [] OTHER -> {1, 4})
    [] p = "aOnly" -> (CASE a = "" -> {5} [] a = "x" -> {1} [] OTHER -> {2, 5})
    [] OTHER       -> {5}
\* sub-universes: stores in which a label name or value does not occur at all
PatDomain(p) ==
  LET a(s) == Val(s, NameSeq[1])
      b(s) == Val(s, NameSeq[Len(NameSeq)]) IN
  CASE p = "none"    -> {}
    [] p = "aOnly"   -> {s \in AllIds : b(s) = ""}
    [] p = "bxOnly"  -> {s \in AllIds : b(s) = "x"}
    [] p = "one"     -> {s \in AllIds : a(s) = "x" /\ b(s) = ""}
    [] p = "aSet"    -> {s \in AllIds : a(s) # ""}
    [] OTHER         -> AllIds
PatternStore(p) == [s \in PatDomain(p) |-> PatPlace(p, s)]

InitRec(st, ph) == [a |-> "Init", phase |-> ph, series |-> SeriesDesc(st),
                    ranges |-> RangeSeq, limits |-> LimitSeq]
Init ==
  /\ \/ /\ "empty" \in InitFamilies
        /\ store = <<>>
        /\ phase = 1
     \/ /\ "pattern" \in InitFamilies
        /\ \E p \in Patterns : store = PatternStore(p)
        /\ phase = 3
  /\ nops = 0
  /\ hist = <<InitRec(store, phase)>>
  /\ TLCSet(1, {})

PointsOf(s) == IF s \in Stored THEN store[s] ELSE {}

\* one committed in-order sample for series lm at point t (t lies in the head container)
AppendSample(lm, t) ==
  LET old == PointsOf(lm) IN
  /\ Cont(t) = phase
  /\ \A u \in old : u < t
  /\ (old \cup {t}) \in AllowedPlaces
  /\ Cardinality(Stored \cup {lm}) <= MaxSeries
  /\ store' = [s \in Stored \cup {lm} |-> IF s = lm THEN old \cup {t} ELSE store[s]]
  /\ UNCHANGED phase
  /\ nops' = nops + 1
  /\ hist' = Append(hist, [a |-> "Append", id |-> lm, l |-> LM[lm], t |-> t])

\* db.CompactHead over the head container: its samples become a block, the next container is the head
Cut ==
  /\ phase < 3
  /\ phase' = phase + 1
  /\ UNCHANGED store
  /\ nops' = nops + 1
  /\ hist' = Append(hist, [a |-> "Cut", c |-> phase])

RangeIdx == DOMAIN RangeSeq
QueryRec(ms) ==
  LET may  == TLCEval(May(ms))
      must == TLCEval([i \in RangeIdx |-> TLCEval({s \in may : InRange(s, RangeSeq[i])})]) IN
  [a |-> "Q", ms |-> ms,
   may   |-> may,
   must  |-> must,
   nmay  |-> NamesOf(may),
   nmust |-> [i \in RangeIdx |-> NamesOf(must[i])],
   vmay  |-> [n \in Names |-> ValsOf(may, n)],
   vmust |-> [n \in Names |-> [i \in RangeIdx |-> ValsOf(must[i], n)]]]

Query(ms) ==
  /\ UNCHANGED <<store, phase>>
  /\ nops' = nops + 1
  /\ hist' = Append(hist, QueryRec(ms))

\* Select with SelectHints{ShardIndex: i, ShardCount: n} for every i < n, over the whole time axis;
\* the unsharded answer is bounded like any Select
ShardQuery(ms, n) ==
  /\ UNCHANGED <<store, phase>>
  /\ nops' = nops + 1
  /\ hist' = Append(hist, [a |-> "Shard", ms |-> ms, n |-> n, may |-> May(ms), must |-> <<Must(ms, <<1, NPoints>>)>>])

\* simulation: arguments drawn at random (single successor per disjunct; the random values are
\* bound by a quantifier over a singleton so that they are evaluated exactly once)
RandMsOf(k) == [i \in 1..k |-> RandomElement(Singles)]
RandQuery == \E k \in {RandomElement(1..3)} : \E ms \in {RandMsOf(k)} : Query(ms)
SimNext ==
  \/ \E j \in 1..3 : \E lm \in {RandomElement(AllIds)} :
        \E t \in {RandomElement({u \in 1..NPoints : Cont(u) = phase})} : AppendSample(lm, t)
  \/ Cut
  \/ \E j \in 1..4 : RandQuery

End == nops = MaxOps /\ nops' = MaxOps + 1 /\ UNCHANGED <<store, phase, hist>>

Next ==
  \/ /\ nops < MaxOps
     /\ IF Mode = "sim"
        THEN (IF nops = MaxOps - 1 THEN RandQuery ELSE SimNext)
        ELSE \/ /\ nops < MaxOps - 1
                /\ \/ \E lm \in AllIds, t \in 1..NPoints : AppendSample(lm, t)
                   \/ Cut
             \/ \E ms \in MsLists : Query(ms)
             \/ \E ms \in MsLists \ {<<>>}, n \in ShardCounts : ShardQuery(ms, n)
  \/ End

Spec == Init /\ [][Next]_vars

-----------------------------------------------------------------------------
(* What TLC checks on the design.                                           *)
TypeOK == /\ phase \in 1..3
          /\ Stored \subseteq AllIds
          /\ \A s \in Stored : store[s] # {} /\ store[s] \subseteq 1..NPoints /\ \A t \in store[s] : Cont(t) <= phase

IsQ  == hist' # hist /\ Last(hist').a = "Q"
IsShard == hist' # hist /\ Last(hist').a = "Shard"
ShardsPartition == [][IsShard => ShardAlgebra(May(Last(hist').ms), Last(hist').n)]_vars
QMs  == Last(hist').ms

\* Known findings (known_findings.json), written as narrow predicates on the matcher list:
\* KF-C16-1  PostingsForMatchers of the empty list is the empty intersection: Select() without
\*           matchers returns nothing although every series satisfies the (empty) conjunction
\* KF-C16-2  {""!=""} and {""!~""} are taken for the AllPostingsKey: every series is selected
\*           although no series satisfies the matcher
KF_C16_1(ms) == ms = <<>>
KF_C16_2(ms) == IsAllKey(ms) /\ IsNot(ms[1])

\* C16 core: PostingsForMatchers selects exactly the series satisfying every matcher
\* (absent label = ""), on every block and on the head
PostingsCorrect ==
  [][IsQ => \/ \A c \in 1..phase : PFM(Idx(c), QMs) = {s \in Idx(c) : RefMatch(s, QMs)}
            \/ KF_C16_1(QMs) \/ KF_C16_2(QMs)]_vars

\* Select through DB.Querier: everything with a sample in range, nothing that does not match
SelectBounds ==
  [][IsQ => \/ LET T == Tab(QMs) IN
               \A i \in RangeIdx : /\ Must(QMs, RangeSeq[i]) \subseteq ImplSelect(T, RangeSeq[i])
                                   /\ ImplSelect(T, RangeSeq[i]) \subseteq May(QMs)
            \/ KF_C16_1(QMs) \/ KF_C16_2(QMs)]_vars

\* label names / values: every name/value of a matching series with data in range, only those of stored matching series
LabelBoundsOf(ms) ==
  LET T   == Tab(ms)
      may == TLCEval(May(ms)) IN
  \A i \in RangeIdx :
    LET must == TLCEval({s \in may : InRange(s, RangeSeq[i])}) IN
    /\ NamesOf(must) \subseteq ImplNames(T, RangeSeq[i])
    /\ ImplNames(T, RangeSeq[i]) \subseteq NamesOf(may)
    /\ \A n \in Names : /\ ValsOf(must, n) \subseteq ImplVals(T, n, RangeSeq[i])
                        /\ ImplVals(T, n, RangeSeq[i]) \subseteq ValsOf(may, n)
LabelBounds == [][IsQ => (LabelBoundsOf(QMs) \/ KF_C16_2(QMs))]_vars

\* the limit law survives per-querier truncation and the pairwise merge (for every set of queriers a
\* range of RangeSeq selects)
LimitLaw ==
  [][IsQ => LET T == Tab(QMs) IN
       \A I \in {Included(RangeSeq[i]) : i \in RangeIdx} : \A j \in DOMAIN LimitSeq :
         /\ LimitOK(Limited(T.qn, I, LimitSeq[j]), UNION {T.qn[c] : c \in I}, LimitSeq[j])
         /\ \A n \in Names : LimitOK(Limited(T.qv[n], I, LimitSeq[j]), UNION {T.qv[n][c] : c \in I}, LimitSeq[j])]_vars

-----------------------------------------------------------------------------
(* Behaviour emission (see lib/vlib.py).                                    *)
\* coverage class of a query: the branch of the PostingsForMatchers switch taken by every matcher
\* on every index, which indexes exist, and whether the answer is empty / partial / everything
Sig(ms) ==
  <<[i \in DOMAIN ms |-> <<ms[i].t, {<<c, Step(Idx(c), ms, ms[i]).br, Step(Idx(c), ms, ms[i]).k>> : c \in 1..phase}>>],
    {c \in 1..phase : Idx(c) # {}},
    IF May(ms) = {} THEN "none" ELSE IF May(ms) = Stored THEN "all" ELSE "some",
    {i \in RangeIdx : Must(ms, RangeSeq[i]) # May(ms)},
    Cardinality(Stored)>>

Emit ==
  CASE EmitMode = "none" -> TRUE
    [] hist' = hist -> TRUE
    [] EmitMode = "all" -> PrintT("@@TR " \o ToJson(hist'))
    [] OTHER -> IF Last(hist').a # "Q" THEN TRUE
                ELSE LET cl == Sig(Last(hist').ms) IN
                     \/ cl \in TLCGet(1)
                     \/ /\ TLCSet(1, TLCGet(1) \cup {cl})
                        /\ PrintT("@@TR " \o ToJson(hist'))

EmitWalk == nops <= MaxOps \/ PrintT("@@TR " \o ToJson(hist))

\* the regex table, printed once, for the harness' cross-check against regexp / SetMatches
ASSUME PrintT("@@RE " \o ToJson(ReTable))
=============================================================================
