SPECIFICATION Spec
CONSTANTS
  NameSeq <- NS2
  Vals = {"x", "y", "f"}
  EqVals = {"", "x"}
  ReSyms = {".+", "<x>|<y>"}
  PairEqVals = {}
  PairReSyms = {}
  MaxMs = 1
  InitFamilies = {"pattern"}
  Patterns = {"allH", "allB", "HB", "mixA", "three", "none"}
  AllowedPlaces = {}
  MaxSeries = 0
  MaxOps = 1
  RangeSeq <- R3
  LimitSeq <- L3
  ShardCounts = {1, 2, 3, 5, 16, 64}
  EmptyName = FALSE
  Mode = "mc"
  EmitMode = "all"
VIEW View
INVARIANTS TypeOK
PROPERTIES ShardsPartition
ACTION_CONSTRAINT Emit
CHECK_DEADLOCK FALSE
