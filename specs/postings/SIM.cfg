SPECIFICATION Spec
CONSTANTS
  NameSeq <- NS3
  Vals = {"x", "y", "f"}
  EqVals = {"", "x", "y", "z"}
  ReSyms = {".*", ".+", "", "<x>", "<z>", "<x>|<y>", "<x>|<z>", "|<y>", "(?:<x>)?", "(?:<x>|<y>)?", "<x>.*", ".*<y>", ".*<x>.*", "(?i)<x>", "<x>.+", "(?:<y>|<z>).*"}
  PairEqVals = {}
  PairReSyms = {}
  MaxMs = 0
  InitFamilies = {"empty", "pattern"}
  Patterns = {"mixA", "aOnly", "one"}
  AllowedPlaces <- AnyPlace
  MaxSeries = 14
  RangeSeq <- R6
  LimitSeq <- L4
  ShardCounts = {}
  EmptyName = FALSE
  Mode = "sim"
  EmitMode = "none"
INVARIANTS TypeOK EmitWalk
PROPERTIES PostingsCorrect SelectBounds LabelBounds LimitLaw
CHECK_DEADLOCK FALSE
