SPECIFICATION Spec
CONSTANTS
  NameSeq <- NS2
  Vals = {"x", "y", "f"}
  EqVals = {"", "x", "y", "z"}
  ReSyms = {".*", ".+", "", "<x>", "<z>", "<x>|<y>", "<x>|<z>", "|<y>", "(?:<x>)?", "(?:<x>|<y>)?", "<x>.*", ".*<y>", ".*<x>.*", "(?i)<x>", "<x>.+", "(?:<y>|<z>).*"}
  PairEqVals = {"", "x", "y", "z"}
  PairReSyms = {".*", ".+", "", "<x>", "<z>", "<x>|<y>", "<x>|<z>", "|<y>", "(?:<x>)?", "(?:<x>|<y>)?", "<x>.*", ".*<y>", ".*<x>.*", "(?i)<x>", "<x>.+", "(?:<y>|<z>).*"}
  MaxMs = 2
  InitFamilies = {"pattern"}
  Patterns = {"allH", "allB", "HB", "three", "mixA", "mixB", "none", "aOnly", "bxOnly", "one", "aSet"}
  AllowedPlaces = {}
  MaxSeries = 0
  MaxOps = 1
  RangeSeq <- R6
  LimitSeq <- L4
  ShardCounts = {}
  EmptyName = TRUE
  Mode = "mc"
  EmitMode = "all"
VIEW View
INVARIANTS TypeOK
PROPERTIES PostingsCorrect SelectBounds LabelBounds LimitLaw
ACTION_CONSTRAINT Emit
CHECK_DEADLOCK FALSE
