SPECIFICATION Spec
CONSTANTS
  NameSeq <- NS2
  Vals = {"x", "y"}
  EqVals = {"", "x", "y", "z"}
  ReSyms = {".*", ".+", "", "<x>", "<z>", "<x>|<y>", "<x>|<z>", "|<y>", "(?:<x>)?", "(?:<x>|<y>)?", "<x>.*", ".*<y>", ".*<x>.*", "(?i)<x>", "<x>.+", "(?:<y>|<z>).*"}
  PairEqVals = {""}
  PairReSyms = {".+"}
  MaxMs = 2
  InitFamilies = {"empty"}
  Patterns = {}
  AllowedPlaces = {{1}, {5}}
  MaxSeries = 2
  MaxOps = 5
  RangeSeq <- R3
  LimitSeq <- L3
  ShardCounts = {}
  EmptyName = TRUE
  Mode = "mc"
  EmitMode = "class"
VIEW View
INVARIANTS TypeOK
PROPERTIES PostingsCorrect SelectBounds LabelBounds LimitLaw
ACTION_CONSTRAINT Emit
CHECK_DEADLOCK FALSE
