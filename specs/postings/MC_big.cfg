SPECIFICATION Spec
CONSTANTS
  NameSeq <- NS2
  Vals = {"x", "y"}
  EqVals = {"", "x", "y", "z"}
  ReSyms = {".*", ".+", "", "<x>", "<z>", "<x>|<y>", "<x>|<z>", "|<y>", "(?:<x>)?", "(?:<x>|<y>)?", "<x>.*", ".*<y>", ".*<x>.*", "(?i)<x>", "<x>.+", "(?:<y>|<z>).*"}
  PairEqVals = {"", "x", "z"}
  PairReSyms = {".*", ".+", "", "<x>", "<x>|<y>", "|<y>", "(?:<x>)?", "<x>.*"}
  MaxMs = 2
  InitFamilies = {"empty"}
  Patterns = {}
  AllowedPlaces = {{1}, {5}, {1, 5}, {3}}
  MaxSeries = 3
  MaxOps = 7
  RangeSeq <- R6
  LimitSeq <- L4
  ShardCounts = {}
  Mode = "mc"
  EmitMode = "none"
VIEW View
INVARIANTS TypeOK
PROPERTIES PostingsCorrect SelectBounds LabelBounds LimitLaw
CHECK_DEADLOCK FALSE
