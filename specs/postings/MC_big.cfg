SPECIFICATION Spec
CONSTANTS
  NameSeq <- NS2
  Vals = {"x", "y"}
  EqVals = {"", "x", "y", "z"}
  ReSyms = {".*", ".+", "", "<x>", "<z>", "<x>|<y>", "<x>|<z>", "|<y>", "(?:<x>)?", "(?:<x>|<y>)?", "<x>.*", ".*<y>", ".*<x>.*", "(?i)<x>", "<x>.+", "(?:<y>|<z>).*"}
  PairEqVals = {"", "x"}
  PairReSyms = {".+", "", "<x>|<y>", "(?:<x>)?"}
  MaxMs = 2
  InitFamilies = {"empty"}
  Patterns = {}
  AllowedPlaces = {{1}, {5}, {1, 5}}
  MaxSeries = 3
  MaxOps = 7
  RangeSeq <- R6
  LimitSeq <- L4
  ShardCounts = {}
  EmptyName = TRUE
  Mode = "mc"
  EmitMode = "none"
VIEW View
INVARIANTS TypeOK
PROPERTIES PostingsCorrect SelectBounds LabelBounds LimitLaw
CHECK_DEADLOCK FALSE
