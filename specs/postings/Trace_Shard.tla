----------------------------- MODULE Trace_Shard -----------------------------
(***************************************************************************)
(* Trace validation for C18: the events recorded from the real code are    *)
(*   hash  [ls, tag, p2, p1, p0]  labels.StableHash(ls) under one build    *)
(*                                variant, split into 22-bit chunks (TLC   *)
(*                                integers are 32-bit)                     *)
(*   shard [ls, n, i, src]        series ls was returned by Select with    *)
(*                                ShardCount n, ShardIndex i (src = head,  *)
(*                                block, both or reopen)                   *)
(* The trace is accepted iff there is ONE function H of the label set such *)
(* that every hash event reports H(ls) - whatever the build variant or the *)
(* way the label set was built - and every shard event has i = H(ls) % n.  *)
(*                                                                         *)
(* The driver orders the events by label set (hash events first inside a   *)
(* group), so the state only carries H of the current label set; the       *)
(* ASSUME below rejects a trace in which a label set has two groups.       *)
(***************************************************************************)
EXTENDS Integers, Sequences, FiniteSets, TLC, Json

Trace == ndJsonDeserialize("trace.ndjson")

VARIABLES pos, cur, bad
vars == <<pos, cur, bad>>

GroupStart(i) == i = 1 \/ Trace[i].ls # Trace[i - 1].ls
Starts == {i \in DOMAIN Trace : GroupStart(i)}
ASSUME Cardinality({Trace[i].ls : i \in Starts}) = Cardinality(Starts)

Pow22 == 4194304
\* (p2 * 2^44 + p1 * 2^22 + p0) % n with small intermediate values
Mod(h, n) == LET m22 == Pow22 % n
                 m44 == (m22 * m22) % n
             IN ((h[1] % n) * m44 + (h[2] % n) * m22 + (h[3] % n)) % n

Init == pos = 1 /\ cur = <<>> /\ bad = "none"

Ev == Trace[pos]
Known == IF GroupStart(pos) THEN <<>> ELSE cur       \* H(Ev.ls) as far as the trace has told
HashEv ==
  LET h == <<Ev.p2, Ev.p1, Ev.p0>> IN
  /\ cur' = IF Known = <<>> THEN h ELSE Known
  /\ bad' = IF Known = <<>> \/ Known = h THEN bad
            ELSE "hash-differs-between-variants: " \o Ev.ls \o " (" \o Ev.tag \o ")"
ShardEv ==
  /\ cur' = Known
  /\ bad' = IF Known = <<>> THEN "shard-of-unknown-series: " \o Ev.ls
            ELSE IF Mod(Known, Ev.n) = Ev.i THEN bad
            ELSE "shard-is-not-hash-mod-n: " \o Ev.ls \o " (" \o Ev.src \o ")"

Next == /\ pos <= Len(Trace)
        /\ pos' = pos + 1
        /\ IF Ev.e = "hash" THEN HashEv ELSE ShardEv
Spec == Init /\ [][Next]_vars

\* a series' shard depends only on its label set: one H for all variants, restarts and index kinds
OneFunction == bad = "none"
=============================================================================
