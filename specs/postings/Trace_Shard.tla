----------------------------- MODULE Trace_Shard -----------------------------
(***************************************************************************)
(* Trace validation for C18: the events recorded from the real code are    *)
(*   hash  [ls, tag, p2, p1, p0]  labels.StableHash(ls) under one build    *)
(*                                variant, split into 22-bit chunks (TLC   *)
(*                                integers are 32-bit)                     *)
(*   shard [ls, n, i, src]        series ls was returned by Select with    *)
(*                                ShardCount n, ShardIndex i (src = head,  *)
(*                                block, both or reopen)                   *)
(* The trace is accepted iff there is ONE function H of the label set such *)
(* that every hash event reports H(ls) - whatever the build variant - and  *)
(* every shard event has i = H(ls) % n.                                    *)
(***************************************************************************)
EXTENDS Integers, Sequences, FiniteSets, TLC, Json

Trace == ndJsonDeserialize("trace.ndjson")

VARIABLES pos, H, bad
vars == <<pos, H, bad>>

Pow22 == 4194304
\* (p2 * 2^44 + p1 * 2^22 + p0) % n with small intermediate values
Mod(h, n) == LET m22 == Pow22 % n
                 m44 == (m22 * m22) % n
             IN ((h[1] % n) * m44 + (h[2] % n) * m22 + (h[3] % n)) % n

Init == pos = 1 /\ H = <<>> /\ bad = "none"

Ev == Trace[pos]
HashEv ==
  LET h == <<Ev.p2, Ev.p1, Ev.p0>> IN
  IF Ev.ls \in DOMAIN H
  THEN /\ H' = H
       /\ bad' = IF H[Ev.ls] = h THEN bad ELSE "hash-differs-between-variants: " \o Ev.ls \o " (" \o Ev.tag \o ")"
  ELSE /\ H' = [x \in DOMAIN H \cup {Ev.ls} |-> IF x = Ev.ls THEN h ELSE H[x]]
       /\ bad' = bad
ShardEv ==
  /\ H' = H
  /\ bad' = IF Ev.ls \notin DOMAIN H THEN "shard-of-unknown-series: " \o Ev.ls
            ELSE IF Mod(H[Ev.ls], Ev.n) = Ev.i THEN bad
            ELSE "shard-is-not-hash-mod-n: " \o Ev.ls \o " (" \o Ev.src \o ")"

Next == /\ pos <= Len(Trace)
        /\ pos' = pos + 1
        /\ IF Ev.e = "hash" THEN HashEv ELSE ShardEv
Spec == Init /\ [][Next]_vars

\* a series' shard depends only on its label set: one H for all variants, restarts and index kinds
OneFunction == bad = "none"
=============================================================================
