------------------------------- MODULE Compact -------------------------------
(***************************************************************************)
(* C19, chunk level: storage.NewCompactingChunkSeriesMerger /              *)
(* compactChunkIterator (storage/merge.go) over K chunk series with the    *)
(* same label set.  Every input is a time-ordered list of non-overlapping, *)
(* single-type chunks; chunks of different inputs overlap freely.          *)
(*                                                                         *)
(* REFERENCE (what the property demands): the emitted chunks are           *)
(* time-ordered and non-overlapping, their concatenated samples are the    *)
(* sample-level merge (sorted union of timestamps, one sample per          *)
(* timestamp from some input that has one there), and a group of chunks    *)
(* that are all identical is emitted as that one chunk.  `Groups` are the  *)
(* maximal sets of transitively time-overlapping input chunks.             *)
(*                                                                         *)
(* TRANSCRIPTION: CNext = one call of compactChunkIterator.Next: pop the   *)
(* oldest chunk, absorb every chunk overlapping the running [min,oMax]     *)
(* (skipping perfect duplicates of the previously absorbed one), merge the *)
(* overlapping chunks through the vertical series merger and re-encode     *)
(* (NewSeriesToChunkEncoder cuts at every sample-type change); the first   *)
(* re-encoded chunk is returned, the rest is pushed back as a new          *)
(* iterator.  Nondeterminism: heap ties, and which input wins at an equal  *)
(* timestamp (only the *type* of the winner matters for the cuts).         *)
(*                                                                         *)
(* The behaviours for the Go harness are one record per input             *)
(* configuration carrying the REFERENCE prediction (groups with their      *)
(* samples and allowed (input,type) pairs).  TLC checks every path of the  *)
(* transcription against the same reference.                               *)
(***************************************************************************)
EXTENDS Integers, Sequences, FiniteSets, TLC, Json

CONSTANTS K, MaxT, Types,
          Lvls,       \* counter levels of the inputs (set of integers): every input holds its histograms at one level,
                      \* increasing inside the input; a merged stream that steps DOWN a level is a counter reset
          EmitMode    \* "cfg" | "none"

VARIABLES ins,      \* [1..K -> Seq(chunk)], chunk = Seq([t, ty, lv, srcs])
          lv,       \* [1..K -> Lvls] counter level of every input
          slot,     \* Build cursor
          started,  \* c.h # nil
          heap,     \* set of [id, rest] : chunk iterators, rest[1] = At()
          nid,      \* id of the next re-encoded iterator
          out,      \* chunks returned so far
          done,     \* Next returned false
          ref       \* the reference prediction for `ins` (set by the last Build step)

vars == <<ins, lv, slot, started, heap, nid, out, done, ref>>

N     == MaxT + 1
Ids   == 1..K
Built == slot = K * N

Min(S) == CHOOSE x \in S : \A y \in S : x <= y
Max(S) == CHOOSE x \in S : \A y \in S : x >= y
Last(q) == q[Len(q)]

ChMin(c) == c[1].t
ChMax(c) == c[Len(c)].t
\* "perfect duplicate": same MinTime, MaxTime and bytes
Same(a, b) == Len(a) = Len(b) /\ \A k \in 1..Len(a) : a[k].t = b[k].t /\ a[k].ty = b[k].ty /\ a[k].lv = b[k].lv

-----------------------------------------------------------------------------
(* REFERENCE: computed once, when the inputs are complete, into `ref`.        *)

SamplesOf(c) == {c[k] : k \in 1..Len(c)}

RECURSIVE SortSpans(_)
SortSpans(S) == IF S = {} THEN <<>>
                ELSE LET m == CHOOSE x \in S : \A y \in S : x[1] <= y[1]
                     IN <<m>> \o SortSpans(S \ {m})

RefOf(I) ==
  LET C   == UNION {{I[i][j] : j \in 1..Len(I[i])} : i \in Ids}          \* all input chunks
      S   == UNION {SamplesOf(c) : c \in C}
      TS  == {s.t : s \in S}
      \* a merged sample at t may be the sample of any input that has one at t
      Al  == [t \in TS |-> UNION {{[i |-> i, ty |-> s.ty] : i \in s.srcs} : s \in {x \in S : x.t = t}}]
      M   == SelectSeq([j \in 1..N |-> j - 1], LAMBDA t : t \in TS)     \* sorted union of the timestamps
      Iv  == {<<ChMin(c), ChMax(c)>> : c \in C}
      \* maximal sets of transitively overlapping chunks = the intervals that result from sweeping
      Cut(t) == \A iv \in Iv : iv[2] < t \/ iv[1] >= t                    \* no chunk spans t-1..t
      Los == {iv[1] : iv \in {x \in Iv : Cut(x[1])}}
      Sp  == {<<lo, Max({iv[2] : iv \in {x \in Iv : x[1] >= lo /\ \A l2 \in Los : l2 > lo => x[1] < l2}})>> : lo \in Los}
      ss  == SortSpans(Sp)
  IN [merged |-> M,
      al     |-> Al,
      groups |-> [g \in 1..Len(ss) |->
                    LET G == {c \in C : ChMin(c) >= ss[g][1] /\ ChMax(c) <= ss[g][2]}
                        T == SelectSeq(M, LAMBDA t : t >= ss[g][1] /\ t <= ss[g][2])
                    IN [lo |-> ss[g][1], hi |-> ss[g][2],
                        uniform |-> \A x, y \in G : Same(x, y),           \* only perfect duplicates
                        ts |-> [k \in 1..Len(T) |-> [t |-> T[k], al |-> Al[T[k]]]]]]]

Merged == ref.merged
Spans  == {<<ref.groups[g].lo, ref.groups[g].hi>> : g \in 1..Len(ref.groups)}
UniformSpans == {<<ref.groups[g].lo, ref.groups[g].hi>> : g \in {x \in 1..Len(ref.groups) : ref.groups[x].uniform}}

-----------------------------------------------------------------------------
(* TRANSCRIPTION helpers                                                    *)

Less(a, b) == ChMin(a) < ChMin(b) \/ (ChMin(a) = ChMin(b) /\ ChMax(a) < ChMax(b))   \* chunkIteratorHeap.Less
MinIts(h) == {x \in h : \A y \in h : ~Less(y.rest[1], x.rest[1])}
\* iter := heap.Pop(&c.h); if iter.Next() { heap.Push(&c.h, iter) }
Advance(h, x) == (h \ {x}) \cup (IF Len(x.rest) > 1 THEN {[id |-> x.id, rest |-> Tail(x.rest)]} ELSE {})

\* "Detect overlaps to compact. Be smart about it and deduplicate on the fly if chunks are identical."
RECURSIVE Absorb(_, _, _, _)
Absorb(h, oMax, prev, ov) ==
  IF h = {} THEN {[h |-> h, ov |-> ov]}
  ELSE UNION { LET nx == x.rest[1] IN
               IF ChMin(nx) > oMax THEN {[h |-> h, ov |-> ov]}                 \* "No overlap with current one."
               ELSE IF ~Same(nx, prev)
                    THEN Absorb(Advance(h, x), IF ChMax(nx) > oMax THEN ChMax(nx) ELSE oMax, nx, Append(ov, nx))
                    ELSE Absorb(Advance(h, x), oMax, prev, ov)
             : x \in MinIts(h) }

\* c.mergeFunc(overlapping..., curr): the vertical series merge; at an equal timestamp the
\* sample of any one chunk wins - only its type and counter level matter for the re-encoding below
AtT(cs, t) == UNION {{s \in SamplesOf(cs[j]) : s.t = t} : j \in 1..Len(cs)}
RECURSIVE MergedSeqs(_, _)
MergedSeqs(cs, t) ==
  IF t > MaxT THEN {<<>>}
  ELSE LET S == AtT(cs, t)
           R == MergedSeqs(cs, t + 1)
       IN IF S = {} THEN R
          ELSE {<<[t |-> t, ty |-> tl[1], lv |-> tl[2], srcs |-> UNION {s.srcs : s \in {x \in S : x.ty = tl[1] /\ x.lv = tl[2]}}]>> \o r
                  : tl \in {<<s.ty, s.lv>> : s \in S}, r \in R}

\* NewSeriesToChunkEncoder: a new chunk whenever the sample type changes, and whenever the histogram
\* appender hands back a fresh chunk without recoding: a counter reset (the merged stream steps down a level)
Cuts(a, b) == a.ty # b.ty \/ (a.ty # "f" /\ b.lv < a.lv)
RECURSIVE Encode(_)
Encode(m) == IF m = <<>> THEN <<>>
             ELSE LET n == CHOOSE k \in 1..Len(m) : /\ \A j \in 1..(k - 1) : ~Cuts(m[j], m[j + 1])
                                                    /\ (k = Len(m) \/ Cuts(m[k], m[k + 1]))
                  IN <<SubSeq(m, 1, n)>> \o Encode(SubSeq(m, n + 1, Len(m)))

-----------------------------------------------------------------------------
Init == /\ ins = [i \in Ids |-> <<>>]
        /\ lv \in [Ids -> Lvls]
        /\ slot = 0 /\ started = FALSE /\ heap = {} /\ nid = K + 1 /\ out = <<>> /\ done = FALSE
        /\ ref = [merged |-> <<>>, al |-> <<>>, groups |-> <<>>]

\* canonical construction: slot = (input, time): absent, appended to the open chunk of the same
\* type, or first sample of a new chunk
Build ==
  /\ ~Built
  /\ LET i == (slot \div N) + 1
         t == slot % N
         s(ty) == [t |-> t, ty |-> ty, lv |-> lv[i], srcs |-> {i}]
     IN \/ UNCHANGED ins
        \/ \E ty \in Types :
             \/ ins' = [ins EXCEPT ![i] = Append(@, <<s(ty)>>)]                      \* cut
             \/ /\ ins[i] # <<>> /\ Last(Last(ins[i])).ty = ty                      \* continue
                /\ ins' = [ins EXCEPT ![i][Len(ins[i])] = Append(@, s(ty))]
  /\ slot' = slot + 1
  /\ ref' = IF slot' = K * N THEN RefOf(ins') ELSE ref
  /\ UNCHANGED <<lv, started, heap, nid, out, done>>

\* compactChunkIterator.Next
CNext ==
  /\ Built /\ ~done
  /\ started' = TRUE
  /\ LET h0 == IF ~started                                              \* if c.h == nil { push every non-empty iterator }
               THEN {[id |-> i, rest |-> ins[i]] : i \in {j \in Ids : ins[j] # <<>>}}
               ELSE heap
     IN IF h0 = {}
        THEN /\ done' = TRUE /\ heap' = h0 /\ UNCHANGED <<out, nid>>
        ELSE \E x \in MinIts(h0) :
               LET cur == x.rest[1]
                   h1  == Advance(h0, x)
               IN \E r \in Absorb(h1, ChMax(cur), cur, <<>>) :
                    /\ UNCHANGED done
                    /\ IF r.ov = <<>>
                       THEN /\ out' = Append(out, cur) /\ heap' = r.h /\ UNCHANGED nid
                       ELSE \E m \in MergedSeqs(Append(r.ov, cur), 0) :
                              LET enc == Encode(m) IN
                              /\ out' = Append(out, enc[1])
                              /\ heap' = r.h \cup (IF Len(enc) > 1 THEN {[id |-> nid, rest |-> Tail(enc)]} ELSE {})
                              /\ nid' = nid + 1
  /\ UNCHANGED <<ins, lv, slot, ref>>

Next == Build \/ CNext
Spec == Init /\ [][Next]_vars

-----------------------------------------------------------------------------
(* Properties                                                               *)

RECURSIVE Flatten(_)
Flatten(cs) == IF cs = <<>> THEN <<>> ELSE cs[1] \o Flatten(Tail(cs))
OutTs == LET f == Flatten(out) IN [k \in 1..Len(f) |-> f[k].t]

\* time-ordered and non-overlapping, no timestamp twice
OutSorted == \A k \in 1..(Len(OutTs) - 1) : OutTs[k] < OutTs[k + 1]
\* nothing skipped: what was emitted is a prefix of the merged timestamps ...
OutPrefix == Built => (Len(OutTs) <= Len(Merged) /\ OutTs = SubSeq(Merged, 1, Len(OutTs)))
\* ... and everything when the iterator is exhausted
Complete == done => OutTs = Merged
\* every emitted sample is a sample of some input at that timestamp
FromInput == \A c \in {out[j] : j \in 1..Len(out)} : \A s \in SamplesOf(c) :
               s.srcs # {} /\ \A i \in s.srcs : [i |-> i, ty |-> s.ty] \in ref.al[s.t]
SingleType == \A j \in 1..Len(out) : \A k \in 1..Len(out[j]) : out[j][k].ty = out[j][1].ty
\* implementation-shaped but documented: chunks are only merged within a group, and a group of
\* perfect duplicates is passed through as one chunk
WithinGroup == Built => \A j \in 1..Len(out) : \E sp \in Spans : ChMin(out[j]) >= sp[1] /\ ChMax(out[j]) <= sp[2]
Collapsed == done => \A sp \in UniformSpans :
                Cardinality({j \in 1..Len(out) : ChMin(out[j]) >= sp[1] /\ ChMax(out[j]) <= sp[2]}) = 1

TypeOK == /\ \A i \in Ids : \A j \in 1..Len(ins[i]) :
                /\ ins[i][j] # <<>>
                /\ \A k \in 1..(Len(ins[i][j]) - 1) : ins[i][j][k].t < ins[i][j][k + 1].t /\ ins[i][j][k].ty = ins[i][j][k + 1].ty
                /\ j > 1 => ChMax(ins[i][j - 1]) < ChMin(ins[i][j])
          /\ \A x \in heap : x.rest # <<>>

-----------------------------------------------------------------------------
Emit == \/ EmitMode # "cfg"
        \/ ~(slot' = K * N /\ slot # slot')
        \/ PrintT("@@TR " \o ToJson([ins |-> [i \in Ids |-> [j \in 1..Len(ins'[i]) |->
                                                  [k \in 1..Len(ins'[i][j]) |-> [t |-> ins'[i][j][k].t, ty |-> ins'[i][j][k].ty]]]],
                                     lv |-> lv', groups |-> ref'.groups]))
\* simulation: print every completed input configuration the walk touches
EmitBuilt == ~(Built /\ ~started) \/
             PrintT("@@TR " \o ToJson([ins |-> [i \in Ids |-> [j \in 1..Len(ins[i]) |->
                                                  [k \in 1..Len(ins[i][j]) |-> [t |-> ins[i][j][k].t, ty |-> ins[i][j][k].ty]]]],
                                       lv |-> lv, groups |-> ref.groups]))
=============================================================================
