SPECIFICATION Spec
CONSTANTS
  Ks = {0, 1, 2, 3, 4}
  NLabels = 3
  Limits = {0, 2}
  EmitMode = "done"
INVARIANTS SortedOnce NoLoss SetsMatchRef HeapOK
ACTION_CONSTRAINT Emit
CHECK_DEADLOCK FALSE
