SPECIFICATION Spec
CONSTANTS
  K = 3
  MaxT = 1
  Types = {"f", "h"}
  Lows = {TRUE, FALSE}
  Stales = {0}
  MaxOps = 5
  EmitMode = "all"
VIEW View
INVARIANTS TypeOK Conforms HeapAhead
PROPERTIES Monotone
ACTION_CONSTRAINT Emit
CHECK_DEADLOCK FALSE
