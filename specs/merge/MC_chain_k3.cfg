SPECIFICATION Spec
CONSTANTS
  K = 3
  MaxT = 1
  Types = {"f", "h"}
  Lows = {TRUE, FALSE}
  MaxOps = 5
  EmitMode = "all"
VIEW View
INVARIANTS TypeOK Conforms HeapAhead
PROPERTIES Monotone
ACTION_CONSTRAINT Emit
CHECK_DEADLOCK FALSE
