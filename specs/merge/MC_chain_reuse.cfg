SPECIFICATION Spec
CONSTANTS
  K = 2
  MaxT = 1
  Types = {"f", "h"}
  Lows = {TRUE, FALSE}
  Stales = {1, 2}
  MaxOps = 4
  EmitMode = "all"
VIEW View
INVARIANTS TypeOK Conforms HeapAhead
PROPERTIES Monotone
ACTION_CONSTRAINT Emit
CHECK_DEADLOCK FALSE
