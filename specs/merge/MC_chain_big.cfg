SPECIFICATION Spec
CONSTANTS
  K = 3
  MaxT = 2
  Types = {"f", "h"}
  Lows = {TRUE, FALSE}
  Stales = {0}
  MaxOps = 6
  EmitMode = "none"
VIEW View
INVARIANTS TypeOK Conforms HeapAhead
PROPERTIES Monotone
CHECK_DEADLOCK FALSE
