-------------------------------- MODULE Merge --------------------------------
(***************************************************************************)
(* C19, series-set level: storage.NewMergeSeriesSet /                      *)
(* NewMergeChunkSeriesSet = genericMergeSeriesSet (storage/merge.go) over  *)
(* k label-sorted series sets.  Label sets are the numbers 1..NLabels      *)
(* (their order is labels.Compare order after concretisation); a series    *)
(* set is the sorted list of the label sets it contains.                   *)
(*                                                                         *)
(* REFERENCE: the merged set returns every distinct label set once, in     *)
(* sorted order, and the series returned for label set l is the vertical   *)
(* merge of the series of exactly the inputs that contain l (`From(l)`).   *)
(* With a series limit n > 0 at most the first n are returned.             *)
(*                                                                         *)
(* TRANSCRIPTION, one action per code step:                                *)
(*   Open    newGenericMergeSeriesSet: pre-advance every set, push the     *)
(*           non-empty ones on the heap (k = 1: the set itself is returned *)
(*           - named deviation Dev_SingleSetIgnoresLimit)                  *)
(*   SNext   genericMergeSeriesSet.Next: advance currentSets, re-push,     *)
(*           pop everything equal to the smallest label set                *)
(*   the At() of a step is [l, from] : label set and contributing inputs   *)
(*   (len(currentSets) = 1 passes the series through, otherwise mergeFunc; *)
(*   how the samples/chunks of the contributing series are merged is       *)
(*   Chain.tla / Compact.tla)                                              *)
(***************************************************************************)
EXTENDS Integers, Sequences, FiniteSets, TLC, Json

CONSTANTS Ks,        \* numbers of input sets explored, e.g. 0..4
          NLabels,   \* label sets 1..NLabels
          Limits,    \* series limits explored (0 = none)
          EmitMode   \* "done" | "none"

VARIABLES k, sets,   \* sets \in [1..k -> SUBSET Labels]
          limit,
          opened, bypass,
          cur,       \* [1..k -> Nat] cursor of every input set: 0 = before first, n+1 = exhausted
          heap,      \* c.heap: set of input ids
          current,   \* c.currentSets
          merged,    \* c.mergedSeries
          out,       \* sequence of [l, from] returned so far
          done       \* Next returned false

vars == <<k, sets, limit, opened, bypass, cur, heap, current, merged, out, done>>

Labels == 1..NLabels
Min(S) == CHOOSE x \in S : \A y \in S : x <= y

\* the i-th input as a sorted sequence
SeqOf(S) == SelectSeq([j \in 1..NLabels |-> j], LAMBDA l : l \in S)
LenS(i)  == Cardinality(sets[i])
Valid(i, c) == c >= 1 /\ c <= LenS(i)
At(i, c) == SeqOf(sets[i])[c]

-----------------------------------------------------------------------------
(* REFERENCE                                                                *)
AllLabels == UNION {sets[i] : i \in 1..k}
From(l)   == {i \in 1..k : l \in sets[i]}
Full      == LET s == SeqOf(AllLabels) IN [j \in 1..Len(s) |-> [l |-> s[j], from |-> From(s[j])]]
RefOut    == IF limit > 0 /\ Len(Full) > limit THEN SubSeq(Full, 1, limit) ELSE Full

-----------------------------------------------------------------------------
Init == /\ k \in Ks
        /\ sets \in [1..k -> SUBSET Labels]
        /\ limit \in Limits
        /\ opened = FALSE /\ bypass = FALSE
        /\ cur = [i \in 1..k |-> 0]
        /\ heap = {} /\ current = {} /\ merged = 0 /\ out = <<>> /\ done = FALSE

\* newGenericMergeSeriesSet
Open ==
  /\ ~opened /\ opened' = TRUE
  /\ IF k = 1
     THEN /\ bypass' = TRUE /\ UNCHANGED <<cur, heap>>                  \* if len(sets) == 1 { return sets[0] }
     ELSE /\ bypass' = FALSE
          /\ cur' = [i \in 1..k |-> 1]                                   \* if set.Next() { heap.Push(&h, set) }
          /\ heap' = {i \in 1..k : LenS(i) >= 1}
  /\ UNCHANGED <<k, sets, limit, current, merged, out, done>>

\* genericMergeSeriesSet.Next
SNext ==
  /\ opened /\ ~bypass /\ ~done
  /\ IF limit > 0 /\ merged >= limit                                     \* "Exit early if seriesLimit is set."
     THEN /\ done' = TRUE /\ UNCHANGED <<cur, heap, current, merged, out>>
     ELSE LET cur2 == [i \in 1..k |-> IF i \in current THEN cur[i] + 1 ELSE cur[i]]     \* advance all the current series sets
              h2   == heap \cup {i \in current : Valid(i, cur2[i])}
          IN /\ cur' = cur2
             /\ IF h2 = {}
                THEN /\ done' = TRUE /\ heap' = h2 /\ UNCHANGED <<current, merged, out>>
                ELSE LET l  == Min({At(i, cur2[i]) : i \in h2})            \* c.heap[0].At().Labels()
                         cs == {i \in h2 : At(i, cur2[i]) = l}             \* pop items with equal label sets
                     IN /\ current' = cs /\ heap' = h2 \ cs
                        /\ merged' = merged + 1
                        /\ out' = Append(out, [l |-> l, from |-> cs])
                        /\ UNCHANGED done
  /\ UNCHANGED <<k, sets, limit, opened, bypass>>

\* k = 1: the caller iterates the input set itself (no limit, no merge function)
SNextBypass ==
  /\ opened /\ bypass /\ ~done
  /\ cur' = [cur EXCEPT ![1] = @ + 1]
  /\ IF Valid(1, cur'[1])
     THEN out' = Append(out, [l |-> At(1, cur'[1]), from |-> {1}]) /\ UNCHANGED done
     ELSE done' = TRUE /\ UNCHANGED out
  /\ UNCHANGED <<k, sets, limit, opened, bypass, heap, current, merged>>

Next == Open \/ SNext \/ SNextBypass
Spec == Init /\ [][Next]_vars

-----------------------------------------------------------------------------
(* Properties                                                               *)

IsPrefix(a, b) == Len(a) <= Len(b) /\ a = SubSeq(b, 1, Len(a))

\* strictly increasing label sets: sorted, each distinct label set once
SortedOnce == \A j \in 1..(Len(out) - 1) : out[j].l < out[j + 1].l
\* every returned series merges exactly the inputs that contain its label set; nothing is skipped
NoLoss     == IsPrefix(out, Full)
\* named deviation: a single input set is returned as it is, the series limit is not applied
Dev_SingleSetIgnoresLimit == k = 1 /\ limit > 0
SetsMatchRef == done => (out = RefOut \/ (Dev_SingleSetIgnoresLimit /\ out = Full))
HeapOK == /\ heap \cap current = {}
          /\ \A i \in heap : Valid(i, cur[i])
          /\ ~done => \A i \in current : Valid(i, cur[i])

-----------------------------------------------------------------------------
Emit == \/ EmitMode # "done"
        \/ ~(done' /\ ~done)
        \/ PrintT("@@TR " \o ToJson([k |-> k, sets |-> [i \in 1..k |-> SeqOf(sets[i])], limit |-> limit, out |-> out']))
=============================================================================
