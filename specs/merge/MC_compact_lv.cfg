SPECIFICATION Spec
CONSTANTS
  K = 2
  MaxT = 2
  Types = {"h", "fh"}
  Lvls = {1, 2}
  EmitMode = "cfg"
INVARIANTS TypeOK OutSorted OutPrefix Complete FromInput SingleType WithinGroup Collapsed
ACTION_CONSTRAINT Emit
CHECK_DEADLOCK FALSE
