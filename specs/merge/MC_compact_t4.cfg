SPECIFICATION Spec
CONSTANTS
  K = 2
  MaxT = 3
  Types = {"f"}
  Lvls = {1}
  EmitMode = "cfg"
INVARIANTS TypeOK OutSorted OutPrefix Complete FromInput SingleType WithinGroup Collapsed
ACTION_CONSTRAINT Emit
CHECK_DEADLOCK FALSE
