SPECIFICATION Spec
CONSTANTS
  Ks = {5, 6}
  NLabels = 3
  Limits = {0}
  EmitMode = "done"
INVARIANTS SortedOnce NoLoss SetsMatchRef HeapOK
ACTION_CONSTRAINT Emit
CHECK_DEADLOCK FALSE
