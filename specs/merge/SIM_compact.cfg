SPECIFICATION Spec
CONSTANTS
  K = 4
  MaxT = 5
  Types = {"f", "h", "fh"}
  EmitMode = "none"
INVARIANTS TypeOK OutSorted OutPrefix Complete FromInput SingleType WithinGroup Collapsed EmitBuilt
CHECK_DEADLOCK FALSE
