SPECIFICATION Spec
CONSTANTS
  K = 3
  MaxT = 5
  Types = {"f", "h", "fh"}
  Lvls = {1, 2}
  EmitMode = "none"
INVARIANTS TypeOK OutSorted OutPrefix Complete FromInput SingleType WithinGroup Collapsed EmitBuilt
CHECK_DEADLOCK FALSE
