-------------------------------- MODULE Chain --------------------------------
(***************************************************************************)
(* C19, sample level: storage.ChainedSeriesMerge / chainSampleIterator     *)
(* (storage/merge.go) over K input series with the same label set.         *)
(*                                                                         *)
(* Two layers, checked against each other by TLC:                          *)
(*                                                                         *)
(*  REFERENCE (what the property demands).  The merged series is the       *)
(*  sorted union `Merged` of the inputs' timestamps, one sample per        *)
(*  timestamp, taken from *some* input that has a sample there             *)
(*  (`Allowed(t)`).  An iterator over it is a position `pos`; Next and     *)
(*  Seek move it as on that sequence (RefNext / RefSeek).                  *)
(*                                                                         *)
(*  TRANSCRIPTION (what the code does).  One underlying iterator cursor    *)
(*  per input (`idx`), the heap `c.h` (a set; ties between equal           *)
(*  timestamps are popped nondeterministically, which covers every         *)
(*  container/heap layout), `c.curr`, `c.lastT`, and whether `c.h` is      *)
(*  still nil (`inited`).  Actions = public calls:                         *)
(*     CNext      chainSampleIterator.Next  (the `for` loop is Loop/Pop)   *)
(*     CSeek(t)   chainSampleIterator.Seek                                 *)
(*  preceded by a canonical Build phase that lets TLC choose the inputs.   *)
(*                                                                         *)
(* `low` says whether model time 0 is concretised as math.MinInt64, and    *)
(* `stale` whether the iterator object is re-used from an earlier use that *)
(* left c.curr on input `stale`: both only select concretisations.  Until  *)
(* commits 66c6d27753 / e70e80fdf9 the code used math.MinInt64 as a        *)
(* "nothing returned yet" sentinel for lastT and did not reset c.curr on   *)
(* re-use (former known findings KF-C19-1 / KF-C19-2: a first sample at    *)
(* MinInt64 skipped; first Seek(MinInt64) on a re-used object answered     *)
(* from the stale iterator).  The transcription now follows the repaired   *)
(* code: lastT = -1 stands for hasLastT = FALSE (it equals no model time), *)
(* c.curr starts as nil in every case, and the invariant is the plain      *)
(* ChainMatchesRef.                                                        *)
(*                                                                         *)
(* The behaviours handed to the Go harness carry the REFERENCE prediction  *)
(* for every call (value type none/some, timestamp, allowed (input,type)   *)
(* pairs), never the transcription's choice.                               *)
(*                                                                         *)
(* Not modelled: iterator errors (C54), c.consecutive / counter-reset      *)
(* hints of histograms, start timestamps (AtST).                           *)
(***************************************************************************)
EXTENDS Integers, Sequences, FiniteSets, TLC, Json

CONSTANTS K,        \* number of input series, >= 1
          MaxT,     \* model times 0..MaxT ; Seek targets 0..MaxT+1
          Types,    \* sample types explored, subset of {"f","h","fh"}
          Lows,     \* subset of BOOLEAN
          Stales,   \* subset of 0..K: 0 = fresh iterator object; j = re-used object whose c.curr still
                    \* points at (what is now) the iterator of input j
          MaxOps,   \* number of Next/Seek calls per behaviour
          EmitMode  \* "all" | "none"

VARIABLES ins,      \* [1..K -> Seq([t, ty])], strictly increasing t
          low,      \* model time 0 = math.MinInt64 ?
          stale,    \* 0 = fresh object; j = object re-used after a use that left c.curr on input j (reset by getChainSampleIterator)
          slot,     \* Build cursor; K*(MaxT+1) when the inputs are complete
          idx,      \* [1..K -> Nat] cursor of the underlying iterators (0 = not started, Len+1 = exhausted)
          inited,   \* c.h # nil
          heap,     \* c.h, a set of input ids
          curr,     \* c.curr, 0 = nil
          lastT,    \* c.lastT
          pos,      \* REFERENCE position in Merged: 0 = before first, Len+1 = exhausted
          ret,      \* what the transcription returned last: [vt, t, src]
          nops, hist

vars == <<ins, low, stale, slot, idx, inited, heap, curr, lastT, pos, ret, nops, hist>>
View == <<ins, low, stale, slot, idx, inited, heap, curr, lastT, pos, ret>>

N     == MaxT + 1
Ids   == 1..K
Built == slot = K * N

Min(S) == CHOOSE x \in S : \A y \in S : x <= y

LenI(i)     == Len(ins[i])
TAt(i, k)   == ins[i][k].t
TyAt(i, k)  == ins[i][k].ty
Valid(i, k) == k >= 1 /\ k <= LenI(i)
HasT(i, t)  == \E k \in 1..LenI(i) : TAt(i, k) = t
TyOf(i, t)  == TyAt(i, CHOOSE k \in 1..LenI(i) : TAt(i, k) = t)

-----------------------------------------------------------------------------
(* REFERENCE                                                                *)

AllTs  == {t \in 0..MaxT : \E i \in Ids : HasT(i, t)}
Merged == SelectSeq([j \in 1..N |-> j - 1], LAMBDA t : t \in AllTs)
\* a merged sample at t may be the sample of any input that has one at t
Allowed(t) == {[i |-> i, ty |-> TyOf(i, t)] : i \in {j \in Ids : HasT(j, t)}}

AtSample(p) == p >= 1 /\ p <= Len(Merged)
RefNext(p)  == IF p <= Len(Merged) THEN p + 1 ELSE p
\* chunkenc.Iterator.Seek contract: no-op if the current sample already has T >= t,
\* otherwise forward to the first sample with T >= t; an exhausted iterator stays exhausted
RefSeek(p, t) ==
  IF AtSample(p) /\ Merged[p] >= t THEN p
  ELSE LET p0 == IF p = 0 THEN 1 ELSE p
           C  == {j \in p0..Len(Merged) : Merged[j] >= t}
       IN IF C = {} THEN Len(Merged) + 1 ELSE Min(C)

\* the observation the property predicts at position p
Pred(p) == IF AtSample(p) THEN [vt |-> "some", t |-> Merged[p], al |-> Allowed(Merged[p])]
           ELSE [vt |-> "none", t |-> -1, al |-> {}]

-----------------------------------------------------------------------------
(* TRANSCRIPTION of the underlying iterators (listSeriesIterator, the chunk *)
(* iterators): Next steps, Seek is forward-only and a no-op when satisfied.  *)

UNext(i, k) == IF k <= LenI(i) THEN k + 1 ELSE k
USeek(i, k, t) == LET k0 == IF k = 0 THEN 1 ELSE k
                      C  == {j \in k0..LenI(i) : TAt(i, j) >= t}
                  IN IF C = {} THEN LenI(i) + 1 ELSE Min(C)

\* samplesIteratorHeap: the candidates heap.Pop may return (minimal AtT)
MinSet(ix, h) == {i \in h : \A j \in h : TAt(i, ix[i]) <= TAt(j, ix[j])}
TopT(ix, h)   == Min({TAt(i, ix[i]) : i \in h})

(* The `for` loop of chainSampleIterator.Next. st = [idx, heap, curr];      *)
(* lt = c.lastT (constant during the loop). Result: the set of possible     *)
(* final records [idx, heap, curr, vt, t].                                  *)
RECURSIVE Loop(_, _), Pop(_, _)
Loop(st, lt) ==
  LET c    == st.curr
      k2   == UNext(c, st.idx[c])                       \* currValueType = c.curr.Next()
      st2  == [st EXCEPT !.idx[c] = k2]
  IN IF ~Valid(c, k2)                                   \* ValNone
     THEN IF st.heap = {}
          THEN {[idx |-> st2.idx, heap |-> {}, curr |-> 0, vt |-> "none", t |-> -1]}   \* c.curr = nil
          ELSE Pop(st2, lt)
     ELSE LET currT == TAt(c, k2) IN
          IF currT = lt THEN Loop(st2, lt)              \* "Ignoring sample for the same timestamp."
          ELSE IF st.heap = {} \/ currT < TopT(st2.idx, st.heap)
               THEN {[idx |-> st2.idx, heap |-> st.heap, curr |-> c, vt |-> "some", t |-> currT]}
               ELSE Pop([st2 EXCEPT !.heap = st.heap \cup {c}], lt)    \* heap.Push(&c.h, c.curr)
\* c.curr = heap.Pop(&c.h); currT = c.curr.AtT(); c.curr.Seek(currT) (no-op on the cursor)
Pop(st, lt) ==
  UNION { LET currT == TAt(i, st.idx[i])
              st2   == [st EXCEPT !.heap = st.heap \ {i}, !.curr = i]
          IN IF currT # lt
             THEN {[idx |-> st2.idx, heap |-> st2.heap, curr |-> i, vt |-> "some", t |-> currT]}
             ELSE Loop(st2, lt)
        : i \in MinSet(st.idx, st.heap) }

MinInit == -1                             \* csi.hasLastT = false: lastT compares equal to no timestamp

-----------------------------------------------------------------------------
Init == /\ ins = [i \in Ids |-> <<>>]
        /\ low \in Lows
        /\ slot = 0
        /\ idx = [i \in Ids |-> 0]
        /\ inited = FALSE
        /\ heap = {}
        /\ stale \in Stales
        /\ curr = 0                                \* csi.curr = nil, also on a re-used object
        /\ lastT = MinInit
        /\ pos = 0
        /\ ret = [vt |-> "init", t |-> -1, src |-> 0]
        /\ nops = 0
        /\ hist = <<>>

\* canonical construction of the inputs: slot = (input, time), absent or a sample of some type
Build ==
  /\ ~Built
  /\ LET i == (slot \div N) + 1
         t == slot % N
     IN \/ UNCHANGED ins
        \/ \E ty \in Types : ins' = [ins EXCEPT ![i] = Append(@, [t |-> t, ty |-> ty])]
  /\ slot' = slot + 1
  /\ UNCHANGED <<low, stale, idx, inited, heap, curr, lastT, pos, ret, nops, hist>>

Record(a, at, p) == Append(hist, [a |-> a, at |-> at] @@ Pred(p))

\* chainSampleIterator.Next
CNext ==
  /\ Built /\ nops < MaxOps
  /\ LET st0 == IF ~inited                             \* if c.h == nil { ... }
                THEN LET ix == [i \in Ids |-> IF i = 1 THEN idx[i] ELSE UNext(i, idx[i])]
                     IN [idx |-> ix, heap |-> {i \in Ids \ {1} : Valid(i, ix[i])}, curr |-> 1]
                ELSE [idx |-> idx, heap |-> heap, curr |-> curr]
     IN IF st0.curr = 0                                  \* if c.curr == nil { return ValNone }
        THEN /\ ret' = [vt |-> "none", t |-> -1, src |-> 0]
             /\ UNCHANGED <<idx, heap, curr, lastT>>
        ELSE \E o \in Loop(st0, lastT) :
               /\ idx' = o.idx /\ heap' = o.heap /\ curr' = o.curr
               /\ lastT' = IF o.vt = "some" THEN o.t ELSE lastT
               /\ ret' = [vt |-> o.vt, t |-> o.t, src |-> o.curr]
  /\ inited' = TRUE
  /\ pos' = RefNext(pos)
  /\ nops' = nops + 1
  /\ hist' = Record("N", -1, pos')
  /\ UNCHANGED <<ins, low, stale, slot>>

\* chainSampleIterator.Seek(t)
CSeek(t) ==
  /\ Built /\ nops < MaxOps
  /\ pos <= Len(Merged)      \* Seek on an exhausted iterator is outside the chunkenc.Iterator contract (see notes/C19.md)
  /\ IF curr # 0 /\ lastT >= t                           \* "No-op check."
     THEN LET k2 == USeek(curr, idx[curr], lastT) IN      \* return c.curr.Seek(c.lastT) (c.h is not touched)
          /\ idx' = [idx EXCEPT ![curr] = k2]
          /\ ret' = IF Valid(curr, k2) THEN [vt |-> "some", t |-> TAt(curr, k2), src |-> curr]
                                       ELSE [vt |-> "none", t |-> -1, src |-> 0]
          /\ UNCHANGED <<heap, curr, lastT, inited>>
     ELSE LET ix == [i \in Ids |-> USeek(i, idx[i], t)]            \* iter.Seek(t) for every iterator
              h  == {i \in Ids : Valid(i, ix[i])}
          IN /\ idx' = ix
             /\ inited' = TRUE                                     \* c.h = samplesIteratorHeap{}
             /\ IF h = {}
                THEN /\ curr' = 0 /\ heap' = {} /\ UNCHANGED lastT
                     /\ ret' = [vt |-> "none", t |-> -1, src |-> 0]
                ELSE \E i \in MinSet(ix, h) :                      \* c.curr = heap.Pop(&c.h)
                       /\ curr' = i /\ heap' = h \ {i}
                       /\ lastT' = TAt(i, ix[i])
                       /\ ret' = [vt |-> "some", t |-> TAt(i, ix[i]), src |-> i]
  /\ pos' = RefSeek(pos, t)
  /\ nops' = nops + 1
  /\ hist' = Record("S", t, pos')
  /\ UNCHANGED <<ins, low, stale, slot>>

\* bookkeeping step so that a simulated walk is printed exactly once
End == Built /\ nops = MaxOps /\ nops' = MaxOps + 1
       /\ UNCHANGED <<ins, low, stale, slot, idx, inited, heap, curr, lastT, pos, ret, hist>>

Next == Build \/ CNext \/ (\E t \in 0..(MaxT + 1) : CSeek(t)) \/ End

Spec == Init /\ [][Next]_vars

-----------------------------------------------------------------------------
(* Properties                                                               *)

TypeOK == /\ slot \in 0..(K * N)
          /\ \A i \in Ids : /\ idx[i] \in 0..(LenI(i) + 1)
                            /\ \A k \in 1..(LenI(i) - 1) : TAt(i, k) < TAt(i, k + 1)
          /\ heap \subseteq Ids /\ curr \in 0..K /\ curr \notin heap
          /\ \A i \in heap : Valid(i, idx[i])
          /\ pos \in 0..(Len(Merged) + 1)

\* The property: every call returns what the merged sequence prescribes.
ChainMatchesRef ==
  (Built /\ ret.vt # "init") =>
     IF AtSample(pos)
     THEN /\ ret.vt = "some" /\ ret.t = Merged[pos]
          /\ ret.src \in Ids /\ HasT(ret.src, ret.t)
          /\ Valid(ret.src, idx[ret.src]) /\ TAt(ret.src, idx[ret.src]) = ret.t     \* At() reads that sample
     ELSE ret.vt = "none"

Conforms == ChainMatchesRef

\* nothing still waiting in the heap is older than what was returned last
HeapAhead == \A i \in heap : curr # 0 => TAt(i, idx[i]) >= lastT

\* the returned timestamps of successive *moving* calls never decrease
Monotone == [][ (ret'.vt = "some" /\ ret.vt = "some") => ret'.t >= ret.t ]_vars

-----------------------------------------------------------------------------
(* Emission                                                                 *)

Case == [ins |-> ins, low |-> low, stale |-> stale, ops |-> hist]
Emit == \/ EmitMode # "all"
        \/ hist' = hist
        \/ PrintT("@@TR " \o ToJson([ins |-> ins', low |-> low', stale |-> stale', ops |-> hist']))
EmitWalk == nops <= MaxOps \/ PrintT("@@TR " \o ToJson(Case))
=============================================================================
