SPECIFICATION Spec
CONSTANTS
  K = 4
  MaxT = 5
  Types = {"f", "h", "fh"}
  Lows = {TRUE, FALSE}
  Stales = {0, 1, 2, 3, 4}
  EmitMode = "none"
INVARIANTS TypeOK Conforms HeapAhead EmitWalk
CHECK_DEADLOCK FALSE
