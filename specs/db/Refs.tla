-------------------------------- MODULE Refs --------------------------------
(***************************************************************************)
(* C22 -- samples are never attributed to the wrong series.                 *)
(*                                                                         *)
(* Db.tla identifies a series with its label set and abstracts series      *)
(* references away.  This module is the reference-level view of the same   *)
(* TSDB: every place that stores a series reference is explicit --         *)
(*   the allocator Head.lastSeriesID, the by-ref and by-hash series maps,  *)
(*   series / sample / tombstone records in WAL segments and in the        *)
(*   checkpoint, the WBL, chunks in the head-chunk files (chunks_head),     *)
(*   the chunk snapshot, series_state.json, Head.walExpiries, and the      *)
(*   references a caller keeps from earlier Append calls --                *)
(* and every sample carries as ghost the label sets it may legitimately be  *)
(* returned under.  Actions are the public calls of tsdb.DB as a single-    *)
(* threaded client sees them:                                               *)
(*                                                                         *)
(*   Scrape(S,kind)  one appender: Append(ref,lset,clk,v) for the label    *)
(*                   sets of S, Commit.  kind "zero": ref 0, "own": the    *)
(*                   newest ref the caller holds for the label set,        *)
(*                   "stale": own refs, staleness markers as values        *)
(*                   (headAppender.Append / getOrCreate / log / commit)    *)
(*   Rollback(S)     one appender: Append for S, Rollback (created series  *)
(*                   stay, only their series record is logged)             *)
(*   Cross(l,r)      Append(r, l, ...) with a ref the caller got for       *)
(*                   another label set or that is outdated                 *)
(*   OOO(l,t)        an out-of-order sample (memSeries.insert, WBL)        *)
(*   Mmap            DB.ForceHeadMMap (Head.mmapHeadChunks)                *)
(*   CompactHead(T)  DB.CompactHead(RangeHead(minTime,T-1)): block write,  *)
(*                   Head.truncateMemory -> gc, ChunkDiskMapper.Truncate,  *)
(*                   Head.truncateWAL -> wlog.Checkpoint                   *)
(*   CompactOOO      DB.CompactOOOHead: m-map ooo head chunks, block,      *)
(*                   truncateOOO -> gc, WBL truncation                     *)
(*   EvictSel(S)     DB.CompactSelectedSeries(refs of S)                   *)
(*   EvictStale      DB.CompactStaleHead                                   *)
(*   Cut             wlog.WL.NextSegment (the segment filled up)           *)
(*   Tick            Head.writeSeriesState(false) (the 1 s ticker)         *)
(*   Restart(fast)   DB.Close ; tsdb.Open (EnableFastStartup = fast)       *)
(*   Crash(fast)     process killed ; tsdb.Open                            *)
(*                                                                         *)
(* Open is a transcription of DB.open / Head.Init: chunk snapshot, m-map   *)
(* chunk files, series_state.json (fast startup), checkpoint, segments,    *)
(* WBL, final gc.                                                          *)
(*                                                                         *)
(* Time: the scrape clock clk only moves forward; in-order samples are      *)
(* appended at clk, so admission always succeeds; the out-of-order window   *)
(* is unbounded.  Chunk range R: a head chunk is cut at multiples of R      *)
(* (default samples-per-chunk, few samples) and after a snapshot restore.   *)
(***************************************************************************)
EXTENDS Integers, Sequences, FiniteSets, TLC, Json

CONSTANTS LabOrder,  \* label sets in the order a scrape appends them, e.g. <<"a","b","c">>
          R,         \* head chunk range
          Gaps,      \* by how much a scrape may advance the clock afterwards
          Kinds,     \* scrape kinds in use, subset of {"zero", "own", "stale"}
          ScrapeSets, \* the sets of label sets a scrape / a selected-series compaction may name ({} = all non-empty subsets)
          MaxClk,    \* bound of the clock
          OOOBack,   \* how far back (before clk) an out-of-order sample may be
          Snap,      \* EnableMemorySnapshotOnShutdown
          FastOpts,  \* values of EnableFastStartup a (re)start may choose
          Fast0,     \* EnableFastStartup of the first process
          AllowKF,   \* known findings whose trigger may be generated:
                     \*  "KF-C22-1" a restart re-issues a retired ref that head-chunk files or WAL records in front of the
                     \*             snapshot position still carry
                     \*  "KF-C22-2" a fast-startup restart lowers lastSeriesID below live refs (stale series_state.json
                     \*             trusted after the chunk snapshot was loaded)
          Acts, Script, MaxOps, EmitMode

VARIABLES
  \* ---- process memory (lost by Restart / Crash)
  lastID,    \* Head.lastSeriesID
  ser,       \* [Labs -> Obj]: stripeSeries.hashes (one memSeries per label set)
  byRef,     \* partial function ref -> label: stripeSeries.series (by-ref map)
  exp,       \* Head.walExpiries: partial function ref -> keepUntil
  hMin, hMax, minValid,   \* Head.minTime (INF = uninitialised) / maxTime / minValidTime
  lastTr,    \* Head.lastWALTruncationTime
  minOOO,    \* Head.minOOOMmapRef (as chunk sequence number)
  issued,    \* [Labs -> SUBSET Nat]: refs the caller got from Append for that label set in this process
  curF,      \* ChunkDiskMapper.curFileSequence (0: no file cut in this process yet)
  cutNext,   \* ChunkDiskMapper: cut a new file on the next chunk
  fastOn,    \* EnableFastStartup of the running process
  \* ---- disk
  segs, first,   \* WAL segments (sequence of sequences of entries) and the index of segs[1]
  cp,        \* last checkpoint [idx, es] (idx = -1: none)
  wbl,       \* entries of the WBL
  files,     \* partial function file number -> sequence of chunks written to chunks_head/<n>
  blk,       \* set of <<label, sample>>: samples persisted in blocks under that label set
  blkMax,    \* max MaxTime over blocks that are neither out-of-order nor stale-/selected-series blocks (NEG: none)
  snap,      \* chunk snapshot [ok, idx, off, sers]
  sst,       \* series_state.json [ok, last, seg, clean]
  \* ---- ghost / bookkeeping
  clk, cn,   \* scrape clock, next chunk sequence number
  kfset, nops, hist

mvars == <<lastID, ser, byRef, exp, hMin, hMax, minValid, lastTr, minOOO, issued, curF, cutNext, fastOn>>
dvars == <<segs, first, cp, wbl, files, blk, blkMax, snap, sst>>
vars  == <<mvars, dvars, clk, cn, kfset, nops, hist>>
View  == <<mvars, dvars, clk, kfset>>

INF == 1000
NEG == -1000
BIGF == 1000
Max2(a, b) == IF a >= b THEN a ELSE b
Min2(a, b) == IF a <= b THEN a ELSE b
SetMax(S) == CHOOSE x \in S : \A y \in S : y <= x
SetMin(S) == CHOOSE x \in S : \A y \in S : x <= y
MaxOr(S, d) == IF S = {} THEN d ELSE SetMax(S)
MinOr(S, d) == IF S = {} THEN d ELSE SetMin(S)
SetF(f, k, v) == [x \in DOMAIN f \cup {k} |-> IF x = k THEN v ELSE f[x]]
DelF(f, K) == [x \in DOMAIN f \ K |-> f[x]]
Get(f, k, d) == IF k \in DOMAIN f THEN f[k] ELSE d
Range(q) == {q[i] : i \in 1..Len(q)}
RECURSIVE AscSeq(_)
AscSeq(S) == IF S = {} THEN <<>> ELSE LET m == SetMin(S) IN <<m>> \o AscSeq(S \ {m})
RECURSIVE SetToSeq(_)
SetToSeq(S) == IF S = {} THEN <<>> ELSE LET m == CHOOSE x \in S : TRUE IN <<m>> \o SetToSeq(S \ {m})
RECURSIVE Flat(_)
Flat(ss) == IF ss = <<>> THEN <<>> ELSE Head(ss) \o Flat(Tail(ss))
Labs == {LabOrder[i] : i \in 1..Len(LabOrder)}
LabSeq(S) == SelectSeq(LabOrder, LAMBDA l : l \in S)

-----------------------------------------------------------------------------
(* Data *)

\* a sample: timestamp, ghost set of label sets it may be returned under, staleness marker?
Smp(t, o, st) == [t |-> t, o |-> o, st |-> st]
NoX == Smp(0, {}, FALSE)
\* an in-order chunk: first timestamp, samples, chunks_head file (0 = head chunk in memory), sequence number
\* an out-of-order m-mapped chunk: file, sequence number, samples
NoObj == [ex |-> FALSE, r |-> 0, ch |-> {}, nextAt |-> NEG, ooh |-> {}, oom |-> {}, ls |-> FALSE]
NewObj(r) == [NoObj EXCEPT !.ex = TRUE, !.r = r]

Ino(o)    == UNION {c.s : c \in o.ch}
OooAll(o) == o.ooh \cup UNION {c.s : c \in o.oom}
HeadCh(o) == {c \in o.ch : c.f = 0}
MmCh(o)   == {c \in o.ch : c.f # 0}
ChMax(c)  == SetMax({x.t : x \in c.s})
\* memSeries.minTime / maxTime (in-order chunks only)
SerMin(o) == IF MmCh(o) # {} THEN SetMin({c.lo : c \in MmCh(o)})
             ELSE IF HeadCh(o) # {} THEN SetMin({c.lo : c \in HeadCh(o)}) ELSE NEG
SerMax(o) == IF HeadCh(o) # {} THEN SetMax({ChMax(c) : c \in HeadCh(o)})
             ELSE IF MmCh(o) # {} THEN SetMax({ChMax(c) : c \in MmCh(o)}) ELSE NEG
RangeEnd(t) == (t \div R) * R + R          \* rangeForTimestamp (non-negative times)

\* a log entry: "S" series (r, l), "D" sample (r, x), "T" full-range tombstone of an evicted series (r; l ghost)
E(k, r, l, x) == [k |-> k, r |-> r, l |-> l, x |-> x]

\* memSeries.append through appendPreprocessor: cut a new head chunk at the range end (or right after a snapshot restore)
AppendIno(o, x) ==
  LET hc == HeadCh(o) IN
  IF hc = {} \/ x.t >= o.nextAt
    THEN [o EXCEPT !.ch = @ \cup {[lo |-> x.t, s |-> {x}, f |-> 0, n |-> 0]}, !.nextAt = RangeEnd(x.t), !.ls = x.st]
    ELSE LET c == CHOOSE c \in hc : \A d \in hc : d.lo <= c.lo IN
         [o EXCEPT !.ch = (@ \ {c}) \cup {[c EXCEPT !.s = @ \cup {x}]}, !.ls = x.st]

-----------------------------------------------------------------------------
(* chunks_head: ChunkDiskMapper.WriteChunk / cut / Truncate.  D = [files, curF, cutNext, cn] *)

MaxFile(fl) == MaxOr(DOMAIN fl, 0)
WC(D, r, ooo, lo, s) ==
  LET newf == D.curF = 0 \/ D.cutNext
      f    == IF newf THEN MaxFile(D.files) + 1 ELSE D.curF
      rec  == [r |-> r, ooo |-> ooo, lo |-> lo, s |-> s, n |-> D.cn]
  IN [files |-> IF newf THEN SetF(D.files, f, <<rec>>) ELSE [D.files EXCEPT ![f] = Append(@, rec)],
      curF |-> f, cutNext |-> FALSE, cn |-> D.cn + 1]

\* memSeries.mmapChunks: every head chunk but the newest is written to the current file.  Returns <<o', D'>>
RECURSIVE MmapLos(_, _, _)
MmapLos(o, D, los) ==
  IF los = <<>> THEN <<o, D>>
  ELSE LET c  == CHOOSE c \in HeadCh(o) : c.lo = Head(los)
           D1 == WC(D, o.r, FALSE, c.lo, c.s)
       IN MmapLos([o EXCEPT !.ch = (@ \ {c}) \cup {[c EXCEPT !.f = D1.curF, !.n = D.cn]}], D1, Tail(los))
MmapObj(o, D) ==
  LET hc == HeadCh(o) IN
  IF Cardinality(hc) < 2 THEN <<o, D>>
  ELSE MmapLos(o, D, AscSeq({c.lo : c \in hc} \ {SetMax({c.lo : c \in hc})}))

\* Head.mmapHeadChunks: all series of the by-ref map, ascending refs
RECURSIVE MmapAll(_, _, _, _)
MmapAll(sr, br, D, refs) ==
  IF refs = <<>> THEN <<sr, D>>
  ELSE LET l == br[Head(refs)]
           p == MmapObj(sr[l], D)
       IN IF sr[l].ex /\ sr[l].r = Head(refs)
            THEN MmapAll([sr EXCEPT ![l] = p[1]], br, p[2], Tail(refs))
            ELSE MmapAll(sr, br, D, Tail(refs))

\* ChunkDiskMapper.Truncate(minFile)
\* files below minFile go, except the file being written; when no file has been cut in this process (after a restart) and
\* every file would go, the newest one is kept (the sequence of the next file is derived from the files on disk)
CdmTruncate1(D, rm, nonEmpty) ==
  [D EXCEPT !.files = DelF(@, IF D.curF = 0 /\ rm # {} /\ rm = DOMAIN D.files THEN rm \ {SetMax(rm)} ELSE rm),
            !.cutNext = (@ \/ nonEmpty)]
CdmTruncate(D, minFile) ==
  CdmTruncate1(D, {f \in DOMAIN D.files : f < minFile /\ (D.curF = 0 \/ f < D.curF)},
               D.curF # 0 /\ D.curF \in DOMAIN D.files /\ Len(D.files[D.curF]) > 0)

-----------------------------------------------------------------------------
(* Head.gc: stripeSeries.gc(mint, minOOOMmapRef) over all memSeries of the hash maps *)

TruncObj(o, mint, moo) ==
  [o EXCEPT !.ch = {c \in @ : ChMax(c) >= mint}, !.oom = {c \in @ : c.n > moo}]
Alive(o) == o.ch # {} \/ o.ooh # {} \/ o.oom # {}
FirstFile(o) == Min2(IF MmCh(o) = {} THEN BIGF ELSE (CHOOSE c \in MmCh(o) : \A d \in MmCh(o) : c.lo <= d.lo).f,
                     IF o.oom = {} THEN BIGF ELSE (CHOOSE c \in o.oom : \A d \in o.oom : c.n <= d.n).f)

\* (TLC re-evaluates a LET definition at every use inside an action but caches operator arguments: values that
\*  are used more than once are therefore passed on as arguments of a continuation operator throughout this module)
\* returns [ser, byRef, exp, actual, minFile, dead]
GC3(tr, br, ex, mint, dead, live, actual, drefs) ==
  [ser |-> [l \in Labs |-> IF l \in dead THEN NoObj ELSE tr[l]],
   byRef |-> DelF(br, drefs),                       \* delete(s.series[stripe], series.ref): whatever the ref maps to
   exp |-> [r \in DOMAIN ex \cup drefs |-> IF r \in drefs THEN actual ELSE ex[r]],
   actual |-> actual,
   minFile |-> MinOr({FirstFile(tr[l]) : l \in live}, BIGF),
   dead |-> dead]
GC2(tr, br, ex, mint, dead, live) ==
  GC3(tr, br, ex, mint, dead, live, IF live = {} THEN mint ELSE SetMin({SerMin(tr[l]) : l \in live}), {tr[l].r : l \in dead})
GC1(tr, br, ex, mint) ==
  GC2(tr, br, ex, mint, {l \in Labs : tr[l].ex /\ ~Alive(tr[l])}, {l \in Labs : tr[l].ex /\ Alive(tr[l])})
GC(sr, br, ex, mint, moo) ==
  GC1([l \in Labs |-> IF sr[l].ex THEN TruncObj(sr[l], mint, moo) ELSE sr[l]], br, ex, mint)

\* truncateSeriesAndChunkDiskMapper: minTime / minValidTime adjustment after gc
AfterGC1(actual, amv) == IF actual < amv THEN <<actual, actual>> ELSE <<amv, amv>>
AfterGC(g, hmin, hmax, mv) ==
  IF g.actual > hmin THEN AfterGC1(g.actual, Max2(hmax - (R \div 2), mv)) ELSE <<hmin, mv>>

-----------------------------------------------------------------------------
(* Head.truncateWAL(mint) -> wlog.Checkpoint.  L = [segs, first, cp, exp] *)

Keep(br, ex, mint, r) == r \in DOMAIN br \/ (r \in DOMAIN ex /\ ex[r] >= mint)
KeepEntry(br, ex, mint, e) ==
  CASE e.k = "S" -> Keep(br, ex, mint, e.r)
    [] e.k = "D" -> e.x.t >= mint
    [] e.k = "T" -> Keep(br, ex, mint, e.r)

TruncateWAL2(L, br, mint, segs1, lastC, cnt) ==
  [segs |-> SubSeq(segs1, cnt + 1, Len(segs1)), first |-> lastC + 1,
   cp |-> [idx |-> lastC, es |-> SelectSeq(L.cp.es \o Flat(SubSeq(segs1, 1, cnt)), LAMBDA e : KeepEntry(br, L.exp, mint, e))],
   exp |-> DelF(L.exp, {r \in DOMAIN L.exp : L.exp[r] < mint})]
TruncateWAL1(L, br, mint, n, segs1, lastC) ==
  IF n - 2 < 0 \/ lastC <= L.first THEN [L EXCEPT !.segs = segs1]
  ELSE TruncateWAL2(L, br, mint, segs1, lastC, lastC - L.first + 1)
TruncateWAL(L, br, mint) ==
  TruncateWAL1(L, br, mint, Len(L.segs),
               Append(L.segs, <<>>),                                      \* NextSegment
               L.first + (((Len(L.segs) - 2) * 2) \div 3))                 \* first + (last-1-first)*2/3

-----------------------------------------------------------------------------
(* NoReuse: who still refers to a ref, and under which label set *)

AllEntries == cp.es \o Flat(segs) \o wbl
\* ref r is still carried, for a label set other than l, by a WAL / WBL record, a chunk of a head-chunk file,
\* the chunk snapshot or the caller (a sample counts for every label set it may be returned under)
Conflict(r, l) ==
  \/ \E e \in Range(AllEntries) : e.r = r /\ ((e.k \in {"S", "T"} /\ e.l # l) \/ (e.k = "D" /\ l \notin e.x.o))
  \/ \E f \in DOMAIN files : \E c \in Range(files[f]) : c.r = r /\ \E x \in c.s : l \notin x.o
  \/ \E k \in Labs \ {l} : r \in issued[k]
  \/ snap.ok /\ \E s \in snap.sers : s.r = r /\ s.l # l
CarriedRefs == {e.r : e \in Range(AllEntries)} \cup UNION {{c.r : c \in Range(files[f])} : f \in DOMAIN files}
               \cup UNION {issued[l] : l \in Labs} \cup (IF snap.ok THEN {s.r : s \in snap.sers} ELSE {})
\* refs that must not be handed out for label set l
Forbid(l) == {r \in CarriedRefs : Conflict(r, l)}

-----------------------------------------------------------------------------
Init ==
  /\ lastID = 0 /\ ser = [l \in Labs |-> NoObj] /\ byRef = <<>> /\ exp = <<>>
  /\ hMin = INF /\ hMax = NEG /\ minValid = NEG /\ lastTr = NEG /\ minOOO = 0
  /\ issued = [l \in Labs |-> {}] /\ curF = 0 /\ cutNext = FALSE /\ fastOn = Fast0
  /\ segs = << <<>> >> /\ first = 0 /\ cp = [idx |-> -1, es |-> <<>>] /\ wbl = <<>>
  /\ files = <<>> /\ blk = {} /\ blkMax = NEG
  /\ snap = [ok |-> FALSE, idx |-> 0, off |-> 0, sers |-> {}]
  /\ sst = [ok |-> FALSE, last |-> 0, seg |-> 0, clean |-> FALSE]
  /\ clk = 1 /\ cn = 1 /\ kfset = {} /\ nops = 0
  /\ hist = <<[a |-> "Init", R |-> R, snap |-> Snap, fast |-> Fast0]>>
  /\ TLCSet(1, {})

\* constants for the cfg files (a cfg cannot write tuples)
LabAB == <<"a", "b">>
LabABC == <<"a", "b", "c">>
NoScript == <<>>
\* scenario skeletons: step i may only take an action of Script[i]; afterwards any action of Acts
\* series churn (gc / eviction), WAL segments, checkpoint, restart, new series
ScriptCkpt == <<{"Scrape"}, {"Cut"}, {"Scrape", "OOO"}, {"Cut"}, {"EvictSel", "Scrape", "Mmap"}, {"Scrape", "EvictSel"}, {"Cut"},
                {"CompactHead"}, {"Restart", "Crash", "CompactOOO"}, {"Scrape"}, {"Restart", "Crash", "CompactHead"}, {"Scrape", "Cross"}>>
\* fast startup on/off, series_state.json ticks, snapshots, clean and unclean restarts
ScriptFast == <<{"Scrape"}, {"Tick", "Scrape", "Restart"}, {"Scrape", "EvictSel", "CompactHead"}, {"Restart", "Crash", "Tick"},
                {"Scrape", "EvictSel"}, {"Restart", "Crash"}, {"Scrape"}, {"Restart", "Crash"}, {"Scrape", "Cross"}>>
\* out-of-order chunks left in the head-chunk files, series gc, checkpoint, restarts (DESIGN H10)
ScriptOOO == <<{"Scrape"}, {"Scrape"}, {"OOO"}, {"Scrape", "Mmap", "OOO"}, {"Cut", "Mmap"}, {"CompactHead"}, {"CompactOOO"}, {"Cut"},
               {"Scrape", "Cut"}, {"CompactHead"}, {"Restart"}, {"Scrape"}, {"Restart"}, {"Scrape"}>>
\* the route of DESIGN H10: a retired ref whose out-of-order chunk is still in a head-chunk file is re-issued and the
\* chunk is attached to the new series by the restart after that
ScriptH10 == <<{"Scrape"}, {"Scrape"}, {"OOO"}, {"CompactHead"}, {"CompactOOO"}, {"Cut"}, {"Cut"}, {"Scrape"}, {"CompactHead"},
               {"Restart"}, {"Scrape"}, {"Restart"}>>
\* a series is garbage-collected while its series record stays in the WAL, comes back under a new (highest) ref of which
\* only the series record is logged (rolled-back append), restart, new series, restart
ScriptDup == <<{"Scrape"}, {"Scrape"}, {"CompactHead"}, {"Rollback"}, {"Restart", "Crash"}, {"Scrape"}, {"Restart"}>>
\* shortest routes to the two known findings
ScriptKF == <<{"Scrape"}, {"Restart"}, {"Scrape", "EvictSel"}, {"Restart"}, {"Scrape"}>>

Subsets == IF ScrapeSets = {} THEN (SUBSET Labs) \ {{}} ELSE ScrapeSets

\* the action kinds that can fire at all in the current state (cheap approximations of the guards): a scripted step whose
\* kinds are all impossible falls back to the free alphabet instead of ending the history
Possible ==
  {"Scrape", "Cross", "Cut", "Restart", "Crash"}
  \cup (IF hMin # INF /\ \E l \in Labs : ~ser[l].ex THEN {"Rollback"} ELSE {})
  \cup (IF \E l \in Labs : ser[l].ex /\ (\E c \in ser[l].ch : c.f = 0) /\ (\E d \in OOOBack : clk - d >= 1 /\ clk - d < MaxOr({x.t : x \in UNION {c.s : c \in ser[l].ch}}, NEG)
                                         /\ clk - d \notin {x.t : x \in UNION {c.s : c \in ser[l].ch} \cup ser[l].ooh \cup UNION {c.s : c \in ser[l].oom}}) THEN {"OOO"} ELSE {})
  \cup (IF \E l \in Labs : ser[l].ex /\ Cardinality({c \in ser[l].ch : c.f = 0}) >= 2 THEN {"Mmap"} ELSE {})
  \cup (IF hMin # INF /\ hMin < hMax THEN {"CompactHead"} ELSE {})
  \cup (IF \E l \in Labs : ser[l].ex /\ (ser[l].ooh # {} \/ ser[l].oom # {}) THEN {"CompactOOO"} ELSE {})
  \cup (IF hMin # INF /\ \E l \in Labs : ser[l].ex /\ ser[l].ooh = {} /\ ser[l].oom = {} THEN {"EvictSel"} ELSE {})
  \cup (IF hMin # INF /\ \E l \in Labs : ser[l].ex /\ ser[l].ls /\ ser[l].ooh = {} /\ ser[l].oom = {} THEN {"EvictStale"} ELSE {})
  \cup (IF fastOn THEN {"Tick"} ELSE {})
Allowed == IF nops < Len(Script) /\ Script[nops + 1] \cap Possible # {} THEN Script[nops + 1] ELSE Acts

-----------------------------------------------------------------------------
(* Digest of the state for the drift comparison by the harness *)
EJ(e) == [k |-> e.k, r |-> e.r, t |-> e.x.t]
FilesJ(fl) == [i \in 1..Cardinality(DOMAIN fl) |->
                LET f == AscSeq(DOMAIN fl)[i] IN
                [f |-> f, cs |-> [j \in 1..Len(fl[f]) |-> [r |-> fl[f][j].r, ooo |-> fl[f][j].ooo,
                                                          lo |-> SetMin({x.t : x \in fl[f][j].s}), hi |-> SetMax({x.t : x \in fl[f][j].s})]]]]
Digest(lid, sr, br, sg, fst, c, fl, bk) ==
  [lastID |-> lid,
   q    |-> [l \in Labs |-> AscSeq({x.t : x \in (IF sr[l].ex /\ sr[l].r \in DOMAIN br /\ br[sr[l].r] = l THEN Ino(sr[l]) \cup OooAll(sr[l]) ELSE {})
                                                  \cup {p[2] : p \in {p \in bk : p[1] = l}}})],
   mem  |-> SetToSeq({[r |-> sr[l].r, l |-> l, vis |-> (sr[l].r \in DOMAIN br /\ br[sr[l].r] = l),
                       ino |-> AscSeq({x.t : x \in Ino(sr[l])}), ooo |-> AscSeq({x.t : x \in OooAll(sr[l])})] : l \in {l \in Labs : sr[l].ex}}),
   cp   |-> [idx |-> c.idx, es |-> [i \in 1..Len(c.es) |-> EJ(c.es[i])]],
   segs |-> [i \in 1..Len(sg) |-> [seg |-> fst + i - 1, es |-> [j \in 1..Len(sg[i]) |-> EJ(sg[i][j])]]],
   files |-> FilesJ(fl)]
\* hist keeps the raw post-state of every step (no evaluation cost); the digest is computed only for emitted behaviours
RawNext == [lastID |-> lastID', ser |-> ser', byRef |-> byRef', segs |-> segs', first |-> first', cp |-> cp', files |-> files', blk |-> blk']
HistJ(h) == [i \in 1..Len(h) |->
               IF "raw" \in DOMAIN h[i]
                 THEN LET w == h[i].raw IN
                      [k \in DOMAIN h[i] \ {"raw"} |-> h[i][k]] @@ [st |-> Digest(w.lastID, w.ser, w.byRef, w.segs, w.first, w.cp, w.files, w.blk)]
                 ELSE h[i]]

Step(rec) == /\ nops' = nops + 1
             /\ hist' = Append(hist, rec @@ [raw |-> RawNext, kfs |-> SetToSeq(kfset')])

-----------------------------------------------------------------------------
(* Appends *)

\* one Append(arg, l, x.t, v) on state A = [ser, byRef, lastID, issued, news (series created by this appender),
\*  ents (sample entries), rets, kf]
\* headAppender.Append: getByID(arg), else getOrCreate(labels); returns the ref of the series used
DoAppend3(A, l, arg, tl, creat, newr, ser1, br1, own, x, ret, o1, bad) ==
  [ser |-> [ser1 EXCEPT ![tl] = o1], byRef |-> br1, lastID |-> IF creat THEN newr ELSE A.lastID,
   issued |-> [A.issued EXCEPT ![tl] = @ \cup {ret}],        \* the caller learns: ret is the ref of the series it wrote to
   news |-> IF creat THEN Append(A.news, E("S", newr, l, NoX)) ELSE A.news,
   ents |-> Append(A.ents, E("D", ret, tl, x)),
   recs |-> Append(A.recs, [l |-> l, arg |-> arg, ret |-> ret, tl |-> tl, own |-> LabSeq(own), reuse |-> bad, creat |-> creat]),
   \* NoReuse at the moment a new ref is handed out: the ref is bound to a live series (KF-C22-2) or still carried (KF-C22-1)
   kf |-> A.kf \cup (IF creat /\ newr \in DOMAIN A.byRef THEN {"KF-C22-2"} ELSE IF bad THEN {"KF-C22-1"} ELSE {}),
   wrong |-> A.wrong \/ (tl \notin own)]
DoAppend2(A, l, arg, ooo, tl, creat, newr, ser1, br1, own, x) ==
  DoAppend3(A, l, arg, tl, creat, newr, ser1, br1, own, x, ser1[tl].r,
            IF ooo THEN [ser1[tl] EXCEPT !.ooh = @ \cup {x}] ELSE AppendIno(ser1[tl], x),
            creat /\ Conflict(newr, l))
DoAppend1(A, l, arg, t, stale, ooo, byid, creat, newr, own) ==
  DoAppend2(A, l, arg, ooo,
            IF byid THEN A.byRef[arg] ELSE l,                                  \* which memSeries receives the sample (key of ser)
            creat, newr,
            IF creat THEN [A.ser EXCEPT ![l] = NewObj(newr)] ELSE A.ser,
            IF creat THEN SetF(A.byRef, newr, l) ELSE A.byRef,                \* s.series[stripe][ref] = series (overwrites)
            own, Smp(t, own, stale))
DoAppend(A, l, arg, t, stale, ooo) ==
  DoAppend1(A, l, arg, t, stale, ooo,
            arg # 0 /\ arg \in DOMAIN A.byRef,                                \* getByID(ref) finds a series
            ~(arg # 0 /\ arg \in DOMAIN A.byRef) /\ ~A.ser[l].ex,             \* getOrCreate(labels) creates one
            A.lastID + 1,
            \* the label sets this sample may be returned under: the one given, and the one the ref was handed out for
            {l} \cup (IF arg # 0 THEN {k \in Labs : arg \in A.issued[k]} ELSE {}))

A0 == [ser |-> ser, byRef |-> byRef, lastID |-> lastID, issued |-> issued,
       news |-> <<>>, ents |-> <<>>, recs |-> <<>>, kf |-> {}, wrong |-> FALSE]

RECURSIVE AppendAll(_, _, _, _, _)
AppendAll(A, ls, argf, t, stale) ==
  IF ls = <<>> THEN A ELSE AppendAll(DoAppend(A, Head(ls), argf[Head(ls)], t, stale, FALSE), Tail(ls), argf, t, stale)

OwnRef(l) == MaxOr(issued[l], 0)

\* Commit: log() writes the series record of the created series, then the samples; updateMinMaxTime
CommitA(A, t, ooo, name, extra, gap) ==
  /\ A.kf \subseteq AllowKF
  /\ kfset' = kfset \cup A.kf
  /\ ser' = A.ser /\ byRef' = A.byRef /\ lastID' = A.lastID /\ issued' = A.issued
  /\ segs' = [segs EXCEPT ![Len(segs)] = @ \o A.news \o A.ents]
  /\ wbl' = IF ooo THEN wbl \o A.ents ELSE wbl
  /\ hMin' = IF ooo THEN hMin ELSE Min2(hMin, t)
  /\ hMax' = IF ooo THEN hMax ELSE Max2(hMax, t)
  /\ clk' = clk + gap
  /\ UNCHANGED <<exp, minValid, lastTr, minOOO, curF, cutNext, fastOn, first, cp, files, blk, blkMax, snap, sst, cn>>
  /\ Step([a |-> name, t |-> t, apps |-> A.recs] @@ extra)

Scrape(S, kind, gap) ==
  /\ "Scrape" \in Allowed
  /\ clk <= MaxClk
  /\ kind = "stale" => \A l \in S : ser[l].ex
  /\ LET argf == [l \in S |-> IF kind = "zero" THEN 0 ELSE OwnRef(l)]
         A == AppendAll(A0, LabSeq(S), argf, clk, kind = "stale")
     IN CommitA(A, clk, FALSE, "Scrape", [kind |-> kind], gap)

\* One appender appends for the label sets of S and rolls back: headAppenderBase.Rollback drops the samples, but the series
\* that the Appends created stay in the head (without chunks, until the next gc) and their series record is logged alone
\* ("Series are created in the head memory regardless of rollback. Thus we have to log them to the WAL in any case.")
RollbackWith(A) ==
  /\ A.kf \subseteq AllowKF
  /\ kfset' = kfset \cup A.kf
  /\ ser' = [l \in Labs |-> IF ser[l].ex THEN ser[l] ELSE IF A.ser[l].ex THEN NewObj(A.ser[l].r) ELSE NoObj]
  /\ byRef' = A.byRef /\ lastID' = A.lastID /\ issued' = A.issued
  /\ segs' = [segs EXCEPT ![Len(segs)] = @ \o A.news]
  /\ UNCHANGED <<exp, hMin, hMax, minValid, lastTr, minOOO, curF, cutNext, fastOn, first, cp, wbl, files, blk, blkMax, snap, sst, clk, cn>>
  /\ Step([a |-> "Rollback", t |-> clk, apps |-> A.recs])
Rollback(S) ==
  /\ "Rollback" \in Allowed
  /\ clk <= MaxClk /\ hMin # INF            \* (on an empty head the first Append would initialise the head's time range)
  /\ \E l \in S : ~ser[l].ex                \* only interesting when a series is created
  /\ RollbackWith(AppendAll(A0, LabSeq(S), [l \in S |-> 0], clk, FALSE))

\* Append with a ref the caller obtained for another label set (or an outdated one of its own)
Cross(l, r, gap) ==
  /\ "Cross" \in Allowed
  /\ clk <= MaxClk
  /\ r \in UNION {issued[k] : k \in Labs}
  /\ r # OwnRef(l)
  /\ LET A == DoAppend(A0, l, r, clk, FALSE, FALSE)
     IN CommitA(A, clk, FALSE, "Cross", <<>>, gap)

\* an out-of-order sample for an existing series: memSeries.appendable says out-of-order when the series has a head chunk
\* and t is below its newest in-order sample; stored by memSeries.insert, logged to WAL and WBL
OOO(l, t) ==
  /\ "OOO" \in Allowed
  /\ ser[l].ex /\ HeadCh(ser[l]) # {} /\ t < SerMax(ser[l]) /\ t >= 1
  /\ t \notin {x.t : x \in Ino(ser[l]) \cup OooAll(ser[l])}
  /\ LET A == DoAppend(A0, l, OwnRef(l), t, FALSE, TRUE)
     IN CommitA(A, t, TRUE, "OOO", <<>>, 0)

-----------------------------------------------------------------------------
D0 == [files |-> files, curF |-> curF, cutNext |-> cutNext, cn |-> cn]

MmapWith(p) ==
  /\ p[2].cn # cn                               \* something to do
  /\ ser' = p[1] /\ files' = p[2].files /\ curF' = p[2].curF /\ cutNext' = p[2].cutNext /\ cn' = p[2].cn
Mmap ==
  /\ "Mmap" \in Allowed
  /\ MmapWith(MmapAll(ser, byRef, D0, AscSeq(DOMAIN byRef)))
  /\ UNCHANGED <<lastID, byRef, exp, hMin, hMax, minValid, lastTr, minOOO, issued, fastOn, segs, first, cp, wbl, blk, blkMax, snap, sst, clk, kfset>>
  /\ Step([a |-> "Mmap"])

\* series the head index exposes: postings -> getByID
Vis(sr, br) == {l \in Labs : sr[l].ex /\ sr[l].r \in DOMAIN br /\ br[sr[l].r] = l}

\* DB.CompactHead(NewRangeHead(head, head.MinTime(), T-1))
\* truncateWAL(T) on the state left by truncateMemory(T)
CompactHead3(T, g, hm, ag, D, L) ==
  /\ ser' = g.ser /\ byRef' = g.byRef /\ exp' = L.exp
  /\ hMin' = ag[1] /\ minValid' = ag[2] /\ hMax' = hm
  /\ files' = D.files /\ cutNext' = D.cutNext
  /\ segs' = L.segs /\ first' = L.first /\ cp' = L.cp
  /\ lastTr' = Max2(lastTr, T)
\* truncateMemory(T): minTime, minValidTime, gc, chunk file truncation
CompactHead2(T, g, hm) ==
  CompactHead3(T, g, hm, AfterGC(g, T, hm, T), CdmTruncate(D0, g.minFile),
               IF T <= lastTr THEN [segs |-> segs, first |-> first, cp |-> cp, exp |-> g.exp]
               ELSE TruncateWAL([segs |-> segs, first |-> first, cp |-> cp, exp |-> g.exp], g.byRef, T))
CompactHead1(T, moved) ==
  /\ blk' = blk \cup moved
  /\ blkMax' = IF moved # {} THEN Max2(blkMax, T) ELSE blkMax       \* no block is written for an empty range
  /\ CompactHead2(T, GC(ser, byRef, exp, T, minOOO), Max2(hMax, T))
CompactHead(T) ==
  /\ "CompactHead" \in Allowed
  /\ hMin # INF /\ T > hMin /\ T <= hMax
  /\ CompactHead1(T, UNION {{<<l, x>> : x \in {x \in Ino(ser[l]) : x.t >= hMin /\ x.t < T}} : l \in Vis(ser, byRef)})
  /\ UNCHANGED <<lastID, minOOO, issued, curF, fastOn, wbl, snap, sst, clk, cn, kfset>>
  /\ Step([a |-> "CompactHead", T |-> T])

\* DB.CompactOOOHead
RECURSIVE MmapOOO(_, _, _, _)
MmapOOO(sr, br, D, refs) ==
  IF refs = <<>> THEN <<sr, D>>
  ELSE LET l == br[Head(refs)]
           o == sr[l]
       IN IF o.ex /\ o.r = Head(refs) /\ o.ooh # {}
            THEN LET D1 == WC(D, o.r, TRUE, SetMin({x.t : x \in o.ooh}), o.ooh)
                 IN MmapOOO([sr EXCEPT ![l] = [o EXCEPT !.ooh = {}, !.oom = @ \cup {[f |-> D1.curF, n |-> D.cn, s |-> o.ooh]}]], br, D1, Tail(refs))
            ELSE MmapOOO(sr, br, D, Tail(refs))

CompactOOO3(sr1, g, ag, D, moo1) ==
  /\ blk' = blk \cup UNION {{<<l, x>> : x \in UNION {c.s : c \in sr1[l].oom}} : l \in Vis(sr1, byRef)}
  /\ ser' = g.ser /\ byRef' = g.byRef /\ exp' = g.exp
  /\ hMin' = ag[1] /\ minValid' = ag[2]
  /\ files' = D.files /\ curF' = D.curF /\ cutNext' = D.cutNext /\ cn' = D.cn
  /\ minOOO' = moo1
  /\ wbl' = <<>>                                               \* wbl.Truncate(lastWBLFile)
CompactOOO2(sr1, D1, moo1, g) == CompactOOO3(sr1, g, AfterGC(g, hMin, hMax, minValid), CdmTruncate(D1, g.minFile), moo1)
\* truncateOOO -> gc
CompactOOO1(sr1, D1, moo1) == CompactOOO2(sr1, D1, moo1, GC(sr1, byRef, exp, hMin, moo1))
\* NewOOOCompactionHead: m-map every ooo head chunk
CompactOOO0(p) == CompactOOO1(p[1], p[2], Max2(minOOO, MaxOr(UNION {{c.n : c \in p[1][l].oom} : l \in Vis(p[1], byRef)}, 0)))
CompactOOO ==
  /\ "CompactOOO" \in Allowed
  /\ \E l \in Vis(ser, byRef) : OooAll(ser[l]) # {}
  /\ CompactOOO0(MmapOOO(ser, byRef, D0, AscSeq(DOMAIN byRef)))
  /\ UNCHANGED <<lastID, hMax, lastTr, issued, fastOn, segs, first, cp, blkMax, snap, sst, clk, kfset>>
  /\ Step([a |-> "CompactOOO"])

\* DB.CompactSelectedSeries / DB.CompactStaleHead: compactHeadViewLocked, then Head.truncateSeries -> gcSeries
Evict2(name, sel, drefs, gone, dseq) ==
  /\ sel # {}
  /\ blk' = blk \cup UNION {{<<l, x>> : x \in Ino(ser[l])} : l \in sel}
  /\ ser' = [l \in Labs |-> IF l \in gone THEN NoObj ELSE ser[l]]
  /\ byRef' = DelF(byRef, drefs)
  /\ exp' = [r \in DOMAIN exp \cup drefs |-> IF r \in drefs THEN hMax ELSE exp[r]]
  /\ segs' = [segs EXCEPT ![Len(segs)] = @ \o [i \in 1..Len(dseq) |-> E("T", dseq[i], byRef[dseq[i]], NoX)]]
  /\ UNCHANGED <<lastID, hMin, hMax, minValid, lastTr, minOOO, issued, curF, cutNext, fastOn, first, cp, wbl, files, blkMax, snap, sst, clk, cn, kfset>>
  /\ Step([a |-> name, S |-> LabSeq(sel)])
\* gcSeries iterates the hash maps and matches by ref: every memSeries with one of the refs goes
Evict1(name, sel, drefs) ==
  Evict2(name, sel, drefs, {l \in Labs : ser[l].ex /\ ser[l].r \in drefs /\ OooAll(ser[l]) = {}}, AscSeq(drefs))
Evict0(name, sel) == Evict1(name, sel, {ser[l].r : l \in sel})
Evict(Sel, name) ==
  /\ hMin # INF /\ hMin <= hMax
  /\ Evict0(name, {l \in Sel \cap Vis(ser, byRef) : OooAll(ser[l]) = {}})        \* isSeriesWithoutOOO

EvictSel(Sel) == "EvictSel" \in Allowed /\ Evict(Sel, "EvictSel")
\* staleSeriesRefsNoOOOData: series whose newest in-order sample is a staleness marker
EvictStale == /\ "EvictStale" \in Allowed
              /\ Evict({l \in Labs : ser[l].ex /\ ser[l].ls}, "EvictStale")

Cut ==
  /\ "Cut" \in Allowed
  /\ Len(segs) < 8                     \* (bound)
  /\ segs' = Append(segs, <<>>)
  /\ UNCHANGED <<mvars, first, cp, wbl, files, blk, blkMax, snap, sst, clk, cn, kfset>>
  /\ Step([a |-> "Cut"])

LastSeg == first + Len(segs) - 1

\* the ticker of runSeriesStateTicker fires
Tick ==
  /\ "Tick" \in Allowed
  /\ fastOn
  /\ sst' = [ok |-> TRUE, last |-> lastID, seg |-> LastSeg, clean |-> FALSE]
  /\ sst' # sst
  /\ UNCHANGED <<mvars, segs, first, cp, wbl, files, blk, blkMax, snap, clk, cn, kfset>>
  /\ Step([a |-> "Tick"])

-----------------------------------------------------------------------------
(* tsdb.Open: DB.open -> reload -> Head.Init *)

\* replay state
RP0(sr, br, lid, D, mmi, mmo, mv) ==
  [ser |-> sr, byRef |-> br, lastID |-> lid, multi |-> <<>>, exp |-> <<>>, D |-> D, mmi |-> mmi, mmo |-> mmo,
   mmMax |-> [l \in Labs |-> NEG], mv |-> mv, lo |-> INF, hi |-> NEG]

\* one entry of Head.loadWAL
\* series record: getOrCreateWithOptionalID, then resetSeriesWithMMappedChunks(series, mmappedChunks[walRef], oooMmappedChunks[walRef])
RStepS2(st, e, have, sr1, br1, o, mmc, ooc, mx) ==
  [st EXCEPT !.ser = [sr1 EXCEPT ![e.l] = [o EXCEPT !.ch = mmc, !.oom = ooc, !.ooh = {}, !.nextAt = 0]], !.byRef = br1,
             !.lastID = Max2(@, e.r),
             !.multi = IF have THEN SetF(@, e.r, o.r) ELSE @,
             !.mmMax = [@ EXCEPT ![e.l] = mx],
             !.lo = IF mmc = {} THEN @ ELSE Min2(@, SetMin({c.lo : c \in mmc})),
             !.hi = IF mmc = {} THEN @ ELSE Max2(@, mx)]
RStepS1(st, e, have, sr1, mmc) ==
  RStepS2(st, e, have, sr1, IF have THEN st.byRef ELSE SetF(st.byRef, e.r, e.l), sr1[e.l], mmc, Get(st.mmo, e.r, {}),
          IF mmc = {} THEN NEG ELSE SetMax({ChMax(c) : c \in mmc}))
RStepS(st, e) ==
  RStepS1(st, e, st.ser[e.l].ex, IF st.ser[e.l].ex THEN st.ser ELSE [st.ser EXCEPT ![e.l] = NewObj(e.r)], Get(st.mmi, e.r, {}))
\* sample record
RStepD3(st1, e, l, p) ==                                                    \* appendChunkAndMmap
  [st1 EXCEPT !.ser = [@ EXCEPT ![l] = p[1]], !.D = p[2], !.lo = Min2(@, e.x.t), !.hi = Max2(@, e.x.t)]
RStepD2(st1, e, l, o) ==
  IF e.x.t <= st1.mmMax[l] THEN st1
  ELSE IF e.x.t <= SerMax(o) THEN [st1 EXCEPT !.lo = Min2(@, e.x.t), !.hi = Max2(@, e.x.t)]   \* appendPreprocessor: not in order, dropped
  ELSE RStepD3(st1, e, l, MmapObj(AppendIno(o, e.x), st1.D))
RStepD1(st1, e, r) ==
  IF r \notin DOMAIN st1.byRef THEN st1 ELSE RStepD2(st1, e, st1.byRef[r], st1.ser[st1.byRef[r]])
RStepD0(st, e) ==
  IF e.x.t < st.mv THEN st
  ELSE IF e.r \in DOMAIN st.multi
         THEN RStepD1([st EXCEPT !.exp = SetF(@, e.r, Max2(e.x.t, Get(@, e.r, 0)))], e, st.multi[e.r])   \* updateWALExpiry of the duplicate ref
         ELSE RStepD1(st, e, e.r)
\* every ref met in a sample record advances lastSeriesID, whether or not its series record is still there
\* (Head.advanceLastSeriesID), before the minValidTime filter
RStepD(st, e) == RStepD0([st EXCEPT !.lastID = Max2(@, e.r)], e)
\* full-range tombstone: unlinkHash + deleteSeriesByID
RStepT2(st0, r, l, o, mx) ==
  [st0 EXCEPT !.ser = [@ EXCEPT ![l] = NoObj], !.byRef = DelF(@, {r}),
              !.exp = IF mx = NEG THEN @ ELSE SetF(@, o.r, Max2(mx, Get(@, o.r, 0)))]
RStepT1(st0, r) ==
  IF r \notin DOMAIN st0.byRef THEN st0
  ELSE RStepT2(st0, r, st0.byRef[r], st0.ser[st0.byRef[r]], SerMax(st0.ser[st0.byRef[r]]))
RStepT(st, e) ==
  RStepT1([st EXCEPT !.lastID = Max2(@, e.r)], IF e.r \in DOMAIN st.multi THEN st.multi[e.r] ELSE e.r)
RStep(st, e) ==
  CASE e.k = "S" -> RStepS(st, e)
    [] e.k = "D" -> RStepD(st, e)
    [] e.k = "T" -> RStepT(st, e)

RECURSIVE RFold(_, _, _)
RFold(st, es, i) == IF i > Len(es) THEN st ELSE RFold(RStep(st, es[i]), es, i + 1)

\* Head.loadWBL: out-of-order samples back into the ooo head chunk
RECURSIVE WFold(_, _, _)
WFold1(st, e, r) ==
  IF r \notin DOMAIN st.byRef THEN st
  ELSE [st EXCEPT !.ser = [@ EXCEPT ![st.byRef[r]] = [@ EXCEPT !.ooh = @ \cup {e.x}]]]
WFold(st, es, i) ==
  IF i > Len(es) THEN st
  ELSE WFold(WFold1(st, es[i], IF es[i].r \in DOMAIN st.multi THEN st.multi[es[i].r] ELSE es[i].r), es, i + 1)

\* Head.findLastSeriesID: newest segment (down to state.LastWALSegment) that holds a series record
RECURSIVE ScanLast(_, _, _, _, _)
ScanLast1(sg, fst, i, lo, dflt, ss) == IF ss # {} THEN SetMax(ss) ELSE ScanLast(sg, fst, i - 1, lo, dflt)
ScanLast(sg, fst, i, lo, dflt) ==
  IF i < lo \/ i < fst THEN dflt
  ELSE ScanLast1(sg, fst, i, lo, dflt, {e.r : e \in {e \in Range(sg[i - fst + 1]) : e.k = "S"}})

\* all chunks of the head-chunk files in file and write order
AllChunks(fl) == Flat([i \in 1..Cardinality(DOMAIN fl) |-> fl[AscSeq(DOMAIN fl)[i]]])
FileOf(fl, n) == CHOOSE f \in DOMAIN fl : \E c \in Range(fl[f]) : c.n = n

\* ---- tsdb.Open on a given disk state, as a chain of steps (each passes its results on as arguments)
\* the result: the head after Init
Open7(mv, st2, lo2, hi1, g, snDel) ==
  [ser |-> g.ser, byRef |-> g.byRef, lastID |-> st2.lastID, exp |-> g.exp,
   hMin |-> lo2, hMax |-> hi1, minValid |-> mv, D |-> st2.D, snapDeleted |-> snDel]
\* deferred in Head.Init: minTime below minValidTime is raised, then h.gc()
Open6(mv, st2, lo1, hi1, snDel) ==
  Open7(mv, st2, IF lo1 # INF /\ lo1 < mv THEN mv ELSE lo1, hi1,
        GC(st2.ser, st2.byRef, st2.exp, IF lo1 # INF /\ lo1 < mv THEN mv ELSE lo1, 0), snDel)
\* min/max time: reload() -> Head.Truncate(blkMax) on the uninitialised head, then whatever was loaded
Open5(mv, st2, snTs, snDel) ==
  Open6(mv, st2,
        Min2(Min2(IF mv # NEG THEN mv ELSE INF, st2.lo), MinOr(snTs, INF)),
        Max2(Max2(IF mv # NEG THEN mv ELSE NEG, st2.hi), MaxOr(snTs, NEG)), snDel)
\* replay: checkpoint and segments (Head.loadWAL), then the WBL (Head.loadWBL)
Open4(mv, st0, es, wb, snTs, snDel) == Open5(mv, WFold(RFold(st0, es, 1), wb, 1), snTs, snDel)
\* which entries are replayed: the checkpoint if it is not behind the snapshot, then the segments from `start`
\* (from the snapshot offset within segment snIdx)
Open3b(sg, fst, c, sn, snIdx, useCp, start) ==
  (IF useCp THEN c.es ELSE <<>>) \o
  Flat([i \in 1..Len(sg) |-> IF fst + i - 1 < start THEN <<>>
                              ELSE IF fst + i - 1 = snIdx THEN SubSeq(sg[i], sn.off + 1, Len(sg[i]))
                              ELSE sg[i]])
Open3a(sg, fst, c, sn, snIdx, useCp) ==
  Open3b(sg, fst, c, sn, snIdx, useCp,
         Max2(Max2(IF c.idx >= 0 THEN (IF useCp THEN c.idx + 1 ELSE c.idx) ELSE fst, snIdx), fst))
Entries(sg, fst, c, sn, snIdx) == Open3a(sg, fst, c, sn, snIdx, c.idx >= 0 /\ c.idx >= snIdx)
\* fast startup: series_state.json is read after the snapshot and the m-map chunks and *stored* into lastSeriesID
FastID(sg, fst, endAt, ss, fast, snLast) ==
  IF fast /\ ss.ok
    THEN IF ss.clean THEN ss.last                                       \* h.lastSeriesID.Store(state.LastSeriesID)
         ELSE ScanLast(sg, fst, endAt, Max2(0, ss.seg), ss.last)        \* findLastSeriesID
    ELSE snLast
Open3(sg, fst, c, wb, fl, mv, sn, ss, fast, cn0, useSn, snSer2, snRef, snLast, mmi, mmo, endAt) ==
  Open4(mv,
        RP0(snSer2, snRef, FastID(sg, fst, endAt, ss, fast, snLast), [files |-> fl, curF |-> 0, cutNext |-> FALSE, cn |-> cn0], mmi, mmo, mv),
        Entries(sg, fst, c, sn, IF useSn THEN sn.idx ELSE -1), wb,
        UNION {{x.t : x \in Ino(snSer2[l])} : l \in Labs},
        Snap /\ sn.ok /\ endAt < sn.idx)
\* loadMmappedChunks: in-order chunks below minValidTime are skipped, out-of-order chunks never; chunks of series that
\* the snapshot created are attached at once (a head chunk covered by an m-mapped chunk is dropped), the others are kept
\* by ref until a series record with that ref is replayed
ToCh(fl, k) == [lo |-> k.lo, s |-> k.s, f |-> FileOf(fl, k.n), n |-> k.n]
ToOo(fl, k) == [f |-> FileOf(fl, k.n), n |-> k.n, s |-> k.s]
Attach1(fl, o, ic, oc, drop) ==
  [o EXCEPT !.ch = (IF drop THEN {} ELSE o.ch) \cup ic, !.oom = oc, !.nextAt = IF drop THEN 0 ELSE @]
Attach0(fl, o, ic, oc) ==
  Attach1(fl, o, ic, oc, ic # {} /\ o.ch # {} /\ SetMax({ChMax(k) : k \in ic}) >= SetMin({k.lo : k \in o.ch}))
Attach(fl, o, okc) ==
  IF ~o.ex THEN o
  ELSE Attach0(fl, o, {ToCh(fl, k) : k \in {k \in Range(okc) : k.r = o.r /\ ~k.ooo}},
                      {ToOo(fl, k) : k \in {k \in Range(okc) : k.r = o.r /\ k.ooo}})
Open2(sg, fst, c, wb, fl, mv, sn, ss, fast, cn0, useSn, snSer, snRef, snLast, okc, crefs, endAt) ==
  Open3(sg, fst, c, wb, fl, mv, sn, ss, fast, cn0, useSn,
        [l \in Labs |-> Attach(fl, snSer[l], okc)], snRef, snLast,
        [r \in crefs \ DOMAIN snRef |-> {ToCh(fl, k) : k \in {k \in Range(okc) : k.r = r /\ ~k.ooo}}],
        [r \in crefs \ DOMAIN snRef |-> {ToOo(fl, k) : k \in {k \in Range(okc) : k.r = r /\ k.ooo}}], endAt)
Open1b(sg, fst, c, wb, fl, mv, sn, ss, fast, cn0, useSn, snSer, snRef, snLast, okc, endAt) ==
  Open2(sg, fst, c, wb, fl, mv, sn, ss, fast, cn0, useSn, snSer, snRef, snLast, okc, {k.r : k \in Range(okc)}, endAt)
\* loadChunkSnapshot: the series of the by-ref map at shutdown with their newest head chunk; raises lastSeriesID
SnapObj(x) ==
  [NewObj(x.r) EXCEPT !.ch = IF x.hc = {} THEN {} ELSE {[lo |-> SetMin({y.t : y \in x.hc}), s |-> x.hc, f |-> 0, n |-> 0]},
                      !.nextAt = IF x.hc = {} THEN NEG ELSE SetMax({y.t : y \in x.hc}),     \* the next append cuts a new chunk
                      !.ls = x.ls]
Open1(sg, fst, c, wb, fl, mv, sn, ss, fast, cn0, useSn, endAt) ==
  Open1b(sg, fst, c, wb, fl, mv, sn, ss, fast, cn0, useSn,
         [l \in Labs |-> IF useSn /\ \E x \in sn.sers : x.l = l THEN SnapObj(CHOOSE x \in sn.sers : x.l = l) ELSE NoObj],
         IF useSn THEN [r \in {x.r : x \in sn.sers} |-> (CHOOSE x \in sn.sers : x.r = r).l] ELSE <<>>,
         IF useSn THEN MaxOr({x.r : x \in sn.sers}, 0) ELSE 0,
         SelectSeq(AllChunks(fl), LAMBDA k : k.ooo \/ SetMax({x.t : x \in k.s}) >= mv), endAt)
\* sg already includes the segment created by wlog.New; minValidTime = inOrderBlocksMaxTime; the snapshot is used
\* unless the WAL is behind it
OpenState(sg, fst, c, wb, fl, bmax, sn, ss, fast, cn0) ==
  Open1(sg, fst, c, wb, fl, bmax, sn, ss, fast, cn0, Snap /\ sn.ok /\ ~(fst + Len(sg) - 1 < sn.idx), fst + Len(sg) - 1)

\* DB.Close (series_state.json clean, m-map all but the newest head chunk, flush, snapshot) or a kill, then tsdb.Open
Reopen3(kind, fast, fl1, sst1, sn1, sg1, os, kf) ==
  /\ kf \subseteq AllowKF
  /\ kfset' = kfset \cup kf
  /\ ser' = os.ser /\ byRef' = os.byRef /\ lastID' = os.lastID /\ exp' = os.exp
  /\ hMin' = os.hMin /\ hMax' = os.hMax /\ minValid' = os.minValid
  /\ lastTr' = NEG /\ minOOO' = 0 /\ issued' = [l \in Labs |-> {}]
  /\ curF' = os.D.curF /\ cutNext' = os.D.cutNext /\ files' = os.D.files /\ cn' = os.D.cn
  /\ fastOn' = fast
  /\ segs' = sg1 /\ sst' = sst1
  /\ snap' = IF os.snapDeleted THEN [sn1 EXCEPT !.ok = FALSE] ELSE sn1
  /\ UNCHANGED <<first, cp, wbl, blk, blkMax, clk>>
  /\ Step([a |-> kind, fast |-> fast, predisk |-> FilesJ(fl1), sst |-> sst1, snapok |-> sn1.ok])
\* the allocator restarts below a reference that is bound to a series: the next new series will collide with it (KF-C22-2)
Reopen2(kind, fast, fl1, sst1, sn1, sg1, os) ==
  Reopen3(kind, fast, fl1, sst1, sn1, sg1, os, IF \E r \in DOMAIN os.byRef : r > os.lastID THEN {"KF-C22-2"} ELSE {})
Reopen1(kind, fast, clean, pm, fl1, sst1, sn1, sg1) ==
  Reopen2(kind, fast, fl1, sst1, sn1, sg1, OpenState(sg1, first, cp, wbl, fl1, blkMax, sn1, sst1, fast, pm[2].cn))
SnapOf(sr1) ==
  [ok |-> TRUE, idx |-> LastSeg, off |-> Len(segs[Len(segs)]),
   sers |-> {[r |-> r, l |-> byRef[r], hc |-> UNION {k.s : k \in HeadCh(sr1[byRef[r]])}, ls |-> sr1[byRef[r]].ls] :
               r \in {r \in DOMAIN byRef : sr1[byRef[r]].ex /\ sr1[byRef[r]].r = r}}]
Reopen0(kind, fast, clean, pm) ==
  Reopen1(kind, fast, clean, pm,
          \* a killed process loses the chunks still buffered for the current head-chunk file (the file has only its header)
          IF clean \/ curF = 0 THEN pm[2].files ELSE [files EXCEPT ![curF] = <<>>],
          IF clean /\ fastOn THEN [ok |-> TRUE, last |-> lastID, seg |-> LastSeg, clean |-> TRUE] ELSE sst,
          IF clean /\ Snap THEN SnapOf(pm[1]) ELSE snap,
          Append(segs, <<>>))                                    \* wlog.NewSize: a new segment on every start
Reopen(kind, fast) ==
  Reopen0(kind, fast, kind = "Restart", IF kind = "Restart" THEN MmapAll(ser, byRef, D0, AscSeq(DOMAIN byRef)) ELSE <<ser, D0>>)

Restart(fast) == "Restart" \in Allowed /\ Reopen("Restart", fast)
Crash(fast)   == "Crash" \in Allowed /\ Reopen("Crash", fast)

-----------------------------------------------------------------------------
End == nops = MaxOps /\ nops' = MaxOps + 1 /\ UNCHANGED <<mvars, dvars, clk, cn, kfset, hist>>

Next ==
  \/ /\ nops < MaxOps
     /\ \/ \E S \in Subsets, kind \in Kinds, g \in Gaps : Scrape(S, kind, g)
        \/ \E S \in Subsets : Rollback(S)
        \/ \E l \in Labs, r \in 1..lastID, g \in Gaps : Cross(l, r, g)
        \/ \E l \in Labs, d \in OOOBack : OOO(l, clk - d)
        \/ Mmap
        \/ \E T \in 1..MaxClk : CompactHead(T)
        \/ CompactOOO
        \/ \E S \in Subsets : EvictSel(S)
        \/ EvictStale
        \/ Cut
        \/ Tick
        \/ \E f \in FastOpts : Restart(f)
        \/ \E f \in FastOpts : Crash(f)
  \/ End

Spec == Init /\ [][Next]_vars

-----------------------------------------------------------------------------
(* Properties *)

AllOf(l) == Ino(ser[l]) \cup OooAll(ser[l])

\* RightLabels: every sample a query returns under a label set was appended under it (or through a reference
\* handed out for it)
RightLabels ==
  kfset # {} \/
  /\ \A l \in Vis(ser, byRef) : \A x \in AllOf(l) : l \in x.o
  /\ \A p \in blk : p[1] \in p[2].o

\* (what the property demands, without the known-finding waiver: used to exhibit the findings in the model)
RightLabelsRaw ==
  /\ \A l \in Vis(ser, byRef) : \A x \in AllOf(l) : l \in x.o
  /\ \A p \in blk : p[1] \in p[2].o

\* NoReuse: a ref bound to a series is not carried for another label set by any record, chunk, snapshot or caller
NoReuse ==
  kfset # {} \/ \A r \in DOMAIN byRef : ~Conflict(r, byRef[r])

\* the by-ref map and the by-hash map describe the same series
MapsAgree ==
  kfset # {} \/ (/\ \A r \in DOMAIN byRef : ser[byRef[r]].ex /\ ser[byRef[r]].r = r
                 /\ \A l \in Labs : ser[l].ex => (ser[l].r \in DOMAIN byRef /\ byRef[ser[l].r] = l))

\* refs only grow within a process and never fall below a live ref
AllocAbove == kfset # {} \/ \A r \in DOMAIN byRef : r <= lastID

\* an Append with a cached reference resolves to the series it was handed out for or to the given labels
AppendRight == [][ (hist' # hist /\ kfset' = {} /\ hist'[Len(hist')].a \in {"Scrape", "Cross", "OOO", "Rollback"}) =>
                     \A i \in 1..Len(hist'[Len(hist')].apps) :
                        LET p == hist'[Len(hist')].apps[i] IN p.tl \in Range(p.own) ]_vars

-----------------------------------------------------------------------------
(* Emission *)
LastRec == hist'[Len(hist')]
\* the label sets for which the highest allocated reference is still carried
KeptLabs == LET r == lastID IN
            {e.l : e \in {e \in Range(AllEntries) : e.r = r /\ e.k \in {"S", "T"}}}
            \cup UNION {e.x.o : e \in {e \in Range(AllEntries) : e.r = r /\ e.k = "D"}}
            \cup UNION {UNION {UNION {x.o : x \in c.s} : c \in {c \in Range(files[f]) : c.r = r}} : f \in DOMAIN files}
\* what still carries the highest allocated reference (i.e. what would keep the allocator up across a restart)
KeptBy == LET r == lastID IN
          (IF \E e \in Range(cp.es) : e.r = r /\ e.k = "S" THEN {"cpS"} ELSE {})
          \cup (IF \E e \in Range(Flat(segs)) : e.r = r /\ e.k = "S" THEN {"S"} ELSE {})
          \* ... by the series record of a duplicate: the same label set also has a series record under another ref
          \cup (IF \E e \in Range(AllEntries) : e.r = r /\ e.k = "S" /\ \E d \in Range(AllEntries) : d.k = "S" /\ d.l = e.l /\ d.r # r
                THEN {"dupS"} ELSE {})
          \cup (IF \E e \in Range(AllEntries) : e.r = r /\ e.k = "T" THEN {"T"} ELSE {})
          \cup (IF \E e \in Range(AllEntries) : e.r = r /\ e.k = "D" THEN {"D"} ELSE {})
          \cup (IF \E f \in DOMAIN files : \E c \in Range(files[f]) : c.r = r THEN {"chunk"} ELSE {})
          \cup (IF snap.ok /\ \E x \in snap.sers : x.r = r THEN {"snap"} ELSE {})
          \cup (IF r \in DOMAIN byRef THEN {"live"} ELSE {})
Class ==
  LET r == LastRec IN
  IF r.a \in {"Scrape", "Cross", "OOO", "Rollback"} THEN
       <<r.a, {<<p.creat, p.arg = 0, p.arg # 0 /\ p.arg \notin DOMAIN byRef, p.tl = p.l, p.reuse, p.ret = lastID + 1, p.creat /\ p.l \in KeptLabs>> : p \in Range(r.apps)},
         cp.idx >= 0, KeptBy, UNION {issued[l] : l \in Labs} = {}, kfset' # {}>>
  ELSE IF r.a = "CompactHead" THEN <<r.a, ser' # ser, cp' # cp, Len(cp'.es) < Len(cp.es) + Len(Flat(segs)), files' # files, DOMAIN exp' # DOMAIN exp, kfset # {}>>
  ELSE IF r.a = "CompactOOO" THEN <<r.a, DOMAIN byRef' # DOMAIN byRef, DOMAIN files' # DOMAIN files, kfset # {}>>
  ELSE IF r.a \in {"EvictSel", "EvictStale"} THEN <<r.a, Len(r.S), cp.idx >= 0, kfset # {}>>
  ELSE IF r.a \in {"Restart", "Crash"} THEN
       <<r.a, r.fast, fastOn, sst.ok, sst.clean, snap.ok, lastID' < lastID, lastID' = lastID,
         DOMAIN byRef' = DOMAIN byRef, cp.idx >= 0, DOMAIN files # {}, wbl # <<>>, DOMAIN exp' # {}, KeptBy, kfset # {},
         \A l \in Vis(ser', byRef') : \A x \in Ino(ser'[l]) \cup OooAll(ser'[l]) : l \in x.o>>
  ELSE <<r.a>>

Emit ==
  CASE EmitMode = "none" -> TRUE
    [] hist' = hist -> TRUE
    [] EmitMode = "all" -> PrintT("@@TR " \o ToJson(HistJ(hist')))
    [] OTHER -> LET cl == Class IN
                \/ cl \in TLCGet(1)
                \/ /\ TLCSet(1, TLCGet(1) \cup {cl})
                   /\ PrintT("@@TR " \o ToJson(HistJ(hist')))
EmitWalk == nops <= MaxOps \/ PrintT("@@TR " \o ToJson(HistJ(hist)))
=============================================================================
