SPECIFICATION Spec
CONSTANTS
  Series = {"s1", "s2"}
  TOff = 0
  TimesRaw = {0, 1, 2, 3, 4, 5, 6, 7, 8, 9, 11}
  Vals = {1, 2}
  Types = {"f", "h", "fh"}
  Apps = {"a1", "a2"}
  R = 4
  OOOCap = 2
  Acts = {"NewAppender", "Append", "Commit", "Rollback"}
  Apis = {"v1", "v2"}
  Rej = {FALSE, TRUE}
  DelLo = {}
  DelHi = {}
  MaxPend = 4
  AllowKF = {"KF-C01-2"}
  KFInitOpts = FALSE
  KFV1Hist = FALSE
  PreT = {}
  TSActs = {"Commit"}
  Balanced = TRUE
  EmitMode = "none"
INVARIANTS C01_Exact InoSorted OohSorted EmitWalk
CHECK_DEADLOCK FALSE
