SPECIFICATION Spec
CONSTANTS
  Series = {"s1", "s2"}
  Times = {-3, -2, -1, 0, 1, 2, 3, 4, 5, 6, 8}
  Vals = {1, 2}
  Types = {"f", "h", "fh"}
  Apps = {"a1", "a2"}
  R = 4
  OOOCap = 2
  Acts = {"NewAppender", "Append", "Commit", "Rollback"}
  Apis = {"v1", "v2"}
  Rej = {FALSE, TRUE}
  DelRanges = {}
  MaxPend = 4
  EmitMode = "none"
INVARIANTS C01_Exact InoSorted OohSorted EmitWalk
CHECK_DEADLOCK FALSE
