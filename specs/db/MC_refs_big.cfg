SPECIFICATION Spec
CONSTANTS
  LabOrder <- LabABC
  R = 4
  Gaps = {1, 3}
  Kinds = {"zero", "own", "stale"}
  ScrapeSets = {}
  MaxClk = 9
  OOOBack = {2}
  Snap = TRUE
  FastOpts = {TRUE, FALSE}
  Fast0 = TRUE
  AllowKF = {}
  Acts = {"Scrape", "Rollback", "Cross", "OOO", "Mmap", "CompactHead", "CompactOOO", "EvictSel", "EvictStale", "Cut", "Tick", "Restart", "Crash"}
  Script <- NoScript
  MaxOps = 4
  EmitMode = "none"
VIEW View
INVARIANTS RightLabels NoReuse MapsAgree AllocAbove
PROPERTIES AppendRight
CHECK_DEADLOCK FALSE
