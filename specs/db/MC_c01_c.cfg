SPECIFICATION Spec
CONSTANTS
  Series = {"s1"}
  TOff = 5
  TimesRaw = {0, 2, 5, 8, 12}
  Vals = {1}
  Types = {"f", "h"}
  Apps = {"a1"}
  R = 4
  W = 0
  OOOCap = 2
  Acts = {"NewAppender", "Append", "Commit", "Delete", "Compact", "Reopen", "Mmap"}
  Apis = {"v2"}
  Rej = {FALSE}
  DelLo = {2}
  DelHi = {8}
  MaxPend = 2
  AllowKF = {"KF-C01-2"}
  KFInitOpts = FALSE
  KFV1Hist = FALSE
  MaxOps = 8
  PreT = {}
  TSActs = {"Commit"}
  Balanced = FALSE
  EmitMode = "class"
VIEW View
INVARIANTS C01_Exact InoSorted OohSorted
ACTION_CONSTRAINT Emit
CHECK_DEADLOCK FALSE
