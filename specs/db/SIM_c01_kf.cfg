SPECIFICATION Spec
CONSTANTS
  Series = {"s1", "s2"}
  TimesRaw = {0, 1, 2, 3, 4, 5, 6, 7, 8, 9, 11, 13, 14}
  Vals = {1, 2}
  Types = {"f", "h", "fh"}
  Apps = {"a1", "a2"}
  R = 4
  OOOCap = 2
  Acts = {"NewAppender", "Append", "Commit", "Rollback", "Delete", "Compact", "CompactOOO", "Reopen", "Mmap", "CleanTombstones", "CompactStale"}
  Apis = {"v1", "v2"}
  Rej = {FALSE}
  DelLo = {0, 3, 6, 9}
  DelHi = {2, 5, 8, 14}
  MaxPend = 3
  AllowKF = {"KF-C20-1", "KF-C20-2", "KF-C20-3", "KF-C20-4", "KF-C20-7", "KF-C01-2", "KF-C01-5"}
  KFInitOpts = FALSE
  KFV1Hist = FALSE
  PreT = {}
  TSActs = {"Commit"}
  Balanced = TRUE
  EmitMode = "none"
INVARIANTS C01_Exact InoSorted OohSorted EmitWalk
CHECK_DEADLOCK FALSE
