SPECIFICATION Spec
CONSTANTS
  LabOrder <- LabAB
  R = 4
  Gaps = {1, 2}
  Kinds = {"zero", "own", "stale"}
  ScrapeSets = {}
  MaxClk = 14
  OOOBack = {1, 2, 3}
  Snap = TRUE
  FastOpts = {TRUE, FALSE}
  Fast0 = TRUE
  AllowKF = {}
  Acts = {"Scrape", "Rollback", "Cross", "OOO", "Mmap", "CompactHead", "CompactOOO", "EvictSel", "EvictStale", "Cut", "Tick", "Restart", "Crash"}
  Script <- ScriptCkpt
  EmitMode = "none"
INVARIANTS RightLabels NoReuse MapsAgree AllocAbove EmitWalk
PROPERTIES AppendRight
CHECK_DEADLOCK FALSE
