SPECIFICATION Spec
CONSTANTS
  Series = {"s1", "s2"}
  TOff = 0
  TimesRaw = {0, 2, 5, 9}
  Vals = {1, 2}
  Types = {"f"}
  Apps = {"a1", "a2"}
  R = 4
  W = 3
  OOOCap = 2
  Acts = {"NewAppender", "Append", "Commit"}
  Apis = {"v2"}
  Rej = {FALSE}
  DelLo = {}
  DelHi = {}
  MaxPend = 1
  AllowKF = {"KF-C01-2", "KF-C01-5"}
  KFInitOpts = FALSE
  KFV1Hist = FALSE
  PreT = {4}
  TSActs = {"Commit"}
  Balanced = FALSE
  MaxOps = 6
  EmitMode = "all"
VIEW View
INVARIANTS C01_Exact InoSorted OohSorted
PROPERTIES C02_OnlyPendingStored
ACTION_CONSTRAINT Emit
CHECK_DEADLOCK FALSE
