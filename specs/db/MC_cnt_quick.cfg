SPECIFICATION CSpec
CONSTANTS
  Series = {"s1", "s2"}
  TOff = 0
  TimesRaw = {0, 1, 2, 9}
  Vals = {1, 2}
  Types = {"f", "h"}
  Apps = {"a1"}
  R = 4
  W = 0
  OOOCap = 2
  Acts = {"NewAppender", "Append", "Commit", "Rollback", "Compact", "Reopen", "EvictSel", "CompactStale"}
  Apis = {"v1"}
  Rej = {FALSE}
  DelLo = {0}
  DelHi = {9}
  MaxPend = 2
  AllowKF = {}
  KFInitOpts = FALSE
  KFV1Hist = FALSE
  MaxOps = 5
  PreT = {0, 1}
  TSActs = {}
  Balanced = FALSE
  EmitMode = "class"
VIEW CView
INVARIANTS CountersMatch AppendersZero NonNegative Consistent C01_Exact
ACTION_CONSTRAINT CEmit
CHECK_DEADLOCK FALSE
