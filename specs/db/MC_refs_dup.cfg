SPECIFICATION Spec
CONSTANTS
  LabOrder <- LabABC
  R = 4
  Gaps = {1}
  Kinds = {"zero"}
  ScrapeSets = {{"a", "b"}, {"a"}, {"b"}, {"c"}}
  MaxClk = 8
  OOOBack = {2}
  Snap = FALSE
  FastOpts = {FALSE}
  Fast0 = FALSE
  AllowKF = {}
  Acts = {"Scrape"}
  Script <- ScriptDup
  MaxOps = 7
  EmitMode = "class"
VIEW View
INVARIANTS RightLabels NoReuse MapsAgree AllocAbove
PROPERTIES AppendRight
ACTION_CONSTRAINT Emit
CHECK_DEADLOCK FALSE
