SPECIFICATION Spec
CONSTANTS
  Series = {"s1"}
  TOff = 0
  TimesRaw = {0, 2, 5, 6, 9, 11}
  Vals = {1}
  Types = {"f"}
  Apps = {"a1"}
  R = 4
  W = 0
  OOOCap = 2
  Acts = {"NewAppender", "Append", "Commit", "Import", "Reopen", "Compact"}
  Apis = {"v2"}
  Rej = {FALSE}
  DelLo = {}
  DelHi = {}
  MaxPend = 2
  AllowKF = {}
  KFInitOpts = FALSE
  KFV1Hist = FALSE
  PreT = {}
  TSActs = {"Import"}
  Balanced = FALSE
  MaxOps = 7
  EmitMode = "class"
VIEW View
INVARIANTS C01_Exact InoSorted OohSorted EmitCommitState
ACTION_CONSTRAINT Emit
CHECK_DEADLOCK FALSE
