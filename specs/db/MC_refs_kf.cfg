SPECIFICATION Spec
CONSTANTS
  LabOrder <- LabABC
  R = 4
  Gaps = {1}
  Kinds = {"zero"}
  ScrapeSets = {}
  MaxClk = 6
  OOOBack = {2}
  Snap = TRUE
  FastOpts = {TRUE, FALSE}
  Fast0 = TRUE
  AllowKF = {"KF-C22-1", "KF-C22-2"}
  Acts = {"Scrape"}
  Script <- ScriptKF
  MaxOps = 5
  EmitMode = "class"
VIEW View
INVARIANTS RightLabels NoReuse MapsAgree AllocAbove
PROPERTIES AppendRight
ACTION_CONSTRAINT Emit
CHECK_DEADLOCK FALSE
