SPECIFICATION Spec
CONSTANTS
  LabOrder <- LabAB
  R = 4
  Gaps = {1}
  Kinds = {"zero", "stale"}
  ScrapeSets = {}
  MaxClk = 6
  OOOBack = {2}
  Snap = TRUE
  FastOpts = {TRUE, FALSE}
  Fast0 = TRUE
  AllowKF = {}
  Acts = {"Scrape", "EvictSel", "EvictStale", "CompactHead", "Tick", "Restart", "Crash"}
  Script <- NoScript
  MaxOps = 4
  EmitMode = "class"
VIEW View
INVARIANTS RightLabels NoReuse MapsAgree AllocAbove
PROPERTIES AppendRight
ACTION_CONSTRAINT Emit
CHECK_DEADLOCK FALSE
