SPECIFICATION Spec
CONSTANTS
  Series = {"s1", "s2"}
  TOff = 0
  TimesRaw = {1, 2, 3, 9}
  Vals = {1}
  Types = {"f"}
  Apps = {"a1"}
  R = 4
  W = 9
  OOOCap = 2
  Acts = {"NewAppender", "Append", "Commit", "CompactOOO", "Delete", "CleanTombstones"}
  Apis = {"v2"}
  Rej = {FALSE}
  DelLo = {1}
  DelHi = {1}
  MaxPend = 2
  AllowKF = {"KF-C20-1", "KF-C20-2", "KF-C20-3", "KF-C20-4", "KF-C01-2"}
  KFInitOpts = FALSE
  KFV1Hist = FALSE
  PreT = {}
  TSActs = {"CleanTombstones"}
  Balanced = FALSE
  MaxOps = 11
  EmitMode = "class"
VIEW View
INVARIANTS C01_Exact InoSorted OohSorted EmitCommitState
ACTION_CONSTRAINT Emit
CHECK_DEADLOCK FALSE
