------------------------------ MODULE Counters ------------------------------
(***************************************************************************)
(* C52 -- the head's reported counters match its contents.                  *)
(*                                                                         *)
(* Extends Db.tla (the TSDB as a single-threaded client sees it) with       *)
(*   cs     the memSeries objects that exist in the head (a series exists   *)
(*          from the Append that looked it up -- getOrCreate runs before    *)
(*          the admission test -- until a garbage collection finds it       *)
(*          without chunks, or until it is evicted),                        *)
(*   lastS  per series the newest in-order sample the head has stored in    *)
(*          this process (memSeries.lastValue / lastHistogramValue /        *)
(*          lastFloatHistogramValue: what sampleState() reads),             *)
(*   cnt    the counters as the code maintains them by hand:                *)
(*            series   Head.numSeries        getOrCreateWithOptionalID ++,  *)
(*                                           gc / gcSeries / deleteSeriesByID -- *)
(*            stale    Head.numStaleSeries   updateStaleSeriesMetricOnAppend *)
(*            hist     Head.numNativeHistogramSeries  }  updateNativeHistogram- *)
(*            buckets  Head.numNativeHistogramBuckets }  MetricsOnAppend    *)
(*            apps     headMetrics.activeAppenders  Appender ++, Commit /   *)
(*                                           Rollback (also of an initAppender) -- *)
(* and one more action of tsdb.DB:                                         *)
(*   EvictSel(S)   DB.CompactSelectedSeries: block for the series, then     *)
(*                 Head.truncateSelectedSeries -> gcSeries                  *)
(*   (DB.CompactStaleHead is Db.tla's CompactStale.)                        *)
(*                                                                         *)
(* Every step of Db.tla is followed by the transcription of what the code   *)
(* does to the counters in that call (CUpdate).  Want is the recount from   *)
(* the contents.  The property: CountersMatch (cnt = Want in every state)   *)
(* and AppendersZero.  chist carries Want after every step: the values the  *)
(* harness compares with the head's gauges and with its own recount.        *)
(***************************************************************************)
EXTENDS Db

VARIABLES cs, lastS, cnt, chist

cvars == <<cs, lastS, cnt, chist>>
allvars == <<vars, cvars>>
CView == <<View, cs, lastS, cnt>>

NoneS == [t |-> NegInf, v |-> -1, ty |-> "none"]
IsStaleS(x) == x.ty # "none" /\ x.v = 0
IsHistS(x) == x.ty \in {"h", "fh"}
\* number of bucket entries of the histogram the harness appends for value symbol v: symbol 1 lists three entries (one of
\* them an explicitly empty bucket), the others two; a staleness marker has none
Bk(x) == IF IsHistS(x) /\ x.v # 0 THEN (IF x.v = 1 THEN 3 ELSE 2) ELSE 0

\* one in-order sample stored: commitFloats / commitHistograms / commitFloatHistograms (and appendWALFloat /
\* appendWALHistogram during replay): updateStaleSeriesMetricOnAppend(wasStale, isStale), then
\*   float:      if wasHistogram: updateNativeHistogramMetricsOnAppend(true, false, oldBuckets, 0)
\*   histogram:  updateNativeHistogramMetricsOnAppend(wasHistogram, true, oldBuckets, newBuckets)
Upd1(c1, old, x) ==
  IF IsHistS(x) THEN [c1 EXCEPT !.hist = @ + (IF IsHistS(old) THEN 0 ELSE 1), !.buckets = @ + Bk(x) - Bk(old)]
  ELSE IF IsHistS(old) THEN [c1 EXCEPT !.hist = @ - 1, !.buckets = @ - Bk(old)]
  ELSE c1
Upd(c, old, x) ==
  Upd1([c EXCEPT !.stale = @ + (IF ~IsStaleS(old) /\ IsStaleS(x) THEN 1 ELSE IF IsStaleS(old) /\ ~IsStaleS(x) THEN -1 ELSE 0)], old, x)

\* a series leaves the head (gc, gcSeries, deleteSeriesByID): its sampleState() is subtracted
Sub(c, old) ==
  [c EXCEPT !.series = @ - 1,
            !.stale = @ - (IF IsStaleS(old) THEN 1 ELSE 0),
            !.hist = @ - (IF IsHistS(old) THEN 1 ELSE 0),
            !.buckets = @ - Bk(old)]

\* the recount from the contents
Want(S, ls, ap) ==
  [series  |-> Cardinality(S),
   stale   |-> Cardinality({s \in S : IsStaleS(ls[s])}),
   hist    |-> Cardinality({s \in S : IsHistS(ls[s])}),
   buckets |-> LET RECURSIVE Sum(_)
                   Sum(X) == IF X = {} THEN 0 ELSE LET s == CHOOSE s \in X : TRUE IN Bk(ls[s]) + Sum(X \ {s})
               IN Sum(S),
   apps    |-> Cardinality({a \in Apps : ap[a].st # "closed"})]

HasData(i, oh, om, s) == i[s] # <<>> \/ oh[s] # <<>> \/ om[s] # {}

\* the newest in-order sample as the head knows it: a float staleness marker that follows a histogram is stored (and,
\* after a restart, replayed: appendWALFloat / latestInOrderValueType) as a staleness marker of the histogram's type
RECURSIVE TypedLast(_, _, _)
TypedLast(q, i, prevTy) ==
  IF i > Len(q) THEN NoneS
  ELSE LET x  == q[i]
           ty == IF x.ty = "f" /\ x.v = 0 /\ prevTy \in {"h", "fh"} THEN prevTy ELSE x.ty
       IN IF i = Len(q) THEN [t |-> x.t, v |-> x.v, ty |-> ty] ELSE TypedLast(q, i + 1, ty)

-----------------------------------------------------------------------------
(* Eviction of chosen series: DB.CompactSelectedSeries (Db.tla has DB.CompactStaleHead as CompactStale; this is the same
   transition for a caller-chosen set of series without out-of-order data) *)

Evictable(s) == s \in cs /\ ooh[s] = <<>> /\ oom[s] = {} /\ ino[s] # <<>>

EvictSel(S) ==
  /\ "EvictSel" \in Acts
  /\ NoOpenApp
  /\ hInit
  /\ S # {} /\ \A s \in S : Evictable(s)
  /\ blk' = [s \in Series |-> IF s \in S THEN blk[s] \cup {x \in Range(ino[s]) : x.t \notin hdel[s] /\ x.t >= hMin} ELSE blk[s]]
  /\ ino' = [s \in Series |-> IF s \in S THEN <<>> ELSE ino[s]]
  \* the full-range tombstone record makes replay forget the series and everything logged for it so far
  /\ wino' = [s \in Series |-> IF s \in S THEN <<>> ELSE wino[s]]
  /\ wgone' = wgone \cup UNION {{x.t : x \in Range(wino[s])} : s \in S}
  /\ hdel' = [s \in Series |-> IF s \in S THEN {} ELSE hdel[s]]
  /\ htomb' = [s \in Series |-> IF s \in S THEN {} ELSE htomb[s]]
  /\ UNCHANGED <<ooh, oom, oghost, hInit, hMin, hMax, minValid, blkMax, oooSeen, app, stored, kfset, kindv>>
  /\ Step([a |-> "EvictSel", S |-> SetToSeq(S), exp |-> ExpAll(stored)])

-----------------------------------------------------------------------------
(* What each call does to the counters *)

RECURSIVE FoldNew(_, _, _, _)
\* c, ls: counters and last samples so far; q: the in-order samples a Commit stored for series s, oldest first
FoldNew(c, ls, s, q) ==
  IF q = <<>> THEN <<c, ls>>
  ELSE FoldNew(Upd(c, ls[s], Head(q)), [ls EXCEPT ![s] = Head(q)], s, Tail(q))

RECURSIVE FoldSeries(_, _, _)
FoldSeries(c, ls, S) ==
  IF S = {} THEN <<c, ls>>
  ELSE LET s == CHOOSE s \in S : TRUE
           p == FoldNew(c, ls, s, SubSeq(ino'[s], Len(ino[s]) + 1, Len(ino'[s])))
       IN FoldSeries(p[1], p[2], S \ {s})

RECURSIVE SubAll(_, _)
SubAll(c, S) == IF S = {} THEN c ELSE LET s == CHOOSE s \in S : TRUE IN SubAll(Sub(c, lastS[s]), S \ {s})

Gone(S) == /\ cs' = cs \ S
           /\ lastS' = [s \in Series |-> IF s \in S THEN NoneS ELSE lastS[s]]
           /\ cnt' = SubAll(cnt, S)

CSame == cs' = cs /\ lastS' = lastS

CCase(r) ==
  CASE r.a = "NewAppender" -> CSame /\ cnt' = [cnt EXCEPT !.apps = @ + 1]
    [] r.a = "Append" ->
         \* the fast path (no out-of-order window, t below the appender's window) returns before the series is looked up
         LET creates == ~(W = 0 /\ r.t < r.mv) /\ r.s \notin cs IN
         /\ cs' = IF creates THEN cs \cup {r.s} ELSE cs
         /\ lastS' = lastS
         /\ cnt' = IF creates THEN [cnt EXCEPT !.series = @ + 1] ELSE cnt
    [] r.a = "Commit" ->
         LET p == FoldSeries(cnt, lastS, {s \in Series : Len(ino'[s]) > Len(ino[s])}) IN
         /\ cs' = cs /\ lastS' = p[2] /\ cnt' = [p[1] EXCEPT !.apps = @ - 1]
    [] r.a = "Rollback" -> CSame /\ cnt' = [cnt EXCEPT !.apps = @ - 1]
    [] r.a = "Compact" ->
         \* truncateMemory -> gc only when a head block was cut; series without chunks go
         IF r.nblocks > 0 THEN Gone({s \in cs : ~HasData(ino', ooh', oom', s)}) ELSE CSame /\ cnt' = cnt
    [] r.a = "CompactOOO" ->
         \* truncateOOO -> gc only when out-of-order chunks were compacted
         IF \E s \in Series : OOOAll(s) # {} THEN Gone({s \in cs : ~HasData(ino', ooh', oom', s)}) ELSE CSame /\ cnt' = cnt
    [] r.a \in {"EvictSel", "CompactStale"} -> Gone({s \in Series : ino[s] # <<>> /\ ino'[s] = <<>>})
    [] r.a = "Reopen" ->
         \* replay rebuilds every series that still has data and counts as it appends
         /\ cs' = {s \in Series : HasData(ino', ooh', oom', s)}
         /\ lastS' = [s \in Series |-> IF ino'[s] # <<>> THEN TypedLast(ino'[s], 1, "none") ELSE NoneS]
         /\ cnt' = Want(cs', lastS', app')
    [] OTHER -> CSame /\ cnt' = cnt

\* a Commit: how many of the appender's pending samples were not stored (rejected by the commit-time re-check or exact
\* duplicates) -- lets the harness recognise KF-C52-3 by its shape
Dropped(r) ==
  IF r.a # "Commit" THEN 0
  ELSE LET RECURSIVE Sum(_)
           Sum(X) == IF X = {} THEN 0
                     ELSE LET s == CHOOSE s \in X : TRUE IN
                          (Len(ino'[s]) - Len(ino[s])) + Cardinality((Range(ooh'[s]) \cup oom'[s]) \ (Range(ooh[s]) \cup oom[s])) + Sum(X \ {s})
       IN Len(app[r.app].pend) - Sum(Series)

CUpdate ==
  IF hist' = hist THEN UNCHANGED cvars
  ELSE /\ CCase(hist'[Len(hist')])
       /\ chist' = Append(chist, Want(cs', lastS', app') @@ [dropped |-> Dropped(hist'[Len(hist')])])

\* (a history may start on a head that already holds samples: Db.tla PreT)
CInit == /\ Init
         /\ cs = {s \in Series : ino[s] # <<>>}
         /\ lastS = [s \in Series |-> IF ino[s] # <<>> THEN TypedLast(ino[s], 1, "none") ELSE NoneS]
         /\ cnt = Want(cs, lastS, app)
         /\ chist = <<cnt @@ [dropped |-> 0]>>

CNext == /\ \/ Next
            \/ /\ nops < MaxOps /\ kindv = "any"
               /\ \E S \in (SUBSET Series) \ {{}} : EvictSel(S)
         /\ CUpdate

CSpec == CInit /\ [][CNext]_allvars

-----------------------------------------------------------------------------
(* Properties *)

\* the hand-maintained counters equal the recount of the contents
CountersMatch == cnt = Want(cs, lastS, app)
\* once every appender has committed or rolled back the active-appender count is zero
AppendersZero == NoOpenApp => cnt.apps = 0
NonNegative == cnt.series >= 0 /\ cnt.stale >= 0 /\ cnt.hist >= 0 /\ cnt.buckets >= 0 /\ cnt.apps >= 0
\* only series that exist carry a last sample; series with data exist
Consistent == /\ \A s \in Series : s \notin cs => lastS[s] = NoneS
              /\ \A s \in Series : HasData(ino, ooh, oom, s) => s \in cs

-----------------------------------------------------------------------------
(* Emission: the behaviour is Db's history plus the predicted counters after every step *)
Beh == [h |-> hist', c |-> chist']
CClass ==
  LET r == hist'[Len(hist')] IN
  IF r.a = "Commit" THEN <<r.a, app[r.app].st, Len(app[r.app].pend),
                           \* per series: the state before, then type / staleness / bucket count of every sample stored, in order
                           {<<IsStaleS(lastS[s]), IsHistS(lastS[s]), Bk(lastS[s]),
                              [i \in 1..(Len(ino'[s]) - Len(ino[s])) |->
                                 LET x == ino'[s][Len(ino[s]) + i] IN <<x.ty, x.v = 0, Bk(x)>>]>> :
                               s \in {s \in Series : Len(ino'[s]) > Len(ino[s])}},
                           ooh' # ooh, r.kf>>
  ELSE IF r.a \in {"Compact", "CompactOOO", "EvictSel", "CompactStale"} THEN
       <<r.a, {<<IsStaleS(lastS[s]), IsHistS(lastS[s]), ino[s] = <<>> >> : s \in cs \ cs'}, cs' = {}, Cardinality(cs')>>
  ELSE IF r.a = "Reopen" THEN <<r.a, Cardinality(cs \ cs'), cnt.stale, cnt'.stale, cnt.hist, cnt'.hist, lastS' = lastS>>
  ELSE IF r.a = "Append" THEN <<r.a, r.ret, r.s \in cs, r.s \in cs', app[r.app].st>>
  ELSE IF r.a = "Rollback" THEN <<r.a, app[r.app].st, Len(app[r.app].pend), app[r.app].touched \subseteq cs>>
  ELSE <<r.a>>

CEmit ==
  CASE EmitMode = "none" -> TRUE
    [] hist' = hist -> TRUE
    [] EmitMode = "all" -> PrintT("@@TR " \o ToJson(Beh))
    [] OTHER -> LET cl == CClass IN
                \/ cl \in TLCGet(1)
                \/ /\ TLCSet(1, TLCGet(1) \cup {cl})
                   /\ PrintT("@@TR " \o ToJson(Beh))
CEmitWalk == nops <= MaxOps \/ PrintT("@@TR " \o ToJson([h |-> hist, c |-> chist]))
=============================================================================
