SPECIFICATION Spec
CONSTANTS
  LabOrder <- LabABC
  R = 4
  Gaps = {1}
  Kinds = {"zero"}
  ScrapeSets = {{"a", "b"}, {"a"}, {"c"}}
  MaxClk = 9
  OOOBack = {2}
  Snap = FALSE
  FastOpts = {FALSE}
  Fast0 = FALSE
  AllowKF = {"KF-C22-1"}
  Acts = {"Scrape"}
  Script <- ScriptH10
  MaxOps = 12
  EmitMode = "class"
VIEW View
INVARIANTS RightLabels NoReuse MapsAgree AllocAbove
ACTION_CONSTRAINT Emit
CHECK_DEADLOCK FALSE
