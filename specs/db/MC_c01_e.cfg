SPECIFICATION Spec
CONSTANTS
  Series = {"s1", "s2"}
  TOff = 6
  TimesRaw = {0, 3, 5, 8, 11}
  Vals = {1}
  Types = {"f"}
  Apps = {"a1"}
  R = 4
  W = 0
  OOOCap = 2
  Acts = {"NewAppender", "Append", "Commit", "CompactStale", "Reopen", "Delete"}
  Apis = {"v2"}
  Rej = {FALSE}
  DelLo = {3}
  DelHi = {5}
  MaxPend = 2
  AllowKF = {}
  KFInitOpts = FALSE
  KFV1Hist = FALSE
  PreT = {}
  TSActs = {"Commit"}
  Balanced = FALSE
  MaxOps = 7
  EmitMode = "class"
VIEW View
INVARIANTS C01_Exact InoSorted OohSorted
ACTION_CONSTRAINT Emit
CHECK_DEADLOCK FALSE
