SPECIFICATION Spec
CONSTANTS
  Series = {"s1"}
  TOff = 0
  TimesRaw = {0, 1, 2, 4, 5}
  Vals = {1, 2}
  Types = {"f", "h"}
  Apps = {"a1"}
  R = 4
  W = 3
  OOOCap = 2
  Acts = {"NewAppender", "Append", "Commit", "Rollback"}
  Apis = {"v1", "v2"}
  Rej = {FALSE, TRUE}
  DelLo = {}
  DelHi = {}
  MaxPend = 2
  MaxOps = 7
  AllowKF = {"KF-C01-2"}
  KFInitOpts = FALSE
  KFV1Hist = FALSE
  PreT = {}
  TSActs = {"Commit"}
  Balanced = FALSE
  EmitMode = "class"
VIEW View
INVARIANTS C01_Exact InoSorted OohSorted EmitCommitState
PROPERTIES C02_OnlyPendingStored
ACTION_CONSTRAINT Emit
CHECK_DEADLOCK FALSE
