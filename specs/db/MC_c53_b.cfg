SPECIFICATION Spec
CONSTANTS
  Series = {"s1"}
  TOff = 0
  TimesRaw = {0, 1, 3, 4, 7, 9}
  Vals = {1, 2}
  Types = {"f"}
  Apps = {"a1"}
  R = 4
  W = 5
  OOOCap = 2
  Acts = {"NewAppender", "Append", "Commit", "Delete", "Compact", "CompactOOO", "Reopen"}
  Apis = {"v1"}
  Rej = {FALSE}
  DelLo = {1, 3}
  DelHi = {3, 7}
  MaxPend = 2
  AllowKF = {}
  KFInitOpts = FALSE
  KFV1Hist = FALSE
  MaxOps = 9
  PreT = {}
  TSActs = {"Commit"}
  Balanced = FALSE
  EmitMode = "class"
VIEW View
INVARIANTS C01_Exact InoSorted OohSorted
ACTION_CONSTRAINT Emit
CHECK_DEADLOCK FALSE
