--------------------------------- MODULE Db ---------------------------------
(***************************************************************************)
(* Single-node TSDB: head (in-order chunks, out-of-order chunks), appenders *)
(* with snapshotted admission windows, commit-time re-check, persisted      *)
(* blocks, deletion, head / out-of-order compaction, close and reopen.      *)
(*                                                                         *)
(* One action per public call of tsdb.DB as a single-threaded client sees   *)
(* it (the return of the call is the linearisation point).  The concurrency *)
(* inside Commit / compaction is the subject of Isolation.tla and           *)
(* Truncation.tla; crash points of Crash.tla.                               *)
(*                                                                         *)
(*   NewAppender(a, api, rej)   Head.Appender / AppenderV2 (+SetOptions)     *)
(*   Append(a, s, t, v, ty)     Append / AppendHistogram / v2 Append         *)
(*   Commit(a), Rollback(a)     headAppenderBase.Commit / Rollback           *)
(*   Delete(S, lo, hi)          DB.Delete                                    *)
(*   Compact                    DB.Compact (head loop, OOO head, blocks)     *)
(*   CompactOOO                 DB.CompactOOOHead                            *)
(*   CleanTombstones            DB.CleanTombstones                           *)
(*   Mmap                       DB.ForceHeadMMap                             *)
(*   Reopen                     DB.Close ; tsdb.Open on the same directory   *)
(*   CompactStale               DB.CompactStaleHead                          *)
(*   Import(lo, hi)             a backfilled block placed in the data dir    *)
(*                                                                         *)
(* Time is a small integer domain; the harness maps t |-> Unit*(t + R*k),    *)
(* so block boundaries (multiples of R) and all window arithmetic are       *)
(* preserved.  Values are symbols 1..n; 0 is the staleness marker.          *)
(* Types: "f" float, "h" integer histogram, "fh" float histogram.           *)
(***************************************************************************)
EXTENDS Integers, Sequences, FiniteSets, TLC, Json

CONSTANTS Series, TimesRaw, TOff, Vals, Types, Apps,
          R,          \* head chunk range = minimum block duration (even, > 0)
          W,          \* out-of-order time window (0 = disabled)
          OOOCap,     \* OutOfOrderCapMax
          Acts,       \* names of the enabled actions
          Apis,       \* subset of {"v1","v2"}
          Rej,        \* subset of BOOLEAN: DiscardOutOfOrder / RejectOutOfOrder option values
          DelLo, DelHi,  \* delete ranges are <<lo, hi>> with lo \in DelLo, hi \in DelHi, lo <= hi (raw times)
          MaxPend,    \* max samples pending per appender
          AllowKF,     \* ids of known findings whose *trigger* may be generated.  A step that triggers a finding not
                       \*   in AllowKF is disabled; once triggered the id is kept in kfset and the content invariant
                       \*   is waived for that history (the harness reports later mismatches under that id):
                       \*   "KF-C20-1" Delete over out-of-order head samples (Head.Delete clamps to the in-order range,
                       \*              OOOCompactionHead carries no tombstones)
                       \*   "KF-C20-2" Delete of a sample that is only in blocks but would be re-appended by WAL replay
                       \*   "KF-C20-4" CleanTombstones / Compact while a deleted sample below the newest in-order block's end is
                       \*              still in the WAL (dropping the emptied block lets a restart replay it)
                       \*   "KF-C20-7" a Compact that truncates tombstoned head samples without writing a block over them
                       \*   "KF-C20-3" a Commit that stores an out-of-order sample inside an older head tombstone interval
                       \*   "KF-C01-5" a Commit that logs samples of a series whose series record may still be held back by
                       \*              another open appender (the record is logged later; replay drops the samples)
                       \*   "KF-C01-2" a Commit whose WAL order differs from its commit order (a float staleness marker
                       \*              deferred behind a later sample of the same series): a restart replays the marker
          KFInitOpts,  \* TRUE: model the code's deviation KF-C02-1 (SetOptions on an initAppender is dropped)
          KFV1Hist,    \* TRUE: model the code's deviation KF-C02-2 (v1 AppendHistogram ignores DiscardOutOfOrder)
          PreT,        \* raw times at which series "s1" already holds committed float samples of value 1 when the
                       \*   history starts (saves the three steps needed to create them; {} = empty DB)
          TSActs,      \* actions after which one witness per distinct state is emitted (@@TS lines)
          Balanced,    \* TRUE (simulation): first draw the kind of the next action uniformly, then the action
          MaxOps, EmitMode

VARIABLES
  ino,      \* [Series -> Seq(Sample)]  in-order samples in the head, ascending t
  ooh,      \* [Series -> Seq(Sample)]  current out-of-order head chunk, ascending t
  oom,      \* [Series -> SUBSET Sample] samples in m-mapped out-of-order chunks
  oghost,   \* [Series -> SUBSET Sample] out-of-order samples already compacted into blocks whose m-mapped chunks are
            \*   still in the head-chunk files: loadMmappedChunks brings them back at the next start (harmless
            \*   duplicates of block data, until that data is deleted: KF-C20-2)
  htomb,    \* [Series -> SUBSET (Int \X Int)] head tombstone intervals as Head.Delete records them (clamped to the
            \*   head's and the series' in-order range); only used to recognise the trigger of KF-C20-3
  hdel,     \* [Series -> SUBSET Times] timestamps of in-order head samples covered by a head tombstone
  wino,     \* [Series -> Seq(Sample)] what a WAL replay would append in order: the running-maximum
            \*   subsequence of every sample logged for the series (log() writes all samples accepted at
            \*   Append, also those later stored out-of-order or dropped by the commit-time re-check)
  wgone,    \* timestamps of logged samples whose series was later evicted with a full-range tombstone record: a WAL
            \*   replay appends and then removes them, but they still widen the head's minTime/maxTime
  hInit, hMin, hMax, minValid,   \* head initialised?, minTime, maxTime, minValidTime
  blk,      \* [Series -> SUBSET Sample] samples persisted in blocks (tombstoned ones removed)
  blkMax,   \* max MaxTime over blocks that are not from out-of-order compaction (NegInf if none)
  oooSeen,  \* db.oooWasEnabled
  app,      \* [Apps -> appender record]
  kfset,    \* ghost: ids of known findings triggered so far in this history
  stored,   \* ghost: [Series -> SUBSET Sample] every sample stored by a commit and not deleted since
  kindv,    \* "any" or the action kind drawn for the next step (simulation balancing only)
  nops, hist

hvars == <<ino, ooh, oom, oghost, hdel, htomb, wino, wgone, hInit, hMin, hMax, minValid>>
vars  == <<ino, ooh, oom, oghost, hdel, htomb, wino, wgone, hInit, hMin, hMax, minValid, blk, blkMax, oooSeen, app, stored, kfset, kindv, nops, hist>>
View  == <<ino, ooh, oom, oghost, hdel, htomb, wino, wgone, hInit, hMin, hMax, minValid, blk, blkMax, oooSeen, app, stored, kfset, kindv>>

\* model times are TimesRaw shifted down by TOff (cfg files cannot write negative numbers)
Times == {x - TOff : x \in TimesRaw}
PosInf == 1000
NegInf == -1000
Max2(a, b) == IF a >= b THEN a ELSE b
Min2(a, b) == IF a <= b THEN a ELSE b
SetMax(S) == CHOOSE x \in S : \A y \in S : y <= x
SetMin(S) == CHOOSE x \in S : \A y \in S : x <= y
Last(q) == q[Len(q)]
Range(q) == {q[i] : i \in 1..Len(q)}

Sample == [t : Times, v : Vals \cup {0}, ty : Types]
NoApp == [st |-> "closed", api |-> "v1", rej |-> FALSE, ini |-> FALSE, mv |-> 0, hm |-> 0,
          pend |-> <<>>, types |-> [s \in Series |-> "none"], nb |-> 0, touched |-> {}]

\* floor division / Go's truncating division
FloorDiv(a, b) == a \div b                       \* TLA+ \div floors
TruncDiv(a, b) == IF a >= 0 THEN a \div b ELSE -((-a) \div b)
\* rangeForTimestamp(t, width) in the code uses Go's truncating division
RangeForTs(t) == TruncDiv(t, R) * R + R

-----------------------------------------------------------------------------
(* Admission: memSeries.appendable / appendableHistogram / appendableFloatHistogram *)

\* returns <<isOOO, class>>, class \in {"ok","dup","tooold","oob","ooo"}
Appendable(inoS, t, v, ty, hm, mv) ==
  LET inWin == t >= mv
      l     == IF inoS = <<>> THEN [t |-> NegInf, v |-> 0, ty |-> "f"] ELSE Last(inoS)
      fall  == IF W > 0 /\ t >= hm - W THEN <<TRUE, "ok">>
               ELSE IF W > 0 THEN <<TRUE, "tooold">>
               ELSE IF t < mv THEN <<FALSE, "oob">>
               ELSE <<FALSE, "ooo">>
  IN IF inWin /\ inoS = <<>> THEN <<FALSE, "ok">>          \* no head chunk: freshly created series
     ELSE IF inWin /\ t > l.t THEN <<FALSE, "ok">>
     ELSE IF inWin /\ t = l.t THEN
          (IF l.ty = ty /\ l.v = v THEN <<FALSE, "ok">>    \* identical newest sample: accepted as a no-op
           ELSE <<FALSE, "dup">>)
     ELSE fall

-----------------------------------------------------------------------------
(* Queries: what DB.Querier returns for series s, as t |-> set of allowed <<v, ty>> *)

HeadSamples(s) == {x \in Range(ino[s]) : x.t >= hMin /\ x.t \notin hdel[s]} \cup Range(ooh[s]) \cup oom[s]
Physical(s)    == HeadSamples(s) \cup blk[s]
\* a staleness marker is a staleness marker whatever chunk type carries it (a converted marker is
\* logged as a float and comes back as a float after a restart)
Norm(x)        == IF x.v = 0 THEN <<0, "stale">> ELSE <<x.v, x.ty>>
Result(s)      == [t \in {x.t : x \in Physical(s)} |-> {Norm(x) : x \in {y \in Physical(s) : y.t = t}}]
Expected(s)    == [t \in {x.t : x \in stored[s]}   |-> {Norm(x) : x \in {y \in stored[s] : y.t = t}}]

\* JSON-friendly: ascending list of [t, alts] where alts = list of [v, ty]
SortedTimes(S) == LET RECURSIVE Srt(_)
                      Srt(X) == IF X = {} THEN <<>> ELSE LET m == SetMin(X) IN <<m>> \o Srt(X \ {m})
                  IN Srt(S)
SetToSeq(S) == LET RECURSIVE Sq(_)
                   Sq(X) == IF X = {} THEN <<>> ELSE LET m == CHOOSE x \in X : TRUE IN <<m>> \o Sq(X \ {m})
               IN Sq(S)
ExpList(st, s) == LET ts == SortedTimes({x.t : x \in st[s]}) IN
                  [i \in 1..Len(ts) |-> [t |-> ts[i],
                       alts |-> SetToSeq({[v |-> x.v, ty |-> x.ty] : x \in {y \in st[s] : y.t = ts[i]}})]]
ExpAll(st) == [s \in Series |-> ExpList(st, s)]

-----------------------------------------------------------------------------
PreSeq == LET ts == SortedTimes({x - TOff : x \in PreT}) IN [i \in 1..Len(ts) |-> [t |-> ts[i], v |-> 1, ty |-> "f"]]
PreOf(s) == IF s = "s1" THEN PreSeq ELSE <<>>

Init ==
  /\ ino = [s \in Series |-> PreOf(s)] /\ ooh = [s \in Series |-> <<>>] /\ oom = [s \in Series |-> {}]
  /\ oghost = [s \in Series |-> {}]
  /\ hdel = [s \in Series |-> {}] /\ htomb = [s \in Series |-> {}] /\ wino = [s \in Series |-> PreOf(s)] /\ wgone = {}
  /\ hInit = (PreT # {})
  /\ hMin = IF PreT = {} THEN PosInf ELSE SetMin(PreT) - TOff
  /\ hMax = IF PreT = {} THEN NegInf ELSE SetMax(PreT) - TOff
  /\ minValid = NegInf
  /\ blk = [s \in Series |-> {}] /\ blkMax = NegInf /\ oooSeen = (W > 0)
  /\ app = [a \in Apps |-> NoApp]
  /\ stored = [s \in Series |-> Range(PreOf(s))]
  /\ kfset = {}
  /\ kindv = "any"
  /\ nops = 0
  /\ hist = <<[a |-> "Init", R |-> R, W |-> W, cap |-> OOOCap, pre |-> SetToSeq({x - TOff : x \in PreT})]>>
  /\ TLCSet(1, {})

Step(rec) == /\ nops' = nops + 1
             /\ hist' = Append(hist, rec)

AppMinValid == Max2(hMax - (R \div 2), minValid)     \* Head.appendableMinValidTime

NewAppender(a, api, rej) ==
  /\ "NewAppender" \in Acts
  /\ app[a].st = "closed"
  /\ app' = [app EXCEPT ![a] =
       IF hInit THEN [NoApp EXCEPT !.st = "open", !.api = api, !.rej = rej, !.mv = AppMinValid, !.hm = hMax]
       ELSE [NoApp EXCEPT !.st = "init", !.api = api, !.rej = rej, !.ini = TRUE]]
  /\ UNCHANGED <<hvars, blk, blkMax, oooSeen, stored, kfset>>
  /\ Step([a |-> "NewAppender", app |-> a, api |-> api, rej |-> rej, init |-> ~hInit])

\* getCurrentBatch: returns <<new batch count, new typesInBatch>> for a sample of type ty on series s
Batch(ap, s, ty) ==
  LET fresh == [x \in Series |-> IF x = s /\ ty # "f" THEN ty ELSE "none"]
      prev  == ap.types[s]
  IN IF ap.nb = 0 THEN <<1, fresh>>
     ELSE IF prev = ty THEN <<ap.nb, ap.types>>
     ELSE IF prev = "none" /\ ty = "f" THEN <<ap.nb, ap.types>>
     ELSE IF ty = "f" THEN <<ap.nb + 1, fresh>>
     ELSE IF prev = "none" THEN <<ap.nb, [ap.types EXCEPT ![s] = ty]>>
     ELSE <<ap.nb + 1, fresh>>

AppendSample(a, s, t, v, ty) ==
  /\ "Append" \in Acts
  /\ app[a].st \in {"init", "open"}
  /\ Len(app[a].pend) < MaxPend
  /\ (v = 0 => TRUE)
  /\ LET \* initAppender: the first append initialises the head's time range, then snapshots
         init == app[a].st = "init" /\ ~hInit
         hMax1 == IF init THEN t ELSE hMax
         hMin1 == IF init THEN t ELSE hMin
         ap0  == IF app[a].st = "init"
                 THEN [app[a] EXCEPT !.st = "open", !.mv = Max2(hMax1 - (R \div 2), minValid), !.hm = hMax1]
                 ELSE app[a]
         \* stale float re-typed from the types seen in this batch (headAppender.Append)
         ty1  == IF ty = "f" /\ v = 0 /\ ap0.types[s] \in {"h", "fh"} THEN ap0.types[s] ELSE ty
         fast == W = 0 /\ t < ap0.mv
         res  == Appendable(ino[s], t, v, ty1, ap0.hm, ap0.mv)
         \* what the documented rules give (storage.AppendOptions.DiscardOutOfOrder / AOptions.RejectOutOfOrder:
         \* "an OOO append MUST be rejected with ErrOutOfOrderSample")
         Cls(rej) == IF fast THEN "oob"
                     ELSE IF ap0.api = "v1" THEN (IF res[2] = "ok" /\ res[1] /\ rej THEN "ooo" ELSE res[2])
                     ELSE (IF res[1] /\ rej THEN "ooo" ELSE res[2])
         pcls == Cls(ap0.rej)
         \* named deviations of the code (known findings): the option is lost on an initAppender (v1), and
         \* v1 AppendHistogram never looks at it
         effRej == /\ ap0.rej
                   /\ ~(KFInitOpts /\ ap0.api = "v1" /\ ap0.ini)
                   /\ ~(KFV1Hist /\ ap0.api = "v1" /\ ty1 # "f")
         cls  == Cls(effRej)
         bt   == Batch(ap0, s, ty1)
         \* getOrCreate runs before the admission test: the series exists in memory from here on, and its
         \* series record is written by whichever appender created it, at that appender's Commit or Rollback
         apt  == IF fast THEN ap0 ELSE [ap0 EXCEPT !.touched = @ \cup {s}]
         ap1  == IF cls = "ok"
                 THEN [apt EXCEPT !.pend = Append(@, [s |-> s, t |-> t, v |-> v, ty |-> ty1, b |-> bt[1]]),
                                  !.nb = bt[1], !.types = bt[2]]
                 ELSE apt
     IN /\ app' = [app EXCEPT ![a] = ap1]
        /\ hInit' = (hInit \/ init)
        /\ hMax' = hMax1 /\ hMin' = hMin1
        /\ UNCHANGED <<ino, ooh, oom, oghost, hdel, htomb, wino, wgone, minValid, blk, blkMax, oooSeen, stored, kfset>>
        /\ Step([a |-> "Append", app |-> a, s |-> s, t |-> t, v |-> v, ty |-> ty, ret |-> cls, pret |-> pcls,
                 kf |-> IF cls = pcls THEN "" ELSE IF KFInitOpts /\ ap0.api = "v1" /\ ap0.ini THEN "KF-C02-1" ELSE "KF-C02-2",
                 ooo |-> (~fast /\ res[1]), mv |-> ap0.mv, hm |-> ap0.hm])

-----------------------------------------------------------------------------
(* Commit: log(), then per batch commitFloats, commitHistograms, commitFloatHistograms,
   each sample re-checked against the series as it is *now*, with the appender's snapshot. *)

Kind(ty) == IF ty = "f" THEN 1 ELSE IF ty = "h" THEN 2 ELSE 3
\* order of processing: by batch, then floats, histograms, float histograms, each in append order
OrderPend(pend, nb) ==
  LET RECURSIVE B(_)
      B(b) == IF b > nb THEN <<>>
              ELSE SelectSeq(pend, LAMBDA x : x.b = b /\ x.ty = "f") \o
                   SelectSeq(pend, LAMBDA x : x.b = b /\ x.ty = "h") \o
                   SelectSeq(pend, LAMBDA x : x.b = b /\ x.ty = "fh") \o B(b + 1)
  IN B(1)

InsertSorted(q, x) == SelectSeq(q, LAMBDA y : y.t < x.t) \o <<x>> \o SelectSeq(q, LAMBDA y : y.t > x.t)

\* st = [ino, ooh, oom, stored, imin, imax] ; work = remaining samples
RECURSIVE CommitFold(_, _, _, _)
CommitFold(work, st, hm, mv) ==
  IF work = <<>> THEN st
  ELSE
   LET x    == work[1]
       rest == Tail(work)
       s    == x.s
       lastTy == IF st.ino[s] = <<>> THEN "f" ELSE Last(st.ino[s]).ty
       \* a float staleness marker whose series currently ends in a histogram is converted and
       \* processed at the end of this batch's histograms (commitFloats)
       conv == x.ty = "f" /\ x.v = 0 /\ lastTy \in {"h", "fh"} /\ ~("cv" \in DOMAIN x)
   IN IF conv THEN
        LET y   == [s |-> s, t |-> x.t, v |-> 0, ty |-> lastTy, b |-> x.b, cv |-> TRUE]
            k   == Kind(lastTy)
            pre == SelectSeq(rest, LAMBDA z : z.b = x.b /\ Kind(z.ty) <= k)
            suf == SelectSeq(rest, LAMBDA z : ~(z.b = x.b /\ Kind(z.ty) <= k))
        IN CommitFold(pre \o <<y>> \o suf, st, hm, mv)
      ELSE
        LET res == Appendable(st.ino[s], x.t, x.v, x.ty, hm, mv)
            smp == [t |-> x.t, v |-> x.v, ty |-> x.ty]
        IN IF res[2] # "ok" THEN CommitFold(rest, st, hm, mv)
           ELSE IF res[1] THEN
             \* memSeries.insert into the out-of-order head chunk (cut + m-map when full)
             LET full == Len(st.ooh[s]) >= OOOCap
                 cur  == IF full THEN <<>> ELSE st.ooh[s]
                 oom1 == IF full THEN [st.oom EXCEPT ![s] = @ \cup Range(st.ooh[s])] ELSE st.oom
                 dupT == \E y \in Range(cur) : y.t = x.t
             IN IF dupT THEN CommitFold(rest, [st EXCEPT !.ooh = [@ EXCEPT ![s] = cur], !.oom = oom1], hm, mv)
                ELSE CommitFold(rest, [st EXCEPT !.ooh = [@ EXCEPT ![s] = InsertSorted(cur, smp)], !.oom = oom1,
                                                 !.stored = [@ EXCEPT ![s] = @ \cup {smp}],
                                                 !.omin = Min2(@, x.t), !.omax = Max2(@, x.t)], hm, mv)
           ELSE
             \* memSeries.append: appendPreprocessor drops t <= newest in-order t (exact duplicate no-op)
             IF st.ino[s] # <<>> /\ Last(st.ino[s]).t >= x.t THEN CommitFold(rest, st, hm, mv)
             ELSE CommitFold(rest, [st EXCEPT !.ino = [@ EXCEPT ![s] = Append(@, smp)],
                                              !.stored = [@ EXCEPT ![s] = @ \cup {smp}],
                                              !.imin = Min2(@, x.t), !.imax = Max2(@, x.t)], hm, mv)

RECURSIVE LogFold(_, _)
LogFold(work, w) ==
  IF work = <<>> THEN w
  ELSE LET x == work[1] IN
       IF w[x.s] = <<>> \/ x.t > Last(w[x.s]).t
       THEN LET \* WAL replay re-types a float staleness marker after a histogram sample like Commit does
                ty1 == IF x.ty = "f" /\ x.v = 0 /\ w[x.s] # <<>> /\ Last(w[x.s]).ty \in {"h", "fh"}
                       THEN Last(w[x.s]).ty ELSE x.ty
            IN LogFold(Tail(work), [w EXCEPT ![x.s] = Append(@, [t |-> x.t, v |-> x.v, ty |-> ty1])])
       ELSE LogFold(Tail(work), w)

\* (TLC re-evaluates a zero-arity LET definition at every reference but evaluates operator arguments once, so the
\* expensive folds are passed down as arguments.)
CommitC(a, ap, st1, w1, diff, hid, orphan) ==
  LET ks == (IF diff THEN {"KF-C01-2"} ELSE {}) \cup (IF hid THEN {"KF-C20-3"} ELSE {})
            \cup (IF orphan THEN {"KF-C01-5"} ELSE {})
  IN /\ ks \subseteq AllowKF
     /\ ino' = st1.ino /\ ooh' = st1.ooh /\ oom' = st1.oom /\ stored' = st1.stored
     /\ wino' = w1
     /\ hdel' = hdel /\ htomb' = htomb /\ oghost' = oghost /\ wgone' = wgone
     /\ hMin' = Min2(hMin, st1.imin) /\ hMax' = Max2(hMax, st1.imax)      \* updateMinMaxTime
     /\ app' = [app EXCEPT ![a] = NoApp]
     /\ UNCHANGED <<hInit, minValid, blk, blkMax, oooSeen>>
     /\ kfset' = kfset \cup ks
     /\ Step([a |-> "Commit", app |-> a, exp |-> ExpAll(st1.stored),
              kf |-> IF orphan THEN "KF-C01-5" ELSE IF hid THEN "KF-C20-3" ELSE IF diff THEN "KF-C01-2" ELSE ""])

CommitB(a, ap, st1, w1) ==
  LET Key(X) == {<<x.t, Norm(x)>> : x \in {y \in X : y.t >= blkMax}} IN
  CommitC(a, ap, st1, w1,
    \* would a WAL replay rebuild a different head than the one this commit leaves?
    \E s \in Series : LET O == Range(st1.ooh[s]) \cup st1.oom[s] IN
                       Key(Range(w1[s]) \cup O) # Key(Range(st1.ino[s]) \cup O),
    \* an out-of-order sample stored under an older head tombstone of its series
    \E s \in Series : \E x \in (Range(st1.ooh[s]) \cup st1.oom[s]) \ (Range(ooh[s]) \cup oom[s]) :
                       \E iv \in htomb[s] : x.t >= iv[1] /\ x.t <= iv[2],
    \* a sample logged while another open appender may hold the not yet logged series record of its series
    \* (over-approximation: that appender has looked the series up)
    \E i \in 1..Len(ap.pend) : \E b \in Apps \ {a} : app[b].st = "open" /\ ap.pend[i].s \in app[b].touched)

CommitA(a, ap, logged) ==
  LET st0 == [ino |-> ino, ooh |-> ooh, oom |-> oom, stored |-> stored,
              imin |-> PosInf, imax |-> NegInf, omin |-> PosInf, omax |-> NegInf]
  IN CommitB(a, ap, IF ap.st = "init" THEN st0 ELSE CommitFold(logged, st0, ap.hm, ap.mv),
                    IF ap.st = "init" THEN wino ELSE LogFold(logged, wino))

Commit(a) ==
  /\ "Commit" \in Acts
  /\ app[a].st \in {"init", "open"}
  /\ CommitA(a, app[a], OrderPend(app[a].pend, app[a].nb))   \* = order of the WAL records written by log()

Rollback(a) ==
  /\ "Rollback" \in Acts
  /\ app[a].st \in {"init", "open"}
  /\ app' = [app EXCEPT ![a] = NoApp]
  /\ UNCHANGED <<hvars, blk, blkMax, oooSeen, stored, kfset>>
  /\ Step([a |-> "Rollback", app |-> a, exp |-> ExpAll(stored)])

-----------------------------------------------------------------------------
NoOpenApp == \A a \in Apps : app[a].st = "closed"
InRange(x, lo, hi) == x.t >= lo /\ x.t <= hi

(* DB.Delete: reference semantics = every sample of the selected series inside [lo,hi] disappears
   from head, out-of-order chunks and blocks alike. *)
OOOInRange(S, lo, hi) == \E s \in S : \E x \in Range(ooh[s]) \cup oom[s] : InRange(x, lo, hi)

\* a sample that is no longer in the head in-order data but that a WAL replay would append again (it was stored
\* out-of-order and logged, or its series was truncated): deleting it only writes block tombstones
WalGhostInRange(S, lo, hi) == \E s \in S :
                                 \/ \E x \in Range(wino[s]) : InRange(x, lo, hi) /\ x.t >= blkMax /\ x \notin Range(ino[s])
                                 \/ \E x \in oghost[s] : InRange(x, lo, hi)
DeleteKF(S, lo, hi) == (IF OOOInRange(S, lo, hi) THEN {"KF-C20-1"} ELSE {}) \cup
                       (IF WalGhostInRange(S, lo, hi) THEN {"KF-C20-2"} ELSE {})

Delete(S, lo, hi) ==
  /\ "Delete" \in Acts
  /\ DeleteKF(S, lo, hi) \subseteq AllowKF
  /\ kfset' = kfset \cup DeleteKF(S, lo, hi)
  /\ LET keep(X) == {x \in X : ~InRange(x, lo, hi)} IN
     /\ hdel' = [s \in Series |-> IF s \in S THEN hdel[s] \cup {x.t : x \in {y \in Range(ino[s]) : InRange(y, lo, hi)}} ELSE hdel[s]]
     /\ UNCHANGED <<ino, wino, wgone, oghost>>
     /\ htomb' = [s \in Series |->
          IF s \in S /\ hInit /\ lo <= hMax /\ hi >= hMin /\ ino[s] # <<>>
          THEN LET t0 == Max2(Max2(lo, hMin), ino[s][1].t)
                   t1 == Min2(Min2(hi, hMax), Last(ino[s]).t)
               IN IF t0 <= t1 THEN htomb[s] \cup {<<t0, t1>>} ELSE htomb[s]
          ELSE htomb[s]]
     /\ ooh' = [s \in Series |-> IF s \in S THEN SelectSeq(ooh[s], LAMBDA x : ~InRange(x, lo, hi)) ELSE ooh[s]]
     /\ oom' = [s \in Series |-> IF s \in S THEN keep(oom[s]) ELSE oom[s]]
     /\ blk' = [s \in Series |-> IF s \in S THEN keep(blk[s]) ELSE blk[s]]
     /\ stored' = [s \in Series |-> IF s \in S THEN keep(stored[s]) ELSE stored[s]]
  /\ UNCHANGED <<hInit, hMin, hMax, minValid, blkMax, oooSeen, app>>
  /\ Step([a |-> "Delete", S |-> SetToSeq(S), lo |-> lo, hi |-> hi, exp |-> ExpAll(stored'),
           kf |-> IF OOOInRange(S, lo, hi) THEN "KF-C20-1" ELSE IF WalGhostInRange(S, lo, hi) THEN "KF-C20-2" ELSE ""])

\* NOTE on Delete and admission: deleting the newest in-order sample of a series in the head only
\* adds a tombstone; the chunk and s.maxTime() are unchanged.  The admission model therefore keeps a
\* separate notion of "newest in-order timestamp" -- see DelShadow below.

-----------------------------------------------------------------------------
(* Head compaction loop of DB.Compact: while compactable, write block [hMin, RangeForTs(hMin)),
   truncateMemory(maxt); then (if anything was compacted) the out-of-order head; then block compaction
   (content preserving -- Planner.tla / Compaction.tla). *)

Compactable(mn, mx) == hInit /\ mx - mn > (R \div 2) * 3

\* gc() reports the smallest in-order chunk time left; truncateSeriesAndChunkDiskMapper then raises
\* minTime / minValidTime to min(that, appendableMinValidTime)
AfterGC(st) ==
  LET its == UNION {{x.t : x \in Range(st.ino[s])} : s \in Series}
      actual == IF its = {} THEN PosInf ELSE SetMin(its)
      amv == Max2(st.hMax - (R \div 2), st.minValid)
      nm == IF actual < amv THEN actual ELSE amv
  IN IF actual > st.hMin THEN [st EXCEPT !.hMin = nm, !.minValid = nm] ELSE st

RECURSIVE HeadLoop(_)
\* st = [ino, hdel, blk, hMin, hMax, minValid, blkMax, n]
HeadLoop(st) ==
  IF ~(st.hMax - st.hMin > (R \div 2) * 3) THEN st
  ELSE LET mint == st.hMin
           maxt == RangeForTs(mint)                         \* block [mint, maxt)
           moved(s) == {x \in Range(st.ino[s]) : x.t >= mint /\ x.t <= maxt - 1 /\ x.t \notin st.hdel[s]}
           anyMoved == \E s \in Series : \E x \in Range(st.ino[s]) : x.t >= mint /\ x.t <= maxt - 1
       IN HeadLoop(AfterGC([st EXCEPT
             !.blk = [s \in Series |-> st.blk[s] \cup moved(s)],
             !.ino = [s \in Series |-> SelectSeq(st.ino[s], LAMBDA x : x.t >= maxt)],
             !.hMin = Max2(st.hMin, maxt), !.minValid = maxt,
             !.hMax = Max2(st.hMax, maxt),
             \* LeveledCompactor.Write produces no block when the range holds no samples
             !.blkMax = IF \E s \in Series : moved(s) # {} THEN Max2(st.blkMax, maxt) ELSE st.blkMax,
             !.n = st.n + 1]))

\* out-of-order compaction: every out-of-order sample of the head goes to blocks, head OOO emptied
OOOAll(s) == Range(ooh[s]) \cup oom[s]

\* A block whose samples are all deleted is dropped by CleanTombstones / block compaction.  If it was the newest
\* in-order block, minValidTime falls back at the next start and the WAL replays samples that had been deleted
\* (KF-C20-4).  Without per-block structure the trigger is over-approximated: some deleted sample below the
\* in-order block horizon is still in the WAL.
DropRisk == \E s \in Series : \E x \in Range(wino[s]) :
               x.t < blkMax /\ ~\E y \in stored[s] : y.t = x.t /\ Norm(y) = Norm(x)
DropKF == IF DropRisk THEN {"KF-C20-4"} ELSE {}

CompactB(st1, doOOO, ks) ==
  /\ ino' = st1.ino /\ hdel' = st1.hdel /\ UNCHANGED <<wino, wgone, htomb>> /\ hMin' = st1.hMin /\ hMax' = st1.hMax
  /\ minValid' = st1.minValid /\ blkMax' = st1.blkMax
  /\ blk' = IF doOOO THEN [s \in Series |-> st1.blk[s] \cup OOOAll(s)] ELSE st1.blk
  /\ ooh' = IF doOOO THEN [s \in Series |-> <<>>] ELSE ooh
  /\ oom' = IF doOOO THEN [s \in Series |-> {}] ELSE oom
  /\ oghost' = IF doOOO THEN [s \in Series |-> oghost[s] \cup OOOAll(s)] ELSE oghost
  /\ kfset' = kfset \cup ks
  /\ UNCHANGED <<hInit, oooSeen, app, stored>>
  /\ Step([a |-> "Compact", nblocks |-> st1.n, exp |-> ExpAll(stored),
           kf |-> IF "KF-C20-7" \in ks THEN "KF-C20-7" ELSE IF DropRisk THEN "KF-C20-4" ELSE ""])

\* KF-C20-7: the loop truncates deleted (tombstoned) in-order samples for which no block is written (every sample of
\* the range was deleted), so minValidTime is not raised over them; their m-mapped chunk files stay on disk while the
\* tombstone is dropped from memory (and later from the WAL checkpoint / is missing from a chunk snapshot): a restart
\* loads the chunks again without the tombstone.
GhostDelRisk(st1) == \E s \in Series : \E x \in Range(ino[s]) :
                        x.t \in hdel[s] /\ x.t < st1.hMin /\ x.t >= st1.blkMax
CompactKF(st1) == DropKF \cup (IF GhostDelRisk(st1) THEN {"KF-C20-7"} ELSE {})

CompactA(st1) == CompactKF(st1) \subseteq AllowKF /\ CompactB(st1, st1.n > 0 /\ oooSeen, CompactKF(st1))

Compact ==
  /\ "Compact" \in Acts
  /\ NoOpenApp
  /\ hInit
  /\ CompactA(HeadLoop([ino |-> ino, hdel |-> hdel, blk |-> blk, hMin |-> hMin, hMax |-> hMax, minValid |-> minValid,
                        blkMax |-> blkMax, n |-> 0]))

CompactOOO ==
  /\ "CompactOOO" \in Acts
  /\ NoOpenApp
  /\ oooSeen
  /\ blk' = [s \in Series |-> blk[s] \cup OOOAll(s)]
  /\ ooh' = [s \in Series |-> <<>>] /\ oom' = [s \in Series |-> {}]
  /\ oghost' = [s \in Series |-> oghost[s] \cup OOOAll(s)]
  \* truncateOOO runs the head GC, which may raise minTime / minValidTime like after a head truncation
  /\ LET g == IF \E s \in Series : OOOAll(s) # {}
              THEN AfterGC([ino |-> ino, hMin |-> hMin, hMax |-> hMax, minValid |-> minValid])
              ELSE [hMin |-> hMin, minValid |-> minValid]
     IN hMin' = g.hMin /\ minValid' = g.minValid
  /\ UNCHANGED <<ino, hdel, htomb, wino, wgone, hInit, hMax, blkMax, oooSeen, app, stored, kfset>>
  /\ Step([a |-> "CompactOOO", exp |-> ExpAll(stored)])

(* DB.CompactStaleHead: series whose newest in-order sample is a staleness marker and that carry no out-of-order
   data are written to blocks flagged "stale series" (one per chunk range, not counted for minValidTime) and
   evicted from the head with a full-range tombstone record, so a WAL replay does not bring them back.
   Contents are unchanged.  (compactHeadViewLocked, truncateStaleSeries) *)
StaleSet == {s \in Series : ino[s] # <<>> /\ Last(ino[s]).v = 0 /\ OOOAll(s) = {}}

CompactStale ==
  /\ "CompactStale" \in Acts
  /\ NoOpenApp
  /\ hInit
  /\ blk' = [s \in Series |-> IF s \in StaleSet
                                THEN blk[s] \cup {x \in Range(ino[s]) : x.t >= hMin /\ x.t \notin hdel[s]} ELSE blk[s]]
  /\ ino' = [s \in Series |-> IF s \in StaleSet THEN <<>> ELSE ino[s]]
  /\ wino' = [s \in Series |-> IF s \in StaleSet THEN <<>> ELSE wino[s]]
  /\ wgone' = wgone \cup UNION {{x.t : x \in Range(wino[s])} : s \in StaleSet}
  /\ hdel' = [s \in Series |-> IF s \in StaleSet THEN {} ELSE hdel[s]]
  /\ htomb' = [s \in Series |-> IF s \in StaleSet THEN {} ELSE htomb[s]]
  /\ UNCHANGED <<ooh, oom, oghost, hInit, hMin, hMax, minValid, blkMax, oooSeen, app, stored, kfset>>
  /\ Step([a |-> "CompactStale", n |-> Cardinality(StaleSet), exp |-> ExpAll(stored)])

CleanTombstones ==
  /\ "CleanTombstones" \in Acts
  /\ NoOpenApp
  /\ DropKF \subseteq AllowKF
  /\ kfset' = kfset \cup DropKF
  /\ UNCHANGED <<hvars, blk, blkMax, oooSeen, app, stored>>
  /\ Step([a |-> "CleanTombstones", exp |-> ExpAll(stored), kf |-> IF DropRisk THEN "KF-C20-4" ELSE ""])

Mmap ==
  /\ "Mmap" \in Acts
  /\ UNCHANGED <<hvars, blk, blkMax, oooSeen, app, stored, kfset>>
  /\ Step([a |-> "Mmap", exp |-> ExpAll(stored)])

(* Close + Open: blocks reloaded; head rebuilt from m-mapped chunks, WAL and WBL.  In-order data below
   the newest in-order block's MaxTime is not replayed (minValidTime).  Open appenders die. *)
\* Close + Open with block set blk1 (newest in-order block end mx1) and committed set st1.
ReopenWith(blk1, mx1, st1, rec) ==
  LET mv == mx1
      ino1 == [s \in Series |-> SelectSeq(wino[s], LAMBDA x : x.t >= mv)]
      its == UNION {{x.t : x \in Range(ino1[s])} : s \in Series} \cup {t \in wgone : t >= mv}
      \* in-order head samples below the new horizon that no block holds are dropped by the replay (this only happens
      \* when a block was imported over the head's range; DB.Compact never leaves such samples)
      lost(s) == {x \in Range(ino[s]) : x.t < mv /\ x.t >= hMin /\ x.t \notin hdel[s] /\ x \notin blk1[s]
                                         /\ x \notin Range(ooh[s]) \cup oom[s] \cup oghost[s]}
      st2 == [s \in Series |-> st1[s] \ lost(s)]
  IN /\ ino' = ino1 /\ UNCHANGED <<wino, wgone>>   \* the WAL keeps older records until a checkpoint drops them
     /\ htomb' = htomb
     /\ hdel' = hdel   \* tombstone records are replayed from the WAL like the samples they cover
     /\ minValid' = mv
     \* DB.open -> reload -> Head.Truncate(inOrderBlocksMaxTime) initialises an empty head at the newest in-order
     \* block's end before the WAL is replayed
     /\ hInit' = (mv # NegInf \/ its # {})
     /\ hMin' = IF mv # NegInf THEN mv ELSE IF its # {} THEN SetMin(its) ELSE PosInf
     /\ hMax' = IF its # {} THEN Max2(SetMax(its), mv) ELSE mv
     /\ oom' = [s \in Series |-> oom[s] \cup oghost[s]]
     /\ blk' = blk1 /\ blkMax' = mx1 /\ stored' = st2
     /\ UNCHANGED <<ooh, oghost, oooSeen, app, kfset>>
     /\ Step([rec EXCEPT !.exp = ExpAll(st2)])

Reopen ==
  /\ "Reopen" \in Acts
  /\ NoOpenApp
  /\ ReopenWith(blk, blkMax, stored, [a |-> "Reopen", exp |-> <<>>])

(* promtool-style backfill: while the DB is closed a block holding s1@lo and s1@hi (value symbol 2) is placed in the
   data directory; it overlaps whatever is there.  Imported samples count as committed content.  The next Open
   takes the newest in-order block end from it. *)
Import(lo, hi) ==
  /\ "Import" \in Acts
  /\ NoOpenApp
  /\ lo < hi
  /\ LET imp == {[t |-> lo, v |-> 2, ty |-> "f"], [t |-> hi, v |-> 2, ty |-> "f"]}
         blk1 == [blk EXCEPT !["s1"] = @ \cup imp]
         st1 == [stored EXCEPT !["s1"] = @ \cup imp]
     IN ReopenWith(blk1, Max2(blkMax, hi + 1), st1, [a |-> "Import", lo |-> lo, hi |-> hi, exp |-> <<>>])

End == nops = MaxOps /\ nops' = MaxOps + 1 /\ UNCHANGED <<hvars, blk, blkMax, oooSeen, app, stored, kfset, kindv, hist>>

Kinds == Acts
KindEnabled(k) ==
  CASE k = "NewAppender" -> \E a \in Apps : app[a].st = "closed"
    [] k = "Append" -> \E a \in Apps : app[a].st \in {"init", "open"} /\ Len(app[a].pend) < MaxPend
    [] k \in {"Commit", "Rollback"} -> \E a \in Apps : app[a].st \in {"init", "open"}
    [] k = "Compact" -> NoOpenApp /\ hInit
    [] k = "CompactOOO" -> NoOpenApp /\ oooSeen
    [] k \in {"Reopen", "CleanTombstones", "Import"} -> NoOpenApp
    [] k = "CompactStale" -> NoOpenApp /\ hInit
    [] OTHER -> TRUE

Do(k) ==
  \/ k = "NewAppender" /\ \E a \in Apps, api \in Apis, rj \in Rej : NewAppender(a, api, rj)
  \/ k = "Append" /\ \E a \in Apps, s \in Series, t \in Times, v \in Vals \cup {0}, ty \in Types : AppendSample(a, s, t, v, ty)
  \/ k = "Commit" /\ \E a \in Apps : Commit(a)
  \/ k = "Rollback" /\ \E a \in Apps : Rollback(a)
  \/ k = "Delete" /\ \E S \in (SUBSET Series) \ {{}}, lo \in DelLo, hi \in DelHi : lo <= hi /\ Delete(S, lo - TOff, hi - TOff)
  \/ k = "Compact" /\ Compact
  \/ k = "CompactOOO" /\ CompactOOO
  \/ k = "CleanTombstones" /\ CleanTombstones
  \/ k = "Mmap" /\ Mmap
  \/ k = "Reopen" /\ Reopen
  \/ k = "CompactStale" /\ CompactStale
  \/ k = "Import" /\ \E lo \in Times, hi \in Times : Import(lo, hi)

Next ==
  \/ /\ nops < MaxOps
     /\ IF ~Balanced THEN (\E k \in Kinds : Do(k)) /\ UNCHANGED kindv
        ELSE IF kindv = "any"
             THEN /\ \E k \in Kinds : KindEnabled(k) /\ kindv' = k
                  /\ UNCHANGED <<hvars, blk, blkMax, oooSeen, app, stored, kfset, nops, hist>>
             ELSE \/ Do(kindv) /\ kindv' = "any"
                  \/ kindv' = "any" /\ UNCHANGED <<hvars, blk, blkMax, oooSeen, app, stored, kfset, nops, hist>>
  \/ End

Spec == Init /\ [][Next]_vars

-----------------------------------------------------------------------------
(* Properties *)

\* C01: what a query returns (from the physical layout) is exactly what was committed and not deleted
C01_Exact == kfset # {} \/ \A s \in Series :
               /\ DOMAIN Result(s) = DOMAIN Expected(s)
               /\ \A t \in DOMAIN Result(s) : Result(s)[t] \subseteq Expected(s)[t]

\* C02: a rejected or rolled-back sample is never stored: stored only grows by pending samples of a commit
C02_OnlyPendingStored ==
  [][ \A s \in Series : \A x \in stored'[s] \ stored[s] :
        \E a \in Apps : \E i \in 1..Len(app[a].pend) :
           app[a].pend[i].s = s /\ app[a].pend[i].t = x.t /\ app[a].pend[i].v = x.v /\ app'[a].st = "closed" ]_vars

\* in-order head data is strictly increasing in time per series
InoSorted == \A s \in Series : \A i \in 1..(Len(ino[s]) - 1) : ino[s][i].t < ino[s][i + 1].t
OohSorted == \A s \in Series : /\ Len(ooh[s]) <= OOOCap
                               /\ \A i \in 1..(Len(ooh[s]) - 1) : ooh[s][i].t < ooh[s][i + 1].t

-----------------------------------------------------------------------------
(* Emission *)
TombRel(cut) == IF \E s \in Series : \E iv \in htomb[s] : iv[2] = cut THEN "at"
                ELSE IF \E s \in Series : \E iv \in htomb[s] : iv[2] = cut - 1 THEN "below"
                ELSE IF \E s \in Series : htomb[s] # {} THEN "other" ELSE "none"
NChunks(q) == Cardinality({x.t \div R : x \in Range(q)})
MaxChunks(f) == SetMax({NChunks(f[s]) : s \in Series})
LastRec == hist'[Len(hist')]
Class == LET r == LastRec IN
         IF r.a = "Append" THEN <<r.a, r.ret, r.ooo, r.ty, r.v = 0, app[r.app].st, app[r.app].api, app[r.app].rej,
                                  ino[r.s] = <<>>, IF ino[r.s] = <<>> THEN "na" ELSE
                                     (IF r.t > Last(ino[r.s]).t THEN "gt" ELSE IF r.t = Last(ino[r.s]).t THEN "eq" ELSE "lt"),
                                  app'[r.app].nb = app[r.app].nb>>
         ELSE IF r.a = "Commit" THEN <<r.a, r.kf, Len(app[r.app].pend), app[r.app].nb, stored' = stored,
                                       Cardinality(UNION {stored'[s] \ stored[s] : s \in Series}),
                                       ooh' # ooh, oom' # oom, app[r.app].st>>
         ELSE IF r.a = "Compact" THEN <<r.a, r.nblocks, ooh' # ooh \/ oom' # oom, blkMax = NegInf, r.kf,
                                        \* number of head chunks (one per chunk range) of the fullest series before / after
                                        MaxChunks(ino), MaxChunks(ino'),
                                        \* a head tombstone ending exactly at / just below the new head start
                                        TombRel(minValid')>>
         ELSE IF r.a = "Delete" THEN <<r.a, r.kf, stored' # stored, hdel' # hdel, ooh' # ooh \/ oom' # oom, blk' # blk>>
         ELSE IF r.a = "CleanTombstones" THEN
              <<r.a, r.kf, kfset, blkMax = NegInf,
                \* blocks from out-of-order compaction exist / an in-order head sample lies at or below such a block's range
                \E s \in Series : oghost[s] # {},
                \E s \in Series : \E x \in Range(ino[s]) : \E s2 \in Series : \E y \in oghost[s2] : (x.t \div R) <= (y.t \div R),
                \* some out-of-order block sample has been deleted, some survives
                \E s \in Series : \E y \in oghost[s] : y \notin blk[s],
                \E s \in Series : \E y \in oghost[s] : y \in blk[s]>>
         ELSE IF r.a = "CompactStale" THEN <<r.a, r.n, blkMax = NegInf, hMin < 0, \E s \in StaleSet : hdel[s] # {}>>
         ELSE IF r.a = "Import" THEN <<r.a, stored' = [stored EXCEPT !["s1"] = @ \cup {[t |-> r.lo, v |-> 2, ty |-> "f"], [t |-> r.hi, v |-> 2, ty |-> "f"]}],
                                      r.hi + 1 > blkMax, blkMax = NegInf, ino' # ino>>
         ELSE IF r.a = "Reopen" THEN <<r.a, kfset, ino' # ino, wino # ino, TombRel(blkMax), blkMax = NegInf, hInit,
                                       \* the per-series head layouts the shutdown has to persist (a series without an in-order
                                       \*   chunk but with m-mapped out-of-order chunks is stored without a head chunk in a snapshot)
                                       {<<ino[s] = <<>>, ooh[s] = <<>>, oom[s] = {}>> : s \in Series}>>
         ELSE <<r.a>>

Emit ==
  CASE EmitMode = "none" -> TRUE
    [] hist' = hist -> TRUE
    [] EmitMode = "all" -> PrintT("@@TR " \o ToJson(hist'))
    [] OTHER -> LET cl == Class IN
                \/ cl \in TLCGet(1)
                \/ /\ TLCSet(1, TLCGet(1) \cup {cl})
                   /\ PrintT("@@TR " \o ToJson(hist'))

EmitState == EmitMode # "state" \/ PrintT("@@TR " \o ToJson(hist))
\* one witness per distinct state reached by a Commit that stored something
EmitCommitState == \/ EmitMode \notin {"class", "commit"} \/ hist[Len(hist)].a \notin TSActs
                   \/ PrintT("@@TS " \o ToJson(hist))
EmitWalk == nops <= MaxOps \/ PrintT("@@TR " \o ToJson(hist))
=============================================================================
