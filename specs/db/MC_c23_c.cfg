\* C23: series that only ever received out-of-order samples (no in-order head chunk at shutdown) next to an in-order one
SPECIFICATION Spec
CONSTANTS
  Series = {"s1", "s2"}
  TOff = 0
  TimesRaw = {4, 5, 6, 11}
  Vals = {1}
  Types = {"f"}
  Apps = {"a1"}
  R = 4
  W = 5
  OOOCap = 2
  Acts = {"NewAppender", "Append", "Commit", "Reopen"}
  Apis = {"v1"}
  Rej = {FALSE}
  DelLo = {4}
  DelHi = {7}
  MaxPend = 3
  AllowKF = {}
  KFInitOpts = FALSE
  KFV1Hist = FALSE
  MaxOps = 8
  PreT = {9}
  TSActs = {"Commit"}
  Balanced = FALSE
  EmitMode = "class"
VIEW View
INVARIANTS C01_Exact InoSorted OohSorted
ACTION_CONSTRAINT Emit
CHECK_DEADLOCK FALSE
