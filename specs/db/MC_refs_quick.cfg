SPECIFICATION Spec
CONSTANTS
  LabOrder <- LabAB
  R = 4
  Gaps = {1}
  Kinds = {"zero", "own"}
  MaxClk = 6
  OOOBack = {2}
  Snap = FALSE
  FastOpts = {FALSE}
  Fast0 = FALSE
  AllowKF = {}
  Acts = {"Scrape", "Cross", "OOO", "Mmap", "CompactHead", "CompactOOO", "EvictSel", "Cut", "Restart", "Crash"}
  Script <- NoScript
  MaxOps = 4
  EmitMode = "class"
VIEW View
INVARIANTS RightLabels NoReuse MapsAgree AllocAbove
PROPERTIES AppendRight
ACTION_CONSTRAINT Emit
CHECK_DEADLOCK FALSE
