SPECIFICATION Spec
CONSTANTS
  Series = {"s1", "s2"}
  TOff = 0
  TimesRaw = {0, 2, 3, 5}
  Vals = {1, 2}
  Types = {"f"}
  Apps = {"a1", "a2"}
  R = 4
  W = 0
  OOOCap = 2
  Acts = {"NewAppender", "Append", "Commit", "Rollback"}
  Apis = {"v1"}
  Rej = {FALSE}
  DelLo = {}
  DelHi = {}
  MaxPend = 2
  MaxOps = 7
  AllowKF = {"KF-C01-2"}
  KFInitOpts = FALSE
  KFV1Hist = FALSE
  PreT = {}
  TSActs = {"Commit"}
  Balanced = FALSE
  EmitMode = "class"
VIEW View
INVARIANTS C01_Exact InoSorted OohSorted
PROPERTIES C02_OnlyPendingStored
ACTION_CONSTRAINT Emit
CHECK_DEADLOCK FALSE
