SPECIFICATION Spec
CONSTANTS
  Series = {"s1", "s2"}
  TOff = 0
  TimesRaw = {1, 3, 5, 9}
  Vals = {1}
  Types = {"f"}
  Apps = {"a1"}
  R = 4
  W = 0
  OOOCap = 2
  Acts = {"NewAppender", "Append", "Commit", "Delete", "Compact", "CleanTombstones", "Reopen"}
  Apis = {"v2"}
  Rej = {FALSE}
  DelLo = {0, 3, 4}
  DelHi = {2, 3, 9}
  MaxPend = 3
  AllowKF = {}
  KFInitOpts = FALSE
  KFV1Hist = FALSE
  PreT = {}
  Balanced = FALSE
  MaxOps = 8
  EmitMode = "class"
VIEW View
INVARIANTS C01_Exact InoSorted OohSorted
ACTION_CONSTRAINT Emit
CHECK_DEADLOCK FALSE
