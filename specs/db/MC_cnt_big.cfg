SPECIFICATION CSpec
CONSTANTS
  Series = {"s1", "s2"}
  TOff = 0
  TimesRaw = {0, 1, 5, 9}
  Vals = {1, 2}
  Types = {"f", "h", "fh"}
  Apps = {"a1", "a2"}
  R = 4
  W = 0
  OOOCap = 2
  Acts = {"NewAppender", "Append", "Commit", "Rollback", "Compact", "Reopen", "EvictSel", "CompactStale", "Delete"}
  Apis = {"v1"}
  Rej = {FALSE}
  DelLo = {0}
  DelHi = {9}
  MaxPend = 2
  AllowKF = {}
  KFInitOpts = FALSE
  KFV1Hist = FALSE
  MaxOps = 5
  PreT = {}
  TSActs = {}
  Balanced = FALSE
  EmitMode = "none"
VIEW CView
INVARIANTS CountersMatch AppendersZero NonNegative Consistent
CHECK_DEADLOCK FALSE
