SPECIFICATION CSpec
CONSTANTS
  Series = {"s1", "s2", "s3"}
  TimesRaw = {0, 1, 2, 3, 4, 5, 6, 7, 8, 9, 11, 13, 14}
  Vals = {1, 2}
  Types = {"f", "h", "fh"}
  Apps = {"a1", "a2"}
  R = 4
  OOOCap = 2
  Acts = {"NewAppender", "Append", "Commit", "Rollback", "Compact", "CompactOOO", "Reopen", "Mmap", "EvictSel", "CompactStale"}
  Apis = {"v1", "v2"}
  Rej = {FALSE}
  DelLo = {0}
  DelHi = {14}
  MaxPend = 3
  AllowKF = {}
  KFInitOpts = FALSE
  KFV1Hist = FALSE
  PreT = {}
  TSActs = {}
  Balanced = TRUE
  EmitMode = "none"
INVARIANTS CountersMatch AppendersZero NonNegative Consistent CEmitWalk
CHECK_DEADLOCK FALSE
