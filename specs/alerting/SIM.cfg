SPECIFICATION Spec
CONSTANTS
  Labs = {"a", "b", "c"}
  Steps = {1, 2, 3, 4}
  Holds = {0, 2, 3, 5}
  Keeps = {0, 1, 4, 6}
  Retention = 3
  Tolerance = 7
  Grace = 2
  ResendDelay = 2
  Interval = 1
  RestoreLag = {0, 1}
  MaxReloads = 3
  MaxRestarts = 2
  T0 = 20
  EmitMode = "none"
INVARIANTS TypeOK EmitWalk
PROPERTIES Ref_Activation Ref_Firing Ref_Absent Ref_NoSpurious Ref_Series Ref_Restore Ref_Sent
CHECK_DEADLOCK FALSE
