SPECIFICATION Spec
CONSTANTS
  Labs = {"a", "b"}
  Steps = {1, 2, 5}
  Holds = {0, 3}
  Keeps = {0, 4}
  Retention = 3
  Tolerance = 6
  Grace = 2
  ResendDelay = 2
  Interval = 1
  RestoreLag = {0, 1}
  MaxReloads = 1
  MaxRestarts = 1
  T0 = 20
  MaxOps = 7
  EmitMode = "none"
VIEW View
INVARIANTS TypeOK
PROPERTIES Ref_Activation Ref_Firing Ref_Absent Ref_NoSpurious Ref_Series Ref_Restore Ref_Sent
CHECK_DEADLOCK FALSE
