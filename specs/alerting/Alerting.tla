------------------------------ MODULE Alerting ------------------------------
(***************************************************************************)
(* Alert state machine of one alerting rule in one rule group              *)
(* (rules/alerting.go, rules/group.go) -- property C44.                    *)
(*                                                                         *)
(* Time is an integer number of abstract units (the harness concretises    *)
(* one unit as 300 s, so that the constant resolvedRetention = 15 min of   *)
(* the code is Retention = 3 units).  0 is Go's zero time.Time.            *)
(*                                                                         *)
(* State = what the code keeps:                                            *)
(*   act       AlertingRule.active  (label set -> *Alert), a partial map   *)
(*   restored  AlertingRule.restored                                       *)
(*   hold,keep AlertingRule.holdDuration / keepFiringFor (change at reload)*)
(*   prev      Group.seriesInPreviousEval[rule] (series written last eval) *)
(*   store     last ALERTS_FOR_STATE sample per label set in the TSDB      *)
(*   phase     position in Group.run: a fresh process evaluates twice and  *)
(*             then calls RestoreForState ("e0","e1" -> "run")             *)
(*                                                                         *)
(* Actions (one per call made by Group.run / Manager.Update):              *)
(*   Eval(dt,R)    Group.Eval(ts): AlertingRule.Eval with query result R,  *)
(*                 AlertingRule.sendAlerts, append of the returned vector  *)
(*                 and of staleness markers                                *)
(*   Restore(d)    Group.RestoreForState(now+d)                            *)
(*   Reload(h,k)   Manager.Update with a changed rule: new rule object,    *)
(*                 Group.CopyState                                         *)
(*   Restart       process restart: all memory state lost, TSDB kept       *)
(*                                                                         *)
(* Eval is the literal transcription of the code (the loop body over       *)
(* r.active, in its order of statements).  The property as *stated* is the *)
(* family of action properties Ref_* below, written independently from the *)
(* statement (partly over the history); TLC checks transcription => Ref.   *)
(***************************************************************************)
EXTENDS Integers, Sequences, FiniteSets, TLC, Json

CONSTANTS Labs,        \* alert label sets (strings)
          Steps,       \* time between consecutive evaluations
          Holds,       \* values of `for`
          Keeps,       \* values of `keep_firing_for`
          Retention,   \* resolvedRetention
          Tolerance,   \* ManagerOptions.OutageTolerance
          Grace,       \* ManagerOptions.ForGracePeriod
          ResendDelay, \* ManagerOptions.ResendDelay
          Interval,    \* group interval (only used for ValidUntil)
          RestoreLag,  \* set of delays between the second evaluation and RestoreForState(time.Now())
          MaxReloads, MaxRestarts,
          T0,          \* time of Init
          MaxOps,
          EmitMode     \* "class" | "all" | "none"

VARIABLES now, hold, keep, restored, phase, act, prev, store, reloads, restarts, nops, hist

vars == <<now, hold, keep, restored, phase, act, prev, store, reloads, restarts, nops, hist>>

Z == 0                                   \* zero time
NoSample == [t |-> Z, v |-> Z, stale |-> FALSE]

Max(a, b) == IF a > b THEN a ELSE b
Dom(f) == DOMAIN f

\* deterministic but changing sample value (the value never influences the state machine)
ValOf(l, n) == 1 + ((n + (IF l = CHOOSE x \in Labs : TRUE THEN 0 ELSE 1)) % 2)

NewAlert(l, ts, v) ==
  [l |-> l, st |-> "pending", activeAt |-> ts, firedAt |-> Z, resolvedAt |-> Z,
   kfs |-> Z, lastSent |-> Z, validUntil |-> Z, val |-> v]

-----------------------------------------------------------------------------
(* AlertingRule.Eval, per alert.                                            *)

\* first loop: `for h, a := range alerts` -- merge the query result into r.active
Merge(a, R, ts, n) ==
  [l \in Dom(a) \cup R |->
     IF l \in R
     THEN IF l \in Dom(a) /\ a[l].st # "inactive"
          THEN [a[l] EXCEPT !.val = ValOf(l, n)]            \* alert.Value = a.Value; continue
          ELSE NewAlert(l, ts, ValOf(l, n))                 \* r.active[h] = a
     ELSE a[l]]

\* second loop body for one alert that is NOT in the result (`if _, ok := resultFPs[fp]; !ok`)
KfsAbsent(x, ts) == IF x.st = "firing" /\ keep > 0 /\ x.kfs = Z THEN ts ELSE x.kfs
KeepFiring(x, ts) == x.st = "firing" /\ keep > 0 /\ ts - KfsAbsent(x, ts) < keep
Deleted(x, ts) == x.st = "pending" \/ (x.resolvedAt # Z /\ ts - x.resolvedAt > Retention)

\* the tail of the loop body (reached by present alerts and by keep-firing ones)
LoopTail(x, ts) ==
  LET y == IF x.st = "pending" /\ ts - x.activeAt >= hold
           THEN [x EXCEPT !.st = "firing", !.firedAt = ts] ELSE x
  IN IF y.st = "firing" /\ ts - y.activeAt < hold
     THEN [y EXCEPT !.st = "pending", !.firedAt = Z, !.lastSent = Z, !.kfs = Z]
     ELSE y

StepAbsent(x, ts) ==
  LET x1 == [x EXCEPT !.kfs = KfsAbsent(x, ts)] IN
  IF KeepFiring(x, ts) THEN LoopTail(x1, ts)
  ELSE IF x1.st # "inactive" THEN [x1 EXCEPT !.st = "inactive", !.resolvedAt = ts] ELSE x1

StepPresent(x, ts) == LoopTail([x EXCEPT !.kfs = Z], ts)

\* alerts that reach the sample-producing tail of the loop
Reaches(m, R, ts) == {l \in Dom(m) : l \in R \/ KeepFiring(m[l], ts)}

AfterEval(a, R, ts, n) ==
  LET m == Merge(a, R, ts, n)
      kept == {l \in Dom(m) : l \in R \/ ~Deleted(m[l], ts)}
  IN [l \in kept |-> IF l \in R THEN StepPresent(m[l], ts) ELSE StepAbsent(m[l], ts)]

\* the vector returned by Eval (only once restored): series keys
SeriesOf(a2, reach) ==
  IF restored
  THEN UNION {{[k |-> "A", l |-> l, st |-> a2[l].st], [k |-> "F", l |-> l, st |-> ""]} : l \in reach}
  ELSE {}

\* AlertingRule.sendAlerts / Alert.needsSending
NeedsSending(x, ts) ==
  /\ x.st # "pending"
  /\ \/ x.resolvedAt # Z /\ (x.lastSent = Z \/ x.resolvedAt > x.lastSent)
     \/ x.lastSent = Z
     \/ x.lastSent + ResendDelay < ts
AfterSend(a2, ts) ==
  [l \in Dom(a2) |-> IF NeedsSending(a2[l], ts)
                     THEN [a2[l] EXCEPT !.lastSent = ts, !.validUntil = ts + 4 * Max(Interval, ResendDelay)]
                     ELSE a2[l]]

SetOfAlerts(a) == {a[l] : l \in Dom(a)}

Eval(dt, R) ==
  LET ts    == now + dt
      m     == Merge(act, R, ts, nops)
      reach == Reaches(m, R, ts)
      a2    == AfterEval(act, R, ts, nops)
      a3    == AfterSend(a2, ts)
      cur   == SeriesOf(a2, reach)
      \* Group.Eval: append the vector, then a staleness marker for seriesInPreviousEval \ seriesReturned
      wr    == {[k |-> s.k, l |-> s.l, st |-> s.st, stale |-> FALSE,
                 v |-> IF s.k = "A" THEN 1 ELSE a2[s.l].activeAt] : s \in cur}
               \cup {[k |-> s.k, l |-> s.l, st |-> s.st, stale |-> TRUE, v |-> 0] : s \in prev \ cur}
      sent  == {a3[l] : l \in {x \in Dom(a2) : NeedsSending(a2[x], ts)}}
  IN /\ phase # "e2"
     /\ now' = ts
     /\ act' = a3
     /\ prev' = cur
     /\ store' = [l \in Labs |->
                    IF [k |-> "F", l |-> l, st |-> ""] \in cur
                      THEN [t |-> ts, v |-> a2[l].activeAt, stale |-> FALSE]
                    ELSE IF [k |-> "F", l |-> l, st |-> ""] \in prev
                      THEN [t |-> ts, v |-> 0, stale |-> TRUE]
                    ELSE store[l]]
     /\ phase' = CASE phase = "e0" -> "e1" [] phase = "e1" -> "e2" [] OTHER -> phase
     /\ UNCHANGED <<hold, keep, restored, reloads, restarts>>
     /\ nops' = nops + 1
     /\ hist' = Append(hist, [a |-> "Eval", ts |-> ts, res |-> {[l |-> l, v |-> ValOf(l, nops)] : l \in R},
                              act |-> SetOfAlerts(a3), active |-> {l \in Dom(a3) : a3[l].resolvedAt = Z},
                              written |-> wr, sent |-> sent, restored |-> restored])

-----------------------------------------------------------------------------
(* Group.RestoreForState(ts), called by Group.run after the second          *)
(* evaluation of a group created with shouldRestore.                        *)

Found(l, ts) == store[l].t # Z /\ store[l].t >= ts - Tolerance     \* Querier(mint, maxt) sees the last sample
AnyFound(ts) == \E l \in Labs : Found(l, ts)

RestoredActiveAt(l, ts) ==
  LET downAt == store[l].t
      rA     == store[l].v
      rem    == hold - (downAt - rA)        \* timeRemainingPending
  IN IF rem <= 0 THEN rA
     ELSE IF rem < Grace THEN ts + Grace - hold
     ELSE rA + (ts - downAt)

Restore(d) ==
  LET ts == now + d
      a2 == IF hold < Grace \/ ~AnyFound(ts) THEN act
            ELSE [l \in Dom(act) |->
                    IF Found(l, ts) /\ ~store[l].stale
                    THEN [act[l] EXCEPT !.activeAt = RestoredActiveAt(l, ts)] ELSE act[l]]
  IN /\ phase = "e2"
     /\ now' = ts
     /\ act' = a2
     /\ restored' = TRUE
     /\ phase' = "run"
     /\ UNCHANGED <<hold, keep, prev, store, reloads, restarts>>
     /\ nops' = nops + 1
     /\ hist' = Append(hist, [a |-> "Restore", ts |-> ts, act |-> SetOfAlerts(a2),
                              active |-> {l \in Dom(a2) : a2[l].resolvedAt = Z}])

-----------------------------------------------------------------------------
(* Manager.Update with a changed `for` / `keep_firing_for`: a new           *)
(* AlertingRule (restored = TRUE because the manager has loaded before) in  *)
(* a new Group, Group.CopyState copies active and seriesInPreviousEval.     *)
(* Only modelled once the running group has restored.                       *)
Reload(h, k) ==
  /\ phase = "run" /\ reloads < MaxReloads
  /\ <<h, k>> # <<hold, keep>>
  /\ hold' = h /\ keep' = k
  /\ reloads' = reloads + 1
  /\ UNCHANGED <<now, restored, phase, act, prev, store, restarts>>
  /\ nops' = nops + 1
  /\ hist' = Append(hist, [a |-> "Reload", hold |-> h, keep |-> k])

(* Process restart: memory state gone, storage stays.                       *)
Restart ==
  /\ restarts < MaxRestarts
  /\ phase = "run"
  /\ act' = <<>> /\ prev' = {} /\ restored' = FALSE /\ phase' = "e0"
  /\ restarts' = restarts + 1
  /\ UNCHANGED <<now, hold, keep, store, reloads>>
  /\ nops' = nops + 1
  /\ hist' = Append(hist, [a |-> "Restart"])

Init ==
  /\ now = T0
  /\ hold \in Holds /\ keep \in Keeps
  /\ restored \in BOOLEAN
  /\ phase = IF restored THEN "run" ELSE "e0"
  /\ act = <<>>
  /\ prev = {}
  /\ store = [l \in Labs |-> NoSample]
  /\ reloads = 0 /\ restarts = 0
  /\ nops = 0
  /\ hist = <<[a |-> "Init", hold |-> hold, keep |-> keep, restored |-> restored, t0 |-> T0,
               retention |-> Retention, tolerance |-> Tolerance, grace |-> Grace,
               resend |-> ResendDelay, interval |-> Interval]>>
  /\ TLCSet(1, {})

End == nops = MaxOps /\ nops' = MaxOps + 1
       /\ UNCHANGED <<now, hold, keep, restored, phase, act, prev, store, reloads, restarts, hist>>

Next == \/ /\ nops < MaxOps
           /\ \/ \E dt \in Steps, R \in SUBSET Labs : Eval(dt, R)
              \/ \E d \in RestoreLag : Restore(d)
              \/ \E h \in Holds, k \in Keeps : Reload(h, k)
              \/ Restart
        \/ End

Spec == Init /\ [][Next]_vars

\* times are translation invariant: explore states up to a shift of the time axis
Rel(t) == IF t = Z THEN -1 ELSE now - t
View == <<hold, keep, restored, phase, reloads, restarts, prev,
          [l \in Dom(act) |-> <<act[l].st, Rel(act[l].activeAt), Rel(act[l].resolvedAt), Rel(act[l].kfs),
                                Rel(act[l].lastSent)>>],
          [l \in Labs |-> <<Rel(store[l].t), Rel(store[l].v), store[l].stale>>]>>

-----------------------------------------------------------------------------
(* The property as stated (C44), independent of the transcription.          *)

Last(h) == h[Len(h)]
IsEval == hist' # hist /\ Last(hist').a = "Eval"
IsRestore == hist' # hist /\ Last(hist').a = "Restore"
ResOf(st) == {r.l : r \in st.res}

TypeOK ==
  /\ Dom(act) \subseteq Labs
  /\ \A l \in Dom(act) : /\ act[l].st \in {"pending", "firing", "inactive"}
                         /\ act[l].l = l
                         /\ (act[l].st = "inactive") <=> (act[l].resolvedAt # Z)
                         /\ (act[l].st = "firing") <=> (act[l].firedAt # Z /\ act[l].resolvedAt = Z)
                         /\ act[l].activeAt # Z /\ act[l].activeAt <= now
  /\ phase \in {"e0", "e1", "e2", "run"}
  /\ restored <=> phase = "run"

\* time of the first evaluation of the trailing run of evaluations (of this process, since the
\* last reload) of h in which l is absent from the result
RECURSIVE AbsentSinceFrom(_, _, _, _)
AbsentSinceFrom(h, l, i, acc) ==
  IF i = 0 \/ h[i].a \in {"Restart", "Init"} THEN acc
  ELSE IF h[i].a = "Eval" THEN (IF l \in ResOf(h[i]) THEN acc ELSE AbsentSinceFrom(h, l, i - 1, h[i].ts))
  ELSE AbsentSinceFrom(h, l, i - 1, acc)
AbsentSince(h, l) == AbsentSinceFrom(h, l, Len(h), Z)

\* (1) an alert is pending from its first active evaluation; a resolved alert that reappears
\*     starts a new pending period
Ref_Activation == [][IsEval => LET ts == now' IN
  \A l \in ResOf(Last(hist')) :
     /\ l \in Dom(act')
     /\ act'[l].resolvedAt = Z
     /\ IF l \in Dom(act) /\ act[l].st # "inactive"
        THEN act'[l].activeAt = act[l].activeAt          \* stayed active: activation time kept
        ELSE act'[l].activeAt = ts]_vars                  \* first active evaluation / reappearance

\* (2) it is firing exactly from the first evaluation at least `for` after its activation
Ref_Firing == [][IsEval => LET ts == now' IN
  \A l \in ResOf(Last(hist')) :
     /\ act'[l].st = (IF ts - act'[l].activeAt >= hold THEN "firing" ELSE "pending")
     /\ act'[l].st = "firing" =>
          act'[l].firedAt = (IF l \in Dom(act) /\ act[l].st = "firing" THEN act[l].firedAt ELSE ts)]_vars

\* (3) absent: pending dropped; firing resolved unless within keep_firing_for (counted from the
\*     first evaluation at which it was absent); resolved kept for the retention period
Ref_Absent == [][IsEval => LET ts == now' IN
  \A l \in Dom(act) \ ResOf(Last(hist')) :
     CASE act[l].st = "pending" -> l \notin Dom(act')
       [] act[l].st = "firing" ->
            /\ l \in Dom(act')
            /\ IF keep > 0 /\ ts - AbsentSince(hist', l) < keep
               THEN /\ act'[l].resolvedAt = Z
                    /\ act'[l].activeAt = act[l].activeAt
                    /\ act'[l].st = (IF ts - act[l].activeAt >= hold THEN "firing" ELSE "pending")
               ELSE act'[l].st = "inactive" /\ act'[l].resolvedAt = ts
       [] act[l].st = "inactive" ->
            IF ts - act[l].resolvedAt > Retention THEN l \notin Dom(act')
            ELSE l \in Dom(act') /\ act'[l].st = "inactive" /\ act'[l].resolvedAt = act[l].resolvedAt]_vars

\* nothing appears from nowhere
Ref_NoSpurious == [][IsEval => \A l \in Dom(act') : l \in Dom(act) \/ l \in ResOf(Last(hist'))]_vars

\* (4) once restored, the written series are exactly ALERTS{alertstate}=1 and ALERTS_FOR_STATE=activeAt
\*     of the pending/firing alerts, plus staleness markers for series written last time and not now;
\*     before the restore nothing is written
Ref_Series == [][IsEval => LET st == Last(hist') IN
  IF ~restored THEN st.written = {}
  ELSE LET live == {l \in Dom(act') : act'[l].st \in {"pending", "firing"}} IN
       /\ {w \in st.written : ~w.stale} =
            UNION {{[k |-> "A", l |-> l, st |-> act'[l].st, stale |-> FALSE, v |-> 1],
                    [k |-> "F", l |-> l, st |-> "", stale |-> FALSE, v |-> act'[l].activeAt]} : l \in live}
       /\ {[k |-> w.k, l |-> w.l, st |-> w.st] : w \in {x \in st.written : x.stale}} =
            prev \ {[k |-> w.k, l |-> w.l, st |-> w.st] : w \in {x \in st.written : ~x.stale}}]_vars

\* (5) restore: an alert whose ALERTS_FOR_STATE sample is within the outage tolerance gets its
\*     pending time back: it will fire (if it stays active) at the time it would have fired, shifted
\*     by the down time, but not sooner than the grace period after the restore, and immediately
\*     if it had already been held long enough; otherwise the activation time is untouched
FireAt(x) == x.activeAt + hold
Ref_Restore == [][IsRestore => LET ts == now' IN
  /\ restored'
  /\ Dom(act') = Dom(act)
  /\ \A l \in Dom(act) :
       LET s == store[l] IN
       IF hold < Grace \/ s.t = Z \/ s.stale \/ ts - s.t > Tolerance
       THEN act'[l] = act[l]
       ELSE LET wouldFire == s.v + hold            \* firing time before the outage
                down == ts - s.t IN
            /\ act'[l] = [act[l] EXCEPT !.activeAt = act'[l].activeAt]
            /\ IF wouldFire <= s.t THEN FireAt(act'[l]) = wouldFire
               ELSE IF wouldFire - s.t < Grace THEN FireAt(act'[l]) = ts + Grace
               ELSE FireAt(act'[l]) = wouldFire + down]_vars

\* only firing or resolved alerts are ever handed to the notifier, and every alert that resolves
\* in an evaluation is sent in that evaluation
Ref_Sent == [][IsEval => LET st == Last(hist') IN
  /\ \A x \in st.sent : x.st # "pending" /\ x.lastSent = now'
  /\ \A l \in Dom(act') : (act'[l].resolvedAt = now') => act'[l] \in st.sent]_vars

-----------------------------------------------------------------------------
(* Behaviour emission.                                                      *)

\* coverage class of an Eval step: per label the branch of the loop body taken, with the
\* position of every compared quantity relative to its threshold (<, =, >)
Cmp(x, y) == IF x < y THEN "<" ELSE IF x = y THEN "=" ELSE ">"
SendCls(l, ts) ==
  IF l \notin Dom(act') THEN "gone"
  ELSE IF act'[l].st = "pending" THEN "p"
  ELSE IF act'[l].lastSent = ts THEN
         (IF l \in Dom(act) /\ act[l].lastSent # Z /\ act[l].st # "pending"
          THEN <<"resent", Cmp(ts - act[l].lastSent, ResendDelay)>> ELSE "first")
  ELSE <<"held", Cmp(ts - act'[l].lastSent, ResendDelay)>>
Branch(l, R, ts) ==
  IF l \notin Dom(act) THEN (IF l \in R THEN <<"new", Cmp(0, hold)>> ELSE <<"none">>)
  ELSE LET x == act[l] IN
    IF l \in R
    THEN IF x.st = "inactive" THEN <<"reappear", Cmp(0, hold), Cmp(ts - x.resolvedAt, Retention)>>
         ELSE <<"present", x.st, Cmp(ts - x.activeAt, hold), x.kfs # Z, SendCls(l, ts)>>
    ELSE <<"absent", x.st,
           IF x.st = "firing" /\ keep > 0 THEN Cmp(ts - KfsAbsent(x, ts), keep) ELSE "na",
           IF x.resolvedAt # Z THEN Cmp(ts - x.resolvedAt, Retention) ELSE "na",
           x.kfs # Z,
           IF KeepFiring(x, ts) THEN Cmp(ts - x.activeAt, hold) ELSE "na",
           SendCls(l, ts)>>

Class ==
  LET st == Last(hist') IN
  IF st.a = "Eval"
  THEN <<"Eval", restored, hold, keep, [l \in Labs |-> Branch(l, ResOf(st), now')],
         {<<x.l, x.st>> : x \in st.sent}, {<<w.k, w.st, w.stale>> : w \in st.written}>>
  ELSE IF st.a = "Restore"
  THEN <<"Restore", hold, now' - now,
         [l \in Labs |-> IF l \notin Dom(act) THEN <<"none">>
                         ELSE IF hold < Grace THEN <<"skip">>
                         ELSE IF ~Found(l, now') THEN <<"notfound", store[l].t # Z, Cmp(now' - store[l].t, Tolerance)>>
                         ELSE IF store[l].stale THEN <<"stale">>
                         ELSE LET rem == hold - (store[l].t - store[l].v) IN
                              <<act[l].st, Cmp(rem, 0), Cmp(rem, Grace), Cmp(now' - store[l].t, Tolerance),
                                Cmp(now' - act[l].activeAt, hold)>>]>>
  ELSE IF st.a = "Reload"
  THEN <<"Reload", hold, keep, hold', keep', {act[l].st : l \in Dom(act)}>>
  ELSE <<"Restart", {act[l].st : l \in Dom(act)}>>

Emit ==
  CASE EmitMode = "none" -> TRUE
    [] EmitMode = "all"  -> hist' = hist \/ PrintT("@@TR " \o ToJson(hist'))
    [] hist' = hist -> TRUE
    [] OTHER -> LET cl == Class IN
                \/ cl \in TLCGet(1)
                \/ /\ TLCSet(1, TLCGet(1) \cup {cl})
                   /\ PrintT("@@TR " \o ToJson(hist'))

EmitWalk == nops <= MaxOps \/ PrintT("@@TR " \o ToJson(hist))
=============================================================================
