SPECIFICATION Spec
CONSTANTS
  Names = {"a"}
  Values = {"x", "y"}
  Encs = {"xor", "hist", "fhist"}
  MaxSeries = 2
  MaxChunks = 2
  NVals = {3}
  Damaging = TRUE
  Cards = {}
  EmitMode = "all"
VIEW View
INVARIANTS TypeOK RanksOK IndexOK Stable WideOK DamageDetected EmitState
CHECK_DEADLOCK FALSE
