SPECIFICATION Spec
CONSTANTS
  Names = {"a", "b", "c"}
  Values = {"x", "y"}
  Encs = {"xor"}
  MaxSeries = 3
  MaxChunks = 1
  NVals = {2}
  Damaging = FALSE
  Cards = {}
  EmitMode = "none"
VIEW View
INVARIANTS TypeOK RanksOK IndexOK Stable WideOK DamageDetected EmitState
CHECK_DEADLOCK FALSE
