SPECIFICATION Spec
CONSTANTS
  Names = {"a", "b"}
  Values = {"x", "y"}
  Encs = {"xor"}
  MaxSeries = 3
  MaxChunks = 2
  NVals = {2}
  Damaging = FALSE
  Cards = {31, 32, 33, 34, 63, 64, 65}
  EmitMode = "all"
VIEW View
INVARIANTS TypeOK RanksOK IndexOK Stable WideOK DamageDetected EmitState
CHECK_DEADLOCK FALSE
