SPECIFICATION Spec
CONSTANTS
  Names = {"a", "b"}
  Values = {"x", "y"}
  Encs = {"xor"}
  MaxSeries = 3
  MaxChunks = 2
  NVals = {2}
  Damaging = FALSE
  EmitMode = "all"
VIEW View
INVARIANTS TypeOK RanksOK IndexOK Stable DamageDetected EmitState
CHECK_DEADLOCK FALSE
