------------------------------ MODULE BlockFmt ------------------------------
(***************************************************************************)
(* What a persistent block must give back: tsdb/index (Writer, Reader:     *)
(* symbols, postings, label values, series entries protected by CRC32),    *)
(* tsdb/chunks (Writer cutting segment files, Reader.ChunkOrIterable with  *)
(* checkCRC32), OpenBlock.  Property C24.                                  *)
(*                                                                         *)
(* Abstract block: a set of series, each a label set (function from a      *)
(* subset of Names to Values) and a sequence of chunks [enc, n] (encoding, *)
(* number of samples; chunk k of a series covers [100k, 100k + n - 1]).    *)
(*                                                                         *)
(* Everything the readers of the opened block must return is *derived*     *)
(* here from the abstract block (Obs): symbol table, label names, label    *)
(* values, postings lists in series order, all-postings, the series        *)
(* entries in label order with their chunk metas.                          *)
(*                                                                         *)
(* On-disk layout, as far as C24 talks about it: a chunk record is         *)
(*   len(uvarint) | encoding(1) | data(len) | crc32(4)   crc over enc+data *)
(* a series entry of the index is                                          *)
(*   len(uvarint) | body(len) | crc32(4)                 crc over body     *)
(* Damage alters one byte of one such record; the byte classes below name  *)
(* the positions that are distinguished.                                   *)
(*                                                                         *)
(* Actions: AddSeries, AddChunk (the block is put together), Write (block  *)
(* written and opened: Obs must hold), Reopen (Obs again), Recompact (the  *)
(* block is rewritten by a compaction: Obs again), Damage + ReadBack.      *)
(***************************************************************************)
EXTENDS Integers, Sequences, FiniteSets, TLC, Json

CONSTANTS Names,       \* subset of {"a", "b", "c"}   (lexicographic order = NRank)
          Values,      \* subset of {"x", "y", "z"}
          Encs,        \* subset of {"xor", "hist", "fhist"}
          MaxSeries, MaxChunks,
          NVals,       \* numbers of samples per chunk
          Damaging,    \* BOOLEAN: explore Damage/ReadBack
          Cards,       \* numbers of distinct values of one label name in a "wide" block (around the reader's 32-value sampling grid)
          EmitMode

VARIABLES series,      \* set of [labels, chunks]
          wide,        \* 0, or n: the block is the wide block with n series {job="j", w="v001".."v<n>"}
          phase,       \* "build" | "open" | "damaged" | "checked"
          damage,      \* what was altered
          hist

vars == <<series, wide, phase, damage, hist>>
View == <<series, wide, phase, damage, Len(hist)>>

NRank(n) == CASE n = "a" -> 1 [] n = "b" -> 2 [] n = "c" -> 3
VRank(v) == CASE v = "x" -> 1 [] v = "y" -> 2 [] v = "z" -> 3
NoDamage == [kind |-> "none"]

LabelSets == UNION {[D -> Values] : D \in SUBSET Names \ {{}}}

\* labels.Compare: label sets as name-sorted pair lists, compared lexicographically (a proper prefix is smaller)
RECURSIVE Pairs(_, _)
Pairs(l, k) == IF k > 3 THEN <<>>
               ELSE LET N == {n \in DOMAIN l : NRank(n) = k} IN
                    (IF N = {} THEN <<>> ELSE LET n == CHOOSE x \in N : TRUE IN <<<<k, VRank(l[n])>>>>) \o Pairs(l, k + 1)
RECURSIVE LexLess(_, _)
LexLess(p, q) == IF p = <<>> THEN q # <<>>
                 ELSE IF q = <<>> THEN FALSE
                 ELSE IF p[1] = q[1] THEN LexLess(Tail(p), Tail(q))
                 ELSE p[1][1] < q[1][1] \/ (p[1][1] = q[1][1] /\ p[1][2] < q[1][2])
Less(a, b) == LexLess(Pairs(a, 1), Pairs(b, 1))

\* position of a series in the index (series are written in label order; postings list them in this order)
Rank(s) == 1 + Cardinality({o \in series : Less(o.labels, s.labels)})
ByRank(r) == CHOOSE s \in series : Rank(s) = r
N == Cardinality(series)

-----------------------------------------------------------------------------
(* Reference: what the opened block returns                                 *)
LabelNames == UNION {DOMAIN s.labels : s \in series}
LabelValues(n) == {s.labels[n] : s \in {x \in series : n \in DOMAIN x.labels}}
Symbols == LabelNames \cup UNION {LabelValues(n) : n \in LabelNames}
\* Postings(n, v): ranks of the series carrying n=v, ascending
RECURSIVE UpTo(_, _)
UpTo(P, r) == IF r > N THEN <<>> ELSE (IF r \in P THEN <<r>> ELSE <<>>) \o UpTo(P, r + 1)
Postings(n, v) == UpTo({Rank(s) : s \in {x \in series : n \in DOMAIN x.labels /\ x.labels[n] = v}}, 1)
ChunkMetas(s) == [k \in 1..Len(s.chunks) |-> [enc |-> s.chunks[k].enc, n |-> s.chunks[k].n,
                                             mint |-> 100 * k, maxt |-> 100 * k + s.chunks[k].n - 1]]
Obs == [symbols  |-> Symbols,
        names    |-> LabelNames,
        values   |-> [n \in LabelNames |-> LabelValues(n)],
        postings |-> [n \in LabelNames |-> [v \in LabelValues(n) |-> Postings(n, v)]],
        series   |-> [r \in 1..N |-> [labels |-> ByRank(r).labels, chunks |-> ChunkMetas(ByRank(r))]]]

\* A "wide" block: n series {job="j", w="v001"} .. {job="j", w="v<n>"} (zero-padded, so value order = number
\* order = series order), one chunk each. The index reader keeps only every 32nd value of a label name in
\* memory plus the first and the last one (tsdb/index newReader, symbolFactor); what it returns must not
\* depend on where n falls on that grid.
WideObs(n) == [wide |-> n, names |-> {"job", "w"}, nvalues |-> n,
               firstrank |-> 1, lastrank |-> n,          \* series holding the smallest / largest value of w
               all |-> n,                                \* w =~ "v.*"  and  PostingsForAllLabelValues(w)
               notfirst |-> n - 1, notlast |-> n - 1,    \* w != "v001",  w != "v<n>"
               onlylast |-> 1,                           \* w =~ ".*<n>" (regexp that cannot be turned into a lookup)
               grid |-> n % 32]
CurObs == IF wide > 0 THEN WideObs(wide) ELSE Obs

-----------------------------------------------------------------------------
Init == series = {} /\ wide = 0 /\ phase = "build" /\ damage = NoDamage /\ hist = <<>>

AddSeries(l) ==
  /\ phase = "build" /\ N < MaxSeries
  /\ \A s \in series : s.labels # l
  /\ series' = series \cup {[labels |-> l, chunks |-> <<>>]}
  /\ UNCHANGED <<phase, damage, hist, wide>>

AddChunk(s, enc, n) ==
  /\ phase = "build" /\ s \in series /\ Len(s.chunks) < MaxChunks
  /\ series' = (series \ {s}) \cup {[s EXCEPT !.chunks = Append(@, [enc |-> enc, n |-> n])]}
  /\ UNCHANGED <<phase, damage, hist, wide>>

\* the block is written (LeveledCompactor.write: chunks.Writer, index.Writer, meta) and opened
Write ==
  /\ phase = "build" /\ series # {} /\ \A s \in series : s.chunks # <<>>
  /\ phase' = "open"
  /\ hist' = <<[a |-> "Write", obs |-> Obs]>>
  /\ UNCHANGED <<series, damage, wide>>

WriteWide(n) ==
  /\ phase = "build" /\ series = {} /\ n \in Cards
  /\ wide' = n /\ phase' = "open"
  /\ hist' = <<[a |-> "Write", obs |-> WideObs(n)]>>
  /\ UNCHANGED <<series, damage>>

Reopen ==
  /\ phase = "open" /\ Len(hist) = 1
  /\ hist' = Append(hist, [a |-> "Reopen", obs |-> CurObs])
  /\ UNCHANGED <<series, phase, damage, wide>>

Recompact ==
  /\ phase = "open" /\ Len(hist) = 2
  /\ hist' = Append(hist, [a |-> "Recompact", obs |-> CurObs])
  /\ UNCHANGED <<series, phase, damage, wide>>

ChunkBytes == {"len", "enc", "data_first", "data_mid", "data_last", "crc_first", "crc_last"}
EntryBytes == {"len", "body_first", "body_mid", "body_last", "crc_first", "crc_last"}
Masks == {1, 128, 255}

\* one byte of one chunk record / series entry is altered on disk
Damage(d) ==
  /\ Damaging /\ wide = 0 /\ phase = "open" /\ Len(hist) = 3
  /\ damage' = d /\ phase' = "damaged"
  /\ UNCHANGED <<series, hist, wide>>

\* what reading every entity of the damaged block must give: an error for the altered record, the
\* original for every other one -- never different data
ReadResult(d) ==
  [series |-> [r \in 1..N |-> IF d.kind = "series" /\ d.rank = r THEN "error" ELSE "same"],
   chunks |-> [r \in 1..N |-> [k \in 1..Len(ByRank(r).chunks) |->
                 IF d.kind = "chunk" /\ d.rank = r /\ d.k = k THEN "error" ELSE "same"]]]

ReadBack ==
  /\ phase = "damaged"
  /\ phase' = "checked"
  /\ hist' = Append(hist, [a |-> "Damage", d |-> damage, read |-> ReadResult(damage)])
  /\ UNCHANGED <<series, damage, wide>>

Damages == {[kind |-> "chunk", rank |-> Rank(s), k |-> k, byte |-> b, mask |-> m] :
              s \in series, k \in 1..MaxChunks, b \in ChunkBytes, m \in Masks}
           \cup {[kind |-> "series", rank |-> Rank(s), k |-> 0, byte |-> b, mask |-> m] :
              s \in series, b \in EntryBytes, m \in Masks}

Next == \/ \E l \in LabelSets : AddSeries(l)
        \/ \E s \in series, e \in Encs, n \in NVals : AddChunk(s, e, n)
        \/ Write \/ Reopen \/ Recompact
        \/ \E n \in Cards : WriteWide(n)
        \/ \E d \in Damages : (d.kind = "chunk" => d.k <= Len(ByRank(d.rank).chunks)) /\ Damage(d)
        \/ ReadBack

Spec == Init /\ [][Next]_vars

-----------------------------------------------------------------------------
(* C24 on the design                                                        *)
TypeOK == \A s \in series : s.labels \in LabelSets

\* ranks are a bijection onto 1..N (label sets are totally ordered)
RanksOK == {Rank(s) : s \in series} = 1..N

\* index semantics: every series is in the postings list of each of its labels and in no other;
\* lists are strictly ascending; names/values/symbols are exactly what occurs
IndexOK ==
  /\ \A n \in LabelNames : \A v \in LabelValues(n) :
       LET p == Postings(n, v) IN
       /\ \A i \in 1..(Len(p) - 1) : p[i] < p[i + 1]
       /\ \A r \in 1..N : (\E i \in 1..Len(p) : p[i] = r) <=> (n \in DOMAIN ByRank(r).labels /\ ByRank(r).labels[n] = v)
  /\ \A s \in series : \A n \in DOMAIN s.labels : n \in Symbols /\ s.labels[n] \in Symbols

\* reopening or rewriting the block does not change what it returns
Stable == \A i \in 1..Len(hist) : hist[i].a \in {"Write", "Reopen", "Recompact"} => hist[i].obs = CurObs

\* a wide block returns all of its n values and finds the series of the last one, wherever n falls on the grid
WideOK == wide > 0 => \A i \in 1..Len(hist) : hist[i].obs.nvalues = wide /\ hist[i].obs.lastrank = wide
                                               /\ hist[i].obs.notlast = wide - 1 /\ hist[i].obs.all = wide

\* exactly the altered record is refused, everything else is returned unchanged
DamageDetected ==
  phase = "checked" =>
    LET r == hist[Len(hist)].read IN
    /\ Cardinality({<<x, k>> \in (1..N) \X (1..MaxChunks) : k <= Len(r.chunks[x]) /\ r.chunks[x][k] = "error"})
         + Cardinality({x \in 1..N : r.series[x] = "error"}) = 1
    /\ \A x \in 1..N : r.series[x] \in {"same", "error"}

-----------------------------------------------------------------------------
Class == IF wide > 0 THEN <<"wide", wide, wide % 32>> ELSE
         IF phase = "checked"
         THEN <<"damage", damage.kind, damage.byte, damage.mask, N,
                IF damage.kind = "chunk" THEN ByRank(damage.rank).chunks[damage.k].enc ELSE "-",
                IF damage.kind = "chunk" THEN damage.k ELSE 0>>
         ELSE <<"open", N, Cardinality(Symbols), Cardinality(LabelNames),
                Cardinality({Len(s.chunks) : s \in series}), Cardinality(UNION {{c.enc : c \in {s.chunks[k] : k \in 1..Len(s.chunks)}} : s \in series})>>

\* terminal states: a block that went through Write/Reopen/Recompact (+ Damage/ReadBack)
EmitState == EmitMode = "none" \/ ~(phase = "checked" \/ ((~Damaging \/ wide > 0) /\ phase = "open" /\ Len(hist) = 3))
             \/ PrintT("@@TR " \o ToJson([cl |-> Class, h |-> hist, wide |-> wide,
                                          block |-> [r \in 1..N |-> [labels |-> ByRank(r).labels, chunks |-> ByRank(r).chunks]]]))
=============================================================================
