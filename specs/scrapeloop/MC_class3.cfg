\* thorough: three steps over the full alphabet, one behaviour per coverage class (workers=1)
SPECIFICATION Spec
CONSTANTS
  Mets = {"a", "a2", "b", "c", "d", "L"}
  EMets = {"b", "c"}
  MaxBody = 2
  Limits = {0, 1}
  Tracks = {FALSE, TRUE}
  MaxChurn = 1
  WithStop = TRUE
  MaxOps = 3
  EmitMode = "class"
VIEW View
INVARIANTS TypeOK FailedStoresNothing CountersMatch NoStaleForExposed
PROPERTIES LogMatchesProperty TrackingMatches SeriesAddedMatches
ACTION_CONSTRAINT Emit
CHECK_DEADLOCK FALSE
