\* seeded random walks: long histories, bodies of up to 4 lines
SPECIFICATION SimSpec
CONSTANTS
  Mets = {"a", "a2", "b", "c", "d", "L"}
  EMets = {"a", "b", "c"}
  MaxBody = 3
  Limits = {0, 2, 3}
  Tracks = {FALSE, TRUE}
  MaxChurn = 4
  WithStop = TRUE
  EmitMode = "none"
INVARIANTS TypeOK FailedStoresNothing CountersMatch NoStaleForExposed EmitWalk
PROPERTIES LogMatchesProperty TrackingMatches SeriesAddedMatches
CHECK_DEADLOCK FALSE
