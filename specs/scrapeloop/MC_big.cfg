\* thorough: check only, longer bodies and histories
SPECIFICATION Spec
CONSTANTS
  Mets = {"a", "a2", "b", "c", "d", "L"}
  EMets = {"b", "c"}
  MaxBody = 3
  Limits = {0, 2}
  Tracks = {FALSE, TRUE}
  MaxChurn = 2
  WithStop = TRUE
  MaxOps = 3
  EmitMode = "none"
VIEW View
INVARIANTS TypeOK FailedStoresNothing CountersMatch NoStaleForExposed
PROPERTIES LogMatchesProperty TrackingMatches SeriesAddedMatches
CHECK_DEADLOCK FALSE
