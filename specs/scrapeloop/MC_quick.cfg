\* every history of two steps over the full alphabet: every transition is emitted and replayed
SPECIFICATION Spec
CONSTANTS
  Mets = {"a", "a2", "b", "c", "d", "L"}
  EMets = {"b", "c"}
  MaxBody = 2
  Limits = {0, 1}
  Tracks = {FALSE, TRUE}
  MaxChurn = 1
  WithStop = TRUE
  MaxOps = 2
  EmitMode = "all"
VIEW View
INVARIANTS TypeOK FailedStoresNothing CountersMatch NoStaleForExposed
PROPERTIES LogMatchesProperty TrackingMatches SeriesAddedMatches
ACTION_CONSTRAINT Emit
CHECK_DEADLOCK FALSE
