----------------------------- MODULE ScrapeLoop -----------------------------
(***************************************************************************)
(* C37 - the scrape loop as a history state machine.                        *)
(*                                                                         *)
(* Two layers over the same history of scrape outcomes:                    *)
(*                                                                         *)
(*  REFERENCE (what the property demands) - variable `tracked`:            *)
(*     the set of series that were exposed (without explicit timestamp,    *)
(*     or any when track_timestamps_staleness is on) by the previous       *)
(*     scrape if it succeeded, {} if it failed.  RefScrape computes the    *)
(*     append log the storage must receive (`want`).                       *)
(*                                                                         *)
(*  TRANSCRIPTION of scrape/scrape.go - variables cs, cd, cur, prev:       *)
(*     scrapeCache.series / droppedSeries / seriesCur / seriesPrev, plus   *)
(*     the storage's ref table (sref, nref) so that reference churn        *)
(*     (scrapeCache.updateRef / moveStaleness) is exercised.  ImplScrape   *)
(*     computes the append log the code produces (`impl`).                 *)
(*                                                                         *)
(* TLC checks that the two logs are equal as multisets on every step,      *)
(* except for the recorded deviation KF-C37-1 (PartialFail below).         *)
(* The replay harness compares the real scrapeLoop with `want`.            *)
(*                                                                         *)
(* One action = one scrapeLoop.scrapeAndReport call (Scrape), one storage  *)
(* garbage collection that changes a series' ref (Churn), or target        *)
(* removal (Stop = scrapeLoop.endOfRunStaleness).  The steps inside a      *)
(* scrape are sequential and are written as operators named after the Go   *)
(* functions they transcribe.                                              *)
(***************************************************************************)
EXTENDS Integers, Sequences, FiniteSets, TLC, Json, Randomization

CONSTANTS Mets,      \* exposed metric strings, subset of {"a","a2","b","c","d","L"}
          EMets,     \* subset of Mets that may carry an explicit timestamp
          MaxBody,   \* max number of sample lines in a body
          Limits,    \* sample_limit values explored (0 = unlimited)
          Tracks,    \* subset of BOOLEAN: track_timestamps_staleness
          MaxChurn,  \* max number of storage ref changes in a history
          WithStop,  \* BOOLEAN: explore target removal
          MaxOps,    \* history length
          EmitMode   \* "all" | "class" | "none"

VARIABLES limit, track,            \* configuration (constant over a history)
          cs, cd, cur, prev,       \* transcription: scrapeCache
          sref, nref, churns,      \* storage ref table
          tracked, lastOK, lastMets, \* reference state
          taint,                   \* TRUE while the transcription state has diverged from the reference (KF-C37-1)
          stopped, nops, hist

vars == <<limit, track, cs, cd, cur, prev, sref, nref, churns, tracked, lastOK, lastMets, taint, stopped, nops, hist>>
View == <<limit, track, cs, cd, cur, prev, sref, nref, churns, tracked, lastOK, lastMets, taint, stopped>>

-----------------------------------------------------------------------------
(* Metric relabelling table (metric_relabel_configs of the harness):        *)
(*   a  = ma{x="1"}, a2 = ma{x="2"}  --labeldrop x-->  series A (aliases)   *)
(*   b  = mb -> B,  c = mc{k="v"} -> C                                      *)
(*   d  = md{k="v"}  --drop-->  dropped                                     *)
(*   L  = ml{l1,l2,l3}  exceeds label_limit                                 *)
Ser(m) == CASE m \in {"a", "a2"} -> "A"
            [] m = "b" -> "B"
            [] m = "c" -> "C"
            [] m = "d" -> "drop"
            [] m = "L" -> "toolong"
SeriesIds == {"A", "B", "C"}
Churnable == {"B", "C"}     \* bound: the aliased series A keeps its ref (see notes/C37.md)

Items == [m : Mets, e : {0}] \cup [m : EMets, e : {1}]     \* e = 1: line carries an explicit timestamp
Bodies == UNION {[1..n -> Items] : n \in 0..MaxBody}

Range(q) == {q[i] : i \in DOMAIN q}
BagOf(q) == [x \in Range(q) |-> Cardinality({i \in DOMAIN q : q[i] = x})]

\* a sample in an append log: series s, scrape index i, body position p (0 for a stale marker),
\* x = p when the line carried an explicit timestamp (sample time = that timestamp) else 0 (= scrape time)
Sample(s, i, p, x) == [s |-> s, i |-> i, p |-> p, x |-> x, st |-> FALSE]
Stale(s, i)        == [s |-> s, i |-> i, p |-> 0, x |-> 0, st |-> TRUE]

RECURSIVE SetToSeq(_)
SetToSeq(S) == IF S = {} THEN <<>> ELSE LET x == CHOOSE y \in S : TRUE IN <<x>> \o SetToSeq(S \ {x})

-----------------------------------------------------------------------------
(*                               REFERENCE                                  *)

\* indices of the lines whose sample reaches storage in a scrape that succeeds: not dropped by relabelling and
\* not a repetition (without explicit timestamp) of a metric string already seen in this body
RefStoredIdx(body) == {i \in DOMAIN body :
                         /\ Ser(body[i].m) \in SeriesIds
                         /\ ~(body[i].e = 0 /\ \E j \in 1..(i - 1) : body[j].m = body[i].m)}
RefPostRelabelIdx(body) == {i \in DOMAIN body : Ser(body[i].m) # "drop"}

\* the scrape counts as failed: transport failure, unparsable body, label limit or sample limit exceeded
RefFailed(fail, body, perr, lim) ==
  \/ fail
  \/ perr >= 0
  \/ \E i \in DOMAIN body : Ser(body[i].m) = "toolong"
  \/ lim > 0 /\ Cardinality(RefStoredIdx(body)) > lim

RefTrackedNow(body, trk) == {Ser(body[i].m) : i \in {j \in RefStoredIdx(body) : body[j].e = 0 \/ trk}}

\* want: the multiset of samples storage must receive for scrape number n (report series apart)
RefWant(fail, body, perr, lim, trk, trackedBefore, n) ==
  IF RefFailed(fail, body, perr, lim)
  THEN SetToSeq({Stale(s, n) : s \in trackedBefore})
  ELSE SetToSeq({Sample(Ser(body[i].m), n, i, IF body[i].e = 1 THEN i ELSE 0) : i \in RefStoredIdx(body)})
       \o SetToSeq({Stale(s, n) : s \in trackedBefore \ RefTrackedNow(body, trk)})

RefTrackedAfter(fail, body, perr, lim, trk) ==
  IF RefFailed(fail, body, perr, lim) THEN {} ELSE RefTrackedNow(body, trk)

\* report series of a scrape that succeeds
RefTotal(body) == Len(body)
RefAdded(body) == Cardinality(RefPostRelabelIdx(body))
RefSeriesAdded(body, before) == Cardinality({body[i].m : i \in RefStoredIdx(body)} \ before)

-----------------------------------------------------------------------------
(*                      TRANSCRIPTION of scrape/scrape.go                    *)

\* map assignment tracked[r] = m on a set of [r, m] records
MapSet(tr, r, m) == {x \in tr : x.r # r} \cup {[r |-> r, m |-> m]}

\* scrapeCache.updateRef + moveStaleness: re-key the tracking of cache entry m from its old ref to r
MoveStaleness(tr, old, r, m) ==
  IF [r |-> old, m |-> m] \in tr THEN MapSet({x \in tr : x.r # old}, r, m) ELSE tr

\* one iteration of the loop in scrapeLoopAppender.append / scrapeLoopAppenderV2.append
AppendItem(st, n, p, it, lim, trk) ==
  LET m == it.m
      st1 == [st EXCEPT !.total = @ + 1] IN
  IF st1.cd[m].in                                        \* sl.cache.getDropped(met)
  THEN [st1 EXCEPT !.cd[m].seen = TRUE]
  ELSE
  LET cached  == st1.cs[m].in                              \* sl.cache.get(met)
      already == cached /\ st1.cs[m].seen
      st2     == IF cached THEN [st1 EXCEPT !.cs[m].seen = TRUE] ELSE st1 IN
  IF ~cached /\ Ser(m) = "drop"                            \* sampleMutator returned empty labels: addDropped
  THEN [st2 EXCEPT !.cd[m] = [in |-> TRUE, seen |-> TRUE]]
  ELSE IF ~cached /\ Ser(m) = "toolong"                    \* verifyLabelLimits: break loop
  THEN [st2 EXCEPT !.err = "labellimit"]
  ELSE IF already /\ it.e = 0                              \* seriesAlreadyScraped && parsedTimestamp == nil
  THEN [st2 EXCEPT !.added = @ + 1]                        \* ErrDuplicateSampleForTimestamp, counted, not stored
  ELSE IF lim > 0 /\ st2.cnt + 1 > lim                     \* limitAppender: errSampleLimit, keep parsing
  THEN [st2 EXCEPT !.cnt = @ + 1, !.slim = TRUE, !.added = @ + 1]
  ELSE
  LET s    == Ser(m)
      new  == st2.sref[s] = 0
      r    == IF new THEN st2.nref ELSE st2.sref[s]        \* storage returns the series' current ref
      st3  == [st2 EXCEPT !.cnt = @ + 1,
                          !.sref[s] = r,
                          !.nref = IF new THEN @ + 1 ELSE @,
                          !.log = Append(@, Sample(s, n, p, IF it.e = 1 THEN p ELSE 0)),
                          !.added = @ + 1]
      trackIt == it.e = 0 \/ trk IN
  IF cached
  THEN LET old == st3.cs[m].ref
           pv  == IF old # r THEN MoveStaleness(st3.prev, old, r, m) ELSE st3.prev      \* updateRef
           cu  == IF old # r THEN MoveStaleness(st3.cur, old, r, m) ELSE st3.cur
       IN [st3 EXCEPT !.cs[m].ref = r, !.prev = pv,
                      !.cur = IF trackIt THEN MapSet(cu, r, m) ELSE cu]                  \* trackStaleness
  ELSE [st3 EXCEPT !.cs[m] = [in |-> TRUE, ref |-> r, seen |-> TRUE],                   \* addRef
                   !.cur = IF trackIt THEN MapSet(@, r, m) ELSE @,
                   !.sa = IF st3.slim THEN @ ELSE @ + 1]

RECURSIVE AppendLoop(_, _, _, _, _, _, _)
AppendLoop(st, n, p, body, perr, lim, trk) ==
  IF st.err # "" THEN st
  ELSE IF perr >= 0 /\ p > perr THEN [st EXCEPT !.err = "parse"]      \* p.Next() returns an error after perr lines
  ELSE IF p > Len(body) THEN st
  ELSE AppendLoop(AppendItem(st, n, p, body[p], lim, trk), n, p + 1, body, perr, lim, trk)

\* scrapeLoop.updateStaleMarkers over scrapeCache.forEachStale: entries of seriesPrev whose ref is not in seriesCur
StaleMarkers(st, n) ==
  LET curRefs == {x.r : x \in st.cur}
      gone    == {x \in st.prev : x.r \notin curRefs}
  IN [st EXCEPT !.log = @ \o SetToSeq({Stale(Ser(x.m), n) : x \in gone})]

\* scrapeCache.iterDone(flush)
IterDone(st, flush) ==
  [st EXCEPT !.cs = [m \in Mets |-> IF flush /\ ~st.cs[m].seen THEN [in |-> FALSE, ref |-> 0, seen |-> FALSE]
                                   ELSE [st.cs[m] EXCEPT !.seen = FALSE]],
             !.cd = [m \in Mets |-> IF flush /\ ~st.cd[m].seen THEN [in |-> FALSE, seen |-> FALSE]
                                   ELSE [st.cd[m] EXCEPT !.seen = FALSE]],
             !.prev = st.cur,
             !.cur = {}]

\* append() with an empty body: stale markers and swap, no flush
EmptyAppend(st, n) == IterDone(StaleMarkers(st, n), FALSE)

St0 == [cs |-> cs, cd |-> cd, cur |-> cur, prev |-> prev, sref |-> sref, nref |-> nref,
        log |-> <<>>, total |-> 0, added |-> 0, sa |-> 0, cnt |-> 0, slim |-> FALSE, err |-> ""]

\* the first app.append(b, ...) of scrapeLoop.scrapeAndReport (only called with a non-empty body)
FirstAppend(body, perr, n) ==
  LET a == AppendLoop(St0, n, 1, body, perr, limit, track)
  IN IF a.err = "" /\ a.slim THEN [a EXCEPT !.err = "samplelimit"] ELSE a

\* scrapeLoop.scrapeAndReport: the committed log and the state after it (a = FirstAppend(...))
ImplScrape(fail, body, perr, n, a) ==
  IF fail \/ (Len(body) = 0 /\ perr < 0)
  THEN EmptyAppend(St0, n)                                             \* failed scrape = empty scrape
  ELSE IF a.err = ""
       THEN IterDone(StaleMarkers(a, n), TRUE)                         \* updateStaleMarkers; deferred iterDone(true)
       ELSE EmptyAppend([a EXCEPT !.log = <<>>], n)                    \* Rollback; append([]byte{}) for stale markers

\* the deviation recorded as KF-C37-1: the scrape failed after some of its series had been put into seriesCur,
\* so the follow-up empty append does not mark them stale
PartialFail(fail, body, perr, a) ==
  /\ ~fail /\ ~(Len(body) = 0 /\ perr < 0)
  /\ a.err # "" /\ a.cur # {}

\* coverage class of a scrape step (mirrors the branch structure of append / scrapeAndReport); evaluated in the
\* pre-state, a = FirstAppend(...)
ScrapeClass(fail, failed, b, perr, a, diff) ==
    <<"Scrape", fail, failed, a.err, Len(b), perr,
      Cardinality(a.cur), Cardinality(prev), Cardinality({x \in prev : x.r \notin {y.r : y \in a.cur}}),
      \E i \in DOMAIN b : cs[b[i].m].in,                                   \* a cached line
      \E i \in DOMAIN b : ~cs[b[i].m].in /\ ~cd[b[i].m].in,                \* a new line
      \E i \in DOMAIN b : cd[b[i].m].in,                                   \* a cached dropped line
      \E i \in DOMAIN b : \E j \in 1..(i - 1) : b[j].m = b[i].m,           \* repetition
      \E i \in DOMAIN b : \E j \in 1..(i - 1) : b[j].m # b[i].m /\ Ser(b[j].m) = Ser(b[i].m),  \* alias
      \E i \in DOMAIN b : b[i].e = 1,
      \E i \in DOMAIN b : cs[b[i].m].in /\ Ser(b[i].m) \in SeriesIds /\ cs[b[i].m].ref # sref[Ser(b[i].m)], \* ref changed
      diff, taint, limit, track>>

AbsPrev(pv) == {Ser(x.m) : x \in pv}

-----------------------------------------------------------------------------
Init ==
  /\ limit \in Limits /\ track \in Tracks
  /\ cs = [m \in Mets |-> [in |-> FALSE, ref |-> 0, seen |-> FALSE]]
  /\ cd = [m \in Mets |-> [in |-> FALSE, seen |-> FALSE]]
  /\ cur = {} /\ prev = {}
  /\ sref = [s \in SeriesIds |-> 0] /\ nref = 1 /\ churns = 0
  /\ tracked = {} /\ lastOK = FALSE /\ lastMets = {}
  /\ taint = FALSE /\ stopped = FALSE /\ nops = 0
  /\ hist = <<[a |-> "Init", limit |-> limit, track |-> track]>>
  /\ TLCSet(1, {})

\* (a and r are bound through singleton sets so that TLC evaluates them once)
ScrapeStep(fail, body, perr, a, r) ==
  LET n      == nops + 1
      failed == RefFailed(fail, body, perr, limit)
      want   == RefWant(fail, body, perr, limit, track, tracked, n)
      tr2    == RefTrackedAfter(fail, body, perr, limit, track)
      diff   == BagOf(r.log) # BagOf(want)
  IN /\ ~stopped
     /\ cs' = r.cs /\ cd' = r.cd /\ cur' = r.cur /\ prev' = r.prev
     /\ sref' = r.sref /\ nref' = r.nref
     /\ tracked' = tr2
     /\ lastOK' = (~failed /\ Len(body) > 0)
     /\ lastMets' = IF ~failed /\ Len(body) > 0 THEN {body[i].m : i \in RefStoredIdx(body)} ELSE {}
     /\ taint' = (AbsPrev(r.prev) # tr2)
     /\ nops' = n
     /\ UNCHANGED <<limit, track, churns, stopped>>
     /\ hist' = Append(hist,
          [a |-> "Scrape", n |-> n, fail |-> fail, body |-> body, perr |-> perr,
           failed |-> failed, want |-> want,
           \* report series: up always strict; counts strict only for a scrape that succeeds
           up |-> IF failed THEN 0 ELSE 1,
           total |-> r.total, added |-> r.added, sa |-> r.sa,
           saStrict |-> (~failed /\ lastOK),
           \* transcription's prediction, carried only where it differs from the property (KF-C37-1)
           kf |-> diff, impl |-> IF diff THEN r.log ELSE <<>>,
           pf |-> PartialFail(fail, body, perr, a),
           cls |-> IF EmitMode = "class" THEN ScrapeClass(fail, failed, body, perr, a, diff) ELSE <<>>])

Scrape(fail, body, perr) ==
  \E a \in {FirstAppend(body, perr, nops + 1)} :
    \E r \in {ImplScrape(fail, body, perr, nops + 1, a)} : ScrapeStep(fail, body, perr, a, r)

\* the storage garbage-collected series s and re-creates it under a new ref at its next append
Churn(s) ==
  /\ ~stopped /\ churns < MaxChurn /\ sref[s] # 0
  /\ sref' = [sref EXCEPT ![s] = nref] /\ nref' = nref + 1 /\ churns' = churns + 1
  /\ nops' = nops + 1
  /\ UNCHANGED <<limit, track, cs, cd, cur, prev, tracked, lastOK, lastMets, taint, stopped>>
  /\ hist' = Append(hist, [a |-> "Churn", n |-> nops + 1, s |-> s])

\* target removed: scrapeLoop.endOfRunStaleness (append([]byte{}) at the next tick + reportStale)
StopStep(r) ==
  LET n    == nops + 1
      want == SetToSeq({Stale(s, n) : s \in tracked})
      diff == BagOf(r.log) # BagOf(want)
  IN /\ WithStop /\ ~stopped /\ nops > 0
     /\ stopped' = TRUE
     /\ cs' = r.cs /\ cd' = r.cd /\ cur' = r.cur /\ prev' = r.prev
     /\ tracked' = {} /\ lastOK' = FALSE /\ lastMets' = {}
     /\ taint' = (AbsPrev(r.prev) # {})
     /\ nops' = n
     /\ UNCHANGED <<limit, track, sref, nref, churns>>
     /\ hist' = Append(hist, [a |-> "Stop", n |-> n, want |-> want, kf |-> diff,
                              impl |-> IF diff THEN r.log ELSE <<>>])

\* after target removal nothing happens any more; Idle only lets a simulated walk reach its end
Idle == stopped /\ nops < MaxOps /\ nops' = nops + 1
        /\ UNCHANGED <<limit, track, cs, cd, cur, prev, sref, nref, churns, tracked, lastOK, lastMets, taint, stopped, hist>>

Stop == \E r \in {EmptyAppend(St0, nops + 1)} : StopStep(r)

End == nops = MaxOps /\ nops' = MaxOps + 1 /\ UNCHANGED <<limit, track, cs, cd, cur, prev, sref, nref, churns,
                                                        tracked, lastOK, lastMets, taint, stopped, hist>>

Next == \/ /\ nops < MaxOps
           /\ \/ \E body \in Bodies : \E perr \in -1..Len(body) : Scrape(FALSE, body, perr)
              \/ Scrape(TRUE, <<>>, -1)
              \/ \E s \in Churnable : Churn(s)
              \/ Stop
              \/ Idle
        \/ End

Spec == Init /\ [][Next]_vars

\* simulation only: each step offers a few randomly drawn bodies instead of all of them (TLC's simulator computes
\* and checks every successor of a step, which is too slow for bodies of 3 lines)
GoodBodies == {b \in Bodies : Len(b) > 0 /\ \A i \in DOMAIN b : b[i].m # "L"}
NextSim == \/ /\ nops < MaxOps
              /\ \/ \E body \in RandomSubset(3, GoodBodies) : Scrape(FALSE, body, -1)
                 \/ \E body \in RandomSubset(2, GoodBodies) : Scrape(FALSE, body, -1)
                 \/ \E body \in RandomSubset(2, Bodies) : \E perr \in {-1, RandomElement(-1..Len(body))} : Scrape(FALSE, body, perr)
                 \/ Scrape(TRUE, <<>>, -1)
                 \/ \E s \in Churnable : Churn(s)
                 \/ (nops >= MaxOps - 2 /\ Stop)
                 \/ Idle
           \/ End
SimSpec == Init /\ [][NextSim]_vars

-----------------------------------------------------------------------------
(*                              PROPERTIES                                  *)

TypeOK == /\ tracked \subseteq SeriesIds
          /\ \A x \in cur \cup prev : x.m \in Mets /\ x.r \in 1..(nref - 1)
          /\ cur = {}                                  \* between scrapes seriesCur is empty
          /\ \A m \in Mets : ~cs[m].seen /\ ~cd[m].seen

LastStep == hist[Len(hist)]
IsScrapeStep == LastStep.a \in {"Scrape", "Stop"}

\* C37 on the design: whenever the transcription's log differs from what the property demands, the history
\* went through the recorded deviation KF-C37-1 (a scrape that failed after tracking part of its series) and the
\* caches have not re-converged since.  Without KF-C37-1 this reads: the logs are always equal.
\* (Checked as an action property: the divergence of a step is explained by taint before it or PartialFail of it.)
KF_C37_1(h) == h.a = "Scrape" /\ h.pf

LogMatchesProperty ==
  [][ (hist' # hist /\ hist'[Len(hist')].a \in {"Scrape", "Stop"} /\ hist'[Len(hist')].kf)
        => (taint \/ KF_C37_1(hist'[Len(hist')])) ]_vars

\* the transcription's staleness tracking re-converges to the reference unless the step itself is KF-C37-1
TrackingMatches ==
  [][ (hist' # hist /\ taint') => (taint \/ KF_C37_1(hist'[Len(hist')])) ]_vars

\* a failed scrape stores none of its samples (both layers)
FailedStoresNothing ==
  IsScrapeStep /\ LastStep.a = "Scrape" /\ LastStep.failed
     => /\ \A i \in DOMAIN LastStep.want : LastStep.want[i].st
        /\ \A i \in DOMAIN LastStep.impl : LastStep.impl[i].st

\* report counters of a successful scrape equal their definition
CountersMatch ==
  IsScrapeStep /\ LastStep.a = "Scrape" /\ ~LastStep.failed
     => /\ LastStep.total = RefTotal(LastStep.body)
        /\ LastStep.added = RefAdded(LastStep.body)

\* series_added of a successful scrape that follows a successful scrape = newly exposed metric strings
SeriesAddedMatches ==
  [][ (hist' # hist /\ hist'[Len(hist')].a = "Scrape" /\ hist'[Len(hist')].saStrict)
        => hist'[Len(hist')].sa = RefSeriesAdded(hist'[Len(hist')].body, lastMets) ]_vars

\* a stale marker is never written for a series that the same scrape stored with the scrape timestamp
NoStaleForExposed ==
  IsScrapeStep /\ LastStep.a = "Scrape"
     => \A i, j \in DOMAIN LastStep.want :
          (LastStep.want[i].st /\ ~LastStep.want[j].st /\ LastStep.want[j].x = 0) => LastStep.want[i].s # LastStep.want[j].s

-----------------------------------------------------------------------------
(*                               EMISSION                                   *)

Class(h) ==
  LET st == h[Len(h)] IN
  IF st.a = "Scrape" THEN st.cls
  ELSE IF st.a = "Churn" THEN <<"Churn", st.s, Cardinality(prev)>>
  ELSE <<"Stop", Cardinality(prev), taint>>

Emit ==
  CASE EmitMode = "none" -> TRUE
    [] hist' = hist -> TRUE
    [] EmitMode = "all"  -> PrintT("@@TR " \o ToJson(hist'))
    [] OTHER -> LET cl == Class(hist') IN
                \/ cl \in TLCGet(1)
                \/ /\ TLCSet(1, TLCGet(1) \cup {cl})
                   /\ PrintT("@@TR " \o ToJson(hist'))

EmitWalk == nops <= MaxOps \/ PrintT("@@TR " \o ToJson(hist))
=============================================================================
