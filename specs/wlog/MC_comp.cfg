SPECIFICATION Spec
CONSTANTS
  PageSize = 32768
  Hdr = 7
  SegPagesSet = {1, 2, 3}
  MaxRecs = 2
  CompSet = {TRUE, FALSE}
  Classes = {"small", "rem", "rem+1", "page+1", "left", "left+1", "seg+1", "nearfull+1", "huge"}
  AllowCut = TRUE
  EmitMode = "class"
VIEW View
INVARIANTS TypeOK ReadBack LiveOK LiveComplete InPage NoSpan
ACTION_CONSTRAINT Emit
CHECK_DEADLOCK FALSE
