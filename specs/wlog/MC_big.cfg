SPECIFICATION Spec
CONSTANTS
  PageSize = 32768
  Hdr = 7
  SegPagesSet = {1, 2}
  MaxRecs = 4
  CompSet = {FALSE}
  Classes = {"zero", "small", "rem-1", "rem", "rem+1", "page+1", "left", "left+1", "seg+1", "nearfull+1"}
  AllowCut = TRUE
  EmitMode = "class"
VIEW View
INVARIANTS TypeOK ReadBack LiveOK LiveComplete InPage NoSpan
ACTION_CONSTRAINT Emit
CHECK_DEADLOCK FALSE
