SPECIFICATION Spec
CONSTANTS
  PageSize = 32768
  Hdr = 7
  SegPagesSet = {1, 2, 3}
  MaxRecs = 3
  CompSet = {FALSE}
  Classes = {"zero", "one", "small", "rem-1", "rem", "rem+1", "page", "page+1", "2page", "left-1", "left", "left+1", "seg", "seg+1", "nearfull", "nearfull+1"}
  AllowCut = TRUE
  EmitMode = "class"
VIEW View
INVARIANTS TypeOK ReadBack LiveOK LiveComplete InPage NoSpan
ACTION_CONSTRAINT Emit
CHECK_DEADLOCK FALSE
