--------------------------------- MODULE Wlog ---------------------------------
(***************************************************************************)
(* C13 -- the write-ahead log returns exactly the records written.         *)
(*                                                                         *)
(* Writer: a transcription of tsdb/wlog/wlog.go with the real constants    *)
(* (page 32768, fragment header 7):                                        *)
(*   LogRec      WL.log(rec, final): flush a full page, roll the segment   *)
(*               when the record does not fit what is left of it, split    *)
(*               into full/first/middle/last fragments page by page, flush *)
(*               the partial page after the last record of a batch         *)
(*   FlushPage   WL.flushPage(forceClear): zero-pad and complete the page  *)
(*               or write the new bytes of a partial page                  *)
(*   NextSeg     WL.nextSegment (also the public NextSegment)              *)
(* A record is abstracted to its stored length n (after the optional       *)
(* compression; c = stored compressed, which only sets a header flag).     *)
(* A segment is the sequence of items written to it: fragments             *)
(* [ty, n, r, c] and zero padding ["pad", n]; `flushes` lists the file     *)
(* length of the segment after every flushPage, i.e. what a concurrent     *)
(* reader may see.                                                         *)
(*                                                                         *)
(* Readers: ReadAll is wlog.Reader over all segments (reader.go: fragment  *)
(* sequence validation, torn last record); LiveScan(items, N) is           *)
(* wlog.LiveReader (live_reader.go: readRecord / buildRecord) run to EOF   *)
(* on the first N bytes of a segment.                                      *)
(*                                                                         *)
(* Property: ReadBack, LiveOK (+ layout sanity InPage, NoSpan).            *)
(***************************************************************************)
EXTENDS Integers, Sequences, FiniteSets, TLC, Json

CONSTANTS PageSize, Hdr,
          SegPagesSet,   \* segment sizes (in pages) explored
          MaxRecs,       \* records per behaviour
          CompSet,       \* subset of BOOLEAN: may a record be stored compressed
          Classes,       \* names of the record-length classes explored
          AllowCut,      \* BOOLEAN: explicit NextSegment calls
          EmitMode

VARIABLES segPages, segs, alloc, done, flushes, written, ends, open, nops, hist
vars == <<segPages, segs, alloc, done, flushes, written, ends, open, nops, hist>>
View == <<segPages, segs, alloc, done, flushes, written, ends, open>>

Min2(a, b) == IF a <= b THEN a ELSE b
RECURSIVE Flat(_)
Flat(ss) == IF ss = <<>> THEN <<>> ELSE Head(ss) \o Flat(Tail(ss))
Payload == PageSize - Hdr

\* the mutable part of WL as a record
WS == [segs |-> segs, alloc |-> alloc, done |-> done, flushes |-> flushes, ends |-> ends]

AddItem(ws, it) == [ws EXCEPT !.segs[Len(ws.segs)] = Append(@, it)]

\* WL.flushPage
FlushPage(ws, force) ==
  LET clear == force \/ PageSize - ws.alloc < Hdr
      padn  == IF clear THEN PageSize - ws.alloc ELSE 0
      ws1   == IF padn > 0 THEN AddItem(ws, [ty |-> "pad", n |-> padn, r |-> 0, c |-> FALSE]) ELSE ws
      vis   == ws.done * PageSize + (IF clear THEN PageSize ELSE ws.alloc)
      ws2   == [ws1 EXCEPT !.flushes = Append(@, [seg |-> Len(ws.segs), len |-> vis])]
  IN IF clear THEN [ws2 EXCEPT !.alloc = 0, !.done = @ + 1] ELSE ws2

\* WL.nextSegment
NextSeg(ws) ==
  LET ws1 == IF ws.alloc > 0 THEN FlushPage(ws, TRUE) ELSE ws IN
  [ws1 EXCEPT !.segs = Append(@, <<>>), !.alloc = 0, !.done = 0]

\* the fragment loop of WL.log
RECURSIVE Frag(_, _, _, _)
Frag(ws, rec, rem, i) ==
  LET l   == Min2(rem, PageSize - ws.alloc - Hdr)
      ty  == IF i = 0 /\ l = rem THEN "full" ELSE IF l = rem THEN "last" ELSE IF i = 0 THEN "first" ELSE "middle"
      ws1 == [AddItem(ws, [ty |-> ty, n |-> l, r |-> rec.id, c |-> rec.c]) EXCEPT !.alloc = @ + l + Hdr]
      ws1e == IF l = rem THEN [ws1 EXCEPT !.ends = Append(@, [seg |-> Len(ws.segs), off |-> ws1.done * PageSize + ws1.alloc])]
              ELSE ws1
      ws2 == IF PageSize - ws1e.alloc < Hdr THEN FlushPage(ws1e, TRUE) ELSE ws1e
  IN IF rem - l > 0 THEN Frag(ws2, rec, rem - l, i + 1) ELSE ws2

\* free payload left in the active segment, as computed by WL.log after the initial full-page flush
AfterFull(ws) == IF PageSize - ws.alloc < Hdr THEN FlushPage(ws, TRUE) ELSE ws
Left(ws, sp) == (PageSize - ws.alloc) - Hdr + Payload * (sp - ws.done - 1)

\* WL.log(rec, final)
LogRec(ws, rec, final, sp) ==
  LET ws1 == AfterFull(ws)
      ws2 == IF rec.n > Left(ws1, sp) THEN NextSeg(ws1) ELSE ws1
      ws3 == Frag(ws2, rec, rec.n, 0)
  IN IF final /\ ws3.alloc > 0 THEN FlushPage(ws3, FALSE) ELSE ws3

\* record lengths worth trying in the current state, by name
LenOf(name, ws, sp) ==
  LET w == AfterFull(ws)
      rem == PageSize - w.alloc - Hdr
      left == Left(w, sp) IN
  CASE name = "zero"      -> 0
    [] name = "one"       -> 1
    [] name = "small"     -> 100
    [] name = "rem-1"     -> rem - 1
    [] name = "rem"       -> rem
    [] name = "rem+1"     -> rem + 1
    [] name = "page"      -> Payload
    [] name = "page+1"    -> Payload + 1
    [] name = "2page"     -> 2 * Payload
    [] name = "left-1"    -> left - 1
    [] name = "left"      -> left
    [] name = "left+1"    -> left + 1
    [] name = "seg"       -> Payload * sp
    [] name = "seg+1"     -> Payload * sp + 1
    [] name = "huge"      -> 18 * Payload + 100   \* 19 fragments, > 16 pages: larger than any buffer a reader keeps
    [] name = "nearfull"  -> rem - Hdr            \* leaves exactly Hdr bytes: a header fits, no payload
    [] name = "nearfull+1" -> rem - Hdr + 1       \* leaves Hdr-1 bytes: page counts as full

Init == /\ segPages \in SegPagesSet /\ segs = <<<<>>>> /\ alloc = 0 /\ done = 0 /\ flushes = <<>>
        /\ written = <<>> /\ ends = <<>> /\ open = FALSE /\ nops = 0 /\ hist = <<>>
        /\ TLCSet(1, {})

Log(name, c, final) ==
  /\ Len(written) < MaxRecs
  /\ LET n == LenOf(name, WS, segPages)
         rec == [id |-> Len(written) + 1, n |-> n, c |-> c]
         ws == LogRec(WS, rec, final, segPages) IN
     /\ n >= 0 /\ (c => n >= 64)
     /\ segs' = ws.segs /\ alloc' = ws.alloc /\ done' = ws.done /\ flushes' = ws.flushes /\ ends' = ws.ends
     /\ written' = Append(written, rec)
     /\ hist' = Append(hist, [a |-> "Log", name |-> name, n |-> n, c |-> c, final |-> final,
                              rolled |-> Len(ws.segs) > Len(segs),
                              nfrag |-> Len(SelectSeq(Flat(ws.segs), LAMBDA it : it.r = rec.id))])
  /\ open' = ~final
  /\ UNCHANGED segPages

Cut == /\ AllowCut /\ ~open /\ Len(written) > 0 /\ segs[Len(segs)] # <<>>
       /\ LET ws == NextSeg(WS) IN
          segs' = ws.segs /\ alloc' = ws.alloc /\ done' = ws.done /\ flushes' = ws.flushes /\ ends' = ws.ends
       /\ hist' = Append(hist, [a |-> "Cut"])
       /\ UNCHANGED <<segPages, written, open>>

Next == /\ \/ \E name \in Classes, c \in CompSet, final \in BOOLEAN : Log(name, c, final)
           \/ Cut
        /\ nops' = nops + 1

Spec == Init /\ [][Next]_vars

-----------------------------------------------------------------------------
(* Readers.                                                                 *)

\* validateRecord (live_reader.go), shared by both readers
Valid(ty, i) == IF ty \in {"full", "first"} THEN i = 0 ELSE i > 0

\* wlog.Reader over all segments: reassembled records [id, n] or an error
RECURSIVE ReadItems(_, _, _, _, _)
ReadItems(its, k, i, acc, out) ==
  IF k > Len(its) THEN (IF i > 0 THEN [out |-> out, err |-> "torn"] ELSE [out |-> out, err |-> "none"])
  ELSE LET it == its[k] IN
       IF it.ty = "pad" THEN ReadItems(its, k + 1, i, acc, out)
       ELSE IF ~Valid(it.ty, i) THEN [out |-> out, err |-> "sequence"]
       ELSE IF it.ty \in {"full", "last"}
              THEN ReadItems(its, k + 1, 0, 0, Append(out, [id |-> it.r, n |-> acc + it.n, c |-> it.c]))
              ELSE ReadItems(its, k + 1, i + 1, acc + it.n, out)
ReadAll == ReadItems(Flat(segs), 1, 0, 0, <<>>)

\* wlog.LiveReader run until Next() returns false on the first N bytes of a segment
RECURSIVE LiveItems(_, _, _, _, _, _)
LiveItems(its, k, off, i, cnt, N) ==
  IF k > Len(its) THEN [cnt |-> cnt, err |-> "eof"]
  ELSE LET it == its[k] IN
       IF it.ty = "pad"
         THEN IF off >= N \/ off + it.n > N THEN [cnt |-> cnt, err |-> "eof"]      \* page term not complete yet
              ELSE LiveItems(its, k + 1, off + it.n, i, cnt, N)
       ELSE IF N - off < Hdr \/ off + Hdr + it.n > N THEN [cnt |-> cnt, err |-> "eof"]
       ELSE IF ~Valid(it.ty, i) THEN [cnt |-> cnt, err |-> "corrupt"]
       ELSE IF it.ty \in {"full", "last"} THEN LiveItems(its, k + 1, off + Hdr + it.n, 0, cnt + 1, N)
       ELSE LiveItems(its, k + 1, off + Hdr + it.n, i + 1, cnt, N)
LiveScan(its, N) == LiveItems(its, 1, 0, 0, 0, N)

ItemLen(it) == IF it.ty = "pad" THEN it.n ELSE Hdr + it.n
RECURSIVE Offsets(_, _, _)
Offsets(its, k, off) == IF k > Len(its) THEN <<off>> ELSE <<off>> \o Offsets(its, k + 1, off + ItemLen(its[k]))
\* what a reader can see of segment s: the file length after the last flush of that segment
Visible(s) == LET fs == {i \in 1..Len(flushes) : flushes[i].seg = s} IN
              IF fs = {} THEN 0 ELSE flushes[CHOOSE i \in fs : \A j \in fs : j <= i].len
\* byte counts at which a tailing reader is tried: every flush boundary, and around every item boundary
CutPoints(s) ==
  LET offs == Offsets(segs[s], 1, 0)
      raw  == UNION {{offs[i] - 1, offs[i], offs[i] + 1, offs[i] + Hdr - 1, offs[i] + Hdr} : i \in 1..Len(offs)}
              \cup {flushes[i].len : i \in {j \in 1..Len(flushes) : flushes[j].seg = s}} IN
  {x \in raw : x >= 0 /\ x <= Visible(s)}
EndsIn(s, N) == Cardinality({i \in 1..Len(ends) : ends[i].seg = s /\ ends[i].off <= N})

-----------------------------------------------------------------------------
(* The property.                                                            *)

\* reading the log back returns exactly the records written, in order (whenever no batch is open)
ReadBack == ~open => /\ ReadAll.err = "none"
                     /\ ReadAll.out = [i \in 1..Len(written) |-> [id |-> written[i].id, n |-> written[i].n, c |-> written[i].c]]

\* a reader tailing a segment sees, at every prefix a flush can expose, exactly the records completed in
\* that prefix, and never a corruption
LiveOK == \A s \in 1..Len(segs) : \A N \in CutPoints(s) :
            LET r == LiveScan(segs[s], N) IN r.err = "eof" /\ r.cnt = EndsIn(s, N)
\* once everything is flushed the tailing reader has delivered every record of the segment
LiveComplete == ~open => \A s \in 1..Len(segs) :
                  LiveScan(segs[s], Visible(s)).cnt = Cardinality({i \in 1..Len(ends) : ends[i].seg = s})

\* layout sanity: fragments and padding never cross a page, a record never crosses a segment
InPage == \A s \in 1..Len(segs) :
            LET offs == Offsets(segs[s], 1, 0) IN
            \A k \in 1..Len(segs[s]) :
              LET it == segs[s][k] IN
              /\ offs[k] \div PageSize = (offs[k] + ItemLen(it) - 1) \div PageSize
              /\ it.ty = "pad" => (offs[k] + it.n) % PageSize = 0
NoSpan == \A s \in 1..Len(segs) : LET its == segs[s] IN
            /\ its # <<>> => (its[1].ty \in {"full", "first", "pad"})
            /\ (s < Len(segs) /\ its # <<>>) => ReadItems(its, 1, 0, 0, <<>>).err = "none"

TypeOK == /\ alloc >= 0 /\ alloc <= PageSize /\ done >= 0 /\ Len(ends) = Len(written)

-----------------------------------------------------------------------------
(* Emission.                                                                *)

Class == LET st == hist'[Len(hist')] IN
         IF st.a = "Cut" THEN <<"Cut", segPages, alloc = 0>>
         ELSE <<segPages, st.name, st.c, st.final, st.rolled, open, alloc = 0, PageSize - alloc < 2 * Hdr,
                IF st.nfrag > 3 THEN 3 ELSE st.nfrag, done' >= segPages>>

Beh == [segPages |-> segPages, hist |-> hist', cl |-> ToString(Class),
        segs |-> segs',
        flushes |-> flushes', ends |-> ends',
        cuts |-> [s \in 1..Len(segs') |->
                    LET V == LET fs == {i \in 1..Len(flushes') : flushes'[i].seg = s} IN
                             IF fs = {} THEN 0 ELSE flushes'[CHOOSE i \in fs : \A j \in fs : j <= i].len
                        offs == Offsets(segs'[s], 1, 0)
                        raw == UNION {{offs[i] - 1, offs[i], offs[i] + 1, offs[i] + Hdr - 1, offs[i] + Hdr} : i \in 1..Len(offs)}
                               \cup {flushes'[i].len : i \in {j \in 1..Len(flushes') : flushes'[j].seg = s}}
                        pts == {x \in raw : x >= 0 /\ x <= V} IN
                    [vis |-> V, at |-> {[n |-> N, cnt |-> LiveScan(segs'[s], N).cnt] : N \in pts}]]]

Emit ==
  CASE EmitMode = "none" -> TRUE
    [] open' -> TRUE                        \* only complete batches are replayed
    [] EmitMode = "all" -> PrintT("@@TR " \o ToJson(Beh))
    [] OTHER -> LET cl == Class IN cl \in TLCGet(1) \/ (TLCSet(1, TLCGet(1) \cup {cl}) /\ PrintT("@@TR " \o ToJson(Beh)))
=============================================================================
