SPECIFICATION Spec
INVARIANTS Judge Judged
CHECK_DEADLOCK FALSE
