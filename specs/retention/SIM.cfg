SPECIFICATION Spec
CONSTANTS
  MaxTs = 6
  Lens = {1, 2, 4}
  Sizes = {2, 4, 6}
  Heads = {0, 2}
  Durs = {0, 1, 2, 3, 5}
  MaxBs = {0, 1, 4, 7, 8, 9, 12, 13, 16, 21}
  PctLs = {0, 6, 11, 14}
  FsOks = {TRUE, FALSE}
  MaxCreated = 8
  Features = {"compact", "empty", "tmp", "bad", "crash", "setcfg", "reopen"}
  EmitMode = "none"
INVARIANTS TypeOK EmitWalk
CHECK_DEADLOCK FALSE
