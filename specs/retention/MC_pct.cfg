SPECIFICATION Spec
CONSTANTS
  MaxTs = 2
  Lens = {1}
  Sizes = {2}
  Heads = {0}
  Durs = {0}
  MaxBs = {0, 5}
  PctLs = {0, 3}
  FsOks = {TRUE, FALSE}
  MaxCreated = 3
  MaxOps = 4
  Features = {"setcfg", "reopen"}
  EmitMode = "all"
VIEW View
INVARIANTS TypeOK ReloadOK ReloadExact LoadedOnDisk
PROPERTIES SupersededGone Idempotent HeadUntouched TmpGone
ACTION_CONSTRAINT Emit
CHECK_DEADLOCK FALSE
