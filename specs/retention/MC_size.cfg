SPECIFICATION Spec
CONSTANTS
  MaxTs = 2
  Lens = {1}
  Sizes = {2, 4}
  Heads = {0, 2}
  Durs = {0}
  MaxBs = {3, 4, 6, 7, 8}
  PctLs = {0}
  FsOks = {TRUE}
  MaxCreated = 3
  MaxOps = 5
  Features = {}
  EmitMode = "all"
VIEW View
INVARIANTS TypeOK ReloadOK ReloadExact LoadedOnDisk
PROPERTIES SupersededGone Idempotent HeadUntouched TmpGone
ACTION_CONSTRAINT Emit
CHECK_DEADLOCK FALSE
