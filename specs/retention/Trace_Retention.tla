--------------------------- MODULE Trace_Retention ---------------------------
(***************************************************************************)
(* Verdict of the reference predicate RetentionOK on what the *real*       *)
(* reloadBlocks / Open left on disk. The replay harness writes one line    *)
(* per reload it wants judged (every one whose outcome differs from the    *)
(* prediction of Retention.tla, plus a sample) to trace.ndjson:            *)
(*  {"n", "disk":[{id,mint,maxt,size,parents,flag,bad}..], "head", "cfg":  *)
(*   {dur,maxb,pctl,fsok}, "err": b, "after":[ids of block dirs left]}     *)
(* Illegal outcomes are printed as "@@BAD" lines with the reason.          *)
(***************************************************************************)
EXTENDS RetentionOps, TLC, Json

Trace == TLCGet(2)

VARIABLE i
Init == i = 1 /\ TLCSet(2, ndJsonDeserialize("trace.ndjson"))
Next == i <= Len(Trace) /\ i' = i + 1
Spec == Init /\ [][Next]_i

\* JSON arrays arrive as sequences: parents -> set
Blk(b) == [id |-> b.id, mint |-> b.mint, maxt |-> b.maxt, size |-> b.size, flag |-> b.flag, bad |-> b.bad,
           parents |-> {b.parents[k] : k \in 1..Len(b.parents)}]
Disk(c) == {Blk(c.disk[k]) : k \in 1..Len(c.disk)}

Verdict(c) ==
  LET d     == Disk(c)
      ids   == {c.after[k] : k \in 1..Len(c.after)}
      after == {b \in d : b.id \in ids} IN
  IF \E x \in ids : x \notin Ids(d) THEN "unknown-block"
  ELSE IF c.err THEN (IF after = d THEN "ok" ELSE "blocks-removed-by-failed-reload")
  ELSE IF RetentionOK(d, after, c.head, c.cfg) THEN "ok"
  ELSE Why(d, after, c.head, c.cfg)

Judge ==
  i > Len(Trace) \/
    LET c == Trace[i]
        v == Verdict(c) IN
    v = "ok" \/ PrintT("@@BAD " \o ToJson([n |-> c.n, reason |-> v, after |-> c.after]))

Judged == i <= Len(Trace) + 1
=============================================================================
