SPECIFICATION Spec
CONSTANTS
  MaxTs = 3
  Lens = {1}
  Sizes = {2, 4}
  Heads = {0}
  Durs = {0, 1}
  MaxBs = {0, 6}
  PctLs = {0}
  FsOks = {TRUE}
  MaxCreated = 4
  MaxOps = 5
  Features = {"compact", "empty", "tmp", "bad", "crash"}
  EmitMode = "none"
VIEW View
INVARIANTS TypeOK ReloadOK ReloadExact LoadedOnDisk
PROPERTIES SupersededGone Idempotent HeadUntouched TmpGone
CHECK_DEADLOCK FALSE
