---------------------------- MODULE RetentionOps ----------------------------
(***************************************************************************)
(* Pure operators shared by Retention.tla (state machine) and              *)
(* Trace_Retention.tla (verdict on what the real reload left on disk).     *)
(* Part 1 transcribes deletableBlocks / BeyondTimeRetention /              *)
(* BeyondSizeRetention / reloadBlocks of tsdb/db.go, part 2 is the         *)
(* reference: what C09 demands of a reload.                                *)
(* Block record: [id, mint, maxt, size, parents, flag, bad], see           *)
(* Retention.tla. Sizes, head size and limits are in half-units.           *)
(***************************************************************************)
EXTENDS Integers, Sequences, FiniteSets

Range(q) == {q[i] : i \in 1..Len(q)}
Ids(S) == {b.id : b \in S}
Max2(a, b) == IF a > b THEN a ELSE b
RECURSIVE SumSize(_)
SumSize(S) == IF S = {} THEN 0 ELSE LET b == CHOOSE x \in S : TRUE IN b.size + SumSize(S \ {b})
MaxMaxt(S) == CHOOSE m \in {b.maxt : b \in S} : \A b \in S : b.maxt <= m

-----------------------------------------------------------------------------
(* Transcription                                                            *)

\* openBlocks: directories whose block opens; `corrupted` = the others
Loadable(d) == {b \in d : ~b.bad}

\* deletableBlocks: slices.SortFunc newest first by MaxTime (insertion sort for <= 12 elements:
\* stable; the input is in directory order, so ties are in id order)
NewerFirst(a, b) == a.maxt > b.maxt \/ (a.maxt = b.maxt /\ a.id < b.id)
RECURSIVE SortNewest(_)
SortNewest(S) == IF S = {} THEN <<>>
                 ELSE LET m == CHOOSE x \in S : \A y \in S \ {x} : NewerFirst(x, y)
                      IN <<m>> \o SortNewest(S \ {m})

Suffix(q, i) == {q[k] : k \in i..Len(q)}

\* BeyondTimeRetention: first i > 0 (0-based) with blocks[0].MaxTime - blocks[i].MaxTime >= duration
BeyondTime(q, dur) ==
  IF Len(q) = 0 \/ dur = 0 THEN {}
  ELSE LET I == {i \in 2..Len(q) : q[1].maxt - q[i].maxt >= dur}
       IN IF I = {} THEN {} ELSE Suffix(q, CHOOSE i \in I : \A j \in I : i <= j)

\* getRetentionSettings + the percentage rule of BeyondSizeRetention
EffLimit(c) == IF c.pctl > 0 /\ c.fsok THEN c.pctl ELSE c.maxb

\* BeyondSizeRetention: blocksSize starts at Head().Size(); blocks that are parents of another given block
\* or are marked deletable are skipped (they are removed by the same reload anyway and must not be counted
\* twice -- fix ad17dfe350 of finding KF-C09-1); first counted block that makes the sum exceed maxBytes
ParentIds(S) == UNION {b.parents : b \in S}
Counted(q, i) == q[i].id \notin ParentIds({q[k] : k \in 1..Len(q)}) /\ ~q[i].flag
RECURSIVE CumSize(_, _)
CumSize(q, i) == IF i = 0 THEN 0 ELSE (IF Counted(q, i) THEN q[i].size ELSE 0) + CumSize(q, i - 1)
BeyondSize(q, h, lim) ==
  IF Len(q) = 0 \/ lim <= 0 THEN {}
  ELSE LET I == {i \in 1..Len(q) : Counted(q, i) /\ h + CumSize(q, i) > lim}
       IN IF I = {} THEN {} ELSE Suffix(q, CHOOSE i \in I : \A j \in I : i <= j)

Deletable(S, h, c) ==
  LET q == SortNewest(S) IN
  {b \in S : b.flag} \cup BeyondTime(q, c.dur) \cup BeyondSize(q, h, EffLimit(c))

\* reloadBlocks. Result: err (corrupted block without a loaded child: nothing is swapped or deleted),
\* the ids to delete, the new db.blocks
ReloadRes(d, h, c) ==
  LET L    == Loadable(d)
      corr == Ids(d \ L) \ ParentIds(L)
      del  == Ids(Deletable(L, h, c)) \cup ParentIds(L)
  IN [err |-> corr # {}, del |-> del, keep |-> Ids(L) \ del]

\* db.blocks after the swap: toLoad sorted by MinTime; ties keep the order deletableBlocks left
\* (newest MaxTime first, then id)
ByMint(a, b) == a.mint < b.mint \/ (a.mint = b.mint /\ NewerFirst(a, b))
RECURSIVE SortMint(_)
SortMint(S) == IF S = {} THEN <<>>
               ELSE LET m == CHOOSE x \in S : \A y \in S \ {x} : ByMint(x, y)
                    IN <<m>> \o SortMint(S \ {m})
BlocksOrder(d, keep) == LET q == SortMint({b \in d : b.id \in keep}) IN [i \in 1..Len(q) |-> q[i].id]

-----------------------------------------------------------------------------
(* Reference: what C09 demands of one reload, independent of the loops above *)

\* superseded by a completed compaction: a child that can be loaded names it as parent
Superseded(d) == {b \in d : b.id \in ParentIds(Loadable(d))}
\* the blocks retention is about: loadable, not superseded, not flagged as empty leftovers
Live(d) == {b \in Loadable(d) : b.id \notin ParentIds(Loadable(d)) /\ ~b.flag}

TimeExpired(S, all, dur) == IF dur = 0 \/ all = {} THEN {} ELSE {b \in S : MaxMaxt(all) - b.maxt >= dur}

\* kept is a longest newest-first run of S within the budget lim (ties in MaxTime may be taken in any order)
IsLongestRun(kept, S, h, lim) ==
  /\ kept \subseteq S
  /\ \A k \in kept, o \in S \ kept : o.maxt <= k.maxt                     \* newest first
  /\ kept # {} => h + SumSize(kept) <= lim                                \* within the limit
  /\ S \ kept # {} =>                                                      \* and cannot be extended
       \E o \in S \ kept : o.maxt = MaxMaxt(S \ kept) /\ h + SumSize(kept) + o.size > lim

\* C09 for a successful reload that leaves `after` on disk out of `d`
RetentionOK(d, after, h, c) ==
  LET S    == Live(d)
      gone == S \ after
      lim  == EffLimit(c) IN
  /\ after \subseteq d
  \* superseded and flagged blocks are removed; unloadable blocks are never touched by retention
  /\ \A b \in d \ S : b \in after <=> (b.bad /\ b.id \notin ParentIds(Loadable(d)))
  \* time: exactly the expired ones go (when size retention is off)
  /\ lim <= 0 => gone = TimeExpired(S, Loadable(d), c.dur)
  \* size: exactly a longest newest-first run stays (when time retention is off)
  /\ (lim > 0 /\ c.dur = 0) => IsLongestRun(S \ gone, S, h, lim)
  \* both: a block goes iff one of the two rules removes it
  /\ (lim > 0 /\ c.dur # 0) =>
       \E run \in SUBSET S : IsLongestRun(run, S, h, lim) /\ gone = (S \ run) \cup TimeExpired(S, Loadable(d), c.dur)
  \* never a block strictly newer than a retained one
  /\ \A g \in gone, k \in S \ gone : ~(g.maxt > k.maxt)

\* (Finding KF-C09-1, fixed by ad17dfe350: BeyondSizeRetention used to add up also the blocks that the same
\* reload removes as superseded parents or as flagged leftovers, so that right after a compaction live blocks
\* -- even the fresh child -- were deleted although what remained was within the limit. RetentionOK above is
\* about Live(d) only, so a return of that behaviour is rejected, e.g. as "kept-run-not-longest".)

\* which part of C09 a reload result breaks (signature of the verdict)
Why(d, after, h, c) ==
  LET S    == Live(d)
      gone == S \ after
      lim  == EffLimit(c) IN
  IF ~(after \subseteq d) THEN "unknown-block"
  ELSE IF \E b \in d \ S : b \in after /\ ~b.bad THEN "superseded-block-not-removed"
  ELSE IF \E b \in d \ S : b \notin after /\ b.bad /\ b.id \notin ParentIds(Loadable(d)) THEN "unloadable-block-removed"
  ELSE IF \E g \in gone, k \in S \ gone : g.maxt > k.maxt THEN "newer-block-deleted-older-kept"
  ELSE IF lim <= 0 /\ \E b \in gone : b \notin TimeExpired(S, Loadable(d), c.dur) THEN "deleted-block-not-expired"
  ELSE IF lim <= 0 THEN "expired-block-kept"
  ELSE IF c.dur = 0 /\ S \ gone # {} /\ h + SumSize(S \ gone) > lim THEN "kept-blocks-exceed-limit"
  ELSE IF c.dur = 0 THEN "kept-run-not-longest"
  ELSE "time-and-size-rule-mismatch"
=============================================================================
