------------------------------ MODULE Retention ------------------------------
(***************************************************************************)
(* Block retention and removal of superseded blocks: DB.reloadBlocks,      *)
(* deletableBlocks, BeyondTimeRetention, BeyondSizeRetention, deleteBlocks *)
(* and the tmp-dir cleanup of open() (tsdb/db.go).  Property C09.          *)
(*                                                                         *)
(* State                                                                   *)
(*   disk    block directories with a readable meta.json: records          *)
(*           [id, mint, maxt, size, parents, flag, bad]                    *)
(*           id = ULID rank (directory order), size in half-units,         *)
(*           parents = ids in Compaction.Parents, flag = Compaction.       *)
(*           Deletable, bad = OpenBlock fails (index missing)              *)
(*   loaded  ids of db.blocks (what DB.Blocks() returns)                   *)
(*   tmp     ids of left-over <ulid>.tmp-for-creation/-deletion dirs       *)
(*   alive   the process is running (FALSE between a crash and Reopen)     *)
(*   head    Head.Size(): WAL + WBL + head chunk files, half-units         *)
(*   cfg     [dur, maxb, pctl, fsok]: RetentionDuration; MaxBytes; the     *)
(*           byte limit MaxPercentage amounts to (0 = unset); whether      *)
(*           FsSizeFunc can tell the disk size                             *)
(*                                                                         *)
(* Actions (one per step of the code that changes what is on disk)         *)
(*   NewBlock       a head compaction writes a block                       *)
(*   CompactWrite   LeveledCompactor.write renames the finished child into *)
(*                  place; its parents are still on disk (a crash here     *)
(*                  leaves exactly this state)                             *)
(*   CompactEmpty   the output was empty: parents are flagged Deletable    *)
(*   TmpResidue     crash inside write(): <child>.tmp-for-creation remains *)
(*   Reload         reloadBlocks: openBlocks, deletableBlocks, parents of  *)
(*                  loaded blocks, swap db.blocks, deleteBlocks            *)
(*   ReloadCrash    reloadBlocks dies inside deleteBlocks after some of    *)
(*                  the directories are gone (one is left as tmp)          *)
(*   Reopen         Close + Open: RemoveTmpDirs, then the same reload      *)
(*   SetCfg         ApplyConfig changes the retention settings             *)
(***************************************************************************)
EXTENDS RetentionOps, TLC, Json

CONSTANTS MaxTs,       \* block maximum times are 1..MaxTs
          Lens,        \* block lengths (mint = maxt - len)
          Sizes,       \* block sizes in half-units (even numbers: whole units)
          Heads,       \* head sizes in half-units (0, or 2 = one unit)
          Durs,        \* retention durations (0 = disabled)
          MaxBs,       \* MaxBytes values in half-units (0 = disabled)
          PctLs,       \* byte limits the percentage amounts to (0 = no percentage configured)
          FsOks,       \* subset of BOOLEAN
          MaxCreated,  \* at most this many blocks are ever created
          MaxOps,
          Features,    \* subset of {"compact", "empty", "tmp", "bad", "crash", "setcfg", "reopen"}: optional actions
          EmitMode     \* "all" | "class" | "none"

VARIABLES disk, loaded, tmp, alive, head, cfg, nextId, nops, hist

vars == <<disk, loaded, tmp, alive, head, cfg, nextId, nops, hist>>
View == <<disk, loaded, tmp, alive, head, cfg, nextId>>

Cfgs == [dur : Durs, maxb : MaxBs, pctl : PctLs, fsok : FsOks]

Init == /\ disk = {} /\ loaded = {} /\ tmp = {} /\ alive = TRUE
        /\ head \in Heads
        /\ cfg \in Cfgs
        /\ nextId = 1
        /\ nops = 0
        /\ hist = <<[a |-> "Init", head |-> head, cfg |-> cfg]>>
        /\ TLCSet(1, {})

Mk(id, mx, len, sz, par) ==
  [id |-> id, mint |-> mx - len, maxt |-> mx, size |-> sz, parents |-> par, flag |-> FALSE, bad |-> FALSE]

Step(rec) == /\ nops' = nops + 1
             /\ hist' = Append(hist, rec)

NewBlock(mx, len, sz, bad) ==
  /\ alive /\ nextId <= MaxCreated
  /\ bad => "bad" \in Features
  /\ LET b == [Mk(nextId, mx, len, sz, {}) EXCEPT !.bad = bad] IN
     /\ disk' = disk \cup {b}
     /\ Step([a |-> "NewBlock", b |-> b])
  /\ nextId' = nextId + 1
  /\ UNCHANGED <<loaded, tmp, alive, head, cfg>>

\* compaction of loaded blocks P into one child (time range = hull, as CompactBlockMetas)
CompactWrite(P, sz, bad) ==
  /\ alive /\ "compact" \in Features /\ nextId <= MaxCreated
  /\ bad => "bad" \in Features                    \* the child is damaged afterwards (does not open)
  /\ P # {} /\ Ids(P) \subseteq loaded
  /\ LET c == [id |-> nextId, mint |-> CHOOSE m \in {b.mint : b \in P} : \A b \in P : m <= b.mint,
               maxt |-> MaxMaxt(P), size |-> sz, parents |-> Ids(P), flag |-> FALSE, bad |-> bad] IN
     /\ disk' = disk \cup {c}
     /\ Step([a |-> "CompactWrite", b |-> c])
  /\ nextId' = nextId + 1
  /\ UNCHANGED <<loaded, tmp, alive, head, cfg>>

\* LeveledCompactor.Compact with an empty result: every parent's meta.json gets Deletable = true
CompactEmpty(P) ==
  /\ alive /\ "empty" \in Features
  /\ P # {} /\ Ids(P) \subseteq loaded /\ \A b \in P : ~b.flag
  /\ disk' = (disk \ P) \cup {[b EXCEPT !.flag = TRUE] : b \in P}
  /\ Step([a |-> "CompactEmpty", ids |-> Ids(P)])
  /\ UNCHANGED <<loaded, tmp, alive, head, cfg, nextId>>

\* the process dies inside LeveledCompactor.write: the half-written child is left as a tmp dir
TmpResidue ==
  /\ alive /\ "tmp" \in Features /\ nextId <= MaxCreated /\ tmp = {}
  /\ tmp' = {nextId}
  /\ alive' = FALSE /\ loaded' = {}
  /\ nextId' = nextId + 1
  /\ Step([a |-> "TmpResidue", id |-> nextId])
  /\ UNCHANGED <<disk, head, cfg>>

\* does C09 admit exactly one outcome? (only MaxTime ties under size retention leave a choice)
Unique(d) == EffLimit(cfg) <= 0 \/ \A a, b \in Live(d) : a = b \/ a.maxt # b.maxt
Obs(r, d) == [err |-> r.err, unique |-> Unique(d),
              legal |-> IF r.err \/ RetentionOK(d, {b \in d : b.id \notin r.del}, head, cfg) THEN "ok"
                        ELSE "transcription-deviates",
              blocks |-> IF r.err THEN <<>> ELSE BlocksOrder(d, r.keep),
              dirs |-> IF r.err THEN Ids(d) ELSE Ids(d) \ r.del]

Reload ==
  LET r == ReloadRes(disk, head, cfg) IN
  /\ alive
  /\ IF r.err
     THEN UNCHANGED <<disk, loaded>>
     ELSE /\ disk' = {b \in disk : b.id \notin r.del}
          /\ loaded' = r.keep
  /\ Step([a |-> "Reload", obs |-> Obs(r, disk)])
  /\ UNCHANGED <<tmp, alive, head, cfg, nextId>>

\* deleteBlocks interrupted: the directories in G (a proper non-empty part of what was to go) are gone,
\* one more is left behind renamed to .tmp-for-deletion; db.blocks was already swapped, but the process dies
ReloadCrash(G, t) ==
  LET r == ReloadRes(disk, head, cfg)
      D == r.del \cap Ids(disk) IN
  /\ alive /\ "crash" \in Features /\ ~r.err /\ tmp = {}
  /\ G \subseteq D /\ t \in D \ G
  /\ disk' = {b \in disk : b.id \notin G \cup {t}}
  /\ tmp' = {t}
  /\ loaded' = {} /\ alive' = FALSE
  /\ Step([a |-> "ReloadCrash", gone |-> G, tmpdel |-> t])
  /\ UNCHANGED <<head, cfg, nextId>>

\* (a clean restart of a running process is only explored with the feature "reopen": it is Reload again)
Reopen ==
  LET r == ReloadRes(disk, head, cfg) IN
  /\ ~alive \/ "reopen" \in Features
  /\ tmp' = {}
  /\ alive' = ~r.err                       \* Open fails on a corrupted block without a loaded child
  /\ IF r.err
     THEN /\ loaded' = {} /\ UNCHANGED disk
     ELSE /\ disk' = {b \in disk : b.id \notin r.del}
          /\ loaded' = r.keep
  /\ Step([a |-> "Reopen", obs |-> Obs(r, disk), tmpgone |-> tmp])
  /\ UNCHANGED <<head, cfg, nextId>>

SetCfg(c) ==
  /\ alive /\ "setcfg" \in Features /\ c # cfg
  /\ cfg' = c
  /\ Step([a |-> "SetCfg", cfg |-> c])
  /\ UNCHANGED <<disk, loaded, tmp, alive, head, nextId>>

End == nops = MaxOps /\ nops' = MaxOps + 1 /\ UNCHANGED <<disk, loaded, tmp, alive, head, cfg, nextId, hist>>

Next == \/ /\ nops < MaxOps
           /\ \/ \E mx \in 1..MaxTs, len \in Lens, sz \in Sizes, bad \in BOOLEAN : NewBlock(mx, len, sz, bad)
              \/ \E P \in SUBSET disk, sz \in Sizes, bad \in BOOLEAN : Cardinality(P) <= 2 /\ CompactWrite(P, sz, bad)
              \/ \E P \in SUBSET disk : Cardinality(P) <= 2 /\ CompactEmpty(P)
              \/ TmpResidue
              \/ Reload
              \/ \E G \in SUBSET Ids(disk), t \in Ids(disk) : ReloadCrash(G, t)
              \/ Reopen
              \/ \E c \in Cfgs : SetCfg(c)
        \/ End

Spec == Init /\ [][Next]_vars

-----------------------------------------------------------------------------
(* C09 on the design                                                        *)

TypeOK == /\ \A b \in disk : b.mint < b.maxt /\ b.size > 0
          /\ \A a, b \in disk : a.id = b.id => a = b
          /\ tmp \cap Ids(disk) = {}

\* every successful reload obeys the property
AfterReload(d, r) == {b \in d : b.id \notin r.del}
ReloadOK ==
  LET r == ReloadRes(disk, head, cfg) IN
  r.err \/ RetentionOK(disk, AfterReload(disk, r), head, cfg)

\* in particular when superseded or flagged blocks are on disk next to live ones (the state right after a
\* compaction, or after a crash between writing the child and deleting its parents)
ReloadExact ==
  LET r == ReloadRes(disk, head, cfg) IN
  (~r.err /\ Loadable(disk) # Live(disk)) => RetentionOK(disk, AfterReload(disk, r), head, cfg)

\* db.blocks only ever names directories that exist and open; a reload that reports an error changes nothing
LoadedOnDisk == loaded \subseteq Ids(Loadable(disk)) /\ (~alive => loaded = {})
\* superseded blocks are gone after every successful reload, also the one Open performs after a crash
SupersededGone ==
  [][(hist' # hist /\ hist'[Len(hist')].a \in {"Reload", "Reopen"} /\ ~hist'[Len(hist')].obs.err)
       => /\ Superseded(disk') \cap Loadable(disk') = {}
          /\ \A b \in disk' : ~b.flag \/ b.bad
          /\ loaded' = Ids(Loadable(disk'))]_vars
\* reloading twice in a row deletes nothing more (retention is idempotent)
Idempotent ==
  [][(hist' # hist /\ hist'[Len(hist')].a \in {"Reload", "Reopen"} /\ ~hist'[Len(hist')].obs.err)
       => LET r2 == ReloadRes(disk', head', cfg') IN ~r2.err /\ r2.del \cap Ids(disk') = {}]_vars
\* the head is never touched by retention
HeadUntouched == [][head' = head]_vars
\* tmp directories do not survive an Open
TmpGone == [][(hist' # hist /\ hist'[Len(hist')].a = "Reopen") => tmp' = {}]_vars

-----------------------------------------------------------------------------
(* Emission                                                                 *)

Class ==
  LET st == hist'[Len(hist')] IN
  IF st.a \in {"Reload", "Reopen"} THEN
    LET L == Loadable(disk)
        q == SortNewest(L)
        r == ReloadRes(disk, head, cfg) IN
    <<st.a, r.err, cfg.dur, EffLimit(cfg) > 0, cfg.pctl > 0, cfg.fsok, head,
      Cardinality(disk), Cardinality(L \ Live(disk)), Cardinality(disk \ L),
      Cardinality(BeyondTime(q, cfg.dur)), Cardinality(BeyondSize(q, head, EffLimit(cfg))),
      Cardinality({b.maxt : b \in L}) < Cardinality(L),                       \* ties in MaxTime
      \* is the limit hit exactly by some prefix (boundary > vs >=)
      \E i \in 1..Len(q) : head + CumSize(q, i) = EffLimit(cfg),
      \E i \in 2..Len(q) : q[1].maxt - q[i].maxt = cfg.dur,
      tmp # {}, Cardinality(loaded)>>
  ELSE <<st.a, Cardinality(disk)>>

\* "all": every Reload/Reopen transition is printed together with its coverage class; the driver keeps
\* a few behaviours per class (seeded choice). "class": first behaviour of each class only (workers = 1).
Emit ==
  CASE EmitMode = "none" -> TRUE
    [] hist' = hist -> TRUE
    [] EmitMode = "all" -> hist'[Len(hist')].a \notin {"Reload", "Reopen"}
                           \/ PrintT("@@TR " \o ToJson([cl |-> Class, h |-> hist']))
    [] OTHER -> LET cl == Class IN
                \/ cl \in TLCGet(1)
                \/ /\ TLCSet(1, TLCGet(1) \cup {cl})
                   /\ PrintT("@@TR " \o ToJson([cl |-> cl, h |-> hist']))

EmitWalk == nops <= MaxOps \/ PrintT("@@TR " \o ToJson([cl |-> <<"walk">>, h |-> hist]))
=============================================================================
