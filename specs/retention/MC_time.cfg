SPECIFICATION Spec
CONSTANTS
  MaxTs = 4
  Lens = {1, 2}
  Sizes = {2}
  Heads = {0}
  Durs = {1, 2}
  MaxBs = {0}
  PctLs = {0}
  FsOks = {TRUE}
  MaxCreated = 3
  MaxOps = 5
  Features = {}
  EmitMode = "all"
VIEW View
INVARIANTS TypeOK ReloadOK ReloadExact LoadedOnDisk
PROPERTIES SupersededGone Idempotent HeadUntouched TmpGone
ACTION_CONSTRAINT Emit
CHECK_DEADLOCK FALSE
