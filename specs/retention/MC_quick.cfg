SPECIFICATION Spec
CONSTANTS
  MaxTs = 2
  Lens = {1}
  Sizes = {2, 4}
  Heads = {0}
  Durs = {0, 1}
  MaxBs = {0, 6}
  PctLs = {0}
  FsOks = {TRUE}
  MaxCreated = 3
  MaxOps = 5
  Features = {"compact", "empty", "crash", "tmp", "bad"}
  EmitMode = "all"
VIEW View
INVARIANTS TypeOK ReloadOK ReloadExact LoadedOnDisk
PROPERTIES SupersededGone Idempotent HeadUntouched TmpGone
ACTION_CONSTRAINT Emit
CHECK_DEADLOCK FALSE
