---------------------------- MODULE WriteHandler ----------------------------
(***************************************************************************)
(* C41: the remote-write receiver (storage/remote/write_handler.go) in     *)
(* front of a real TSDB head (tsdb/head_append.go), protocol 1.0 ("v1",    *)
(* prompb.WriteRequest) and 2.0 ("v2", writev2.Request).                   *)
(*                                                                         *)
(* A request is a sequence of series entries [lab, fl, hs, ex]:            *)
(*   lab  "a" | "b" (valid, different label sets) or an invalid class      *)
(*        "noname" | "dupl" | "badutf" | (v2 only) "badref" | "oddref"     *)
(*   fl   float samples  [t, v]      hs  histograms [t, k], k in ih/fh/bad *)
(*   ex   exemplars [t]                                                    *)
(* Model times 1..MaxT, Fut = 9 is "more than 10 minutes in the future".   *)
(* Before the request the head holds series a with a float sample (2, v1)  *)
(* and an exemplar at 2; series b does not exist.  Out-of-order ingestion  *)
(* is disabled (the default), nothing is out of bounds.                    *)
(*                                                                         *)
(* REFERENCE (the property): going through the request in order, an item   *)
(* is valid iff the head's admission table accepts it after everything     *)
(* valid before it (`Adm` on the evolving state); exactly the valid        *)
(* samples/histograms/exemplars of valid series are stored, the written    *)
(* counts equal the number of valid items, and a request with anything     *)
(* invalid is answered 400 (v2: partial write; v1: stored = valid items or *)
(* nothing).                                                               *)
(*                                                                         *)
(* TRANSCRIPTION: AppendEntry = one iteration of the loop in write /       *)
(* appendV2: every item is checked by headAppender.Append* against the     *)
(* state *committed before the request* (`Adm` on st0) and buffered,       *)
(* counted (v2) or turned into an error; Commit = headAppenderBase.Commit: *)
(* the buffered items are re-checked in order against the evolving state   *)
(* and silently dropped when they fail; Respond = status + written         *)
(* headers.  The deviations from the reference are named:                  *)
(*   KF_C41_1  an item accepted by Append but dropped by Commit is still   *)
(*             counted as written and does not produce a 400 (DESIGN H8)   *)
(*   KF_C41_2  v1 skips a series with invalid labels silently (204)        *)
(* (A third one, KF-C41-3: 1.0 appended exemplars before histograms, was   *)
(* repaired by a04f81df02; the transcription follows the repaired order.)  *)
(***************************************************************************)
EXTENDS Integers, Sequences, FiniteSets, TLC, Json

CONSTANTS Protos,     \* subset of {"v1", "v2"}
          MaxT,       \* model times 1..MaxT (the committed sample of a is at 2)
          MaxItems,   \* entries + samples + histograms + exemplars of a request
          MaxEntries,
          Labs,       \* label classes explored
          WithHist, WithEx,   \* BOOLEAN: explore histograms / exemplars
          EmitMode    \* "done" | "none"

VARIABLES proto, req, built,
          ref,        \* the reference outcome of `req` (computed once, when the request is sent)
          i,          \* next entry to handle
          pend,       \* buffered samples/histograms, in Append order: [ser, t, ty, v]
          pendEx,     \* buffered exemplars [ser, t]
          created,    \* series created by getOrCreate during this request
          cnt,        \* v2 WriteResponseStats [s, h, e]
          nbad,       \* v2: number of badRequestErrs
          fatal,      \* v1: an Append error aborted the request
          committed,  \* Commit (or Rollback) done
          ndrop,      \* buffered items the Commit-time re-check rejected (dup / ooo)
          stored,     \* [ser -> set of [t, ty, v]] samples the request added to the head
          exstored,   \* [ser -> set of t]
          resp        \* [code, s, h, e]

vars == <<proto, req, built, ref, i, pend, pendEx, created, cnt, nbad, fatal, committed, ndrop, stored, exstored, resp>>

Fut == 9
Sers == {"a", "b"}
ValidLab(l) == l \in Sers
Vals == {1, 2}

\* state of a series as far as admission is concerned
St0 == [a |-> [ty |-> "f", maxt |-> 2, v |-> 1, exists |-> TRUE,  exmax |-> 2],
        b |-> [ty |-> "none", maxt |-> 0, v |-> 0, exists |-> FALSE, exmax |-> 0]]

(* The admission table of the head for one sample/histogram (memSeries.appendable*, OOO disabled),  *)
(* preceded by the remoteWriteAppender future check and Histogram.Validate.                         *)
Adm(st, s) ==
  IF s.t = Fut THEN "oob"                              \* "timestamp is too far in the future"
  ELSE IF s.ty = "bad" THEN "inval"                    \* histogram validation error
  ELSE IF st.ty = "none" \/ s.t > st.maxt THEN "ok"
  ELSE IF s.t = st.maxt THEN (IF s.ty = st.ty /\ s.v = st.v THEN "same" ELSE "dup")
  ELSE "ooo"
Accepts(r) == r \in {"ok", "same"}
Upd(st, s, r) == IF r = "ok" THEN [st EXCEPT !.ty = s.ty, !.maxt = s.t, !.v = s.v, !.exists = TRUE] ELSE st

\* exemplar storage (ValidateExemplar; exemplar value/labels are a function of t here)
AdmEx(st, t) == IF t = Fut THEN "oob"
                ELSE IF ~st.exists THEN "noseries"
                ELSE IF t > st.exmax THEN "ok" ELSE IF t = st.exmax THEN "same" ELSE "ooo"

\* the samples and histograms of an entry in the order the handler appends them
Items(e) == [k \in 1..Len(e.fl) |-> [t |-> e.fl[k].t, ty |-> "f", v |-> e.fl[k].v]]
            \o [k \in 1..Len(e.hs) |-> [t |-> e.hs[k].t, ty |-> e.hs[k].k, v |-> 1]]
IsHist(s) == s.ty # "f"
Empty(e) == e.fl = <<>> /\ e.hs = <<>>

-----------------------------------------------------------------------------
(* REFERENCE: sequential validity.  rs = [st, stored, exstored, cnt, nrej, ninv]                      *)
RefInit == [st |-> St0, stored |-> [x \in Sers |-> {}], exstored |-> [x \in Sers |-> {}],
            cnt |-> [s |-> 0, h |-> 0, e |-> 0], nrej |-> 0, ninv |-> 0]

RECURSIVE RefItems(_, _, _, _), RefExs(_, _, _, _)
RefItems(rs, ser, its, k) ==
  IF k > Len(its) THEN rs
  ELSE LET s == its[k]
           r == Adm(rs.st[ser], s)
       IN RefItems([rs EXCEPT !.st[ser] = Upd(@, s, r),
                               !.stored[ser] = IF r = "ok" THEN @ \cup {s} ELSE @,
                               !.cnt.s = IF Accepts(r) /\ ~IsHist(s) THEN @ + 1 ELSE @,
                               !.cnt.h = IF Accepts(r) /\ IsHist(s) THEN @ + 1 ELSE @,
                               !.nrej = IF Accepts(r) THEN @ ELSE @ + 1], ser, its, k + 1)
RefExs(rs, ser, exs, k) ==
  IF k > Len(exs) THEN rs
  ELSE LET r == AdmEx(rs.st[ser], exs[k].t)
       IN RefExs([rs EXCEPT !.st[ser].exmax = IF r = "ok" THEN exs[k].t ELSE @,
                             !.exstored[ser] = IF r = "ok" THEN @ \cup {exs[k].t} ELSE @,
                             !.cnt.e = IF Accepts(r) THEN @ + 1 ELSE @,
                             \* 1.0 receivers need not fail a request over an exemplar; 2.0: out-of-order exemplar = bad request
                             !.nrej = IF r = "ooo" /\ proto = "v2" THEN @ + 1 ELSE @], ser, exs, k + 1)
RECURSIVE RefReq(_, _)
RefReq(rs, k) ==
  IF k > Len(req) THEN rs
  ELSE LET e == req[k] IN
       IF ~ValidLab(e.lab) THEN RefReq([rs EXCEPT !.ninv = @ + 1], k + 1)
       ELSE IF Empty(e) /\ proto = "v2" THEN RefReq([rs EXCEPT !.ninv = @ + 1], k + 1)   \* v2: "must contain at least one sample or histogram"
       ELSE RefReq(RefExs(RefItems(rs, e.lab, Items(e), 1), e.lab, e.ex, 1), k + 1)
Ref == ref
RefCode == IF Ref.nrej = 0 /\ Ref.ninv = 0 THEN 204 ELSE 400

-----------------------------------------------------------------------------
Init == /\ proto \in Protos
        /\ req = <<>> /\ built = FALSE /\ i = 1 /\ ref = RefInit
        /\ pend = <<>> /\ pendEx = <<>> /\ created = {}
        /\ cnt = [s |-> 0, h |-> 0, e |-> 0] /\ nbad = 0 /\ fatal = FALSE /\ committed = FALSE /\ ndrop = 0
        /\ stored = [x \in Sers |-> {}] /\ exstored = [x \in Sers |-> {}]
        /\ resp = [code |-> 0, s |-> 0, h |-> 0, e |-> 0]

NItems == Len(req) + (IF req = <<>> THEN 0 ELSE
            LET F[k \in 0..Len(req)] == IF k = 0 THEN 0 ELSE F[k - 1] + Len(req[k].fl) + Len(req[k].hs) + Len(req[k].ex) IN F[Len(req)])
LastE == req[Len(req)]
BuildUnch == UNCHANGED <<proto, built, ref, i, pend, pendEx, created, cnt, nbad, fatal, committed, ndrop, stored, exstored, resp>>

\* canonical construction of the request: new entry, then its floats, then histograms, then exemplars
Build ==
  /\ ~built /\ NItems < MaxItems
  /\ \/ /\ Len(req) < MaxEntries
        /\ \E l \in Labs : (l \in {"badref", "oddref"} => proto = "v2")
                           /\ req' = Append(req, [lab |-> l, fl |-> <<>>, hs |-> <<>>, ex |-> <<>>])
     \/ /\ req # <<>> /\ LastE.hs = <<>> /\ LastE.ex = <<>>
        /\ \E t \in (1..MaxT) \cup {Fut}, v \in Vals :
             req' = [req EXCEPT ![Len(req)].fl = Append(@, [t |-> t, v |-> v])]
     \/ /\ WithHist /\ req # <<>> /\ LastE.ex = <<>>
        /\ \E t \in 2..MaxT, k \in {"ih", "fh", "bad"} : (k = "bad" => t = MaxT)
             /\ req' = [req EXCEPT ![Len(req)].hs = Append(@, [t |-> t, k |-> k])]
     \/ /\ WithEx /\ req # <<>>
        /\ \E t \in 1..MaxT : req' = [req EXCEPT ![Len(req)].ex = Append(@, [t |-> t])]
  /\ BuildUnch
Send == /\ ~built /\ req # <<>> /\ built' = TRUE
        /\ ref' = RefReq(RefInit, 1)
        /\ UNCHANGED <<proto, req, i, pend, pendEx, created, cnt, nbad, fatal, committed, ndrop, stored, exstored, resp>>

\* series state the Append-time checks see: the state committed before the request (+ series created meanwhile)
StA(ser) == [St0[ser] EXCEPT !.exists = (@ \/ ser \in created)]

(* One iteration of `for _, ts := range req.Timeseries` of write (v1) / appendV2 (v2).               *)
(* Result of appending the items of entry e: fold over the items with the Append-time check.         *)
RECURSIVE AppItems(_, _, _, _)
\* acc = [pend, created, s, h, bad, stop]
AppItems(acc, ser, its, k) ==
  IF k > Len(its) \/ acc.stop THEN acc
  ELSE LET s == its[k]
           r == Adm(St0[ser], s)
           cr == IF r \in {"oob", "inval"} THEN acc.created ELSE acc.created \cup {ser}   \* getOrCreate precedes appendable
       IN IF Accepts(r)
          THEN AppItems([acc EXCEPT !.pend = Append(@, [ser |-> ser] @@ s), !.created = cr,
                                    !.s = IF IsHist(s) THEN @ ELSE @ + 1, !.h = IF IsHist(s) THEN @ + 1 ELSE @], ser, its, k + 1)
          ELSE IF proto = "v1"
               THEN [acc EXCEPT !.stop = TRUE, !.created = cr]                    \* return err -> Rollback, 400
               ELSE AppItems([acc EXCEPT !.bad = @ + 1, !.created = cr], ser, its, k + 1)   \* badRequestErrs, continue
RECURSIVE AppExs(_, _, _, _)
\* acc = [pendEx, e, bad]
AppExs(acc, st, exs, k) ==
  IF k > Len(exs) THEN acc
  ELSE LET r == AdmEx(st, exs[k].t) IN
       AppExs([acc EXCEPT !.pendEx = IF r = "ok" THEN Append(@, [ser |-> st.ser, t |-> exs[k].t]) ELSE @,
                          !.e = IF Accepts(r) THEN @ + 1 ELSE @,              \* err == nil (a duplicate returns nil, too)
                          !.bad = IF r = "ooo" /\ proto = "v2" THEN @ + 1 ELSE @], st, exs, k + 1)

AppendEntry ==
  /\ built /\ ~fatal /\ ~committed /\ i <= Len(req)
  /\ LET e == req[i] IN
     IF ~ValidLab(e.lab)
     THEN /\ nbad' = IF proto = "v2" THEN nbad + 1 ELSE nbad                 \* v1: samplesWithInvalidLabels++ ; continue
          /\ UNCHANGED <<pend, pendEx, created, cnt, fatal>>
     ELSE IF proto = "v2" /\ Empty(e)
     THEN /\ nbad' = nbad + 1 /\ UNCHANGED <<pend, pendEx, created, cnt, fatal>>
     ELSE LET fl  == [k \in 1..Len(e.fl) |-> [t |-> e.fl[k].t, ty |-> "f", v |-> e.fl[k].v]]
              hs  == [k \in 1..Len(e.hs) |-> [t |-> e.hs[k].t, ty |-> e.hs[k].k, v |-> 1]]
              a0  == [pend |-> pend, created |-> created, s |-> 0, h |-> 0, bad |-> 0, stop |-> FALSE]
              \* both versions: samples, histograms, exemplars (1.0 appended exemplars before histograms until
              \* commit a04f81df02, formerly KF-C41-3)
              a1  == AppItems(a0, e.lab, fl \o hs, 1)
              stx == [StA(e.lab) EXCEPT !.exists = (@ \/ e.lab \in a1.created)] @@ [ser |-> e.lab]
              a2  == IF a1.stop THEN [pendEx |-> pendEx, e |-> 0, bad |-> 0]
                     ELSE AppExs([pendEx |-> pendEx, e |-> 0, bad |-> 0], stx, e.ex, 1)
              a3  == a1
          IN /\ pend' = a3.pend /\ created' = a3.created /\ fatal' = a3.stop
             /\ pendEx' = a2.pendEx
             /\ cnt' = [s |-> cnt.s + a3.s, h |-> cnt.h + a3.h, e |-> cnt.e + a2.e]
             /\ nbad' = nbad + a3.bad + a2.bad
  /\ i' = i + 1
  /\ UNCHANGED <<proto, req, built, ref, committed, ndrop, stored, exstored, resp>>

(* headAppenderBase.Commit: every buffered item is re-checked against the evolving series state      *)
(* (commitFloats / commitHistograms / commitExemplars) and silently dropped if it fails.             *)
RECURSIVE ComItems(_, _), ComExs(_, _)
ComItems(cs, k) ==
  IF k > Len(pend) THEN cs
  ELSE LET p == pend[k]
           r == Adm(cs.st[p.ser], p)
       IN ComItems([cs EXCEPT !.st[p.ser] = Upd(@, p, r),
                              !.nd = IF Accepts(r) THEN @ ELSE @ + 1,
                              !.stored[p.ser] = IF r = "ok" THEN @ \cup {[t |-> p.t, ty |-> p.ty, v |-> p.v]} ELSE @], k + 1)
ComExs(cs, k) ==
  IF k > Len(pendEx) THEN cs
  ELSE LET p == pendEx[k]
           r == AdmEx([cs.st[p.ser] EXCEPT !.exists = TRUE], p.t)
       IN ComExs([cs EXCEPT !.st[p.ser].exmax = IF r = "ok" THEN p.t ELSE @,
                            !.nd = IF r = "ooo" THEN @ + 1 ELSE @,
                            !.exstored[p.ser] = IF r = "ok" THEN @ \cup {p.t} ELSE @], k + 1)
Commit ==
  /\ built /\ ~committed /\ (fatal \/ i > Len(req))
  /\ committed' = TRUE
  /\ IF fatal THEN UNCHANGED <<stored, exstored, ndrop>>                        \* Rollback
     ELSE LET cs == ComExs(ComItems([st |-> St0, stored |-> stored, exstored |-> exstored, nd |-> 0], 1), 1)
          IN stored' = cs.stored /\ exstored' = cs.exstored /\ ndrop' = cs.nd
  /\ UNCHANGED <<proto, req, built, ref, i, pend, pendEx, created, cnt, nbad, fatal, resp>>

Respond ==
  /\ committed /\ resp.code = 0
  /\ resp' = IF proto = "v1" THEN [code |-> IF fatal THEN 400 ELSE 204, s |-> 0, h |-> 0, e |-> 0]
             ELSE [code |-> IF nbad > 0 THEN 400 ELSE 204, s |-> cnt.s, h |-> cnt.h, e |-> cnt.e]
  /\ UNCHANGED <<proto, req, built, ref, i, pend, pendEx, created, cnt, nbad, fatal, committed, ndrop, stored, exstored>>

Next == Build \/ Send \/ AppendEntry \/ Commit \/ Respond
Spec == Init /\ [][Next]_vars

-----------------------------------------------------------------------------
(* Properties                                                               *)
Done == resp.code # 0

\* what is in the head afterwards is exactly what the sequential reference admits (v1: or nothing, on a 400)
StoredMatchesRef ==
  Done => \/ stored = Ref.stored /\ exstored = Ref.exstored
          \/ proto = "v1" /\ resp.code = 400 /\ stored = [x \in Sers |-> {}] /\ exstored = [x \in Sers |-> {}]
CountsMatchRef == (Done /\ proto = "v2") => [s |-> resp.s, h |-> resp.h, e |-> resp.e] = Ref.cnt
StatusMatchesRef == Done => resp.code = RefCode
CodeMatchesRef == StoredMatchesRef /\ CountsMatchRef /\ StatusMatchesRef

\* accepted by the Append-time check (state before the request), rejected by the Commit-time re-check
\* (the Commit-time re-check drops it - ndrop - or, for an exemplar that duplicates the newest stored one, Append
\* reports success without buffering it): more items are reported as accepted than the reference admits
KF_C41_1 == Done /\ ~fatal /\ cnt.s + cnt.h + cnt.e > Ref.cnt.s + Ref.cnt.h + Ref.cnt.e
\* v1: a series with invalid labels is skipped silently instead of failing the request with 400
KF_C41_2 == proto = "v1" /\ \E k \in 1..Len(req) : ~ValidLab(req[k].lab)

Conforms == CodeMatchesRef \/ KF_C41_1 \/ KF_C41_2

\* never more is stored than the reference admits, whatever happens to counts and status
NeverStoresInvalid == Done => \A x \in Sers : stored[x] \subseteq Ref.stored[x] /\ exstored[x] \subseteq Ref.exstored[x]

-----------------------------------------------------------------------------
Case == [proto |-> proto, req |-> req,
         kf |-> (IF KF_C41_1 THEN {"KF_C41_1"} ELSE {}) \cup (IF KF_C41_2 THEN {"KF_C41_2"} ELSE {}),
         ref  |-> [code |-> RefCode, cnt |-> Ref.cnt, stored |-> Ref.stored, exstored |-> Ref.exstored],
         code |-> [code |-> resp.code, cnt |-> [s |-> resp.s, h |-> resp.h, e |-> resp.e], stored |-> stored, exstored |-> exstored]]
Emit == \/ EmitMode # "done"
        \/ ~(resp'.code # 0 /\ resp.code = 0)
        \/ PrintT("@@TR " \o ToJson(Case'))
\* simulation: print the finished request of a walk once
EmitWalk == resp.code = 0 \/ PrintT("@@TR " \o ToJson(Case))
=============================================================================
