SPECIFICATION Spec
CONSTANTS
  Protos = {"v1", "v2"}
  MaxT = 4
  MaxItems = 9
  MaxEntries = 3
  Labs = {"a", "b", "noname", "dupl", "badutf", "badref", "oddref"}
  WithHist = TRUE
  WithEx = TRUE
  EmitMode = "none"
INVARIANTS Conforms NeverStoresInvalid EmitWalk
CHECK_DEADLOCK FALSE
