SPECIFICATION Spec
CONSTANTS
  Protos = {"v1", "v2"}
  MaxT = 3
  MaxItems = 4
  MaxEntries = 1
  Labs = {"a", "b"}
  WithHist = TRUE
  WithEx = TRUE
  EmitMode = "done"
INVARIANTS Conforms NeverStoresInvalid
ACTION_CONSTRAINT Emit
CHECK_DEADLOCK FALSE
