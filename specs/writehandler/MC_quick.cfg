SPECIFICATION Spec
CONSTANTS
  Protos = {"v1", "v2"}
  MaxT = 3
  MaxItems = 3
  MaxEntries = 2
  Labs = {"a", "b", "noname", "dupl", "badutf", "badref", "oddref"}
  WithHist = TRUE
  WithEx = TRUE
  EmitMode = "done"
INVARIANTS Conforms NeverStoresInvalid
ACTION_CONSTRAINT Emit
CHECK_DEADLOCK FALSE
