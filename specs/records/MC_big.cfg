SPECIFICATION Spec
CONSTANTS
  Refs = {1, 2, 9}
  Ts = {1, 2, 5}
  STs = {0, 3, 7}
  Vals = {"v1", "nan"}
  MaxLen = 3
  Kinds = {"samples_v1", "samples_v2", "exemplars", "hist_v1", "hist_v2", "tombstones", "series", "metadata", "mmap"}
INVARIANTS RoundTrip Partition MarkersSound EmitCase
CHECK_DEADLOCK FALSE
