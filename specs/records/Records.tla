------------------------------- MODULE Records -------------------------------
(***************************************************************************)
(* C14 -- WAL record encoding round-trips (tsdb/record/record.go).         *)
(*                                                                         *)
(* The module is the reference for the *case analysis* of the codecs: how  *)
(* each item of a batch is expressed relative to the first / the previous  *)
(* item, which start-timestamp marker (noST / sameST / explicitST) is      *)
(* chosen, and how a batch of histograms is split between the exponential  *)
(* record and the custom-bucket leftovers.  Items carry small symbolic     *)
(* integers; the harness concretises them (extreme refs / timestamps, NaN  *)
(* payloads, label sets, histogram shapes) and the byte-level fidelity is  *)
(* decided by the replay only.                                             *)
(*                                                                         *)
(*   EncV1 / DecV1     Encoder.samplesV1, Decoder.samplesV1, and with the  *)
(*                     same shape exemplars and V1 histogram records:      *)
(*                     base = first item, deltas to the base               *)
(*   EncV2 / DecV2     Encoder.samplesV2 / histogramSamplesV2 /            *)
(*                     floatHistogramSamplesV2 and their decoders: ref     *)
(*                     delta to the previous item, time delta to the first,*)
(*                     writeSTMarker / readSTMarker                        *)
(*   SplitV1           Encoder.histogramSamplesV1 / floatHistogramSamplesV1*)
(*                     (custom-bucket items are returned, not encoded; the *)
(*                     record is emptied when nothing else is left)        *)
(*   Flatten           Encoder.Tombstones (one entry per interval)         *)
(*                                                                         *)
(* A case is an initial state; TLC checks RoundTrip / Partition / Appends  *)
(* on every case and prints it with the predicted markers and split.       *)
(***************************************************************************)
EXTENDS Integers, Sequences, FiniteSets, TLC, Json

CONSTANTS Refs, Ts, STs,     \* symbolic domains (small integers; 0 in STs = "no start timestamp")
          Vals,              \* value symbols
          MaxLen,            \* batch length bound
          Kinds              \* record kinds explored

VARIABLE case
vars == <<case>>

Last(s) == s[Len(s)]

-----------------------------------------------------------------------------
(* V1: base + deltas to the base (samples, exemplars, histograms).          *)
EncV1(xs) == IF xs = <<>> THEN [base |-> <<>>, toks |-> <<>>]
             ELSE [base |-> <<xs[1].r, xs[1].t>>,
                   toks |-> [i \in 1..Len(xs) |-> [dref |-> xs[i].r - xs[1].r, dt |-> xs[i].t - xs[1].t, p |-> xs[i].p]]]
DecV1(e) == [i \in 1..Len(e.toks) |-> [r |-> e.base[1] + e.toks[i].dref, t |-> e.base[2] + e.toks[i].dt, st |-> 0, p |-> e.toks[i].p]]

(* V2: first item verbatim; then ref delta to the previous, time delta to   *)
(* the first, start timestamp through a marker.                             *)
Marker(st, prevST) == IF st = 0 THEN "noST" ELSE IF st = prevST THEN "sameST" ELSE "explicitST"
EncV2(xs) == IF xs = <<>> THEN <<>>
             ELSE [i \in 1..Len(xs) |->
                     IF i = 1 THEN [ref |-> xs[1].r, t |-> xs[1].t, st |-> xs[1].st, m |-> "first", p |-> xs[1].p]
                     ELSE LET m == Marker(xs[i].st, xs[i - 1].st) IN
                          [ref |-> xs[i].r - xs[i - 1].r, t |-> xs[i].t - xs[1].t,
                           st |-> IF m = "explicitST" THEN xs[i].st - xs[1].st ELSE 0, m |-> m, p |-> xs[i].p]]
RECURSIVE DecV2From(_, _, _)
DecV2From(toks, i, out) ==
  IF i > Len(toks) THEN out
  ELSE LET k == toks[i] IN
       IF i = 1 THEN DecV2From(toks, 2, <<[r |-> k.ref, t |-> k.t, st |-> k.st, p |-> k.p]>>)
       ELSE LET prev == Last(out)
                st == CASE k.m = "noST" -> 0 [] k.m = "sameST" -> prev.st [] OTHER -> out[1].st + k.st IN
            DecV2From(toks, i + 1, Append(out, [r |-> prev.r + k.ref, t |-> out[1].t + k.t, st |-> st, p |-> k.p]))
DecV2(toks) == DecV2From(toks, 1, <<>>)

(* V1 histogram records: custom-bucket items are split off.                 *)
IsCB(x) == x.p = "cb"
SplitV1(xs) ==
  LET exp == SelectSeq(xs, LAMBDA x : ~IsCB(x))
      cbs == SelectSeq(xs, IsCB) IN
  [rec  |-> IF xs = <<>> \/ exp = <<>> THEN [base |-> <<>>, toks |-> <<>>]
            ELSE [base |-> <<xs[1].r, xs[1].t>>,          \* the base is the first item of the *whole* batch
                  toks |-> [i \in 1..Len(exp) |-> [dref |-> exp[i].r - xs[1].r, dt |-> exp[i].t - xs[1].t, p |-> exp[i].p]]],
   empty |-> xs # <<>> /\ exp = <<>>,                     \* buf.Reset(): nothing must be logged
   header |-> xs = <<>>,                                  \* an empty batch still yields the type byte
   left |-> cbs]

(* Tombstones: one entry per interval.                                      *)
RECURSIVE Flatten(_)
Flatten(ss) == IF ss = <<>> THEN <<>>
               ELSE [i \in 1..Len(ss[1].ivs) |-> [r |-> ss[1].r, iv |-> ss[1].ivs[i]]] \o Flatten(Tail(ss))

-----------------------------------------------------------------------------
(* Cases.                                                                   *)
SeqsUpTo(S, n) == UNION {[1..k -> S] : k \in 0..n}

\* only the first item of a batch varies its payload symbol (value / label set); histogram items
\* vary their kind everywhere and use smaller ref / time / start-timestamp domains
Items(rs, ts, sts, ps) == [r : rs, t : ts, st : sts, p : ps]
Batches(first, rest) == {<<>>} \cup {<<a>> \o xs : a \in first, xs \in SeqsUpTo(rest, MaxLen - 1)}
HRefs == {1, 9}
HTs == {1, 5}
HSTs == {0, 3}
Ivs == {<<1, 1>>, <<2, 9>>}
Stones == [r : Refs, ivs : SeqsUpTo(Ivs, 2) \ {<<>>}]

CasesOf(k) ==
  CASE k = "samples_v1" -> {[ty |-> k, xs |-> xs] : xs \in Batches(Items(Refs, Ts, {0}, Vals), Items(Refs, Ts, {0}, {"v1"}))}
    [] k = "samples_v2" -> {[ty |-> k, xs |-> xs] : xs \in Batches(Items(Refs, Ts, STs, Vals), Items(Refs, Ts, STs, {"v1"}))}
    [] k = "exemplars"  -> {[ty |-> k, xs |-> xs] : xs \in Batches(Items(Refs, Ts, {0}, {"l0", "l1"}), Items(Refs, Ts, {0}, {"l1"}))}
    [] k = "hist_v1"    -> {[ty |-> t, xs |-> xs] : t \in {"hist_v1", "fhist_v1"},
                                                    xs \in SeqsUpTo(Items(HRefs, HTs, {0}, {"exp", "cb"}), MaxLen)}
    [] k = "hist_v2"    -> {[ty |-> t, xs |-> xs] : t \in {"hist_v2", "fhist_v2"},
                                                    xs \in SeqsUpTo(Items(HRefs, HTs, HSTs, {"exp", "cb"}), MaxLen)}
    [] k = "tombstones" -> {[ty |-> k, xs |-> xs] : xs \in SeqsUpTo(Stones, 2)}
    \* series / metadata / m-map marker records are plain lists of independent entries
    [] k = "series"     -> {[ty |-> k, xs |-> xs] : xs \in SeqsUpTo(Items(Refs, {0}, {0}, {"l0", "l1", "l2"}), 2)}
    [] k = "metadata"   -> {[ty |-> k, xs |-> xs] : xs \in SeqsUpTo(Items(Refs, {0}, {0}, {"m0", "m1", "m2"}), 2)}
    [] k = "mmap"       -> {[ty |-> k, xs |-> xs] : xs \in SeqsUpTo(Items(Refs, {0}, {0}, {"k1", "k2"}), 2)}
Cases == UNION {CasesOf(k) : k \in Kinds}

Init == case \in Cases
Next == UNCHANGED case
Spec == Init /\ [][Next]_vars

-----------------------------------------------------------------------------
(* The property on the reference.                                           *)
Strip(xs) == [i \in 1..Len(xs) |-> [r |-> xs[i].r, t |-> xs[i].t, st |-> xs[i].st, p |-> xs[i].p]]

RoundTrip ==
  LET xs == case.xs IN
  CASE case.ty \in {"samples_v1", "exemplars", "series", "metadata", "mmap"} -> DecV1(EncV1(xs)) = Strip(xs)
    [] case.ty \in {"samples_v2", "hist_v2", "fhist_v2"} -> DecV2(EncV2(xs)) = Strip(xs)
    [] case.ty \in {"hist_v1", "fhist_v1"} ->
         LET s == SplitV1(xs) IN
         /\ DecV1(s.rec) = SelectSeq(Strip(xs), LAMBDA x : ~IsCB(x))
         /\ DecV1(EncV1(s.left)) = SelectSeq(Strip(xs), IsCB)
    [] case.ty = "tombstones" -> TRUE

\* the split loses and duplicates nothing and keeps the order inside each part
Partition ==
  case.ty \in {"hist_v1", "fhist_v1"} =>
    LET s == SplitV1(case.xs)  exp == DecV1(s.rec) IN
    /\ Len(exp) + Len(s.left) = Len(case.xs)
    /\ \A x \in {case.xs[i] : i \in 1..Len(case.xs)} :
         Cardinality({i \in 1..Len(case.xs) : case.xs[i] = x})
           = Cardinality({i \in 1..Len(exp) : exp[i] = x}) + Cardinality({i \in 1..Len(s.left) : s.left[i] = x})
    /\ s.empty => exp = <<>>

\* marker choice is unambiguous for the decoder: "noST" only for 0, "sameST" only for a non-zero repeat
MarkersSound ==
  case.ty \in {"samples_v2", "hist_v2", "fhist_v2"} =>
    LET e == EncV2(case.xs) IN
    \A i \in 2..Len(e) : /\ (e[i].m = "noST") = (case.xs[i].st = 0)
                         /\ (e[i].m = "sameST") = (case.xs[i].st # 0 /\ case.xs[i].st = case.xs[i - 1].st)

-----------------------------------------------------------------------------
(* Emission: every case with the predictions the harness compares.          *)
Pred ==
  LET xs == case.xs IN
  CASE case.ty \in {"samples_v2", "hist_v2", "fhist_v2"} ->
         [markers |-> [i \in 1..Len(xs) |-> EncV2(xs)[i].m], out |-> DecV2(EncV2(xs)), left |-> <<>>, empty |-> FALSE]
    [] case.ty \in {"hist_v1", "fhist_v1"} ->
         LET s == SplitV1(xs) IN [markers |-> <<>>, out |-> DecV1(s.rec), left |-> Strip(s.left), empty |-> s.empty]
    [] case.ty = "tombstones" ->
         [markers |-> <<>>, out |-> Flatten(xs), left |-> <<>>, empty |-> FALSE]
    [] OTHER -> [markers |-> <<>>, out |-> DecV1(EncV1(xs)), left |-> <<>>, empty |-> FALSE]

EmitCase == PrintT("@@TR " \o ToJson([ty |-> case.ty, xs |-> case.xs, pred |-> Pred]))
=============================================================================
