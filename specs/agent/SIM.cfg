SPECIFICATION Spec
CONSTANTS
  Labs = {"a", "b", "c"}
  MaxT = 8
  Window = 2
  Cuts = {TRUE, FALSE}
  PreCuts = {0, 1, 3}
  Script <- NoScript
  Acts = {"Append", "AppendEx", "Commit", "Rollback", "Truncate", "Restart"}
  Kinds = {"D", "H"}
  ExTs = {2, 5, 9}
  EmitMode = "none"
INVARIANTS TypeOK RefClosedOrKF AcceptedKeptOrKF OOORule EmitWalk
CHECK_DEADLOCK FALSE
