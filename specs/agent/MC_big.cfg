SPECIFICATION Spec
CONSTANTS
  Labs = {"a", "b"}
  MaxT = 3
  Window = 0
  MaxOps = 5
  Cuts = {TRUE}
  PreCuts = {0, 3}
  Script <- NoScript
  Acts = {"Append", "AppendEx", "Commit", "Rollback", "Truncate", "Restart"}
  Kinds = {"D"}
  ExTs = {2, 4}
  EmitMode = "none"
VIEW View
INVARIANTS TypeOK RefClosedOrKF AcceptedKeptOrKF OOORule
CHECK_DEADLOCK FALSE
