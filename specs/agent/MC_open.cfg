SPECIFICATION Spec
CONSTANTS
  Labs = {"a", "b"}
  MaxT = 4
  Window = 0
  MaxOps = 7
  Cuts = {TRUE}
  PreCuts = {0, 3}
  Script <- ScriptOpen
  Acts = {"Append", "AppendEx", "Commit", "Rollback", "Truncate", "Restart"}
  Kinds = {"D"}
  ExTs = {2, 4}
  EmitMode = "class"
VIEW View
INVARIANTS TypeOK RefClosedOrKF AcceptedKeptOrKF OOORule
ACTION_CONSTRAINT Emit
CHECK_DEADLOCK FALSE
