SPECIFICATION Spec
CONSTANTS
  Labs = {"a", "b"}
  MaxT = 3
  Window = 2
  MaxOps = 3
  Cuts = {TRUE}
  PreCuts = {0, 3}
  Script <- NoScript
  Acts = {"Append", "AppendEx", "Commit", "Rollback", "Truncate", "Restart"}
  Kinds = {"D", "H"}
  ExTs = {2, 4}
  EmitMode = "class"
VIEW View
INVARIANTS TypeOK RefClosedOrKF AcceptedKeptOrKF OOORule
ACTION_CONSTRAINT Emit
CHECK_DEADLOCK FALSE
