------------------------------- MODULE AgentDb -------------------------------
(***************************************************************************)
(* C48 -- agent-mode storage logs every accepted sample (tsdb/agent/db.go).*)
(*                                                                         *)
(* Transcription of the WAL-only storage:                                  *)
(*   Append / AppendEx   appender.Append / AppendHistogram / AppendExemplar*)
(*                       (getOrCreate creates the series in memory at once,*)
(*                       minValidTime(lastTs) decides out-of-order)        *)
(*   Commit              appenderBase.log: series record, samples record,  *)
(*                       histograms record, exemplars record, then         *)
(*                       memSeries.updateTimestamp                         *)
(*   Rollback            appenderBase.rollback: the series records are     *)
(*                       still logged                                      *)
(*   Truncate            DB.truncate: gc(mint) (deleted[ref] = current     *)
(*                       segment), NextSegment, "lower two thirds",        *)
(*                       wlog.Checkpoint with keepSeriesInWALCheckpointFn  *)
(*                       (segment numbers, not times), WL.Truncate         *)
(*   Restart             DB.Close ; Open: replayWAL / loadWAL (first series*)
(*                       record of a label set wins, duplicate refs are    *)
(*                       kept until their last segment, lastTs recovered)  *)
(* An appender may stay open across a truncation (Append, Truncate, Commit)*)
(*                                                                         *)
(* Entries are those of RefClosed.tla with kinds "S" series, "D" float     *)
(* sample, "H" histogram sample, "X" exemplar.                             *)
(***************************************************************************)
EXTENDS RefClosed, TLC, Json

CONSTANTS Labs, MaxT, Window, MaxOps, Cuts, PreCuts, Script, Acts, Kinds, ExTs, EmitMode

VARIABLES segs, first, cp,
          series,    \* in-memory series: set of [ref, lab, last]
          deleted,   \* DB.deleted: ref -> [seg: last segment the series record must be kept for,
                     \*                      lt: newest sample time replayed for a duplicate ref (NEG: none)]
          nextRef,
          pend,      \* the open appender: [on, ser, smp, exs]
          acc,       \* ghost: samples / exemplars accepted by committed appenders
          lastW,     \* ghost: newest committed sample time per label set
          T,         \* ghost: highest truncation time so far
          dups,      \* ghost: refs that a replay classified as duplicate series records
          nops, hist

vars == <<segs, first, cp, series, deleted, nextRef, pend, acc, lastW, T, dups, nops, hist>>
View == <<segs, first, cp, series, deleted, nextRef, pend, acc, lastW, T, dups>>

Max2(a, b) == IF a >= b THEN a ELSE b
SetMax(S) == CHOOSE x \in S : \A y \in S : y <= x
E(k, ref, lab, t, v) == [k |-> k, ref |-> ref, lab |-> lab, t |-> t, t2 |-> 0, v |-> v]
RECURSIVE Flat(_)
Flat(ss) == IF ss = <<>> THEN <<>> ELSE Head(ss) \o Flat(Tail(ss))
SetF(f, k, v) == [x \in DOMAIN f \cup {k} |-> IF x = k THEN v ELSE f[x]]
Refs(S) == {s.ref : s \in S}
NoPend == [on |-> FALSE, ser |-> <<>>, smp |-> <<>>, exs |-> <<>>]

Log == (IF cp.idx >= 0 THEN Flat(cp.recs) ELSE <<>>) \o Flat(Flat(segs))
Allowed == IF nops < Len(Script) THEN Script[nops + 1] ELSE Acts
NoScript == <<>>
\* an appender left open across a truncation, then checkpoints (KF-C48-2)
ScriptOpen == <<{"Append"}, {"Commit"}, {"Append"}, {"Truncate"}, {"Truncate", "Commit"}, {"Commit", "Truncate"}, {"Truncate", "Restart"}>>
\* churn, restart with duplicate series records, checkpoints (KF-C48-3)
ScriptDup == <<{"Append"}, {"Commit"}, {"Truncate"}, {"Append"}, {"Commit"}, {"Restart"}, {"Truncate", "Append"},
               {"Truncate", "Commit"}, {"Truncate", "Restart"}>>

\* plain churn: two commits in their own segments, then consecutive truncations
ScriptChurn == <<{"Append"}, {"Commit", "Rollback"}, {"Append", "AppendEx"}, {"Commit"}, {"Truncate"}, {"Truncate", "Restart"}, {"Truncate"}>>

Init == /\ segs = <<<<>>>> /\ first = 0 /\ cp = [idx |-> -1, recs |-> <<>>]
        /\ series = {} /\ deleted = <<>> /\ nextRef = 0 /\ pend = NoPend /\ acc = {}
        /\ lastW = [l \in Labs |-> NEG] /\ T = 0 /\ dups = {} /\ nops = 0 /\ hist = <<>>
        /\ TLCSet(1, {})

\* appenderBase.minValidTime
MinValid(last) == IF last = NEG THEN NEG ELSE last - Window

AppendS(l, t, k) ==
  /\ "Append" \in Allowed
  /\ LET old   == {s \in series : s.lab = l}
         fresh == old = {}
         ref   == IF fresh THEN nextRef + 1 ELSE (CHOOSE s \in old : TRUE).ref
         last  == IF fresh THEN NEG ELSE (CHOOSE s \in old : TRUE).last
         ok    == t > MinValid(last)
         v     == (nops + 1) * 10 IN
     /\ series' = IF fresh THEN series \cup {[ref |-> ref, lab |-> l, last |-> NEG]} ELSE series
     /\ nextRef' = IF fresh THEN ref ELSE nextRef
     /\ pend' = [on |-> TRUE,
                 ser |-> IF fresh THEN Append(pend.ser, E("S", ref, l, 0, 0)) ELSE pend.ser,
                 smp |-> IF ok THEN Append(pend.smp, E(k, ref, "", t, v)) ELSE pend.smp,
                 exs |-> pend.exs]
     /\ hist' = Append(hist, [a |-> "Append", lab |-> l, t |-> t, k |-> k, ref |-> ref, v |-> v, fresh |-> fresh,
                              res |-> IF ok THEN "ok" ELSE "ooo",
                              lit |-> t > (IF lastW[l] = NEG THEN NEG ELSE lastW[l] - Window)])
  /\ UNCHANGED <<segs, first, cp, deleted, acc, lastW, T, dups>>

AppendEx(l, t) ==
  /\ "AppendEx" \in Allowed
  /\ \E s \in series :
       /\ s.lab = l
       /\ LET v == (nops + 1) * 10 IN
          /\ pend' = [pend EXCEPT !.on = TRUE, !.exs = Append(@, E("X", s.ref, "", t, v))]
          /\ hist' = Append(hist, [a |-> "AppendEx", lab |-> l, t |-> t, ref |-> s.ref, v |-> v])
  /\ UNCHANGED <<segs, first, cp, series, deleted, nextRef, acc, lastW, T, dups>>

Logged(sg, recs) == [sg EXCEPT ![Len(sg)] = @ \o recs]
OfKind(es, k) == SelectSeq(es, LAMBDA e : e.k = k)
NonEmpty(recs) == SelectSeq(recs, LAMBDA r : r # <<>>)

RECURSIVE Bump(_, _, _)
\* memSeries.updateTimestamp for every committed sample, in order (only series still in memory)
Bump(S, es, i) ==
  IF i > Len(es) THEN S
  ELSE Bump({IF s.ref = es[i].ref /\ es[i].t >= s.last THEN [s EXCEPT !.last = es[i].t] ELSE s : s \in S}, es, i + 1)

Commit(cut) ==
  /\ "Commit" \in Allowed /\ pend.on
  /\ LET recs == NonEmpty(<<pend.ser, OfKind(pend.smp, "D"), OfKind(pend.smp, "H"), pend.exs>>)
         sg   == IF cut THEN Append(segs, <<>>) ELSE segs
         labOf(r) == LET ss == {s \in series : s.ref = r} IN IF ss = {} THEN "" ELSE (CHOOSE s \in ss : TRUE).lab IN
     /\ segs' = Logged(sg, recs)
     /\ series' = Bump(series, pend.smp, 1)
     /\ acc' = acc \cup {pend.smp[i] : i \in 1..Len(pend.smp)} \cup {pend.exs[i] : i \in 1..Len(pend.exs)}
     /\ lastW' = [l \in Labs |-> LET ts == {pend.smp[i].t : i \in {j \in 1..Len(pend.smp) : labOf(pend.smp[j].ref) = l}} IN
                                 IF ts = {} THEN lastW[l] ELSE Max2(lastW[l], SetMax(ts))]
     /\ hist' = Append(hist, [a |-> "Commit", cut |-> cut, nrec |-> Len(recs)])
  /\ pend' = NoPend
  /\ UNCHANGED <<first, cp, deleted, nextRef, T, dups>>

Rollback ==
  /\ "Rollback" \in Allowed /\ pend.on
  /\ segs' = Logged(segs, NonEmpty(<<pend.ser>>))
  /\ hist' = Append(hist, [a |-> "Rollback"])
  /\ pend' = NoPend
  /\ UNCHANGED <<first, cp, series, deleted, nextRef, acc, lastW, T, dups>>

\* wlog.Checkpoint (no tombstone / metadata records in an agent WAL)
FilterRec(rec, keep(_), m) ==
  IF rec[1].k = "S" THEN SelectSeq(rec, LAMBDA e : keep(e.ref))
  ELSE IF rec[1].k = "X" THEN SelectSeq(rec, LAMBDA e : e.t >= m /\ keep(e.ref))   \* dropped with its series record
  ELSE SelectSeq(rec, LAMBDA e : e.t >= m)
RECURSIVE FilterRecs(_, _, _)
FilterRecs(recs, keep(_), m) ==
  IF recs = <<>> THEN <<>>
  ELSE LET r == FilterRec(Head(recs), keep, m) IN (IF r = <<>> THEN <<>> ELSE <<r>>) \o FilterRecs(Tail(recs), keep, m)

Truncate(m, k) ==
  /\ "Truncate" \in Allowed /\ m > T /\ m <= MaxT + 1
  /\ LET segs0 == segs \o [i \in 1..k |-> <<>>]
         L     == first + Len(segs0) - 1
         dead  == {s \in series : s.last < m}                        \* stripeSeries.GC
         rest  == series \ dead
         del1  == [r \in DOMAIN deleted \cup Refs(dead) |-> IF r \in Refs(dead) THEN [seg |-> L, lt |-> NEG] ELSE deleted[r]]
         segs1 == Append(segs0, <<>>)
         last0 == L - 1
         last1 == first + ((last0 - first) * 2) \div 3
         ckpt  == last0 >= 0 /\ last1 > first
         \* keepSeriesInWALCheckpointFn(last, mint): by segment, and for duplicate refs also by the time of
         \* their newest sample (the checkpoint keeps samples by time)
         keep(id) == id \in Refs(rest) \/ (id \in DOMAIN del1 /\ (del1[id].seg > last1 \/ del1[id].lt >= m))
         inRecs == (IF cp.idx >= 0 THEN cp.recs ELSE <<>>) \o Flat([i \in 1..(last1 - first + 1) |-> segs1[i]]) IN
     /\ series' = rest
     /\ IF ckpt THEN /\ cp' = [idx |-> last1, recs |-> FilterRecs(inRecs, keep, m)]
                     /\ segs' = SubSeq(segs1, last1 - first + 2, Len(segs1))
                     /\ first' = last1 + 1
                     /\ deleted' = [r \in {x \in DOMAIN del1 : del1[x].seg > last1 \/ del1[x].lt >= m} |-> del1[r]]
        ELSE segs' = segs1 /\ deleted' = del1 /\ UNCHANGED <<first, cp>>
     /\ hist' = Append(hist, [a |-> "Truncate", m |-> m, k |-> k, ckpt |-> ckpt, gc |-> Cardinality(dead),
                              first |-> IF ckpt THEN last1 + 1 ELSE first, last |-> L + 1])
     /\ lastW' = [l \in Labs |-> IF \E s \in dead : s.lab = l THEN NEG ELSE lastW[l]]   \* the series is forgotten
  /\ T' = m
  /\ UNCHANGED <<nextRef, pend, acc, dups>>

\* DB.loadWAL over the checkpoint (number cp.idx) and every segment (with its number)
RP0 == [series |-> {}, dup |-> <<>>, deleted |-> <<>>, lastRef |-> 0]
StepR(st, e, cur) ==
  IF e.k = "S" THEN
       LET same == {s \in st.series : s.lab = e.lab}
           st1  == [st EXCEPT !.lastRef = Max2(@, e.ref)] IN
       IF same = {} THEN [st1 EXCEPT !.series = @ \cup {[ref |-> e.ref, lab |-> e.lab, last |-> 0]}]
       ELSE [st1 EXCEPT !.dup = SetF(@, e.ref, (CHOOSE s \in same : TRUE).ref),
                        !.deleted = IF e.ref \in DOMAIN @
                                    THEN (IF @[e.ref].seg > cur THEN @ ELSE SetF(@, e.ref, [seg |-> cur, lt |-> @[e.ref].lt]))
                                    ELSE SetF(@, e.ref, [seg |-> cur, lt |-> NEG])]
  ELSE IF e.k \in {"D", "H"} THEN
       LET isDup == e.ref \in DOMAIN st.dup
           st1 == IF isDup /\ e.ref \in DOMAIN st.deleted /\ (st.deleted[e.ref].seg <= cur \/ st.deleted[e.ref].lt < e.t)
                  THEN [st EXCEPT !.deleted = SetF(@, e.ref, [seg |-> Max2(@[e.ref].seg, cur), lt |-> Max2(@[e.ref].lt, e.t)])] ELSE st
           r == IF isDup THEN st.dup[e.ref] ELSE e.ref IN
       [st1 EXCEPT !.series = {IF s.ref = r /\ e.t > s.last THEN [s EXCEPT !.last = e.t] ELSE s : s \in @}]
  ELSE st
RECURSIVE FoldR(_, _, _, _)
FoldR(st, es, i, cur) == IF i > Len(es) THEN st ELSE FoldR(StepR(st, es[i], cur), es, i + 1, cur)
RECURSIVE FoldSegs(_, _, _)
FoldSegs(st, sg, i) == IF i > Len(sg) THEN st ELSE FoldSegs(FoldR(st, Flat(sg[i]), 1, first + i - 1), sg, i + 1)
Replayed == FoldSegs(IF cp.idx >= 0 THEN FoldR(RP0, Flat(cp.recs), 1, cp.idx) ELSE RP0, segs, 1)

Restart ==
  /\ "Restart" \in Allowed /\ ~pend.on
  /\ LET r == Replayed IN
     /\ series' = r.series /\ deleted' = r.deleted /\ nextRef' = r.lastRef
     /\ hist' = Append(hist, [a |-> "Restart", nseries |-> Cardinality(r.series), nextRef |-> r.lastRef])
     /\ dups' = dups \cup DOMAIN r.dup
  /\ segs' = Append(segs, <<>>)
  /\ UNCHANGED <<first, cp, pend, acc, lastW, T>>

End == nops = MaxOps /\ nops' = MaxOps + 1 /\ UNCHANGED <<segs, first, cp, series, deleted, nextRef, pend, acc, lastW, T, dups, hist>>

Step1 == \/ \E l \in Labs, t \in 1..MaxT, k \in Kinds : AppendS(l, t, k)
         \/ \E l \in Labs, t \in ExTs : AppendEx(l, t)
         \/ \E c \in Cuts : Commit(c)
         \/ Rollback
         \/ \E m \in (T + 1)..(MaxT + 1), k \in PreCuts : Truncate(m, k)
         \/ Restart
Next == \/ nops < MaxOps /\ Step1 /\ nops' = nops + 1
        \/ End
Spec == Init /\ [][Next]_vars

-----------------------------------------------------------------------------
(* The property.                                                            *)

\* every sample / histogram accepted by a committed appender, at or after the truncation time, is
\* still in checkpoint \o segments, after a series entry for its ref
Kept(L, a) == \E i \in 1..Len(L) : L[i] = a /\ \E j \in 1..(i - 1) : L[j].k = "S" /\ L[j].ref = a.ref
AcceptedKept == \A a \in acc : (a.k \in {"D", "H"} /\ a.t >= T) => Kept(Log, a)
\* ... and every entry left in the log follows a series entry for its ref (C15 for the agent)
RefClosed == RefClosedSeq(Log)

\* KF-C48-2: garbage collection does not know about samples pending in an open appender (and
\* getOrCreate puts a new series in memory, with lastTs = MinInt64, before anything is logged): a
\* truncation between Append and Commit removes the series with deleted[ref] = the current segment;
\* the commit then logs the sample (and, for a new series, its series record) into a *later* segment,
\* so the next checkpoints drop the series record while the sample stays.  A pending *exemplar* is
\* affected in the same way (found by the thorough simulation, reproduced on the real DB).
LateSeries == \E i \in 1..Len(hist) : hist[i].a = "Truncate" /\ hist[i].gc > 0
              /\ \E j \in 1..(i - 1) : (hist[j].a = "AppendEx" \/ (hist[j].a = "Append" /\ hist[j].res = "ok"))
                   /\ ~\E c \in (j + 1)..(i - 1) : hist[c].a \in {"Commit", "Rollback"}
\* (KF-C48-1, exemplars kept by time only, and KF-C48-3, duplicate series records kept by segment only while
\* their samples are kept by time, are repaired: wlog.Checkpoint drops an exemplar with its series record and
\* keepSeriesInWALCheckpointFn also looks at the newest sample time of a duplicate ref.  `dups` is kept as a ghost.)
RefClosedOrKF == RefClosed \/ LateSeries
AcceptedKeptOrKF == AcceptedKept \/ LateSeries

\* the out-of-order rule, literally: an accepted sample is newer than the newest committed sample of
\* its label set minus the window -- unless the series had been garbage-collected and is created anew
OOORule == \A i \in 1..Len(hist) : (hist[i].a = "Append" /\ hist[i].res = "ok") => (hist[i].lit \/ hist[i].fresh)

TypeOK == /\ first >= 0 /\ Len(segs) >= 1 /\ cp.idx < first
          /\ \A s1, s2 \in series : s1.lab = s2.lab => s1 = s2
          /\ \A s \in series : s.ref <= nextRef

-----------------------------------------------------------------------------
(* Emission.                                                                *)
LogP == (IF cp'.idx >= 0 THEN Flat(cp'.recs) ELSE <<>>) \o Flat(Flat(segs'))
Final == [T |-> T', cp |-> [idx |-> cp'.idx, es |-> Flat(cp'.recs)],
          segs |-> [i \in 1..Len(segs') |-> [seg |-> first' + i - 1, es |-> Flat(segs'[i])]],
          acc |-> acc', late |-> LateSeries', dups |-> dups', open |-> pend'.on]
Class ==
  LET st == hist'[Len(hist')]
      orph == {OrphanClass(LogP[i], T') : i \in Orphans(LogP)}
      dup == \E i, j \in 1..Len(LogP) : i # j /\ LogP[i].k = "S" /\ LogP[j].k = "S" /\ LogP[i].lab = LogP[j].lab
      cpE == Flat(cp'.recs)
      kdel == Cardinality({cpE[i].ref : i \in {j \in 1..Len(cpE) : cpE[j].k = "S" /\ cpE[j].ref \notin Refs(series')}})
      edge == {cpE[i].k : i \in {j \in 1..Len(cpE) : cpE[j].k # "S" /\ cpE[j].t = T'}}
      dep  == {LogP[i].k : i \in {j \in 1..Len(LogP) : LogP[j].k # "S" /\ LogP[j].ref \notin Refs(series') /\ Live(LogP[j], T')}}
      segE == Flat(Flat(segs'))
      \* kinds of entries outside the checkpoint that depend on a series record kept only by `deleted`
      cpS  == {cpE[i].ref : i \in {j \in 1..Len(cpE) : cpE[j].k = "S"}}
      out  == {<<segE[i].k, segE[i].ref \in cpS>> : i \in {j \in 1..Len(segE) : segE[j].k # "S" /\ segE[j].ref \notin Refs(series')}}
      acts == {hist'[i].a : i \in 1..Len(hist')}       \* which kinds of steps the history contains
      \* live exemplars that this step removed from the log (dropped together with their series record)
      xlost == \E i \in 1..Len(Log) : Log[i].k = "X" /\ Log[i].t >= T' /\ ~\E j \in 1..Len(LogP) : LogP[j] = Log[i]
      delNow == {<<deleted'[r].seg - first', deleted'[r].lt >= T'>> : r \in DOMAIN deleted'}   \* how far ahead of the first segment series records are kept
  IN IF st.a = "Truncate" THEN <<"Truncate", st.ckpt, st.gc > 0, orph, dup, delNow, kdel, edge, dep, out, xlost, pend.on, Cardinality(series'), acts>>
     ELSE IF st.a = "Restart" THEN <<"Restart", orph, dup, DOMAIN deleted' # {}, dep, cp.idx >= 0, nextRef' < nextRef>>
     ELSE IF st.a = "Append" THEN <<"Append", st.res, st.fresh, st.lit, st.k, dup, cp.idx >= 0, Len(pend.smp)>>
     ELSE IF st.a = "Commit" THEN <<"Commit", st.nrec, st.cut, orph, dup, cp.idx >= 0, LateSeries', acts>>
     ELSE <<st.a, orph, dup, cp.idx >= 0>>
Out == PrintT("@@TR " \o ToJson([hist |-> hist', fin |-> Final, win |-> Window, cl |-> ToString(Class)]))
Emit ==
  CASE EmitMode = "none" -> TRUE
    [] hist' = hist -> TRUE
    [] EmitMode = "all" -> Out
    [] OTHER -> LET cl == Class IN cl \in TLCGet(1) \/ (TLCSet(1, TLCGet(1) \cup {cl}) /\ Out)
EmitWalk == nops <= MaxOps \/
            PrintT("@@TR " \o ToJson([hist |-> hist, win |-> Window,
                     fin |-> [T |-> T, cp |-> [idx |-> cp.idx, es |-> Flat(cp.recs)],
                              segs |-> [i \in 1..Len(segs) |-> [seg |-> first + i - 1, es |-> Flat(segs[i])]],
                              acc |-> acc, late |-> LateSeries, dups |-> dups, open |-> pend.on]]))
=============================================================================
