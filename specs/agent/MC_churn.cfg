SPECIFICATION Spec
CONSTANTS
  Labs = {"a", "b"}
  MaxT = 3
  Window = 0
  MaxOps = 7
  Cuts = {TRUE}
  PreCuts = {0, 1}
  Script <- ScriptChurn
  Acts = {"Append", "AppendEx", "Commit", "Rollback", "Truncate", "Restart"}
  Kinds = {"D"}
  ExTs = {2, 4}
  EmitMode = "class"
VIEW View
INVARIANTS TypeOK RefClosedOrKF AcceptedKeptOrKF OOORule
ACTION_CONSTRAINT Emit
CHECK_DEADLOCK FALSE
