----------------------------- MODULE Trace_Agent -----------------------------
(***************************************************************************)
(* Trace validation for C48: every line of trace.ndjson holds the entries  *)
(* decoded from a real agent WAL directory (checkpoint, then segments) at  *)
(* the end of a generated history, the truncation time T, the samples the  *)
(* real appenders accepted and committed (acc, with the refs the real DB   *)
(* returned), and two tags predicted by AgentDb.tla for that history:      *)
(* `late` (an appender was open across a garbage collection, KF-C48-2) and *)
(* `dups` (refs classified as duplicate series records, KF-C48-3).         *)
(* TLC evaluates AcceptedKept and RefClosed on the real entries.           *)
(***************************************************************************)
EXTENDS RefClosed, TLC, Json

Tr == ndJsonDeserialize("trace.ndjson")

Kept(L, a) == \E i \in 1..Len(L) : /\ L[i].k = a.k /\ L[i].ref = a.ref /\ L[i].t = a.t /\ L[i].v = a.v
                                   /\ \E j \in 1..(i - 1) : L[j].k = "S" /\ L[j].ref = a.ref
Tag(r, ref) == (IF r.late THEN ":late" ELSE "") \o (IF ref \in {r.dups[i] : i \in 1..Len(r.dups)} THEN ":dup" ELSE "")

VARIABLE i
Init == i = 0
Report(r) ==
  LET o == Orphans(r.es)
      lost == {n \in 1..Len(r.acc) : r.acc[n].k \in {"D", "H"} /\ r.acc[n].t >= r.T /\ ~Kept(r.es, r.acc[n])} IN
  /\ \/ o = {}
     \/ PrintT("@@RC " \o ToJson([id |-> r.id, T |-> r.T,
                classes |-> {OrphanClass(r.es[j], r.T) \o Tag(r, r.es[j].ref) : j \in o},
                first |-> r.es[CHOOSE j \in o : \A k \in o : j <= k]]))
  /\ \/ lost = {}
     \/ PrintT("@@AK " \o ToJson([id |-> r.id, T |-> r.T,
                classes |-> {"lost" \o Tag(r, r.acc[n].ref) : n \in lost},
                first |-> r.acc[CHOOSE n \in lost : \A k \in lost : n <= k]]))
Next == i < Len(Tr) /\ i' = i + 1 /\ Report(Tr[i + 1])
Spec == Init /\ [][Next]_i
=============================================================================
