\* thorough: longer arrays, check only
SPECIFICATION Spec
CONSTANTS
  ScalesP = {12, 13, 14, 16}
  OffsetsP = {11, 12, 16, 17, 19, 20, 21, 27}
  MaxBuckets = 7
  CountVals = {0, 1, 3}
  Modes = {"exp", "explicit"}
  SimPick = 0
INVARIANTS BucketsMatch BucketsMatchNoScaleDown TotalPreserved WellFormed
CHECK_DEADLOCK FALSE
