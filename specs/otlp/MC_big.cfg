\* thorough: longer arrays, check only
SPECIFICATION Spec
CONSTANTS
  ScalesP = {12, 13, 14, 16}
  OffsetsP = {11, 12, 15, 16, 17, 18, 19, 20, 21, 22, 23, 27}
  MaxBuckets = 8
  CountVals = {0, 1, 3}
  Modes = {"exp", "explicit"}
  SimPick = 0
INVARIANTS BucketsMatch TotalPreserved WellFormed
CHECK_DEADLOCK FALSE
