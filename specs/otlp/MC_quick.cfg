\* exponential mode: every dense array of <=5 buckets x offsets x scales (below, at and above the supported maximum)
SPECIFICATION Spec
CONSTANTS
  ScalesP = {0, 12, 13, 14}
  OffsetsP = {15, 16, 17, 18, 19, 20, 21, 22, 23}
  MaxBuckets = 4
  CountVals = {0, 1, 2}
  Modes = {"exp"}
  SimPick = 0
INVARIANTS BucketsMatch TotalPreserved WellFormed EmitDone
CHECK_DEADLOCK FALSE
