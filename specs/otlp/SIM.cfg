\* seeded sample of long arrays (sparse, with zero runs) over more scales and offsets
SPECIFICATION Spec
CONSTANTS
  ScalesP = {0, 4, 11, 12, 13, 14, 15, 16}
  OffsetsP = {3, 4, 11, 12, 13, 19, 20, 21, 25, 35, 36}
  MaxBuckets = 12
  CountVals = {0, 0, 0, 1, 2, 7}
  Modes = {"exp", "explicit"}
  SimPick = 3
INVARIANTS BucketsMatch TotalPreserved WellFormed EmitDone
CHECK_DEADLOCK FALSE
