\* explicit histograms -> custom buckets: every dense array of <=6 buckets
SPECIFICATION Spec
CONSTANTS
  ScalesP = {4}
  OffsetsP = {20}
  MaxBuckets = 6
  CountVals = {0, 1, 2}
  Modes = {"explicit"}
  SimPick = 0
INVARIANTS BucketsMatch TotalPreserved WellFormed EmitDone
CHECK_DEADLOCK FALSE
