------------------------------ MODULE Convert ------------------------------
(***************************************************************************)
(* C43 - OTLP data points -> Prometheus samples.                            *)
(*                                                                         *)
(* Main part: an OTLP exponential histogram side (scale, offset, dense      *)
(* bucket counts with zero runs) becomes the sparse bucket layout of a      *)
(* native histogram at the supported resolution.                            *)
(*                                                                         *)
(*  REFERENCE  RefBuckets: exact integer index arithmetic.  OTLP bucket k   *)
(*     at scale s covers (b^k, b^(k+1)], b = 2^(2^-s); Prometheus bucket j  *)
(*     at schema s' covers (b'^(j-1), b'^j].  With d = max(0, s - 8) and    *)
(*     s' = s - d, source bucket k lies in target bucket floor(k / 2^d) + 1,*)
(*     and each target bucket holds the sum of the source buckets it covers.*)
(*                                                                         *)
(*  TRANSCRIPTION of convertBucketsLayout (histograms.go) as a state        *)
(*     machine: one action per loop iteration (Iter) and the epilogue        *)
(*     (Finish), producing spans and deltas; Decode turns them back into     *)
(*     index -> count.                                                      *)
(*                                                                         *)
(* TLC checks Decode(transcription) = RefBuckets for every generated input. *)
(* (KF-C43-1, a stale bucket index after an empty bucket, was found with     *)
(* this model and is fixed; the transcription follows the fixed code.)       *)
(* The same machine with d = 0 and no index adjustment is the explicit      *)
(* histogram -> custom buckets conversion (mode "explicit").                 *)
(*                                                                         *)
(* Point(...) gives, for number data points and for the scalar fields of    *)
(* histogram points, what must be appended (value / stale marker, count,    *)
(* sum, zero count, counter reset hint, timestamps in ms) - a case table.   *)
(***************************************************************************)
EXTENDS Integers, Sequences, FiniteSets, TLC, Json, Randomization

CONSTANTS ScalesP,    \* OTLP scales explored (exponential mode), written as scale + 4 (a cfg file cannot hold negative numbers)
          OffsetsP,   \* OTLP bucket offsets, written as offset + 20
          MaxBuckets, \* length of the dense bucket array
          CountVals,  \* bucket count values
          Modes,      \* subset of {"exp", "explicit"}
          SimPick     \* 0: all count arrays; n > 0: a seeded random sample of n arrays per length

Scales == {n - 4 : n \in ScalesP}
Offsets == {n - 20 : n \in OffsetsP}

SchemaMax == 8
SchemaMin == -4

Pow2(n) == IF n = 0 THEN 1 ELSE IF n = 1 THEN 2 ELSE IF n = 2 THEN 4 ELSE IF n = 3 THEN 8 ELSE 16
\* arithmetic shift right = floor division
Shr(x, d) == x \div Pow2(d)

ScaleDown(scale) == IF scale > SchemaMax THEN scale - SchemaMax ELSE 0
SchemaOf(scale) == IF scale > SchemaMax THEN SchemaMax ELSE scale

-----------------------------------------------------------------------------
(*                               REFERENCE                                  *)

\* target index of the source bucket at array position i (1-based), exponential mode
TargetIdx(i, off, d) == Shr(i - 1 + off, d) + 1

RECURSIVE PairSum(_)
\* sum of the counts of a set of <<index, count>>
PairSum(S) == IF S = {} THEN 0 ELSE LET x == CHOOSE y \in S : TRUE IN x[2] + PairSum(S \ {x})

\* index -> count for the non-empty target buckets, as a set of <<index, count>>
RefBuckets(mode, counts, off, d) ==
  LET idx(i) == IF mode = "exp" THEN TargetIdx(i, off, d) ELSE i - 1     \* explicit: bucket i-1 of the full array
      J == {idx(i) : i \in DOMAIN counts}
      tot(j) == LET S == {i \in DOMAIN counts : idx(i) = j} IN
                LET RECURSIVE s(_) s(T) == IF T = {} THEN 0 ELSE LET x == CHOOSE y \in T : TRUE IN counts[x] + s(T \ {x}) IN s(S)
  IN {<<j, tot(j)>> : j \in {k \in J : tot(k) # 0}}

-----------------------------------------------------------------------------
(*              TRANSCRIPTION of convertBucketsLayout                       *)

VARIABLES mode, scale, off, full,   \* input: full = the dense array as given by the data point
          counts, boff,             \* the arguments of convertBucketsLayout (explicit mode strips leading zeros)
          i,                        \* loop variable (1-based position), Len+1 = epilogue, Len+2 = done
          bucketIdx,                \* index the next appended bucket gets if there is no gap
          countIdx,                 \* index of the bucket `count` is being collected for
          count, prevCount, spans, deltas

vars == <<mode, scale, off, full, counts, boff, i, bucketIdx, countIdx, count, prevCount, spans, deltas>>

D == IF mode = "exp" THEN ScaleDown(scale) ELSE 0
Adjust == mode = "exp"

\* appendDelta
AppendDelta(sp, dl, pc, c) ==
  [spans |-> [sp EXCEPT ![Len(sp)].len = @ + 1], deltas |-> Append(dl, c - pc), prev |-> c]

RECURSIVE AppendZeros(_, _)
AppendZeros(st, n) == IF n <= 0 THEN st ELSE AppendZeros(AppendDelta(st.spans, st.deltas, st.prev, 0), n - 1)

\* the gap handling shared by the loop body and the epilogue, followed by appendDelta(count)
Flush(gap) ==
  LET st0 == [spans |-> spans, deltas |-> deltas, prev |-> prevCount]
      st1 == IF gap > 2 THEN [st0 EXCEPT !.spans = Append(@, [off |-> gap, len |-> 0])]      \* new span
             ELSE AppendZeros(st0, gap)                                                      \* fill the small gap
  IN AppendDelta(st1.spans, st1.deltas, st1.prev, count)

LeadingZeros(q) == LET nz == {k \in DOMAIN q : q[k] # 0} IN
                   IF nz = {} THEN Len(q) ELSE (CHOOSE k \in nz : \A m \in nz : k <= m) - 1

CountArrays(n) == IF SimPick > 0 THEN RandomSubset(SimPick, [1..n -> CountVals]) ELSE [1..n -> CountVals]

Init ==
  /\ mode \in Modes
  /\ scale \in (IF mode = "exp" THEN Scales ELSE {0})
  /\ off \in (IF mode = "exp" THEN Offsets ELSE {0})
  /\ full \in UNION {CountArrays(n) : n \in 0..MaxBuckets}
  /\ boff = IF mode = "exp" THEN off ELSE LeadingZeros(full)                 \* getBucketOffset
  /\ counts = IF mode = "exp" THEN full ELSE SubSeq(full, LeadingZeros(full) + 1, Len(full))
  /\ i = 1
  /\ bucketIdx = Shr(boff, D) + 1
  /\ countIdx = Shr(boff, D) + 1
  /\ count = 0 /\ prevCount = 0
  /\ spans = IF Len(counts) = 0 THEN <<>> ELSE <<[off |-> IF Adjust THEN Shr(boff, D) + 1 ELSE boff, len |-> 0]>>
  /\ deltas = <<>>

\* one iteration of `for i := range numBuckets`
Iter ==
  /\ Len(counts) > 0 /\ i <= Len(counts)
  /\ LET next == Shr(i - 1 + boff, D) + 1 IN
     IF countIdx = next
     THEN /\ count' = count + counts[i]                \* not enough buckets collected to merge yet
          /\ UNCHANGED <<bucketIdx, countIdx, prevCount, spans, deltas>>
     ELSE IF count = 0
     THEN /\ count' = counts[i]                        \* skip the empty bucket, collect for the next one
          /\ countIdx' = next
          /\ UNCHANGED <<bucketIdx, prevCount, spans, deltas>>
     ELSE LET st == Flush(countIdx - bucketIdx) IN
          /\ spans' = st.spans /\ deltas' = st.deltas /\ prevCount' = st.prev
          /\ bucketIdx' = countIdx + 1
          /\ count' = counts[i]
          /\ countIdx' = next
  /\ i' = i + 1
  /\ UNCHANGED <<mode, scale, off, full, counts, boff>>

\* after the loop: the last collected bucket has not been appended yet
Finish ==
  /\ Len(counts) > 0 /\ i = Len(counts) + 1
  /\ LET st == Flush(countIdx - bucketIdx) IN
     /\ spans' = st.spans /\ deltas' = st.deltas /\ prevCount' = st.prev
  /\ i' = i + 1
  /\ UNCHANGED <<mode, scale, off, full, counts, boff, bucketIdx, countIdx, count>>

Next == Iter \/ Finish
Spec == Init /\ [][Next]_vars

Done == i = Len(counts) + 2 \/ Len(counts) = 0

\* sparse layout -> set of <<index, count>> of the non-empty buckets (what a reader of the histogram sees)
RECURSIVE DecodeFrom(_, _, _, _, _)
DecodeFrom(sp, dl, idx, cur, acc) ==
  IF sp = <<>> THEN acc
  ELSE LET s == Head(sp)
           start == idx + s.off IN
       IF s.len = 0 THEN DecodeFrom(Tail(sp), dl, start, cur, acc)
       ELSE LET c == cur + Head(dl)
                acc2 == IF c # 0 THEN acc \cup {<<start, c>>} ELSE acc IN
            DecodeFrom(<<[off |-> 0, len |-> s.len - 1]>> \o Tail(sp), Tail(dl), start + 1, c, acc2)
Decode(sp, dl) == DecodeFrom(sp, dl, 0, 0, {})

Ref == RefBuckets(mode, full, off, D)

-----------------------------------------------------------------------------
(*                              PROPERTIES                                  *)

\* C43 on the design: each target bucket holds the sum of the source buckets it covers
BucketsMatch == Done => Decode(spans, deltas) = Ref

\* the total never changes, whatever the layout
RECURSIVE SeqSum(_)
SeqSum(q) == IF q = <<>> THEN 0 ELSE Head(q) + SeqSum(Tail(q))
TotalPreserved == Done => PairSum(Decode(spans, deltas)) = SeqSum(full)

\* layout well-formedness: as many deltas as span lengths, no negative bucket
WellFormed == Done => /\ SeqSum([k \in DOMAIN spans |-> spans[k].len]) = Len(deltas)
                      /\ \A p \in Decode(spans, deltas) : p[2] > 0

-----------------------------------------------------------------------------
(*           scalar fields of the converted points (case table)             *)

\* what must be appended for a data point of the given kind
\* kind: "gauge" | "sum" | "exp" | "explicit"; vtype: "int" | "double"; norec: flag NoRecordedValue;
\* temp: "cumulative" | "delta" | "none"; hasSum
Point(kind, vtype, norec, temp, hasSum) ==
  [value |-> IF kind \in {"gauge", "sum"} THEN (IF norec THEN "stale" ELSE vtype) ELSE "none",
   hcount |-> IF kind \in {"exp", "explicit"} THEN (IF norec THEN "stale" ELSE "count") ELSE "none",
   hsum |-> IF kind \in {"exp", "explicit"} THEN (IF norec THEN "stale" ELSE IF hasSum THEN "sum" ELSE "zero") ELSE "none",
   hint |-> IF kind \in {"exp", "explicit"} THEN (IF temp = "delta" THEN "gauge" ELSE "unknown") ELSE "none",
   ts |-> "ms", st |-> "ms"]

PointCases == [kind : {"gauge", "sum", "exp", "explicit"}, vtype : {"int", "double"}, norec : BOOLEAN,
               temp : {"cumulative", "delta"}, hasSum : BOOLEAN]

ToSeq(S) == LET RECURSIVE f(_) f(T) == IF T = {} THEN <<>> ELSE LET x == CHOOSE y \in T : TRUE IN <<x>> \o f(T \ {x}) IN f(S)

Behaviour ==
  [mode |-> mode, scale |-> scale, schema |-> IF mode = "exp" THEN SchemaOf(scale) ELSE -53, off |-> off, counts |-> full,
   want |-> ToSeq(Ref),
   layout |-> [spans |-> spans, deltas |-> deltas]]

EmitDone == ~Done \/ PrintT("@@TR " \o ToJson(Behaviour))

\* the case table is emitted once per run
ASSUME PrintT("@@PT " \o ToJson(ToSeq({[c |-> c, p |-> Point(c.kind, c.vtype, c.norec, c.temp, c.hasSum)] : c \in PointCases})))
=============================================================================
