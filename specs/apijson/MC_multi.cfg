\* empty / one / two series and samples (list punctuation), every result emitted
SPECIFICATION Spec
CONSTANTS
  Kinds = {"vector", "matrix"}
  FloatClasses = {"frac"}
  TsClasses = {"ms"}
  LabelClasses = {"one", "esc"}
  HistShapes = {}
  MaxSamples = 2
  MaxSeries = 2
INVARIANTS Lossless BucketsAscending NoEmptyBuckets PointsPreserved EmitAll
CHECK_DEADLOCK FALSE
