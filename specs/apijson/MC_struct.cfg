\* vectors of <=2 samples and one-series matrices of <=3 points mixing floats and histograms
SPECIFICATION Spec
CONSTANTS
  Kinds = {"vector", "matrix"}
  FloatClasses = {"frac"}
  TsClasses = {"ms", "neg"}
  LabelClasses = {"one", "esc"}
  HistShapes = {"custom"}
  MaxSamples = 3
  MaxSeries = 1
INVARIANTS Lossless BucketsAscending NoEmptyBuckets PointsPreserved
CHECK_DEADLOCK FALSE
