\* as MC_struct with a smaller alphabet, every result emitted
SPECIFICATION Spec
CONSTANTS
  Kinds = {"vector", "matrix"}
  FloatClasses = {"frac"}
  TsClasses = {"ms"}
  LabelClasses = {"one"}
  HistShapes = {"custom"}
  MaxSamples = 3
  MaxSeries = 1
INVARIANTS Lossless BucketsAscending NoEmptyBuckets PointsPreserved EmitAll
CHECK_DEADLOCK FALSE
