------------------------------ MODULE ApiJson ------------------------------
(***************************************************************************)
(* C51 (structural part) - the JSON the query API writes for a result.      *)
(*                                                                         *)
(* A result is a scalar, a string, an instant vector or a range matrix of   *)
(* float and native-histogram samples.  Floats, timestamps, label sets and  *)
(* bucket boundaries are symbolic classes here (the harness concretises     *)
(* them; text fidelity of floats / timestamps is observed only in replay).  *)
(*                                                                         *)
(* Encode(result) is the JSON tree web/api/v1/json_codec.go together with   *)
(* util/jsonutil must write:                                                *)
(*   vector: [{metric, value:[t,"v"]} | {metric, histogram:[t,{...}]}]      *)
(*   matrix: [{metric, values:[[t,"v"]..]?, histograms:[[t,{...}]..]?}]     *)
(*           (an empty list is omitted)                                     *)
(*   scalar / string: [t, "v"]                                              *)
(*   histogram: {count, sum, buckets?:[[code, lo, hi, count]..]} with the   *)
(*           non-empty buckets only, ordered from the most negative to the  *)
(*           most positive, code = 0 (lo,hi]  1 [lo,hi)  2 (lo,hi)  3 [lo,hi]*)
(*                                                                         *)
(* RefBuckets(h) is what the histogram means (the definition of native      *)
(* histograms): positive exponential buckets are (lo,hi], negative ones     *)
(* [lo,hi), the zero bucket [-zt,zt], custom buckets (lo,hi] with the first *)
(* one closed below at -Inf; a bucket overlapping the zero bucket starts /  *)
(* ends at the zero threshold.  TLC checks Decode(Encode(x)) = x on the     *)
(* structure (Lossless), the bucket order and that no empty bucket is       *)
(* written.                                                                 *)
(***************************************************************************)
EXTENDS Integers, Sequences, FiniteSets, TLC, Json

CONSTANTS Kinds,        \* subset of {"scalar","string","vector","matrix"}
          FloatClasses, \* symbolic float values
          TsClasses,    \* symbolic timestamps
          LabelClasses, \* symbolic label sets
          HistShapes,   \* subset of {"exp","custom"}
          MaxSamples,   \* samples per vector / points per series
          MaxSeries     \* series per matrix

CountClasses == {"z", "c"}                 \* empty / non-empty bucket

\* a native histogram: two negative and two positive exponential buckets (index k = 1 is the one next to zero),
\* a zero bucket with threshold class zt, or three custom buckets (two finite bounds and +Inf)
ExpHists == [shape : {"exp"}, neg : [1..2 -> CountClasses], pos : [1..2 -> CountClasses], zero : CountClasses,
             zt : {"none", "low", "clamp"}, cnt : {"c"}, sum : {"s"}]
CustomHists == [shape : {"custom"}, neg : {[k \in 1..2 |-> "z"]}, pos : [1..2 -> CountClasses], zero : CountClasses,
                zt : {"none"}, cnt : {"c"}, sum : {"s"}]       \* pos[1], pos[2], zero (re-used) = the three custom buckets
Hists == (IF "exp" \in HistShapes THEN ExpHists ELSE {}) \cup (IF "custom" \in HistShapes THEN CustomHists ELSE {})

-----------------------------------------------------------------------------
(*                  what a histogram means (reference)                      *)

\* [lo, hi, loInc, hiInc, c] of every non-empty bucket, as a set
RefBuckets(h) ==
  IF h.shape = "custom"
  THEN {b \in { [lo |-> "NINF", hi |-> "C1", loInc |-> TRUE,  hiInc |-> TRUE, c |-> "c1", on |-> h.pos[1] = "c"],
                [lo |-> "C1",   hi |-> "C2", loInc |-> FALSE, hiInc |-> TRUE, c |-> "c2", on |-> h.pos[2] = "c"],
                [lo |-> "C2",   hi |-> "PINF", loInc |-> FALSE, hiInc |-> TRUE, c |-> "c3", on |-> h.zero = "c"] } : b.on}
  ELSE LET clamp == h.zt = "clamp" IN
       {b \in { [lo |-> "N2l", hi |-> "N2h", loInc |-> TRUE, hiInc |-> FALSE, c |-> "n2", on |-> h.neg[2] = "c"],
                [lo |-> "N1l", hi |-> IF clamp THEN "NZT" ELSE "N1h", loInc |-> TRUE, hiInc |-> FALSE, c |-> "n1", on |-> h.neg[1] = "c"],
                [lo |-> "NZT", hi |-> "ZT", loInc |-> TRUE, hiInc |-> TRUE, c |-> "z", on |-> h.zero = "c"],
                [lo |-> IF clamp THEN "ZT" ELSE "P1l", hi |-> "P1h", loInc |-> FALSE, hiInc |-> TRUE, c |-> "p1", on |-> h.pos[1] = "c"],
                [lo |-> "P2l", hi |-> "P2h", loInc |-> FALSE, hiInc |-> TRUE, c |-> "p2", on |-> h.pos[2] = "c"] } : b.on}

\* position of a boundary symbol on the real line (for the order check)
Rank(s) == CASE s = "NINF" -> 0 [] s = "N2l" -> 1 [] s = "N2h" -> 2 [] s = "N1l" -> 3 [] s = "N1h" -> 4 [] s = "NZT" -> 5
             [] s = "ZT" -> 6 [] s = "P1l" -> 7 [] s = "P1h" -> 8 [] s = "P2l" -> 9 [] s = "P2h" -> 10
             [] s = "C1" -> 11 [] s = "C2" -> 12 [] s = "PINF" -> 13

-----------------------------------------------------------------------------
(*                 the encoder (jsonutil.MarshalHistogram etc.)             *)

Code(loInc, hiInc) == IF loInc THEN (IF hiInc THEN 3 ELSE 1) ELSE (IF hiInc THEN 0 ELSE 2)

\* FloatHistogram.AllBucketIterator order: negative buckets from the most negative, zero bucket, positive buckets
IterOrder(h) ==
  IF h.shape = "custom"
  THEN << [lo |-> "NINF", hi |-> "C1", loInc |-> TRUE, hiInc |-> TRUE, c |-> "c1", on |-> h.pos[1] = "c"],
          [lo |-> "C1", hi |-> "C2", loInc |-> FALSE, hiInc |-> TRUE, c |-> "c2", on |-> h.pos[2] = "c"],
          [lo |-> "C2", hi |-> "PINF", loInc |-> FALSE, hiInc |-> TRUE, c |-> "c3", on |-> h.zero = "c"] >>
  ELSE LET clamp == h.zt = "clamp" IN
       << [lo |-> "N2l", hi |-> "N2h", loInc |-> TRUE, hiInc |-> FALSE, c |-> "n2", on |-> h.neg[2] = "c"],
          [lo |-> "N1l", hi |-> IF clamp THEN "NZT" ELSE "N1h", loInc |-> TRUE, hiInc |-> FALSE, c |-> "n1", on |-> h.neg[1] = "c"],
          [lo |-> "NZT", hi |-> "ZT", loInc |-> TRUE, hiInc |-> TRUE, c |-> "z", on |-> h.zero = "c"],
          [lo |-> IF clamp THEN "ZT" ELSE "P1l", hi |-> "P1h", loInc |-> FALSE, hiInc |-> TRUE, c |-> "p1", on |-> h.pos[1] = "c"],
          [lo |-> "P2l", hi |-> "P2h", loInc |-> FALSE, hiInc |-> TRUE, c |-> "p2", on |-> h.pos[2] = "c"] >>

EncodeHist(h) ==
  LET bs  == SelectSeq(IterOrder(h), LAMBDA b : b.on)            \* if bucket.Count == 0 { continue }
      arr == [i \in 1..Len(bs) |-> [code |-> Code(bs[i].loInc, bs[i].hiInc), lo |-> bs[i].lo, hi |-> bs[i].hi, c |-> bs[i].c]]
  IN [count |-> h.cnt, sum |-> h.sum, hasBuckets |-> Len(arr) > 0, buckets |-> arr]

NoHist == [shape |-> "none", neg |-> [k \in 1..2 |-> "z"], pos |-> [k \in 1..2 |-> "z"], zero |-> "z", zt |-> "none",
           cnt |-> "c", sum |-> "s"]
Points == [t : TsClasses, f : FloatClasses, h : {NoHist}] \cup [t : TsClasses, f : {"none"}, h : Hists]
IsHist(p) == p.h.shape # "none"

EncodePoint(p) == IF IsHist(p) THEN [t |-> p.t, hist |-> EncodeHist(p.h)] ELSE [t |-> p.t, v |-> p.f]

\* marshalSampleJSON
EncodeSample(s) == [metric |-> s.ls, key |-> IF IsHist(s.p) THEN "histogram" ELSE "value", point |-> EncodePoint(s.p)]

\* marshalSeriesJSON: floats first, then histograms; an empty list is not written
EncodeSeries(s) ==
  LET fl == SelectSeq(s.ps, LAMBDA p : ~IsHist(p))
      hs == SelectSeq(s.ps, LAMBDA p : IsHist(p))
  IN [metric |-> s.ls, hasValues |-> Len(fl) > 0, values |-> [i \in 1..Len(fl) |-> EncodePoint(fl[i])],
      hasHistograms |-> Len(hs) > 0, histograms |-> [i \in 1..Len(hs) |-> EncodePoint(hs[i])]]

Encode(r) ==
  CASE r.kind = "scalar" -> [resultType |-> "scalar", t |-> r.t, v |-> r.f]
    [] r.kind = "string" -> [resultType |-> "string", t |-> r.t, v |-> r.f]
    [] r.kind = "vector" -> [resultType |-> "vector", result |-> [i \in 1..Len(r.items) |-> EncodeSample(r.items[i])]]
    [] r.kind = "matrix" -> [resultType |-> "matrix", result |-> [i \in 1..Len(r.items) |-> EncodeSeries(r.items[i])]]

-----------------------------------------------------------------------------
(*                    structural decoder (what a client reads)              *)

DecodeBuckets(e) == {[lo |-> e.buckets[i].lo, hi |-> e.buckets[i].hi,
                      loInc |-> e.buckets[i].code \in {1, 3}, hiInc |-> e.buckets[i].code \in {0, 3},
                      c |-> e.buckets[i].c, on |-> TRUE] : i \in DOMAIN e.buckets}

-----------------------------------------------------------------------------
VARIABLES result

Samples == [ls : LabelClasses, p : Points]
SeriesSet == [ls : LabelClasses, ps : UNION {[1..n -> Points] : n \in 1..MaxSamples}]

Results ==
  (IF "scalar" \in Kinds THEN [kind : {"scalar"}, t : TsClasses, f : FloatClasses] ELSE {}) \cup
  (IF "string" \in Kinds THEN [kind : {"string"}, t : TsClasses, f : {"str"}] ELSE {}) \cup
  (IF "vector" \in Kinds THEN [kind : {"vector"}, items : UNION {[1..n -> Samples] : n \in 0..MaxSamples}] ELSE {}) \cup
  (IF "matrix" \in Kinds THEN [kind : {"matrix"}, items : UNION {[1..n -> SeriesSet] : n \in 0..MaxSeries}] ELSE {})

Init == result \in Results
Next == UNCHANGED result
Spec == Init /\ [][Next]_result

\* every histogram that occurs in the result
HistsOf(r) ==
  CASE r.kind = "vector" -> {r.items[i].p.h : i \in {j \in DOMAIN r.items : IsHist(r.items[j].p)}}
    [] r.kind = "matrix" -> UNION {{r.items[i].ps[k].h : k \in {j \in DOMAIN r.items[i].ps : IsHist(r.items[i].ps[j])}} : i \in DOMAIN r.items}
    [] OTHER -> {}

\* C51 on the structure: what a client decodes from the bucket list is exactly the set of non-empty buckets with their
\* boundaries and inclusiveness
Lossless == \A h \in HistsOf(result) : DecodeBuckets(EncodeHist(h)) = RefBuckets(h)

\* buckets are written in ascending order and never overlap
BucketsAscending == \A h \in HistsOf(result) :
  LET bs == EncodeHist(h).buckets IN
  \A i \in 1..(Len(bs) - 1) : Rank(bs[i].hi) <= Rank(bs[i + 1].lo) /\ Rank(bs[i].lo) < Rank(bs[i].hi)

\* no empty bucket is written and the "buckets" key is absent when there is none
NoEmptyBuckets == \A h \in HistsOf(result) :
  LET e == EncodeHist(h) IN
  /\ Len(e.buckets) = Cardinality({b \in RefBuckets(h) : TRUE})
  /\ e.hasBuckets = (RefBuckets(h) # {})

\* every point of the input occurs exactly once in the output, floats before histograms within a series
PointsPreserved ==
  CASE result.kind = "vector" -> Len(Encode(result).result) = Len(result.items)
    [] result.kind = "matrix" -> \A i \in DOMAIN result.items :
         LET e == Encode(result).result[i] IN Len(e.values) + Len(e.histograms) = Len(result.items[i].ps)
    [] OTHER -> TRUE

Behaviour == [in |-> result, out |-> Encode(result)]
EmitAll == PrintT("@@TR " \o ToJson(Behaviour))
=============================================================================
