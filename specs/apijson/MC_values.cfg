\* every float class x timestamp class as scalar, string and one-sample vector
SPECIFICATION Spec
CONSTANTS
  Kinds = {"scalar", "string", "vector"}
  FloatClasses = {"zero", "negzero", "one", "frac", "cut_lo_below", "cut_lo_at", "cut_hi_below", "cut_hi_at", "subnormal", "max", "nan", "pinf", "ninf", "negfrac"}
  TsClasses = {"zero", "ms", "ms_small_frac", "neg", "round_s", "big", "minapi", "maxapi"}
  LabelClasses = {"empty", "esc"}
  HistShapes = {}
  MaxSamples = 1
  MaxSeries = 1
INVARIANTS Lossless BucketsAscending NoEmptyBuckets PointsPreserved EmitAll
CHECK_DEADLOCK FALSE
