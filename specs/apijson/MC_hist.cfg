\* every histogram shape in a one-sample vector
SPECIFICATION Spec
CONSTANTS
  Kinds = {"vector"}
  FloatClasses = {"one"}
  TsClasses = {"ms"}
  LabelClasses = {"one"}
  HistShapes = {"exp", "custom"}
  MaxSamples = 1
  MaxSeries = 1
INVARIANTS Lossless BucketsAscending NoEmptyBuckets PointsPreserved EmitAll
CHECK_DEADLOCK FALSE
