SPECIFICATION Spec
CONSTANTS
  Apps = {"a1", "a2", "a3"}
  Series = {"s1", "s2"}
  Tx <- TxMid
  Rollbackers = {}
  NReaders = 2
  ChunkCap = 2
  MaxOps = 60
  EmitMode = "none"
  HistViews = FALSE
  OrderedBegin = FALSE
  MaxOpen = 9
  NoClose = FALSE
VIEW View0
INVARIANTS TypeOK RingConsistent InOrder NoDirty PrefixRule CompleteKF AtomicKF CleanupSafe SeekConsistent SeekNoDirty
PROPERTIES Stable
CHECK_DEADLOCK FALSE
