SPECIFICATION Spec
CONSTANTS
  Apps = {"a1", "a2"}
  Series = {"s1", "s2"}
  Tx <- TxTwoB
  Rollbackers = {}
  NReaders = 1
  ChunkCap = 2
  MaxOps = 40
  EmitMode = "none"
  HistViews = FALSE
  OrderedBegin = FALSE
  MaxOpen = 9
  NoClose = FALSE
VIEW View0
INVARIANTS TypeOK NoDirty PrefixRule Complete
CHECK_DEADLOCK FALSE
