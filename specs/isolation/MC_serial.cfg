SPECIFICATION Spec
CONSTANTS
  Apps = {"a1", "a2", "a3", "a4", "a5", "a6", "a7", "a8", "a9"}
  Series = {"s1", "s2"}
  Tx <- TxSerial
  Rollbackers = {}
  NReaders = 2
  ChunkCap = 2
  MaxOps = 80
  EmitMode = "state"
  HistViews = FALSE
  OrderedBegin = TRUE
  MaxOpen = 1
  NoClose = TRUE
VIEW View0
INVARIANTS TypeOK RingShape RingConsistent InOrder NoDirty PrefixRule CompleteKF AtomicKF CleanupSafe SeekConsistent SeekNoDirty EmitState
PROPERTIES Stable
CHECK_DEADLOCK FALSE
