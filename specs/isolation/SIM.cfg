SPECIFICATION Spec
CONSTANTS
  Apps = {"a1", "a2", "a3", "a4"}
  Series = {"s1", "s2", "s3"}
  Tx <- TxFour
  Rollbackers = {"a2", "a4"}
  NReaders = 3
  ChunkCap = 2
  MaxOps = 40
  EmitMode = "none"
  HistViews = TRUE
  OrderedBegin = FALSE
  MaxOpen = 9
  NoClose = FALSE
INVARIANTS TypeOK RingConsistent InOrder NoDirty PrefixRule CompleteKF AtomicKF CleanupSafe SeekConsistent SeekNoDirty EmitWalk
CHECK_DEADLOCK FALSE
