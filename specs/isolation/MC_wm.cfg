SPECIFICATION Spec
CONSTANTS
  Apps = {"a1", "a2", "a3"}
  Series = {"s1"}
  Tx <- TxWm
  Rollbackers = {}
  NReaders = 2
  ChunkCap = 2
  MaxOps = 40
  EmitMode = "state"
  HistViews = FALSE
  OrderedBegin = TRUE
  MaxOpen = 9
  NoClose = FALSE
VIEW View0
INVARIANTS TypeOK RingConsistent InOrder NoDirty PrefixRule CompleteKF AtomicKF CleanupSafe SeekConsistent SeekNoDirty EmitState
PROPERTIES Stable
CHECK_DEADLOCK FALSE
