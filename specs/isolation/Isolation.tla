------------------------------ MODULE Isolation ------------------------------
(***************************************************************************)
(* Head isolation (C05): concurrent appenders, commits, rollbacks, chunk   *)
(* cuts, m-mapping and queriers of the TSDB head.                          *)
(*                                                                         *)
(* Code modelled (prometheus/tsdb):                                        *)
(*   isolation.go     isolation.newAppendID / closeAppend / State /        *)
(*                    lowWatermarkLocked, txRing.add / cleanupAppendIDsBelow*)
(*   head_append.go   Head.appender, headAppender.Append (appendable),     *)
(*                    headAppenderBase.Commit -> commitFloats (one critical*)
(*                    section per sample under the series lock),           *)
(*                    memSeries.append / appendPreprocessor (chunk cut),   *)
(*                    memSeries.mmapChunks, Rollback                       *)
(*   head_read.go     memSeries.iterator (stopAfter computed from the ring)*)
(*                                                                         *)
(* One process per goroutine: every appender in Apps, readers 1..NReaders, *)
(* and the m-map ticker.  One action per critical section:                 *)
(*   Begin(a)        Head.Appender() [appendMtx] + the Append calls of the *)
(*                   transaction (each only reads the series under its lock)*)
(*   CommitSample(a) one iteration of the commitFloats loop [series lock]; *)
(*                   the first one also contains Commit()'s WAL logging    *)
(*   Close(a)        deferred iso.closeAppend [appendMtx] - the point where*)
(*                   the transaction becomes visible                       *)
(*   Rollback(a)     Rollback: ring cleanup per series, closeAppend        *)
(*   Mmap            Head.mmapHeadChunks [series lock per series]          *)
(*   OpenRead(r)     isolation.State [appendMtx.RLock, readMtx]            *)
(*   CloseRead(r)    isolationState.Close [readMtx]                        *)
(* What a reader r returns for series s in a state is the state function   *)
(* View(r, s), a transcription of memSeries.iterator chunk by chunk.       *)
(*                                                                         *)
(* Ref(r, s) is what the *property* demands: exactly the samples of the    *)
(* appenders that had closed when r was opened.                            *)
(***************************************************************************)
EXTENDS Integers, Sequences, FiniteSets, TLC, Json

CONSTANTS Apps,         \* set of appender names (strings)
          Series,       \* set of series names (strings)
          Tx,           \* [Apps -> Seq([s : Series, t : Nat])]: the samples each appender appends, in Append order
          Rollbackers,  \* appenders that may roll back instead of committing
          NReaders,     \* readers 1..NReaders, opened in index order
          ChunkCap,     \* a head chunk is cut when it holds ChunkCap samples (= 2*SamplesPerChunk)
          MaxOps,       \* bound on the history length
          EmitMode,     \* "all" (every transition) | "state" (one per distinct state) | "none"
          HistViews,    \* TRUE: every history step carries the predicted views (simulation)
          NoClose,      \* TRUE: readers stay open (state-space reduction for the long serial histories)
          MaxOpen,      \* at most this many appenders between Begin and Close at any time (1 = strictly serial histories)
          OrderedBegin  \* TRUE: appenders are created in name order (state-space reduction for the 3-appender emission model)

VARIABLES lastID,   \* isolation.appendsOpenList.appendID (last issued append id)
          open,     \* keys of isolation.appendsOpen
          ap,       \* per appender: pc, id, lw (cleanupAppendIDsBelow), batch (indices of Tx[a] accepted by Append), k (#committed)
          ser,      \* per series: samples (in-order chunk contents), ring (memSeries.txs), chunks (sample count per chunk, oldest first), mm (#m-mapped chunks)
          rd,       \* per reader: st, max (maxAppendID), inc (incompleteAppends), lw (lowWatermark)
          nops, hist

vars == <<lastID, open, ap, ser, rd, nops, hist>>
View0 == <<lastID, open, ap, ser, rd>>

Readers == 1..NReaders
Last(q) == q[Len(q)]
Min(S) == CHOOSE x \in S : \A y \in S : x <= y
MaxOf(a, b) == IF a >= b THEN a ELSE b
RECURSIVE SumSeq(_)
SumSeq(q) == IF q = <<>> THEN 0 ELSE q[1] + SumSeq(Tail(q))
RECURSIVE DropBelow(_, _)
\* txRing.cleanupAppendIDsBelow: pops from the front while the id is < bound
DropBelow(ring, bound) == IF ring # <<>> /\ ring[1] < bound THEN DropBelow(Tail(ring), bound) ELSE ring

OpenReaders == {r \in Readers : rd[r].st = "open"}
\* isolation.lowWatermarkLocked (appendMtx held): the oldest open read's watermark
\* (readsOpen.prev), else the lowest open append id, else the last issued id
LowWatermark(op, last) ==
  IF OpenReaders # {} THEN rd[Min(OpenReaders)].lw
  ELSE IF op # {} THEN Min(op) ELSE last

\* memSeries.appendable for a float, OOO disabled, t >= minValidTime, values unique per sample:
\* in order iff the series is empty or t is beyond the last in-order sample
Appendable(sr, t) == sr.samples = <<>> \/ t > Last(sr.samples).t

\* memSeries.append: appendPreprocessor cuts a new head chunk when the open one is full, then
\* the sample goes to the open chunk and its append id to the ring
\* txRing.add also keeps the physical ring: cap = len(txIDs) (0, then 4, then doubling when full: the contents are
\* unrolled so that the first id is at slot 0), first = txIDFirst.  The logical contents are `ring`.
Grows(sr) == Len(sr.ring) = sr.cap
Store(sr, t, id, a, n) ==
  [sr EXCEPT !.samples = Append(@, [t |-> t, id |-> id, a |-> a, n |-> n]),
             !.ring    = Append(@, id),
             !.cap     = IF Grows(sr) THEN (IF @ = 0 THEN 4 ELSE 2 * @) ELSE @,
             !.first   = IF Grows(sr) THEN 0 ELSE @,
             !.chunks  = IF @ = <<>> \/ Last(@) >= ChunkCap THEN Append(@, 1)
                         ELSE [@ EXCEPT ![Len(@)] = @ + 1]]
\* txRing.cleanupAppendIDsBelow: the first slot advances (modulo the capacity) past every dropped id
Cleanup(sr, bound) ==
  LET r2 == DropBelow(sr.ring, bound)  d == Len(sr.ring) - Len(r2) IN
  [sr EXCEPT !.ring = r2, !.first = IF sr.cap = 0 THEN 0 ELSE (@ + d) % sr.cap]

Init ==
  /\ lastID = 0 /\ open = {}
  /\ ap = [a \in Apps |-> [pc |-> "idle", id |-> 0, lw |-> 0, batch |-> <<>>, k |-> 0]]
  /\ ser = [s \in Series |-> [samples |-> <<>>, ring |-> <<>>, cap |-> 0, first |-> 0, chunks |-> <<>>, mm |-> 0]]
  /\ rd = [r \in Readers |-> [st |-> "new", max |-> 0, inc |-> {}, lw |-> 0]]
  /\ nops = 0
  /\ hist = <<>>

-----------------------------------------------------------------------------
(* What a reader sees.                                                      *)

Visible(r, id) == id <= rd[r].max /\ id \notin rd[r].inc

\* memSeries.iterator for chunk c (1-based, oldest first) of series record sr:
\*   appendIDsToConsider = txIDCount - (totalSamples - (previousSamples + numSamples))
\*   walk the ring from its first entry; at the first entry the reader must not see,
\*   stopAfter = max(numSamples - (appendIDsToConsider - index), 0)
PrevOf(sr, c) == SumSeq(SubSeq(sr.chunks, 1, c - 1))
StopOf(r, sr, c) ==
  LET num      == sr.chunks[c]
      total    == SumSeq(sr.chunks)
      prev     == PrevOf(sr, c)
      consider == Len(sr.ring) - (total - (prev + num))
      bad      == {i \in 0..(consider - 1) : ~Visible(r, sr.ring[i + 1])}
  IN IF bad = {} THEN num ELSE MaxOf(num - (consider - Min(bad)), 0)
\* stopAfter = 0 -> NopIterator, stopAfter = numSamples -> the chunk's own iterator, else a stopIterator
ChunkView(r, sr, c) == SubSeq(sr.samples, PrevOf(sr, c) + 1, PrevOf(sr, c) + StopOf(r, sr, c))

RECURSIVE ViewFrom(_, _, _)
ViewFrom(r, sr, c) == IF c > Len(sr.chunks) THEN <<>> ELSE ChunkView(r, sr, c) \o ViewFrom(r, sr, c + 1)
\* the samples a Select on series s through reader r returns (implementation transcription)
View(r, s) == ViewFrom(r, ser[s], 1)

\* what the property demands: the samples of every appender closed before r was opened
Ref(r, s) == SelectSeq(ser[s].samples, LAMBDA x : Visible(r, x.id))

\* what the implementation actually guarantees: the longest all-visible prefix
RECURSIVE VisPrefix(_, _)
VisPrefix(r, q) == IF q = <<>> \/ ~Visible(r, q[1].id) THEN <<>> ELSE <<q[1]>> \o VisPrefix(r, Tail(q))

\* Reading positioned by Seek.  populateWithDelSeriesIterator.Seek on a fresh series iterator first calls
\* Next (first sample a chunk iterator yields), then Seek on the current chunk iterator, moving to the next
\* chunk while that returns nothing.  stopIterator.Seek (head_read.go) steps through its own Next, so a
\* positioned read never goes past stopAfter either.  (Until the fix of KF-C05-2 Seek was the embedded
\* chunk iterator's and walked the whole chunk: a dirty read.  SeekConsistent / SeekNoDirty fail again
\* in the replay if that comes back.)  SeekRef is what the property demands.
MinOf(a, b) == IF a <= b THEN a ELSE b
RECURSIVE SeekFrom(_, _, _, _)
SeekFrom(r, sr, c, t) ==
  IF c > Len(sr.chunks) THEN <<>>
  ELSE LET q    == ChunkView(r, sr, c)          \* what this chunk's iterator can yield at all
           hits == {j \in 1..Len(q) : q[j].t >= t}
       IN IF hits = {} THEN SeekFrom(r, sr, c + 1, t)
          ELSE SubSeq(q, Min(hits), Len(q)) \o ViewFrom(r, sr, c + 1)
SeekView(r, s, t) == SeekFrom(r, ser[s], 1, t)
From(q, t) == SelectSeq(q, LAMBDA x : x.t >= t)
SeekRef(r, s, t) == From(Ref(r, s), t)
Times == UNION {{Tx[a][i].t : i \in 1..Len(Tx[a])} : a \in Apps}

Smp(x) == <<x.a, x.n, x.t>>
Smps(q) == [i \in 1..Len(q) |-> Smp(q[i])]
\* KF-C05-1 (DESIGN H2): a committed sample stored behind a sample of a still-open appender in the
\* same series is hidden together with it.  Narrow signature: the reader's view of the series is the
\* visible prefix and the first hidden sample belongs to an appender open at reader creation or later.
HiddenBehindOpen(r, s) ==
  LET p == VisPrefix(r, ser[s].samples) IN
  /\ View(r, s) = p
  /\ Len(p) < Len(ser[s].samples)
  /\ \E i \in (Len(p) + 2)..Len(ser[s].samples) : Visible(r, ser[s].samples[i].id)

\* predicted observations of every reader in the current state: impl = transcription of the code,
\* ref = what the property demands, h2 = the (impl # ref) difference is exactly KF-C05-1
Views == [r \in Readers |->
            [st   |-> rd[r].st,
             impl |-> [s \in Series |-> IF rd[r].st = "open" THEN Smps(View(r, s)) ELSE <<>>],
             ref  |-> [s \in Series |-> IF rd[r].st = "open" THEN Smps(Ref(r, s)) ELSE <<>>],
             h2   |-> [s \in Series |-> rd[r].st = "open" /\ HiddenBehindOpen(r, s)],
             \* Seek(t)+Next reads that the transcription predicts to differ from the tail of impl (KF-C05-2)
             seekdev |-> [s \in Series |-> IF rd[r].st # "open" THEN {} ELSE
                            {<<t, Smps(SeekView(r, s, t))>> : t \in {u \in Times : SeekView(r, s, u) # From(View(r, s), u)}}]]]

\* implementation-shaped state, compared as drift only
Shape == [s \in Series |-> [ring |-> ser[s].ring, cap |-> ser[s].cap, first |-> ser[s].first, chunks |-> ser[s].chunks, mm |-> ser[s].mm]]

-----------------------------------------------------------------------------
(* Actions.                                                                 *)

\* (must be the last conjunct of an action: with HistViews it reads the primed state)
Step(rec) == /\ nops' = nops + 1
             /\ hist' = Append(hist, IF HistViews THEN rec @@ [views |-> Views', shape |-> Shape'] ELSE rec)

\* Head.Appender (iso.newAppendID) followed by the Append calls; a sample is batched iff appendable
AppRank(a) == CHOOSE i \in 1..9 : <<"a1", "a2", "a3", "a4", "a5", "a6", "a7", "a8", "a9">>[i] = a
Begin(a) ==
  /\ ap[a].pc = "idle"
  /\ OrderedBegin => \A b \in Apps : AppRank(b) < AppRank(a) => ap[b].pc # "idle"
  /\ Cardinality({b \in Apps : ap[b].pc \in {"open", "commit"}}) < MaxOpen
  /\ LET id  == lastID + 1
         op  == open \cup {id}
         lw  == LowWatermark(op, id)
         acc == [n \in 1..Len(Tx[a]) |-> Appendable(ser[Tx[a][n].s], Tx[a][n].t)]
         idx == SelectSeq([n \in 1..Len(Tx[a]) |-> n], LAMBDA n : acc[n])
     IN /\ lastID' = id
        /\ open' = op
        /\ ap' = [ap EXCEPT ![a] = [pc |-> "open", id |-> id, lw |-> lw, batch |-> idx, k |-> 0]]
        /\ UNCHANGED <<ser, rd>>
        /\ Step([a |-> "Begin", app |-> a, id |-> id, lw |-> lw, tx |-> Tx[a], acc |-> acc])

\* one iteration of commitFloats: re-check appendable, append, cleanupAppendIDsBelow(a.lw), unlock
CommitSample(a) ==
  /\ ap[a].pc \in {"open", "commit"}
  /\ ap[a].k < Len(ap[a].batch)
  /\ LET n   == ap[a].batch[ap[a].k + 1]
         smp == Tx[a][n]
         sr  == ser[smp.s]
         ok  == Appendable(sr, smp.t)
         sr1 == IF ok THEN Store(sr, smp.t, ap[a].id, a, n) ELSE sr
         sr2 == Cleanup(sr1, ap[a].lw)
         \* code-shaped coverage dimension: the ring grew at this append, and where its first slot was (-1 = no growth)
         grow == IF ok /\ Grows(sr) /\ sr.cap > 0 THEN sr.first ELSE -1
     IN /\ ser' = [ser EXCEPT ![smp.s] = sr2]
        /\ ap' = [ap EXCEPT ![a].pc = "commit", ![a].k = @ + 1]
        /\ UNCHANGED <<lastID, open, rd>>
        /\ Step([a |-> "CommitSample", app |-> a, n |-> n, s |-> smp.s, stored |-> ok,
                 cut |-> (ok /\ Len(sr1.chunks) > Len(sr.chunks) /\ sr.chunks # <<>>), grow |-> grow])

\* iso.closeAppend at the end of Commit
Close(a) ==
  /\ ap[a].pc \in {"open", "commit"}
  /\ ap[a].k = Len(ap[a].batch)
  /\ open' = open \ {ap[a].id}
  /\ ap' = [ap EXCEPT ![a].pc = "closed"]
  /\ UNCHANGED <<lastID, ser, rd>>
  /\ Step([a |-> "Close", app |-> a])

\* headAppenderBase.Rollback: ring cleanup on the series of every batched sample, closeAppend
Rollback(a) ==
  /\ a \in Rollbackers
  /\ ap[a].pc = "open"
  /\ LET touched == {Tx[a][ap[a].batch[i]].s : i \in 1..Len(ap[a].batch)} IN
     ser' = [s \in Series |-> IF s \in touched THEN Cleanup(ser[s], ap[a].lw) ELSE ser[s]]
  /\ open' = open \ {ap[a].id}
  /\ ap' = [ap EXCEPT ![a].pc = "rolled"]
  /\ UNCHANGED <<lastID, rd>>
  /\ Step([a |-> "Rollback", app |-> a])

\* Head.mmapHeadChunks: every series keeps only its newest head chunk in memory
Mmap ==
  /\ \E s \in Series : Len(ser[s].chunks) - ser[s].mm >= 2
  /\ ser' = [s \in Series |-> [ser[s] EXCEPT !.mm = IF Len(ser[s].chunks) >= 1 THEN Len(ser[s].chunks) - 1 ELSE 0]]
  /\ UNCHANGED <<lastID, open, ap, rd>>
  /\ Step([a |-> "Mmap"])

\* isolation.State: snapshot of the last issued id and of the open appends
OpenRead(r) ==
  /\ rd[r].st = "new"
  /\ IF r = 1 THEN TRUE ELSE rd[r - 1].st # "new"
  /\ rd' = [rd EXCEPT ![r] = [st |-> "open", max |-> lastID, inc |-> open,
                              lw |-> IF open # {} THEN Min(open) ELSE lastID]]
  /\ UNCHANGED <<lastID, open, ap, ser>>
  /\ Step([a |-> "OpenRead", r |-> r])

CloseRead(r) ==
  /\ ~NoClose
  /\ rd[r].st = "open"
  /\ rd' = [rd EXCEPT ![r].st = "closed"]
  /\ UNCHANGED <<lastID, open, ap, ser>>
  /\ Step([a |-> "CloseRead", r |-> r])

\* bookkeeping step so that a simulated walk is printed exactly once
Quiescent == /\ \A a \in Apps : ap[a].pc \in {"closed", "rolled"}
             /\ \A r \in Readers : rd[r].st = "closed"
             /\ \A s \in Series : Len(ser[s].chunks) - ser[s].mm < 2
End == /\ nops = MaxOps \/ Quiescent
       /\ nops <= MaxOps
       /\ nops' = MaxOps + 1
       /\ UNCHANGED <<lastID, open, ap, ser, rd, hist>>

Act ==
  \/ \E a \in Apps : Begin(a) \/ CommitSample(a) \/ Close(a) \/ Rollback(a)
  \/ Mmap
  \/ \E r \in Readers : OpenRead(r) \/ CloseRead(r)

\* with HistViews every step also records the predicted views after the step
Next == \/ /\ nops < MaxOps
           /\ Act
        \/ End

Spec == Init /\ [][Next]_vars

-----------------------------------------------------------------------------
(* Properties.                                                              *)

TypeOK ==
  /\ lastID \in Nat /\ open \subseteq 1..lastID
  /\ \A a \in Apps : ap[a].pc \in {"idle", "open", "commit", "closed", "rolled"}
  /\ \A s \in Series : /\ SumSeq(ser[s].chunks) = Len(ser[s].samples)
                       /\ Len(ser[s].ring) <= Len(ser[s].samples)
                       /\ ser[s].mm <= Len(ser[s].chunks)

\* the ring holds the append ids of the newest samples of the series, in order
\* the physical ring is large enough and its first slot is a valid index
RingShape == \A s \in Series : /\ Len(ser[s].ring) <= ser[s].cap
                               /\ ser[s].cap = 0 \/ ser[s].first \in 0..(ser[s].cap - 1)
RingConsistent == \A s \in Series :
  LET q == ser[s].samples  d == Len(q) - Len(ser[s].ring) IN
  \A i \in 1..Len(ser[s].ring) : ser[s].ring[i] = q[d + i].id

\* samples stay in timestamp order
InOrder == \A s \in Series : \A i \in 1..(Len(ser[s].samples) - 1) : ser[s].samples[i].t < ser[s].samples[i + 1].t

\* NoDirty: no reader ever sees a sample of an appender that had not closed when the reader was opened
NoDirty == \A r \in OpenReaders : \A s \in Series :
  \A i \in 1..Len(View(r, s)) : Visible(r, View(r, s)[i].id)

\* PrefixRule: what memSeries.iterator really delivers - the longest visible prefix of the series
\* (ring trimming, chunk arithmetic and m-mapping never change that)
PrefixRule == \A r \in OpenReaders : \A s \in Series : View(r, s) = VisPrefix(r, ser[s].samples)

\* Complete (as the property states it): every sample of an appender closed before the reader is seen
Complete == \A r \in OpenReaders : \A s \in Series : View(r, s) = Ref(r, s)

\* Atomic (as the property states it): per reader and appender all stored samples or none
SeenOf(r, a) == UNION {{<<s, i>> : i \in {j \in 1..Len(View(r, s)) : View(r, s)[j].a = a}} : s \in Series}
StoredOf(a) == UNION {{<<s, i>> : i \in {j \in 1..Len(ser[s].samples) : ser[s].samples[j].a = a}} : s \in Series}
Atomic == \A r \in OpenReaders : \A a \in Apps : SeenOf(r, a) = {} \/ SeenOf(r, a) = StoredOf(a)

KF_C05_1 == \E r \in OpenReaders : \E s \in Series : HiddenBehindOpen(r, s)

CompleteKF == \A r \in OpenReaders : \A s \in Series : View(r, s) = Ref(r, s) \/ HiddenBehindOpen(r, s)
AtomicKF == Atomic \/ KF_C05_1

\* reading through Seek gives the tail of what Next gives, and never a hidden sample
SeekConsistent == \A r \in OpenReaders : \A s \in Series : \A t \in Times : SeekView(r, s, t) = From(View(r, s), t)
SeekNoDirty == \A r \in OpenReaders : \A s \in Series : \A t \in Times :
  \A i \in 1..Len(SeekView(r, s, t)) : Visible(r, SeekView(r, s, t)[i].id)

\* snapshot stability: what an open reader sees never changes
Stable == [][\A r \in Readers : (rd[r].st = "open" /\ rd'[r].st = "open") =>
               \A s \in Series : View(r, s)' = View(r, s)]_vars

\* every id below the cleanup bound of a live appender is closed and visible to every open reader,
\* so trimming it from a ring can never hide or reveal anything
CleanupSafe == \A a \in Apps : ap[a].pc \in {"open", "commit"} =>
  \A id \in 1..(ap[a].lw - 1) : id \notin open /\ \A r \in OpenReaders : Visible(r, id)

-----------------------------------------------------------------------------
(* Behaviour emission.                                                      *)

Beh(h) == [steps |-> h, views |-> Views, shape |-> Shape]

\* only states in which some reader is open carry a prediction worth replaying
Emit == CASE EmitMode = "all" -> (OpenReaders' = {} \/ PrintT("@@TR " \o ToJson(Beh(hist)')))
          [] OTHER -> TRUE
EmitState == EmitMode # "state" \/ OpenReaders = {} \/ PrintT("@@TR " \o ToJson(Beh(hist)))
EmitWalk == nops <= MaxOps \/ PrintT("@@TR " \o ToJson(Beh(hist)))

-----------------------------------------------------------------------------
(* Transaction tables (cfg: Tx <- TxTwo etc.).                              *)

S(s, t) == [s |-> s, t |-> t]
\* two appenders, both writing both series (a2 later in time): the H2 shape plus multi-series atomicity
TxTwo   == [a \in {"a1", "a2"} |->
             IF a = "a1" THEN <<S("s1", 1), S("s2", 1)>> ELSE <<S("s1", 2), S("s2", 2)>>]
\* three appenders x two series, two of them with two samples in s1 (chunk cut, ring growth past 4)
TxThree == [a \in {"a1", "a2", "a3"} |->
             CASE a = "a1" -> <<S("s1", 1), S("s2", 1), S("s1", 4)>>
               [] a = "a2" -> <<S("s1", 2), S("s2", 2), S("s1", 5)>>
               [] a = "a3" -> <<S("s2", 3), S("s1", 3)>>]
\* two appenders, four samples in s1 (chunk cut at 2, partial visibility inside and across chunks)
TxTwoB  == [a \in {"a1", "a2"} |->
             IF a = "a1" THEN <<S("s1", 1), S("s2", 1), S("s1", 3)>> ELSE <<S("s1", 2), S("s2", 2), S("s1", 4)>>]
\* two appenders, six samples in s1 (three chunks, ring growth past its initial capacity 4)
TxTwoC  == [a \in {"a1", "a2"} |->
             IF a = "a1" THEN <<S("s1", 1), S("s1", 3), S("s1", 5)>> ELSE <<S("s1", 2), S("s1", 4), S("s1", 6)>>]
\* three appenders, one sample each in one series: reader/appender watermark interplay (the cleanup bound
\* of the third appender comes from the oldest of two readers)
\* nine single-sample transactions on one series (plus one sample on a second series): with serial commits the
\* watermark cleanup walks the first slot of the 4-slot ring round (3 of 4 after four transactions); a reader opened then
\* pins the watermark and the next four appends fill and grow the ring while it is wrapped
TxSerial == [a \in {"a1", "a2", "a3", "a4", "a5", "a6", "a7", "a8", "a9"} |->
              IF a = "a7" THEN <<S("s1", AppRank(a)), S("s2", AppRank(a))>> ELSE <<S("s1", AppRank(a))>>]
TxWm    == [a \in {"a1", "a2", "a3"} |->
             CASE a = "a1" -> <<S("s1", 1)>> [] a = "a2" -> <<S("s1", 2)>> [] a = "a3" -> <<S("s1", 3)>>]
\* three appenders, five samples in s1 (two chunk cuts, ring growth past its initial capacity 4)
TxMid   == [a \in {"a1", "a2", "a3"} |->
             CASE a = "a1" -> <<S("s1", 1), S("s2", 1), S("s1", 4)>>
               [] a = "a2" -> <<S("s1", 2), S("s1", 5)>>
               [] a = "a3" -> <<S("s1", 3)>>]
TxFour  == [a \in {"a1", "a2", "a3", "a4"} |->
             CASE a = "a1" -> <<S("s1", 1), S("s2", 1), S("s1", 5)>>
               [] a = "a2" -> <<S("s1", 2), S("s3", 2), S("s1", 6)>>
               [] a = "a3" -> <<S("s2", 3), S("s1", 3), S("s3", 3)>>
               [] a = "a4" -> <<S("s3", 4), S("s2", 4), S("s1", 4)>>]
=============================================================================
