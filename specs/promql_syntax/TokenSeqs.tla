----------------------------- MODULE TokenSeqs ------------------------------
(***************************************************************************)
(* C26, totality part: every sequence of at most MaxLen tokens over the    *)
(* alphabet Tokens.  The parser must answer each with an AST or a          *)
(* ParseErrors value, never with ErrUnexpected / a panic; accepted ones    *)
(* must round-trip through String() and Prettify().  The spec only         *)
(* enumerates (TLC is the generator); there is nothing to predict beyond   *)
(* the totality statement itself.                                          *)
(***************************************************************************)
EXTENDS Integers, Sequences, TLC, Json

CONSTANTS Tokens, MaxLen, EmitMode

VARIABLES seq
Init == seq = <<>>
Next == Len(seq) < MaxLen /\ \E t \in Tokens : seq' = Append(seq, t)
Spec == Init /\ [][Next]_seq

TypeOK == Len(seq) <= MaxLen
\* one case per distinct state
EmitState == EmitMode # "all" \/ seq = <<>> \/ PrintT("@@TR " \o ToJson([toks |-> seq, seq |-> TRUE]))

TokAlphabet == {"foo", "1", "5m", "$S:x", "(", ")", "{", "}", "[", "]", ",", ":", "=", "+", "-", "^", "==", "and",
                "bool", "on", "group_left", "by", "sum", "topk", "rate",
                "offset", "@", "start", "fill", "NaN"}
TokAlphabetBig == {"foo", "1", "5m", "$S:x", "(", ")", "{", "}", "[", "]", ",", ":", "=", "=~", "+", "-", "*", "^", "==", "and", "or",
                "unless", "bool", "on", "ignoring", "group_left", "by", "without", "sum", "topk", "count_values", "rate", "time",
                "offset", "@", "start", "end", "step", "anchored", "fill", "</", "atan2", "Inf", "a", "smoothed", "range", "1e3", "0x1F",
                "!=", "!~", "%", ">/", "fill_left", "group_right", "limit_ratio", "$U:u.l", "NaN", "min_of", "-5m", "12.5"}
=============================================================================
