SPECIFICATION Spec
CONSTANTS
  Tokens <- TokAlphabet
  MaxLen = 3
  EmitMode = "all"
INVARIANTS TypeOK EmitState
CHECK_DEADLOCK FALSE
