SPECIFICATION Spec
CONSTANTS
  LeafIds = {"n1", "n0", "nhex", "nexp", "nfrac", "ninf", "nnan", "ndur", "ndur2", "s1", "s2", "s3", "foo", "bar", "colon", "foo_a", "foo_ab", "foo_nre", "foo_ul", "sel_n", "sel_u", "sel_e", "sel_ne", "kw_sum", "kw_off", "kw_start", "kw_by", "time", "pi", "startf", "stepf"}
  UnOps = {"+", "-"}
  CallFs = {"rate", "abs", "scalar", "vector", "clamp_min", "round", "day_of_week", "histogram_quantile", "label_join", "count_over_time"}
  AggOps = {"sum", "avg", "topk", "bottomk", "count_values", "quantile", "limitk", "limit_ratio", "group"}
  AggStyles = {"plain", "by_pre", "by_post", "without_pre", "without_post"}
  GrpLists = {"none", "empty", "a", "ab", "a_tc", "kw", "u", "b"}
  BinOps = {"+", "-", "*", "/", "%", "^", "atan2", "==", "!=", "<", "<=", ">", ">=", "</", ">/", "and", "or", "unless"}
  BinMods = {"none", "none", "none", "bool", "on_a", "on_e", "ign_ab", "ign_e", "bool_on_u", "on_gl", "on_gl_same", "ign_gr", "ign_e_gl", "fill0", "fill_l", "fill_lr", "fill_rl", "gl_fill"}
  Offsets <- OffAll
  BadOffsets = {"NaN", "Inf", "1e10"}
  AtMods <- AtAll
  Exts = {"anchored", "smoothed"}
  Ranges = {300000, 1500}
  SubSteps = {0, 60000}
  Parens = TRUE
  Sloppy = FALSE
  MaxStack = 3
  MaxOps = 12
  MaxToks = 80
  EmitMode = "none"
INVARIANTS TypeOK TreesRespectPrecedence WellTypedHasType EmitWalk
CHECK_DEADLOCK FALSE
