------------------------------- MODULE Syntax -------------------------------
(***************************************************************************)
(* C26 - PromQL expressions print to text that parses back unchanged.      *)
(*                                                                         *)
(* This module is the reference for the *surface syntax -> AST* relation   *)
(* of promql/parser (generated_parser.y, lex.go, parse.go):                *)
(*   - the AST node kinds and their fields (ast.go),                       *)
(*   - a fully explicit token-level text for every AST (Toks),             *)
(*   - the operator precedence / associativity table and the place of      *)
(*     unary minus in it (PrecParse: what tree a flat infix chain denotes),*)
(*   - number-literal sign folding (unary_expr),                           *)
(*   - the typing relation of checkAST (TypeOf / WellTyped) including the  *)
(*     modifier rules (bool, on/ignoring, group_left/right, fill, set      *)
(*     operators), and the selector-modifier rules of the parser actions   *)
(*     (offset / @ / range / anchored only once and only on selectors).    *)
(* It is also the generator: a stack machine builds expressions bottom-up  *)
(* (one action per grammar production), well-typed and ill-typed ones.     *)
(* For every finished expression the behaviour carries the token text, the *)
(* predicted verdict (accepted / rejected) and the predicted AST.  The     *)
(* harness checks on the real parser: text parses iff predicted; parsed    *)
(* AST = predicted AST; String() of it parses to an equal AST and prints   *)
(* identically; Prettify() of it parses to an equal AST; every             *)
(* single-token deletion / duplication / swap of the text (Muts) is either *)
(* parsed or rejected with a ParseErrors value - never ErrUnexpected or a  *)
(* panic - and, when parsed, round-trips too.                              *)
(*                                                                         *)
(* STRINGS.  Quoted strings and names that need quoting are symbolic:      *)
(* token "$S:id" is the string literal with symbolic content id, "$U:id"   *)
(* a quoted (UTF-8) label or metric name; the harness concretises ids to   *)
(* texts with escapes / non-ASCII and picks the quoting style.             *)
(* NUMBERS are <<num,den>> (den 0: NaN/Inf) as in PromqlEval.              *)
(* DURATIONS are integers (milliseconds).                                  *)
(***************************************************************************)
EXTENDS Integers, Sequences, FiniteSets, TLC, Json

CONSTANTS LeafIds,     \* leaves offered to Push
          UnOps,       \* subset of {"+","-"}
          CallFs,      \* function names offered to Call
          AggOps,      \* aggregation operators offered to Agg
          AggStyles,   \* subset of {"plain","by_pre","by_post","without_pre","without_post"}
          GrpLists,    \* grouping label lists (indices into GrpTable)
          BinOps,      \* binary operators offered to Chain
          BinMods,     \* modifier ids offered to Chain (see ModTable)
          Offsets,     \* offsets (ms, may be negative) offered to Offset
          BadOffsets,  \* number tokens that are not representable durations, offered to OffsetBad
          AtMods,      \* @ modifiers offered to At
          Exts,        \* subset of {"anchored","smoothed"}
          Ranges,      \* range durations (ms)
          SubSteps,    \* subquery steps (ms, 0 = omitted)
          Parens,      \* BOOLEAN: offer WrapParen
          Sloppy,      \* TRUE: postfix modifiers are also applied where the parser must reject them
          MaxStack, MaxOps, MaxToks,
          EmitMode     \* "all" | "none"

VARIABLES stack, nops, done

vars == <<stack, nops, done>>

-----------------------------------------------------------------------------
(* AST constructors (field k = node kind).                                  *)
NoneN == [k |-> "none"]
Num(v, dur) == [k |-> "num", v |-> v, dur |-> dur]
Str(s) == [k |-> "str", s |-> s]
VS(name, lm) == [k |-> "vs", name |-> name, lm |-> lm, off |-> 0, at |-> <<"none", 0>>, ext |-> ""]
MS(vs, r) == [k |-> "ms", vs |-> vs, r |-> r]
SQ(e, r, st) == [k |-> "sq", e |-> e, r |-> r, st |-> st, off |-> 0, at |-> <<"none", 0>>]
Call(f, args) == [k |-> "call", f |-> f, args |-> args]
Agg(op, param, e, without, grp) == [k |-> "agg", op |-> op, param |-> param, e |-> e, without |-> without, grp |-> grp]
\* vm = the VectorMatching left in the AST, ovm = the one written in the text (checkAST looks at it)
Bin(op, l, r, bool, vm, ovm) == [k |-> "bin", op |-> op, l |-> l, r |-> r, bool |-> bool, vm |-> vm, ovm |-> ovm]
Un(op, e) == [k |-> "un", op |-> op, e |-> e]
Paren(e) == [k |-> "paren", e |-> e]

NaN == <<0, 0>>
PInf == <<1, 0>>
Neg(v) == <<-v[1], v[2]>>        \* NaN stays NaN

-----------------------------------------------------------------------------
(* Functions: argument types, variadic (as in parser.Functions), return.    *)
FuncSig(f) ==
  CASE f = "rate"               -> [args |-> <<"matrix">>, var |-> 0, ret |-> "vector"]
    [] f = "abs"                -> [args |-> <<"vector">>, var |-> 0, ret |-> "vector"]
    [] f = "scalar"             -> [args |-> <<"vector">>, var |-> 0, ret |-> "scalar"]
    [] f = "vector"             -> [args |-> <<"scalar">>, var |-> 0, ret |-> "vector"]
    [] f = "time"               -> [args |-> <<>>, var |-> 0, ret |-> "scalar"]
    [] f = "pi"                 -> [args |-> <<>>, var |-> 0, ret |-> "scalar"]
    [] f = "start"              -> [args |-> <<>>, var |-> 0, ret |-> "scalar"]      \* keyword used as function
    [] f = "step"               -> [args |-> <<>>, var |-> 0, ret |-> "scalar"]
    [] f = "clamp_min"          -> [args |-> <<"vector", "scalar">>, var |-> 0, ret |-> "vector"]
    [] f = "round"              -> [args |-> <<"vector", "scalar">>, var |-> 1, ret |-> "vector"]
    [] f = "day_of_week"        -> [args |-> <<"vector">>, var |-> 1, ret |-> "vector"]
    [] f = "histogram_quantile" -> [args |-> <<"scalar", "vector">>, var |-> 0, ret |-> "vector"]
    [] f = "label_join"         -> [args |-> <<"vector", "string", "string", "string">>, var |-> -1, ret |-> "vector"]
    [] f = "count_over_time"    -> [args |-> <<"matrix">>, var |-> 0, ret |-> "vector"]

AggHasParam(op) == op \in {"topk", "bottomk", "quantile", "count_values", "limitk", "limit_ratio"}

(* Expr.Type()                                                              *)
RECURSIVE TypeOf(_)
TypeOf(e) ==
  CASE e.k = "num" -> "scalar"
    [] e.k = "str" -> "string"
    [] e.k = "vs" -> "vector"
    [] e.k = "ms" -> "matrix"
    [] e.k = "sq" -> "matrix"
    [] e.k = "call" -> FuncSig(e.f).ret
    [] e.k = "agg" -> "vector"
    [] e.k = "bin" -> IF TypeOf(e.l) = "scalar" /\ TypeOf(e.r) = "scalar" THEN "scalar" ELSE "vector"
    [] e.k = "un" -> TypeOf(e.e)
    [] e.k = "paren" -> TypeOf(e.e)

CmpOps == {"==", "!=", "<", "<=", ">", ">="}
SetOps == {"and", "or", "unless"}

(* parser.checkAST                                                          *)
RECURSIVE WellTyped(_)
WellTyped(e) ==
  CASE e.k \in {"num", "str"} -> TRUE
    [] e.k = "vs" ->
         \* a selector without metric name needs at least one matcher that does not match ""
         e.name # "" \/ \E i \in 1..Len(e.lm) : e.lm[i][4]
    [] e.k = "ms" -> WellTyped(e.vs)
    [] e.k = "sq" -> WellTyped(e.e) /\ TypeOf(e.e) = "vector"
    [] e.k = "paren" -> WellTyped(e.e)
    [] e.k = "un" -> WellTyped(e.e) /\ TypeOf(e.e) \in {"scalar", "vector"}
    [] e.k = "agg" ->
         /\ WellTyped(e.e) /\ TypeOf(e.e) = "vector"
         /\ e.op \in {"topk", "bottomk", "quantile", "limitk", "limit_ratio"}
              => (e.param # NoneN /\ WellTyped(e.param) /\ TypeOf(e.param) = "scalar")
         /\ e.op = "count_values" => (e.param # NoneN /\ TypeOf(e.param) = "string")
    [] e.k = "call" ->
         LET sig == FuncSig(e.f)
             na == Len(sig.args)
             n == Len(e.args) IN
         /\ IF sig.var = 0 THEN n = na
            ELSE /\ n >= na - 1
                 /\ sig.var > 0 => n <= na - 1 + sig.var
         /\ \A i \in 1..n : /\ WellTyped(e.args[i])
                            /\ TypeOf(e.args[i]) = sig.args[IF i <= na THEN i ELSE na]
    [] e.k = "bin" ->
         LET lt == TypeOf(e.l)
             rt == TypeOf(e.r)
             vv == lt = "vector" /\ rt = "vector"
             m == e.ovm IN
         /\ WellTyped(e.l) /\ WellTyped(e.r)
         /\ lt \in {"scalar", "vector"} /\ rt \in {"scalar", "vector"}
         /\ e.bool => e.op \in CmpOps
         /\ (e.op \in CmpOps /\ lt = "scalar" /\ rt = "scalar") => e.bool
         /\ (lt = "scalar" \/ rt = "scalar") => e.op \notin SetOps
         /\ m.on => \A i \in 1..Len(m.lbls), j \in 1..Len(m.incl) : m.lbls[i] # m.incl[j]
         /\ ~vv => (m.lbls = <<>> /\ ~m.fl[1] /\ ~m.fr[1])
         /\ (vv /\ e.op \in SetOps) => (m.card = "1:1" /\ ~m.fl[1] /\ ~m.fr[1])

-----------------------------------------------------------------------------
(* Leaves: token text and AST.  Matchers are <<name, op, value-id, nonEmpty>> *)
(* (nonEmpty: the matcher does not match the empty string).                 *)
Leaf(id) ==
  CASE id = "n1"    -> [toks |-> <<"1">>, e |-> Num(<<1, 1>>, FALSE)]
    [] id = "n0"    -> [toks |-> <<"0">>, e |-> Num(<<0, 1>>, FALSE)]
    [] id = "nhex"  -> [toks |-> <<"0x1F">>, e |-> Num(<<31, 1>>, FALSE)]
    [] id = "nexp"  -> [toks |-> <<"1e3">>, e |-> Num(<<1000, 1>>, FALSE)]
    [] id = "nfrac" -> [toks |-> <<".5">>, e |-> Num(<<1, 2>>, FALSE)]
    [] id = "ninf"  -> [toks |-> <<"Inf">>, e |-> Num(PInf, FALSE)]
    [] id = "nnan"  -> [toks |-> <<"NaN">>, e |-> Num(NaN, FALSE)]
    [] id = "ndur"  -> [toks |-> <<"5m">>, e |-> Num(<<300, 1>>, TRUE)]
    [] id = "ndur2" -> [toks |-> <<"1h30m">>, e |-> Num(<<5400, 1>>, TRUE)]
    [] id = "s1"    -> [toks |-> <<"$S:x">>, e |-> Str("x")]
    [] id = "s2"    -> [toks |-> <<"$S:esc">>, e |-> Str("esc")]
    [] id = "s3"    -> [toks |-> <<"$S:utf8">>, e |-> Str("utf8")]
    [] id = "foo"   -> [toks |-> <<"foo">>, e |-> VS("foo", <<>>)]
    [] id = "bar"   -> [toks |-> <<"bar">>, e |-> VS("bar", <<>>)]
    [] id = "colon" -> [toks |-> <<"job:rate5m">>, e |-> VS("job:rate5m", <<>>)]
    [] id = "foo_a" -> [toks |-> <<"foo", "{", "a", "=", "$S:x", "}">>, e |-> VS("foo", << <<"a", "=", "x", TRUE>> >>)]
    [] id = "foo_ab" -> [toks |-> <<"foo", "{", "a", "!=", "$S:x", ",", "b", "=~", "$S:re", ",", "}">>,
                         e |-> VS("foo", << <<"a", "!=", "x", FALSE>>, <<"b", "=~", "re", TRUE>> >>)]
    [] id = "foo_nre" -> [toks |-> <<"foo", "{", "on", "!~", "$S:re", "}">>, e |-> VS("foo", << <<"on", "!~", "re", FALSE>> >>)]
    [] id = "foo_ul" -> [toks |-> <<"foo", "{", "$U:u.l", "=", "$S:esc", "}">>, e |-> VS("foo", << <<"u.l", "=", "esc", TRUE>> >>)]
    [] id = "sel_n" -> [toks |-> <<"{", "__name__", "=", "$S:x", "}">>, e |-> VS("", << <<"__name__", "=", "x", TRUE>> >>)]
    \* a quoted metric name inside the braces is an equality matcher on __name__, Name stays empty
    [] id = "sel_u" -> [toks |-> <<"{", "$U:u.m", ",", "a", "=", "$S:x", "}">>,
                        e |-> VS("", << <<"__name__", "=", "$U:u.m", TRUE>>, <<"a", "=", "x", TRUE>> >>)]
    [] id = "sel_ne" -> [toks |-> <<"{", "__name__", "=", "$S:empty", ",", "a", "=", "$S:x", "}">>,
                         e |-> VS("", << <<"__name__", "=", "empty", FALSE>>, <<"a", "=", "x", TRUE>> >>)]
    [] id = "sel_e" -> [toks |-> <<"{", "a", "=~", "$S:restar", "}">>, e |-> VS("", << <<"a", "=~", "restar", FALSE>> >>)]
    [] id = "kw_sum" -> [toks |-> <<"sum">>, e |-> VS("sum", <<>>)]
    [] id = "kw_off" -> [toks |-> <<"offset">>, e |-> VS("offset", <<>>)]
    [] id = "kw_start" -> [toks |-> <<"start">>, e |-> VS("start", <<>>)]
    [] id = "kw_by" -> [toks |-> <<"by", "{", "by", "=", "$S:x", "}">>, e |-> VS("by", << <<"by", "=", "x", TRUE>> >>)]
    [] id = "time"  -> [toks |-> <<"time", "(", ")">>, e |-> Call("time", <<>>)]
    [] id = "pi"    -> [toks |-> <<"pi", "(", ")">>, e |-> Call("pi", <<>>)]
    [] id = "startf" -> [toks |-> <<"start", "(", ")">>, e |-> Call("start", <<>>)]
    [] id = "stepf" -> [toks |-> <<"step", "(", ")">>, e |-> Call("step", <<>>)]

(* grouping label lists: tokens between the parentheses, and the labels     *)
GrpTable(g) ==
  CASE g = "none" -> [toks |-> <<>>, l |-> <<>>]
    [] g = "empty" -> [toks |-> <<>>, l |-> <<>>]                          \* by () / without ()
    [] g = "a"    -> [toks |-> <<"a">>, l |-> <<"a">>]
    [] g = "ab"   -> [toks |-> <<"a", ",", "b">>, l |-> <<"a", "b">>]
    [] g = "a_tc" -> [toks |-> <<"a", ",">>, l |-> <<"a">>]                 \* trailing comma
    [] g = "kw"   -> [toks |-> <<"by", ",", "on", ",", "offset">>, l |-> <<"by", "on", "offset">>]
    [] g = "u"    -> [toks |-> <<"$U:u.l", ",", "b">>, l |-> <<"u.l", "b">>]
    [] g = "b"    -> [toks |-> <<"b">>, l |-> <<"b">>]

(* binary operator modifiers: tokens after the operator, and VectorMatching *)
VM(on, lbls, card, incl, fl, fr) == [on |-> on, lbls |-> lbls, card |-> card, incl |-> incl, fl |-> fl, fr |-> fr]
NoFill == <<FALSE, <<0, 1>>>>
Fill(v) == <<TRUE, v>>
ModTable(m) ==
  CASE m = "none"   -> [toks |-> <<>>, bool |-> FALSE, vm |-> VM(FALSE, <<>>, "1:1", <<>>, NoFill, NoFill)]
    [] m = "bool"   -> [toks |-> <<"bool">>, bool |-> TRUE, vm |-> VM(FALSE, <<>>, "1:1", <<>>, NoFill, NoFill)]
    [] m = "on_a"   -> [toks |-> <<"on", "(", "a", ")">>, bool |-> FALSE, vm |-> VM(TRUE, <<"a">>, "1:1", <<>>, NoFill, NoFill)]
    [] m = "on_e"   -> [toks |-> <<"on", "(", ")">>, bool |-> FALSE, vm |-> VM(TRUE, <<>>, "1:1", <<>>, NoFill, NoFill)]
    [] m = "ign_ab" -> [toks |-> <<"ignoring", "(", "a", ",", "b", ")">>, bool |-> FALSE,
                        vm |-> VM(FALSE, <<"a", "b">>, "1:1", <<>>, NoFill, NoFill)]
    [] m = "ign_e"  -> [toks |-> <<"ignoring", "(", ")">>, bool |-> FALSE, vm |-> VM(FALSE, <<>>, "1:1", <<>>, NoFill, NoFill)]
    [] m = "bool_on_u" -> [toks |-> <<"bool", "on", "(", "$U:u.l", ")">>, bool |-> TRUE,
                           vm |-> VM(TRUE, <<"u.l">>, "1:1", <<>>, NoFill, NoFill)]
    [] m = "on_gl"  -> [toks |-> <<"on", "(", "a", ")", "group_left", "(", "b", ")">>, bool |-> FALSE,
                        vm |-> VM(TRUE, <<"a">>, "n:1", <<"b">>, NoFill, NoFill)]
    [] m = "on_gl_same" -> [toks |-> <<"on", "(", "a", ")", "group_left", "(", "a", ")">>, bool |-> FALSE,
                            vm |-> VM(TRUE, <<"a">>, "n:1", <<"a">>, NoFill, NoFill)]
    [] m = "ign_gr" -> [toks |-> <<"ignoring", "(", "a", ")", "group_right">>, bool |-> FALSE,
                        vm |-> VM(FALSE, <<"a">>, "1:n", <<>>, NoFill, NoFill)]
    [] m = "ign_e_gl" -> [toks |-> <<"ignoring", "(", ")", "group_left", "(", ")">>, bool |-> FALSE,
                          vm |-> VM(FALSE, <<>>, "n:1", <<>>, NoFill, NoFill)]
    [] m = "fill0"  -> [toks |-> <<"fill", "(", "0", ")">>, bool |-> FALSE,
                        vm |-> VM(FALSE, <<>>, "1:1", <<>>, Fill(<<0, 1>>), Fill(<<0, 1>>))]
    [] m = "fill_l" -> [toks |-> <<"fill_left", "(", "-", "1", ")">>, bool |-> FALSE,
                        vm |-> VM(FALSE, <<>>, "1:1", <<>>, Fill(<<-1, 1>>), NoFill)]
    [] m = "fill_lr" -> [toks |-> <<"on", "(", "a", ")", "fill_left", "(", "1", ")", "fill_right", "(", "NaN", ")">>, bool |-> FALSE,
                         vm |-> VM(TRUE, <<"a">>, "1:1", <<>>, Fill(<<1, 1>>), Fill(NaN))]
    [] m = "fill_rl" -> [toks |-> <<"fill_right", "(", "2", ")", "fill_left", "(", "Inf", ")">>, bool |-> FALSE,
                         vm |-> VM(FALSE, <<>>, "1:1", <<>>, Fill(PInf), Fill(<<2, 1>>))]
    [] m = "gl_fill" -> [toks |-> <<"bool", "on", "(", "a", ")", "group_left", "fill", "(", "1e3", ")">>, bool |-> TRUE,
                         vm |-> VM(TRUE, <<"a">>, "n:1", <<>>, Fill(<<1000, 1>>), Fill(<<1000, 1>>))]

-----------------------------------------------------------------------------
(* Operator precedence (generated_parser.y: %left LOR; %left LAND LUNLESS;  *)
(* %left comparison; %left ADD SUB; %left MUL DIV MOD ATAN2; %right POW;    *)
(* unary_expr has %prec MUL).                                               *)
Prec(op) ==
  CASE op = "or" -> 1
    [] op \in {"and", "unless"} -> 2
    [] op \in CmpOps \cup {"</", ">/"} -> 3
    [] op \in {"+", "-"} -> 4
    [] op \in {"*", "/", "%", "atan2"} -> 5
    [] op = "^" -> 6
RightAssoc(op) == op = "^"
UnaryPrec == 5

\* unary_expr: a sign in front of a number literal is folded into the literal
ApplyPre(pre, e) ==
  IF pre = "" THEN e
  ELSE IF e.k = "num" THEN (IF pre = "-" THEN [e EXCEPT !.v = Neg(@)] ELSE e)
  ELSE Un(pre, e)

\* the VectorMatching the parser leaves in the AST: set operators get many-to-many; when one
\* side is not a vector the matching is dropped altogether (checkAST)
FinalVM(op, l, r, vm) ==
  IF TypeOf(l) # "vector" \/ TypeOf(r) # "vector" THEN NoneN
  ELSE IF op \in SetOps /\ vm.card = "1:1" THEN [vm EXCEPT !.card = "n:n"] ELSE vm

MkBin(o, l, r) == Bin(o.op, l, r, o.bool, FinalVM(o.op, l, r, o.vm), o.vm)

(* The tree denoted by the flat chain  [pre1] x1 o1 [pre2] x2 ... xn  where  *)
(* the xi are atomic.  Precedence climbing; returns [e, i] = tree and index *)
(* of the last operand consumed.                                            *)
RECURSIVE PClimb(_, _, _, _, _, _)
RECURSIVE POperand(_, _, _, _)
\* continue from a left tree `lhs` whose last operand is i
PClimb(xs, pres, os, lhs, i, minPrec) ==
  IF i > Len(os) \/ Prec(os[i].op) < minPrec THEN [e |-> lhs, i |-> i]
  ELSE LET o == os[i]
           nextMin == IF RightAssoc(o.op) THEN Prec(o.op) ELSE Prec(o.op) + 1
           rop == POperand(xs, pres, os, i + 1)
           rhs == PClimb(xs, pres, os, rop.e, rop.i, nextMin)
       IN PClimb(xs, pres, os, MkBin(o, lhs, rhs.e), rhs.i, minPrec)
\* operand i with its sign: the sign applies to everything that binds tighter than it
POperand(xs, pres, os, i) ==
  IF pres[i] = "" THEN [e |-> xs[i], i |-> i]
  ELSE LET inner == PClimb(xs, pres, os, xs[i], i, UnaryPrec + 1)
       IN [e |-> ApplyPre(pres[i], inner.e), i |-> inner.i]

PrecParse(xs, pres, os) ==
  LET first == POperand(xs, pres, os, 1) IN PClimb(xs, pres, os, first.e, first.i, 1).e

-----------------------------------------------------------------------------
(* Stack items: [e, pre, toks, atomic, err].  `e` is the AST without the     *)
(* pending sign `pre`; `atomic` = can be an operand of an infix chain / take *)
(* a postfix modifier without parentheses; `err` = a parser action rejects  *)
(* the text (modifier misuse), so only "must be rejected" is predicted.     *)
Item(e, toks, atomic) == [e |-> e, pre |-> "", toks |-> toks, atomic |-> atomic, err |-> FALSE]
Full(it) == ApplyPre(it.pre, it.e)

DurTok(ms) ==
  CASE ms = 1000 -> "1s"  [] ms = 30000 -> "30s" [] ms = 60000 -> "1m" [] ms = 300000 -> "5m"
    [] ms = 5400000 -> "1h30m" [] ms = 1500 -> "1s500ms" [] ms = 90000 -> "90s" [] ms = 100 -> "100ms"

Init == stack = <<>> /\ nops = 0 /\ done = FALSE

Top == stack[Len(stack)]
Pop(n) == SubSeq(stack, 1, Len(stack) - n)
Busy == ~done /\ nops < MaxOps

Push(id) ==
  /\ Busy /\ Len(stack) < MaxStack
  /\ Parens \/ \A i \in 1..Len(stack) : stack[i].atomic    \* without parentheses a finished chain is a dead end
  /\ LET l == Leaf(id) IN stack' = Append(stack, Item(l.e, l.toks, TRUE))
  /\ nops' = nops + 1 /\ UNCHANGED done

\* paren_expr
WrapParen ==
  /\ Parens /\ Busy /\ stack # <<>>
  /\ stack' = Append(Pop(1), [Item(Paren(Full(Top)), <<"(">> \o Top.toks \o <<")">>, TRUE) EXCEPT !.err = Top.err])
  /\ nops' = nops + 1 /\ UNCHANGED done

\* unary_expr (kept pending until the operand's place in an infix chain is known)
WrapUnary(op) ==
  /\ Busy /\ stack # <<>> /\ Top.atomic /\ Top.pre = ""
  /\ stack' = Append(Pop(1), [Top EXCEPT !.pre = op, !.toks = <<op>> \o @])
  /\ nops' = nops + 1 /\ UNCHANGED done

IsSel(e) == e.k \in {"vs", "ms", "sq"}
SelOff(e) == IF e.k = "ms" THEN e.vs.off ELSE e.off
SelAt(e) == IF e.k = "ms" THEN e.vs.at ELSE e.at

\* offset_expr + parser.addOffset
WrapOffset(d) ==
  /\ Busy /\ stack # <<>> /\ Top.atomic /\ Top.pre = "" /\ d # 0
  /\ Sloppy \/ (IsSel(Top.e) /\ SelOff(Top.e) = 0)
  /\ LET e == Top.e
         bad == ~IsSel(e) \/ (IsSel(e) /\ SelOff(e) # 0)
         e2 == IF bad THEN e
               ELSE IF e.k = "ms" THEN [e EXCEPT !.vs.off = d] ELSE [e EXCEPT !.off = d]
         t == IF d < 0 THEN <<"offset", "-" \o DurTok(-d)>> ELSE <<"offset", DurTok(d)>>
     IN stack' = Append(Pop(1), [Top EXCEPT !.e = e2, !.toks = @ \o t, !.err = @ \/ bad])
  /\ nops' = nops + 1 /\ UNCHANGED done

\* offset_expr with a number that is no valid duration ("duration out of range"): Inf, 1e10 - and NaN,
\* which the parser nevertheless accepts (KNOWN DEVIATION KF-C26-2: durationLiteralOutOfRange(NaN) is
\* false; the offset becomes MinInt64 ns and prints as "offset --106751d23h47m16s854ms")
WrapOffsetBad(tok) ==
  /\ Busy /\ stack # <<>> /\ Top.atomic /\ Top.pre = "" /\ IsSel(Top.e) /\ SelOff(Top.e) = 0
  /\ stack' = Append(Pop(1), [Top EXCEPT !.toks = @ \o <<"offset", tok>>, !.err = TRUE])
  /\ nops' = nops + 1 /\ UNCHANGED done

AtToks(at) ==
  CASE at = <<"abs", 12500>> -> <<"@", "12.5">>
    [] at = <<"abs", -3000>> -> <<"@", "-3">>
    [] at = <<"abs", 0>> -> <<"@", "0">>
    [] at = <<"start", 0>> -> <<"@", "start", "(", ")">>
    [] at = <<"end", 0>> -> <<"@", "end", "(", ")">>

\* step_invariant_expr + parser.setTimestamp / setAtModifierPreprocessor
WrapAt(at) ==
  /\ Busy /\ stack # <<>> /\ Top.atomic /\ Top.pre = ""
  /\ Sloppy \/ (IsSel(Top.e) /\ SelAt(Top.e)[1] = "none")
  /\ LET e == Top.e
         bad == ~IsSel(e) \/ (IsSel(e) /\ SelAt(e)[1] # "none")
         e2 == IF bad THEN e
               ELSE IF e.k = "ms" THEN [e EXCEPT !.vs.at = at] ELSE [e EXCEPT !.at = at]
     IN stack' = Append(Pop(1), [Top EXCEPT !.e = e2, !.toks = @ \o AtToks(at), !.err = @ \/ bad])
  /\ nops' = nops + 1 /\ UNCHANGED done

\* anchored_expr / smoothed_expr + parser.setAnchored / setSmoothed (selectors only, once, and
\* before any @ / offset in the text is not required: they are flags)
WrapExt(x) ==
  /\ Busy /\ stack # <<>> /\ Top.atomic /\ Top.pre = ""
  /\ Sloppy \/ (Top.e.k = "vs" /\ Top.e.ext = "") \/ (Top.e.k = "ms" /\ Top.e.vs.ext = "")
  /\ LET e == Top.e
         cur == IF e.k = "vs" THEN e.ext ELSE IF e.k = "ms" THEN e.vs.ext ELSE "n/a"
         bad == cur = "n/a" \/ (cur # "" /\ cur # x)      \* repeating the same flag is accepted
         e2 == IF bad THEN e ELSE IF e.k = "ms" THEN [e EXCEPT !.vs.ext = x] ELSE [e EXCEPT !.ext = x]
     IN stack' = Append(Pop(1), [Top EXCEPT !.e = e2, !.toks = @ \o <<x>>, !.err = @ \/ bad])
  /\ nops' = nops + 1 /\ UNCHANGED done

\* matrix_selector: only a bare vector selector without offset / @ may take a range
WrapRange(r) ==
  /\ Busy /\ stack # <<>> /\ Top.atomic /\ Top.pre = ""
  /\ Sloppy \/ (Top.e.k = "vs" /\ Top.e.off = 0 /\ Top.e.at[1] = "none")
  /\ LET e == Top.e
         bad == e.k # "vs" \/ (e.k = "vs" /\ (e.off # 0 \/ e.at[1] # "none"))
         e2 == IF e.k = "vs" THEN MS(e, r) ELSE e
     IN stack' = Append(Pop(1), [Top EXCEPT !.e = e2, !.toks = @ \o <<"[", DurTok(r), "]">>, !.err = @ \/ bad])
  /\ nops' = nops + 1 /\ UNCHANGED done

\* subquery_expr
WrapSub(r, st) ==
  /\ Busy /\ stack # <<>> /\ Top.atomic /\ Top.pre = ""
  /\ Sloppy \/ TypeOf(Top.e) = "vector"
  /\ stack' = Append(Pop(1), [Item(SQ(Top.e, r, st),
                                   Top.toks \o <<"[", DurTok(r), ":">> \o (IF st = 0 THEN <<>> ELSE <<DurTok(st)>>) \o <<"]">>,
                                   TRUE) EXCEPT !.err = Top.err])
  /\ nops' = nops + 1 /\ UNCHANGED done

RECURSIVE JoinArgs(_)
JoinArgs(its) == IF Len(its) = 0 THEN <<>>
                 ELSE IF Len(its) = 1 THEN its[1].toks
                 ELSE its[1].toks \o <<",">> \o JoinArgs(Tail(its))

\* function_call with n >= 1 arguments taken from the stack
CallN(f, n) ==
  /\ Busy /\ n >= 1 /\ Len(stack) >= n
  /\ LET its == SubSeq(stack, Len(stack) - n + 1, Len(stack))
         args == [i \in 1..n |-> Full(its[i])]
     IN stack' = Append(Pop(n), [Item(Call(f, args), <<f, "(">> \o JoinArgs(its) \o <<")">>, TRUE)
                                 EXCEPT !.err = \E i \in 1..n : its[i].err])
  /\ nops' = nops + 1 /\ UNCHANGED done

\* aggregate_expr in its three textual forms; with parameter: [param, expr] on the stack
AggN(op, style, g) ==
  /\ Busy
  /\ Len(stack) >= (IF AggHasParam(op) THEN 2 ELSE 1)
  /\ (style = "plain") = (g = "none")
  /\ LET n == IF AggHasParam(op) THEN 2 ELSE 1
         its == SubSeq(stack, Len(stack) - n + 1, Len(stack))
         gt == GrpTable(g)
         without == style \in {"without_pre", "without_post"}
         body == <<"(">> \o JoinArgs(its) \o <<")">>
         grp == <<(IF without THEN "without" ELSE "by"), "(">> \o gt.toks \o <<")">>
         toks == CASE style = "plain" -> <<op>> \o body
                   [] style \in {"by_pre", "without_pre"} -> <<op>> \o grp \o body
                   [] style \in {"by_post", "without_post"} -> <<op>> \o body \o grp
         e == Agg(op, IF n = 2 THEN Full(its[1]) ELSE NoneN, Full(its[n]), without, IF style = "plain" THEN <<>> ELSE gt.l)
     IN stack' = Append(Pop(n), [Item(e, toks, TRUE) EXCEPT !.err = \E i \in 1..n : its[i].err])
  /\ nops' = nops + 1 /\ UNCHANGED done

OpToks(o, m) == <<o>> \o ModTable(m).toks
\* group_left / group_right written without a label list swallow a following parenthesis as
\* their label list (maybe_grouping_labels): the text is then rejected
BareGroup(m, next) == /\ ModTable(m).toks # <<>>
                      /\ ModTable(m).toks[Len(ModTable(m).toks)] \in {"group_left", "group_right"}
                      /\ next.toks[1] = "("

\* binary_expr: a flat chain of 2 or 3 atomic (possibly signed) operands
Chain2(o1, m1) ==
  /\ Busy /\ Len(stack) >= 2
  /\ LET a == stack[Len(stack) - 1]
         b == stack[Len(stack)]
         mt == ModTable(m1)
         os == << [op |-> o1, bool |-> mt.bool, vm |-> mt.vm] >>
     IN /\ a.atomic /\ b.atomic
        /\ stack' = Append(Pop(2), [Item(PrecParse(<<a.e, b.e>>, <<a.pre, b.pre>>, os),
                                         a.toks \o OpToks(o1, m1) \o b.toks, FALSE)
                                    EXCEPT !.err = a.err \/ b.err \/ BareGroup(m1, b)])
  /\ nops' = nops + 1 /\ UNCHANGED done

Chain3(o1, m1, o2, m2) ==
  /\ Busy /\ Len(stack) >= 3
  /\ LET a == stack[Len(stack) - 2]
         b == stack[Len(stack) - 1]
         c == stack[Len(stack)]
         t1 == ModTable(m1)
         t2 == ModTable(m2)
         os == << [op |-> o1, bool |-> t1.bool, vm |-> t1.vm], [op |-> o2, bool |-> t2.bool, vm |-> t2.vm] >>
     IN /\ a.atomic /\ b.atomic /\ c.atomic
        /\ stack' = Append(Pop(3), [Item(PrecParse(<<a.e, b.e, c.e>>, <<a.pre, b.pre, c.pre>>, os),
                                         a.toks \o OpToks(o1, m1) \o b.toks \o OpToks(o2, m2) \o c.toks, FALSE)
                                    EXCEPT !.err = a.err \/ b.err \/ c.err \/ BareGroup(m1, b) \/ BareGroup(m2, c)])
  /\ nops' = nops + 1 /\ UNCHANGED done

\* the expression is complete: ParseExpr(text)
Finish ==
  /\ ~done /\ Len(stack) = 1 /\ Len(Top.toks) <= MaxToks
  /\ done' = TRUE /\ UNCHANGED <<stack, nops>>

Next == \/ \E id \in LeafIds : Push(id)
        \/ WrapParen
        \/ \E op \in UnOps : WrapUnary(op)
        \/ \E d \in Offsets : WrapOffset(d)
        \/ \E tok \in BadOffsets : WrapOffsetBad(tok)
        \/ \E at \in AtMods : WrapAt(at)
        \/ \E x \in Exts : WrapExt(x)
        \/ \E r \in Ranges : WrapRange(r)
        \/ \E r \in Ranges, st \in SubSteps : WrapSub(r, st)
        \/ \E f \in CallFs, n \in 1..3 : CallN(f, n)
        \/ \E op \in AggOps, st \in AggStyles, g \in GrpLists : AggN(op, st, g)
        \/ \E o \in BinOps, m \in BinMods : Chain2(o, m)
        \/ \E o1 \in BinOps, o2 \in BinOps, m1 \in BinMods, m2 \in BinMods : Chain3(o1, m1, o2, m2)
        \/ Finish

Spec == Init /\ [][Next]_vars

-----------------------------------------------------------------------------
(* The prediction for a finished expression.                                *)
Accepted == ~Top.err /\ WellTyped(Full(Top))
NToks == Len(Top.toks)
\* single-token mutations: <<kind, i>>; del = remove token i, dup = repeat it, swap = exchange i, i+1
Muts == {<<"del", i>> : i \in 1..NToks} \cup {<<"dup", i>> : i \in 1..NToks} \cup {<<"swap", i>> : i \in 1..(NToks - 1)}
\* KNOWN DEVIATION of the printer (KF-C26-1): NumberLiteral.String() writes +Inf as "+Inf"; as the
\* left operand of ^ (the only operator that binds tighter than a sign) the "+" re-parses as a
\* unary plus over the whole power, so such expressions do not round-trip.
RECURSIVE InfPowLHS(_)
InfPowLHS(e) ==
  CASE e.k = "bin" -> (e.op = "^" /\ e.l.k = "num" /\ e.l.v = PInf) \/ InfPowLHS(e.l) \/ InfPowLHS(e.r)
    [] e.k \in {"un", "paren", "sq"} -> InfPowLHS(e.e)
    [] e.k = "agg" -> InfPowLHS(e.e) \/ (e.param # NoneN /\ InfPowLHS(e.param))
    [] e.k = "call" -> \E i \in 1..Len(e.args) : InfPowLHS(e.args[i])
    [] OTHER -> FALSE

Result == [toks |-> Top.toks, ok |-> Accepted,
           kf |-> IF Accepted /\ InfPowLHS(Full(Top)) THEN "infpow"
                  ELSE IF \E n \in 1..(NToks - 1) : Top.toks[n] = "offset" /\ Top.toks[n + 1] = "NaN" THEN "offnan" ELSE "",
           ast |-> IF Accepted THEN Full(Top) ELSE NoneN,
           ty |-> IF Accepted THEN TypeOf(Full(Top)) ELSE "",
           muts |-> Muts]

(* Properties of the reference itself.                                      *)
TypeOK == /\ Len(stack) <= MaxStack /\ nops <= MaxOps
          /\ \A i \in 1..Len(stack) : stack[i].pre \in {"", "+", "-"}

\* the tree of a chain contains every operand exactly once, in order (PrecParse only re-associates)
RECURSIVE Operands(_)
Operands(e) == IF e.k = "bin" THEN Operands(e.l) \o Operands(e.r)
               ELSE IF e.k = "un" THEN Operands(e.e) ELSE <<e>>
\* in every binary node built from a chain: the parent never binds tighter than an unparenthesised
\* child, equal precedence nests on the left (on the right for ^)
RECURSIVE PrecOK(_)
PrecOK(e) ==
  CASE e.k = "bin" ->
         /\ PrecOK(e.l) /\ PrecOK(e.r)
         /\ e.l.k = "bin" => (Prec(e.l.op) > Prec(e.op) \/ (Prec(e.l.op) = Prec(e.op) /\ ~RightAssoc(e.op)))
         /\ e.r.k = "bin" => (Prec(e.r.op) > Prec(e.op) \/ (Prec(e.r.op) = Prec(e.op) /\ RightAssoc(e.op)))
         /\ e.l.k = "un" => TRUE
         /\ (e.r.k = "un" /\ e.r.e.k = "bin") => Prec(e.r.e.op) > UnaryPrec
    [] e.k = "un" -> PrecOK(e.e) /\ (e.e.k = "bin" => Prec(e.e.op) > UnaryPrec)
    [] OTHER -> TRUE
TreesRespectPrecedence == \A i \in 1..Len(stack) : PrecOK(stack[i].e)

\* a well-typed expression has one of the four value types, and a comparison of two scalars is bool
WellTypedHasType == (done /\ Accepted) => TypeOf(Full(Top)) \in {"scalar", "vector", "matrix", "string"}

-----------------------------------------------------------------------------
Emit == \/ EmitMode # "all"
        \/ ~(~done /\ done')
        \/ PrintT("@@TR " \o ToJson(Result))
\* simulation: Finish is taken at most once per walk; print when done
EmitWalk == ~done \/ PrintT("@@TR " \o ToJson(Result))

AtAll == {<<"abs", 12500>>, <<"abs", -3000>>, <<"start", 0>>, <<"end", 0>>}
AtFew == {<<"abs", 12500>>, <<"start", 0>>}
OffAll == {300000, -5400000, 1500}
OffFew == {300000, -5400000}
=============================================================================
