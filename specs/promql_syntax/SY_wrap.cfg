SPECIFICATION Spec
CONSTANTS
  LeafIds = {"n1", "s1", "foo"}
  UnOps = {}
  CallFs = {"rate", "scalar", "vector", "clamp_min", "round", "day_of_week", "label_join"}
  AggOps = {"sum", "topk", "count_values"}
  AggStyles = {"plain", "by_pre", "without_post"}
  GrpLists = {"none", "empty", "kw", "u"}
  BinOps = {}
  BinMods = {}
  Offsets = {}
  BadOffsets = {}
  AtMods = {}
  Exts = {}
  Ranges = {300000}
  SubSteps = {}
  Parens = FALSE
  Sloppy = FALSE
  MaxStack = 2
  MaxOps = 4
  MaxToks = 40
  EmitMode = "all"
INVARIANTS TypeOK TreesRespectPrecedence WellTypedHasType
ACTION_CONSTRAINT Emit
CHECK_DEADLOCK FALSE
