SPECIFICATION Spec
CONSTANTS
  LeafIds = {"n1", "foo"}
  UnOps = {"-"}
  CallFs = {}
  AggOps = {}
  AggStyles = {}
  GrpLists = {}
  BinOps = {"+", "-", "*", "/", "%", "^", "atan2", "==", "!=", "<", "<=", ">", ">=", "</", ">/", "and", "or", "unless"}
  BinMods = {"none"}
  Offsets = {}
  BadOffsets = {}
  AtMods = {}
  Exts = {}
  Ranges = {}
  SubSteps = {}
  Parens = FALSE
  Sloppy = FALSE
  MaxStack = 3
  MaxOps = 7
  MaxToks = 40
  EmitMode = "all"
INVARIANTS TypeOK TreesRespectPrecedence WellTypedHasType
ACTION_CONSTRAINT Emit
CHECK_DEADLOCK FALSE
