SPECIFICATION Spec
CONSTANTS
  LeafIds = {"n1", "foo", "bar"}
  UnOps = {}
  CallFs = {}
  AggOps = {}
  AggStyles = {}
  GrpLists = {}
  BinOps = {"+", "==", "and", "</"}
  BinMods = {"none", "bool", "on_a", "on_e", "ign_ab", "ign_e", "bool_on_u", "on_gl", "on_gl_same", "ign_gr", "ign_e_gl", "fill0", "fill_l", "fill_lr", "fill_rl", "gl_fill"}
  Offsets = {}
  BadOffsets = {}
  AtMods = {}
  Exts = {}
  Ranges = {}
  SubSteps = {}
  Parens = TRUE
  Sloppy = FALSE
  MaxStack = 2
  MaxOps = 4
  MaxToks = 60
  EmitMode = "all"
INVARIANTS TypeOK TreesRespectPrecedence WellTypedHasType
ACTION_CONSTRAINT Emit
CHECK_DEADLOCK FALSE
