SPECIFICATION Spec
CONSTANTS
  Tokens <- TokAlphabetBig
  MaxLen = 3
  EmitMode = "all"
INVARIANTS TypeOK EmitState
CHECK_DEADLOCK FALSE
