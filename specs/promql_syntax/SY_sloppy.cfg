SPECIFICATION Spec
CONSTANTS
  LeafIds = {"n1", "s1", "foo", "sel_e", "time"}
  UnOps = {"-"}
  CallFs = {}
  AggOps = {}
  AggStyles = {}
  GrpLists = {}
  BinOps = {}
  BinMods = {}
  Offsets <- OffFew
  BadOffsets = {}
  AtMods <- AtFew
  Exts = {"anchored", "smoothed"}
  Ranges = {300000}
  SubSteps = {0}
  Parens = TRUE
  Sloppy = TRUE
  MaxStack = 1
  MaxOps = 4
  MaxToks = 40
  EmitMode = "all"
INVARIANTS TypeOK TreesRespectPrecedence WellTypedHasType
ACTION_CONSTRAINT Emit
CHECK_DEADLOCK FALSE
