SPECIFICATION Spec
CONSTANTS
  LeafIds = {"n1", "nhex", "nexp", "nfrac", "ninf", "nnan", "ndur", "ndur2", "s1", "s2", "s3", "foo", "colon", "foo_a", "foo_ab", "foo_nre", "foo_ul", "sel_n", "sel_u", "sel_e", "sel_ne", "kw_sum", "kw_off", "kw_start", "kw_by", "time", "startf", "stepf"}
  UnOps = {"+", "-"}
  CallFs = {}
  AggOps = {}
  AggStyles = {}
  GrpLists = {}
  BinOps = {}
  BinMods = {}
  Offsets <- OffFew
  BadOffsets = {"NaN", "Inf"}
  AtMods <- AtFew
  Exts = {"anchored"}
  Ranges = {300000}
  SubSteps = {0, 60000}
  Parens = TRUE
  Sloppy = FALSE
  MaxStack = 1
  MaxOps = 4
  MaxToks = 40
  EmitMode = "all"
INVARIANTS TypeOK TreesRespectPrecedence WellTypedHasType
ACTION_CONSTRAINT Emit
CHECK_DEADLOCK FALSE
