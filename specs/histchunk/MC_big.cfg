SPECIFICATION Spec
CONSTANTS
  PIdx = {1, 2, 3}
  NIdx = {1}
  MaxCount = 2
  Types = {"i"}
  Hints = {"U", "G", "R", "N"}
  Cvs = {1, 2}
  EditKinds = {"same", "inc", "mat", "drop", "dec", "incn", "dropn", "incz", "decz", "schema", "zt", "cv", "hint", "stale"}
  MaxEdits = 1
  TwoFrom = 1
  MaxApp = 4
  MaxLate = 0
  MaxOps = 8
  EmitMode = "none"
VIEW View
INVARIANTS TypeOK Faithful ChunkUniform HintSound
ACTION_CONSTRAINT Emit
CHECK_DEADLOCK FALSE
