SPECIFICATION Spec
CONSTANTS
  PIdx = {1, 2, 3}
  NIdx = {1}
  MaxCount = 2
  Types = {"i", "f"}
  Hints = {"U", "G", "R", "N"}
  Cvs = {1, 2}
  EditKinds = {"same", "inc", "mat", "drop", "dec", "incn", "dropn", "incz", "decz", "schema", "zt", "cv", "hint", "stale", "ty"}
  MaxEdits = 2
  MaxLate = 2
  EmitMode = "walk"
INVARIANTS EndInv EmitWalk
CHECK_DEADLOCK FALSE
