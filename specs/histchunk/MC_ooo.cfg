SPECIFICATION Spec
CONSTANTS
  PIdx = {1, 2}
  NIdx = {1}
  MaxCount = 2
  Types = {"i"}
  Hints = {"U", "G"}
  Cvs = {1, 2}
  EditKinds = {"inc", "drop", "schema", "stale", "hint"}
  MaxEdits = 1
  TwoFrom = 1
  MaxApp = 3
  MaxLate = 1
  MaxOps = 8
  EmitMode = "all"
VIEW View
INVARIANTS TypeOK Faithful ChunkUniform HintSound
ACTION_CONSTRAINT Emit
CHECK_DEADLOCK FALSE
