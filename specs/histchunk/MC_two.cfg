SPECIFICATION Spec
CONSTANTS
  PIdx = {1, 2}
  NIdx = {1}
  MaxCount = 2
  Types = {"i", "f"}
  Hints = {"U", "G"}
  Cvs = {1, 2}
  EditKinds = {"inc", "dec", "mat", "drop", "incz", "decz", "cv", "stale"}
  MaxEdits = 2
  TwoFrom = 3
  MaxApp = 3
  MaxLate = 0
  MaxOps = 6
  EmitMode = "all"
VIEW View
INVARIANTS TypeOK Faithful ChunkUniform HintSound
ACTION_CONSTRAINT Emit
CHECK_DEADLOCK FALSE
