------------------------------ MODULE HistChunk ------------------------------
(***************************************************************************)
(* Model of how a series of native histogram samples is cut into chunks    *)
(* (tsdb/chunkenc/histogram.go, float_histogram.go, histogram_meta.go,     *)
(* tsdb/head_append.go, tsdb/ooo_head.go) and of the counter-reset hints   *)
(* readers get back (counterResetHint, storage/merge.go).                  *)
(*                                                                         *)
(* A sample is an abstract histogram: representation (int/float), the      *)
(* caller's hint (U/R/N/G; G = gauge), staleness, layout (schema id, zero  *)
(* threshold id, custom bound set id), the set of buckets present in its   *)
(* spans (possibly with count 0) and their counts.  Consecutive samples    *)
(* differ by one or two "edits" (bucket added / emptied / dropped, count   *)
(* up or down, layout change, type or hint change, stale marker), which    *)
(* is what decides between append / recode / new chunk in the code.        *)
(*                                                                         *)
(* Actions (one per call of the code):                                     *)
(*   Append(h)   HistogramAppender.AppendHistogram /                        *)
(*               FloatHistogramAppender.AppendFloatHistogram on the open   *)
(*               chunk of the in-order chunk list: first sample / append / *)
(*               expand sample (backward inserts) / recode chunk (forward  *)
(*               inserts) / new chunk with a counter reset header          *)
(*   Cut         memSeries.cutNewHeadChunk: the next Append starts a chunk *)
(*               and asks the previous appender for the header             *)
(*   Late(t,h)   an out-of-order sample (OOOChunk.Insert); the OOO samples *)
(*               are encoded in time order by OOOChunk.ToEncodedChunks     *)
(* Reading = chain merge of the two sources (chainSampleIterator).         *)
(*                                                                         *)
(* Properties: C11 Faithful (what is stored equals what was appended, on   *)
(* every field the property names), C12 HintSound (a sample returned as    *)
(* "not a counter reset" has a sound predecessor in the same result).      *)
(***************************************************************************)
EXTENDS Integers, Sequences, FiniteSets, TLC, Json

CONSTANTS
  PIdx,        \* positive bucket indices, e.g. 1..3
  NIdx,        \* negative bucket indices, e.g. {1}
  MaxCount,    \* counts 0..MaxCount
  Types,       \* subset of {"i","f"}  integer / float histograms
  Hints,       \* caller hints explored, subset of {"U","R","N","G"}
  Cvs,         \* custom bound set ids explored besides 0 (= exponential), subset of {1,2}
  EditKinds,   \* subset of the edit names below
  MaxEdits,    \* 1 or 2 edits between consecutive samples ...
  TwoFrom,     \* ... two edits only from the TwoFrom-th in-order append on
  MaxApp,      \* number of in-order appends of a history
  MaxLate,     \* number of out-of-order samples
  MaxOps,      \* history length bound
  EmitMode     \* "all" | "state" | "walk" | "none"

VARIABLES io,      \* in-order chunk list (last one is open)
          cut,     \* the head decided to cut: next Append starts a new chunk with prev = old appender
          late,    \* out-of-order samples: set of [t, h]
          app,     \* ghost: all in-order samples as appended, <<[t, h]>>
          base,    \* last non-stale sample appended in order (edits start from it)
          nops, hist
vars == <<io, cut, late, app, base, nops, hist>>
View == <<io, cut, late, app, base>>

CBS == -53
ZeroP == [i \in PIdx |-> 0]
ZeroN == [i \in NIdx |-> 0]

RECURSIVE SumS(_, _)
SumS(f, S) == IF S = {} THEN 0 ELSE LET x == CHOOSE y \in S : TRUE IN f[x] + SumS(f, S \ {x})
Cnt(h) == h.zc + SumS(h.p, PIdx) + SumS(h.n, NIdx)

H0(ty) == [ty |-> ty, hi |-> "U", st |-> FALSE, s |-> 0, z |-> 0, cv |-> 0,
           P |-> {}, p |-> ZeroP, N |-> {}, n |-> ZeroN, zc |-> 0]

Gauge(h) == h.hi = "G"
Layout(h) == <<h.s, h.z, h.cv>>

-----------------------------------------------------------------------------
(* Edits *)

Edit(h, k) ==
  CASE k = "same"  -> {h}
    [] k = "inc"   -> {[h EXCEPT !.P = @ \cup {i}, !.p[i] = @ + 1] : i \in {j \in PIdx : h.p[j] < MaxCount}}
    [] k = "mat"   -> {[h EXCEPT !.P = @ \cup {i}] : i \in PIdx \ h.P}
    [] k = "drop"  -> {[h EXCEPT !.P = @ \ {i}, !.p[i] = 0] : i \in h.P}
    [] k = "dec"   -> {[h EXCEPT !.p[i] = @ - 1] : i \in {j \in PIdx : h.p[j] > 0}}
    [] k = "incn"  -> IF h.cv # 0 THEN {} ELSE
                      {[h EXCEPT !.N = @ \cup {i}, !.n[i] = @ + 1] : i \in {j \in NIdx : h.n[j] < MaxCount}}
    [] k = "dropn" -> {[h EXCEPT !.N = @ \ {i}, !.n[i] = 0] : i \in h.N}
    [] k = "incz"  -> IF h.cv # 0 \/ h.zc >= MaxCount THEN {} ELSE {[h EXCEPT !.zc = @ + 1]}
    [] k = "decz"  -> IF h.zc = 0 THEN {} ELSE {[h EXCEPT !.zc = @ - 1]}
    [] k = "schema"-> IF h.cv # 0 THEN {} ELSE {[h EXCEPT !.s = 1 - @]}
    [] k = "zt"    -> IF h.cv # 0 THEN {} ELSE {[h EXCEPT !.z = 1 - @]}
    [] k = "cv"    -> {[h EXCEPT !.cv = c, !.s = CBS, !.z = 0, !.zc = 0, !.N = {}, !.n = ZeroN] : c \in Cvs \ {h.cv}}
                      \cup (IF h.cv # 0 THEN {[h EXCEPT !.cv = 0, !.s = 0]} ELSE {})
    [] k = "hint"  -> {[h EXCEPT !.hi = x] : x \in Hints \ {h.hi}}
    [] k = "ty"    -> {[h EXCEPT !.ty = t] : t \in Types \ {h.ty}}
    [] k = "stale" -> {[h EXCEPT !.st = TRUE]}
    [] OTHER       -> {}

One(h) == UNION {Edit(h, k) : k \in EditKinds}
Nexts(h, two) == IF MaxEdits = 1 \/ ~two THEN One(h) ELSE UNION {One(g) : g \in One(h)}

-----------------------------------------------------------------------------
(* The appender's decision: appendable / appendableGauge / AppendHistogram *)

Last(q) == q[Len(q)]

\* expandIntSpansAndBuckets / expandFloatSpansAndBuckets on one side:
\* a reset if a bucket of the chunk's last sample shrank or a populated one disappeared
SideReset(LP, lp, hP, hp) == \E i \in LP : (i \in hP /\ lp[i] > hp[i]) \/ (i \notin hP /\ lp[i] > 0)

\* Result of a.appendable(h) / a.appendableGauge(h) for the open, non-empty chunk c.
\* ok: sample may go into the chunk; hdr: header for a chunk cut because of this sample.
\* Integer and float appenders differ in the header they hand out when there is no reset:
\*   int  : NotCounterReset initially, Unknown after a stale sample or a schema/threshold change
\*   float: (counterReset = false) leaves the default Unknown on a cut; NotCounterReset when asked as prev
Appendable(c, h) ==
  LET l == Last(c.smp) IN
  IF Gauge(h) THEN
     [ok |-> c.hdr = "G" /\ (h.st \/ (~l.st /\ Layout(h) = Layout(l))), hdr |-> "G", reset |-> FALSE]
  \* order of the tests after the repair of KF-C11-1: explicit reset hint, staleness (a stale marker is
  \* always appendable, also to a gauge chunk: it is read back without the gauge hint), gauge header
  ELSE IF h.hi = "R"           THEN [ok |-> FALSE, hdr |-> "R", reset |-> TRUE]
  ELSE IF h.st                 THEN [ok |-> TRUE,  hdr |-> "N", reset |-> FALSE]
  ELSE IF c.hdr = "G"          THEN [ok |-> FALSE, hdr |-> "N", reset |-> FALSE]
  ELSE IF l.st                 THEN [ok |-> FALSE, hdr |-> "U", reset |-> FALSE]
  ELSE IF Cnt(h) < Cnt(l)      THEN [ok |-> FALSE, hdr |-> "R", reset |-> TRUE]
  ELSE IF h.s # l.s \/ h.z # l.z THEN [ok |-> FALSE, hdr |-> "U", reset |-> FALSE]
  ELSE IF h.cv # l.cv          THEN [ok |-> FALSE, hdr |-> "R", reset |-> TRUE]
  ELSE IF h.zc < l.zc          THEN [ok |-> FALSE, hdr |-> "R", reset |-> TRUE]
  ELSE IF SideReset(l.P, l.p, h.P, h.p) \/ SideReset(l.N, l.n, h.N, h.n)
                               THEN [ok |-> FALSE, hdr |-> "R", reset |-> TRUE]
  ELSE [ok |-> TRUE, hdr |-> "N", reset |-> FALSE]

\* header written on a chunk that is cut because the sample does not fit (AppendHistogram, !okToAppend)
CutHdr(ty, a) == IF ty = "i" \/ a.hdr = "G" THEN a.hdr ELSE (IF a.reset THEN "R" ELSE "U")
\* header written on the first sample of a chunk the caller cut, prev appender given (numSamples = 0)
PrevHdr(ty, a) == IF ty = "i" THEN a.hdr ELSE (IF a.reset THEN "R" ELSE "N")

\* a stale sample is stored without buckets; in a non-empty chunk it takes the chunk's layout
Expand(h, P, N) == [h EXCEPT !.P = P, !.N = N]
NewChunk(h, hdr) == [ty |-> h.ty, hdr |-> hdr, smp |-> <<h>>]

\* Appending h to chunk list q.  prevOn: the caller cut a chunk and hands over the previous appender.
\* Returns the new chunk list and the decision taken.
AppendTo(q, h, prevOn) ==
  IF q = <<>> THEN
     [q |-> <<NewChunk(h, IF Gauge(h) THEN "G" ELSE IF h.hi = "R" THEN "R" ELSE "U")>>, dec |-> "first"]
  ELSE
  LET c == Last(q)
      rest == SubSeq(q, 1, Len(q) - 1)
      sameEnc == c.ty = h.ty
  IN
  IF prevOn \/ ~sameEnc THEN
     \* first sample of a fresh chunk (head cut / encoding change); prev of another encoding is ignored
     LET hdr == IF Gauge(h) THEN "G"
                ELSE IF h.hi = "R" THEN "R"
                ELSE IF sameEnc THEN PrevHdr(h.ty, Appendable(c, h)) ELSE "U"
     IN [q |-> Append(q, NewChunk(h, hdr)), dec |-> "first"]
  ELSE
  LET a == Appendable(c, h) IN
  IF ~a.ok THEN [q |-> Append(q, NewChunk(h, CutHdr(h.ty, a))), dec |-> "new"]
  ELSE IF h.st THEN [q |-> Append(rest, [c EXCEPT !.smp = Append(@, Expand(h, Last(c.smp).P, Last(c.smp).N))]), dec |-> "append"]
  ELSE
  LET l  == Last(c.smp)
      P2 == l.P \cup h.P
      N2 == l.N \cup h.N
      fwd == P2 # l.P \/ N2 # l.N          \* buckets the chunk does not have: recode the chunk
      bwd == P2 # h.P \/ N2 # h.N          \* empty buckets the sample does not have: expand the sample
      old == IF fwd THEN [k \in 1..Len(c.smp) |-> Expand(c.smp[k], P2, N2)] ELSE c.smp
  IN [q |-> Append(rest, [c EXCEPT !.smp = Append(old, Expand(h, P2, N2))]),
      dec |-> IF fwd THEN "recode" ELSE IF bwd THEN "expand" ELSE "append"]

-----------------------------------------------------------------------------
(* Reading *)

\* counterResetHint(header, numRead); stale samples come back as a bare marker
ReadHint(c, k) == IF c.smp[k].st THEN "U" ELSE IF c.hdr = "G" THEN "G" ELSE IF k > 1 THEN "N" ELSE "U"

RECURSIVE Flat(_, _, _)
Flat(q, src, i) == IF i > Len(q) THEN <<>>
                   ELSE [k \in 1..Len(q[i].smp) |-> [src |-> src, h |-> q[i].smp[k], hint |-> ReadHint(q[i], k)]]
                        \o Flat(q, src, i + 1)

\* OOOChunk.ToEncodedChunks: the late samples in time order through the same appenders, prev always given
Times == 1..(2 * MaxOps + 1)
RECURSIVE Encode(_, _, _)
Encode(S, t, q) == IF t > 2 * MaxOps + 1 THEN q
                   ELSE LET X == {e \in S : e.t = t} IN
                        IF X = {} THEN Encode(S, t + 1, q)
                        ELSE Encode(S, t + 1, AppendTo(q, (CHOOSE e \in X : TRUE).h, FALSE).q)
OOOChunks == Encode(late, 1, <<>>)

\* time of every stored sample, in order: in-order samples from the ghost, late ones from their slot
IoFlat == LET f == Flat(io, "io", 1) IN [k \in 1..Len(f) |-> f[k] @@ [t |-> app[k].t]]
LateTimes == {e.t : e \in late}
RECURSIVE SortedLate(_)
SortedLate(t) == IF t > 2 * MaxOps + 1 THEN <<>>
                 ELSE (IF t \in LateTimes THEN <<t>> ELSE <<>>) \o SortedLate(t + 1)
OooFlat == LET f == Flat(OOOChunks, "ooo", 1)
               ts == SortedLate(1)
           IN [k \in 1..Len(f) |-> f[k] @@ [t |-> ts[k]]]

\* chainSampleIterator: merge by time; a hint survives only between direct neighbours of one source
RECURSIVE Merge(_, _, _)
Merge(a, b, prevSrc) ==
  IF a = <<>> /\ b = <<>> THEN <<>>
  ELSE LET ta == IF a = <<>> THEN 1000000 ELSE a[1].t
           tb == IF b = <<>> THEN 1000000 ELSE b[1].t
           x  == IF ta < tb THEN a[1] ELSE b[1]
           y  == IF x.src # prevSrc /\ x.hint # "G" THEN [x EXCEPT !.hint = "U"] ELSE x
       IN <<y>> \o (IF ta < tb THEN Merge(Tail(a), b, x.src) ELSE Merge(a, Tail(b), x.src))
Result == Merge(IoFlat, OooFlat, "none")

\* the property's notion of a sound "not a counter reset" mark
Sound(p, c) ==
  /\ ~p.st /\ ~c.st
  /\ Layout(p) = Layout(c)
  /\ Cnt(c) >= Cnt(p) /\ c.zc >= p.zc
  /\ \A i \in PIdx : c.p[i] >= p.p[i]
  /\ \A i \in NIdx : c.n[i] >= p.n[i]

-----------------------------------------------------------------------------
(* Behaviour records *)

JH(h) == [ty |-> h.ty, hi |-> h.hi, st |-> h.st, s |-> h.s, z |-> h.z, cv |-> h.cv,
          P |-> {<<i, h.p[i]>> : i \in h.P}, N |-> {<<i, h.n[i]>> : i \in h.N}, zc |-> h.zc, cnt |-> Cnt(h)]

\* what a reader of the whole series must get: time, the sample, the model's hint, and whether a
\* "not a counter reset" mark would be sound there (predecessor = previous element of this list)
JRes(r) == [k \in 1..Len(r) |-> [t |-> r[k].t, src |-> r[k].src, h |-> JH(r[k].h), hint |-> r[k].hint,
                                 snd |-> k > 1 /\ Sound(r[k - 1].h, r[k].h)]]
JChunks(q) == [k \in 1..Len(q) |-> [ty |-> q[k].ty, hdr |-> q[k].hdr, n |-> Len(q[k].smp)]]

Init ==
  /\ io = <<>> /\ cut = FALSE /\ late = {} /\ app = <<>>
  /\ base \in {H0(ty) : ty \in Types}
  /\ nops = 0
  /\ hist = <<[op |-> "Init"]>>

Step(rec) ==
  /\ nops' = nops + 1
  /\ hist' = Append(hist, rec)

\* in-order sample at the next even time
AppendH(h) ==
  LET r == AppendTo(io, h, cut)
      t == 2 * (Len(app) + 1)
  IN /\ io' = r.q
     /\ cut' = FALSE
     /\ app' = Append(app, [t |-> t, h |-> h])
     /\ base' = IF h.st THEN base ELSE h
     /\ UNCHANGED late
     /\ Step([op |-> "Append", t |-> t, h |-> JH(h), dec |-> r.dec, prev |-> cut])

Cut ==
  /\ io # <<>> /\ ~cut
  /\ cut' = TRUE
  /\ UNCHANGED <<io, late, app, base>>
  /\ Step([op |-> "Cut"])

\* out-of-order sample in a free odd slot below the newest in-order sample; derived from the in-order
\* sample before the slot
LateH(t, h) ==
  /\ Cardinality(late) < MaxLate
  /\ late' = late \cup {[t |-> t, h |-> h]}
  /\ UNCHANGED <<io, cut, app, base>>
  /\ Step([op |-> "Late", t |-> t, h |-> JH(h)])

LateSlots == {t \in Times : t % 2 = 1 /\ t < 2 * Len(app) /\ t \notin LateTimes}
Before(t) == IF t = 1 THEN app[1].h ELSE app[(t - 1) \div 2].h

\* last step of a behaviour: what readers must see
Read ==
  /\ hist[Len(hist)].op # "Read"
  /\ app # <<>>
  /\ UNCHANGED <<io, cut, late, app, base>>
  /\ Step([op |-> "Read", res |-> JRes(Result), iores |-> JRes(IoFlat), io |-> JChunks(io), ooo |-> JChunks(OOOChunks)])

End == EmitMode = "walk" /\ nops <= MaxOps /\ hist[Len(hist)].op = "Read" /\ nops' = MaxOps + 1
       /\ UNCHANGED <<io, cut, late, app, base, hist>>

Next ==
  \/ /\ nops < MaxOps - 1
     /\ hist[Len(hist)].op # "Read"
     /\ \/ Len(app) < MaxApp /\ \E h \in Nexts(base, Len(app) + 1 >= TwoFrom) : AppendH(h)
        \/ Len(app) < MaxApp /\ Cut
        \* the out-of-order samples arrive after the in-order ones
        \/ Len(app) = MaxApp /\ \E t \in LateSlots : \E h \in Nexts([Before(t) EXCEPT !.st = FALSE], FALSE) : LateH(t, h)
  \* every history ends with the read
  \/ (nops = MaxOps - 1 \/ (Len(app) = MaxApp /\ Cardinality(late) = MaxLate)) /\ Read
  \/ End

Spec == Init /\ [][Next]_vars

-----------------------------------------------------------------------------
(* Properties *)

Drop0(h) == [h EXCEPT !.P = {i \in h.P : h.p[i] # 0}, !.N = {i \in h.N : h.n[i] # 0}]
\* C11 fields: schema, zero threshold, custom bounds, count, zero count, every bucket count; stale stays stale
Same(a, b) == IF a.st \/ b.st THEN a.st = b.st
              ELSE Layout(a) = Layout(b) /\ a.zc = b.zc /\ a.p = b.p /\ a.n = b.n /\ a.ty = b.ty

TypeOK ==
  /\ \A k \in 1..Len(io) : io[k].hdr \in {"U", "R", "N", "G"} /\ Len(io[k].smp) > 0
  /\ Len(IoFlat) = Len(app)

\* C11: the in-order chunks hold exactly the appended samples, in order
Faithful == LET f == IoFlat IN \A k \in 1..Len(app) : Same(f[k].h, app[k].h)

\* every chunk has one layout and one bucket set (stale markers aside); counter chunks never shrink
ChunkUniform == \A k \in 1..Len(io) : \A i, j \in 1..Len(io[k].smp) :
  LET a == io[k].smp[i]
      b == io[k].smp[j]
  IN /\ a.ty = io[k].ty
     /\ (~a.st /\ ~b.st) => (Layout(a) = Layout(b) /\ a.P = b.P /\ a.N = b.N)
     /\ (io[k].hdr # "G" /\ i + 1 = j /\ ~b.st) => Sound(a, b)
     /\ ~a.st => ((io[k].hdr = "G") = Gauge(a))           \* (a stale marker of any kind may close a chunk)

\* C12 on the design: whatever a full read returns as "not a counter reset" is sound
HintSound == LET r == Result IN
  \A k \in 1..Len(r) : r[k].hint = "N" => (k > 1 /\ Sound(r[k - 1].h, r[k].h))

-----------------------------------------------------------------------------
\* simulation: the properties are evaluated on the final state of each walk only (TLC evaluates
\* invariants on every successor it generates before choosing one)
EndInv == nops <= MaxOps \/ (TypeOK /\ Faithful /\ ChunkUniform /\ HintSound)

Emit == EmitMode # "all" \/ hist' = hist \/ hist'[Len(hist')].op # "Read" \/ PrintT("@@TR " \o ToJson(hist'))
EmitWalk == nops <= MaxOps \/ PrintT("@@TR " \o ToJson(hist))
=============================================================================
