SPECIFICATION Spec
CONSTANTS
  Wal <- WalBig
  RefOf <- Refs4
  Dropped = {"d"}
  BatchSize = 2
  ChanCap = 2
  InitShards = 2
  Targets <- TargetsThree
  MaxRec = 3
  MaxFatal = 1
  Timer = "first"
  EmitMode = "final"
  Record = TRUE
  Eager = TRUE
  BatchBug = FALSE
INVARIANTS TypeOK PerSeriesOrder NoDup NoDropLeak Conservation ShardFifo Complete EmitFinal
CHECK_DEADLOCK FALSE
