SPECIFICATION Spec
CONSTANTS
  Wal <- WalBig
  RefOf <- Refs4
  Dropped = {"d"}
  BatchSize = 2
  ChanCap = 1
  InitShards = 2
  Targets <- TargetsTwo
  MaxRec = 2
  MaxFatal = 1
  Timer = "any"
  EmitMode = "none"
  Record = TRUE
  Eager = FALSE
  BatchBug = FALSE
VIEW View0
INVARIANTS TypeOK PerSeriesOrder NoDup NoDropLeak Conservation ShardFifo Complete
CHECK_DEADLOCK FALSE
