---------------------------- MODULE QueueManager ----------------------------
(***************************************************************************)
(* Remote write queue manager (C40): per-series order, completeness, no     *)
(* leak of dropped series and no duplicates across enqueue retries, shard   *)
(* batching, send retries and resharding.                                   *)
(*                                                                         *)
(* Code modelled (prometheus/storage/remote/queue_manager.go):              *)
(*   QueueManager.StoreSeries (relabel: kept / dropped), QueueManager.Append*)
(*   (per sample: lookup, enqueue with retry), shards.enqueue (ref modulo   *)
(*   shard count, refused after softShutdown), queue.Append (partial batch, *)
(*   publish a full batch to batchQueue or refuse), runShard (receive a     *)
(*   batch, timer flush via queue.Batch, sendSamplesWithBackoff: recoverable*)
(*   errors retried, others drop the batch), shards.stop (close             *)
(*   softShutdown, take the write lock, FlushAndShutdown per queue, wait    *)
(*   for the shards), shards.start, reshardLoop (stop then start).          *)
(*                                                                         *)
(* Processes: the WAL watcher goroutine calling Append, one goroutine per   *)
(* shard, the resharder.  The remote endpoint is the `received` log.        *)
(* A sample is <<series, k>> (k-th sample of the series in WAL order).      *)
(***************************************************************************)
EXTENDS Integers, Sequences, FiniteSets, TLC, Json

CONSTANTS Wal,         \* sequence of samples <<series, k>> in WAL order
          RefOf,       \* [series -> head series ref]
          Dropped,     \* series dropped by write relabeling
          BatchSize,   \* MaxSamplesPerSend
          ChanCap,     \* capacity / MaxSamplesPerSend batches buffered per shard
          InitShards,  \* shards at start
          Targets,     \* sequence of shard counts of the successive reshards (the final Stop follows them)
          MaxRec, MaxFatal,   \* bounds on injected recoverable / non-recoverable send errors
          Timer,       \* "none": the BatchSendDeadline timer never fires; "any": it may fire whenever a shard is idle;
                       \* "first": it fires exactly once per shard goroutine, before anything else happens after the
                       \* shards were started (what a replay can force: deadline short at start, long afterwards)
          EmitMode,
          Record,      \* FALSE: no history variable (liveness checking without VIEW)
          BatchBug,    \* TRUE: design mutation used to show that PerSeriesOrder is not vacuous: queue.Batch() returns the
                       \* partial batch even when a published batch is waiting
          Eager        \* TRUE: an idle shard goroutine receives a published batch before anything else happens (what a
                       \* replay can reproduce: the receive cannot be held back by a gate); FALSE: any interleaving

VARIABLES wpos,      \* index in Wal of the sample the watcher is trying to enqueue
          n,         \* current number of shards
          soft,      \* softShutdown closed: enqueue refuses
          locked,    \* shards.stop holds shards.mtx: enqueue blocks
          part,      \* [shard -> partial batch]
          chan,      \* [shard -> sequence of published batches]
          closed,    \* [shard -> batchQueue closed]
          pend,      \* [shard -> FlushAndShutdown still has to publish the partial batch (batchQueue was full)]
          infl,      \* [shard -> batch being sent]
          alive,     \* [shard -> runShard goroutine running]
          nidle,     \* number of timer firings on a shard with nothing queued ("any" mode bounds them: an idle timer loop is not progress)
          tmr,       \* [shard -> "armed" | "fired" (the goroutine chose the timer case, queue.Batch() not yet called) | "off"]
          rpc,       \* resharder: "idle" | "soft" | "flushing" | "stopped" | "final"
          nres,      \* reshards done
          received,  \* samples accepted by the endpoint, in order
          lostFatal, \* samples of batches dropped after a non-recoverable error
          nrec, nfatal,
          hist

vars == <<wpos, n, soft, locked, part, chan, closed, pend, infl, alive, tmr, nidle, rpc, nres, received, lostFatal, nrec, nfatal, hist>>
View0 == <<wpos, n, soft, locked, part, chan, closed, pend, infl, alive, tmr, nidle, rpc, nres, received, lostFatal, nrec, nfatal>>

MaxShards == 3
Shards == 0..(MaxShards - 1)
Cur == 0..(n - 1)
Kept(x) == x[1] \notin Dropped
ShardOf(x) == RefOf[x[1]] % n
\* Append skips samples of series without labels (dropped by relabelling) without touching the shards
RECURSIVE SkipDropped(_)
SkipDropped(i) == IF i <= Len(Wal) /\ ~Kept(Wal[i]) THEN SkipDropped(i + 1) ELSE i
Empty == [q \in Shards |-> <<>>]

Init ==
  /\ wpos = SkipDropped(1) /\ n = InitShards /\ soft = FALSE /\ locked = FALSE
  /\ part = Empty /\ chan = Empty /\ infl = Empty
  /\ closed = [q \in Shards |-> FALSE] /\ pend = [q \in Shards |-> FALSE]
  /\ alive = [q \in Shards |-> q < InitShards]
  /\ tmr = [q \in Shards |-> IF q < InitShards /\ Timer # "none" THEN "armed" ELSE "off"]
  /\ rpc = "idle" /\ nres = 0 /\ nidle = 0
  /\ received = <<>> /\ lostFatal = {} /\ nrec = 0 /\ nfatal = 0
  /\ hist = <<>>

Log(rec) == hist' = IF Record THEN Append(hist, rec) ELSE hist

-----------------------------------------------------------------------------
(* Watcher: one enqueue attempt of QueueManager.Append.                      *)

Enqueue ==
  /\ wpos <= Len(Wal) /\ ~locked /\ rpc # "final"
  /\ LET x   == Wal[wpos]
         q   == ShardOf(x)
         \* queue.Append: the sample completes the batch but batchQueue is full -> removed again, retry later
         full == Len(part[q]) = BatchSize - 1 /\ Len(chan[q]) >= ChanCap
         ok  == ~soft /\ ~full
     IN /\ IF ~ok THEN UNCHANGED <<wpos, part, chan>>
           ELSE /\ wpos' = SkipDropped(wpos + 1)
                /\ IF Len(part[q]) = BatchSize - 1
                   THEN /\ chan' = [chan EXCEPT ![q] = Append(@, Append(part[q], x))]
                        /\ part' = [part EXCEPT ![q] = <<>>]
                   ELSE /\ part' = [part EXCEPT ![q] = Append(@, x)]
                        /\ UNCHANGED chan
        /\ UNCHANGED <<n, soft, locked, closed, pend, infl, alive, tmr, rpc, nres, received, lostFatal, nrec, nfatal, nidle>>
        /\ Log([a |-> "Enqueue", x |-> x, q |-> q, ok |-> ok])

-----------------------------------------------------------------------------
(* Shard goroutines.                                                         *)

\* runShard: a batch arrives on batchQueue                          [-> qm.shard.dequeued]
Dequeue(q) ==
  /\ alive[q] /\ infl[q] = <<>> /\ chan[q] # <<>> /\ tmr[q] # "fired"
  /\ infl' = [infl EXCEPT ![q] = chan[q][1]]
  /\ chan' = [chan EXCEPT ![q] = Tail(@)]
  /\ UNCHANGED <<wpos, n, soft, locked, part, closed, pend, alive, tmr, rpc, nres, received, lostFatal, nrec, nfatal, nidle>>
  /\ Log([a |-> "Dequeue", q |-> q, batch |-> chan[q][1]])

\* runShard: the select commits to the timer case (the goroutine is idle)      [-> qm.shard.timer_fired]
TimerFire(q) ==
  /\ Timer # "none" /\ alive[q] /\ infl[q] = <<>>
  /\ IF Timer = "first" THEN tmr[q] = "armed" ELSE tmr[q] # "fired"
  /\ LET idle == chan[q] = <<>> /\ part[q] = <<>> IN
     /\ Timer = "any" /\ idle => nidle < 2
     /\ nidle' = IF Timer = "any" /\ idle THEN nidle + 1 ELSE nidle
  /\ tmr' = [tmr EXCEPT ![q] = "fired"]
  /\ UNCHANGED <<wpos, n, soft, locked, part, chan, closed, pend, infl, alive, rpc, nres, received, lostFatal, nrec, nfatal>>
  /\ Log([a |-> "TimerFire", q |-> q])
\* ... and later calls queue.Batch(): a published batch has to be taken before the partial batch, otherwise the
\* newer partial batch overtakes it (both may hold samples of one series); on a closed, drained queue nothing
TimerTake(q) ==
  /\ tmr[q] = "fired"
  /\ tmr' = [tmr EXCEPT ![q] = IF Timer = "first" THEN "off" ELSE "armed"]
  /\ IF chan[q] # <<>> /\ ~BatchBug
     THEN /\ infl' = [infl EXCEPT ![q] = chan[q][1]] /\ chan' = [chan EXCEPT ![q] = Tail(@)] /\ UNCHANGED part
     ELSE IF closed[q] THEN UNCHANGED <<infl, chan, part>>
     ELSE /\ infl' = [infl EXCEPT ![q] = part[q]] /\ part' = [part EXCEPT ![q] = <<>>] /\ UNCHANGED chan
  /\ UNCHANGED <<wpos, n, soft, locked, closed, pend, alive, rpc, nres, received, lostFatal, nrec, nfatal, nidle>>
  /\ Log([a |-> "TimerTake", q |-> q, batch |-> infl'[q]])

\* one attempt of sendSamplesWithBackoff against the endpoint
Send(q, res) ==
  /\ infl[q] # <<>>
  /\ CASE res = "ok"    -> /\ received' = received \o infl[q] /\ infl' = [infl EXCEPT ![q] = <<>>]
                           /\ UNCHANGED <<lostFatal, nrec, nfatal>>
       [] res = "rec"   -> /\ nrec < MaxRec /\ nrec' = nrec + 1
                           /\ UNCHANGED <<received, infl, lostFatal, nfatal>>
       [] res = "fatal" -> /\ nfatal < MaxFatal /\ nfatal' = nfatal + 1
                           /\ lostFatal' = lostFatal \cup {infl[q][i] : i \in 1..Len(infl[q])}
                           /\ infl' = [infl EXCEPT ![q] = <<>>]
                           /\ UNCHANGED <<received, nrec>>
  /\ UNCHANGED <<wpos, n, soft, locked, part, chan, closed, pend, alive, tmr, rpc, nres, nidle>>
  /\ Log([a |-> "Send", q |-> q, res |-> res, batch |-> infl[q]])

\* runShard returns when batchQueue is closed and drained             [-> qm.shard.exit]
ShardExit(q) ==
  /\ alive[q] /\ closed[q] /\ chan[q] = <<>> /\ infl[q] = <<>> /\ tmr[q] # "fired"
  /\ alive' = [alive EXCEPT ![q] = FALSE]
  /\ UNCHANGED <<wpos, n, soft, locked, part, chan, closed, pend, infl, tmr, rpc, nres, received, lostFatal, nrec, nfatal, nidle>>
  /\ Log([a |-> "ShardExit", q |-> q])

-----------------------------------------------------------------------------
(* Resharder: reshardLoop (stop, start) and the final Stop.                  *)

Final == nres = Len(Targets)      \* the stop in progress is QueueManager.Stop

\* shards.stop: close(softShutdown)                                  [-> qm.stop.soft]
StopSoft ==
  /\ rpc = "idle"
  /\ Final => wpos > Len(Wal)            \* (the final Stop is issued once the WAL has been consumed)
  /\ soft' = TRUE /\ rpc' = "soft"
  /\ UNCHANGED <<wpos, n, locked, part, chan, closed, pend, infl, alive, tmr, nres, received, lostFatal, nrec, nfatal, nidle>>
  /\ Log([a |-> "StopSoft"])

\* FlushAndShutdown of one queue: publish the partial batch if batchQueue has room, then close it
FlushOne(q, p, c) == IF p = <<>> THEN [part |-> <<>>, chan |-> c, closed |-> TRUE, pend |-> FALSE]
                     ELSE IF Len(c) < ChanCap THEN [part |-> <<>>, chan |-> Append(c, p), closed |-> TRUE, pend |-> FALSE]
                     ELSE [part |-> p, chan |-> c, closed |-> FALSE, pend |-> TRUE]
\* shards.stop takes the write lock and starts FlushAndShutdown for every queue
StopFlush ==
  /\ rpc = "soft"
  /\ locked' = TRUE /\ rpc' = "flushing"
  /\ part' = [q \in Shards |-> IF q \in Cur THEN FlushOne(q, part[q], chan[q]).part ELSE part[q]]
  /\ chan' = [q \in Shards |-> IF q \in Cur THEN FlushOne(q, part[q], chan[q]).chan ELSE chan[q]]
  /\ closed' = [q \in Shards |-> IF q \in Cur THEN FlushOne(q, part[q], chan[q]).closed ELSE closed[q]]
  /\ pend' = [q \in Shards |-> IF q \in Cur THEN FlushOne(q, part[q], chan[q]).pend ELSE pend[q]]
  /\ UNCHANGED <<wpos, n, soft, infl, alive, tmr, nres, received, lostFatal, nrec, nfatal, nidle>>
  /\ Log([a |-> "StopFlush", closed |-> {q \in Cur : FlushOne(q, part[q], chan[q]).closed}])
\* FlushAndShutdown retries (every second) until batchQueue has room
FlushRetry(q) ==
  /\ rpc = "flushing" /\ pend[q] /\ Len(chan[q]) < ChanCap
  /\ chan' = [chan EXCEPT ![q] = Append(@, part[q])] /\ part' = [part EXCEPT ![q] = <<>>]
  /\ closed' = [closed EXCEPT ![q] = TRUE] /\ pend' = [pend EXCEPT ![q] = FALSE]
  /\ UNCHANGED <<wpos, n, soft, locked, infl, alive, tmr, rpc, nres, received, lostFatal, nrec, nfatal, nidle>>
  /\ Log([a |-> "FlushRetry", q |-> q])
\* all shards have exited: stop returns
StopDone ==
  /\ rpc = "flushing" /\ \A q \in Cur : ~alive[q]
  /\ locked' = FALSE /\ rpc' = IF Final THEN "final" ELSE "stopped"
  /\ UNCHANGED <<wpos, n, soft, part, chan, closed, pend, infl, alive, tmr, nres, received, lostFatal, nrec, nfatal, nidle>>
  /\ Log([a |-> "StopDone", final |-> Final])
\* shards.start(Targets[nres+1])
Start ==
  /\ rpc = "stopped"
  /\ LET m == Targets[nres + 1] IN
     /\ n' = m /\ soft' = FALSE /\ nres' = nres + 1 /\ rpc' = "idle"
     /\ part' = Empty /\ chan' = Empty /\ infl' = Empty
     /\ closed' = [q \in Shards |-> FALSE] /\ pend' = [q \in Shards |-> FALSE]
     /\ alive' = [q \in Shards |-> q < m]
     /\ tmr' = [q \in Shards |-> IF q < m /\ Timer # "none" THEN "armed" ELSE "off"]
     /\ UNCHANGED <<wpos, locked, received, lostFatal, nrec, nfatal, nidle>>
     /\ Log([a |-> "Start", n |-> m])

DeqEnabled(q) == alive[q] /\ infl[q] = <<>> /\ chan[q] # <<>> /\ tmr[q] # "fired"
\* Timer = "first": right after the shards were started every shard goroutine first runs into its timer
MustFire == Timer = "first" /\ \E q \in Cur : alive[q] /\ tmr[q] = "armed"
Other == \/ Enqueue
         \/ \E q \in Cur : TimerTake(q) \/ ShardExit(q) \/ FlushRetry(q)
                           \/ \E res \in {"ok", "rec", "fatal"} : Send(q, res)
         \/ StopSoft \/ StopFlush \/ StopDone \/ Start
Next == IF MustFire THEN \E q \in Cur : TimerFire(q)
        ELSE \/ \E q \in Cur : Dequeue(q)
             \/ (~Eager \/ ~\E q \in Cur : DeqEnabled(q)) /\ (Other \/ \E q \in Cur : TimerFire(q))
Spec == Init /\ [][Next]_vars
FairSpec == Spec /\ WF_vars(Next)

-----------------------------------------------------------------------------
(* Properties.                                                              *)

SeqSet(s) == {s[i] : i \in 1..Len(s)}
InShards == UNION {SeqSet(part[q]) \cup SeqSet(infl[q]) \cup UNION {SeqSet(chan[q][i]) : i \in 1..Len(chan[q])} : q \in Shards}
Consumed == {Wal[i] : i \in 1..(wpos - 1)}

TypeOK == /\ n \in 1..MaxShards /\ wpos \in 1..(Len(Wal) + 1)
          /\ \A q \in Shards : Len(part[q]) < BatchSize /\ Len(chan[q]) <= ChanCap
          /\ \A q \in Shards : q \notin Cur => part[q] = <<>> /\ chan[q] = <<>> /\ infl[q] = <<>>

\* PerSeriesOrder: the endpoint receives the samples of each series in WAL order
PerSeriesOrder == \A i, j \in 1..Len(received) : (i < j /\ received[i][1] = received[j][1]) => received[i][2] < received[j][2]
\* NoDup: nothing is delivered twice (a failed attempt delivers nothing)
NoDup == \A i, j \in 1..Len(received) : i # j => received[i] # received[j]
\* NoDropLeak: no sample of a series dropped by relabelling is queued or sent
NoDropLeak == \A x \in InShards \cup SeqSet(received) : Kept(x)
\* Conservation: every kept sample consumed from the WAL is in exactly one place
Conservation == {x \in Consumed : Kept(x)} = InShards \cup SeqSet(received) \cup lostFatal
\* per-shard FIFO: within a shard the queued samples of a series are in WAL order behind what was received
ShardFifo == \A q \in Shards :
  LET all == infl[q] \o (IF chan[q] = <<>> THEN <<>> ELSE chan[q][1]) \o part[q] IN
  \A i, j \in 1..Len(all) : (i < j /\ all[i][1] = all[j][1]) => all[i][2] < all[j][2]
\* Complete: after the final Stop everything that was not lost to a non-recoverable error has been delivered
Complete == rpc = "final" => /\ SeqSet(received) \cup lostFatal = {Wal[i] : i \in {j \in 1..Len(Wal) : Kept(Wal[j])}}
                             /\ InShards = {}
\* the final stop is always reached (liveness, under fairness and with the error bounds)
Terminates == <>(rpc = "final")

-----------------------------------------------------------------------------
(* Emission.                                                                *)

Beh == [steps |-> hist, received |-> received, lost |-> lostFatal,
        cfg |-> [batch |-> BatchSize, chancap |-> ChanCap, init |-> InitShards, dropped |-> Dropped, refs |-> RefOf, wal |-> Wal,
                 timer |-> Timer]]
EmitState == EmitMode # "state" \/ PrintT("@@TR " \o ToJson(Beh))
\* complete behaviours only
EmitFinal == EmitMode # "final" \/ rpc # "final" \/ PrintT("@@TR " \o ToJson(Beh))
Emit == CASE EmitMode = "all" -> PrintT("@@TR " \o ToJson(Beh'))
          [] EmitMode = "tofinal" -> (rpc' # "final" \/ PrintT("@@TR " \o ToJson(Beh')))
          [] OTHER -> TRUE

-----------------------------------------------------------------------------
(* WAL histories and series refs (cfg: Wal <- WalQuick etc.).               *)

X(s, k) == <<s, k>>
\* a (ref 1) and c (ref 3) share shard 1 of 2, b (ref 2) is on shard 0; d is dropped by relabelling
Refs4 == [s \in {"a", "b", "c", "d"} |-> CASE s = "a" -> 1 [] s = "b" -> 2 [] s = "c" -> 3 [] s = "d" -> 4]
TargetsOne == <<2>>
TargetsTwo == <<2, 1>>
TargetsThree == <<3, 1, 2>>
WalQuick == <<X("a", 1), X("b", 1), X("d", 1), X("a", 2), X("c", 1), X("a", 3)>>
WalBig   == <<X("a", 1), X("b", 1), X("c", 1), X("d", 1), X("a", 2), X("b", 2), X("a", 3), X("c", 2)>>
=============================================================================
