SPECIFICATION FairSpec
CONSTANTS
  Wal <- WalQuick
  RefOf <- Refs4
  Dropped = {"d"}
  BatchSize = 2
  ChanCap = 1
  InitShards = 2
  Targets <- TargetsTwo
  MaxRec = 1
  MaxFatal = 1
  Timer = "any"
  EmitMode = "none"
  Record = FALSE
  Eager = FALSE
  BatchBug = FALSE
INVARIANTS TypeOK PerSeriesOrder NoDup NoDropLeak Conservation ShardFifo Complete
PROPERTIES Terminates
CHECK_DEADLOCK FALSE
