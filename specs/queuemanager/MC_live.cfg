SPECIFICATION FairSpec
CONSTANTS
  Wal <- WalQuick
  RefOf <- Refs4
  Dropped = {"d"}
  BatchSize = 2
  ChanCap = 1
  InitShards = 2
  Targets <- TargetsOne
  MaxRec = 1
  MaxFatal = 1
  Timer = TRUE
  EmitMode = "none"
  Record = FALSE
INVARIANTS TypeOK
PROPERTIES Terminates
CHECK_DEADLOCK FALSE
