SPECIFICATION Spec
CONSTANTS
  Wal <- WalQuick
  RefOf <- Refs4
  Dropped = {"d"}
  BatchSize = 2
  ChanCap = 1
  InitShards = 2
  Targets <- TargetsTwo
  MaxRec = 1
  MaxFatal = 1
  Timer = "first"
  EmitMode = "state"
  Record = TRUE
  Eager = TRUE
  BatchBug = FALSE
VIEW View0
INVARIANTS TypeOK PerSeriesOrder NoDup NoDropLeak Conservation ShardFifo Complete EmitState EmitFinal
ACTION_CONSTRAINT Emit
CHECK_DEADLOCK FALSE
