SPECIFICATION Spec
CONSTANTS
  Series = {"a"}
  MaxT = 2
  Types = {"f", "h"}
  MaxBlocks = 2
  MaxSamples = 2
  MaxTombs = 0
  MaxOuts = 1
  MaxOps = 100
  Features = {}
  EmitMode = "all"
VIEW View
INVARIANTS TypeOK ContentPreserved NoEmptyBlocks
PROPERTIES CompactIsUnion
ACTION_CONSTRAINT Emit
CHECK_DEADLOCK FALSE
