----------------------------- MODULE Compaction -----------------------------
(***************************************************************************)
(* Content of persistent blocks under LeveledCompactor.Compact / Write     *)
(* (tsdb/compact.go: write, DefaultBlockPopulator.PopulateBlock;           *)
(* tsdb/querier.go: NewBlockChunkSeriesSet, populateWithDelChunkSeries-    *)
(* Iterator; storage/merge.go: NewMergeChunkSeriesSet, compacting merger). *)
(* Property C07.                                                           *)
(*                                                                         *)
(* A block is [id, mint, maxt, data, tombs]:                               *)
(*   data[s]  sequence of chunks, a chunk is a sequence of samples         *)
(*            [t, c] in strictly increasing time over the whole series;    *)
(*            c is the set of candidate values <<type, source block>> the  *)
(*            sample may have (singleton for a written block; after a      *)
(*            merge of several blocks holding the same timestamp any one   *)
(*            of them may have been kept -- the statement says             *)
(*            "de-duplicated", not which duplicate). All samples of a      *)
(*            chunk of a written block have the same type (one encoding).  *)
(*   tombs[s] set of closed intervals <<lo, hi>> deleted from series s     *)
(*                                                                         *)
(* Actions, one per step of writing / compacting:                          *)
(*   Begin(lo, hi)       a block writer is opened for [lo, hi)             *)
(*   Sample(s,t,ty,cut)  next sample of series s, in a new chunk if cut    *)
(*   Tomb(s, lo, hi)     Block.Delete on the block being prepared          *)
(*   Seal                the block is complete and on disk                 *)
(*   Compact(P)          LeveledCompactor.Compact of the sealed blocks P:  *)
(*                       replaced by their merge (tombstones applied)      *)
(*   WriteRange(b,lo,hi) LeveledCompactor.Write of the range [lo, hi) of   *)
(*                       block reader b (how a head range is persisted)    *)
(***************************************************************************)
EXTENDS Integers, Sequences, FiniteSets, TLC, Json

CONSTANTS Series,      \* set of strings
          MaxT,        \* time points 0..MaxT
          Types,       \* subset of {"f", "h", "fh"}
          MaxBlocks,   \* blocks written (not counting compaction outputs)
          MaxSamples,  \* samples per written block
          MaxTombs,    \* tombstone intervals per written block
          MaxOuts,     \* Compact / WriteRange operations
          MaxOps,      \* walk length (simulation)
          Features,    \* subset of {"range", "restage", "fullrange"} ("fullrange": every written block covers [0, MaxT+1))
          EmitMode     \* "all" | "none"

VARIABLES blocks,      \* sealed blocks on disk
          cur,         \* block being written, or None
          truth,       \* ghost: what a query over everything on disk must return: [Series -> [0..MaxT -> set of candidates]]
          nextId, nwritten, nouts, nops, hist

vars == <<blocks, cur, truth, nextId, nwritten, nouts, nops, hist>>
View == <<blocks, cur, nextId, nwritten, nouts>>

None == [id |-> 0]
Times == 0..MaxT
Range(q) == {q[i] : i \in 1..Len(q)}
Last(q) == q[Len(q)]

RECURSIVE Flatten(_)
Flatten(chs) == IF chs = <<>> THEN <<>> ELSE Head(chs) \o Flatten(Tail(chs))
SamplesOf(b, s) == Flatten(b.data[s])
Deleted(b, s, t) == \E iv \in b.tombs[s] : iv[1] <= t /\ t <= iv[2]

\* candidates a query of block b returns for (s, t): its sample there unless a tombstone covers it
Cand(b, s, t) ==
  LET X == {x \in Range(SamplesOf(b, s)) : x.t = t} IN
  IF X = {} \/ Deleted(b, s, t) THEN {} ELSE UNION {x.c : x \in X}

\* the de-duplicated union of the blocks B restricted to [lo, hi)
Union(B, lo, hi) ==
  [s \in Series |-> [t \in Times |-> IF t >= lo /\ t < hi THEN UNION {Cand(b, s, t) : b \in B} ELSE {}]]

Empty == [s \in Series |-> [t \in Times |-> {}]]
Join(a, b) == [s \in Series |-> [t \in Times |-> a[s][t] \cup b[s][t]]]

\* content as one chunk per series (the partition of an output is not fixed by the property)
RECURSIVE SeqOf(_, _, _)
SeqOf(m, s, t) == IF t > MaxT THEN <<>>
                  ELSE (IF m[s][t] = {} THEN <<>> ELSE <<[t |-> t, c |-> m[s][t]]>>) \o SeqOf(m, s, t + 1)
DataOf(m) == [s \in Series |-> LET q == SeqOf(m, s, 0) IN IF q = <<>> THEN <<>> ELSE <<q>>]
NSamples(m) == Cardinality({<<s, t>> \in Series \X Times : m[s][t] # {}})
NSeries(m) == Cardinality({s \in Series : \E t \in Times : m[s][t] # {}})

\* what the replay harness compares the real output block with
Want(m) == [series |-> [s \in Series |-> SeqOf(m, s, 0)], nsamples |-> NSamples(m), nseries |-> NSeries(m)]

Hull(B) == [lo |-> CHOOSE x \in {b.mint : b \in B} : \A b \in B : x <= b.mint,
            hi |-> CHOOSE x \in {b.maxt : b \in B} : \A b \in B : x >= b.maxt]

RECURSIVE SortByMint(_)
SortByMint(B) == IF B = {} THEN <<>>
                 ELSE LET m == CHOOSE x \in B : \A y \in B \ {x} : x.mint < y.mint \/ (x.mint = y.mint /\ x.id < y.id)
                      IN <<m>> \o SortByMint(B \ {m})

-----------------------------------------------------------------------------
Init == /\ blocks = {} /\ cur = None
        /\ truth = Empty
        /\ nextId = 1 /\ nwritten = 0 /\ nouts = 0 /\ nops = 0
        /\ hist = <<>>

Step(rec) == /\ nops' = nops + 1
             /\ hist' = Append(hist, rec)

Begin(lo, hi) ==
  /\ cur = None /\ nwritten < MaxBlocks /\ lo < hi
  /\ "fullrange" \in Features => (lo = 0 /\ hi = MaxT + 1)
  /\ cur' = [id |-> nextId, mint |-> lo, maxt |-> hi,
             data |-> [s \in Series |-> <<>>], tombs |-> [s \in Series |-> {}]]
  /\ nextId' = nextId + 1 /\ nwritten' = nwritten + 1
  /\ Step([a |-> "Begin", id |-> nextId, lo |-> lo, hi |-> hi])
  /\ UNCHANGED <<blocks, truth, nouts>>

NCur(b) == Cardinality({<<s, i>> \in Series \X (1..MaxSamples) : i <= Len(SamplesOf(b, s))})
Sample(s, t, ty, cut) ==
  /\ cur # None /\ NCur(cur) < MaxSamples
  /\ t >= cur.mint /\ t < cur.maxt
  /\ LET q == SamplesOf(cur, s)
         x == [t |-> t, c |-> {<<ty, cur.id>>}] IN
     /\ (IF q = <<>> THEN TRUE ELSE Last(q).t < t)                                 \* strictly increasing within the series
     /\ cur.tombs[s] = {}                                           \* Delete comes after the data
     /\ IF cur.data[s] = <<>> \/ cut
        THEN /\ cur.data[s] = <<>> => cut
             /\ cur' = [cur EXCEPT !.data[s] = Append(@, <<x>>)]
        ELSE /\ \A y \in Range(Last(cur.data[s])) : \A v \in y.c : v[1] = ty   \* one encoding per chunk
             /\ cur' = [cur EXCEPT !.data[s][Len(cur.data[s])] = Append(@, x)]
  /\ Step([a |-> "Sample", s |-> s, t |-> t, ty |-> ty, cut |-> cut])
  /\ UNCHANGED <<blocks, truth, nextId, nwritten, nouts>>

NTombs(b) == Cardinality(UNION {{<<s, iv>> : iv \in b.tombs[s]} : s \in Series})
Tomb(s, lo, hi) ==
  /\ cur # None /\ cur.data[s] # <<>> /\ NTombs(cur) < MaxTombs /\ lo <= hi
  /\ 2 * NCur(cur) >= MaxSamples              \* (keeps random walks from deleting before there is data)
  /\ <<lo, hi>> \notin cur.tombs[s]
  /\ cur' = [cur EXCEPT !.tombs[s] = @ \cup {<<lo, hi>>}]
  /\ Step([a |-> "Tomb", s |-> s, lo |-> lo, hi |-> hi])
  /\ UNCHANGED <<blocks, truth, nextId, nwritten, nouts>>

Seal ==
  /\ cur # None /\ \E s \in Series : cur.data[s] # <<>>
  /\ blocks' = blocks \cup {cur}
  /\ truth' = Join(truth, Union({cur}, cur.mint, cur.maxt))
  /\ cur' = None
  /\ Step([a |-> "Seal", id |-> cur.id])
  /\ UNCHANGED <<nextId, nwritten, nouts>>

\* LeveledCompactor.Compact(dest, dirs of P in MinTime order): output range = hull, content = union
Compact(P) ==
  /\ cur = None /\ P # {} /\ P \subseteq blocks /\ nouts < MaxOuts
  /\ (Cardinality(P) > 1 \/ "restage" \in Features \/ \E b \in P, s \in Series : b.tombs[s] # {}) = TRUE
  /\ LET h == Hull(P)
         m == Union(P, h.lo, h.hi)
         o == [id |-> nextId, mint |-> h.lo, maxt |-> h.hi, data |-> DataOf(m), tombs |-> [s \in Series |-> {}]]
         gone == NSamples(m) = 0 IN
     /\ blocks' = (blocks \ P) \cup (IF gone THEN {} ELSE {o})
     /\ Step([a |-> "Compact", ids |-> [i \in 1..Cardinality(P) |-> SortByMint(P)[i].id], out |-> nextId,
              lo |-> h.lo, hi |-> h.hi, gone |-> gone, want |-> Want(m)])
  /\ nextId' = nextId + 1 /\ nouts' = nouts + 1
  /\ UNCHANGED <<cur, truth, nwritten>>

\* LeveledCompactor.Write(dest, reader of b, lo, hi): persists the sub-range [lo, hi) of one reader
\* (RangeHead in DB.compactHead); the source stays, so the written block duplicates part of it
WriteRange(b, lo, hi) ==
  /\ "range" \in Features /\ cur = None /\ b \in blocks /\ lo < hi /\ nouts < MaxOuts
  /\ LET m == Union({b}, lo, hi)
         o == [id |-> nextId, mint |-> lo, maxt |-> hi, data |-> DataOf(m), tombs |-> [s \in Series |-> {}]]
         gone == NSamples(m) = 0 IN
     /\ blocks' = blocks \cup (IF gone THEN {} ELSE {o})
     /\ Step([a |-> "WriteRange", id |-> b.id, out |-> nextId, lo |-> lo, hi |-> hi, gone |-> gone, want |-> Want(m)])
  /\ nextId' = nextId + 1 /\ nouts' = nouts + 1
  /\ UNCHANGED <<cur, truth, nwritten>>

\* a walk ends after MaxOps steps or when nothing is left to do
Exhausted == cur = None /\ nwritten = MaxBlocks /\ (nouts = MaxOuts \/ blocks = {})
End == (nops = MaxOps \/ (nops < MaxOps /\ Exhausted)) /\ nops' = MaxOps + 1 /\ UNCHANGED <<blocks, cur, truth, nextId, nwritten, nouts, hist>>

Next == \/ /\ nops < MaxOps
           /\ \/ \E lo, hi \in 0..(MaxT + 1) : Begin(lo, hi)
              \/ \E s \in Series, t \in Times, ty \in Types, cut \in BOOLEAN : Sample(s, t, ty, cut)
              \/ \E s \in Series, lo, hi \in Times : Tomb(s, lo, hi)
              \/ Seal
              \/ \E P \in SUBSET blocks : Compact(P)
              \/ \E b \in blocks, dl, dh \in 0..2 : WriteRange(b, b.mint + dl, b.maxt - dh)
        \/ End

Spec == Init /\ [][Next]_vars

-----------------------------------------------------------------------------
(* C07 on the design                                                        *)

WellFormed(b) ==
  /\ b.mint < b.maxt
  /\ \A s \in Series :
       LET q == SamplesOf(b, s) IN
       /\ \A i \in 1..Len(q) : q[i].t >= b.mint /\ q[i].t < b.maxt /\ q[i].c # {}
       /\ \A i \in 1..(Len(q) - 1) : q[i].t < q[i + 1].t           \* chunks time-ordered and non-overlapping
       /\ \A k \in 1..Len(b.data[s]) : b.data[s][k] # <<>>
TypeOK == (\A b \in blocks : WellFormed(b)) /\ (cur = None \/ WellFormed(cur))

\* whatever is compacted or re-written, a query over all blocks returns the same samples
ContentPreserved == Union(blocks, 0, MaxT + 1) = truth

\* one compaction of P: the output holds exactly the union of its inputs inside the output range
CompactIsUnion ==
  [][(hist' # hist /\ Last(hist').a = "Compact") =>
       LET P == blocks \ blocks'
           O == blocks' \ blocks IN
       /\ Union(O, 0, MaxT + 1) = Union(P, 0, MaxT + 1)
       /\ \A o \in O : \A s \in Series : o.tombs[s] = {}]_vars

\* a block is never emptied of a series that still has live samples, and an empty output is not written
NoEmptyBlocks == \A b \in blocks : \E s \in Series : b.data[s] # <<>>

-----------------------------------------------------------------------------
(* Emission                                                                 *)

\* coverage class of a Compact / WriteRange transition
Class ==
  LET st == Last(hist') IN
  IF st.a = "Compact" THEN
    LET P == blocks \ blocks'
        ov == \E a, b \in P : a # b /\ a.mint < b.maxt /\ b.mint < a.maxt
        dup == \E a, b \in P, s \in Series, t \in Times : a # b /\ Cand(a, s, t) # {} /\ Cand(b, s, t) # {}
        mix == \E a, b \in P, s \in Series, t \in Times : a # b /\ Cand(a, s, t) # {} /\ Cand(b, s, t) # {}
                                                           /\ Cand(a, s, t) # Cand(b, s, t)
                                                           /\ {v[1] : v \in Cand(a, s, t)} # {v[1] : v \in Cand(b, s, t)}
        tomb == Cardinality({b \in P : \E s \in Series : b.tombs[s] # {}})
        staged == \E b \in P : b.id > MaxBlocks \/ \E s \in Series : \E x \in Range(SamplesOf(b, s)) : Cardinality(x.c) > 1
        \* layout relation between a chunk of one input and a chunk of another input of the same series:
        \* same first and last timestamp, same encoding, same number of samples (>= 3) -- "twins" by their
        \* headers -- with different interior timestamps ("points") or the same timestamps (then the payloads
        \* still differ, every value names its source block) ("values"). The compacting merger's
        \* perfect-duplicate shortcut must compare payloads, not headers.
        Ts(ch) == {x.t : x \in Range(ch)}
        Enc(ch) == {v[1] : v \in UNION {x.c : x \in Range(ch)}}
        TwinHdr(c1, c2) == /\ Len(c1) = Len(c2) /\ Len(c1) >= 3 /\ c1[1].t = c2[1].t /\ Last(c1).t = Last(c2).t
                           /\ Enc(c1) = Enc(c2)
        twin == IF \E a, b \in P, s \in Series : a # b /\ \E i \in 1..Len(a.data[s]), j \in 1..Len(b.data[s]) :
                      TwinHdr(a.data[s][i], b.data[s][j]) /\ Ts(a.data[s][i]) # Ts(b.data[s][j]) THEN "points"
                ELSE IF \E a, b \in P, s \in Series : a # b /\ \E i \in 1..Len(a.data[s]), j \in 1..Len(b.data[s]) :
                      TwinHdr(a.data[s][i], b.data[s][j]) THEN "values" ELSE "no" IN
    <<"Compact", Cardinality(P), ov, dup, mix, tomb, staged, st.gone, st.want.nseries, twin,
      Cardinality(UNION {{v[1] : v \in UNION {Cand(b, s, t) : s \in Series, t \in Times}} : b \in P}),
      \* a tombstone that cuts a chunk in the middle / removes a whole series
      \E b \in P, s \in Series : \E k \in 1..Len(b.data[s]) :
          \E x, y \in Range(b.data[s][k]) : Deleted(b, s, x.t) /\ ~Deleted(b, s, y.t),
      \E b \in P, s \in Series : b.data[s] # <<>> /\ \A x \in Range(SamplesOf(b, s)) : Deleted(b, s, x.t)>>
  ELSE
    LET b == CHOOSE x \in blocks : x.id = st.id IN
    <<"WriteRange", st.gone, st.lo <= b.mint, st.hi >= b.maxt,
      \* the range boundary falls inside a chunk
      \E s \in Series : \E k \in 1..Len(b.data[s]) :
          \E x, y \in Range(b.data[s][k]) : (x.t < st.lo /\ y.t >= st.lo) \/ (x.t < st.hi /\ y.t >= st.hi),
      \E s \in Series : \E x \in Range(SamplesOf(b, s)) : x.t = st.hi - 1,
      \E s \in Series : \E x \in Range(SamplesOf(b, s)) : x.t = st.hi>>

Emit ==
  CASE EmitMode = "none" -> TRUE
    [] hist' = hist -> TRUE
    [] OTHER -> Last(hist').a \notin {"Compact", "WriteRange"}
                \/ PrintT("@@TR " \o ToJson([cl |-> Class, h |-> hist']))

EmitWalk == nops <= MaxOps \/ PrintT("@@TR " \o ToJson([cl |-> <<"walk">>, h |-> hist]))
=============================================================================
