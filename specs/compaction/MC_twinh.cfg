SPECIFICATION Spec
CONSTANTS
  Series = {"a"}
  MaxT = 3
  Types = {"h"}
  MaxBlocks = 2
  MaxSamples = 3
  MaxTombs = 0
  MaxOuts = 1
  MaxOps = 100
  Features = {"fullrange"}
  EmitMode = "all"
VIEW View
INVARIANTS TypeOK ContentPreserved NoEmptyBlocks
PROPERTIES CompactIsUnion
ACTION_CONSTRAINT Emit
CHECK_DEADLOCK FALSE
