SPECIFICATION Spec
CONSTANTS
  Series = {"a"}
  MaxT = 2
  Types = {"f", "h"}
  MaxBlocks = 1
  MaxSamples = 3
  MaxTombs = 1
  MaxOuts = 1
  MaxOps = 100
  Features = {"range"}
  EmitMode = "all"
VIEW View
INVARIANTS TypeOK ContentPreserved NoEmptyBlocks
PROPERTIES CompactIsUnion
ACTION_CONSTRAINT Emit
CHECK_DEADLOCK FALSE
