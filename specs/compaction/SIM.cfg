SPECIFICATION Spec
CONSTANTS
  Series = {"a", "b"}
  MaxT = 5
  Types = {"f", "h", "fh"}
  MaxBlocks = 4
  MaxSamples = 7
  MaxTombs = 2
  MaxOuts = 3
  Features = {"range", "restage"}
  EmitMode = "none"
INVARIANTS EmitWalk
CHECK_DEADLOCK FALSE
