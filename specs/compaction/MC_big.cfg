SPECIFICATION Spec
CONSTANTS
  Series = {"a"}
  MaxT = 2
  Types = {"f", "h"}
  MaxBlocks = 2
  MaxSamples = 2
  MaxTombs = 1
  MaxOuts = 1
  MaxOps = 100
  Features = {"range"}
  EmitMode = "none"
VIEW View
INVARIANTS TypeOK ContentPreserved NoEmptyBlocks
PROPERTIES CompactIsUnion
CHECK_DEADLOCK FALSE
