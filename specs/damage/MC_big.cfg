SPECIFICATION DSpec
CONSTANTS
  Series = {"s1", "s2"}
  TOff = 0
  TimesRaw = {1, 3, 5, 9}
  Vals = {1}
  Types = {"f"}
  Apps = {"a1"}
  R = 4
  W = 5
  OOOCap = 2
  Acts = {"NewAppender", "Append", "Commit", "Delete", "Compact", "CompactOOO", "Reopen"}
  Apis = {"v1"}
  Rej = {FALSE}
  DelLo = {0}
  DelHi = {3}
  MaxPend = 2
  AllowKF = {}
  KFInitOpts = TRUE
  KFV1Hist = TRUE
  MaxOps = 7
  Balanced = FALSE
  EmitMode = "none"
  BigSeries = {"s2"}
  ScriptName = "free"
  MaxCrashes = 0
  CAllowKF = {}
  CrashOdds = 1
  RecOdds = 1
  CEmit = "none"
VIEW DView
INVARIANTS NeverInvents Undamaged BlocksSafe FilesAgree BlocksAgree
CHECK_DEADLOCK FALSE
