------------------------------- MODULE Damage -------------------------------
(***************************************************************************)
(* Damaged on-disk data never yields wrong samples (property C04).         *)
(*                                                                         *)
(* Extends Crash.tla: the same workloads (Db.tla calls) and the same model *)
(* of the files they leave (WAL / WBL segments as lists of records, the    *)
(* newest checkpoint, blocks).  After a workload the database is closed    *)
(* cleanly (`CloseDB`) and one of the files                                *)
(*   "wal"  newest non-empty WAL segment                                   *)
(*   "wbl"  newest non-empty WBL segment                                   *)
(*   "cp"   segment of the newest checkpoint                               *)
(*   "hc"   newest head-chunk file (opaque: a redundant copy of log data)  *)
(* is damaged at one byte or truncated.  The byte-class view: a log file   *)
(* is a sequence of records, each framed as                                *)
(*   type(1) len(2) crc(4) payload(len)   [wlog.WL.log, Reader.nextNew]    *)
(* (a record larger than a page has two such fragments), followed by zero  *)
(* padding up to the page boundary.  `Eff` says for every region class and *)
(* damage kind whether the record containing the byte is unreadable        *)
(* ("cut": the log ends before that record: CRC, length, type or torn-tail *)
(* checks of wlog.Reader) or unaffected ("none": the three unallocated     *)
(* bits of the type byte, padding).  `Damage` hands the harness, for every *)
(* file and every k, the contents the property demands when the log ends   *)
(* before its k-th record:                                                 *)
(*   must  blocks + every log replayed to its first damaged record         *)
(*         (undamaged logs in full)                                        *)
(*   may   must + whatever the intact head chunks hold (at most what was   *)
(*         written and not deleted)                                        *)
(*   exp   what the code is known to return when it repairs the WAL: the   *)
(*         WBL is not replayed in that session (KF-C03-1 = H3)             *)
(* The harness enumerates the concrete byte offsets of every class in the  *)
(* real files, damages a copy, reopens and compares.                       *)
(***************************************************************************)
EXTENDS Crash

VARIABLES dstate,    \* "open" | "closed" | "damaged"
          ever       \* ghost: [Series -> SUBSET Sample] every sample ever committed (deleted ones included)

dvars == <<cvars, dstate, ever>>
DView == <<CView, dstate, ever>>

\* region classes of a byte inside a record fragment (or after the last record) and damage kinds
Regions == {"type.lo", "type.hi", "len", "crc", "payload", "pad"}
DKinds == {"trunc", "flip", "zero"}
\* "cut": wlog.Reader cannot return the record holding the byte, replay of that file stops before it
\* (recTypeFromHeader masks the three high bits, the CRC covers the payload only; padding must be zero up to the page end:
\*  a flipped padding byte is a corruption *after* the last record, nothing is lost)
Eff(region, kind) ==
  CASE kind = "trunc" /\ region = "pad" -> "none"
    [] kind = "trunc" -> "cut"                       \* the file ends inside the record (or exactly before it)
    [] region = "type.hi" -> "none"
    [] region = "pad" -> "none"
    [] OTHER -> "cut"
EffTable == {[region |-> r, kind |-> k, eff |-> Eff(r, k)] : r \in Regions, k \in DKinds}

-----------------------------------------------------------------------------
\* index (in segs) of the newest segment holding records, 0 if none
NewestWritten(lg) == LET I == {i \in 1..Len(lg.segs) : lg.segs[i].recs # <<>>} IN IF I = {} THEN 0 ELSE SetMax(I)

\* files with the log `l` ending before the k-th record of its newest written segment (later segments are empty)
CutLog(f, l, k) ==
  LET lg == LogOf(f, l)  j == NewestWritten(lg) IN
  IF j = 0 THEN f
  ELSE WithLog(f, l, [lg EXCEPT !.segs = [i \in 1..Len(lg.segs) |->
                        IF i = j THEN [lg.segs[i] EXCEPT !.recs = SubSeq(@, 1, k - 1)]
                        ELSE IF i > j THEN EmptySeg ELSE lg.segs[i]]])
NRecs(f, l) == LET lg == LogOf(f, l)  j == NewestWritten(lg) IN IF j = 0 THEN 0 ELSE Len(lg.segs[j].recs)

\* the newest checkpoint ending before its k-th record; nothing of the WAL after the checkpoint is replayed then
\* (Head.Init treats a damaged checkpoint as a hard error; the property lets the open fail or stop the log there)
CutCp(f, k) ==
  IF f.cps = {} THEN f
  ELSE LET c == LastCp(f.cps) IN
       [f EXCEPT !.cps = (@ \ {c}) \cup {[idx |-> c.idx, recs |-> SubSeq(c.recs, 1, k - 1)]},
                 !.wal = [first |-> c.idx + 1, segs |-> <<EmptySeg>>]]
NCp(f) == IF f.cps = {} THEN 0 ELSE Len(LastCp(f.cps).recs)

Pred(f, repaired) ==
  [must |-> ExpAll(Recovered(f)),
   exp  |-> ExpAll(RecoveredT(f, repaired)),
   may  |-> ExpAll(ever)]           \* cutting the log before a tombstone record legitimately brings deleted samples back

\* kinds of the records of a file, for the harness to check that it looks at the same records as the model
RecKinds(rs) == [i \in 1..Len(rs) |-> rs[i].k]
KindsOf(f, l) == LET lg == LogOf(f, l)  j == NewestWritten(lg) IN IF j = 0 THEN <<>> ELSE RecKinds(lg.segs[j].recs)

DamageRec ==
  LET f == Files IN
  [a |-> "Damage",
   eff |-> SetToSeq(EffTable),
   wal |-> [kinds |-> KindsOf(f, "wal"), seg |-> (IF NewestWritten(f.wal) = 0 THEN -1 ELSE f.wal.first + NewestWritten(f.wal) - 1),
            cut |-> [k \in 1..(NRecs(f, "wal") + 1) |-> Pred(CutLog(f, "wal", k), k <= NRecs(f, "wal"))]],
   wbl |-> [kinds |-> KindsOf(f, "wbl"), seg |-> (IF NewestWritten(f.wbl) = 0 THEN -1 ELSE f.wbl.first + NewestWritten(f.wbl) - 1),
            cut |-> [k \in 1..(NRecs(f, "wbl") + 1) |-> Pred(CutLog(f, "wbl", k), FALSE)]],
   cp  |-> [kinds |-> IF f.cps = {} THEN <<>> ELSE RecKinds(LastCp(f.cps).recs), seg |-> (IF f.cps = {} THEN -1 ELSE LastCp(f.cps).idx),
            cut |-> [k \in 1..(NCp(f) + 1) |-> Pred(CutCp(f, k), FALSE)]],
   hc  |-> Pred(f, FALSE)]

-----------------------------------------------------------------------------
DInit == CInit /\ dstate = "open" /\ ever = [s \in Series |-> {}]

\* DB.Close at the end of the workload
CloseDB ==
  /\ dstate = "open" /\ pc = "idle" /\ NoOpenApp
  /\ (IF Script = <<>> THEN nops = MaxOps ELSE nops = Len(Script))
  /\ dstate' = "closed"
  /\ hist' = Append(hist, [a |-> "Close", exp |-> ExpAll(stored)])
  /\ UNCHANGED <<dbvars, nops, fvars, mvars, pc, prog, nstep, gvars, trace, ever>>

\* one byte of one file is changed or the file is truncated; the table of what each class must give is emitted
Damage ==
  /\ dstate = "closed"
  /\ dstate' = "damaged"
  /\ hist' = Append(hist, DamageRec)
  /\ UNCHANGED <<dbvars, nops, fvars, mvars, pc, prog, nstep, gvars, trace, ever>>

DNext == \/ /\ dstate = "open" /\ pc # "done" /\ CNext /\ pc' # "done" /\ UNCHANGED dstate
            /\ ever' = [s \in Series |-> ever[s] \cup stored'[s]]
         \/ CloseDB
         \/ Damage
DSpec == DInit /\ [][DNext]_dvars

-----------------------------------------------------------------------------
(* Properties, checked by TLC on every closed database the workloads reach *)

SubC(A, B) == \A s \in Series : TKey(A[s]) \subseteq TKey(B[s]) /\ VKey(A[s]) \subseteq VKey(B[s])

\* damage never produces samples that were not written, whatever record the log ends before
NeverInvents ==
  dstate = "closed" /\ ckf = {} =>
    LET f == Files IN
    /\ \A k \in 1..(NRecs(f, "wal") + 1) : SubC(Recovered(CutLog(f, "wal", k)), ever)
    /\ \A k \in 1..(NRecs(f, "wbl") + 1) : SubC(Recovered(CutLog(f, "wbl", k)), ever)
    /\ \A k \in 1..(NCp(f) + 1) : SubC(Recovered(CutCp(f, k)), ever)
\* an undamaged directory gives exactly what was written; a longer intact prefix never gives less
\* (except through deletions: a tombstone record that survives removes samples)
Undamaged ==
  dstate = "closed" /\ ckf = {} /\ kfset = {} =>
    LET f == Files IN
    /\ SubC(stored, Recovered(CutLog(f, "wal", NRecs(f, "wal") + 1)))
    /\ SubC(stored, Recovered(CutLog(f, "wbl", NRecs(f, "wbl") + 1)))
\* losing the tail of the WBL only loses out-of-order samples, losing the tail of the WAL never loses block data
BlocksSafe ==
  dstate = "closed" /\ ckf = {} =>
    \A k \in 1..(NRecs(Files, "wal") + 1) : \A s \in Series : BlkOf(blks, s) \subseteq Recovered(CutLog(Files, "wal", k))[s]

-----------------------------------------------------------------------------
DEmitAC == \/ CEmit = "none" \/ hist' = hist \/ hist'[Len(hist')].a # "Damage"
           \/ PrintT("@@TR " \o ToJson(hist'))
DEmitWalk == CEmit # "walk" \/ dstate # "damaged" \/ PrintT("@@TR " \o ToJson(hist))
=============================================================================
