SPECIFICATION Spec
CONSTANTS
  Series = {"a", "b"}
  MaxSamples = 4
  Gaps = {1, 2, 3, 4}
  FirstT <- Neg3
  MaxT = 9
  Kinds = {"f", "f", "n", "i", "sf", "h", "sh"}
  RunGaps = {}
  RunLens = {}
  MaxRuns = 0
  Sels <- SelsAB
  Offs <- OffsBig
  Ats <- AtsBig
  Ranges = {1, 2, 3, 5}
  Funcs = {"count_over_time", "last_over_time", "first_over_time", "present_over_time"}
  TsFuncs = {"timestamp"}
  SqRanges = {2, 4, 6}
  SqSteps = {0, 1, 2, 3}
  SqOffs <- SqOffsBig
  SqAts <- AtsBig
  EvalTimes = {3, 5, 6, 8}
  Lookbacks = {1, 3, 4}
  DefStep = 2
  MaxWraps = 4
  EmitMode = "none"
INVARIANTS TypeOK RefWellFormed ImplAgrees KnownDeviationsOnly EmitWalk
CHECK_DEADLOCK FALSE
