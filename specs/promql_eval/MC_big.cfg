SPECIFICATION Spec
CONSTANTS
  Series = {"a"}
  MaxSamples = 3
  Gaps = {1, 2, 3}
  FirstT = 0
  MaxT = 5
  Kinds = {"f", "sf", "h", "sh"}
  RunGaps = {}
  RunLens = {}
  MaxRuns = 0
  Sels <- SelsA
  Offs <- OffsQuick
  Ats <- AtsQuick
  Ranges = {2, 3}
  Funcs = {"count_over_time", "last_over_time"}
  TsFuncs = {"timestamp"}
  SqRanges = {4}
  SqSteps = {3}
  SqOffs <- SqOffsSub
  SqAts <- AtsSub
  EvalTimes = {5, 6}
  Lookbacks = {3}
  DefStep = 2
  MaxWraps = 3
  EmitMode = "none"
VIEW View
INVARIANTS TypeOK RefWellFormed ImplAgrees KnownDeviationsOnly
CHECK_DEADLOCK FALSE
