SPECIFICATION Spec
CONSTANTS
  Series = {"a"}
  MaxSamples = 3
  Gaps = {1, 2, 3}
  FirstT <- Neg2
  MaxT = 5
  Kinds = {"f", "sf", "h", "sh"}
  Sels <- SelsA
  Offs <- OffsQuick
  Ats <- AtsMid
  Ranges = {2, 3}
  Funcs = {"count_over_time", "last_over_time"}
  SqRanges = {4}
  SqSteps = {0, 3}
  SqOffs <- SqOffsBig
  SqAts <- AtsMid
  EvalTimes = {4, 5}
  Lookbacks = {3}
  DefStep = 2
  MaxWraps = 3
  EmitMode = "none"
VIEW View
INVARIANTS TypeOK RefWellFormed ImplAgrees KnownDeviationsOnly
CHECK_DEADLOCK FALSE
