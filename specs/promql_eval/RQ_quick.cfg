SPECIFICATION Spec
CONSTANTS
  Series = {"a"}
  MaxSamples = 3
  Gaps = {1, 2, 3}
  FirstT = 0
  MaxT = 4
  Kinds = {"f", "sf", "h"}
  RunGaps = {}
  RunLens = {}
  MaxRuns = 0
  Sels <- SelsA
  Offs = {0}
  Ats <- AtsQuick
  Ranges = {2}
  Funcs = {"count_over_time"}
  TsFuncs = {"timestamp"}
  SqRanges = {4}
  SqSteps = {2}
  SqOffs <- SqOffsSub
  SqAts <- AtsNone
  MaxWraps = 2
  Starts = {2}
  StepSizes = {1, 3}
  NSteps = {3}
  Slacks = {0}
  OffTimes = {5}
  OffDs <- OffDsQuick
  Lookbacks = {3}
  DefStep = 2
  EmitMode = "all"
VIEW View
INVARIANTS TypeOK RangeEqualsInstants OffsetLaw KnownDeviationsOnly
ACTION_CONSTRAINT Emit
CHECK_DEADLOCK FALSE
