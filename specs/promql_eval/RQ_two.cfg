SPECIFICATION Spec
CONSTANTS
  Series = {"a", "b"}
  MaxSamples = 2
  Gaps = {2, 3}
  FirstT = 0
  MaxT = 5
  Kinds = {"f", "sf"}
  RunGaps = {}
  RunLens = {}
  MaxRuns = 0
  Sels <- SelsBoth
  Offs = {0}
  Ats <- AtsNone
  Ranges = {3}
  Funcs = {"last_over_time"}
  TsFuncs = {}
  SqRanges = {4}
  SqSteps = {2}
  SqOffs = {0}
  SqAts <- AtsNone
  MaxWraps = 2
  Starts = {2}
  StepSizes = {2}
  NSteps = {2}
  Slacks = {0}
  OffTimes = {5}
  OffDs = {1}
  Lookbacks = {3}
  DefStep = 2
  EmitMode = "all"
VIEW View
INVARIANTS TypeOK RangeEqualsInstants OffsetLaw KnownDeviationsOnly
ACTION_CONSTRAINT Emit
CHECK_DEADLOCK FALSE
