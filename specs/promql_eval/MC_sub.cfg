SPECIFICATION Spec
CONSTANTS
  Series = {"a"}
  MaxSamples = 2
  Gaps = {1, 2, 3}
  FirstT = 0
  MaxT = 4
  Kinds = {"f", "sf", "h", "n"}
  RunGaps = {}
  RunLens = {}
  MaxRuns = 0
  Sels <- SelsA
  Offs = {0, 1}
  Ats <- AtsNone
  Ranges = {2}
  Funcs = {"count_over_time", "last_over_time"}
  TsFuncs = {}
  SqRanges = {4}
  SqSteps = {1}
  SqOffs <- SqOffsSub
  SqAts <- AtsSub
  EvalTimes = {5}
  Lookbacks = {3}
  DefStep = 2
  MaxWraps = 3
  EmitMode = "all"
VIEW View
INVARIANTS TypeOK RefWellFormed ImplAgrees KnownDeviationsOnly
ACTION_CONSTRAINT Emit
CHECK_DEADLOCK FALSE
