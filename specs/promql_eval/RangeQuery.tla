----------------------------- MODULE RangeQuery -----------------------------
(***************************************************************************)
(* C27 - a range query equals instant queries at each step; an instant     *)
(* query with `offset d` at t equals the query without the offset at t-d.  *)
(*                                                                         *)
(* Builder.tla fills a store and builds a vector-typed expression; this    *)
(* module adds                                                             *)
(*   EvaluateRange(qs,n,step,slack,lb)  Engine.NewRangeQuery(start = qs,   *)
(*        end = qs + n*step + slack, interval = step) -- slack > 0 makes   *)
(*        the end not step-aligned (subqueryTimeRange's parentEnd)         *)
(*   EvaluateOffset(t,d,lb)             the two instant queries of the     *)
(*        offset law                                                       *)
(*   Finish                             Query.Exec: predictions            *)
(* REFERENCE (PromqlEval): RangeEval(e, qs, qe, step)[k] = Eval(e, qs +    *)
(* k*step) by definition, so the predicted matrix is at the same time the  *)
(* prediction for the range query and for the instant queries.             *)
(* IMPLEMENTATION (PromqlEngine): ImplRangeQuery evaluates all steps in    *)
(* one pass like the Go code - one memoized iterator per series walked     *)
(* across the steps (evalSeries), matrixIterSlice re-using the previous    *)
(* step's window and ReduceDelta on the buffered iterator, the subquery    *)
(* computed once for the whole range, step-invariant sub-expressions       *)
(* evaluated once and duplicated.  TLC checks that this one-pass           *)
(* evaluation, and the per-step ImplInstantQuery, both equal the reference *)
(* (RangeEqualsInstants) once the two proposed repairs are applied, and    *)
(* labels the cases the known deviations change.  The harness compares the *)
(* real range query with the real instant queries (the property) and with  *)
(* the prediction (second oracle).                                         *)
(***************************************************************************)
EXTENDS Builder, TLC, Json

CONSTANTS Starts,      \* range query start times
          StepSizes,   \* range query intervals
          NSteps,      \* number of intervals between start and end
          Slacks,      \* extra milliseconds added to the end (0 = aligned)
          OffTimes,    \* evaluation times of the offset-law cases
          OffDs,       \* offsets d of the offset-law cases
          Lookbacks, DefStep,
          EmitMode     \* "all" | "none"

VARIABLES rq, res

vars == <<store, expr, stage, nwr, nruns, rq, res>>
View == <<store, expr, stage, rq>>

Init == BuildInit /\ rq = None /\ res = None

EvaluateRange(qs, n, step, slack, lb) ==
  /\ stage = "query" /\ expr # None /\ ExprType(expr) = "vector"
  /\ slack < step
  /\ stage' = "eval"
  /\ rq' = [k |-> "range", qs |-> qs, qe |-> qs + n * step + slack, step |-> step, lb |-> lb]
  /\ UNCHANGED <<store, expr, nwr, nruns, res>>

\* offset law: only for queries without @ and without functions of the evaluation time
\* (timestamp() of anything but a bare selector returns the evaluation time)
Offsetable(e) ==
  /\ ~HasAt(e)
  /\ \/ e.k = "vs"
     \/ e.k = "call" /\ e.f = "timestamp" /\ e.arg.k = "vs"
     \/ e.k = "call" /\ e.f # "timestamp"

\* the same query with `offset d` added at its outermost selector / subquery
AddOffset(e, d) ==
  CASE e.k = "vs" -> [e EXCEPT !.off = @ + d]
    [] e.k = "call" /\ e.arg.k = "vs" -> [e EXCEPT !.arg.off = @ + d]
    [] e.k = "call" /\ e.arg.k = "ms" -> [e EXCEPT !.arg.vs.off = @ + d]
    [] e.k = "call" /\ e.arg.k = "sq" -> [e EXCEPT !.arg.off = @ + d]

EvaluateOffset(t, d, lb) ==
  /\ stage = "query" /\ expr # None /\ ExprType(expr) = "vector" /\ Offsetable(expr)
  /\ stage' = "eval"
  /\ rq' = [k |-> "offset", t |-> t, d |-> d, lb |-> lb]
  /\ UNCHANGED <<store, expr, nwr, nruns, res>>

-----------------------------------------------------------------------------
Ser == DOMAIN store
\* the per-step values of a vector expression, regrouped as a matrix
Regroup(seq) == [s \in Ser |-> Flatten([i \in 1..Len(seq) |-> seq[i][s]])]

RefMatrix == Regroup(RangeEval(store, expr, rq.qs, rq.qe, rq.step, rq.lb, DefStep))

\* the engine's one-pass range evaluation / its instant evaluation at every step
ImplRange(fix) == ImplRangeQuery(store, expr, rq.qs, rq.qe, rq.step, rq.lb, DefStep, fix)
ImplInstants(fix) ==
  LET ts == RangeSteps(rq.qs, rq.qe, rq.step) IN
  Regroup([i \in 1..Len(ts) |-> ImplInstantQuery(store, expr, ts[i], rq.lb, DefStep, fix)])

Shift(m, d) == [s \in Ser |-> [i \in 1..Len(m[s]) |-> [m[s][i] EXCEPT !.t = @ + d]]]

Finish ==
  /\ stage = "eval"
  /\ stage' = "done"
  /\ IF rq.k = "range"
     THEN LET ref == RefMatrix
              asIsR == ImplRange({})
              asIsI == ImplInstants({})
              good(fix) == ImplRange(fix) = ref /\ ImplInstants(fix) = ref
              kf == IF asIsR = ref /\ asIsI = ref THEN ""
                    ELSE IF good({"kf1"}) THEN "kf1"
                    ELSE IF good({"kf2"}) THEN "kf2" ELSE "kf1+kf2"
          IN res' = [k |-> "range", store |-> store, q |-> expr, qs |-> rq.qs, qe |-> rq.qe, step |-> rq.step,
                     lb |-> rq.lb, ds |-> DefStep,
                     out |-> ref,
                     ok |-> good(AllFixes),
                     kf |-> kf,
                     implr |-> IF kf = "" THEN <<>> ELSE asIsR,
                     impli |-> IF kf = "" THEN <<>> ELSE asIsI]
     ELSE LET ctx0 == [qs |-> rq.t - rq.d, qe |-> rq.t - rq.d, lb |-> rq.lb, ds |-> DefStep]
              ctx1 == [qs |-> rq.t, qe |-> rq.t, lb |-> rq.lb, ds |-> DefStep]
              qo == AddOffset(expr, rq.d)
          IN res' = [k |-> "offset", store |-> store, q |-> expr, qo |-> qo, t |-> rq.t, d |-> rq.d,
                     lb |-> rq.lb, ds |-> DefStep,
                     out |-> Eval(store, expr, rq.t - rq.d, ctx0),
                     outo |-> Eval(store, qo, rq.t, ctx1),
                     ok |-> /\ ImplInstantQuery(store, expr, rq.t - rq.d, rq.lb, DefStep, AllFixes)
                               = Eval(store, expr, rq.t - rq.d, ctx0)
                            /\ ImplInstantQuery(store, qo, rq.t, rq.lb, DefStep, AllFixes)
                               = Eval(store, qo, rq.t, ctx1),
                     kf |-> "", implr |-> <<>>, impli |-> <<>>]
  /\ UNCHANGED <<store, expr, nwr, nruns, rq>>

Next == \/ BuildNext /\ UNCHANGED <<rq, res>>
        \/ \E qs \in Starts, n \in NSteps, st \in StepSizes, sl \in Slacks, lb \in Lookbacks :
             EvaluateRange(qs, n, st, sl, lb)
        \/ \E t \in OffTimes, d \in OffDs, lb \in Lookbacks : EvaluateOffset(t, d, lb)
        \/ Finish

Spec == Init /\ [][Next]_vars

-----------------------------------------------------------------------------
(* Properties checked by TLC on the design.                                 *)
TypeOK == BuildTypeOK

\* C27, first sentence, on the (repaired) design: the one-pass range evaluation and the
\* per-step instant evaluation of the engine both equal the reference, hence each other
RangeEqualsInstants == stage = "done" => res.ok

\* C27, second sentence, on the reference: shifting by the offset
OffsetLaw == (stage = "done" /\ res.k = "offset") => res.outo = Shift(res.out, res.d)

KnownDeviationsOnly ==
  stage = "done" =>
    /\ res.kf \in {"kf1", "kf1+kf2"} => HasTimestampAtOffset(expr)
    /\ res.kf \in {"kf2", "kf1+kf2"} => HasShiftedSubqueryOverAt(expr)

-----------------------------------------------------------------------------
OffDsQuick == {2, -1}
OffDsBig == {1, 3, -2}
AtsSim == {NoAt, NoAt, AtAbs(2), AtAbs(5)}
StartsNeg == {-1, 2}

Emit == \/ EmitMode # "all"
        \/ stage' # "done"
        \/ PrintT("@@TR " \o ToJson(res'))

EmitWalk == stage # "done" \/ PrintT("@@TR " \o ToJson(res))
=============================================================================
