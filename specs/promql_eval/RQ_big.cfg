SPECIFICATION Spec
CONSTANTS
  Series = {"a"}
  MaxSamples = 3
  Gaps = {1, 2, 3}
  FirstT = 0
  MaxT = 4
  Kinds = {"f", "sf", "h", "sh"}
  RunGaps = {}
  RunLens = {}
  MaxRuns = 0
  Sels <- SelsA
  Offs = {0, 1}
  Ats <- AtsQuick
  Ranges = {2, 3}
  Funcs = {"count_over_time", "last_over_time", "first_over_time"}
  TsFuncs = {"timestamp"}
  SqRanges = {4}
  SqSteps = {2, 3}
  SqOffs <- SqOffsSub
  SqAts <- AtsSub
  MaxWraps = 2
  Starts = {2}
  StepSizes = {1, 2, 3}
  NSteps = {3}
  Slacks = {0, 1}
  OffTimes = {5}
  OffDs <- OffDsQuick
  Lookbacks = {3}
  DefStep = 2
  EmitMode = "none"
VIEW View
INVARIANTS TypeOK RangeEqualsInstants OffsetLaw KnownDeviationsOnly
CHECK_DEADLOCK FALSE
