----------------------------- MODULE PromqlEval -----------------------------
(***************************************************************************)
(* Shared REFERENCE evaluator for PromQL (what the language promises, not  *)
(* how promql/engine.go computes it).  Pure operators only: no constants,  *)
(* no variables, so every property module (Selectors.tla for C28,          *)
(* RangeQuery.tla for C27, LimitRatio.tla for C34, and later modules for   *)
(* aggregations / binary operators / counter functions) can EXTEND it.     *)
(*                                                                         *)
(* TIME      integers (model milliseconds, may be negative).               *)
(* VALUES    exact: <<num, den>> with den > 0 is the rational num/den;     *)
(*           den = 0 encodes the IEEE specials, so that every value has    *)
(*           the same shape (TLC refuses to compare a tuple and a string): *)
(*             NaN = <<0,0>>  +Inf = <<1,0>>  -Inf = <<-1,0>>               *)
(*             Stale = <<2,0>>  (the staleness-marker NaN bit pattern)      *)
(* SAMPLE    [t |-> time, h |-> is-native-histogram, v |-> value].         *)
(*           A histogram sample with v = <<n,1>> is "histogram number n"   *)
(*           (the harness concretises it to a histogram with count = n);   *)
(*           a histogram whose v = Stale is a histogram staleness marker   *)
(*           (Sum = StaleNaN in the code).                                 *)
(* STORE     function series name -> sequence of samples, strictly         *)
(*           increasing in t.                                              *)
(* RESULT    every expression evaluates to a function                      *)
(*           series name -> sequence of points [t, h, v] (a matrix).       *)
(*           An instant vector is the special case "at most one point per  *)
(*           series, stamped with the evaluation time".                    *)
(*                                                                         *)
(* EXPRESSIONS (records, field k is the node kind):                        *)
(*   [k |-> "vs", sel, off, at]            instant vector selector         *)
(*   [k |-> "ms", vs, r]                   range selector  vs[r]           *)
(*   [k |-> "sq", e, r, st, off, at]       subquery  e[r:st] (st = 0: the  *)
(*                                         engine's default interval)      *)
(*   [k |-> "call", f, arg]                function call                   *)
(* `sel` is the set of series names the matchers select, `off` the offset  *)
(* (may be negative), `at` the @ modifier: <<"none",0>>, <<"abs",T>>,      *)
(* <<"start",0>>, <<"end",0>>.                                             *)
(*                                                                         *)
(* CONTEXT   ctx = [qs, qe, lb, ds]: query start and end (for @ start() /  *)
(*           @ end()), lookback delta, default subquery step.              *)
(***************************************************************************)
EXTENDS Integers, Sequences, FiniteSets

NaN   == <<0, 0>>
PInf  == <<1, 0>>
NInf  == <<-1, 0>>
Stale == <<2, 0>>
Int2V(n) == <<n, 1>>
IsStale(v) == v = Stale

NoAt == <<"none", 0>>
AtAbs(T) == <<"abs", T>>
AtStart == <<"start", 0>>
AtEnd == <<"end", 0>>

SetMax(S) == CHOOSE x \in S : \A y \in S : y <= x
SetMin(S) == CHOOSE x \in S : \A y \in S : x <= y

RECURSIVE SortedSeq(_)
SortedSeq(S) == IF S = {} THEN <<>> ELSE LET m == SetMin(S) IN <<m>> \o SortedSeq(S \ {m})

RECURSIVE Flatten(_)
Flatten(ss) == IF ss = <<>> THEN <<>> ELSE Head(ss) \o Flatten(Tail(ss))

-----------------------------------------------------------------------------
(* C28, first sentence: the latest sample in (t - lookback, t], unless it   *)
(* is a staleness marker.  Result: <<>> or <<sample>> (own timestamp kept). *)
RefInstant(S, t, lb) ==
  LET C == {i \in 1..Len(S) : t - lb < S[i].t /\ S[i].t <= t} IN
  IF C = {} THEN <<>>
  ELSE LET i == SetMax(C) IN IF IsStale(S[i].v) THEN <<>> ELSE <<S[i]>>

(* C28, second sentence: exactly the non-stale samples in (t - r, t].       *)
RefRange(S, t, r) == SelectSeq(S, LAMBDA x : t - r < x.t /\ x.t <= t /\ ~IsStale(x.v))

(* C28, last sentence: the evaluation times of a subquery [r:st] whose      *)
(* window ends at t are the multiples of st in (t - r, t].                  *)
SubqueryTimes(t, r, st) == SortedSeq({m \in (t - r + 1)..t : m % st = 0})

(* @ modifier: fixed time, or the query's start / end.                      *)
AtTime(at, t, ctx) ==
  CASE at[1] = "none"  -> t
    [] at[1] = "abs"   -> at[2]
    [] at[1] = "start" -> ctx.qs
    [] at[1] = "end"   -> ctx.qe

-----------------------------------------------------------------------------
(* Range-vector functions: window (non-empty sequence of points) -> [h, v]. *)
RangeFuncs == {"count_over_time", "last_over_time", "first_over_time", "present_over_time"}

ApplyRangeFunc(f, W) ==
  CASE f = "count_over_time"   -> [h |-> FALSE, v |-> Int2V(Len(W))]
    [] f = "present_over_time" -> [h |-> FALSE, v |-> Int2V(1)]
    [] f = "last_over_time"    -> [h |-> W[Len(W)].h, v |-> W[Len(W)].v]
    [] f = "first_over_time"   -> [h |-> W[1].h, v |-> W[1].v]

ExprType(e) == IF e.k \in {"ms", "sq"} THEN "matrix" ELSE "vector"

(* Does the metric name survive?  (Not part of C28; reported as drift.)     *)
RECURSIVE KeepsName(_)
KeepsName(e) ==
  CASE e.k = "vs" -> TRUE
    [] e.k = "ms" -> TRUE
    [] e.k = "sq" -> KeepsName(e.e)
    [] e.k = "call" -> e.f \in {"last_over_time", "first_over_time"} /\ KeepsName(e.arg)

-----------------------------------------------------------------------------
(* The reference semantics.  Eval(store, e, t, ctx)[s] is the sequence of   *)
(* points of series s in the value of e at evaluation time t.               *)
RECURSIVE Eval(_, _, _, _)
Eval(store, e, t, ctx) ==
  CASE e.k = "vs" ->
         LET rt == AtTime(e.at, t, ctx) - e.off IN
         [s \in DOMAIN store |->
            IF s \notin e.sel THEN <<>>
            ELSE LET p == RefInstant(store[s], rt, ctx.lb) IN
                 IF p = <<>> THEN <<>> ELSE <<[t |-> t, h |-> p[1].h, v |-> p[1].v]>>]
    [] e.k = "ms" ->
         LET rt == AtTime(e.vs.at, t, ctx) - e.vs.off IN
         [s \in DOMAIN store |->
            IF s \notin e.vs.sel THEN <<>> ELSE RefRange(store[s], rt, e.r)]
    [] e.k = "sq" ->
         LET rt == AtTime(e.at, t, ctx) - e.off
             st == IF e.st = 0 THEN ctx.ds ELSE e.st
             ts == SubqueryTimes(rt, e.r, st)
             in == [i \in 1..Len(ts) |-> Eval(store, e.e, ts[i], ctx)]
         IN [s \in DOMAIN store |-> Flatten([i \in 1..Len(ts) |-> in[i][s]])]
    [] e.k = "call" /\ e.f = "timestamp" ->
         \* timestamp(v): the timestamp (in seconds) of each sample of v; for a bare
         \* selector that is the timestamp of the selected sample, otherwise the evaluation time
         IF e.arg.k = "vs"
         THEN LET rt == AtTime(e.arg.at, t, ctx) - e.arg.off IN
              [s \in DOMAIN store |->
                 IF s \notin e.arg.sel THEN <<>>
                 ELSE LET p == RefInstant(store[s], rt, ctx.lb) IN
                      IF p = <<>> THEN <<>> ELSE <<[t |-> t, h |-> FALSE, v |-> <<p[1].t, 1000>>]>>]
         ELSE LET a == Eval(store, e.arg, t, ctx) IN
              [s \in DOMAIN store |->
                 IF a[s] = <<>> THEN <<>> ELSE <<[t |-> t, h |-> FALSE, v |-> <<t, 1000>>]>>]
    [] e.k = "call" /\ e.f \in RangeFuncs ->
         LET w == Eval(store, e.arg, t, ctx) IN
         [s \in DOMAIN store |->
            IF w[s] = <<>> THEN <<>>
            ELSE LET x == ApplyRangeFunc(e.f, w[s]) IN <<[t |-> t, h |-> x.h, v |-> x.v]>>]

(* C27 by definition: a range query is the instant evaluation at each step. *)
RangeSteps(qs, qe, step) == [i \in 1..((qe - qs) \div step + 1) |-> qs + (i - 1) * step]
RangeEval(store, e, qs, qe, step, lb, ds) ==
  LET ctx == [qs |-> qs, qe |-> qe, lb |-> lb, ds |-> ds]
      ts == RangeSteps(qs, qe, step) IN
  [i \in 1..Len(ts) |-> Eval(store, e, ts[i], ctx)]
=============================================================================
