------------------------------ MODULE Builder -------------------------------
(***************************************************************************)
(* Generator shared by the PromQL evaluation modules (Selectors.tla C28,   *)
(* RangeQuery.tla C27): a state machine that first fills a small store and *)
(* then builds one well-typed expression bottom-up.                        *)
(*   stage "data"   AppendSample(s,dt,kd)  one storage.Appender.Append /   *)
(*                                         AppendHistogram call (irregular *)
(*                                         spacing, stale markers, NaN,    *)
(*                                         Inf, native histograms)         *)
(*                  Seal                   Appender.Commit                 *)
(*   stage "query"  MkVS / WrapRange / WrapCall / WrapSub: the productions *)
(*                  of generated_parser.y the properties talk about        *)
(* The extending module adds its own evaluation actions and variables and  *)
(* must conjoin UNCHANGED of its variables to BuildNext.                   *)
(***************************************************************************)
EXTENDS PromqlEngine

CONSTANTS Series,      \* subset of {"a","b"}
          MaxSamples,  \* samples per series
          Gaps,        \* spacing between consecutive samples of a series
          FirstT,      \* time of the slot before the first possible sample
          MaxT,        \* last sample time
          Kinds,       \* subset of {"f","n","i","sf","h","sh"}
          RunGaps,     \* AppendRun: spacings of a run of equally spaced samples
          RunLens,     \* AppendRun: number of samples of a run
          MaxRuns,     \* runs per series
          Sels,        \* sets of series selected by the matchers
          Offs, Ats,   \* selector offsets / @ modifiers
          Ranges,      \* range selector durations
          Funcs,       \* range functions used by WrapCall
          TsFuncs,     \* {"timestamp"} or {}
          SqRanges, SqSteps, SqOffs, SqAts,
          MaxWraps     \* bound on Wrap* actions per expression

VARIABLES store, expr, stage, nwr, nruns

bvars == <<store, expr, stage, nwr, nruns>>

None == [k |-> "none"]
SBase(s) == IF s = "a" THEN 10 ELSE 20

\* value of the n-th sample of series s with kind kd; ids are unique per store so that the
\* observed value identifies the selected sample
SampleOf(s, n, t, kd) ==
  CASE kd = "f"  -> [t |-> t, h |-> FALSE, v |-> Int2V(SBase(s) + n)]
    [] kd = "n"  -> [t |-> t, h |-> FALSE, v |-> NaN]
    [] kd = "i"  -> [t |-> t, h |-> FALSE, v |-> PInf]
    [] kd = "sf" -> [t |-> t, h |-> FALSE, v |-> Stale]
    [] kd = "h"  -> [t |-> t, h |-> TRUE,  v |-> Int2V(SBase(s) + n)]
    [] kd = "sh" -> [t |-> t, h |-> TRUE,  v |-> Stale]

BuildInit == /\ store = [s \in Series |-> <<>>]
             /\ expr = None
             /\ stage = "data"
             /\ nwr = 0
             /\ nruns = 0

\* storage.Appender.Append / AppendHistogram; series are filled in name order (appends to
\* different series commute)
AppendSample(s, dt, kd) ==
  /\ stage = "data"
  /\ Len(store[s]) < MaxSamples
  /\ \A s2 \in Series : SBase(s2) > SBase(s) => store[s2] = <<>>
  /\ LET last == IF store[s] = <<>> THEN FirstT ELSE store[s][Len(store[s])].t
         t == last + dt IN
     /\ t <= MaxT
     /\ store' = [store EXCEPT ![s] = Append(@, SampleOf(s, Len(@) + 1, t, kd))]
  /\ UNCHANGED <<expr, stage, nwr, nruns>>

\* a burst of n equally spaced appends: lets the sample density change along a series (sparse ->
\* dense -> sparse ...), with enough samples per window to make the sampleRing of
\* storage.BufferedSeriesIterator (initial capacity 16, doubled when full) wrap around and grow
AppendRun(s, dt, n, kd) ==
  /\ stage = "data" /\ nruns < MaxRuns
  /\ LET last == IF store[s] = <<>> THEN FirstT ELSE store[s][Len(store[s])].t
         prevGap == IF Len(store[s]) < 2 THEN 0 ELSE last - store[s][Len(store[s]) - 1].t
         base == Len(store[s]) IN
     /\ dt # prevGap                                  \* the density changes from run to run
     /\ last + n * dt <= MaxT
     /\ store' = [store EXCEPT ![s] = @ \o [j \in 1..n |-> SampleOf(s, base + j, last + j * dt, kd)]]
  /\ nruns' = nruns + 1
  /\ UNCHANGED <<expr, stage, nwr>>

Seal == /\ stage = "data"
        /\ \E s \in Series : store[s] # <<>>
        /\ stage' = "query"
        /\ UNCHANGED <<store, expr, nwr, nruns>>

MkVS(sel, off, at) ==
  /\ stage = "query" /\ expr = None
  /\ expr' = [k |-> "vs", sel |-> sel, off |-> off, at |-> at]
  /\ UNCHANGED <<store, stage, nwr, nruns>>

WrapRange(r) ==
  /\ stage = "query" /\ expr.k = "vs" /\ nwr < MaxWraps
  /\ expr' = [k |-> "ms", vs |-> expr, r |-> r]
  /\ nwr' = nwr + 1
  /\ UNCHANGED <<store, stage, nruns>>

WrapCall(f) ==
  /\ stage = "query" /\ expr # None /\ nwr < MaxWraps
  /\ IF f = "timestamp" THEN ExprType(expr) = "vector" ELSE ExprType(expr) = "matrix"
  /\ expr' = [k |-> "call", f |-> f, arg |-> expr]
  /\ nwr' = nwr + 1
  /\ UNCHANGED <<store, stage, nruns>>

WrapSub(r, st, off, at) ==
  /\ stage = "query" /\ expr # None /\ nwr < MaxWraps
  /\ ExprType(expr) = "vector"
  /\ expr' = [k |-> "sq", e |-> expr, r |-> r, st |-> st, off |-> off, at |-> at]
  /\ nwr' = nwr + 1
  /\ UNCHANGED <<store, stage, nruns>>

BuildNext == \/ \E s \in Series, dt \in Gaps, kd \in Kinds : AppendSample(s, dt, kd)
             \/ \E s \in Series, dt \in RunGaps, n \in RunLens, kd \in Kinds : AppendRun(s, dt, n, kd)
             \/ Seal
             \/ \E sel \in Sels, off \in Offs, at \in Ats : MkVS(sel, off, at)
             \/ \E r \in Ranges : WrapRange(r)
             \/ \E f \in Funcs \cup TsFuncs : WrapCall(f)
             \/ \E r \in SqRanges, st \in SqSteps, off \in SqOffs, at \in SqAts : WrapSub(r, st, off, at)

Sorted(S) == \A i \in 1..(Len(S) - 1) : S[i].t < S[i + 1].t
BuildTypeOK == /\ \A s \in Series : Sorted(store[s])
               /\ stage \in {"data", "query", "eval", "done"}

-----------------------------------------------------------------------------
(* Syntactic conditions of the two known deviations (see PromqlEngine.tla). *)
\* kf1 needs timestamp() over a selector with both @ and offset
RECURSIVE HasTimestampAtOffset(_)
HasTimestampAtOffset(e) ==
  CASE e.k = "vs" -> FALSE
    [] e.k = "ms" -> FALSE
    [] e.k = "sq" -> HasTimestampAtOffset(e.e)
    [] e.k = "call" -> \/ (e.f = "timestamp" /\ e.arg.k = "vs" /\ e.arg.at[1] # "none" /\ e.arg.off # 0)
                       \/ HasTimestampAtOffset(e.arg)
\* kf2 needs an @ modifier somewhere below a subquery that has an offset or an @ of its own
RECURSIVE HasAt(_)
HasAt(e) ==
  CASE e.k = "vs" -> e.at[1] # "none"
    [] e.k = "ms" -> e.vs.at[1] # "none"
    [] e.k = "sq" -> e.at[1] # "none" \/ HasAt(e.e)
    [] e.k = "call" -> HasAt(e.arg)
RECURSIVE HasShiftedSubqueryOverAt(_)
HasShiftedSubqueryOverAt(e) ==
  CASE e.k = "vs" -> FALSE
    [] e.k = "ms" -> FALSE
    [] e.k = "sq" -> ((e.off # 0 \/ e.at[1] # "none") /\ HasAt(e.e)) \/ HasShiftedSubqueryOverAt(e.e)
    [] e.k = "call" -> HasShiftedSubqueryOverAt(e.arg)

-----------------------------------------------------------------------------
(* Constant values that a .cfg cannot spell (tuples, sets of sets, negative *)
(* numbers).                                                                *)
SelsAB == {{"a"}, {"a", "b"}}
SelsBoth == {{"b"}, {"a", "b"}}
SelsA == {{"a"}}
Neg2 == -2
Neg3 == -3
OffsQuick == {0, 1, -2}
OffsBig == {0, 1, 3, -1, -2}
SqOffsQuick == {0, 1}
SqOffsSub == {0, -1}
SqOffsBig == {0, 2, -1}
AtsNone == {NoAt}
AtsSub == {NoAt, AtAbs(4)}
AtsQuick == {NoAt, AtAbs(4)}
AtsMid == {NoAt, AtAbs(4), AtStart}
AtsBig == {NoAt, AtAbs(2), AtAbs(5), AtStart, AtEnd}
=============================================================================
