---------------------------- MODULE PromqlEngine ----------------------------
(***************************************************************************)
(* IMPLEMENTATION-SHAPED transcription of the parts of promql/engine.go    *)
(* that realise selectors, range windows, offset/@ and subqueries          *)
(* (properties C28 and C27).  Each operator names the Go function it       *)
(* mirrors.  It is compared by TLC with the reference semantics of         *)
(* PromqlEval.tla (invariants ImplAgrees in Selectors.tla / RangeQuery.tla)*)
(* on every generated case: that is the design-level check "the engine's   *)
(* algorithm computes what the language promises"; the conformance harness *)
(* separately compares the real engine with the reference.                 *)
(*                                                                         *)
(* The Go AST is mutable (Offset fields are rewritten, arguments replaced); *)
(* here every pass returns a new AST.  Implementation AST nodes:           *)
(*   [k |-> "vs", sel, off, ts, coff, hs, he]  off = OriginalOffset,       *)
(*        ts = <<has, T>> = Timestamp, coff = Offset, [hs,he] = the        *)
(*        SelectHints Start/End the storage trims the series to            *)
(*   [k |-> "ms", vs, r]                                                   *)
(*   [k |-> "sq", e, r, st, off, ts, coff]                                 *)
(*   [k |-> "call", f, arg]                                                *)
(*   [k |-> "si", e]                           parser.StepInvariantExpr    *)
(* Evaluator: ev = [start, end, interval]; c = [store, lb, ds, fix].        *)
(*                                                                         *)
(* KNOWN DEVIATIONS.  Two steps of the Go code are wrong (confirmed on the *)
(* real engine, /verif/known_findings.json).  c.fix is the set of proposed *)
(* repairs that are applied: {} transcribes the code as it is, AllFixes    *)
(* the code with both one-line repairs; TLC checks that the repaired       *)
(* algorithm equals the reference (Selectors!ImplAgrees) and labels every  *)
(* generated case with the deviations that change its value.               *)
(*   "kf1"  rangeEvalTimestampFunctionOverVectorSelector overwrites        *)
(*          vs.Offset with (ts - @T) and so drops the selector's offset;   *)
(*          repair: vs.OriginalOffset + (ts - @T).                         *)
(*   "kf2"  runSubquery re-bases the @-offsets of the inner expression     *)
(*          only `if subqStart != ev.startTimestamp`; when the two happen  *)
(*          to be equal the offsets computed by the enclosing pass (which  *)
(*          include the subquery's own offset / @) are used; repair: always *)
(*          call setOffsetForAtModifier(subqStart, e.Expr).                *)
(***************************************************************************)
EXTENDS PromqlEval

MinT == -1000000                      \* stands for math.MinInt64
AllFixes == {"kf1", "kf2"}

\* Go integer division truncates toward zero (b > 0)
TruncDiv(a, b) == IF a >= 0 THEN a \div b ELSE -((-a) \div b)
Min2(a, b) == IF a <= b THEN a ELSE b

NoTs == <<FALSE, 0>>
P0 == [off |-> 0, range |-> 0, ts |-> NoTs]      \* subqueryTimes of an empty path

-----------------------------------------------------------------------------
(* PreprocessExpr / preprocessExprHelper: resolve @ start()/end(), wrap the *)
(* maximal step-invariant sub-expressions in StepInvariantExpr.             *)
TsOf(at, qs, qe) ==
  CASE at[1] = "none"  -> NoTs
    [] at[1] = "abs"   -> <<TRUE, at[2]>>
    [] at[1] = "start" -> <<TRUE, qs>>
    [] at[1] = "end"   -> <<TRUE, qe>>

SI(e) == [k |-> "si", e |-> e]

RECURSIVE PP(_, _, _)
PP(e, qs, qe) ==
  CASE e.k = "vs" ->
         LET ts == TsOf(e.at, qs, qe) IN
         [e |-> [k |-> "vs", sel |-> e.sel, off |-> e.off, ts |-> ts, coff |-> e.off, hs |-> 0, he |-> 0],
          inv |-> ts[1], wrap |-> ts[1]]
    [] e.k = "ms" ->
         \* "We don't need to wrap a MatrixSelector because functions over range vectors evaluate those directly"
         LET p == PP(e.vs, qs, qe) IN
         [e |-> [k |-> "ms", vs |-> p.e, r |-> e.r], inv |-> p.inv, wrap |-> FALSE]
    [] e.k = "sq" ->
         \* the inside of a subquery is wrapped when invariant; the subquery itself never
         LET p == PP(e.e, qs, qe)
             ts == TsOf(e.at, qs, qe) IN
         [e |-> [k |-> "sq", e |-> IF p.inv THEN SI(p.e) ELSE p.e, r |-> e.r, st |-> e.st,
                 off |-> e.off, ts |-> ts, coff |-> e.off],
          inv |-> ts[1], wrap |-> FALSE]
    [] e.k = "call" ->
         LET p == PP(e.arg, qs, qe)
             unsafe == e.f = "timestamp"            \* AtModifierUnsafeFunctions
             tsSafe == e.f = "timestamp" /\ p.inv /\ e.arg.k = "vs"
             inv == (~unsafe /\ p.inv) \/ tsSafe IN
         IF inv THEN [e |-> [k |-> "call", f |-> e.f, arg |-> p.e], inv |-> TRUE, wrap |-> TRUE]
         ELSE [e |-> [k |-> "call", f |-> e.f, arg |-> IF p.wrap THEN SI(p.e) ELSE p.e],
               inv |-> FALSE, wrap |-> FALSE]

Preprocess(e, qs, qe) == LET p == PP(e, qs, qe) IN IF p.wrap THEN SI(p.e) ELSE p.e

-----------------------------------------------------------------------------
(* subqueryTimes(path), accumulated while descending: p = [off, range, ts]. *)
PathPush(p, sq) ==
  IF sq.ts[1] THEN [off |-> sq.off, range |-> sq.r, ts |-> sq.ts]
  ELSE [off |-> p.off + sq.off, range |-> p.range + sq.r, ts |-> p.ts]

(* populateSeries / getTimeRangesForSelector: the Start/End hints of every  *)
(* selector; the TSDB querier trims the series to [Start, End].             *)
HintsFor(vs, qs, qe, lb, p, evalRange) ==
  LET s0 == IF p.ts[1] THEN p.ts[2] ELSE qs
      e0 == IF p.ts[1] THEN p.ts[2] ELSE qe
      s1 == IF vs.ts[1] THEN vs.ts[2] ELSE s0 - p.off - p.range
      e1 == IF vs.ts[1] THEN vs.ts[2] ELSE e0 - p.off
      s2 == IF evalRange = 0 THEN s1 - (lb - 1) ELSE s1 - (evalRange - 1)
  IN <<s2 - vs.off, e1 - vs.off>>

RECURSIVE Populate(_, _, _, _, _, _)
Populate(e, qs, qe, lb, p, evalRange) ==
  CASE e.k = "vs" -> LET h == HintsFor(e, qs, qe, lb, p, evalRange) IN [e EXCEPT !.hs = h[1], !.he = h[2]]
    [] e.k = "ms" -> [e EXCEPT !.vs = Populate(e.vs, qs, qe, lb, p, e.r)]
    [] e.k = "sq" -> [e EXCEPT !.e = Populate(e.e, qs, qe, lb, PathPush(p, e), 0)]
    [] e.k = "call" -> [e EXCEPT !.arg = Populate(e.arg, qs, qe, lb, p, 0)]
    [] e.k = "si" -> [e EXCEPT !.e = Populate(e.e, qs, qe, lb, p, 0)]

Trim(S, lo, hi) == SelectSeq(S, LAMBDA x : lo <= x.t /\ x.t <= hi)

-----------------------------------------------------------------------------
(* setOffsetForAtModifier(evalTime, expr).                                  *)
GetOffset(ts, orig, evalTime, p) ==
  IF ~ts[1] THEN orig
  ELSE LET so == p.off + (IF p.ts[1] THEN evalTime - p.ts[2] ELSE 0)
       IN orig + ((evalTime - ts[2]) - so)

RECURSIVE SetOff(_, _, _)
SetOff(e, evalTime, p) ==
  CASE e.k = "vs" -> [e EXCEPT !.coff = GetOffset(e.ts, e.off, evalTime, p)]
    [] e.k = "ms" -> [e EXCEPT !.vs = SetOff(e.vs, evalTime, p)]
    [] e.k = "sq" -> [e EXCEPT !.coff = GetOffset(e.ts, e.off, evalTime, p),
                               !.e = SetOff(e.e, evalTime, PathPush(p, e))]
    [] e.k = "call" -> [e EXCEPT !.arg = SetOff(e.arg, evalTime, p)]
    [] e.k = "si" -> [e EXCEPT !.e = SetOff(e.e, evalTime, p)]

-----------------------------------------------------------------------------
(* storage.MemoizedSeriesIterator over the (trimmed) sample sequence S.     *)
(* State m = [i, last, prev]: i = index of the current sample (Len(S)+1 =   *)
(* ValNone), last = lastTime, prev = index of the memoized previous sample  *)
(* (0 = none).                                                              *)
FirstGE(S, from, t0) ==
  LET C == {j \in from..Len(S) : S[j].t >= t0} IN IF C = {} THEN Len(S) + 1 ELSE SetMin(C)

MemReset == [i |-> 1, last |-> MinT, prev |-> 0]      \* Reset: valueType = it.Next(), lastTime = MinInt64

MemNext(S, m) ==
  IF m.i > Len(S) THEN m
  ELSE [i |-> m.i + 1, last |-> IF m.i + 1 <= Len(S) THEN S[m.i + 1].t ELSE m.last, prev |-> m.i]

RECURSIVE MemAdvance(_, _, _)
MemAdvance(S, m, t) ==
  IF m.last >= t \/ m.i > Len(S) THEN m ELSE MemAdvance(S, MemNext(S, m), t)

MemSeek(S, m, t, delta) ==
  LET t0 == t - delta IN
  IF m.i <= Len(S) /\ t0 > m.last
  THEN LET j == FirstGE(S, m.i, t0) IN
       IF j > Len(S) THEN [i |-> j, last |-> m.last, prev |-> 0]
       ELSE MemAdvance(S, [i |-> j, last |-> S[j].t, prev |-> 0], t)
  ELSE MemAdvance(S, m, t)

(* evaluator.vectorSelectorSingle: returns the iterator state and the index *)
(* of the selected sample (0 = no sample).                                  *)
VSS(S, m, offset, ts, lb, delta) ==
  LET ref == ts - offset
      m1 == MemSeek(S, m, ref, delta)
      usePrev == m1.i > Len(S) \/ S[m1.i].t > ref
      idx == IF usePrev
             THEN (IF m1.prev = 0 \/ S[m1.prev].t <= ref - lb THEN 0 ELSE m1.prev)
             ELSE m1.i
  IN [m |-> m1, idx |-> IF idx # 0 /\ IsStale(S[idx].v) THEN 0 ELSE idx]

(* evaluator.evalSeries: one series, all steps, one iterator.               *)
RECURSIVE EvalSeriesLoop(_, _, _, _, _, _)
EvalSeriesLoop(S, m, offset, ts, ev, lb) ==
  IF ts > ev.end THEN <<>>
  ELSE LET r == VSS(S, m, offset, ts, lb, lb) IN
       (IF r.idx = 0 THEN <<>> ELSE <<[t |-> ts, h |-> S[r.idx].h, v |-> S[r.idx].v]>>)
       \o EvalSeriesLoop(S, r.m, offset, ts + ev.interval, ev, lb)

(* rangeEvalTimestampFunctionOverVectorSelector: timestamp(<vector selector>). *)
(* With an @ modifier the offset is recomputed per step from the timestamp   *)
(* alone - the original offset is dropped (known finding KF-C28-1).          *)
RECURSIVE TimestampLoop(_, _, _, _, _, _, _)
TimestampLoop(S, m, vs, ts, ev, lb, fix) ==
  IF ts > ev.end THEN <<>>
  ELSE LET offset == IF vs.ts[1]
                     THEN (IF "kf1" \in fix THEN vs.off ELSE 0) + (ts - vs.ts[2])
                     ELSE vs.coff
           r == VSS(S, m, offset, ts, lb, lb - 1) IN
       (IF r.idx = 0 THEN <<>> ELSE <<[t |-> ts, h |-> FALSE, v |-> <<S[r.idx].t, 1000>>]>>)
       \o TimestampLoop(S, r.m, vs, ts + ev.interval, ev, lb, fix)

-----------------------------------------------------------------------------
(* storage.BufferedSeriesIterator + sampleRing.  b = [i, last, buf, delta]; *)
(* buf = indices of the buffered samples, oldest first.                     *)
BufReset(delta) == [i |-> 1, last |-> MinT, buf |-> <<>>, delta |-> delta]

BufAdd(S, b, idx) ==        \* sampleRing.add: append, then free samples older than t - delta
  LET tmin == S[idx].t - b.delta IN SelectSeq(Append(b.buf, idx), LAMBDA j : S[j].t >= tmin)

BufNext(S, b) ==
  IF b.i > Len(S) THEN b
  ELSE [b EXCEPT !.buf = BufAdd(S, b, b.i), !.i = b.i + 1,
                 !.last = IF b.i + 1 <= Len(S) THEN S[b.i + 1].t ELSE b.last]

RECURSIVE BufLoop(_, _, _)
BufLoop(S, b, t) == LET b1 == BufNext(S, b) IN IF b1.i > Len(S) \/ b1.last >= t THEN b1 ELSE BufLoop(S, b1, t)
BufAdvance(S, b, t) == IF b.last >= t THEN b ELSE BufLoop(S, b, t)

BufSeek(S, b, t) ==
  LET t0 == t - b.delta IN
  IF b.i <= Len(S) /\ t0 > b.last
  THEN LET j == FirstGE(S, b.i, t0) IN
       IF j > Len(S) THEN [b EXCEPT !.i = j, !.buf = <<>>]
       ELSE BufAdvance(S, [b EXCEPT !.i = j, !.last = S[j].t, !.buf = <<>>], t)
  ELSE BufAdvance(S, b, t)

BufReduceDelta(S, b, d) ==
  IF d > b.delta THEN b
  ELSE IF b.buf = <<>> THEN [b EXCEPT !.delta = d]
  ELSE LET tmin == S[b.buf[Len(b.buf)]].t - d IN
       [b EXCEPT !.delta = d, !.buf = SelectSeq(@, LAMBDA j : S[j].t >= tmin)]

(* evaluator.matrixIterSlice: F / H are the float / histogram points kept   *)
(* from the previous step of the same series.                               *)
MatrixIterSlice(S, b, mint, maxt, F, H) ==
  LET keepF == F # <<>> /\ F[Len(F)].t > mint
      F1 == IF keepF THEN SelectSeq(F, LAMBDA p : p.t > mint) ELSE <<>>
      mintF == IF keepF THEN F1[Len(F1)].t ELSE mint
      keepH == H # <<>> /\ H[Len(H)].t > mint
      H1 == IF keepH THEN SelectSeq(H, LAMBDA p : p.t > mint) ELSE <<>>
      mintH == IF keepH THEN H1[Len(H1)].t ELSE mint
  IN IF mint = maxt THEN [b |-> b, F |-> F1, H |-> H1]
     ELSE LET b1 == BufSeek(S, b, maxt)
              pts == [n \in 1..Len(b1.buf) |-> S[b1.buf[n]]]
              newF == SelectSeq(pts, LAMBDA x : ~x.h /\ ~IsStale(x.v) /\ x.t > mintF)
              newH == SelectSeq(pts, LAMBDA x : x.h /\ x.t > mintH /\ ~IsStale(x.v))
              \* "The sought sample might also be in the range."
              hit == b1.i <= Len(S) /\ S[b1.i].t = maxt /\ ~IsStale(S[b1.i].v)
              sF == IF hit /\ ~S[b1.i].h THEN <<S[b1.i]>> ELSE <<>>
              sH == IF hit /\ S[b1.i].h THEN <<S[b1.i]>> ELSE <<>>
          IN [b |-> b1, F |-> F1 \o newF \o sF, H |-> H1 \o newH \o sH]

RECURSIVE MergeByT(_, _)
MergeByT(F, H) ==
  IF F = <<>> THEN H ELSE IF H = <<>> THEN F
  ELSE IF F[1].t < H[1].t THEN <<F[1]>> \o MergeByT(Tail(F), H) ELSE <<H[1]>> \o MergeByT(F, Tail(H))

(* promql/functions.go on the (Floats, Histograms) pair of one series.      *)
ImplRangeFunc(f, F, H) ==
  CASE f = "count_over_time"   -> [h |-> FALSE, v |-> Int2V(Len(F) + Len(H))]
    [] f = "present_over_time" -> [h |-> FALSE, v |-> Int2V(1)]
    [] f = "last_over_time"    ->
         IF H = <<>> \/ (F # <<>> /\ H[Len(H)].t < F[Len(F)].t)
         THEN [h |-> FALSE, v |-> F[Len(F)].v] ELSE [h |-> TRUE, v |-> H[Len(H)].v]
    [] f = "first_over_time"   ->
         IF H = <<>> \/ (F # <<>> /\ F[1].t < H[1].t)
         THEN [h |-> FALSE, v |-> F[1].v] ELSE [h |-> TRUE, v |-> H[1].v]

(* The per-series step loop of `case *parser.Call` with a matrix argument.  *)
(* sel = [off, ts, r]: Offset, Timestamp and Range of the (materialised)    *)
(* matrix selector.                                                         *)
RECURSIVE CallLoop(_, _, _, _, _, _, _, _)
CallLoop(S, b, F, H, ts, ev, sel, f) ==
  IF ts > ev.end THEN <<>>
  ELSE LET refetch == ts = ev.start \/ ~sel.ts[1]
           maxt == ts - sel.off
           mint == maxt - sel.r
           w == IF refetch THEN MatrixIterSlice(S, b, mint, maxt, F, H) ELSE [b |-> b, F |-> F, H |-> H]
       IN IF Len(w.F) + Len(w.H) = 0
          THEN CallLoop(S, w.b, w.F, w.H, ts + ev.interval, ev, sel, f)     \* `continue`: no ReduceDelta
          ELSE LET x == ImplRangeFunc(f, w.F, w.H) IN
               <<[t |-> ts, h |-> x.h, v |-> x.v]>>
               \o CallLoop(S, BufReduceDelta(S, w.b, Min2(sel.r, ev.interval)), w.F, w.H,
                           ts + ev.interval, ev, sel, f)

-----------------------------------------------------------------------------
(* evaluator.subqueryTimeRange.                                             *)
SubqueryTimeRange(e, ev, ds) ==
  LET parentEnd == ev.start + TruncDiv(ev.end - ev.start, ev.interval) * ev.interval
      interval == IF e.st # 0 THEN e.st ELSE ds
      x == ev.start - e.coff - e.r
      s0 == interval * TruncDiv(x, interval)
  IN [start |-> IF s0 <= x THEN s0 + interval ELSE s0, end |-> parentEnd - e.coff, interval |-> interval]

Steps(ev) == [i \in 1..(TruncDiv(ev.end - ev.start, ev.interval) + 1) |-> ev.start + (i - 1) * ev.interval]

(* evaluator.eval.  c = [store, lb, ds, fix].                               *)
RECURSIVE ImplEval(_, _, _)
ImplEval(e, ev, c) ==
  LET Ser == DOMAIN c.store
      Empty == [s \in Ser |-> <<>>]
      \* evaluator.runSubquery
      RunSub(sq) == LET r == SubqueryTimeRange(sq, ev, c.ds)
                        inner == IF r.start # ev.start \/ "kf2" \in c.fix
                                 THEN SetOff(sq.e, r.start, P0) ELSE sq.e
                    IN ImplEval(inner, r, c)
  IN
  IF ev.end < ev.start THEN Empty
  ELSE
  CASE e.k = "si" ->
         LET r == ImplEval(e.e, [start |-> ev.start, end |-> ev.start, interval |-> ev.interval], c)
             st == Steps(ev) IN
         IF e.e.k \in {"ms", "sq"} THEN r
         ELSE [s \in Ser |-> IF r[s] = <<>> THEN <<>>
                             ELSE [i \in 1..Len(st) |-> [r[s][1] EXCEPT !.t = st[i]]]]
    [] e.k = "vs" ->
         [s \in Ser |-> IF s \notin e.sel THEN <<>>
                        ELSE EvalSeriesLoop(Trim(c.store[s], e.hs, e.he), MemReset, e.coff, ev.start, ev, c.lb)]
    [] e.k = "ms" ->                                  \* evaluator.matrixSelector (instant only)
         [s \in Ser |-> IF s \notin e.vs.sel THEN <<>>
                        ELSE LET S == Trim(c.store[s], e.vs.hs, e.vs.he)
                                 maxt == ev.start - e.vs.coff
                                 w == MatrixIterSlice(S, BufReset(e.r), maxt - e.r, maxt, <<>>, <<>>)
                             IN MergeByT(w.F, w.H)]
    [] e.k = "sq" -> RunSub(e)
    [] e.k = "call" /\ e.f = "timestamp" /\ e.arg.k = "vs" ->
         [s \in Ser |-> IF s \notin e.arg.sel THEN <<>>
                        ELSE TimestampLoop(Trim(c.store[s], e.arg.hs, e.arg.he), MemReset, e.arg, ev.start, ev, c.lb, c.fix)]
    [] e.k = "call" /\ e.f = "timestamp" /\ e.arg.k # "vs" ->
         LET a == ImplEval(e.arg, ev, c) IN
         [s \in Ser |-> [i \in 1..Len(a[s]) |-> [t |-> a[s][i].t, h |-> FALSE, v |-> <<a[s][i].t, 1000>>]]]
    [] e.k = "call" /\ e.f # "timestamp" /\ e.arg.k = "ms" ->
         LET vs == e.arg.vs IN
         [s \in Ser |-> IF s \notin vs.sel THEN <<>>
                        ELSE CallLoop(Trim(c.store[s], vs.hs, vs.he), BufReset(e.arg.r), <<>>, <<>>, ev.start, ev,
                                      [off |-> vs.coff, ts |-> vs.ts, r |-> e.arg.r], e.f)]
    [] e.k = "call" /\ e.f # "timestamp" /\ e.arg.k = "sq" ->
         \* evaluator.evalSubquery: the subquery result becomes the series of a MatrixSelector
         LET sq == e.arg
             mat == RunSub(sq)
             off == IF sq.ts[1] THEN sq.off + (ev.start - sq.ts[2]) ELSE sq.coff IN
         [s \in Ser |-> CallLoop(mat[s], BufReset(sq.r), <<>>, <<>>, ev.start, ev,
                                 [off |-> off, ts |-> sq.ts, r |-> sq.r], e.f)]

(* Engine.NewInstantQuery + exec: PreprocessExpr, populateSeries,           *)
(* setOffsetForAtModifier(start), one evaluator with interval 1.            *)
ImplInstantQuery(store, e, t, lb, ds, fix) ==
  LET e1 == Preprocess(e, t, t)
      e2 == Populate(e1, t, t, lb, P0, 0)
      e3 == SetOff(e2, t, P0)
  IN ImplEval(e3, [start |-> t, end |-> t, interval |-> 1], [store |-> store, lb |-> lb, ds |-> ds, fix |-> fix])

(* Engine.NewRangeQuery + exec: the result is a matrix with one point per   *)
(* series and step at which the expression has a value.                     *)
ImplRangeQuery(store, e, qs, qe, step, lb, ds, fix) ==
  LET e1 == Preprocess(e, qs, qe)
      e2 == Populate(e1, qs, qe, lb, P0, 0)
      e3 == SetOff(e2, qs, P0)
  IN ImplEval(e3, [start |-> qs, end |-> qe, interval |-> step], [store |-> store, lb |-> lb, ds |-> ds, fix |-> fix])

(* Which known deviations change the value of this case?  "" = none.        *)
KFLabel(asIs, with1, with2, ref) ==
  IF asIs = ref THEN ""
  ELSE IF with1 = ref THEN "kf1"
  ELSE IF with2 = ref THEN "kf2"
  ELSE "kf1+kf2"

=============================================================================
