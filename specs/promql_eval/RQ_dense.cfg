SPECIFICATION Spec
CONSTANTS
  Series = {"a"}
  MaxSamples = 5
  Gaps = {1}
  FirstT = 0
  MaxT = 5
  Kinds = {"f", "h"}
  Sels <- SelsA
  Offs = {0}
  Ats <- AtsNone
  Ranges = {2, 3}
  Funcs = {"count_over_time", "last_over_time", "first_over_time"}
  TsFuncs = {}
  SqRanges = {3}
  SqSteps = {1}
  SqOffs = {0}
  SqAts <- AtsNone
  MaxWraps = 2
  Starts = {1}
  StepSizes = {1, 2}
  NSteps = {3}
  Slacks = {0}
  OffTimes = {}
  OffDs = {}
  Lookbacks = {3}
  DefStep = 2
  EmitMode = "all"
VIEW View
INVARIANTS TypeOK RangeEqualsInstants OffsetLaw KnownDeviationsOnly
ACTION_CONSTRAINT Emit
CHECK_DEADLOCK FALSE
