SPECIFICATION Spec
CONSTANTS
  Scale = 40
  Ratios <- AllRatios
  OffsetIds <- AllOffsets
  MaxVec = 4
  EmitMode = "none"
INVARIANTS TypeOK Partition Monotone PrefixExact
CHECK_DEADLOCK FALSE
