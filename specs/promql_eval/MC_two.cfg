SPECIFICATION Spec
CONSTANTS
  Series = {"a", "b"}
  MaxSamples = 2
  Gaps = {2, 3}
  FirstT = 0
  MaxT = 5
  Kinds = {"f", "sf"}
  RunGaps = {}
  RunLens = {}
  MaxRuns = 0
  Sels <- SelsBoth
  Offs = {0}
  Ats <- AtsNone
  Ranges = {3}
  Funcs = {"count_over_time", "last_over_time"}
  TsFuncs = {"timestamp"}
  SqRanges = {4}
  SqSteps = {2}
  SqOffs = {0}
  SqAts <- AtsNone
  EvalTimes = {5}
  Lookbacks = {3}
  DefStep = 2
  MaxWraps = 2
  EmitMode = "all"
VIEW View
INVARIANTS TypeOK RefWellFormed ImplAgrees KnownDeviationsOnly
ACTION_CONSTRAINT Emit
CHECK_DEADLOCK FALSE
