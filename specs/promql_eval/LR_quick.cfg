SPECIFICATION Spec
CONSTANTS
  Scale = 40
  Ratios <- AllRatios
  OffsetIds <- AllOffsets
  MaxVec = 2
  NSteps = 3
  Patterns = {"all"}
  EmitMode = "all"
INVARIANTS TypeOK Partition Monotone PrefixExact StepIndependent
ACTION_CONSTRAINT Emit
CHECK_DEADLOCK FALSE
