SPECIFICATION Spec
CONSTANTS
  Scale = 40
  Ratios <- AllRatios
  OffsetIds <- AllOffsets
  MaxVec = 2
  EmitMode = "all"
INVARIANTS TypeOK Partition Monotone PrefixExact
ACTION_CONSTRAINT Emit
CHECK_DEADLOCK FALSE
