SPECIFICATION Spec
CONSTANTS
  Scale = 40
  Ratios <- AllRatios
  OffsetIds <- AllOffsets
  MaxVec = 8
  EmitMode = "none"
INVARIANTS TypeOK Partition Monotone PrefixExact EmitWalk
CHECK_DEADLOCK FALSE
