SPECIFICATION Spec
CONSTANTS
  Scale = 40
  Ratios <- AllRatios
  OffsetIds <- AllOffsets
  MaxVec = 8
  NSteps = 3
  Patterns = {"all", "all", "late", "stale1", "gap", "last"}
  EmitMode = "none"
INVARIANTS TypeOK Partition Monotone PrefixExact StepIndependent EmitWalk
CHECK_DEADLOCK FALSE
