SPECIFICATION Spec
CONSTANTS
  Series = {"a"}
  MaxSamples = 0
  Gaps = {}
  FirstT = 0
  MaxT = 360
  Kinds = {"f", "h"}
  RunGaps = {1, 6}
  RunLens = {24, 44}
  MaxRuns = 3
  Sels <- SelsA
  Offs = {0}
  Ats <- AtsNone
  Ranges = {20}
  Funcs = {"count_over_time", "first_over_time"}
  TsFuncs = {}
  SqRanges = {20}
  SqSteps = {1}
  SqOffs = {0}
  SqAts <- AtsNone
  MaxWraps = 2
  Starts = {30}
  StepSizes = {20}
  NSteps = {10}
  Slacks = {0}
  OffTimes = {}
  OffDs = {}
  Lookbacks = {3}
  DefStep = 2
  EmitMode = "all"
VIEW View
INVARIANTS TypeOK RangeEqualsInstants OffsetLaw KnownDeviationsOnly
ACTION_CONSTRAINT Emit
CHECK_DEADLOCK FALSE
