SPECIFICATION Spec
CONSTANTS
  Scale = 40
  Ratios <- AllRatios
  OffsetIds <- StepOffsets
  MaxVec = 2
  NSteps = 3
  Patterns <- AllPatterns
  EmitMode = "all"
INVARIANTS TypeOK Partition Monotone PrefixExact StepIndependent
ACTION_CONSTRAINT Emit
CHECK_DEADLOCK FALSE
