----------------------------- MODULE Selectors ------------------------------
(***************************************************************************)
(* C28 - selectors implement lookback, staleness and range windows; offset *)
(* and @ move the windows; subqueries evaluate at multiples of their step. *)
(*                                                                         *)
(* Generator + oracle.  Builder.tla fills a store and builds an expression; *)
(* this module adds                                                        *)
(*   Evaluate(t,lb) Engine.NewInstantQuery(..., ts = t) with lookback lb   *)
(*   Finish         Query.Exec: `res` carries the value predicted by the   *)
(*                  REFERENCE semantics (PromqlEval!Eval); the harness     *)
(*                  compares the real engine's answer with it.             *)
(* Besides, TLC checks on every generated case that the transcription of   *)
(* the engine's algorithm (PromqlEngine!ImplInstantQuery: PreprocessExpr,  *)
(* select hints, setOffsetForAtModifier, subqueryTimeRange,                *)
(* vectorSelectorSingle, matrixIterSlice), with the two proposed repairs,  *)
(* computes the same value as the reference (ImplAgrees), and that the     *)
(* code as it is deviates only as the known findings say.                  *)
(***************************************************************************)
EXTENDS Builder, TLC, Json

CONSTANTS EvalTimes, Lookbacks, DefStep,
          EmitMode     \* "all" | "none"

VARIABLES et, elb, res

vars == <<store, expr, stage, nwr, nruns, et, elb, res>>
View == <<store, expr, stage, et, elb>>

Init == BuildInit /\ et = 0 /\ elb = 0 /\ res = None

Evaluate(t, lb) ==
  /\ stage = "query" /\ expr # None
  /\ stage' = "eval" /\ et' = t /\ elb' = lb
  /\ UNCHANGED <<store, expr, nwr, nruns, res>>

Ctx(t, lb) == [qs |-> t, qe |-> t, lb |-> lb, ds |-> DefStep]

\* the engine's algorithm as it is / with some of the proposed repairs
Impl(fix) == ImplInstantQuery(store, expr, et, elb, DefStep, fix)

Finish ==
  /\ stage = "eval"
  /\ stage' = "done"
  /\ LET ref == Eval(store, expr, et, Ctx(et, elb))
         asIs == Impl({}) IN
     res' = [store |-> store, q |-> expr, t |-> et, lb |-> elb, ds |-> DefStep,
             ty |-> ExprType(expr), keep |-> KeepsName(expr),
             out |-> ref,
             ok |-> Impl(AllFixes) = ref,
             \* known deviations of the code that change this case's value, and the value the
             \* transcription of the code as it is computes (only when it differs)
             kf |-> KFLabel(asIs, Impl({"kf1"}), Impl({"kf2"}), ref),
             impl |-> IF asIs = ref THEN <<>> ELSE asIs]
  /\ UNCHANGED <<store, expr, nwr, nruns, et, elb>>

Next == \/ BuildNext /\ UNCHANGED <<et, elb, res>>
        \/ \E t \in EvalTimes, lb \in Lookbacks : Evaluate(t, lb)
        \/ Finish

Spec == Init /\ [][Next]_vars

-----------------------------------------------------------------------------
(* Properties checked by TLC on the design.                                 *)

TypeOK == BuildTypeOK

\* sanity of the reference itself: an instant vector has at most one point per series, stamped
\* with the evaluation time; matrix points are strictly increasing in time and never stale
RefWellFormed ==
  stage = "done" =>
    \A s \in Series :
      LET P == res.out[s] IN
      /\ Sorted(P)
      /\ \A i \in 1..Len(P) : ~IsStale(P[i].v)
      /\ res.ty = "vector" => Len(P) <= 1 /\ \A i \in 1..Len(P) : P[i].t = res.t

\* the engine's algorithm (transcribed in PromqlEngine.tla), with the two proposed one-line
\* repairs of KF-C28-1 and KF-C28-2 applied, computes the reference value ...
ImplAgrees == stage = "done" => res.ok

\* ... and without them it differs from the reference only in the ways the findings describe
KnownDeviationsOnly ==
  stage = "done" =>
    /\ res.kf \in {"kf1", "kf1+kf2"} => HasTimestampAtOffset(expr)
    /\ res.kf \in {"kf2", "kf1+kf2"} => HasShiftedSubqueryOverAt(expr)

-----------------------------------------------------------------------------
(* Emission.                                                                *)
Emit == \/ EmitMode # "all"
        \/ stage' # "done"
        \/ PrintT("@@TR " \o ToJson(res'))

\* simulation: Finish is the single successor of an "eval" state, so each walk prints once
EmitWalk == stage # "done" \/ PrintT("@@TR " \o ToJson(res))
=============================================================================
