----------------------------- MODULE Selectors ------------------------------
(***************************************************************************)
(* C28 - selectors implement lookback, staleness and range windows; offset *)
(* and @ move the windows; subqueries evaluate at multiples of their step. *)
(*                                                                         *)
(* The module is a generator + oracle:                                     *)
(*   stage "data"   AppendSample(s,dt,kd) one storage.Appender.Append /      *)
(*                                      AppendHistogram call (irregular    *)
(*                                      spacing, stale markers, NaN,       *)
(*                                      native histograms), then Seal      *)
(*                                      (Commit)                           *)
(*   stage "query"  MkVS / WrapRange / WrapCall / WrapSub build one        *)
(*                  well-typed expression bottom-up (the productions of    *)
(*                  generated_parser.y that C28 talks about)               *)
(*   Evaluate(t,lb) Engine.NewInstantQuery(..., ts = t) with lookback lb   *)
(*   Finish         Query.Exec: `res` carries the value predicted by the   *)
(*                  REFERENCE semantics (PromqlEval!Eval); the harness     *)
(*                  compares the real engine's answer with it.             *)
(* Besides, TLC checks on every generated case that the transcription of   *)
(* the engine's algorithm (PromqlEngine!ImplInstantQuery: PreprocessExpr,  *)
(* setOffsetForAtModifier, subqueryTimeRange, vectorSelectorSingle,        *)
(* matrixIterSlice) computes the same value as the reference (ImplAgrees). *)
(***************************************************************************)
EXTENDS PromqlEngine, TLC, Json

CONSTANTS Series,      \* subset of {"a","b"}
          MaxSamples,  \* samples per series
          Gaps,        \* spacing between consecutive samples of a series
          FirstT,      \* time of the slot before the first possible sample
          MaxT,        \* last sample time
          Kinds,       \* subset of {"f","n","i","sf","h","sh"}
          Sels,        \* sets of series selected by the matchers
          Offs, Ats,   \* selector offsets / @ modifiers
          Ranges,      \* range selector durations
          Funcs,       \* range functions used by WrapCall
          SqRanges, SqSteps, SqOffs, SqAts,
          EvalTimes, Lookbacks, DefStep,
          MaxWraps,    \* bound on Wrap* actions per expression
          EmitMode     \* "all" | "none"

VARIABLES store, expr, stage, nwr, et, elb, res

vars == <<store, expr, stage, nwr, et, elb, res>>
View == <<store, expr, stage, et, elb>>

None == [k |-> "none"]
SBase(s) == IF s = "a" THEN 10 ELSE 20

\* value of the n-th sample of series s with kind kd; ids are unique per store so that the
\* observed value identifies the selected sample
SampleOf(s, n, t, kd) ==
  CASE kd = "f"  -> [t |-> t, h |-> FALSE, v |-> Int2V(SBase(s) + n)]
    [] kd = "n"  -> [t |-> t, h |-> FALSE, v |-> NaN]
    [] kd = "i"  -> [t |-> t, h |-> FALSE, v |-> PInf]
    [] kd = "sf" -> [t |-> t, h |-> FALSE, v |-> Stale]
    [] kd = "h"  -> [t |-> t, h |-> TRUE,  v |-> Int2V(SBase(s) + n)]
    [] kd = "sh" -> [t |-> t, h |-> TRUE,  v |-> Stale]

Init == /\ store = [s \in Series |-> <<>>]
        /\ expr = None
        /\ stage = "data"
        /\ nwr = 0
        /\ et = 0 /\ elb = 0
        /\ res = None

\* storage.Appender.Append / AppendHistogram; series are filled in name order (appends to
\* different series commute)
AppendSample(s, dt, kd) ==
  /\ stage = "data"
  /\ Len(store[s]) < MaxSamples
  /\ \A s2 \in Series : SBase(s2) > SBase(s) => store[s2] = <<>>
  /\ LET last == IF store[s] = <<>> THEN FirstT ELSE store[s][Len(store[s])].t
         t == last + dt IN
     /\ t <= MaxT
     /\ store' = [store EXCEPT ![s] = Append(@, SampleOf(s, Len(@) + 1, t, kd))]
  /\ UNCHANGED <<expr, stage, nwr, et, elb, res>>

Seal == /\ stage = "data"
        /\ \E s \in Series : store[s] # <<>>
        /\ stage' = "query"
        /\ UNCHANGED <<store, expr, nwr, et, elb, res>>

MkVS(sel, off, at) ==
  /\ stage = "query" /\ expr = None
  /\ expr' = [k |-> "vs", sel |-> sel, off |-> off, at |-> at]
  /\ UNCHANGED <<store, stage, nwr, et, elb, res>>

WrapRange(r) ==
  /\ stage = "query" /\ expr.k = "vs" /\ nwr < MaxWraps
  /\ expr' = [k |-> "ms", vs |-> expr, r |-> r]
  /\ nwr' = nwr + 1
  /\ UNCHANGED <<store, stage, et, elb, res>>

WrapCall(f) ==
  /\ stage = "query" /\ expr # None /\ nwr < MaxWraps
  /\ IF f = "timestamp" THEN ExprType(expr) = "vector" ELSE ExprType(expr) = "matrix"
  /\ expr' = [k |-> "call", f |-> f, arg |-> expr]
  /\ nwr' = nwr + 1
  /\ UNCHANGED <<store, stage, et, elb, res>>

WrapSub(r, st, off, at) ==
  /\ stage = "query" /\ expr # None /\ nwr < MaxWraps
  /\ ExprType(expr) = "vector"
  /\ expr' = [k |-> "sq", e |-> expr, r |-> r, st |-> st, off |-> off, at |-> at]
  /\ nwr' = nwr + 1
  /\ UNCHANGED <<store, stage, et, elb, res>>

Evaluate(t, lb) ==
  /\ stage = "query" /\ expr # None
  /\ stage' = "eval" /\ et' = t /\ elb' = lb
  /\ UNCHANGED <<store, expr, nwr, res>>

Ctx(t, lb) == [qs |-> t, qe |-> t, lb |-> lb, ds |-> DefStep]

\* the engine's algorithm as it is / with some of the proposed repairs
Impl(fix) == ImplInstantQuery(store, expr, et, elb, DefStep, fix)

Finish ==
  /\ stage = "eval"
  /\ stage' = "done"
  /\ LET ref == Eval(store, expr, et, Ctx(et, elb))
         asIs == Impl({}) IN
     res' = [store |-> store, q |-> expr, t |-> et, lb |-> elb, ds |-> DefStep,
             ty |-> ExprType(expr), keep |-> KeepsName(expr),
             out |-> ref,
             \* known deviations of the code that change this case's value, and the value the
             \* transcription of the code as it is computes (only when it differs)
             kf |-> KFLabel(asIs, Impl({"kf1"}), Impl({"kf2"}), ref),
             impl |-> IF asIs = ref THEN <<>> ELSE asIs]
  /\ UNCHANGED <<store, expr, nwr, et, elb>>

Next == \/ \E s \in Series, dt \in Gaps, kd \in Kinds : AppendSample(s, dt, kd)
        \/ Seal
        \/ \E sel \in Sels, off \in Offs, at \in Ats : MkVS(sel, off, at)
        \/ \E r \in Ranges : WrapRange(r)
        \/ \E f \in Funcs \cup {"timestamp"} : WrapCall(f)
        \/ \E r \in SqRanges, st \in SqSteps, off \in SqOffs, at \in SqAts : WrapSub(r, st, off, at)
        \/ \E t \in EvalTimes, lb \in Lookbacks : Evaluate(t, lb)
        \/ Finish

Spec == Init /\ [][Next]_vars

-----------------------------------------------------------------------------
(* Properties checked by TLC on the design.                                 *)

Sorted(S) == \A i \in 1..(Len(S) - 1) : S[i].t < S[i + 1].t
TypeOK == /\ \A s \in Series : Sorted(store[s])
          /\ stage \in {"data", "query", "eval", "done"}

\* sanity of the reference itself: an instant vector has at most one point per series, stamped
\* with the evaluation time; matrix points are strictly increasing in time and never stale
RefWellFormed ==
  stage = "done" =>
    \A s \in Series :
      LET P == res.out[s] IN
      /\ Sorted(P)
      /\ \A i \in 1..Len(P) : ~IsStale(P[i].v)
      /\ res.ty = "vector" => Len(P) <= 1 /\ \A i \in 1..Len(P) : P[i].t = res.t

\* the engine's algorithm (transcribed in PromqlEngine.tla), with the two proposed one-line
\* repairs of KF-C28-1 and KF-C28-2 applied, computes the reference value ...
ImplAgrees == stage = "done" => Impl(AllFixes) = res.out

\* ... and without them it differs from the reference only in the ways the findings describe:
\* kf1 needs timestamp() over a selector with both @ and offset
RECURSIVE HasTimestampAtOffset(_)
HasTimestampAtOffset(e) ==
  CASE e.k = "vs" -> FALSE
    [] e.k = "ms" -> FALSE
    [] e.k = "sq" -> HasTimestampAtOffset(e.e)
    [] e.k = "call" -> \/ (e.f = "timestamp" /\ e.arg.k = "vs" /\ e.arg.at[1] # "none" /\ e.arg.off # 0)
                       \/ HasTimestampAtOffset(e.arg)
\* kf2 needs an @ modifier somewhere below a subquery that has an offset or an @ of its own
RECURSIVE HasAt(_)
HasAt(e) ==
  CASE e.k = "vs" -> e.at[1] # "none"
    [] e.k = "ms" -> e.vs.at[1] # "none"
    [] e.k = "sq" -> e.at[1] # "none" \/ HasAt(e.e)
    [] e.k = "call" -> HasAt(e.arg)
RECURSIVE HasShiftedSubqueryOverAt(_)
HasShiftedSubqueryOverAt(e) ==
  CASE e.k = "vs" -> FALSE
    [] e.k = "ms" -> FALSE
    [] e.k = "sq" -> ((e.off # 0 \/ e.at[1] # "none") /\ HasAt(e.e)) \/ HasShiftedSubqueryOverAt(e.e)
    [] e.k = "call" -> HasShiftedSubqueryOverAt(e.arg)
KnownDeviationsOnly ==
  stage = "done" =>
    /\ res.kf \in {"kf1", "kf1+kf2"} => HasTimestampAtOffset(expr)
    /\ res.kf \in {"kf2", "kf1+kf2"} => HasShiftedSubqueryOverAt(expr)

-----------------------------------------------------------------------------
(* Constant values that a .cfg cannot spell (tuples, sets of sets).         *)
SelsAB == {{"a"}, {"a", "b"}}
SelsBoth == {{"b"}, {"a", "b"}}
SelsA == {{"a"}}
Neg2 == -2
Neg3 == -3
OffsQuick == {0, 1, -2}
OffsBig == {0, 1, 3, -1, -2}
SqOffsQuick == {0, 1}
SqOffsBig == {0, 2, -1}
AtsNone == {NoAt}
AtsQuick == {NoAt, AtAbs(4)}
AtsMid == {NoAt, AtAbs(4), AtStart}
AtsBig == {NoAt, AtAbs(2), AtAbs(5), AtStart, AtEnd}

-----------------------------------------------------------------------------
(* Emission.                                                                *)
Emit == \/ EmitMode # "all"
        \/ stage' # "done"
        \/ PrintT("@@TR " \o ToJson(res'))

\* simulation: Finish is the single successor of an "eval" state, so each walk prints once
EmitWalk == stage # "done" \/ PrintT("@@TR " \o ToJson(res))
=============================================================================
