----------------------------- MODULE LimitRatio -----------------------------
(***************************************************************************)
(* C34 - complementary limit_ratio selections partition the input.         *)
(*                                                                         *)
(* Exact model.  Ratios and sampling offsets live on the integer grid      *)
(* 0..Scale (Scale = 40 stands for 1.0): ratios are the multiples of 4     *)
(* (0, 0.1, ..., 1.0); an offset u is                                      *)
(*     4k      exactly the ratio k/10                                      *)
(*     4k-1    the largest float below k/10      (harness: nextafter down) *)
(*     4k+1    the smallest float above k/10     (harness: nextafter up)   *)
(*     4k+2    somewhere inside the cell (k/10, (k+1)/10)                  *)
(*     39      the largest float below 1.0,  40 = 1.0 itself (what         *)
(*             SampleOffset returns for hashes >= 2^64 - 1024)             *)
(* so that every order relation the property depends on is exact in the    *)
(* model, and the harness can place real floats (and real label hashes,    *)
(* for the cell offsets) in the same order.                                *)
(*                                                                         *)
(* Reference (HashRatioSampler.AddRatioSampleWithOffset as documented):    *)
(*   r >= 0: selected iff offset < r;  r < 0: selected iff offset >= 1 + r *)
(* Implementation steps (aggregationK, LIMIT_RATIO branch): r = 0 returns  *)
(* nothing; |r| > 1 is clamped; every sample of the input vector is        *)
(* offered once (action Offer) and pushed on the group's heap iff          *)
(* AddRatioSample says so; the sample's value and timestamp play no role.  *)
(*                                                                         *)
(* TIME.  A range query (or a subquery) runs the same loop once per step   *)
(* over the series that have a sample at that step (rangeEvalAgg ->        *)
(* aggregationK with enh.Ts; series without a sample are skipped).  Every  *)
(* series therefore carries its presence pattern `pres` (the steps at      *)
(* which it has a sample: present throughout, starting late, stale at the  *)
(* first step, with a gap, only at the last step).  Whatever is remembered *)
(* between the steps must not change the answer: the selection of a series *)
(* at a step is its selection in an instant query at that step.            *)
(***************************************************************************)
EXTENDS Integers, Sequences, FiniteSets, TLC, Json

CONSTANTS Scale,       \* 40
          Ratios,      \* subset of 0..Scale (multiples of 4), the r of limit_ratio(r, v)
          OffsetIds,   \* offsets (0..Scale) a series may have
          MaxVec,      \* vector size
          NSteps,      \* steps of the range query
          Patterns,    \* presence patterns offered (see PatternSteps)
          EmitMode

VARIABLES vec,   \* the input: sequence of [o |-> offset, p |-> presence pattern]
          step,  \* current step of the range evaluation
          i,     \* next series to offer at this step
          pos,   \* pos[r][k] = offsets selected so far at step k by limit_ratio(r, v)
          neg,   \* neg[r][k] = offsets selected so far at step k by limit_ratio(r - 1, v)
          phase

vars == <<vec, step, i, pos, neg, phase>>

Steps == 1..NSteps
\* the steps at which a series with the given pattern has a sample
PatternSteps(p) ==
  CASE p = "all"    -> Steps
    [] p = "late"   -> Steps \ {1}          \* first sample after the first step
    [] p = "stale1" -> Steps \ {1}          \* a staleness marker at the first step
    [] p = "gap"    -> Steps \ {2}          \* stale / missing at the second step
    [] p = "last"   -> {NSteps}

\* AddRatioSampleWithOffset on the exact grid (ratio and offset scaled by Scale)
Clamp(r) == IF r > Scale THEN Scale ELSE IF r < -Scale THEN -Scale ELSE r
Sel(r, o) == IF r >= 0 THEN o < r ELSE o >= Scale + r
\* aggregationK: limit_ratio(0, v) is empty
Selected(r, o) == r # 0 /\ Sel(Clamp(r), o)

Init == /\ vec = <<>> /\ step = 1 /\ i = 1 /\ phase = "build"
        /\ pos = [r \in Ratios |-> [k \in Steps |-> {}]] /\ neg = [r \in Ratios |-> [k \in Steps |-> {}]]

\* the instant vector under limit_ratio: distinct label sets (= distinct offsets here), any value
AddSeries(o, p) ==
  /\ phase = "build" /\ Len(vec) < MaxVec
  /\ \A k \in 1..Len(vec) : vec[k].o < o          \* canonical order, distinct series
  /\ vec' = Append(vec, [o |-> o, p |-> p])
  /\ UNCHANGED <<step, i, pos, neg, phase>>

Run == /\ phase = "build" /\ vec # <<>>
       /\ phase' = "offer"
       /\ UNCHANGED <<vec, step, i, pos, neg>>

Present(n, k) == k \in PatternSteps(vec[n].p)

\* one iteration of the series loop of aggregationK at the current step, for every ratio and its
\* complement at once; a series without a sample at this step is skipped
Offer ==
  /\ phase = "offer" /\ step <= NSteps /\ i <= Len(vec)
  /\ LET o == vec[i].o IN
     IF Present(i, step)
     THEN /\ pos' = [r \in Ratios |-> IF Selected(r, o) THEN [pos[r] EXCEPT ![step] = @ \cup {o}] ELSE pos[r]]
          /\ neg' = [r \in Ratios |-> IF Selected(r - Scale, o) THEN [neg[r] EXCEPT ![step] = @ \cup {o}] ELSE neg[r]]
     ELSE UNCHANGED <<pos, neg>>
  /\ i' = i + 1
  /\ UNCHANGED <<vec, step, phase>>

\* rangeEvalAgg: next timestamp
NextStep ==
  /\ phase = "offer" /\ step <= NSteps /\ i > Len(vec)
  /\ step' = step + 1 /\ i' = 1
  /\ UNCHANGED <<vec, pos, neg, phase>>

Finish == /\ phase = "offer" /\ step > NSteps
          /\ phase' = "done"
          /\ UNCHANGED <<vec, step, i, pos, neg>>

Next == \/ \E o \in OffsetIds, p \in Patterns : AddSeries(o, p)
        \/ Run \/ Offer \/ NextStep \/ Finish

Spec == Init /\ [][Next]_vars

-----------------------------------------------------------------------------
(* C34 as invariants of the exact model.                                    *)
Offs == {vec[k].o : k \in 1..Len(vec)}
\* the input vector at step k
OffsAt(k) == {vec[n].o : n \in {m \in 1..Len(vec) : Present(m, k)}}
InRange(o) == o < Scale            \* offsets are documented to lie in [0, 1)

TypeOK == /\ phase \in {"build", "offer", "done"}
          /\ \A r \in Ratios, k \in Steps : pos[r][k] \subseteq OffsAt(k) /\ neg[r][k] \subseteq OffsAt(k)

\* at EVERY step: disjoint, and the union is the input at that step (offsets inside the documented range)
Partition ==
  phase = "done" =>
    \A r \in Ratios, k \in Steps :
      /\ pos[r][k] \cap neg[r][k] = {}
      /\ {o \in OffsAt(k) : InRange(o)} \subseteq pos[r][k] \cup neg[r][k]

\* at every step: raising r never deselects a sample
Monotone ==
  phase = "done" => \A r1 \in Ratios, r2 \in Ratios, k \in Steps : r1 <= r2 => pos[r1][k] \subseteq pos[r2][k]

\* labels only: a series is selected at a step iff an instant query at that step selects it, hence
\* its selection is the same at all the steps at which it is present
StepIndependent ==
  phase = "done" =>
    \A r \in Ratios, k \in Steps : \A o \in OffsAt(k) :
      /\ (o \in pos[r][k]) = Selected(r, o)
      /\ (o \in neg[r][k]) = Selected(r - Scale, o)

\* at every point of the loops the selection so far is exactly the reference on the processed prefix
Done(n, k) == k < step \/ (k = step /\ n < i)
PrefixExact ==
  \A r \in Ratios, k \in Steps :
    /\ pos[r][k] = {vec[n].o : n \in {m \in 1..Len(vec) : Done(m, k) /\ Present(m, k) /\ Selected(r, vec[m].o)}}
    /\ neg[r][k] = {vec[n].o : n \in {m \in 1..Len(vec) : Done(m, k) /\ Present(m, k) /\ Selected(r - Scale, vec[m].o)}}

-----------------------------------------------------------------------------
RECURSIVE SetToSeq(_)
SetToSeq(S) == IF S = {} THEN <<>> ELSE LET m == CHOOSE x \in S : \A y \in S : x <= y IN <<m>> \o SetToSeq(S \ {m})
RatioSeq == SetToSeq(Ratios)

\* pos / neg: [ratio index][step] -> selected offsets
Result == [vec |-> [n \in 1..Len(vec) |-> vec[n].o],
           pat |-> [n \in 1..Len(vec) |-> vec[n].p],
           pres |-> [n \in 1..Len(vec) |-> SetToSeq(PatternSteps(vec[n].p))],
           nsteps |-> NSteps,
           ratios |-> RatioSeq,
           pos |-> [x \in 1..Len(RatioSeq) |-> [k \in Steps |-> SetToSeq(pos[RatioSeq[x]][k])]],
           neg |-> [x \in 1..Len(RatioSeq) |-> [k \in Steps |-> SetToSeq(neg[RatioSeq[x]][k])]]]

\* pos / neg are complete when the last step has been processed (Finish changes nothing else)
Emit == \/ EmitMode # "all"
        \/ ~(phase = "offer" /\ phase' = "done")
        \/ PrintT("@@TR " \o ToJson(Result))
EmitWalk == phase # "done" \/ PrintT("@@TR " \o ToJson(Result))

AllRatios == {0, 4, 8, 12, 16, 20, 24, 28, 32, 36, 40}
\* every grid point: boundaries, their neighbours, cell interiors, and 1.0
AllOffsets == 0..40
CellOffsets == {2, 6, 10, 14, 18, 22, 26, 30, 34, 38}
\* cells and a few boundary neighbours, for the configurations with presence patterns
StepOffsets == {2, 10, 11, 12, 13, 22, 30, 38}
AllPatterns == {"all", "late", "stale1", "gap", "last"}
=============================================================================
