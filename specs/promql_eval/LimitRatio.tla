----------------------------- MODULE LimitRatio -----------------------------
(***************************************************************************)
(* C34 - complementary limit_ratio selections partition the input.         *)
(*                                                                         *)
(* Exact model.  Ratios and sampling offsets live on the integer grid      *)
(* 0..Scale (Scale = 40 stands for 1.0): ratios are the multiples of 4     *)
(* (0, 0.1, ..., 1.0); an offset u is                                      *)
(*     4k      exactly the ratio k/10                                      *)
(*     4k-1    the largest float below k/10      (harness: nextafter down) *)
(*     4k+1    the smallest float above k/10     (harness: nextafter up)   *)
(*     4k+2    somewhere inside the cell (k/10, (k+1)/10)                  *)
(*     39      the largest float below 1.0,  40 = 1.0 itself (what         *)
(*             SampleOffset returns for hashes >= 2^64 - 1024)             *)
(* so that every order relation the property depends on is exact in the    *)
(* model, and the harness can place real floats (and real label hashes,    *)
(* for the cell offsets) in the same order.                                *)
(*                                                                         *)
(* Reference (HashRatioSampler.AddRatioSampleWithOffset as documented):    *)
(*   r >= 0: selected iff offset < r;  r < 0: selected iff offset >= 1 + r *)
(* Implementation steps (aggregationK, LIMIT_RATIO branch): r = 0 returns  *)
(* nothing; |r| > 1 is clamped; every sample of the input vector is        *)
(* offered once (action Offer) and pushed on the group's heap iff          *)
(* AddRatioSample says so; the sample's value and timestamp play no role.  *)
(***************************************************************************)
EXTENDS Integers, Sequences, FiniteSets, TLC, Json

CONSTANTS Scale,       \* 40
          Ratios,      \* subset of 0..Scale (multiples of 4), the r of limit_ratio(r, v)
          OffsetIds,   \* offsets (0..Scale) a series may have
          MaxVec,      \* vector size
          EmitMode

VARIABLES vec,   \* the input vector: sequence of [o |-> offset, v |-> value id]
          i,     \* next sample to offer
          pos,   \* pos[r] = offsets selected so far by limit_ratio(r, v)
          neg,   \* neg[r] = offsets selected so far by limit_ratio(r - 1, v)
          phase

vars == <<vec, i, pos, neg, phase>>

\* AddRatioSampleWithOffset on the exact grid (ratio and offset scaled by Scale)
Clamp(r) == IF r > Scale THEN Scale ELSE IF r < -Scale THEN -Scale ELSE r
Sel(r, o) == IF r >= 0 THEN o < r ELSE o >= Scale + r
\* aggregationK: limit_ratio(0, v) is empty
Selected(r, o) == r # 0 /\ Sel(Clamp(r), o)

Init == /\ vec = <<>> /\ i = 1 /\ phase = "build"
        /\ pos = [r \in Ratios |-> {}] /\ neg = [r \in Ratios |-> {}]

\* the instant vector under limit_ratio: distinct label sets (= distinct offsets here), any value
AddSeries(o, v) ==
  /\ phase = "build" /\ Len(vec) < MaxVec
  /\ \A k \in 1..Len(vec) : vec[k].o < o          \* canonical order, distinct series
  /\ vec' = Append(vec, [o |-> o, v |-> v])
  /\ UNCHANGED <<i, pos, neg, phase>>

Run == /\ phase = "build" /\ vec # <<>>
       /\ phase' = "offer"
       /\ UNCHANGED <<vec, i, pos, neg>>

\* one iteration of the series loop of aggregationK, for every ratio and its complement at once
Offer ==
  /\ phase = "offer" /\ i <= Len(vec)
  /\ LET o == vec[i].o IN
     /\ pos' = [r \in Ratios |-> IF Selected(r, o) THEN pos[r] \cup {o} ELSE pos[r]]
     /\ neg' = [r \in Ratios |-> IF Selected(r - Scale, o) THEN neg[r] \cup {o} ELSE neg[r]]
  /\ i' = i + 1
  /\ UNCHANGED <<vec, phase>>

Finish == /\ phase = "offer" /\ i > Len(vec)
          /\ phase' = "done"
          /\ UNCHANGED <<vec, i, pos, neg>>

Next == \/ \E o \in OffsetIds, v \in {1} : AddSeries(o, v)
        \/ Run \/ Offer \/ Finish

Spec == Init /\ [][Next]_vars

-----------------------------------------------------------------------------
(* C34 as invariants of the exact model.                                    *)
Offs == {vec[k].o : k \in 1..Len(vec)}
InRange(o) == o < Scale            \* offsets are documented to lie in [0, 1)

TypeOK == /\ phase \in {"build", "offer", "done"}
          /\ \A r \in Ratios : pos[r] \subseteq Offs /\ neg[r] \subseteq Offs

\* disjoint, and the union is the whole input (for offsets inside the documented range)
Partition ==
  phase = "done" =>
    \A r \in Ratios :
      /\ pos[r] \cap neg[r] = {}
      /\ {o \in Offs : InRange(o)} \subseteq pos[r] \cup neg[r]

\* raising r never deselects a sample
Monotone ==
  phase = "done" => \A r1 \in Ratios, r2 \in Ratios : r1 <= r2 => pos[r1] \subseteq pos[r2]

\* at every point of the loop the selection so far is exactly the reference on the prefix
PrefixExact ==
  \A r \in Ratios :
    /\ pos[r] = {vec[k].o : k \in {n \in 1..(i - 1) : Selected(r, vec[n].o)}}
    /\ neg[r] = {vec[k].o : k \in {n \in 1..(i - 1) : Selected(r - Scale, vec[n].o)}}

-----------------------------------------------------------------------------
RECURSIVE SetToSeq(_)
SetToSeq(S) == IF S = {} THEN <<>> ELSE LET m == CHOOSE x \in S : \A y \in S : x <= y IN <<m>> \o SetToSeq(S \ {m})
RatioSeq == SetToSeq(Ratios)

Result == [vec |-> [k \in 1..Len(vec) |-> vec[k].o],
           ratios |-> RatioSeq,
           pos |-> [k \in 1..Len(RatioSeq) |-> SetToSeq(pos[RatioSeq[k]])],
           neg |-> [k \in 1..Len(RatioSeq) |-> SetToSeq(neg[RatioSeq[k]])]]

Emit == \/ EmitMode # "all"
        \/ ~(phase = "offer" /\ phase' = "done")
        \/ PrintT("@@TR " \o ToJson([vec |-> [k \in 1..Len(vec) |-> vec[k].o],
                                     ratios |-> RatioSeq,
                                     pos |-> [k \in 1..Len(RatioSeq) |-> SetToSeq(pos[RatioSeq[k]])],
                                     neg |-> [k \in 1..Len(RatioSeq) |-> SetToSeq(neg[RatioSeq[k]])]]))
EmitWalk == phase # "done" \/ PrintT("@@TR " \o ToJson(Result))

AllRatios == {0, 4, 8, 12, 16, 20, 24, 28, 32, 36, 40}
\* every grid point: boundaries, their neighbours, cell interiors, and 1.0
AllOffsets == 0..40
CellOffsets == {2, 6, 10, 14, 18, 22, 26, 30, 34, 38}
=============================================================================
