SPECIFICATION Spec
CONSTANTS
  Series = {"a"}
  MaxSamples = 3
  Gaps = {1, 2, 3}
  FirstT = 0
  MaxT = 4
  Kinds = {"f", "sf", "h"}
  RunGaps = {}
  RunLens = {}
  MaxRuns = 0
  Sels <- SelsA
  Offs <- OffsQuick
  Ats <- AtsQuick
  Ranges = {2, 3}
  Funcs = {"count_over_time"}
  TsFuncs = {"timestamp"}
  SqRanges = {4}
  SqSteps = {3}
  SqOffs <- SqOffsQuick
  SqAts <- AtsNone
  EvalTimes = {5}
  Lookbacks = {3}
  DefStep = 2
  MaxWraps = 2
  EmitMode = "all"
VIEW View
INVARIANTS TypeOK RefWellFormed ImplAgrees KnownDeviationsOnly
ACTION_CONSTRAINT Emit
CHECK_DEADLOCK FALSE
