SPECIFICATION Spec
CONSTANTS
  NQ = 2
  Ranges = {"lo", "full", "hi"}
  Phases = {"head", "ooo", "blocks"}
  EmitMode = "none"
  Record = FALSE
VIEW View0
INVARIANTS TypeOK ExactlyOnce NoUseAfterRelease ReadersOnLiveBlocks
CHECK_DEADLOCK FALSE
