SPECIFICATION Spec
CONSTANTS
  NQ = 2
  Ranges = {"0_4", "1_3", "0_2", "3_4"}
  Phases = {"head", "ooo", "blocks"}
  EmitMode = "none"
  Record = FALSE
VIEW View0
INVARIANTS TypeOK ExactlyOnce NoUseAfterRelease ReadersOnLiveBlocks
CHECK_DEADLOCK FALSE
