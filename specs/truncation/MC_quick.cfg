SPECIFICATION Spec
CONSTANTS
  NQ = 2
  Ranges = {"lo", "full", "hi"}
  Phases = {"head", "ooo", "blocks"}
  EmitMode = "class"
  Record = TRUE
  Variant = "none"
VIEW View0
INVARIANTS TypeOK ExactlyOnce NoUseAfterRelease ReadersOnLiveBlocks FlagImpliesTime EmitState EmitDone
ACTION_CONSTRAINT Emit
CHECK_DEADLOCK FALSE
