SPECIFICATION Spec
CONSTANTS
  NQ = 2
  Ranges = {"0_4", "1_3", "0_2", "3_4"}
  Phases = {"head", "ooo", "blocks"}
  EmitMode = "class"
  Record = TRUE
  Variant = "none"
VIEW View0
INVARIANTS TypeOK ExactlyOnce NoUseAfterRelease ReadersOnLiveBlocks FlagImpliesTime EmitState EmitDone
ACTION_CONSTRAINT Emit
CHECK_DEADLOCK FALSE
