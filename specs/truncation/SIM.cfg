SPECIFICATION Spec
CONSTANTS
  NQ = 3
  Ranges = {"lo", "full", "hi"}
  Phases = {"head", "ooo", "blocks"}
  EmitMode = "done"
  Record = TRUE
  Variant = "none"
INVARIANTS TypeOK ExactlyOnce NoUseAfterRelease ReadersOnLiveBlocks FlagImpliesTime EmitDone
CHECK_DEADLOCK FALSE
