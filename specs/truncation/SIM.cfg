SPECIFICATION Spec
CONSTANTS
  NQ = 3
  Ranges = {"0_2", "0_3", "0_4", "1_2", "1_3", "1_4", "2_2", "2_3", "2_4", "3_3", "3_4"}
  Phases = {"head", "ooo", "blocks"}
  EmitMode = "done"
  Record = TRUE
  Variant = "none"
INVARIANTS TypeOK ExactlyOnce NoUseAfterRelease ReadersOnLiveBlocks FlagImpliesTime EmitDone
CHECK_DEADLOCK FALSE
