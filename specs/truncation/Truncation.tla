----------------------------- MODULE Truncation -----------------------------
(***************************************************************************)
(* Queries racing with head compaction / memory truncation, out-of-order   *)
(* compaction and block compaction + parent deletion (C06).                *)
(*                                                                         *)
(* Code modelled (prometheus/tsdb, DESIGN Appendix A.2):                   *)
(*   db.go    DB.compactHead, DB.compactOOOHead, DB.compactBlocks,          *)
(*            DB.reloadBlocks (swap of db.blocks under db.mtx.Lock),        *)
(*            DB.deleteBlocks (Block.Close waits for pendingReaders),       *)
(*            DB.Querier (db.mtx.RLock from block snapshot to return)       *)
(*   head.go  Head.truncateMemory (lastMemoryTruncationTime, then           *)
(*            memTruncationInProcess, wait for readers, minTime, gc),       *)
(*            Head.IsQuerierCollidingWithTruncation, Head.truncateOOO       *)
(*   ooo_isolation.go / ooo_head_read.go  TrackReadAfter, chunk selection   *)
(*            by lastGarbageCollectedMmapRef                                *)
(*                                                                         *)
(* Data abstraction: five committed samples (one series and chunk each) on  *)
(* the abstract time axis 0..4, the truncation time T being 3:              *)
(*   "O" out-of-order, time 0: in the OOO head chunk; OOO compaction        *)
(*       m-maps it (ref 1), writes block b2, gc drops the m-mapped chunk    *)
(*   "L" in-order, time 1 (the head's old minimum) and                      *)
(*   "M" in-order, time 2 = T-1: head compaction moves them into block b1   *)
(*       = [1, T) and gc drops them from the head                           *)
(*   "B" in-order, time 3 = T exactly: stays in the head (blocks are        *)
(*       half-open), "A" in-order, time 4 = T+1: stays in the head          *)
(* b3 = compaction of b1 and b2, whose deletion must wait for readers.      *)
(* Query ranges [lo, hi] are placed relative to T: lo in {0 (below the OOO  *)
(* data), 1 (old head minimum, above the OOO data), 2 (inside), 3 (= T)},   *)
(* hi in {2 (T-1), 3 (T), 4 (T+1)}; ExactlyOnce is evaluated per query over *)
(* its own range.                                                           *)
(*                                                                         *)
(* Processes: one compaction thread (pc cpc, db.cmtx held throughout) and   *)
(* query threads 1..NQ.  db.mtx is modelled with writer preference (a       *)
(* pending Lock blocks new RLocks, as Go's sync.RWMutex does).              *)
(* Each action is the code segment between two verifhook sites, so TLC's    *)
(* interleavings can be forced on real goroutines.                          *)
(***************************************************************************)
EXTENDS Integers, Sequences, FiniteSets, TLC, Json

CONSTANTS NQ,        \* number of query threads
          Ranges,    \* set of query range names "<lo>_<hi>", e.g. "1_3" = [old head min, T]
          Phases,    \* subset of {"head","ooo","blocks"} the compaction thread runs, in this order
          EmitMode,  \* "all" | "state" | "none"
          Record,    \* TRUE: keep the history variable (FALSE for liveness checking without VIEW)
          Variant    \* "none", or a named design mutation used to show that the properties are not vacuous:
                     \* "reload_after_gc" (block list swapped after the head is truncated), "collide_le" (a query ending exactly at the truncation time is treated as below it), "no_wait" (truncation does not
                     \* wait for readers), "no_owait" (OOO gc does not wait), "publish_before_reload", "no_close_wait"

VARIABLES cpc,        \* compaction thread pc
          headIn,     \* in-order samples in the head
          oooChunk,   \* samples in the in-memory OOO head chunk
          oooMm,      \* samples in the m-mapped OOO chunk (ref 1)
          blk,        \* [block -> [st, smp, pend]]
          dbBlocks,   \* db.blocks (ids)
          headMin,    \* Head.minTime
          truncTime,  \* Head.lastMemoryTruncationTime (-1 = never)
          inProc,     \* Head.memTruncationInProcess
          lastGCRef,  \* DB.lastGarbageCollectedMmapRef
          mtxR,       \* queries holding db.mtx.RLock
          mtxWait,    \* the compaction thread is blocked in db.mtx.Lock()
          q,          \* per query record
          hist

vars == <<cpc, headIn, oooChunk, oooMm, blk, dbBlocks, headMin, truncTime, inProc, lastGCRef, mtxR, mtxWait, q, hist>>
View0 == <<cpc, headIn, oooChunk, oooMm, blk, dbBlocks, headMin, truncTime, inProc, lastGCRef, mtxR, mtxWait, q>>

Qs == 1..NQ
Blocks == {"b1", "b2", "b3"}
Samples == {"O", "L", "M", "B", "A"}
Time(s) == CASE s = "O" -> 0 [] s = "L" -> 1 [] s = "M" -> 2 [] s = "B" -> 3 [] s = "A" -> 4
InRange(s, lo, hi) == lo <= Time(s) /\ Time(s) <= hi
MaxI(a, b) == IF a >= b THEN a ELSE b
RangeOf(n) == CASE n = "0_2" -> <<0, 2>> [] n = "0_3" -> <<0, 3>> [] n = "0_4" -> <<0, 4>>
                [] n = "1_2" -> <<1, 2>> [] n = "1_3" -> <<1, 3>> [] n = "1_4" -> <<1, 4>>
                [] n = "2_2" -> <<2, 2>> [] n = "2_3" -> <<2, 3>> [] n = "2_4" -> <<2, 4>>
                [] n = "3_3" -> <<3, 3>> [] n = "3_4" -> <<3, 4>>
AllRanges == {"0_2", "0_3", "0_4", "1_2", "1_3", "1_4", "2_2", "2_3", "2_4", "3_3", "3_4"}
TT == 3       \* the truncation time (BlockMaxTime of the compacted head range)
HeadMin0 == 1 \* Head.MinTime before the truncation (the oldest in-order sample)
\* lowest time covered by a block: b1 = [old head min, T), the OOO block b2 and b3 are aligned to the block range [0, T)
BlockMin(b) == IF b = "b1" THEN HeadMin0 ELSE 0
\* Block.OverlapsClosedInterval(lo, hi) for a block [BlockMin, T)
BlockOverlaps(b, lo, hi) == BlockMin(b) <= hi /\ lo < TT

NoQ == [pc |-> "idle", lo |-> 0, hi |-> 0, snap |-> {}, ino |-> 0,
        hrd |-> {},        \* head reads registered in iso.readsOpen: set of <<lo, hi>>
        hq |-> <<>>,       \* plain head querier: <<>> (none) or <<lo, hi>> effective range
        flag |-> FALSE, ovo |-> FALSE,
        ord |-> -1,        \* OOO read registered with minRef (-1 = none)
        res |-> {}, err |-> FALSE]

\* the compaction thread's program: the pcs in execution order for the configured phases
HeadPcs == IF Variant = "reload_after_gc"
           THEN <<"c_write", "c_time", "c_flag", "c_waitstart", "c_waited", "c_min", "c_gc", "c_prelock", "c_lockreq", "c_swap", "c_ret">>
           ELSE <<"c_write", "c_prelock", "c_lockreq", "c_swap", "c_time", "c_flag", "c_waitstart", "c_waited", "c_min", "c_gc", "c_ret">>
OOOPcs  == IF Variant = "publish_before_reload"
           THEN <<"o_snap", "o_write", "o_reloaded", "o_pubreq", "o_published", "o_lockreq", "o_swap", "o_waitstart", "o_waited", "o_store", "o_gc", "o_ret">>
           ELSE <<"o_snap", "o_write", "o_lockreq", "o_swap", "o_reloaded", "o_pubreq", "o_published", "o_waitstart", "o_waited", "o_store", "o_gc", "o_ret">>
BlkPcs  == <<"b_write", "b_lockreq", "b_swap", "b_ret">>
Program == (IF "head" \in Phases THEN HeadPcs ELSE <<>>) \o (IF "ooo" \in Phases THEN OOOPcs ELSE <<>>)
           \o (IF "blocks" \in Phases THEN BlkPcs ELSE <<>>) \o <<"done">>
PcIdx(p) == CHOOSE i \in 1..Len(Program) : Program[i] = p
NextPc == Program[PcIdx(cpc) + 1]

Init ==
  /\ cpc = Program[1]
  /\ headIn = {"L", "M", "B", "A"} /\ oooChunk = {"O"} /\ oooMm = {}
  /\ blk = [b \in Blocks |-> [st |-> "none", smp |-> {}, pend |-> 0]]
  /\ dbBlocks = {}
  /\ headMin = HeadMin0 /\ truncTime = -1 /\ inProc = FALSE /\ lastGCRef = 0
  /\ mtxR = {} /\ mtxWait = FALSE
  /\ q = [i \in Qs |-> NoQ]
  /\ hist = <<>>
  /\ TLCSet(1, {})

\* WaitForPendingReadersInTimeRange(h.MinTime(), mint): overlap of [headMin, mint-1] with a registered read
NoHeadReadBelow(t) == \A i \in Qs : \A r \in q[i].hrd : ~(r[1] < t /\ headMin <= r[2])
CBlocked == \/ cpc = "c_waited" /\ ~NoHeadReadBelow(TT)
            \/ cpc = "o_waited" /\ \E i \in Qs : q[i].ord = 0
\* (last conjunct of every action) w = "after this step the maintenance thread is blocked in one of its
\* waits for readers"; the replay harness uses it to tell a legitimate arrival from a premature one
Log(rec) == hist' = IF Record THEN Append(hist, rec @@ [w |-> CBlocked']) ELSE hist

-----------------------------------------------------------------------------
(* Compaction thread.  CStep(p) = "the thread is at pc p and moves on".      *)

CAdv(rec) == /\ cpc' = NextPc /\ Log([t |-> "c", a |-> cpc])

UnchC == UNCHANGED <<mtxR, q>>

\* compactor.Write(head range [headMin, TT)) : the in-order samples below TT
CWrite == /\ cpc = "c_write"
          /\ blk' = [blk EXCEPT !["b1"] = [st |-> "written", smp |-> {s \in headIn : Time(s) < TT}, pend |-> 0]]
          /\ UNCHANGED <<headIn, oooChunk, oooMm, dbBlocks, headMin, truncTime, inProc, lastGCRef, mtxWait>> /\ UnchC
          /\ CAdv(<<>>)
\* reloadBlocks up to the swap: openBlocks (no shared state changes)
CPrelock == /\ cpc \in {"c_prelock"}
            /\ UNCHANGED <<headIn, oooChunk, oooMm, blk, dbBlocks, headMin, truncTime, inProc, lastGCRef, mtxWait>> /\ UnchC
            /\ CAdv(<<>>)
\* db.mtx.Lock() is called: from now on new RLocks queue behind it
LockReq == /\ cpc \in {"c_lockreq", "o_lockreq", "o_pubreq", "b_lockreq"}
           /\ mtxWait' = TRUE
           /\ UNCHANGED <<headIn, oooChunk, oooMm, blk, dbBlocks, headMin, truncTime, inProc, lastGCRef>> /\ UnchC
           /\ CAdv(<<>>)
\* the swap of db.blocks: written blocks become visible; parents of a loaded block leave the list
Swap(new, gone) ==
  /\ mtxR = {}
  /\ mtxWait' = FALSE
  /\ dbBlocks' = (dbBlocks \cup {new}) \ gone
  /\ blk' = [b \in Blocks |-> IF b = new THEN [blk[b] EXCEPT !.st = "loaded"] ELSE blk[b]]
CSwap == /\ cpc = "c_swap" /\ Swap("b1", {})
         /\ UNCHANGED <<headIn, oooChunk, oooMm, headMin, truncTime, inProc, lastGCRef>> /\ UnchC /\ CAdv(<<>>)
CTime == /\ cpc = "c_time" /\ truncTime' = TT
         /\ UNCHANGED <<headIn, oooChunk, oooMm, blk, dbBlocks, headMin, inProc, lastGCRef, mtxWait>> /\ UnchC /\ CAdv(<<>>)
CFlag == /\ cpc = "c_flag" /\ inProc' = TRUE
         /\ UNCHANGED <<headIn, oooChunk, oooMm, blk, dbBlocks, headMin, truncTime, lastGCRef, mtxWait>> /\ UnchC /\ CAdv(<<>>)
\* the thread enters the polling loop / leaves it once no registered read overlaps the truncated range
WaitStart == /\ cpc \in {"c_waitstart", "o_waitstart"}
             /\ UNCHANGED <<headIn, oooChunk, oooMm, blk, dbBlocks, headMin, truncTime, inProc, lastGCRef, mtxWait>> /\ UnchC /\ CAdv(<<>>)
CWaited == /\ cpc = "c_waited" /\ (Variant = "no_wait" \/ NoHeadReadBelow(TT))
           /\ UNCHANGED <<headIn, oooChunk, oooMm, blk, dbBlocks, headMin, truncTime, inProc, lastGCRef, mtxWait>> /\ UnchC /\ CAdv(<<>>)
CMin == /\ cpc = "c_min" /\ headMin' = TT
        /\ UNCHANGED <<headIn, oooChunk, oooMm, blk, dbBlocks, truncTime, inProc, lastGCRef, mtxWait>> /\ UnchC /\ CAdv(<<>>)
\* Head.gc: chunks entirely below minTime are dropped
CGc == /\ cpc = "c_gc" /\ headIn' = {s \in headIn : Time(s) >= headMin}
       /\ UNCHANGED <<oooChunk, oooMm, blk, dbBlocks, headMin, truncTime, inProc, lastGCRef, mtxWait>> /\ UnchC /\ CAdv(<<>>)
CRet == /\ cpc = "c_ret" /\ inProc' = FALSE
        /\ UNCHANGED <<headIn, oooChunk, oooMm, blk, dbBlocks, headMin, truncTime, lastGCRef, mtxWait>> /\ UnchC /\ CAdv(<<>>)

\* NewOOOCompactionHead: every OOO head chunk is m-mapped (ref 1 = lastMmapRef)
OSnap == /\ cpc = "o_snap" /\ oooMm' = oooMm \cup oooChunk /\ oooChunk' = {}
         /\ UNCHANGED <<headIn, blk, dbBlocks, headMin, truncTime, inProc, lastGCRef, mtxWait>> /\ UnchC /\ CAdv(<<>>)
OWrite == /\ cpc = "o_write"
          /\ blk' = [blk EXCEPT !["b2"] = [st |-> "written", smp |-> oooMm, pend |-> 0]]
          /\ UNCHANGED <<headIn, oooChunk, oooMm, dbBlocks, headMin, truncTime, inProc, lastGCRef, mtxWait>> /\ UnchC /\ CAdv(<<>>)
OSwap == /\ cpc = "o_swap" /\ Swap("b2", {})
         /\ UNCHANGED <<headIn, oooChunk, oooMm, headMin, truncTime, inProc, lastGCRef>> /\ UnchC /\ CAdv(<<>>)
OReloaded == /\ cpc = "o_reloaded"
             /\ UNCHANGED <<headIn, oooChunk, oooMm, blk, dbBlocks, headMin, truncTime, inProc, lastGCRef, mtxWait>> /\ UnchC /\ CAdv(<<>>)
\* db.lastGarbageCollectedMmapRef = lastMmapRef, under db.mtx.Lock
OPublished == /\ cpc = "o_published" /\ mtxR = {} /\ mtxWait' = FALSE /\ lastGCRef' = 1
              /\ UNCHANGED <<headIn, oooChunk, oooMm, blk, dbBlocks, headMin, truncTime, inProc>> /\ UnchC /\ CAdv(<<>>)
\* WaitForPendingReadersForOOOChunksAtOrBefore(1): no OOO read with minRef < 1
OWaited == /\ cpc = "o_waited" /\ (Variant = "no_owait" \/ \A i \in Qs : q[i].ord # 0)
           /\ UNCHANGED <<headIn, oooChunk, oooMm, blk, dbBlocks, headMin, truncTime, inProc, lastGCRef, mtxWait>> /\ UnchC /\ CAdv(<<>>)
OStore == /\ cpc = "o_store"
          /\ UNCHANGED <<headIn, oooChunk, oooMm, blk, dbBlocks, headMin, truncTime, inProc, lastGCRef, mtxWait>> /\ UnchC /\ CAdv(<<>>)
OGc == /\ cpc = "o_gc" /\ oooMm' = {}
       /\ UNCHANGED <<headIn, oooChunk, blk, dbBlocks, headMin, truncTime, inProc, lastGCRef, mtxWait>> /\ UnchC /\ CAdv(<<>>)
ORet == /\ cpc = "o_ret"
        /\ UNCHANGED <<headIn, oooChunk, oooMm, blk, dbBlocks, headMin, truncTime, inProc, lastGCRef, mtxWait>> /\ UnchC /\ CAdv(<<>>)

\* compactBlocks: LeveledCompactor.Compact(b1, b2) -> b3 on disk
Parents == {b \in {"b1", "b2"} : blk[b].st = "loaded"}
BWrite == /\ cpc = "b_write"
          /\ blk' = [blk EXCEPT !["b3"] = [st |-> "written", smp |-> UNION {blk[b].smp : b \in Parents}, pend |-> 0]]
          /\ UNCHANGED <<headIn, oooChunk, oooMm, dbBlocks, headMin, truncTime, inProc, lastGCRef, mtxWait>> /\ UnchC /\ CAdv(<<>>)
BSwap == /\ cpc = "b_swap" /\ Swap("b3", Parents)
         /\ UNCHANGED <<headIn, oooChunk, oooMm, headMin, truncTime, inProc, lastGCRef>> /\ UnchC /\ CAdv(<<>>)
\* deleteBlocks, per parent: Block.Close (closing = true, wait for pendingReaders), then remove the directory.
\* These are internal steps of the thread between the sites db.reload.swapped and the return of Compact.
BClose(b) == /\ cpc = "b_ret" /\ blk[b].st = "loaded" /\ b \notin dbBlocks
             /\ blk' = [blk EXCEPT ![b].st = "closing"]
             /\ UNCHANGED <<cpc, headIn, oooChunk, oooMm, dbBlocks, headMin, truncTime, inProc, lastGCRef, mtxWait>> /\ UnchC
             /\ Log([t |-> "c", a |-> "b_close", b |-> b])
BRemove(b) == /\ cpc = "b_ret" /\ blk[b].st = "closing" /\ (Variant = "no_close_wait" \/ blk[b].pend = 0)
              /\ \A o \in Blocks : blk[o].st # "closing" \/ o = b   \* one parent at a time
              /\ blk' = [blk EXCEPT ![b].st = "removed"]
              /\ UNCHANGED <<cpc, headIn, oooChunk, oooMm, dbBlocks, headMin, truncTime, inProc, lastGCRef, mtxWait>> /\ UnchC
              /\ Log([t |-> "c", a |-> "b_remove", b |-> b])
BRet == /\ cpc = "b_ret" /\ \A b \in Blocks : blk[b].st \in {"none", "removed"} \/ b \in dbBlocks
        /\ UNCHANGED <<headIn, oooChunk, oooMm, blk, dbBlocks, headMin, truncTime, inProc, lastGCRef, mtxWait>> /\ UnchC /\ CAdv(<<>>)
\* only one Block.Close is in progress at a time
BCloseOne(b) == BClose(b) /\ \A o \in Blocks : blk[o].st # "closing"

Compaction == \/ CWrite \/ CPrelock \/ LockReq \/ CSwap \/ CTime \/ CFlag \/ WaitStart \/ CWaited \/ CMin \/ CGc \/ CRet
              \/ OSnap \/ OWrite \/ OSwap \/ OReloaded \/ OPublished \/ OWaited \/ OStore \/ OGc \/ ORet
              \/ BWrite \/ BSwap \/ BRet \/ \E b \in {"b1", "b2"} : BCloseOne(b) \/ BRemove(b)

-----------------------------------------------------------------------------
(* Query threads: DB.Querier, Select + drain, Close.                        *)

UnchQ == UNCHANGED <<cpc, headIn, oooChunk, oooMm, dbBlocks, headMin, truncTime, inProc, lastGCRef, mtxWait>>

\* RLock, snapshot of the blocks overlapping the range           [-> site db.querier.snapshotted]
QSnap(i, rn) ==
  LET r == RangeOf(rn) IN
  /\ q[i].pc = "idle" /\ ~mtxWait
  /\ \A j \in Qs : j < i => q[j].pc # "idle"             \* symmetry: queries start in index order
  /\ mtxR' = mtxR \cup {i}
  /\ q' = [q EXCEPT ![i] = [NoQ EXCEPT !.pc = "snapped", !.lo = r[1], !.hi = r[2],
                            !.snap = {b \in dbBlocks : BlockOverlaps(b, r[1], r[2])}]]
  /\ UNCHANGED blk /\ UnchQ
  /\ Log([t |-> "q", i |-> i, a |-> "q_snap", range |-> rn, lo |-> r[1], hi |-> r[2], snap |-> {b \in dbBlocks : BlockOverlaps(b, r[1], r[2])},
          exp |-> {s \in Samples : InRange(s, r[1], r[2])}])

\* overlapsOOO, inoMint; the head querier is opened (and its read registered) only if the range reaches the
\* head (maxt >= Head.MinTime) or overlaps the OOO data          [-> db.querier.head_opened | db.querier.head_done]
QOpenHead(i) ==
  /\ q[i].pc = "snapped"
  /\ LET ov   == q[i].lo <= 0          \* the OOO time range [.., 0] overlaps the query
         ino  == IF headMin > q[i].lo THEN headMin ELSE q[i].lo
         need == q[i].hi >= headMin \/ ov
     IN /\ q' = [q EXCEPT ![i].pc = IF need THEN "headopen" ELSE "headdone", ![i].ovo = ov, ![i].ino = ino,
                          ![i].hrd = IF need THEN {<<q[i].lo, q[i].hi>>} ELSE {},
                          ![i].hq = IF need THEN <<ino, q[i].hi>> ELSE <<>>]
        /\ UNCHANGED <<blk, mtxR>> /\ UnchQ
        /\ Log([t |-> "q", i |-> i, a |-> "q_openhead", need |-> need])

\* IsQuerierCollidingWithTruncation, first load: memTruncationInProcess
\*   false -> returns                                              [-> db.querier.checked]
\*   true  ->                                                      [-> head.collide.flag_seen]
QCheckFlag(i) ==
  /\ q[i].pc = "headopen"
  /\ q' = [q EXCEPT ![i].pc = IF inProc THEN "flagseen" ELSE "checked", ![i].flag = inProc]
  /\ UNCHANGED <<blk, mtxR>> /\ UnchQ
  /\ Log([t |-> "q", i |-> i, a |-> "q_checkflag", flag |-> inProc])

\* "the query lies entirely below the truncation time": querierMaxt < memTruncTime (blocks are half-open, the
\* sample at the truncation time itself stays in the head); the design mutation "collide_le" uses <=
Below(hi, tt) == IF Variant = "collide_le" THEN hi <= tt ELSE hi < tt
\* second load: lastMemoryTruncationTime; decide close / reopen          [-> db.querier.checked]
\* (the decision is kept in flag/ino; it is applied by QResolve)
QCheckTime(i) ==
  /\ q[i].pc = "flagseen"
  /\ q' = [q EXCEPT ![i].pc = "checked",
                    ![i].flag = (Below(q[i].hi, truncTime) \/ q[i].lo < truncTime),       \* shouldClose
                    ![i].ino = IF Below(q[i].hi, truncTime) \/ q[i].lo < truncTime THEN truncTime ELSE q[i].ino]
  /\ UNCHANGED <<blk, mtxR>> /\ UnchQ
  /\ Log([t |-> "q", i |-> i, a |-> "q_checktime", tt |-> truncTime])

\* apply the decision: close the head querier, open a new one from newMint when the range still
\* overlaps; then wrap with the OOO querier (TrackReadAfter(lastGCRef), second head read [inoMint, hi])
\*                                                                    [-> db.querier.head_done]
QResolve(i) ==
  /\ q[i].pc = "checked"
  /\ LET close  == q[i].flag
         getnew == close /\ ~Below(q[i].hi, q[i].ino)
         hq1    == IF ~close THEN q[i].hq ELSE IF getnew THEN <<MaxI(q[i].ino, headMin), q[i].hi>> ELSE <<>>
         hrd1   == IF ~close THEN q[i].hrd ELSE IF getnew THEN {<<q[i].ino, q[i].hi>>} ELSE {}
         hrd2   == IF q[i].ovo THEN hrd1 \cup {<<q[i].ino, q[i].hi>>} ELSE hrd1
     IN q' = [q EXCEPT ![i].pc = "headdone", ![i].hq = hq1, ![i].hrd = hrd2,
                       ![i].ord = IF q[i].ovo THEN lastGCRef ELSE -1]
  /\ UNCHANGED <<blk, mtxR>> /\ UnchQ
  /\ Log([t |-> "q", i |-> i, a |-> "q_resolve"])

\* block queriers: pendingReaders++ (startRead fails if the block is closing) [-> db.querier.blocks_opened]
QOpenBlocks(i) ==
  /\ q[i].pc = "headdone"
  /\ blk' = [b \in Blocks |-> IF b \in q[i].snap /\ blk[b].st = "loaded" THEN [blk[b] EXCEPT !.pend = @ + 1] ELSE blk[b]]
  /\ q' = [q EXCEPT ![i].pc = "blocksopen", ![i].err = \E b \in q[i].snap : blk[b].st # "loaded"]
  /\ UNCHANGED mtxR /\ UnchQ
  /\ Log([t |-> "q", i |-> i, a |-> "q_openblocks"])

\* Querier returns: RUnlock
QReturn(i) ==
  /\ q[i].pc = "blocksopen"
  /\ mtxR' = mtxR \ {i}
  /\ q' = [q EXCEPT ![i].pc = "ready"]
  /\ UNCHANGED blk /\ UnchQ
  /\ Log([t |-> "q", i |-> i, a |-> "q_return"])

\* Select + drain, what the merged querier returns (ChainedSeriesMerge collapses equal timestamps of a series)
HeadPart(i) ==
  IF q[i].ovo THEN {s \in headIn : InRange(s, MaxI(q[i].ino, q[i].lo), q[i].hi)}    \* HeadAndOOOIndexReader: in-order chunks from inoMint
  ELSE IF q[i].hq = <<>> THEN {} ELSE {s \in headIn : InRange(s, q[i].hq[1], q[i].hq[2])}
OOOPart(i) ==
  IF ~q[i].ovo THEN {}
  ELSE {s \in oooChunk : InRange(s, q[i].lo, q[i].hi)}
       \cup (IF 1 > q[i].ord THEN {s \in oooMm : InRange(s, q[i].lo, q[i].hi)} ELSE {})
BlockPart(i) == UNION {{s \in blk[b].smp : InRange(s, q[i].lo, q[i].hi)} : b \in q[i].snap}
QIter(i) ==
  /\ q[i].pc = "ready"
  /\ q' = [q EXCEPT ![i].pc = "drained",
                    ![i].res = HeadPart(i) \cup OOOPart(i) \cup BlockPart(i),
                    ![i].err = q[i].err \/ \E b \in q[i].snap : blk[b].st = "removed"]
  /\ UNCHANGED <<blk, mtxR>> /\ UnchQ
  /\ Log([t |-> "q", i |-> i, a |-> "q_iter",
          exp |-> {s \in Samples : InRange(s, q[i].lo, q[i].hi)},          \* what the property demands
          got |-> HeadPart(i) \cup OOOPart(i) \cup BlockPart(i)])          \* what the modelled protocol yields

\* Close: unregister reads, pendingReaders--
QClose(i) ==
  /\ q[i].pc = "drained"
  /\ blk' = [b \in Blocks |-> IF b \in q[i].snap /\ blk[b].pend > 0 THEN [blk[b] EXCEPT !.pend = @ - 1] ELSE blk[b]]
  /\ q' = [q EXCEPT ![i].pc = "closed", ![i].hrd = {}, ![i].hq = <<>>, ![i].ord = -1]
  /\ UNCHANGED mtxR /\ UnchQ
  /\ Log([t |-> "q", i |-> i, a |-> "q_close"])

QueryI(i) == \/ \E r \in Ranges : QSnap(i, r)
             \/ QOpenHead(i) \/ QCheckFlag(i) \/ QCheckTime(i) \/ QResolve(i)
             \/ QOpenBlocks(i) \/ QReturn(i) \/ QIter(i) \/ QClose(i)
Query == \E i \in Qs : QueryI(i)

Next == Compaction \/ Query
Spec == Init /\ [][Next]_vars
FairSpec == Spec /\ WF_vars(Compaction) /\ \A i \in Qs : WF_vars(QueryI(i))

-----------------------------------------------------------------------------
(* Properties.                                                              *)

TypeOK == /\ cpc \in {Program[i] : i \in 1..Len(Program)}
          /\ headMin \in {HeadMin0, TT} /\ truncTime \in {-1, TT} /\ lastGCRef \in {0, 1}
          /\ \A b \in Blocks : blk[b].pend \in 0..NQ

\* every committed sample lives somewhere a new query can find it
Present(s) == s \in headIn \/ s \in oooChunk \/ s \in oooMm \/ \E b \in dbBlocks : s \in blk[b].smp

\* ExactlyOnce: a drained query returned exactly the committed samples of its range, without error
ExactlyOnce == \A i \in Qs : q[i].pc \in {"drained", "closed"} =>
                 /\ ~q[i].err
                 /\ q[i].res = {s \in Samples : InRange(s, q[i].lo, q[i].hi)}

\* NoUseAfterRelease: a block is never removed while a query still reads it
NoUseAfterRelease == \A b \in Blocks : blk[b].st = "removed" => blk[b].pend = 0
ReadersOnLiveBlocks == \A i \in Qs : q[i].pc \in {"blocksopen", "ready"} => \A b \in q[i].snap : blk[b].st # "removed"

\* the ordering argument of Appendix A.2: whoever sees the flag also sees the truncation time and the new block
FlagImpliesTime == inProc => truncTime = TT /\ "b1" \in dbBlocks \cup {b \in Blocks : blk[b].st \in {"closing", "removed"}}

\* Progress: maintenance finishes once overlapping queries close (checked under FairSpec, Record = FALSE)
Progress == <>(cpc = "done")

-----------------------------------------------------------------------------
(* Behaviour emission.                                                      *)

Beh == [steps |-> hist,
        qs |-> [i \in Qs |-> [pc |-> q[i].pc, lo |-> q[i].lo, hi |-> q[i].hi, snap |-> q[i].snap]]]
\* coverage class of a transition: the step taken, where the compaction thread stands, and what the
\* query threads are doing (pc and range) - "this query step happens at that point of the maintenance protocol"
Coarse(pc) == CASE pc = "idle" -> "idle"
                 [] pc \in {"snapped", "headopen", "flagseen", "checked", "headdone", "blocksopen"} -> "in"   \* inside DB.Querier (RLock held)
                 [] pc \in {"ready", "drained"} -> "open"
                 [] OTHER -> "closed"
Class == LET l == hist'[Len(hist')] IN
         IF l.t = "q" THEN <<l.a, q'[l.i].lo, q'[l.i].hi, cpc'>>
         ELSE <<l.a, {<<Coarse(q'[i].pc), q'[i].lo, q'[i].hi>> : i \in {j \in Qs : Coarse(q'[j].pc) \in {"in", "open"}}}>>
Emit == CASE EmitMode = "all" -> PrintT("@@TR " \o ToJson(Beh'))
          [] EmitMode = "class" -> (\/ hist' = hist
                                    \/ Class \in TLCGet(1)
                                    \/ /\ TLCSet(1, TLCGet(1) \cup {Class})
                                       /\ PrintT("@@TR " \o ToJson(Beh')))
          [] OTHER -> TRUE
EmitState == EmitMode # "state" \/ PrintT("@@TR " \o ToJson(Beh))
\* terminal states only: every thread finished (complete behaviours)
AllDone == cpc = "done" /\ \A i \in Qs : q[i].pc = "closed"
EmitDone == EmitMode # "done" \/ ~AllDone \/ PrintT("@@TR " \o ToJson(Beh))
=============================================================================
