SPECIFICATION FairSpec
CONSTANTS
  NQ = 2
  Ranges = {"0_4", "1_3", "0_2", "3_4"}
  Phases = {"head", "ooo", "blocks"}
  EmitMode = "none"
  Record = FALSE
  Variant = "none"
INVARIANTS TypeOK
PROPERTIES Progress
CHECK_DEADLOCK FALSE
