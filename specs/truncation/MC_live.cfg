SPECIFICATION FairSpec
CONSTANTS
  NQ = 2
  Ranges = {"lo", "full", "hi"}
  Phases = {"head", "ooo", "blocks"}
  EmitMode = "none"
  Record = FALSE
  Variant = "none"
INVARIANTS TypeOK
PROPERTIES Progress
CHECK_DEADLOCK FALSE
