SPECIFICATION Spec
CONSTANTS
  NQ = 3
  Ranges = {"0_4", "1_3", "0_2", "3_4"}
  Phases = {"head", "ooo", "blocks"}
  EmitMode = "none"
  Record = FALSE
  Variant = "none"
VIEW View0
INVARIANTS TypeOK ExactlyOnce NoUseAfterRelease ReadersOnLiveBlocks FlagImpliesTime
CHECK_DEADLOCK FALSE
