SPECIFICATION Spec
CONSTANTS
  NQ = 3
  Ranges = {"lo", "full", "hi"}
  Phases = {"head", "ooo", "blocks"}
  EmitMode = "none"
  Record = FALSE
  Variant = "none"
VIEW View0
INVARIANTS TypeOK ExactlyOnce NoUseAfterRelease ReadersOnLiveBlocks FlagImpliesTime
CHECK_DEADLOCK FALSE
