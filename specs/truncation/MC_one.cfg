SPECIFICATION Spec
CONSTANTS
  NQ = 1
  Ranges = {"0_2", "0_3", "0_4", "1_2", "1_3", "1_4", "2_2", "2_3", "2_4", "3_3", "3_4"}
  Phases = {"head", "ooo", "blocks"}
  EmitMode = "class"
  Record = TRUE
  Variant = "none"
VIEW View0
INVARIANTS TypeOK ExactlyOnce NoUseAfterRelease ReadersOnLiveBlocks FlagImpliesTime EmitState EmitDone
ACTION_CONSTRAINT Emit
CHECK_DEADLOCK FALSE
