------------------------------ MODULE RuleGroup ------------------------------
(***************************************************************************)
(* Recording rules of rule groups, their staleness markers and reloads     *)
(* (rules/group.go Group.Eval / CopyState / cleanupStaleSeries / run's     *)
(* markStale path, rules/recording.go, rules/manager.go Update) -- C45.    *)
(*                                                                         *)
(* Input data: a metric m with one series per element of S; at every       *)
(* evaluation a subset of S is present (scraped at that timestamp with a   *)
(* value that identifies series and time).  Time advances by one unit at   *)
(* every evaluation and every reload; units are further apart than the     *)
(* lookback delta (the harness uses wall-clock milliseconds and a 1 ms     *)
(* lookback), so an instant query sees exactly the samples stored at its   *)
(* own timestamp.                                                          *)
(*                                                                         *)
(* Rules (RuleDef): "ra" a = m, "rb" b = a (depends on ra), "rc" c = m     *)
(* with an extra rule label.  A configuration maps group names to          *)
(* sequences of rules; Update(c) is Manager.Update with that file set.     *)
(*                                                                         *)
(* State per group: rules, Group.seriesInPreviousEval (one set per rule),  *)
(* Group.staleSeries.  `store` is the TSDB: per series the in-order list   *)
(* of samples (t, v) with v = Stale for a staleness marker.                *)
(*                                                                         *)
(* The storage rules that matter (tsdb head, DiscardOutOfOrder appender):  *)
(* a sample older than the newest of its series is rejected, a sample at   *)
(* the newest timestamp is accepted silently iff it has the same value     *)
(* (error otherwise); a rejected sample is not a "series returned".        *)
(***************************************************************************)
EXTENDS Integers, Sequences, FiniteSets, TLC, Json

CONSTANTS S,           \* input series ids (strings)
          ConfigIds,   \* configurations Update may install (indices into Configs)
          InitConfig,
          MaxUpdates, MaxOps,
          EmitMode     \* "all" | "class" | "none"

VARIABLES now,         \* time of the last evaluation (integer units)
          conf,        \* current configuration id
          groups,      \* group name -> [rules: Seq(rule id), prev: Seq(SUBSET Series), stale: SUBSET Series]
          store,       \* the TSDB: set of samples [k (series), t, v]
          removed,     \* groups removed by the last Update whose markStale cleanup has not run yet:
                       \* set of [g, t (time of the stop), ks (series to mark)]
          started,     \* group name -> has Group.run passed its initial wait (first evaluation slot)
          updates, nops, hist

vars == <<now, conf, groups, store, removed, started, updates, nops, hist>>
View == <<conf, groups, removed, started, updates,
          {<<x.k, now - x.t, IF x.v = 0 - 1 THEN 0 - 1 ELSE x.v - 100 * x.t>> : x \in store}>>

Stale == 0 - 1
GroupNames == {"g1", "g2"}

\* configurations (a function over group names; <<>> = group absent)
Configs ==
  <<[g1 |-> <<"ra", "rb">>,       g2 |-> <<>>],            \* 1 dependent pair in order
    [g1 |-> <<"rb", "ra">>,       g2 |-> <<>>],            \* 2 dependent pair reversed
    [g1 |-> <<"ra">>,             g2 |-> <<"rc">>],        \* 3 rb removed, new group
    [g1 |-> <<"ra", "rc">>,       g2 |-> <<"rb">>],        \* 4 rb moved to another group
    [g1 |-> <<"ra", "ra", "rb">>, g2 |-> <<>>],            \* 5 duplicate rule
    [g1 |-> <<"rc">>,             g2 |-> <<"ra", "rb">>],  \* 6 pair moved to g2
    [g1 |-> <<"ra">>,             g2 |-> <<>>]>>           \* 7 only ra

\* a series = [n |-> metric name, s |-> input series id, k |-> extra label ("" or "v")]
RuleName(r) == CASE r = "ra" -> "a" [] r = "rb" -> "b" [] r = "rc" -> "c"
RuleSrc(r)  == CASE r = "ra" -> "m" [] r = "rb" -> "a" [] r = "rc" -> "m"
RuleK(r)    == IF r = "rc" THEN "v" ELSE ""
Ser(n, s, k) == [n |-> n, s |-> s, k |-> k]
AllSer == [n : {"a", "b", "c"}, s : S, k : {"", "v"}]

ValOf(s, t) == 100 * t + (IF s = CHOOSE x \in S : TRUE THEN 1 ELSE 2)

Of(st, k) == {x \in st : x.k = k}
LastOf(st, k) == IF Of(st, k) # {} THEN CHOOSE x \in Of(st, k) : \A y \in Of(st, k) : y.t <= x.t
                 ELSE [k |-> k, t |-> 0 - 100, v |-> 0]

\* storage.Appender.Append as the rule manager uses it
AppendOK(st, k, t, v) == LET l == LastOf(st, k) IN t > l.t \/ (t = l.t /\ v = l.v)
AppendTo(st, k, t, v) ==
  LET l == LastOf(st, k) IN
  IF t > l.t THEN st \cup {[k |-> k, t |-> t, v |-> v]} ELSE st

\* instant query at ts: the samples stored at ts (evaluations are further apart than the lookback)
\* `present` = input series scraped at ts with value ValOf
Query(st, src, ts, present) ==
  IF src = "m" THEN {[s |-> s, v |-> ValOf(s, ts)] : s \in present}
  ELSE {[s |-> k.s, v |-> LastOf(st, k).v] :
          k \in {x \in AllSer : x.n = src /\ x.k = "" /\ LastOf(st, x).t = ts /\ LastOf(st, x).v # Stale}}

\* append a set of (series, value) one after the other; all series are distinct so the order is irrelevant
RECURSIVE AppendAll(_, _, _)
AppendAll(st, smp, ts) ==
  IF smp = {} THEN st
  ELSE LET x == CHOOSE y \in smp : TRUE IN AppendAll(AppendTo(st, x.k, ts, x.v), smp \ {x}, ts)

\* one rule of Group.Eval: query, rename, append results, append staleness markers, commit
EvalRule(st, r, prev, ts, present) ==
  LET res   == Query(st, RuleSrc(r), ts, present)
      smp   == {[k |-> Ser(RuleName(r), x.s, RuleK(r)), v |-> x.v] : x \in res}
      ret   == {x.k : x \in {y \in smp : AppendOK(st, y.k, ts, y.v)}}            \* seriesReturned
      st1   == AppendAll(st, smp, ts)
      gone  == prev \ ret
      st2   == AppendAll(st1, {[k |-> k, v |-> Stale] : k \in gone}, ts)
  IN [st |-> st2, ret |-> ret]

RECURSIVE EvalRules(_, _, _, _, _, _)
EvalRules(st, rules, prevs, i, ts, present) ==
  IF i > Len(rules) THEN [st |-> st, prevs |-> prevs]
  ELSE LET e == EvalRule(st, rules[i], prevs[i], ts, present)
       IN EvalRules(e.st, rules, [prevs EXCEPT ![i] = e.ret], i + 1, ts, present)

WrittenAt(st, ts) == {[k |-> x.k, v |-> x.v] : x \in {y \in st : y.t = ts}}

\* Group.Eval(ts) of group g with the input series `present` scraped at ts
Eval(g, present) ==
  LET ts == now + 1
      G  == groups[g]
      e  == EvalRules(store, G.rules, G.prev, 1, ts, present)
      \* cleanupStaleSeries: markers for series of rules removed by the last reload
      st == AppendAll(e.st, {[k |-> k, v |-> Stale] : k \in G.stale}, ts)
  IN /\ G.rules # <<>> /\ removed = {} /\ started[g]
     /\ now' = ts
     /\ store' = st
     /\ groups' = [groups EXCEPT ![g] = [rules |-> G.rules, prev |-> e.prevs, stale |-> {}]]
     /\ UNCHANGED <<conf, removed, started, updates>>
     /\ nops' = nops + 1
     /\ hist' = Append(hist, [a |-> "Eval", g |-> g, ts |-> ts, present |-> present, nstale |-> Cardinality(G.stale),
                              input |-> {[s |-> s, v |-> ValOf(s, ts)] : s \in present},
                              written |-> WrittenAt(st, ts)])

\* Group.CopyState: rules matched by name+labels, first with first; unmatched old rules' series go stale
RECURSIVE Match(_, _, _, _)
\* returns for each new rule position the index of the matched old rule or 0
Match(newr, oldr, i, used) ==
  IF i > Len(newr) THEN <<>>
  ELSE LET cands == {j \in 1..Len(oldr) : oldr[j] = newr[i] /\ j \notin used}
           j == IF cands = {} THEN 0 ELSE CHOOSE x \in cands : \A y \in cands : x <= y
       IN <<j>> \o Match(newr, oldr, i + 1, IF j = 0 THEN used ELSE used \cup {j})

RECURSIVE PrevOf(_, _, _)
PrevOf(mt, oldprev, n) == IF n = 0 THEN <<>> ELSE Append(PrevOf(mt, oldprev, n - 1), IF mt[n] = 0 THEN {} ELSE oldprev[mt[n]])
CopyState(newRules, old) ==
  LET mt == Match(newRules, old.rules, 1, {})
      matched == {mt[i] : i \in 1..Len(mt)} \ {0}
  IN [rules |-> newRules,
      prev  |-> PrevOf(mt, old.prev, Len(mt)),
      stale |-> old.stale \cup UNION {old.prev[j] : j \in (1..Len(old.rules)) \ matched}]

RECURSIVE Empties(_)
Empties(n) == IF n = 0 THEN <<>> ELSE Append(Empties(n - 1), {})
NewGroup(rs) == [rules |-> rs, prev |-> Empties(Len(rs)), stale |-> {}]

AllSeries(G) == UNION {G.prev[i] : i \in 1..Len(G.prev)} \cup G.stale

Reloaded(c, g) ==
  IF Configs[c][g] = groups[g].rules THEN groups[g]                 \* Equals: old group kept
  ELSE IF Configs[c][g] = <<>> THEN NewGroup(<<>>)                   \* removed (or still absent)
  ELSE IF groups[g].rules = <<>> THEN NewGroup(Configs[c][g])        \* new group
  ELSE CopyState(Configs[c][g], groups[g])

\* Manager.Update at time now+1: unchanged groups are kept, changed ones get a new Group + CopyState,
\* removed ones are stopped with markStale (their cleanup runs later, on their own goroutine, with the
\* time of the stop as timestamp)
Update(c) ==
  /\ c # conf /\ updates < MaxUpdates /\ removed = {}
  /\ conf' = c
  /\ now' = now + 1
  /\ updates' = updates + 1
  /\ groups' = [g1 |-> Reloaded(c, "g1"), g2 |-> Reloaded(c, "g2")]
  \* Group.run registers the markStale cleanup before its initial wait, so a group removed before its first
  \* slot marks the series it inherited through CopyState as well (KF-C45-1, fixed in 9bf58a02b3: the defer
  \* used to be registered after the wait and such a group wrote no markers)
  /\ removed' = {[g |-> g, t |-> now + 1, ks |-> AllSeries(groups[g]), started |-> started[g]] :
                   g \in {x \in GroupNames : Configs[c][x] = <<>> /\ groups[x].rules # <<>>}}
  /\ started' = [g1 |-> started["g1"] /\ Configs[c]["g1"] = groups["g1"].rules,
                 g2 |-> started["g2"] /\ Configs[c]["g2"] = groups["g2"].rules]
  /\ UNCHANGED store
  /\ nops' = nops + 1
  /\ hist' = Append(hist, [a |-> "Update", t |-> now + 1, conf |-> c, cfg |-> Configs[c], removed |-> {x.g : x \in removed'},
                           kept |-> {g \in GroupNames : Configs[c][g] = groups[g].rules /\ groups[g].rules # <<>>}])

\* Group.run: the initial wait for the group's first evaluation slot is over (nothing else happens:
\* the harness replaces the evaluation function and drives Group.Eval itself)
Start(g) ==
  /\ groups[g].rules # <<>> /\ ~started[g] /\ removed = {}
  /\ started' = [started EXCEPT ![g] = TRUE]
  /\ UNCHANGED <<now, conf, groups, store, removed, updates>>
  /\ nops' = nops + 1
  /\ hist' = Append(hist, [a |-> "Start", g |-> g])

\* Group.run's deferred markStale path of the removed groups (two intervals after the stop): every series
\* of the last evaluation (and pending staleSeries) gets a marker at the time of the stop.
\* (Modelled as happening before anything else; in the code other groups keep evaluating meanwhile.)
Cleanup ==
  /\ removed # {}
  /\ LET smp == UNION {{[k |-> k, v |-> Stale, t |-> x.t] : k \in x.ks} : x \in removed}
         st  == AppendAll(store, {[k |-> y.k, v |-> y.v] : y \in smp}, now)
     IN /\ store' = st
        /\ hist' = Append(hist, [a |-> "Cleanup", groups |-> {x.g : x \in removed}, t |-> now,
                                 unstarted |-> {x.g : x \in {y \in removed : ~y.started}},
                                 written |-> WrittenAt(st, now)])
  /\ removed' = {}
  /\ UNCHANGED <<now, conf, groups, started, updates>>
  /\ nops' = nops + 1

Init ==
  /\ now = 10
  /\ conf = InitConfig
  /\ groups = [g1 |-> NewGroup(Configs[InitConfig]["g1"]), g2 |-> NewGroup(Configs[InitConfig]["g2"])]
  /\ store = {}
  /\ removed = {}
  /\ started = [g1 |-> FALSE, g2 |-> FALSE]
  /\ updates = 0 /\ nops = 0
  /\ hist = <<[a |-> "Init", conf |-> InitConfig, cfg |-> Configs[InitConfig], series |-> S]>>
  /\ TLCSet(1, {})

End == nops = MaxOps /\ nops' = MaxOps + 1 /\ UNCHANGED <<now, conf, groups, store, removed, started, updates, hist>>

Next == \/ /\ nops < MaxOps
           /\ \/ \E g \in GroupNames, p \in SUBSET S : Eval(g, p)
              \/ \E g \in GroupNames : Start(g)
              \/ \E c \in ConfigIds : Update(c)
              \/ Cleanup
        \/ End

Spec == Init /\ [][Next]_vars
-----------------------------------------------------------------------------
(* The property as stated (C45), independent of the transcription.          *)

Last(h) == h[Len(h)]
IsEval == hist' # hist /\ Last(hist').a = "Eval"
Has(st, k, t, v) == [k |-> k, t |-> t, v |-> v] \in st

TypeOK == /\ \A x, y \in store : (x.k = y.k /\ x.t = y.t) => x = y
          /\ \A g \in GroupNames : Len(groups[g].prev) = Len(groups[g].rules)

\* (1) every result of a rule reading the input is stored at the evaluation time under the rule's name and labels
Ref_Stored == [][IsEval => LET e == Last(hist') IN
  \A i \in 1..Len(groups[e.g].rules) : LET r == groups[e.g].rules[i] IN
     RuleSrc(r) = "m" => \A s \in e.present :
        Has(store', Ser(RuleName(r), s, RuleK(r)), e.ts, ValOf(s, e.ts))]_vars

\* (2) rules run in order: b = a records at ts exactly what an `a` rule placed EARLIER in the same group stored at ts
Ref_Order == [][IsEval => LET e == Last(hist')
                             rs == groups[e.g].rules
                             firstB == {j \in 1..Len(rs) : rs[j] = "rb"} IN
  \A j \in firstB :
     LET seesA == \E i \in 1..(j - 1) : rs[i] = "ra" IN
     \A s \in S :
        LET k == Ser("b", s, "") IN
        IF seesA /\ s \in e.present
        THEN Has(store', k, e.ts, ValOf(s, e.ts))
        ELSE ~Has(store', k, e.ts, ValOf(s, e.ts))]_vars

\* (3) no series produced by the previous successful evaluation of the group (or inherited from removed rules)
\*     is left without a sample at this evaluation time: it is either produced again or marked stale
Ref_Stale == [][IsEval => LET e == Last(hist') IN
  \A k \in AllSeries(groups[e.g]) : LastOf(store', k).t = e.ts]_vars

\* only results and staleness markers are written, and only at the evaluation time
Ref_OnlyNow == [][IsEval => LET e == Last(hist') IN
  /\ store \subseteq store'
  /\ \A x \in store' \ store : x.t = e.ts /\ (Of(store, x.k) = {} => x.v # Stale)]_vars   \* a series never starts with a marker

\* (4) removing a rule or a group on reload: no live series is ever orphaned -- every series whose newest sample
\*     is a value belongs to a rule's last result, to a group's pending staleSeries or to a pending removed group
Owned == UNION {AllSeries(groups[g]) : g \in GroupNames} \cup UNION {x.ks : x \in removed}
NoOrphan == \A k \in AllSer : (Of(store, k) # {} /\ LastOf(store, k).v # Stale) => k \in Owned
\*     ... and what is pending is marked at the group's next evaluation / at the removed group's cleanup
Ref_Removed == [][(hist' # hist /\ Last(hist').a = "Cleanup") =>
                    \A x \in removed : \A k \in x.ks : LastOf(store', k).t = x.t]_vars

-----------------------------------------------------------------------------
Class ==
  LET e == Last(hist') IN
  IF e.a = "Eval"
  THEN <<"Eval", conf, e.g, e.present, groups[e.g].prev, groups[e.g].stale,
         {<<w.k.n, w.k.s, w.v = Stale>> : w \in e.written},
         \* what the previous step was (an evaluation of the same group that flushed staleSeries, ...)
         LET q == hist[Len(hist)] IN
         IF q.a = "Eval" THEN <<"Eval", q.g = e.g, q.nstale > 0>> ELSE <<q.a>>>>
  ELSE IF e.a = "Update" THEN <<"Update", conf, e.conf, groups["g1"].prev, groups["g2"].prev, started>>
  ELSE IF e.a = "Start" THEN <<"Start", e.g, conf>>
  ELSE <<"Cleanup", {<<w.k.n, w.k.s>> : w \in e.written}, e.unstarted>>

Emit ==
  CASE EmitMode = "none" -> TRUE
    [] EmitMode = "all"  -> hist' = hist \/ PrintT("@@TR " \o ToJson(hist'))
    [] hist' = hist -> TRUE
    [] OTHER -> LET cl == Class IN
                \/ cl \in TLCGet(1)
                \/ /\ TLCSet(1, TLCGet(1) \cup {cl})
                   /\ PrintT("@@TR " \o ToJson(hist'))
EmitWalk == nops <= MaxOps \/ PrintT("@@TR " \o ToJson(hist))
=============================================================================
