SPECIFICATION Spec
CONSTANTS
  S = {"x", "y", "z"}
  ConfigIds = {1, 2, 3, 4, 5, 6, 7}
  InitConfig = 1
  MaxUpdates = 6
  EmitMode = "none"
INVARIANTS TypeOK NoOrphan EmitWalk
PROPERTIES Ref_Stored Ref_Order Ref_Stale Ref_OnlyNow Ref_Removed
CHECK_DEADLOCK FALSE
