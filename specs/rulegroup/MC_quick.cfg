SPECIFICATION Spec
CONSTANTS
  S = {"x", "y"}
  ConfigIds = {1, 2, 3, 4, 5, 6, 7}
  InitConfig = 1
  MaxUpdates = 3
  MaxOps = 6
  EmitMode = "class"
VIEW View
INVARIANTS TypeOK NoOrphan
PROPERTIES Ref_Stored Ref_Order Ref_Stale Ref_OnlyNow Ref_Removed
ACTION_CONSTRAINT Emit
CHECK_DEADLOCK FALSE
