------------------------------- MODULE Relabel -------------------------------
(***************************************************************************)
(* Relabeling (model/relabel/relabel.go, C38).                             *)
(*                                                                         *)
(* State: `ls` = the label set being relabelled (a function from label     *)
(* names to non-empty values; strings are sequences of characters so that  *)
(* regular expressions and templates can be interpreted by the spec) and   *)
(* `kept` = whether processing still goes on.  One action:                 *)
(*   Apply(r)   one iteration of relabel.ProcessBuilder = relabel(cfg, lb) *)
(* A history Init, Apply(r1), Apply(r2).. is a rule chain; every step      *)
(* carries the label set and the keep flag the REFERENCE predicts.         *)
(*                                                                         *)
(* REFERENCE = direct interpretation of the documented actions (Interp),   *)
(* with fully anchored regular expressions (Perl-like leftmost-first       *)
(* submatches, the semantics of package regexp) and regexp.Expand          *)
(* templates.  TRANSCRIPTION = the code's special cases that must not be   *)
(* observable (the replace fast path): TLC checks they agree.              *)
(***************************************************************************)
EXTENDS Integers, Sequences, FiniteSets, TLC, Json

CONSTANTS
  InitNames,    \* label names (strings) of the initial label sets
  InitVals,     \* values (strings) of the initial label sets
  RuleFamilies, \* which rule families are enumerated (see Rules)
  Scheme,       \* "legacy" | "utf8"  (name validation scheme of the configs)
  MaxInit,      \* largest initial label set
  MaxLen,       \* longest value / name kept in the model (longer results prune the step)
  MaxLabels,    \* largest label set kept in the model
  MaxOps,       \* chain length bound
  Mode,         \* "mc" | "sim"
  EmitMode      \* "all" | "class" | "none"

VARIABLES ls, kept, nops, hist, last      \* last = the rule applied by the latest step (ghost)
vars == <<ls, kept, nops, hist, last>>
View == <<ls, kept>>

Range(q) == {q[i] : i \in DOMAIN q}
Last(q)  == q[Len(q)]

-----------------------------------------------------------------------------
(* Strings.  A model string is a sequence of one-character strings; S("ab") *)
(* cannot be written in TLA+, so the string constants are given as tuples   *)
(* and Str joins a tuple back into a TLA+ string for the JSON output.       *)
RECURSIVE Str(_)
Str(q) == IF q = <<>> THEN "" ELSE Head(q) \o Str(Tail(q))

Lower == [c \in {"A", "B"} |-> IF c = "A" THEN "a" ELSE "b"]
Upper == [c \in {"a", "b", "x", "t"} |-> CASE c = "a" -> "A" [] c = "b" -> "B" [] c = "x" -> "X" [] c = "t" -> "T"]
ToLower(q) == [i \in DOMAIN q |-> IF q[i] \in DOMAIN Lower THEN Lower[q[i]] ELSE q[i]]
ToUpper(q) == [i \in DOMAIN q |-> IF q[i] \in DOMAIN Upper THEN Upper[q[i]] ELSE q[i]]
Letters == {"a", "b", "x", "t", "n", "A", "B", "X", "T", "h"}
Digits  == {"0", "1", "2", "3"}
WordCh  == Letters \cup Digits \cup {"_"}

\* model.ValidationScheme.IsValidLabelName
ValidName(q) == IF Scheme = "utf8" THEN q # <<>>
                ELSE /\ q # <<>>
                     /\ q[1] \in Letters \cup {"_"}
                     /\ \A i \in DOMAIN q : q[i] \in WordCh

-----------------------------------------------------------------------------
(* Regular expressions: abstract syntax, concrete syntax (Render) and the   *)
(* leftmost-first matcher.  M(e,s,i,c) is the sequence, in priority order,  *)
(* of the ways e can match s starting at position i: [j |-> next position,  *)
(* c |-> captures].  The anchored match is the first way that consumes all  *)
(* of s - what a backtracking matcher finds first, and what package regexp  *)
(* reports for ^(?s:e)$.                                                    *)
Lit(ch)      == [k |-> "lit", c |-> ch]
AnyCh          == [k |-> "any"]
Set(cs)      == [k |-> "set", cs |-> cs]
Eps          == [k |-> "eps"]
Cat(l, r)    == [k |-> "cat", l |-> l, r |-> r]
Alt(l, r)    == [k |-> "alt", l |-> l, r |-> r]
Star(e)      == [k |-> "star", e |-> e, g |-> TRUE]
Lazy(e)      == [k |-> "star", e |-> e, g |-> FALSE]
Plus(e)      == Cat(e, Star(e))
Opt(e)       == Alt(e, Eps)
Cap(i, e)    == [k |-> "cap", i |-> i, nm |-> "", e |-> e]
Named(i, n, e) == [k |-> "cap", i |-> i, nm |-> n, e |-> e]
RECURSIVE Word(_)
Word(q) == IF Len(q) = 1 THEN Lit(q[1]) ELSE Cat(Lit(q[1]), Word(Tail(q)))

RECURSIVE Render(_)
Render(e) ==
  CASE e.k = "lit"  -> e.c
    [] e.k = "any"  -> "."
    [] e.k = "set"  -> "[" \o Str(e.cs) \o "]"
    [] e.k = "eps"  -> ""
    [] e.k = "cat"  -> Render(e.l) \o Render(e.r)
    [] e.k = "alt"  -> "(?:" \o Render(e.l) \o "|" \o Render(e.r) \o ")"
    [] e.k = "star" -> "(?:" \o Render(e.e) \o ")*" \o (IF e.g THEN "" ELSE "?")
    [] e.k = "cap"  -> (IF e.nm = "" THEN "(" ELSE "(?P<" \o e.nm \o ">") \o Render(e.e) \o ")"

FlatMap(q, F(_)) == LET RECURSIVE go(_)
                        go(i) == IF i > Len(q) THEN <<>> ELSE F(q[i]) \o go(i + 1)
                    IN go(1)

NoCaps == [i \in 1..2 |-> <<0, 0>>]       \* <<0,0>> = group did not participate

RECURSIVE M(_, _, _, _)
M(e, s, i, c) ==
  CASE e.k = "lit"  -> IF i <= Len(s) /\ s[i] = e.c THEN <<[j |-> i + 1, c |-> c]>> ELSE <<>>
    [] e.k = "any"  -> IF i <= Len(s) THEN <<[j |-> i + 1, c |-> c]>> ELSE <<>>
    [] e.k = "set"  -> IF i <= Len(s) /\ s[i] \in Range(e.cs) THEN <<[j |-> i + 1, c |-> c]>> ELSE <<>>
    [] e.k = "eps"  -> <<[j |-> i, c |-> c]>>
    [] e.k = "cat"  -> LET F(r) == M(e.r, s, r.j, r.c) IN FlatMap(M(e.l, s, i, c), F)
    [] e.k = "alt"  -> M(e.l, s, i, c) \o M(e.r, s, i, c)
    [] e.k = "star" -> LET adv  == SelectSeq(M(e.e, s, i, c), LAMBDA r : r.j > i)
                           F(r) == M(e, s, r.j, r.c)
                           more == FlatMap(adv, F)
                           stop == <<[j |-> i, c |-> c]>>
                       IN IF e.g THEN more \o stop ELSE stop \o more
    [] e.k = "cap"  -> LET F(r) == <<[j |-> r.j, c |-> [r.c EXCEPT ![e.i] = <<i, r.j>>]]>>
                       IN FlatMap(M(e.e, s, i, c), F)

\* FindStringSubmatchIndex of the anchored expression: [ok, c]
Match(e, s) == LET full == SelectSeq(M(e, s, 1, NoCaps), LAMBDA r : r.j = Len(s) + 1)
               IN IF full = <<>> THEN [ok |-> FALSE, c |-> NoCaps] ELSE [ok |-> TRUE, c |-> full[1].c]
Group(s, c, i) == IF i = 0 THEN s
                  ELSE IF i > 2 \/ c[i] = <<0, 0>> THEN <<>> ELSE SubSeq(s, c[i][1], c[i][2] - 1)

RECURSIVE GroupNames(_)
GroupNames(e) ==       \* index -> name of the named groups
  CASE e.k \in {"lit", "any", "set", "eps"} -> {}
    [] e.k \in {"cat", "alt"} -> GroupNames(e.l) \cup GroupNames(e.r)
    [] e.k = "star" -> GroupNames(e.e)
    [] e.k = "cap"  -> (IF e.nm = "" THEN {} ELSE {<<e.i, e.nm>>}) \cup GroupNames(e.e)

-----------------------------------------------------------------------------
(* regexp.Expand: $name / ${name}, name = longest run of letters, digits    *)
(* and '_'; a purely numeric name is a group index (no leading zeros), any  *)
(* other name a named group; unknown / unmatched references expand to "";   *)
(* $$ is a literal $; a malformed reference leaves the $ as raw text.       *)
RECURSIVE WordRun(_, _)
WordRun(tp, i) == IF i <= Len(tp) /\ tp[i] \in WordCh THEN WordRun(tp, i + 1) ELSE i   \* first index after the run

IsNum(nm) == /\ \A i \in DOMAIN nm : nm[i] \in Digits
             /\ ~(Len(nm) > 1 /\ nm[1] = "0")
Num(nm)   == IF Len(nm) > 1 THEN 99      \* two or more digits: beyond every group of the model
             ELSE CASE nm[1] = "0" -> 0 [] nm[1] = "1" -> 1 [] nm[1] = "2" -> 2 [] nm[1] = "3" -> 3

RefValue(nm, e, s, c) ==
  IF IsNum(nm) THEN Group(s, c, Num(nm))
  ELSE LET hits == {p \in GroupNames(e) : p[2] = Str(nm)} IN
       IF hits = {} THEN <<>> ELSE Group(s, c, (CHOOSE p \in hits : TRUE)[1])

RECURSIVE Expand(_, _, _, _, _)
Expand(tp, i, e, s, c) ==
  IF i > Len(tp) THEN <<>>
  ELSE IF tp[i] # "$" THEN <<tp[i]>> \o Expand(tp, i + 1, e, s, c)
  ELSE IF i < Len(tp) /\ tp[i + 1] = "$" THEN <<"$">> \o Expand(tp, i + 2, e, s, c)
  ELSE LET brace == i < Len(tp) /\ tp[i + 1] = "{"
           st    == IF brace THEN i + 2 ELSE i + 1
           en    == WordRun(tp, st)
       IN IF en = st THEN <<"$">> \o Expand(tp, i + 1, e, s, c)                                    \* empty name
          ELSE IF brace /\ ~(en <= Len(tp) /\ tp[en] = "}") THEN <<"$">> \o Expand(tp, i + 1, e, s, c) \* no closing brace
          ELSE RefValue(SubSeq(tp, st, en - 1), e, s, c) \o Expand(tp, IF brace THEN en + 1 ELSE en, e, s, c)

HasVar(tp) == \E i \in DOMAIN tp : tp[i] = "$"          \* varInRegexTemplate

\* byte order of the model characters (labels are sorted bytewise)
Ord == [c \in {"\n", "#", "$", "%", "-", "0", "1", "2", "3", ";", "A", "B", "T", "X", "_", "a", "b", "h", "n", "t", "x", "{", "}"} |->
         CASE c = "\n" -> 10 [] c = "#" -> 35 [] c = "$" -> 36 [] c = "%" -> 37 [] c = "-" -> 45 [] c = "0" -> 48 [] c = "1" -> 49
           [] c = "2" -> 50 [] c = "3" -> 51 [] c = ";" -> 59 [] c = "A" -> 65 [] c = "B" -> 66 [] c = "T" -> 84 [] c = "X" -> 88
           [] c = "_" -> 95 [] c = "a" -> 97 [] c = "b" -> 98 [] c = "h" -> 104 [] c = "n" -> 110 [] c = "t" -> 116 [] c = "x" -> 120
           [] c = "{" -> 123 [] c = "}" -> 125]
RECURSIVE SeqLess(_, _)
SeqLess(p, q) == IF q = <<>> THEN FALSE
                 ELSE IF p = <<>> THEN TRUE
                 ELSE IF Ord[p[1]] # Ord[q[1]] THEN Ord[p[1]] < Ord[q[1]]
                 ELSE SeqLess(Tail(p), Tail(q))

-----------------------------------------------------------------------------
(* Label sets                                                               *)
Get(l, n)     == IF n \in DOMAIN l THEN l[n] ELSE <<>>           \* absent = ""
Del(l, n)     == [x \in DOMAIN l \ {n} |-> l[x]]
SetL(l, n, v) == IF v = <<>> THEN Del(l, n)                       \* Builder.Set: "" deletes
                 ELSE [x \in DOMAIN l \cup {n} |-> IF x = n THEN v ELSE l[x]]
RECURSIVE JoinSep(_, _)
JoinSep(vs, sep) == IF vs = <<>> THEN <<>>
                    ELSE IF Len(vs) = 1 THEN vs[1] ELSE vs[1] \o sep \o JoinSep(Tail(vs), sep)
SrcVal(l, r)  == JoinSep([i \in DOMAIN r.src |-> Get(l, r.src[i])], r.sep)

-----------------------------------------------------------------------------
(* The rules.  Regular expressions and templates are fixed shapes.          *)
nA == <<"a">>   nB == <<"b">>   nT == <<"t">>   nN == <<"n">>   nH == <<"h">>
DefaultRe  == Cap(1, Star(AnyCh))                       \* (.*)
DefaultRep == <<"$", "1">>
ValueRes == <<
  DefaultRe,
  Word(<<"a">>),                                              \* a
  Cat(Cap(1, Star(AnyCh)), Cat(Lit("-"), Cap(2, Star(AnyCh)))),   \* (.*)-(.*)    greedy split
  Cat(Cap(1, Lazy(AnyCh)), Cat(Lit("-"), Cap(2, Star(AnyCh)))),   \* (.*?)-(.*)   lazy split
  Cat(Cap(1, Alt(Lit("a"), Word(<<"a", "b">>))), Cap(2, Opt(Alt(Lit("c"), Word(<<"b", "-", "a">>))))),  \* (a|ab)((c|b-a)?)
  Cat(Named(1, "x", Plus(Set(<<"a", "A">>))), Cat(Opt(Cap(2, Lit("b"))), Star(AnyCh))),   \* (?P<x>[aA]+)(b)?.*
  Cat(Star(AnyCh), Cat(Lit(";"), Cap(1, Plus(AnyCh)))),            \* .*;(.+)
  Eps,                                                        \* empty expression: matches only ""
  Plus(AnyCh)                                                   \* .+
>>
NameRes == <<
  Cat(Lit("a"), Cap(1, Star(AnyCh))),                           \* a(.*)      a -> "", ab -> b
  Cap(1, Set(<<"a", "b">>)),                                  \* ([ab])
  Cat(Cap(1, AnyCh), Cat(Lit("_"), Cap(2, Plus(AnyCh)))),         \* (.)_(.+)
  Plus(AnyCh),                                                  \* .+
  Alt(Lit("t"), Word(<<"_", "_", "n">>))                      \* t|__n
>>
Replacements == <<
  DefaultRep,                                   \* $1
  <<"$", "{", "1", "}", "x">>,                  \* ${1}x
  <<"$", "1", "x">>,                            \* $1x     = ${1x}: no such group
  <<"$", "2", "-", "$", "1">>,                  \* $2-$1
  <<"$", "{", "x", "}", "$", "$">>,             \* ${x}$$
  <<"b">>,                                      \* literal
  <<>>,                                         \* empty: deletes the target
  <<"$", "0", "$", "3", "$", "{", "1">>         \* $0$3${1  (whole match, out of range, malformed)
>>
Targets == << nT, nA, <<"t", "_", "$", "1">>, <<"$", "{", "2", "}">> >>     \* t  a  t_$1  ${2}
MapReps == << DefaultRep, <<"n", "_", "$", "1">>, <<"$", "{", "2", "}", "$", "{", "1", "}">>, <<"b">> >>
Sources == << <<>>, <<nA>>, <<nB>>, <<nA, nB>>, <<nB, nA>>, <<nN>>, <<nA, nN, nB>> >>
Seps    == << <<";">>, <<>>, <<"-">> >>

Rule(act, src, sep, re, rep, tgt, mod) ==
  [act |-> act, src |-> src, sep |-> sep, re |-> re, rep |-> rep, tgt |-> tgt, mod |-> mod]
SrcSeps == {<<Sources[i], Seps[1]>> : i \in DOMAIN Sources} \cup {<<Sources[4], Seps[j]>> : j \in DOMAIN Seps}
            \cup {<<Sources[7], Seps[3]>>}

\* rule families (each varies two or three dimensions, the rest stays at the defaults)
Fam(f) ==
  CASE f = "replace.src"  -> {Rule("replace", p[1], p[2], re, DefaultRep, nT, 0) : p \in SrcSeps, re \in Range(ValueRes)}
    [] f = "replace.tmpl" -> {Rule("replace", s, Seps[1], re, rep, nT, 0) :
                                s \in {Sources[2], Sources[4]}, re \in Range(ValueRes), rep \in Range(Replacements)}
    [] f = "replace.tgt"  -> {Rule("replace", s, Seps[1], re, rep, tg, 0) :
                                s \in {Sources[2], Sources[4]}, re \in Range(ValueRes), rep \in {DefaultRep, <<>>}, tg \in Range(Targets)}
    [] f = "replace.full" -> {Rule("replace", s, Seps[1], re, rep, tg, 0) :
                                s \in {Sources[2], Sources[4]}, re \in Range(ValueRes), rep \in Range(Replacements), tg \in Range(Targets)}
    [] f = "replace.fast" -> {Rule("replace", s, Seps[1], DefaultRe, rep, tg, 0) :
                                s \in {Sources[1], Sources[6], Sources[2]}, rep \in {<<"b">>, <<>>, DefaultRep}, tg \in {nT, nA}}
    [] f = "keepdrop"     -> {Rule(act, p[1], p[2], re, DefaultRep, <<>>, 0) :
                                act \in {"keep", "drop"}, p \in SrcSeps, re \in Range(ValueRes)}
    [] f = "equal"        -> {Rule(act, s, Seps[1], DefaultRe, DefaultRep, tg, 0) :
                                act \in {"keepequal", "dropequal"}, s \in Range(Sources), tg \in {nT, nA, nB}}
    [] f = "case"         -> {Rule(act, p[1], p[2], DefaultRe, DefaultRep, tg, 0) :
                                act \in {"lowercase", "uppercase"}, p \in SrcSeps, tg \in {nT, nA}}
    [] f = "hashmod"      -> {Rule("hashmod", s, Seps[1], DefaultRe, DefaultRep, nH, m) :
                                s \in Range(Sources), m \in {1, 2, 7}}
    [] f = "labelmap"     -> {Rule("labelmap", <<>>, Seps[1], re, rep, <<>>, 0) : re \in Range(NameRes), rep \in Range(MapReps)}
    [] f = "labeldrop"    -> {Rule(act, <<>>, Seps[1], re, DefaultRep, <<>>, 0) : act \in {"labeldrop", "labelkeep"}, re \in Range(NameRes)}
Rules == UNION {Fam(f) : f \in RuleFamilies}

-----------------------------------------------------------------------------
(* REFERENCE: direct interpretation of one rule on a label set.  Result:    *)
(* [keep, ls, br] (br = which case applied; used for coverage classes only) *)
Res(k, l, br) == [keep |-> k, ls |-> l, br |-> br]

\* hashmod: the digest is an uninterpreted function of the joined value; the model keeps the
\* token <<"#", value.., "%", modulus>> as the label value and the harness resolves it with md5
HashTok(v, m) == <<"#">> \o v \o <<"%", CASE m = 1 -> "1" [] m = 2 -> "2" [] m = 7 -> "7">>
IsTok(v)      == v # <<>> /\ v[1] = "#"

MapLabels(l, r) ==      \* labelmap: simultaneous copy of the matching labels to their new names
  LET hits  == {x \in DOMAIN l : Match(r.re, x).ok}
      new(x) == Expand(r.rep, 1, r.re, x, Match(r.re, x).c)
      names == {new(x) : x \in hits}
      \* collision (two labels with different values copied to one name): the property fixes no
      \* winner; the model takes the source whose name sorts last (what Builder.Range yields last on
      \* a fresh builder) and flags the step (compared as drift only)
      srcOf(y) == {x \in hits : new(x) = y}
  IN [ls |-> [y \in DOMAIN l \cup names |->
                IF y \in names THEN l[CHOOSE x \in srcOf(y) : \A z \in srcOf(y) : z = x \/ SeqLess(z, x)]
                ELSE l[y]],
      coll |-> \E y \in names : Cardinality({l[x] : x \in srcOf(y)}) > 1]

Interp(l, r) ==
  LET val == SrcVal(l, r) IN
  CASE r.act = "drop"      -> IF Match(r.re, val).ok THEN Res(FALSE, l, "dropped") ELSE Res(TRUE, l, "kept")
    [] r.act = "keep"      -> IF Match(r.re, val).ok THEN Res(TRUE, l, "kept") ELSE Res(FALSE, l, "dropped")
    [] r.act = "dropequal" -> IF Get(l, r.tgt) = val THEN Res(FALSE, l, "dropped") ELSE Res(TRUE, l, "kept")
    [] r.act = "keepequal" -> IF Get(l, r.tgt) = val THEN Res(TRUE, l, "kept") ELSE Res(FALSE, l, "dropped")
    [] r.act = "replace"   ->
         LET m == Match(r.re, val) IN
         IF ~m.ok THEN Res(TRUE, l, "nomatch")
         ELSE LET target == Expand(r.tgt, 1, r.re, val, m.c)
                  res    == Expand(r.rep, 1, r.re, val, m.c) IN
              IF ~ValidName(target) THEN Res(TRUE, l, "badtarget")
              ELSE IF res = <<>> THEN Res(TRUE, Del(l, target), IF target \in DOMAIN l THEN "deleted" ELSE "delabsent")
              ELSE Res(TRUE, SetL(l, target, res), IF target \in DOMAIN l THEN "overwritten" ELSE "added")
    [] r.act = "lowercase" -> Res(TRUE, SetL(l, r.tgt, ToLower(val)), IF val = <<>> THEN "deleted" ELSE "set")
    [] r.act = "uppercase" -> Res(TRUE, SetL(l, r.tgt, ToUpper(val)), IF val = <<>> THEN "deleted" ELSE "set")
    [] r.act = "hashmod"   -> Res(TRUE, SetL(l, r.tgt, HashTok(val, r.mod)), "set")
    [] r.act = "labelmap"  -> LET ml == MapLabels(l, r) IN Res(TRUE, ml.ls, IF ml.coll THEN "collision" ELSE "mapped")
    [] r.act = "labeldrop" -> Res(TRUE, [x \in {y \in DOMAIN l : ~Match(r.re, y).ok} |-> l[x]], "filtered")
    [] r.act = "labelkeep" -> Res(TRUE, [x \in {y \in DOMAIN l : Match(r.re, y).ok} |-> l[x]], "filtered")

\* TRANSCRIPTION of the one place where relabel() leaves the general path: "fast path to add or
\* delete label pair" (no regex evaluation, no target validation)
FastPath(l, r) == /\ r.act = "replace"
                  /\ SrcVal(l, r) = <<>>
                  /\ r.re = DefaultRe
                  /\ ~HasVar(r.tgt) /\ ~HasVar(r.rep)
Transcribed(l, r) == IF FastPath(l, r) THEN Res(TRUE, SetL(l, r.tgt, r.rep), "fast") ELSE Interp(l, r)

\* Config.Validate: what a configuration may contain (the harness calls Validate on every rule)
ValidRule(r) ==
  /\ r.act \in {"replace", "hashmod", "lowercase", "uppercase", "keepequal", "dropequal"} => r.tgt # <<>>
  /\ r.act = "replace" /\ ~HasVar(r.tgt) => ValidName(r.tgt)
  /\ r.act \in {"lowercase", "uppercase", "keepequal", "dropequal", "hashmod"} => ValidName(r.tgt)

-----------------------------------------------------------------------------
(* Behaviour                                                                *)
\* a rule never reads a hashmod token through its source labels or target comparison (the digest is
\* uninterpreted); copying or deleting the label is fine
ReadsTok(l, r) == \/ \E i \in DOMAIN r.src : IsTok(Get(l, r.src[i]))
                  \/ r.act \in {"keepequal", "dropequal"} /\ IsTok(Get(l, r.tgt))

Small(l) == /\ Cardinality(DOMAIN l) <= MaxLabels
            /\ \A x \in DOMAIN l : Len(x) <= MaxLen /\ (IsTok(l[x]) \/ Len(l[x]) <= MaxLen)

Chars(w) == CASE w = "a" -> <<"a">> [] w = "b" -> <<"b">> [] w = "t" -> <<"t">> [] w = "__n" -> <<"_", "_", "n">>
              [] w = "a_b" -> <<"a", "_", "b">> [] w = "ab" -> <<"a", "b">> [] w = "Ab" -> <<"A", "b">>
              [] w = "b-a" -> <<"b", "-", "a">> [] w = "a;b" -> <<"a", ";", "b">> [] w = "aA" -> <<"a", "A">>
              [] w = "a<nl>b" -> <<"a", "\n", "b">>
InitSets == UNION {[D -> {Chars(v) : v \in InitVals}] :
                     D \in {E \in SUBSET {Chars(x) : x \in InitNames} : Cardinality(E) <= MaxInit}}

LsJson(l)   == {[n |-> Str(x), v |-> Str(l[x])] : x \in DOMAIN l}
RuleJson(r) == [act |-> r.act, src |-> [i \in DOMAIN r.src |-> Str(r.src[i])], sep |-> Str(r.sep),
                re |-> Render(r.re), rep |-> Str(r.rep), tgt |-> Str(r.tgt), mod |-> r.mod]

Init == /\ ls \in InitSets
        /\ kept = TRUE
        /\ nops = 0
        /\ hist = <<[a |-> "Init", ls |-> LsJson(ls), scheme |-> Scheme]>>
        /\ last = <<>>
        /\ TLCSet(1, {})

Apply(r) ==
  LET out == Interp(ls, r) IN
  /\ kept
  /\ ~ReadsTok(ls, r)
  /\ Small(out.ls)
  /\ ls' = out.ls
  /\ kept' = out.keep
  /\ nops' = nops + 1
  /\ last' = r
  /\ hist' = Append(hist, [a |-> "Apply", rule |-> RuleJson(r), keep |-> out.keep, ls |-> LsJson(out.ls),
                           br |-> out.br, fast |-> FastPath(ls, r)])

End == nops = MaxOps /\ nops' = MaxOps + 1 /\ UNCHANGED <<ls, kept, hist, last>>

Next == \/ /\ nops < MaxOps
           /\ IF Mode = "sim"
              THEN \E j \in 1..4 : \E r \in {RandomElement(Rules)} : Apply(r)
              ELSE \E r \in Rules : Apply(r)
        \/ End

Spec == Init /\ [][Next]_vars

-----------------------------------------------------------------------------
(* What TLC checks                                                          *)
\* the result is a label set: a function (no duplicate names) without empty values
Canonical == \A x \in DOMAIN ls : ls[x] # <<>>
RulesValid == \A r \in Rules : ValidRule(r)

IsStep == hist' # hist /\ Last(hist').a = "Apply"
\* the fast path of relabel() is not observable
FastPathInvisible ==
  [][IsStep => Transcribed(ls, last').ls = ls' /\ Transcribed(ls, last').keep = kept']_vars
\* keep and drop (keepequal and dropequal) with the same arguments are complementary
Complementary ==
  [][IsStep /\ last'.act \in {"keep", "drop", "keepequal", "dropequal"} =>
       LET r == last'
           o == [r EXCEPT !.act = CASE r.act = "keep" -> "drop" [] r.act = "drop" -> "keep"
                                    [] r.act = "keepequal" -> "dropequal" [] r.act = "dropequal" -> "keepequal"]
       IN Interp(ls, o).keep = ~kept' /\ ls' = ls]_vars
\* only label-rewriting actions change the label set; a dropped set is never processed further
DropIsFinal == [][~kept => UNCHANGED <<ls, kept>>]_vars

-----------------------------------------------------------------------------
(* Emission                                                                 *)
ReIdx(r) == IF r.act \in {"labelmap", "labeldrop", "labelkeep"}
            THEN CHOOSE i \in DOMAIN NameRes : NameRes[i] = r.re
            ELSE CHOOSE i \in DOMAIN ValueRes : ValueRes[i] = r.re
\* coverage class of a step: action, case taken, regex / template / target shapes, size of the input
Class(r, rec) == <<r.act, rec.br, rec.fast, ReIdx(r), Str(r.rep), Str(r.tgt), Len(r.src), Str(r.sep),
                   Cardinality(DOMAIN ls), Len(hist)>>
Emit ==
  CASE EmitMode = "none" -> TRUE
    [] hist' = hist -> TRUE
    [] EmitMode = "all" -> PrintT("@@TR " \o ToJson(hist'))
    [] OTHER -> LET cl == Class(last', Last(hist')) IN
                \/ cl \in TLCGet(1)
                \/ /\ TLCSet(1, TLCGet(1) \cup {cl})
                   /\ PrintT("@@TR " \o ToJson(hist'))
EmitWalk == nops <= MaxOps \/ PrintT("@@TR " \o ToJson(hist))
=============================================================================
