SPECIFICATION Spec
CONSTANTS
  InitNames = {"a", "b", "t"}
  InitVals = {"ab", "b-a", "aA", "a<nl>b"}
  RuleFamilies = {"replace.src", "replace.tmpl", "replace.tgt", "replace.fast", "keepdrop", "equal", "case", "hashmod", "labelmap", "labeldrop"}
  Scheme = "legacy"
  MaxInit = 2
  MaxLen = 7
  MaxLabels = 5
  MaxOps = 2
  Mode = "mc"
  EmitMode = "class"
VIEW View
INVARIANTS Canonical
PROPERTIES FastPathInvisible Complementary DropIsFinal
ACTION_CONSTRAINT Emit
CHECK_DEADLOCK FALSE
