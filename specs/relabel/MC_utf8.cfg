SPECIFICATION Spec
CONSTANTS
  InitNames = {"a", "b"}
  InitVals = {"ab", "b-a", "a<nl>b"}
  RuleFamilies = {"replace.tgt", "replace.fast", "labelmap"}
  Scheme = "utf8"
  MaxInit = 2
  MaxLen = 7
  MaxLabels = 5
  MaxOps = 1
  Mode = "mc"
  EmitMode = "all"
VIEW View
INVARIANTS Canonical
PROPERTIES FastPathInvisible Complementary DropIsFinal
ACTION_CONSTRAINT Emit
CHECK_DEADLOCK FALSE
