SPECIFICATION Spec
CONSTANTS
  InitNames = {"a", "b", "t", "__n", "a_b"}
  InitVals = {"ab", "b-a", "aA", "a;b", "a<nl>b"}
  RuleFamilies = {"replace.src", "replace.tmpl", "replace.tgt", "replace.fast", "keepdrop", "equal", "case", "hashmod", "labelmap", "labeldrop"}
  Scheme = "legacy"
  MaxInit = 4
  MaxLen = 9
  MaxLabels = 7
  Mode = "sim"
  EmitMode = "none"
INVARIANTS Canonical EmitWalk
PROPERTIES FastPathInvisible Complementary DropIsFinal
CHECK_DEADLOCK FALSE
