SPECIFICATION Spec
CONSTANTS
  Series = {1, 2, 3}
  WNeg = 3
  WPos = 4
  Vals = {"1", "2", "NaN", "+Inf", "-Inf"}
  MaxSamples = 9
  EmitMode = "all"
INVARIANTS ExactlyInput AlignIsFloor Aligned OnlyInput RejectedWhole EmitState
CHECK_DEADLOCK FALSE
