SPECIFICATION Spec
CONSTANTS
  Series = {1}
  WNeg = 0
  WPos = 2
  Vals = {"1", "2", "NaN", "+Inf", "-Inf"}
  MaxSamples = 2
  EmitMode = "all"
INVARIANTS ExactlyInput AlignIsFloor Aligned OnlyInput RejectedWhole EmitState
PROPERTIES Terminates
CHECK_DEADLOCK FALSE
