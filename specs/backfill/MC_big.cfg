SPECIFICATION Spec
CONSTANTS
  Series = {1}
  WNeg = 2
  WPos = 3
  Vals = {"1"}
  MaxSamples = 4
  EmitMode = "none"
INVARIANTS ExactlyInput AlignIsFloor Aligned OnlyInput RejectedWhole
PROPERTIES Terminates
CHECK_DEADLOCK FALSE
