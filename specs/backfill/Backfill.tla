------------------------------ MODULE Backfill ------------------------------
(***************************************************************************)
(* promtool `tsdb create-blocks-from openmetrics`: backfill, getMinAndMax-  *)
(* Timestamps and createBlocks of cmd/promtool/backfill.go.  Property C50. *)
(*                                                                         *)
(* Input: a set of samples [s, ts, v] (series, timestamp, value class) in  *)
(* which at most one sample has lost its timestamp (`missing`).            *)
(* Time is measured in quarter block durations: D = 4 units is one block   *)
(* duration, so a timestamp is 4*window + position; the harness maps       *)
(* position 0 to the window start, 1 to start+1ms, 2 to the middle and 3   *)
(* to the last millisecond of the window.                                  *)
(*                                                                         *)
(* Actions = the steps of the code:                                        *)
(*   Scan   getMinAndMaxTimestamps over the whole input (rejects an input  *)
(*          with a sample without timestamp), then the alignment of mint   *)
(*          in createBlocks to the start of its block range: the floor,     *)
(*          spelled out for negative values because Go division truncates  *)
(*          (fixed by a01d00d164; before, TruncDiv was used: KF-C50-1)     *)
(*   Iter   one iteration of `for t := mint; t <= maxt; t += blockDuration`:*)
(*          skipped when the next known sample lies beyond this window,    *)
(*          otherwise the input is parsed again, samples of [t, t+D) go to *)
(*          a BlockWriter which is flushed (no block when nothing appended)*)
(*   Finish the loop ends                                                  *)
(***************************************************************************)
EXTENDS Integers, Sequences, FiniteSets, TLC, Json

CONSTANTS Series,      \* set of small integers (series number k is metric c50_k in the harness)
          WNeg, WPos,  \* windows -WNeg .. WPos-1 are populated
          Vals,        \* value classes (strings): "1", "2", "NaN", "+Inf", "-Inf"
          MaxSamples,  \* size of an input
          EmitMode     \* "all" | "none"

VARIABLES inp,       \* the input samples that carry a timestamp
          missing,   \* None, or the sample that has none: [s, v]
          pc, mint, maxt, t, nextTs, blocks

vars == <<inp, missing, pc, mint, maxt, t, nextTs, blocks>>

D == 4
Inf == 1000000
None == [s |-> 0]
TsDom == (0 - WNeg * D)..(WPos * D - 1)
Sample == [s : Series, ts : TsDom, v : Vals]

MinOf(S) == CHOOSE x \in S : \A y \in S : x <= y
MaxOf(S) == CHOOSE x \in S : \A y \in S : x >= y
\* Go integer division (truncates toward zero)
TruncDiv(a, b) == IF a >= 0 THEN a \div b ELSE 0 - ((0 - a) \div b)
\* createBlocks: `if mint >= 0 { bd*(mint/bd) } else { bd*((mint-bd+1)/bd) }`
AlignDown(a, b) == IF a >= 0 THEN b * TruncDiv(a, b) ELSE b * TruncDiv(a - b + 1, b)
\* the aligned window a timestamp belongs to (floor)
Window(ts) == ts \div D

-----------------------------------------------------------------------------
(* Reference: what C50 demands                                              *)
WindowsOf(S) == {Window(x.ts) : x \in S}
Part(S, w) == {x \in S : Window(x.ts) = w}
\* one block per aligned window that holds samples, with exactly those samples
Partition(S) == {Part(S, w) : w \in WindowsOf(S)}

-----------------------------------------------------------------------------
Init == /\ inp = {} /\ missing = None
        /\ pc = "input"
        /\ mint = 0 /\ maxt = 0 /\ t = 0 /\ nextTs = Inf
        /\ blocks = <<>>

\* the input is put together (in canonical order, so that every input is built once)
Before(y, x) == y.ts < x.ts \/ (y.ts = x.ts /\ y.s < x.s)
Size == Cardinality(inp) + (IF missing = None THEN 0 ELSE 1)
AddSample(x) ==
  /\ pc = "input" /\ Size < MaxSamples
  /\ \A y \in inp : Before(y, x)
  /\ inp' = inp \cup {x}
  /\ UNCHANGED <<missing, pc, mint, maxt, t, nextTs, blocks>>
LoseTimestamp(s) ==
  /\ pc = "input" /\ Size < MaxSamples /\ missing = None
  /\ missing' = [s |-> s, v |-> "1"]
  /\ UNCHANGED <<inp, pc, mint, maxt, t, nextTs, blocks>>
Start ==
  /\ pc = "input" /\ pc' = "scan"
  /\ UNCHANGED <<inp, missing, mint, maxt, t, nextTs, blocks>>

\* getMinAndMaxTimestamps + first statements of createBlocks
Scan ==
  /\ pc = "scan"
  /\ IF missing # None
     THEN /\ pc' = "rejected"                                        \* "expected timestamp for series got none"
          /\ UNCHANGED <<mint, maxt, t>>
     ELSE LET lo == IF inp = {} THEN 0 ELSE MinOf({x.ts : x \in inp})
              hi == IF inp = {} THEN 0 ELSE MaxOf({x.ts : x \in inp}) IN
          /\ mint' = AlignDown(lo, D)
          /\ maxt' = hi
          /\ t' = AlignDown(lo, D)
          /\ pc' = "loop"
  /\ UNCHANGED <<inp, missing, nextTs, blocks>>

Iter ==
  /\ pc = "loop" /\ t <= maxt
  /\ LET up == t + D IN
     IF nextTs # Inf /\ nextTs >= up
     THEN UNCHANGED <<nextTs, blocks>>                               \* nothing in this window: not parsed
     ELSE LET W     == {x \in inp : x.ts >= t /\ x.ts < up}
              later == {x.ts : x \in {y \in inp : y.ts >= up}} IN
          /\ nextTs' = IF later = {} THEN Inf ELSE MinOf(later)
          /\ blocks' = IF W = {} THEN blocks ELSE Append(blocks, W)  \* Flush: ErrNoSeriesAppended is not an error
  /\ t' = t + D
  /\ UNCHANGED <<inp, missing, pc, mint, maxt>>

Finish ==
  /\ pc = "loop" /\ t > maxt
  /\ pc' = "done"
  /\ UNCHANGED <<inp, missing, mint, maxt, t, nextTs, blocks>>

Next == \/ \E x \in Sample : AddSample(x)
        \/ \E s \in Series : LoseTimestamp(s)
        \/ Start \/ Scan \/ Iter \/ Finish
Spec == Init /\ [][Next]_vars /\ WF_vars(Start \/ Scan \/ Iter \/ Finish)

-----------------------------------------------------------------------------
(* C50 on the design                                                        *)
Range(q) == {q[i] : i \in 1..Len(q)}

\* Inputs whose minimum timestamp is negative and not a multiple of the block duration: the case that
\* finding KF-C50-1 (fixed by a01d00d164) was about -- the start was aligned upwards by truncating division
\* and the samples below it were silently left out. Kept as a coverage class.
NegativeUnaligned == inp # {} /\ MinOf({x.ts : x \in inp}) < 0 /\ MinOf({x.ts : x \in inp}) % D # 0

\* the blocks written are exactly the partition of the input by aligned window, one block per window
ExactlyInput == pc = "done" => (Range(blocks) = Partition(inp) /\ Len(blocks) = Cardinality(Partition(inp)))
\* the alignment of the code is the floor
AlignIsFloor == \A a \in TsDom : AlignDown(a, D) = D * (a \div D)
\* every block lies inside one aligned window, blocks are written in increasing time, none is empty
Aligned == \A i \in 1..Len(blocks) :
             /\ blocks[i] # {}
             /\ \A x, y \in blocks[i] : Window(x.ts) = Window(y.ts)
             /\ \A j \in 1..(i - 1) : \A x \in blocks[j], y \in blocks[i] : Window(x.ts) < Window(y.ts)
\* nothing is written that is not in the input
OnlyInput == \A i \in 1..Len(blocks) : blocks[i] \subseteq inp
\* an input with a sample without timestamp is rejected as a whole
RejectedWhole == (missing # None /\ pc \notin {"input", "scan"}) => (pc = "rejected" /\ blocks = <<>>)
\* the loop ends
Terminates == <>(pc \in {"done", "rejected"})

-----------------------------------------------------------------------------
(* Emission: one record per terminal state                                  *)
RECURSIVE SetToSeq(_)
SetToSeq(S) == IF S = {} THEN <<>>
               ELSE LET m == CHOOSE x \in S : \A y \in S : x.ts < y.ts \/ (x.ts = y.ts /\ x.s <= y.s)
                    IN <<m>> \o SetToSeq(S \ {m})
RECURSIVE ByWindow(_, _)
ByWindow(S, w) == IF w >= WPos THEN <<>>
                  ELSE (IF Part(S, w) = {} THEN <<>> ELSE <<[w |-> w, samples |-> SetToSeq(Part(S, w))]>>) \o ByWindow(S, w + 1)

Rec == [in |-> SetToSeq(inp), missing |-> missing, rejected |-> pc = "rejected",
        want |-> IF pc = "rejected" THEN <<>> ELSE ByWindow(inp, 0 - WNeg),      \* what C50 demands
        got  |-> [i \in 1..Len(blocks) |-> SetToSeq(blocks[i])],                   \* what the transcription does
        legal |-> IF pc = "rejected" \/ Range(blocks) = Partition(inp) THEN "ok" ELSE "transcription-deviates",
        cl |-> <<pc, Cardinality(inp), Cardinality(WindowsOf(inp)), NegativeUnaligned,
                 \E x \in inp : x.ts < 0, \E x \in inp : x.ts % D = 0, \E x \in inp : x.ts % D = D - 1,
                 \E x \in inp : x.v \notin {"1", "2"}, Cardinality({x.s : x \in inp}),
                 \* an empty window between two populated ones (the nextSampleTs skip)
                 \E a, b \in WindowsOf(inp) : b > a + 1 /\ \A w \in (a + 1)..(b - 1) : w \notin WindowsOf(inp),
                 \* ... and where the first sample after the gap lies: negative and unaligned / negative and on a
                 \* window start / not negative (any arithmetic on nextSampleTs must floor, not truncate)
                 {IF MinOf({x.ts : x \in Part(inp, b)}) >= 0 THEN "pos"
                  ELSE IF MinOf({x.ts : x \in Part(inp, b)}) % D = 0 THEN "neg-aligned" ELSE "neg-unaligned" :
                    b \in {w \in WindowsOf(inp) : (w - 1) \notin WindowsOf(inp) /\ \E a \in WindowsOf(inp) : a < w}},
                 \* number of consecutive empty windows before a populated negative one
                 Cardinality({w \in (0 - WNeg)..(0 - 1) : w \notin WindowsOf(inp) /\ \E a, b \in WindowsOf(inp) : a < w /\ w < b /\ b <= 0}),
                 Len(blocks)>>]

EmitState == EmitMode = "none" \/ pc \notin {"done", "rejected"} \/ PrintT("@@TR " \o ToJson(Rec))
=============================================================================
