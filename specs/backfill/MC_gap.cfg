SPECIFICATION Spec
CONSTANTS
  Series = {1}
  WNeg = 4
  WPos = 2
  Vals = {"1"}
  MaxSamples = 3
  EmitMode = "all"
INVARIANTS ExactlyInput AlignIsFloor Aligned OnlyInput RejectedWhole EmitState
PROPERTIES Terminates
CHECK_DEADLOCK FALSE
