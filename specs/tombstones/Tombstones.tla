----------------------------- MODULE Tombstones -----------------------------
(***************************************************************************)
(* Reference model of tombstones.Intervals (tsdb/tombstones/tombstones.go): *)
(* a set of deleted closed intervals over int64, kept sorted, non-          *)
(* overlapping and non-adjacent.  Abstract state = the set of deleted       *)
(* points; the canonical interval list is derived from it.                  *)
(*                                                                         *)
(* The int64 line is represented by N+1 model points 0..N with one "gap":   *)
(* points <= Gap map to MinInt64+t, points > Gap to MaxInt64-(N-t)          *)
(* (Gap = -1: no gap, an ordinary run base+t).  Two points are adjacent in  *)
(* int64 iff they are consecutive model points not separated by the gap,    *)
(* or the whole gap has been deleted by an interval spanning it (`filled`). *)
(* Model point 0 is MinInt64 and N is MaxInt64 whenever Gap >= 0, which     *)
(* exercises the overflow guards of Add.                                    *)
(*                                                                         *)
(* Action Add(lo,hi) = Intervals.Add / MemTombstones.AddInterval.           *)
(***************************************************************************)
EXTENDS Integers, Sequences, FiniteSets, TLC, Json

CONSTANTS N, Gaps, MaxOps
VARIABLES pts, gap, filled, nops, hist
vars == <<pts, gap, filled, nops, hist>>
View == <<pts, gap, filled>>

Adj(a, b, f) == b = a + 1 /\ (a # gap \/ f)

\* canonical list: maximal runs of adjacent deleted points, ascending
Canon(P, f) ==
  LET RECURSIVE R(_, _, _)
      R(t, cur, acc) ==
        IF t > N THEN (IF cur = <<>> THEN acc ELSE Append(acc, cur))
        ELSE IF t \in P THEN
               (IF cur = <<>> THEN R(t + 1, <<t, t>>, acc)
                ELSE IF Adj(cur[2], t, f) THEN R(t + 1, <<cur[1], t>>, acc)
                ELSE R(t + 1, <<t, t>>, Append(acc, cur)))
             ELSE (IF cur = <<>> THEN R(t + 1, <<>>, acc) ELSE R(t + 1, <<>>, Append(acc, cur)))
  IN R(0, <<>>, <<>>)

Init == /\ pts = {} /\ gap \in Gaps /\ filled = FALSE /\ nops = 0
        /\ hist = <<[a |-> "Init", n |-> N, gap |-> gap]>>

Add(lo, hi) ==
  /\ pts' = pts \cup (lo..hi)
  /\ filled' = (filled \/ (lo <= gap /\ hi > gap))
  /\ UNCHANGED gap
  /\ nops' = nops + 1
  /\ hist' = Append(hist, [a |-> "Add", lo |-> lo, hi |-> hi, ivs |-> Canon(pts', filled')])

Next == nops < MaxOps /\ \E lo \in 0..N, hi \in 0..N : lo <= hi /\ Add(lo, hi)
Spec == Init /\ [][Next]_vars

-----------------------------------------------------------------------------
\* C20 (interval part): the list is sorted, non-overlapping, non-adjacent and covers exactly the union
Ivs == Canon(pts, filled)
Covers == UNION {iv[1]..iv[2] : iv \in {Ivs[i] : i \in 1..Len(Ivs)}} = pts
SortedDisjoint == \A i \in 1..(Len(Ivs) - 1) : Ivs[i][2] < Ivs[i + 1][1] /\ ~Adj(Ivs[i][2], Ivs[i + 1][1], filled)
Monotone == [][pts \subseteq pts']_vars

Emit == hist' = hist \/ PrintT("@@TR " \o ToJson(hist'))
=============================================================================
