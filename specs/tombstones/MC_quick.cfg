SPECIFICATION Spec
CONSTANTS
  N = 7
  Gaps = {0, 3, 6, 7, 8}
  MaxOps = 4
VIEW View
INVARIANTS Covers SortedDisjoint
PROPERTIES Monotone
ACTION_CONSTRAINT Emit
CHECK_DEADLOCK FALSE
