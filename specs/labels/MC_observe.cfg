SPECIFICATION Spec
CONSTANTS
  NameSeq <- NS2
  ValSeq <- VS5
  NSlots = 2
  KeepSets = {{}}
  MaxPairs = 2
  Ops = {"cons", "rebuild"}
  MaxOps = 99
  Mode = "mc"
  EmitMode = "state"
VIEW View
INVARIANTS Canonical BuilderWF BuilderConsistent ObserversConsistent EmitState
CHECK_DEADLOCK FALSE
