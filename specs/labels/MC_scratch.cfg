SPECIFICATION Spec
CONSTANTS
  NameSeq <- NS2
  ValSeq <- VS1
  NSlots = 1
  KeepSets = {{}}
  MaxPairs = 2
  Ops = {"scratch", "copy"}
  MaxOps = 99
  Mode = "mc"
  EmitMode = "obs"
VIEW View
INVARIANTS Canonical BuilderWF BuilderConsistent ObserversConsistent
ACTION_CONSTRAINT Emit
CHECK_DEADLOCK FALSE
