------------------------------- MODULE Labels -------------------------------
(***************************************************************************)
(* Label sets as canonical sorted maps (model/labels, C39).                *)
(*                                                                         *)
(* The abstract value of a labels.Labels is the list of its name/value     *)
(* pairs (a well-formed one is strictly sorted by name, i.e. a map).       *)
(* State: `slots` = a few Labels variables, `bld` = a labels.Builder       *)
(* (base, add, del), `sb` = a labels.ScratchBuilder (pairs added, assigned *)
(* output, used flag).  Actions = the public operations:                   *)
(*   constructors  FromStrings / FromMap / New, Copy, Rebuild (re-encoding *)
(*                 into a fresh symbol table, tsdb Head.RebuildSymbolTable)*)
(*   Builder       Reset, Set, Del, Keep, Get, Range, Labels               *)
(*   ScratchBuilder Reset, Add, Sort, Assign, Labels, Overwrite            *)
(* Every step carries the predicted slots and, for them, the predicted     *)
(* observers (Get/Has/Len/Equal/Compare ..): the three implementations     *)
(* (build tags stringlabels, slicelabels, dedupelabels) replay the same    *)
(* behaviours and must all agree with these predictions.                   *)
(***************************************************************************)
EXTENDS Integers, Sequences, FiniteSets, TLC, Json

CONSTANTS
  NameSeq,     \* label names in ascending (byte) order
  ValSeq,      \* label values in ascending order; "" (if present) first
  NSlots,      \* ordinary slots 1..NSlots; slot NSlots+1 is the Overwrite target
  KeepSets,    \* name sets used by Builder.Keep
  MaxPairs,    \* longest constructor / scratch-builder input
  Ops,         \* operation groups enabled: subset of {"cons", "copy", "rebuild", "builder", "scratch"}
  MaxOps,
  Mode,        \* "mc" | "sim"
  EmitMode     \* "state" | "obs" | "all" | "none"

VARIABLES slots, bld, sb, nops, hist
vars == <<slots, bld, sb, nops, hist>>
View == <<slots, bld, sb>>

Range(q) == {q[i] : i \in DOMAIN q}
Last(q)  == q[Len(q)]
Names == Range(NameSeq)
Vals  == Range(ValSeq)
OW    == NSlots + 1
Rank(q, x) == CHOOSE i \in DOMAIN q : q[i] = x
NRank(n) == Rank(NameSeq, n)
VRank(v) == Rank(ValSeq, v)
Pair(n, v) == [n |-> n, v |-> v]

-----------------------------------------------------------------------------
(* REFERENCE: label lists and their observers                               *)
\* well-formed = strictly sorted by name (hence no duplicate names): the list is a map
WF(L) == \A i \in 1..(Len(L) - 1) : NRank(L[i].n) < NRank(L[i + 1].n)
NamesIn(L) == {L[i].n : i \in DOMAIN L}
\* Get: value of the first pair with that name, "" when absent;  Has: presence
GetOf(L, n) == IF n \in NamesIn(L) THEN L[CHOOSE i \in DOMAIN L : L[i].n = n /\ \A j \in 1..(i - 1) : L[j].n # n].v ELSE ""
HasOf(L, n) == n \in NamesIn(L)
\* Compare: lexicographic on (name, value) pairs, a proper prefix sorts first
RECURSIVE CmpFrom(_, _, _)
CmpFrom(A, B, i) ==
  IF i > Len(A) /\ i > Len(B) THEN 0
  ELSE IF i > Len(A) THEN -1
  ELSE IF i > Len(B) THEN 1
  ELSE IF A[i].n # B[i].n THEN (IF NRank(A[i].n) < NRank(B[i].n) THEN -1 ELSE 1)
  ELSE IF A[i].v # B[i].v THEN (IF VRank(A[i].v) < VRank(B[i].v) THEN -1 ELSE 1)
  ELSE CmpFrom(A, B, i + 1)
CompareOf(A, B) == CmpFrom(A, B, 1)
WithoutEmptyOf(L) == SelectSeq(L, LAMBDA p : p.v # "")
HasDupOf(L) == \E i \in 1..(Len(L) - 1) : L[i].n = L[i + 1].n        \* HasDuplicateLabelNames assumes a sorted list

\* sorted list of a set of pairs with distinct names
RECURSIVE SortPairs(_)
SortPairs(S) == IF S = {} THEN <<>>
                ELSE LET m == CHOOSE p \in S : \A q \in S : NRank(p.n) <= NRank(q.n) IN <<m>> \o SortPairs(S \ {m})
\* stable sort by name of a list (ScratchBuilder.Sort; ties keep their order is not promised by the
\* code - slices.SortFunc is unstable - so lists with duplicate names are never compared strictly)
RECURSIVE SortList(_)
SortList(L) == IF L = <<>> THEN <<>>
               ELSE LET k == CHOOSE i \in DOMAIN L : \A j \in DOMAIN L : NRank(L[i].n) < NRank(L[j].n) \/ (L[i].n = L[j].n /\ i <= j)
                    IN <<L[k]>> \o SortList(SubSeq(L, 1, k - 1) \o SubSeq(L, k + 1, Len(L)))

-----------------------------------------------------------------------------
(* Builder = (base, add, del): labels.Builder of labels_common.go.  Its map *)
(* view: the base labels that are neither deleted nor overridden, plus add. *)
AddNames(b) == {b.add[i].n : i \in DOMAIN b.add}
BResult(b)  == SortPairs({b.base[i] : i \in {j \in DOMAIN b.base : b.base[j].n \notin b.del /\ b.base[j].n \notin AddNames(b)}}
                         \cup Range(b.add))
BGet(b, n)  == IF n \in AddNames(b) THEN (CHOOSE p \in Range(b.add) : p.n = n).v
               ELSE IF n \in b.del THEN "" ELSE GetOf(b.base, n)
BDel(b, n)  == [b EXCEPT !.add = SelectSeq(b.add, LAMBDA p : p.n # n), !.del = b.del \cup {n}]
BSet(b, n, v) == IF v = "" THEN BDel(b, n)            \* "a value of "" means delete that label"
                 ELSE IF n \in AddNames(b) THEN [b EXCEPT !.add = [i \in DOMAIN b.add |-> IF b.add[i].n = n THEN Pair(n, v) ELSE b.add[i]]]
                 ELSE [b EXCEPT !.add = Append(b.add, Pair(n, v))]
\* Builder.Range: base labels not deleted / overridden (in order), then the added ones in insertion order
BRange(b) == SelectSeq(b.base, LAMBDA p : p.n \notin b.del /\ p.n \notin AddNames(b)) \o b.add

-----------------------------------------------------------------------------
(* Behaviour                                                                *)
SlotIds == 1..OW
\* observers of all slots, predicted by the reference
Obs(sl) == [wf   |-> [i \in SlotIds |-> WF(sl[i])],
            get  |-> [i \in SlotIds |-> [n \in Names |-> GetOf(sl[i], n)]],
            has  |-> [i \in SlotIds |-> {n \in Names : HasOf(sl[i], n)}],
            cmp  |-> [i \in SlotIds |-> [j \in SlotIds |-> CompareOf(sl[i], sl[j])]],
            noempty |-> [i \in SlotIds |-> WithoutEmptyOf(sl[i])],
            dup  |-> [i \in SlotIds |-> HasDupOf(sl[i])]]
\* a step records the operation, its arguments / return value and all slots after it; the full
\* observer table is attached to the final state of every emitted behaviour (Out)
Rec(a, args, sl) == [a |-> a, args |-> args, slots |-> sl]
Out(h, sl) == [h |-> h, obs |-> Obs(sl)]

EmptyB == [base |-> <<>>, add |-> <<>>, del |-> {}]
EmptySB == [add |-> <<>>, out |-> <<>>, assigned |-> FALSE, used |-> FALSE]

Init == /\ slots = [i \in SlotIds |-> <<>>]
        /\ bld = EmptyB
        /\ sb = EmptySB
        /\ nops = 0
        /\ hist = <<Rec("Init", <<>>, slots)>>

Step(a, args, sl, b, s) ==
  /\ slots' = sl /\ bld' = b /\ sb' = s
  /\ nops' = nops + 1
  /\ hist' = Append(hist, Rec(a, args, sl))
SetSlot(j, L) == [slots EXCEPT ![j] = L]

\* pair lists with distinct names, in any order (constructor inputs)
RECURSIVE Inputs(_)
Inputs(k) == IF k = 0 THEN {<<>>}
             ELSE Inputs(k - 1) \cup {Append(q, Pair(n, v)) : q \in {r \in Inputs(k - 1) : Len(r) = k - 1}, n \in Names, v \in Vals}
DistinctInputs == TLCEval({q \in Inputs(MaxPairs) : \A i, j \in DOMAIN q : i # j => q[i].n # q[j].n})

\* labels.FromStrings / FromMap / New: sorts by name ("the caller has to guarantee that all label names are unique")
Construct(kind, q, j) == /\ j \in 1..NSlots
                         /\ Step(kind, [in |-> q, to |-> j], SetSlot(j, SortPairs(Range(q))), bld, sb)
\* Labels.Copy
CopySlot(i, j) == /\ j \in 1..NSlots /\ i # j
                  /\ Step("Copy", [from |-> i, to |-> j], SetSlot(j, slots[i]), bld, sb)
\* re-encode with a new symbol table (what Head.RebuildSymbolTable does to every series): content unchanged
Rebuild(i) == /\ i \in 1..NSlots /\ WF(slots[i])
              /\ Step("Rebuild", [slot |-> i], slots, bld, sb)

\* ---- Builder
BReset(i) == /\ i \in 1..NSlots /\ WF(slots[i])
             /\ Step("BReset", [from |-> i], slots,
                     [base |-> slots[i], add |-> <<>>, del |-> {slots[i][k].n : k \in {x \in DOMAIN slots[i] : slots[i][x].v = ""}}], sb)
BSetA(n, v) == Step("BSet", [n |-> n, v |-> v], slots, BSet(bld, n, v), sb)
BDelA(n)    == Step("BDel", [n |-> n], slots, BDel(bld, n), sb)
BKeepA(S)   == Step("BKeep", [ns |-> S], slots,
                    [bld EXCEPT !.del = bld.del \cup {bld.base[i].n : i \in {j \in DOMAIN bld.base : bld.base[j].n \notin S}}], sb)
BGetA(n)    == Step("BGet", [n |-> n, ret |-> BGet(bld, n)], slots, bld, sb)
BRangeA     == Step("BRange", [ret |-> BRange(bld)], slots, bld, sb)
BLabelsA(j) == /\ j \in 1..NSlots
               /\ Step("BLabels", [to |-> j], SetSlot(j, BResult(bld)), bld, sb)

\* ---- ScratchBuilder (usage protocol of its doc comments: after Labels / Assign / Overwrite the
\* builder is Reset before pairs are added again)
SReset      == Step("SReset", <<>>, slots, bld, EmptySB)
SAdd(n, v)  == /\ ~sb.used /\ ~sb.assigned /\ Len(sb.add) < MaxPairs
               /\ Step("SAdd", [n |-> n, v |-> v], slots, bld, [sb EXCEPT !.add = Append(sb.add, Pair(n, v))])
SSort       == /\ ~sb.used /\ ~sb.assigned
               /\ \A i, j \in DOMAIN sb.add : i # j => sb.add[i].n # sb.add[j].n     \* unstable sort: distinct names only
               /\ Step("SSort", <<>>, slots, bld, [sb EXCEPT !.add = SortList(sb.add)])
SAssign(i)  == /\ i \in 1..NSlots /\ sb.add = <<>> /\ ~sb.used /\ ~sb.assigned /\ slots[i] # <<>>
               /\ Step("SAssign", [from |-> i], slots, bld, [sb EXCEPT !.out = slots[i], !.assigned = TRUE])
SLabels(j)  == /\ j \in 1..NSlots
               /\ LET L == IF sb.assigned THEN sb.out ELSE sb.add IN
                  Step("SLabels", [to |-> j], SetSlot(j, L), bld, [sb EXCEPT !.used = TRUE])
SOverwrite  == /\ ~sb.assigned
               /\ Step("SOverwrite", <<>>, SetSlot(OW, sb.add), bld, [sb EXCEPT !.used = TRUE])

End == nops = MaxOps /\ nops' = MaxOps + 1 /\ UNCHANGED <<slots, bld, sb, hist>>

McNext ==
  \/ /\ "cons" \in Ops
     /\ \E q \in DistinctInputs, j \in 1..NSlots : Construct("FromStrings", q, j)
  \/ /\ "copy" \in Ops
     /\ \E i \in SlotIds, j \in 1..NSlots : CopySlot(i, j)
  \/ /\ "rebuild" \in Ops
     /\ \E i \in 1..NSlots : Rebuild(i)
  \/ /\ "builder" \in Ops
     /\ \/ \E i \in 1..NSlots : BReset(i)
        \/ \E n \in Names, v \in Vals : BSetA(n, v)
        \/ \E n \in Names : BDelA(n)
        \/ \E S \in KeepSets : BKeepA(S)
        \/ \E n \in Names : BGetA(n)
        \/ BRangeA
        \/ \E j \in 1..NSlots : BLabelsA(j)
  \/ /\ "scratch" \in Ops
     /\ \/ SReset
        \/ \E n \in Names, v \in Vals : SAdd(n, v)
        \/ SSort
        \/ \E i \in 1..NSlots : SAssign(i)
        \/ \E j \in 1..NSlots : SLabels(j)
        \/ SOverwrite

\* simulation: one random instance per operation kind
SimNext ==
  \/ \E q \in {RandomElement(DistinctInputs)}, j \in {RandomElement(1..NSlots)}, k \in {RandomElement({"FromStrings", "FromMap", "New"})} : Construct(k, q, j)
  \/ \E i \in {RandomElement(SlotIds)}, j \in {RandomElement(1..NSlots)} : CopySlot(i, j)
  \/ \E i \in {RandomElement(1..NSlots)} : Rebuild(i)
  \/ \E i \in {RandomElement(1..NSlots)} : BReset(i)
  \/ \E n \in {RandomElement(Names)}, v \in {RandomElement(Vals)} : BSetA(n, v)
  \/ \E n \in {RandomElement(Names)}, v \in {RandomElement(Vals)} : BSetA(n, v)
  \/ \E n \in {RandomElement(Names)} : BDelA(n)
  \/ \E S \in {RandomElement(KeepSets)} : BKeepA(S)
  \/ \E n \in {RandomElement(Names)} : BGetA(n)
  \/ BRangeA
  \/ \E j \in {RandomElement(1..NSlots)} : BLabelsA(j)
  \/ SReset
  \/ \E n \in {RandomElement(Names)}, v \in {RandomElement(Vals)} : SAdd(n, v)
  \/ \E n \in {RandomElement(Names)}, v \in {RandomElement(Vals)} : SAdd(n, v)
  \/ SSort
  \/ \E i \in {RandomElement(1..NSlots)} : SAssign(i)
  \/ \E j \in {RandomElement(1..NSlots)} : SLabels(j)
  \/ SOverwrite

Next == \/ nops < MaxOps /\ (IF Mode = "sim" THEN SimNext ELSE McNext)
        \/ End
Spec == Init /\ [][Next]_vars

-----------------------------------------------------------------------------
(* What TLC checks: the operations keep label sets canonical and the        *)
(* Builder's lookups agree with the label set it would produce.             *)
\* whatever constructors and builders produce is a map (sorted, no duplicates); only a
\* ScratchBuilder that was fed unsorted or repeated names can produce anything else
Canonical == (\A i \in 1..NSlots : WF(slots[i])) \/ (\E k \in DOMAIN hist : hist[k].a \in {"SLabels", "SOverwrite"})
BuilderWF == /\ WF(bld.base)
             /\ \A i, j \in DOMAIN bld.add : i # j => bld.add[i].n # bld.add[j].n
             /\ \A i \in DOMAIN bld.add : bld.add[i].v # ""
\* Builder.Get(n) = Builder.Labels().Get(n) and Builder.Range enumerates exactly Builder.Labels()
BuilderConsistent == /\ WF(BResult(bld))
                     /\ \A n \in Names : BGet(bld, n) = GetOf(BResult(bld), n)
                     /\ Range(BRange(bld)) = Range(BResult(bld))
                     /\ \A p \in Range(BResult(bld)) : p.v # ""
\* Compare is a total order consistent with equality; Get/Has agree on well-formed lists
ObserversConsistent ==
  \A i, j \in SlotIds :
    /\ (CompareOf(slots[i], slots[j]) = 0) = (slots[i] = slots[j])
    /\ CompareOf(slots[i], slots[j]) = -CompareOf(slots[j], slots[i])
    /\ \A k \in SlotIds : CompareOf(slots[i], slots[j]) <= 0 /\ CompareOf(slots[j], slots[k]) <= 0 => CompareOf(slots[i], slots[k]) <= 0
    /\ \A n \in Names : HasOf(slots[i], n) \/ GetOf(slots[i], n) = ""

-----------------------------------------------------------------------------
(* Emission                                                                 *)
\* "obs": every transition that observes a builder (its result is only visible through these)
ObsActions == {"BGet", "BRange", "BLabels", "SLabels", "SOverwrite"}
Emit == CASE EmitMode = "all" /\ hist' # hist -> PrintT("@@TR " \o ToJson(Out(hist', slots')))
          [] EmitMode = "obs" /\ hist' # hist /\ Last(hist').a \in ObsActions -> PrintT("@@TR " \o ToJson(Out(hist', slots')))
          [] OTHER -> TRUE
EmitState == EmitMode # "state" \/ PrintT("@@TR " \o ToJson(Out(hist, slots)))
EmitWalk == nops <= MaxOps \/ PrintT("@@TR " \o ToJson(Out(hist, slots)))

NS2 == <<"a", "b">>
NS3 == <<"a", "b", "c">>
VS1 == <<"x">>
VS2 == <<"", "x">>
VS3 == <<"", "x", "Lx">>
VS4 == <<"", "x", "Lx", "Ly">>
VS5 == <<"", "x", "y", "Lx", "Ly">>
=============================================================================
