SPECIFICATION Spec
CONSTANTS
  NameSeq <- NS2
  ValSeq <- VS2
  NSlots = 1
  KeepSets = {{}, {"a"}}
  MaxPairs = 2
  Ops = {"cons", "builder"}
  MaxOps = 99
  Mode = "mc"
  EmitMode = "obs"
VIEW View
INVARIANTS Canonical BuilderWF BuilderConsistent ObserversConsistent
ACTION_CONSTRAINT Emit
CHECK_DEADLOCK FALSE
