SPECIFICATION Spec
CONSTANTS
  NameSeq <- NS3
  ValSeq <- VS5
  NSlots = 2
  KeepSets = {{}, {"a"}, {"b", "c"}, {"a", "b", "c"}}
  MaxPairs = 3
  Ops = {"cons", "copy", "rebuild", "builder", "scratch"}
  Mode = "sim"
  EmitMode = "none"
INVARIANTS Canonical BuilderWF BuilderConsistent ObserversConsistent EmitWalk
CHECK_DEADLOCK FALSE
