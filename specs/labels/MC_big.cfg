SPECIFICATION Spec
CONSTANTS
  NameSeq <- NS2
  ValSeq <- VS3
  NSlots = 1
  KeepSets = {{}, {"a"}, {"b"}}
  MaxPairs = 2
  Ops = {"cons", "builder", "scratch", "copy"}
  MaxOps = 6
  Mode = "mc"
  EmitMode = "none"
VIEW View
INVARIANTS Canonical BuilderWF BuilderConsistent ObserversConsistent
CHECK_DEADLOCK FALSE
