SPECIFICATION Spec
CONSTANTS
  Times = {20, 30, 40}
  MaxN = 3
  MinN = 0
  Vals = {0, 1, 3}
  NegVals = {1}
  WithNaN = TRUE
  STModes = {"none"}
  STBack = 5
  Fns = {"rate","increase","delta","irate","idelta","resets","changes"}
  Evals = {40, 45}
  Ranges = {25}
  Offsets = {0, 5}
  UseSTs = {TRUE}
  Steps = {0}
  NSteps = 1
  BuildMode = FALSE
  EmitOn = TRUE
INVARIANTS TypeOK ImplMatchesRef WindowReuse IncrementsLaw NonNegative IncreaseIsRateTimesRange NoResetIncreaseIsDelta FactorBounded CountsBounded OffsetLaw Emit
CHECK_DEADLOCK FALSE
