SPECIFICATION Spec
CONSTANTS
  Times = {10, 20, 30, 60, 70, 80}
  MaxN = 6
  MinN = 6
  Vals = {1, 3}
  NegVals = {}
  WithNaN = FALSE
  STModes = {"none","const","reset","resetu","delta","overlap"}
  STBack = 5
  Fns = {"rate","increase","irate","resets"}
  Evals = {30}
  Ranges = {15, 25}
  Offsets = {0}
  UseSTs = {TRUE}
  Steps = {10, 30}
  NSteps = 5
  BuildMode = FALSE
  EmitOn = TRUE
INVARIANTS TypeOK ImplMatchesRef WindowReuse IncrementsLaw NonNegative IncreaseIsRateTimesRange NoResetIncreaseIsDelta FactorBounded CountsBounded OffsetLaw Emit
CHECK_DEADLOCK FALSE
