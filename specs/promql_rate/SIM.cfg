SPECIFICATION Spec
CONSTANTS
  Times = {3, 10, 12, 15, 20, 21, 22, 25, 28, 30, 31, 32, 35, 38, 39, 40, 41, 45, 50, 55, 60}
  MaxN = 5
  MinN = 0
  Vals = {0, 1, 2, 5, 9}
  NegVals = {2}
  WithNaN = TRUE
  STModes = {"none"}
  STBack = 4
  Fns = {"rate","increase","delta","irate","idelta","resets","changes"}
  Evals = {40, 41, 50, 55, 60}
  Ranges = {10, 15, 20, 30, 40, 44}
  Offsets = {0, 5, 10}
  UseSTs = {TRUE, FALSE}
  Steps = {0, 10, 25}
  NSteps = 4
  BuildMode = TRUE
  EmitOn = TRUE
INVARIANTS TypeOK ImplMatchesRef WindowReuse IncrementsLaw NonNegative IncreaseIsRateTimesRange NoResetIncreaseIsDelta FactorBounded CountsBounded OffsetLaw Emit
CHECK_DEADLOCK FALSE
