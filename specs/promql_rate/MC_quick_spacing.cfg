SPECIFICATION Spec
CONSTANTS
  Times = {20, 21, 22, 30, 38, 39, 40, 50}
  MaxN = 4
  MinN = 0
  Vals = {2, 5}
  NegVals = {}
  WithNaN = FALSE
  STModes = {"none"}
  STBack = 5
  Fns = {"rate","increase","delta"}
  Evals = {50}
  Ranges = {40, 30}
  Offsets = {0}
  UseSTs = {TRUE}
  BuildMode = FALSE
  EmitOn = TRUE
INVARIANTS TypeOK ImplMatchesRef IncrementsLaw NonNegative IncreaseIsRateTimesRange NoResetIncreaseIsDelta FactorBounded CountsBounded OffsetLaw Emit
CHECK_DEADLOCK FALSE
