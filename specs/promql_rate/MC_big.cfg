SPECIFICATION Spec
CONSTANTS
  Times = {12, 20, 21, 22, 30, 31, 38, 39, 40, 45, 50}
  MaxN = 4
  MinN = 0
  Vals = {0, 2, 5}
  NegVals = {}
  WithNaN = FALSE
  STModes = {"none", "resetu"}
  STBack = 5
  Fns = {"rate","delta","irate","resets"}
  Evals = {50}
  Ranges = {40, 29}
  Offsets = {0}
  UseSTs = {TRUE}
  Steps = {0}
  NSteps = 1
  BuildMode = FALSE
  EmitOn = FALSE
INVARIANTS TypeOK ImplMatchesRef WindowReuse IncrementsLaw NonNegative IncreaseIsRateTimesRange NoResetIncreaseIsDelta FactorBounded CountsBounded OffsetLaw Emit
CHECK_DEADLOCK FALSE
