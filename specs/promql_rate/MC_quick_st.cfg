SPECIFICATION Spec
CONSTANTS
  Times = {20, 30, 31, 40}
  MaxN = 4
  MinN = 1
  Vals = {1, 3}
  NegVals = {}
  WithNaN = FALSE
  STModes = {"none","const","reset","resetu","delta","self","future","overlap","first0"}
  STBack = 5
  Fns = {"rate","increase","irate","resets","delta"}
  Evals = {40}
  Ranges = {20, 30}
  Offsets = {0}
  UseSTs = {TRUE, FALSE}
  Steps = {0}
  NSteps = 1
  BuildMode = FALSE
  EmitOn = TRUE
INVARIANTS TypeOK ImplMatchesRef WindowReuse IncrementsLaw NonNegative IncreaseIsRateTimesRange NoResetIncreaseIsDelta FactorBounded CountsBounded OffsetLaw Emit
CHECK_DEADLOCK FALSE
