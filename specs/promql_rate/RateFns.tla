------------------------------ MODULE RateFns ------------------------------
(***************************************************************************)
(* C30 -- rate, increase, delta, irate, idelta, resets, changes on one     *)
(* float series, in exact rational arithmetic.                             *)
(*                                                                         *)
(* A case is a series (samples [t, v, st]: timestamp in ms, value, start   *)
(* timestamp, 0 = unknown), a function, an evaluation time, a range, an    *)
(* offset and the engine option use-start-timestamps.                      *)
(*                                                                         *)
(* Two layers:                                                             *)
(*  (1) the reference ("Documented algorithm"): closed formulas -- the     *)
(*      counter increase as the sum of per-interval increments (a reset    *)
(*      interval contributes the whole new value), the extrapolation to    *)
(*      the window boundaries limited by 1.1 x the average sample interval *)
(*      (beyond it: half an interval) and by the counter's zero point, the *)
(*      start-timestamp zero sample.                                       *)
(*  (2) the transcription of promql/functions.go as a state machine        *)
(*      (extrapolatedRate: window selection, last-first difference,        *)
(*      reset-correction loop, start-timestamp branch, start / zero-point  *)
(*      / end extrapolation, factor; instantValue; funcResets;             *)
(*      funcChanges) with one action per step.                             *)
(* TLC checks (2) = (1) on every explored case and the laws of the         *)
(* property statement (non-negative counters give non-negative rates,      *)
(* increase = rate x range, ...).  Finished cases are emitted with the     *)
(* predicted output for replay against a real TSDB + promql.Engine.        *)
(*                                                                         *)
(* Time unit: milliseconds.  Rates are per millisecond in here (the        *)
(* harness converts to per second); this keeps all numbers far below the   *)
(* 32-bit limit of TLC.                                                    *)
(*                                                                         *)
(* Exact ties of the threshold comparison `duration >= 1.1 * average` are  *)
(* excluded (TieFree): float64 1.1 is not 11/10, so the documented         *)
(* comparison is undecidable exactly there.                                *)
(***************************************************************************)
EXTENDS Integers, Sequences, FiniteSets, TLC, Json, SequencesExt, FiniteSetsExt

CONSTANTS
  Times,      \* candidate sample timestamps (positive integers, ms)
  MaxN,       \* maximal number of samples of the series
  MinN,       \* minimal number (exhaustive mode)
  Vals,       \* sample values (naturals)
  NegVals,    \* negations of these are sample values too (gauges)
  WithNaN,    \* BOOLEAN: NaN is a sample value too
  STModes,    \* subset of {"none","const","reset","resetu","delta","self","future","overlap","first0"}
  STBack,     \* how far before the first sample a known start lies (ms)
  Fns,        \* subset of {"rate","increase","delta","irate","idelta","resets","changes"}
  Evals,      \* evaluation times
  Ranges,     \* range of the matrix selector (ms)
  Offsets,    \* offset modifier (ms)
  UseSTs,     \* subset of BOOLEAN: engine option UseStartTimestamps
  Steps,      \* range queries: step widths in ms; 0 = instant query
  NSteps,     \* range queries: number of steps
  BuildMode,  \* TRUE: the case is built step by step (simulation)
  EmitOn

VARIABLES
  pc,
  ser,     \* the stored series: sequence of [t, v, st], strictly increasing t
  qy,      \* the query: [fn, e, rg, off, usest]
  win,     \* samples selected by the matrix selector (rangeStart < t <= rangeEnd)
  i,       \* loop index
  r,       \* working record of the function being evaluated
  out,     \* [present |-> BOOLEAN, v |-> value]: the output sample of the current step
  stp,     \* range query: index of the current step (0 for an instant query)
  outs,    \* outputs of the finished steps
  carry,   \* the points (with start timestamps) matrixIterSlice keeps from the previous step
  ref,     \* what the reference demands at the first evaluation time (set at the end)
  refs     \* ... and at every step

vars == <<pc, ser, qy, win, i, r, out, stp, outs, carry, ref, refs>>

-----------------------------------------------------------------------------
(* exact rationals + NaN                                                    *)
F(n, d) == [t |-> "f", n |-> n, d |-> d]
NaN     == [t |-> "NaN", n |-> 0, d |-> 1]
Abs(x) == IF x < 0 THEN -x ELSE x
RECURSIVE GCD(_, _)
GCD(a, b) == IF b = 0 THEN a ELSE GCD(b, a % b)
Q(n, d) == LET s == IF d < 0 THEN -1 ELSE 1
               g == GCD(Abs(n), Abs(d))
           IN  F((s * n) \div g, (s * d) \div g)
I(n) == F(n, 1)
IsNaN(x) == x.t = "NaN"
XAdd(x, y) == IF IsNaN(x) \/ IsNaN(y) THEN NaN ELSE Q(x.n * y.d + y.n * x.d, x.d * y.d)
XNeg(x)    == IF IsNaN(x) THEN NaN ELSE F(-x.n, x.d)
XSub(x, y) == XAdd(x, XNeg(y))
\* cross-cancel before multiplying (keeps intermediate products small)
XMul(x, y) == IF IsNaN(x) \/ IsNaN(y) THEN NaN
              ELSE LET g1 == GCD(Abs(x.n), y.d)  g2 == GCD(Abs(y.n), x.d)
                   IN Q((x.n \div g1) * (y.n \div g2), (x.d \div g2) * (y.d \div g1))
XInv(x)    == Q(x.d, x.n)           \* x finite, non-zero
XDiv(x, y) == IF IsNaN(x) \/ IsNaN(y) THEN NaN ELSE XMul(x, XInv(y))
XLt(x, y)  == ~IsNaN(x) /\ ~IsNaN(y) /\ x.n * y.d < y.n * x.d
XLe(x, y)  == ~IsNaN(x) /\ ~IsNaN(y) /\ x.n * y.d <= y.n * x.d
XEq(x, y)  == ~IsNaN(x) /\ ~IsNaN(y) /\ x = y
XMin(x, y) == IF XLt(y, x) THEN y ELSE x
XAbs(x)    == IF IsNaN(x) THEN NaN ELSE F(Abs(x.n), x.d)
Zero == I(0)

ValSet == {I(v) : v \in Vals} \cup {I(-v) : v \in NegVals} \cup (IF WithNaN THEN {NaN} ELSE {})

-----------------------------------------------------------------------------
(* start timestamps                                                         *)

\* isStartTimestampReset(prevST, prevT, curST, curT): the start timestamp of the current sample says
\* that the counter was (re)started after the previous sample
STReset(pst, pt, cst, ct) ==
  IF cst = 0 \/ cst >= ct THEN FALSE        \* unknown, invalid (ST > T) or OTel "unknown start" (ST = T)
  ELSE IF cst < pt THEN FALSE
  ELSE IF cst > pt THEN TRUE
  ELSE \* cst = pt: a delta series, or a cumulative one with unknown start
       IF pst > pt THEN FALSE ELSE pst # 0 /\ pst # pt

\* a reset between two consecutive samples a, b (counter semantics)
IsReset(a, b, usest) == XLt(b.v, a.v) \/ (usest /\ STReset(a.st, a.t, b.st, b.t))

\* start timestamps of a series of sample times ts under a mode (exhaustive configurations)
STOf(mode, ts, k) ==
  CASE mode = "none"    -> 0
    [] mode = "const"   -> ts[1] - STBack                                   \* cumulative, start known
    [] mode = "reset"   -> IF k >= 3 THEN ts[2] + 1 ELSE ts[1] - STBack      \* restarted just after the 2nd sample
    [] mode = "resetu"  -> IF k >= 3 THEN ts[2] + 1 ELSE 0                   \* start unknown, then restarted
    [] mode = "delta"   -> IF k = 1 THEN ts[1] - STBack ELSE ts[k - 1]      \* delta temporality
    [] mode = "self"    -> ts[k]
    [] mode = "future"  -> ts[k] + 1
    [] mode = "overlap" -> IF k = 1 THEN ts[1] - STBack ELSE ts[k - 1] - 1
    [] mode = "first0"  -> IF k = 1 THEN 0 ELSE ts[1] - STBack
STCands(ts, k) == {0, ts[1] - STBack, ts[k], ts[k] + 1} \cup
                  (IF k > 1 THEN {ts[k - 1] - 1, ts[k - 1], ts[k - 1] + 1} ELSE {})

-----------------------------------------------------------------------------
(* Documented algorithm (the reference)                                     *)

RangeStart(q) == q.e - q.off - q.rg
RangeEnd(q)   == q.e - q.off
Window(s, q)  == SelectSeq(s, LAMBDA x : x.t > RangeStart(q) /\ x.t <= RangeEnd(q))

RECURSIVE SumTo(_, _)
SumTo(f, n) == IF n = 0 THEN Zero ELSE XAdd(f[n], SumTo(f, n - 1))
\* increase of a counter: last - first, "breaks in monotonicity automatically adjusted for": every
\* reset adds back the value the counter had reached before it
CounterIncrease(w, usest) ==
  LET corr == [k \in 1..(Len(w) - 1) |-> IF IsReset(w[k], w[k + 1], usest) THEN w[k].v ELSE Zero]
  IN XAdd(XSub(w[Len(w)].v, w[1].v), SumTo(corr, Len(w) - 1))
\* the same thing seen interval by interval: the difference, or the whole new value after a reset
\* (equal to the above unless a NaN sample sits in the window, see law IncrementsLaw)
IncrementSum(w, usest) ==
  LET incs == [k \in 1..(Len(w) - 1) |-> IF IsReset(w[k], w[k + 1], usest) THEN w[k + 1].v
                                           ELSE XSub(w[k + 1].v, w[k].v)]
  IN SumTo(incs, Len(w) - 1)

\* the first sample's start timestamp lies inside the window and before the sample: the counter
\* started from zero there
STInside(w, q) == q.usest /\ Len(w) > 0 /\ w[1].st # 0 /\ w[1].st > RangeStart(q) /\ w[1].st < w[1].t

\* extrapolate a boundary gap d: all the way if below 1.1 x avg interval, else half an interval
Extrap(d, avg) == IF XLe(XMul(Q(11, 10), avg), d) THEN XDiv(avg, I(2)) ELSE d

RefRate(w, q, isCounter, isRate) ==
  LET n     == Len(w)
      first == w[1]
      last  == w[n]
      raw   == IF isCounter THEN CounterIncrease(w, q.usest) ELSE XSub(last.v, first.v)
      gapS  == I(first.t - RangeStart(q))
      gapE  == I(RangeEnd(q) - last.t)
      avg   == IF n > 1 THEN Q(last.t - first.t, n - 1) ELSE Zero
      scale(v) == IF isRate THEN XDiv(v, I(q.rg)) ELSE v
  IN
  IF n = 0 THEN [present |-> FALSE, v |-> Zero]
  ELSE IF isCounter /\ STInside(w, q) THEN
     \* a zero sample at the start timestamp replaces the extrapolation to the left
     LET inc == XAdd(raw, first.v)
         si  == I(last.t - first.st)
         dE  == Extrap(gapE, avg)
     IN [present |-> TRUE, v |-> scale(XMul(inc, XDiv(XAdd(si, dE), si)))]
  ELSE IF n = 1 THEN [present |-> FALSE, v |-> Zero]
  ELSE
     LET si  == I(last.t - first.t)
         dS0 == Extrap(gapS, avg)
         \* a counter cannot have been negative: do not extrapolate beyond its zero point
         dS  == IF isCounter /\ XLt(Zero, raw) /\ XLe(Zero, first.v)
                  THEN XMin(dS0, XMul(si, XDiv(first.v, raw))) ELSE dS0
         dE  == Extrap(gapE, avg)
     IN [present |-> TRUE, v |-> scale(XMul(raw, XDiv(XAdd(XAdd(si, dS), dE), si)))]

\* irate / idelta: the last two samples
RefInstant(w, q, isRate) ==
  LET n == Len(w) IN
  IF n < 2 THEN [present |-> FALSE, v |-> Zero]
  ELSE LET a == w[n - 1]  b == w[n]
           d == IF isRate /\ IsReset(a, b, q.usest) THEN b.v ELSE XSub(b.v, a.v)
       IN [present |-> TRUE, v |-> IF isRate THEN XDiv(d, I(b.t - a.t)) ELSE d]

RefResets(w, q) ==
  IF Len(w) = 0 THEN [present |-> FALSE, v |-> Zero]
  ELSE [present |-> TRUE, v |-> I(Cardinality({k \in 1..(Len(w) - 1) : IsReset(w[k], w[k + 1], q.usest)}))]
\* a change: consecutive values differ (NaN followed by NaN is no change)
RefChanges(w) ==
  IF Len(w) = 0 THEN [present |-> FALSE, v |-> Zero]
  ELSE [present |-> TRUE,
        v |-> I(Cardinality({k \in 1..(Len(w) - 1) :
                               w[k].v # w[k + 1].v /\ ~(IsNaN(w[k].v) /\ IsNaN(w[k + 1].v))}))]

\* start timestamps are only handed to rate, irate, increase and resets
EffQ(q) == [q EXCEPT !.usest = q.usest /\ q.fn \in {"rate", "irate", "increase", "resets"}]
Ref(s, q0) ==
  LET q == EffQ(q0)  w == Window(s, q) IN
  CASE q.fn = "rate"     -> RefRate(w, q, TRUE, TRUE)
    [] q.fn = "increase" -> RefRate(w, q, TRUE, FALSE)
    [] q.fn = "delta"    -> RefRate(w, q, FALSE, FALSE)
    [] q.fn = "irate"    -> RefInstant(w, q, TRUE)
    [] q.fn = "idelta"   -> RefInstant(w, q, FALSE)
    [] q.fn = "resets"   -> RefResets(w, q)
    [] q.fn = "changes"  -> RefChanges(w)

\* the threshold comparison is consulted with an exact tie
Tie(s, q0) ==
  LET q == EffQ(q0)  w == Window(s, q)  n == Len(w) IN
  /\ q.fn \in {"rate", "increase", "delta"} /\ n > 1
  /\ LET avg == Q(w[n].t - w[1].t, n - 1)
         thr == XMul(Q(11, 10), avg)
     IN \/ thr = I(RangeEnd(q) - w[n].t)
        \/ thr = I(w[1].t - RangeStart(q)) /\ ~(q.fn # "delta" /\ STInside(w, q))
TieFree == \A j \in 0..(qy.ns - 1) : ~Tie(ser, [qy EXCEPT !.e = qy.e + j * qy.st])

-----------------------------------------------------------------------------
(* The evaluation as promql/functions.go performs it                        *)

Series(n) ==   \* all series with n samples (exhaustive mode)
  UNION {UNION {{[k \in 1..n |-> [t |-> ts[k], v |-> vs[k], st |-> STOf(m, ts, k)]] : vs \in [1..n -> ValSet]}
                 : m \in STModes}
         : ts \in {SetToSortSeq(S, <) : S \in kSubset(n, Times)}}
\* e is the (first) evaluation time; a range query has ns steps of width st
Queries == {q \in [fn : Fns, e : Evals, rg : Ranges, off : Offsets, usest : UseSTs, st : Steps, ns : {1, NSteps}] :
              (q.st = 0) = (q.ns = 1)}
NoQ == [fn |-> "", e |-> 0, rg |-> 0, off |-> 0, usest |-> FALSE, st |-> 0, ns |-> 1]
\* the query as evaluated at step j (0-based): "a range query is the instant query at every step"
StepQ(j) == [qy EXCEPT !.e = qy.e + j * qy.st]
CurQ == StepQ(stp)
NoOut == [present |-> FALSE, v |-> Zero]

Init ==
  /\ win = <<>> /\ i = 0 /\ r = <<>> /\ out = NoOut /\ ref = <<>>
  /\ stp = 0 /\ outs = <<>> /\ carry = <<>> /\ refs = <<>>
  /\ IF BuildMode THEN pc = "build" /\ ser = <<>> /\ qy = NoQ
     ELSE /\ pc = "select"
          /\ ser \in UNION {Series(n) : n \in MinN..MaxN}
          /\ qy \in Queries

\* ---- BuildMode (random simulation): number of samples, then per sample its time and then its
\* value and start timestamp (AppenderV2.Append(ls, st, t, v)), then the query ----
Plan ==
  /\ pc = "build"
  /\ \E n \in MinN..MaxN : i' = n
  /\ pc' = "build.t"
  /\ UNCHANGED <<ser, qy, win, r, out, ref>>
AppendT ==
  /\ pc = "build.t" /\ Len(ser) < i
  /\ \E t \in {x \in Times : IF ser = <<>> THEN TRUE ELSE x > ser[Len(ser)].t} :
        ser' = Append(ser, [t |-> t, v |-> Zero, st |-> 0])
  /\ pc' = "build.v"
  /\ UNCHANGED <<qy, win, i, r, out, ref>>
AppendV ==
  /\ pc = "build.v"
  /\ LET n  == Len(ser)
         ts == [k \in 1..n |-> ser[k].t]
     IN \E v \in ValSet, st \in STCands(ts, n) : ser' = [ser EXCEPT ![n] = [t |-> ser[n].t, v |-> v, st |-> st]]
  /\ pc' = "build.t"
  /\ UNCHANGED <<qy, win, i, r, out, ref>>
Query ==
  /\ pc = "build.t" /\ (IF Len(ser) = i \/ ser = <<>> THEN Len(ser) = i ELSE \A t \in Times : t <= ser[Len(ser)].t)
  /\ \E q \in Queries : qy' = q
  /\ pc' = "select" /\ i' = 0
  /\ UNCHANGED <<ser, win, r, out, ref>>

\* matrixSelector / matrixIterSlice for the current step.  Start timestamps are collected only if the
\* engine option is set and the function is rate, irate, increase or resets.  In a range query the
\* points of the previous step are reused: those at or before the new mint are dropped from the front
\* (start timestamps truncated at the same drop point); if the newest kept point is not after mint
\* everything is cleared (start timestamps too); then the samples after the newest kept point up to maxt
\* are appended.
Masked(x) == [x EXCEPT !.st = IF EffQ(qy).usest THEN x.st ELSE 0]
Select ==
  /\ pc = "select"
  /\ TieFree                    \* exact ties of the 1.1 x threshold are not explored (see header)
  /\ LET mint  == RangeStart(CurQ)
         maxt  == RangeEnd(CurQ)
         kept  == IF carry # <<>> /\ carry[Len(carry)].t > mint THEN SelectSeq(carry, LAMBDA x : x.t > mint) ELSE <<>>
         mintF == IF kept # <<>> THEN kept[Len(kept)].t ELSE mint
         new   == SelectSeq(ser, LAMBDA x : x.t > mintF /\ x.t <= maxt)
     IN win' = kept \o [j \in 1..Len(new) |-> Masked(new[j])]
  /\ pc' = CASE qy.fn \in {"rate", "increase", "delta"} -> "rate.init"
             [] qy.fn \in {"irate", "idelta"} -> "instant"
             [] OTHER -> "count.init"
  /\ UNCHANGED <<ser, qy, i, r, out, ref>>

IsCounter == qy.fn \in {"rate", "increase"}
IsRate    == qy.fn = "rate"
N == Len(win)
Absent == out' = NoOut /\ pc' = "fin"

\* extrapolatedRate: no sample -> no result; otherwise last - first
RateInit ==
  /\ pc = "rate.init"
  /\ IF N = 0 THEN Absent /\ UNCHANGED <<r, i>>
     ELSE /\ r' = [result |-> XSub(win[N].v, win[1].v)]
          /\ i' = 1
          /\ pc' = IF IsCounter THEN "rate.resets" ELSE "rate.st"
          /\ UNCHANGED out
  /\ UNCHANGED <<ser, qy, win, ref>>

\* "Handle counter resets": for every pair with a drop or a start-timestamp reset add the previous value
RateResets ==
  /\ pc = "rate.resets"
  /\ IF i >= N THEN pc' = "rate.st" /\ UNCHANGED <<r, i>>
     ELSE /\ r' = IF XLt(win[i + 1].v, win[i].v) \/ STReset(win[i].st, win[i].t, win[i + 1].st, win[i + 1].t)
                    THEN [r EXCEPT !.result = XAdd(r.result, win[i].v)] ELSE r
          /\ i' = i + 1
          /\ UNCHANGED pc
  /\ UNCHANGED <<ser, qy, win, out, ref>>

\* durations to the boundaries, average interval, threshold; then the start-timestamp branch,
\* the single-sample exit or the extrapolation of the start
RateStart ==
  /\ pc = "rate.st"
  /\ LET rs    == RangeStart(CurQ)
         firstT == win[1].t
         lastT == win[N].t
         dts   == I(firstT - rs)
         dte   == I(RangeEnd(CurQ) - lastT)
         si    == I(lastT - firstT)
         avg   == IF N > 1 THEN XDiv(si, I(N - 1)) ELSE Zero
         thr   == XMul(avg, Q(11, 10))
         st1   == win[1].st
     IN
     IF IsCounter /\ st1 # 0 /\ st1 > rs /\ st1 < firstT
       THEN \* assume a zero sample at ST
            /\ r' = [result |-> XAdd(r.result, win[1].v), dts |-> Zero, dte |-> dte, si |-> I(lastT - st1),
                     avg |-> avg, thr |-> thr]
            /\ pc' = "rate.end" /\ UNCHANGED out
     ELSE IF N = 1 THEN Absent /\ UNCHANGED r
     ELSE /\ r' = [result |-> r.result, dts |-> IF XLe(thr, dts) THEN XDiv(avg, I(2)) ELSE dts, dte |-> dte,
                   si |-> si, avg |-> avg, thr |-> thr]
          /\ pc' = IF IsCounter THEN "rate.zero" ELSE "rate.end"
          /\ UNCHANGED out
  /\ UNCHANGED <<ser, qy, win, i, ref>>

\* "Counters cannot be negative": limit the start extrapolation by the zero point
RateZero ==
  /\ pc = "rate.zero"
  /\ LET dz == IF XLt(Zero, r.result) /\ XLe(Zero, win[1].v)
                 THEN XMul(r.si, XDiv(win[1].v, r.result)) ELSE r.dts
     IN r' = [r EXCEPT !.dts = IF XLt(dz, r.dts) THEN dz ELSE r.dts]
  /\ pc' = "rate.end"
  /\ UNCHANGED <<ser, qy, win, i, out, ref>>

\* extrapolation of the end, factor, per-second (here: per-millisecond) conversion
RateEnd ==
  /\ pc = "rate.end"
  /\ LET dte    == IF XLe(r.thr, r.dte) THEN XDiv(r.avg, I(2)) ELSE r.dte
         factor == IF r.si # Zero THEN XDiv(XAdd(XAdd(r.si, r.dts), dte), r.si) ELSE I(1)
         f2     == IF IsRate THEN XDiv(factor, I(qy.rg)) ELSE factor
     IN out' = [present |-> TRUE, v |-> XMul(r.result, f2)]
  /\ pc' = "fin"
  /\ UNCHANGED <<ser, qy, win, i, r, ref>>

\* instantValue (irate, idelta)
Instant ==
  /\ pc = "instant"
  /\ IF N < 2 THEN Absent
     ELSE LET a == win[N - 1]  b == win[N]
              isRate == qy.fn = "irate"
              d == IF ~isRate \/ ~(XLt(b.v, a.v) \/ STReset(a.st, a.t, b.st, b.t)) THEN XSub(b.v, a.v) ELSE b.v
          IN /\ out' = [present |-> TRUE, v |-> IF isRate THEN XDiv(d, I(b.t - a.t)) ELSE d]
             /\ pc' = "fin"
  /\ UNCHANGED <<ser, qy, win, i, r, ref>>

\* funcResets / funcChanges: walk over consecutive samples
CountInit ==
  /\ pc = "count.init"
  /\ IF N = 0 THEN Absent /\ UNCHANGED <<r, i>>
     ELSE r' = [result |-> Zero] /\ i' = 1 /\ pc' = "count.loop" /\ UNCHANGED out
  /\ UNCHANGED <<ser, qy, win, ref>>
CountLoop ==
  /\ pc = "count.loop"
  /\ IF i >= N THEN out' = [present |-> TRUE, v |-> r.result] /\ pc' = "fin" /\ UNCHANGED <<r, i>>
     ELSE LET a == win[i]  b == win[i + 1]
              hit == IF qy.fn = "resets" THEN XLt(b.v, a.v) \/ STReset(a.st, a.t, b.st, b.t)
                     ELSE b.v # a.v /\ ~(IsNaN(a.v) /\ IsNaN(b.v))
          IN /\ r' = IF hit THEN [result |-> XAdd(r.result, I(1))] ELSE r
             /\ i' = i + 1 /\ UNCHANGED <<pc, out>>
  /\ UNCHANGED <<ser, qy, win, ref>>

\* bookkeeping (single successor): ask the reference, once
\* end of a step: rangeEval stores the output sample and moves to the next step (the point slices are
\* handed to the next matrixIterSlice call); after the last step the reference is asked, once
Fin == /\ pc = "fin"
       /\ outs' = Append(outs, out)
       /\ IF stp + 1 < qy.ns
            THEN /\ pc' = "select" /\ stp' = stp + 1 /\ carry' = win
                 /\ win' = <<>> /\ i' = 0 /\ r' = <<>> /\ out' = NoOut
                 /\ UNCHANGED <<ref, refs>>
            ELSE /\ pc' = "end" /\ ref' = Ref(ser, qy)
                 /\ refs' = [j \in 1..qy.ns |-> Ref(ser, StepQ(j - 1))]
                 /\ UNCHANGED <<stp, carry, win, i, r, out>>
       /\ UNCHANGED <<ser, qy>>

Next ==
  \/ /\ \/ Plan \/ AppendT \/ AppendV \/ Query \/ Select \/ RateInit \/ RateResets \/ RateStart \/ RateZero \/ RateEnd
        \/ Instant \/ CountInit \/ CountLoop
     /\ UNCHANGED <<ref, stp, outs, carry, refs>>
  \/ Fin

Spec == Init /\ [][Next]_vars

-----------------------------------------------------------------------------
(* Properties                                                               *)

Finished == pc = "end"

TypeOK ==
  /\ pc \in {"build", "build.t", "build.v", "select", "rate.init", "rate.resets", "rate.st", "rate.zero", "rate.end", "instant",
             "count.init", "count.loop", "fin", "end"}
  /\ \A k \in 1..(Len(ser) - 1) : ser[k].t < ser[k + 1].t
  /\ out.present \in BOOLEAN

\* the code computes the documented algorithm (ties excluded: both sides use the exact 11/10 there)
ImplMatchesRef == Finished => outs = refs
\* the incrementally maintained window (and its start timestamps) is the window of the current step
WindowReuse ==
  pc \in {"rate.init", "rate.resets", "rate.st", "rate.zero", "rate.end", "instant", "count.init", "count.loop", "fin"} =>
     win = [j \in 1..Len(Window(ser, CurQ)) |-> Masked(Window(ser, CurQ)[j])]

NonNegSeries == \A k \in 1..Len(ser) : XLe(Zero, ser[k].v)
\* non-negative counter samples never give a negative rate or increase
NonNegative ==
  (Finished /\ qy.fn \in {"rate", "increase", "irate"} /\ NonNegSeries /\ ref.present) => XLe(Zero, ref.v)
\* increase = rate x range (rates are per ms here)
IncreaseIsRateTimesRange ==
  (Finished /\ qy.fn = "increase") =>
     LET rt == Ref(ser, [qy EXCEPT !.fn = "rate"]) IN
     /\ rt.present = ref.present
     /\ ref.present => ref.v = XMul(rt.v, I(qy.rg))
\* the corrected difference is the sum of the per-interval increments
IncrementsLaw ==
  Finished => LET q == EffQ(qy)  w == Window(ser, q) IN
              (Len(w) > 0 /\ \A k \in 1..Len(w) : ~IsNaN(w[k].v)) => CounterIncrease(w, q.usest) = IncrementSum(w, q.usest)
\* without resets the increase of a counter is the delta of the same samples
NoResetIncreaseIsDelta ==
  (Finished /\ qy.fn = "increase" /\ NonNegSeries /\ Ref(ser, [qy EXCEPT !.fn = "resets"]).v = Zero
     /\ ~STInside(Window(ser, EffQ(qy)), EffQ(qy))) =>
     LET dl == Ref(ser, [qy EXCEPT !.fn = "delta"]) IN
     /\ dl.present = ref.present
     \* delta is not limited by the zero point, so it extrapolates at least as far
     /\ ref.present => XLe(ref.v, dl.v)
\* the extrapolated result never exceeds raw x (1 + 1.1/(n-1) ... ) -- simpler: it covers at most the window
FactorBounded ==
  (Finished /\ qy.fn \in {"increase", "delta"} /\ ref.present /\ ~IsNaN(ref.v)) =>
     LET q == EffQ(qy)  w == Window(ser, q) IN
     (Len(w) > 1 /\ ~STInside(w, q)) =>
        LET raw == IF qy.fn = "increase" THEN CounterIncrease(w, q.usest) ELSE XSub(w[Len(w)].v, w[1].v)
            si  == I(w[Len(w)].t - w[1].t)
        IN \* |result| <= |raw| * range / sampled interval
           XLe(XAbs(ref.v), XMul(XAbs(raw), XDiv(I(q.rg), si)))
\* resets and changes count pairs; every value drop is also a change
CountsBounded ==
  (Finished /\ qy.fn \in {"resets", "changes"} /\ ref.present) =>
     /\ XLe(Zero, ref.v) /\ XLe(ref.v, I(Len(Window(ser, qy)) - 1))
     /\ (qy.fn = "resets" /\ ~qy.usest) => XLe(ref.v, Ref(ser, [qy EXCEPT !.fn = "changes"]).v)
\* a time shift of data and query does not change the result: the offset law
OffsetLaw ==
  (Finished /\ qy.off > 0) =>
     LET q2 == [qy EXCEPT !.off = 0, !.e = qy.e - qy.off] IN Ref(ser, q2) = ref

-----------------------------------------------------------------------------
Case == [s |-> ser, q |-> qy, out |-> ref, outs |-> refs, n |-> Len(Window(ser, qy)),
         stin |-> STInside(Window(ser, EffQ(qy)), EffQ(qy))]
Emit == ~EmitOn \/ pc # "end" \/ PrintT("@@TR " \o ToJson(Case))
=============================================================================
