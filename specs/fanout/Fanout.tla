------------------------------- MODULE Fanout -------------------------------
(***************************************************************************)
(* C54: storage.NewFanout (storage/fanout.go) with best-effort             *)
(* secondaries (storage/secondary.go) over the merge querier               *)
(* (storage/merge.go).  Storage 0 is the primary, 1..NSec the secondaries. *)
(* Every storage holds a set of label sets `has[i]` (numbers 1..NLabels;   *)
(* the samples of a series identify the storage they come from, so a       *)
(* result series is [l, from]) and has one failure injection point         *)
(* `fail[i]`.  One behaviour = one configuration and one operation:        *)
(*                                                                         *)
(*   op = "query"   Querier(), nsel Selects on it, every returned set      *)
(*                  iterated to the end in Select order, Err, Warnings     *)
(*      "labels"    Querier(), LabelNames / LabelValues                    *)
(*      "append"    Appender(), Append, Commit (Rollback if Append failed) *)
(*                                                                         *)
(* REFERENCE (the property): a failing primary fails the operation; a      *)
(* failing secondary never does: the result is the merge of the primary    *)
(* and of the secondaries that did not fail, contains nothing of a failed  *)
(* secondary, and the query reports a warning for it.  A Commit that       *)
(* returns nil has reached every storage; if the primary's Commit fails no *)
(* secondary commits.                                                      *)
(*                                                                         *)
(* TRANSCRIPTION (one action per code step): OpenQueriers = fanout.Querier,*)
(* Select(s) = mergeGenericQuerier.Select (+ secondaryQuerier.Select),     *)
(* Iterate(s) = the lazy init (newGenericMergeSeriesSet, the sync.Once of   *)
(* secondaryQuerier: all-or-nothing over all Selects of a secondary) and    *)
(* genericMergeSeriesSet.Next until false, LabelQuery = mergeResults,      *)
(* Append / Commit = fanoutAppender.  DESIGN §7-H6 was confirmed in both   *)
(* halves; the first (a secondary whose Querier() call fails made          *)
(* fanout.Querier return the error, KF-C54-1) is repaired by b4c7e21123    *)
(* and the transcription follows the repaired code; the second remains a   *)
(* named deviation:                                                        *)
(*   KF_C54_2  a secondary that fails on a later Next (after its first     *)
(*             series) is not discarded: what it returned stays, the error *)
(*             surfaces through Err() and other Selects still use it       *)
(* so the invariant is  CodeMatchesRef \/ KF_C54_2.                        *)
(* Cases carry both predictions: `ref` (verdict) and `code` (to recognise  *)
(* exactly the modelled deviation).                                        *)
(***************************************************************************)
EXTENDS Integers, Sequences, FiniteSets, TLC, Json

CONSTANTS NSec,      \* number of secondaries
          NLabels,   \* label sets 1..NLabels
          Ops,       \* subset of {"query", "labels", "append"}
          NSels,     \* numbers of Selects per query explored, subset of {1, 2}
          MaxFail,   \* at most this many storages fail in one configuration
          EmitMode   \* "done" | "none"

VARIABLES has, fail, op, nsel,     \* configuration
          pc,        \* "start" | "opened" | "selected" | "appended" | "done"
          qerr,      \* storage whose Querier() error was returned by fanout.Querier, -1 = none
          selected,  \* number of Select calls made
          sfailed,   \* secondaries whose secondaryQuerier replaced its sets by warnings/noop sets (once.Do)
          warned,    \* secondaries whose error was turned into a warning of a returned set
          res,       \* [1..2 -> [errs, series]] per Select: storages whose error Err() may report, series returned
          iter,      \* number of returned sets iterated to the end
          lres,      \* label query: [err, from, warns]
          ares       \* append: [aerr, cerr, stored]

vars == <<has, fail, op, nsel, pc, qerr, selected, sfailed, warned, res, iter, lres, ares>>

Stor   == 0..NSec
Secs   == 1..NSec
Labels == 1..NLabels
Min(S) == CHOOSE x \in S : \A y \in S : x <= y
Max(S) == CHOOSE x \in S : \A y \in S : x >= y
SeqOf(S) == SelectSeq([j \in 1..NLabels |-> j], LAMBDA l : l \in S)
Prefix(S, j) == {SeqOf(S)[x] : x \in 1..j}

NoFail == [k |-> "none", sel |-> 0, j |-> 0]
\* failure points of storage i for operation o with n Selects
FailPoints(o, n, h) ==
  {NoFail} \cup
  CASE o = "query"  -> {[k |-> "querier", sel |-> 0, j |-> 0]}
                       \cup {[k |-> kk, sel |-> s, j |-> 0] : kk \in {"select", "next1"}, s \in 1..n}
                       \cup {[k |-> "nextN", sel |-> s, j |-> jj] : s \in 1..n, jj \in 1..Cardinality(h)}
    [] o = "labels" -> {[k |-> "querier", sel |-> 0, j |-> 0], [k |-> "label", sel |-> 0, j |-> 0]}
    [] o = "append" -> {[k |-> "append", sel |-> 0, j |-> 0], [k |-> "commit", sel |-> 0, j |-> 0]}
\* all assignments of one failure point to every storage, as sequences indexed storage+1
RECURSIVE FailSeqs(_, _, _, _)
FailSeqs(i, o, n, h) == IF i > NSec THEN {<<>>}
                        ELSE {<<f>> \o r : f \in FailPoints(o, n, h[i]), r \in FailSeqs(i + 1, o, n, h)}

-----------------------------------------------------------------------------
(* REFERENCE                                                                *)

Failed(i)      == fail[i].k # "none"
FailedSecs     == {i \in Secs : Failed(i)}
Good           == {i \in Stor : ~Failed(i)}
MergeOf(S, C)  == \* C(i) = label sets storage i contributes; merged, sorted, each once, from exactly the contributors
  LET U == UNION {C[i] : i \in S}
      q == SeqOf(U)
  IN [x \in 1..Len(q) |-> [l |-> q[x], from |-> {i \in S : q[x] \in C[i]}]]

\* does the primary's failure hit Select s ?
PrimaryFailsAt(s) == fail[0].k = "querier" \/ (fail[0].k \in {"select", "next1", "nextN"} /\ fail[0].sel = s)
RefQuery == [sets  |-> [s \in 1..nsel |-> IF PrimaryFailsAt(s) THEN [fails |-> TRUE, series |-> <<>>]
                                          ELSE [fails |-> FALSE, series |-> MergeOf(Good \cup {0}, has)]],
             warns |-> FailedSecs]
RefLabels == IF Failed(0) THEN [fails |-> TRUE, from |-> {}, warns |-> {}]
             ELSE [fails |-> FALSE, from |-> {i \in Good : has[i] # {}}, warns |-> FailedSecs]

-----------------------------------------------------------------------------
Init == /\ op \in Ops
        /\ nsel \in (IF op = "query" THEN NSels ELSE {1})
        /\ has \in [Stor -> SUBSET Labels]
        /\ op = "append" => \A i \in Stor : has[i] = {}              \* contents are irrelevant for appends
        /\ op = "labels" => \A i \in Stor : has[i] \subseteq {1}     \* only empty / non-empty matters
        /\ \E q \in FailSeqs(0, op, nsel, has) : fail = [i \in Stor |-> q[i + 1]]
        /\ Cardinality({i \in Stor : fail[i].k # "none"}) <= MaxFail
        /\ pc = "start" /\ qerr = -1 /\ selected = 0 /\ sfailed = {}
        /\ warned = {} /\ iter = 0
        /\ res = [s \in 1..2 |-> [errs |-> {}, series |-> <<>>]]
        /\ lres = [err |-> -1, from |-> {}, warns |-> {}]
        /\ ares = [aerr |-> -1, cerr |-> -1, stored |-> {}]

\* fanout.Querier: the primary's error is returned; a secondary whose Querier() fails is replaced by a
\* failedQuerier that fails every Select / label call with that error (commit b4c7e21123, formerly KF-C54-1:
\* the secondary's error was returned, too)
OpenQueriers ==
  /\ pc = "start" /\ op \in {"query", "labels"}
  /\ IF fail[0].k = "querier" THEN /\ qerr' = 0 /\ pc' = "done"
                              ELSE /\ qerr' = -1 /\ pc' = "opened"
  /\ UNCHANGED <<has, fail, op, nsel, selected, sfailed, warned, res, iter, lres, ares>>

\* mergeGenericQuerier.Select: Select on every querier; the secondaries' sets are registered in asyncSets
Select ==
  /\ pc = "opened" /\ op = "query" /\ selected < nsel
  /\ selected' = selected + 1
  /\ pc' = IF selected' = nsel THEN "selected" ELSE "opened"
  /\ UNCHANGED <<has, fail, op, nsel, qerr, sfailed, warned, res, iter, lres, ares>>

\* a secondary fails "early" on Select s: its set for s fails before returning a series
EarlyAt(i, s) == \/ fail[i].k \in {"select", "next1"} /\ fail[i].sel = s
                 \/ i \in Secs /\ fail[i].k = "querier"           \* failedQuerier.Select = ErrSeriesSet
LateAt(i, s)  == fail[i].k = "nextN" /\ fail[i].sel = s

\* what storage i contributes to the set of Select s, given the secondaries discarded by once.Do
Contrib(i, s, sf) == IF i \in sf THEN {}
                     ELSE IF LateAt(i, s) THEN Prefix(has[i], fail[i].j)
                     ELSE has[i]

(* Iterate the set returned by Select number iter+1 to the end (sets are iterated in Select order).      *)
(* First Next = lazyGenericSeriesSet.init -> newGenericMergeSeriesSet pre-advances every set; the first  *)
(* Next on a secondary's lazy set runs its once.Do over ALL its asyncSets (every Select was made before): *)
(* one early failure discards the secondary from every set; the warning goes to the set being iterated.  *)
(* A primary set that fails early makes the merged set an errorOnlySeriesSet.                            *)
Iterate ==
  /\ pc = "selected" /\ op = "query" /\ iter < nsel
  /\ LET s  == iter + 1
         sf == IF iter = 0 THEN {i \in Secs : \E t \in 1..nsel : EarlyAt(i, t)} ELSE sfailed
         C  == [i \in Stor |-> Contrib(i, s, sf)]
     IN /\ sfailed' = sf
        /\ warned' = IF iter = 0 THEN sf ELSE warned
        /\ res' = [res EXCEPT ![s] =
                     IF EarlyAt(0, s) THEN [errs |-> {0}, series |-> <<>>]
                     ELSE [errs |-> {i \in Stor \ sf : LateAt(i, s)}, series |-> MergeOf(Stor, C)]]
  /\ iter' = iter + 1
  /\ pc' = IF iter' = nsel THEN "done" ELSE pc
  /\ UNCHANGED <<has, fail, op, nsel, qerr, selected, lres, ares>>

\* mergeGenericQuerier.LabelNames / LabelValues (mergeResults): a primary error fails the call, a
\* secondary error becomes a warning and an empty contribution (secondaryQuerier.LabelNames/LabelValues)
LabelQuery ==
  /\ pc = "opened" /\ op = "labels"
  /\ lres' = IF fail[0].k = "label" THEN [err |-> 0, from |-> {}, warns |-> {}]
             ELSE [err |-> -1, from |-> {i \in Stor : fail[i].k = "none" /\ has[i] # {}},
                   warns |-> {i \in Secs : fail[i].k \in {"label", "querier"}}]
  /\ pc' = "done"
  /\ UNCHANGED <<has, fail, op, nsel, qerr, selected, sfailed, warned, res, iter, ares>>

\* fanoutAppender.Append (primary first, stop at the first error) ...
FAppend ==
  /\ pc = "start" /\ op = "append"
  /\ LET bad == {i \in Stor : fail[i].k = "append"} IN
     IF bad # {} THEN /\ ares' = [ares EXCEPT !.aerr = Min(bad)]       \* the caller rolls back: nothing is stored
                      /\ pc' = "done"
                 ELSE /\ UNCHANGED ares /\ pc' = "appended"
  /\ UNCHANGED <<has, fail, op, nsel, qerr, selected, sfailed, warned, res, iter, lres>>

\* ... and fanoutAppender.Commit: primary, then the secondaries in order while no error; after an error
\* the remaining secondaries are rolled back
FCommit ==
  /\ pc = "appended" /\ op = "append"
  /\ LET bad == {i \in Stor : fail[i].k = "commit"} IN
     ares' = IF bad = {} THEN [aerr |-> -1, cerr |-> -1, stored |-> Stor]
             ELSE [aerr |-> -1, cerr |-> Min(bad), stored |-> {i \in Stor : i < Min(bad)}]
  /\ pc' = "done"
  /\ UNCHANGED <<has, fail, op, nsel, qerr, selected, sfailed, warned, res, iter, lres>>

Next == OpenQueriers \/ Select \/ Iterate \/ LabelQuery \/ FAppend \/ FCommit
Spec == Init /\ [][Next]_vars

-----------------------------------------------------------------------------
(* Properties                                                               *)

KF_C54_2 == \E i \in Secs : fail[i].k = "nextN"

QueryMatchesRef ==
  IF fail[0].k = "querier" THEN qerr = 0
  ELSE /\ qerr = -1
       /\ \A s \in 1..nsel :
            IF RefQuery.sets[s].fails THEN 0 \in res[s].errs
            ELSE res[s].errs = {} /\ res[s].series = RefQuery.sets[s].series
       /\ (\A s \in 1..nsel : ~RefQuery.sets[s].fails) => warned = RefQuery.warns

LabelsMatchRef ==
  IF RefLabels.fails THEN (qerr = 0 \/ lres.err = 0)
  ELSE qerr = -1 /\ lres.err = -1 /\ lres.from = RefLabels.from /\ lres.warns = RefLabels.warns

\* a Commit that returned nil reached every storage; a failed primary Commit means no secondary committed
AppendMatchesRef ==
  /\ (ares.aerr = -1 /\ ares.cerr = -1) => ares.stored = Stor
  /\ (fail[0].k = "commit" /\ ares.aerr = -1) => (ares.cerr = 0 /\ ares.stored = {})
  /\ (\A i \in Stor : fail[i].k = "none") => (ares.aerr = -1 /\ ares.cerr = -1)

CodeMatchesRef == pc = "done" =>
  CASE op = "query"  -> QueryMatchesRef
    [] op = "labels" -> LabelsMatchRef
    [] op = "append" -> AppendMatchesRef

Conforms == CodeMatchesRef \/ KF_C54_2

\* the all-or-nothing rule of secondaryQuerier, as far as the code implements it: a secondary that failed
\* early contributes to no returned set
AllOrNothing == pc = "done" /\ op = "query" /\ qerr = -1 =>
  \A i \in sfailed : \A s \in 1..nsel : \A x \in 1..Len(res[s].series) : i \notin res[s].series[x].from

-----------------------------------------------------------------------------
(* Emission: one case per configuration, when the operation is done.        *)
SeqS(f) == [x \in 1..(NSec + 1) |-> f[x - 1]]
KFs == IF KF_C54_2 THEN {"KF_C54_2"} ELSE {}
Case ==
  [op |-> op, nsel |-> nsel, has |-> SeqS([i \in Stor |-> SeqOf(has[i])]), fail |-> SeqS(fail), kf |-> KFs,
   \* append: the property fixes the outcome only without failures and when the primary's Commit fails
   strict |-> (op # "append" \/ (\A i \in Stor : fail[i].k = "none") \/ (fail[0].k = "commit" /\ ares.aerr = -1)),
   ref  |-> CASE op = "query"  -> [sets |-> RefQuery.sets, warns |-> RefQuery.warns,
                                    fails |-> \E s \in 1..nsel : RefQuery.sets[s].fails]
             [] op = "labels" -> RefLabels
             [] op = "append" -> [fails |-> FALSE],
   code |-> CASE op = "query"  -> [qerr |-> qerr, sets |-> [s \in 1..nsel |-> res[s]], warns |-> warned]
             [] op = "labels" -> [qerr |-> qerr, err |-> lres.err, from |-> lres.from, warns |-> lres.warns]
             [] op = "append" -> ares]
Emit == \/ EmitMode # "done"
        \/ ~(pc' = "done" /\ pc # "done")
        \/ PrintT("@@TR " \o ToJson(Case'))
=============================================================================
