SPECIFICATION Spec
CONSTANTS
  NSec = 3
  NLabels = 1
  Ops = {"query", "labels", "append"}
  NSels = {1, 2}
  MaxFail = 2
  EmitMode = "done"
INVARIANTS Conforms AllOrNothing
ACTION_CONSTRAINT Emit
CHECK_DEADLOCK FALSE
