SPECIFICATION Spec
CONSTANTS
  NSec = 2
  NLabels = 3
  Ops = {"query"}
  NSels = {1}
  MaxFail = 3
  EmitMode = "done"
INVARIANTS Conforms AllOrNothing
ACTION_CONSTRAINT Emit
CHECK_DEADLOCK FALSE
