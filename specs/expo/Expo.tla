-------------------------------- MODULE Expo --------------------------------
(***************************************************************************)
(* C35 - what the three exposition-format parsers must yield.              *)
(*                                                                         *)
(* A payload is a sequence of metric family descriptors (type, name class, *)
(* help, unit, metrics with label / value / timestamp / exemplar classes,  *)
(* quantiles or buckets).  The reference encoder (prometheus/common        *)
(* expfmt, driven by the harness) writes it as Prometheus text,            *)
(* OpenMetrics text and delimited protobuf.                                *)
(*                                                                         *)
(* Entries(fmt, tu, payload) is the entry stream the parser of format fmt  *)
(* must produce (tu = EnableTypeAndUnitLabels): which HELP / TYPE / UNIT    *)
(* entries exist, under which family name, the series in the order of the  *)
(* format, their magic suffixes and le / quantile labels, which of them    *)
(* carry a timestamp and an exemplar, and the __type__ / __unit__ labels.  *)
(* Names, label values, floats and timestamps are symbolic classes here;   *)
(* the harness concretises them (byte / float-text fidelity is observed    *)
(* only in the replay).                                                    *)
(*                                                                         *)
(* TLC checks, for every payload, the part of the property that is about   *)
(* the formats themselves: the three streams agree on everything each of   *)
(* them can express (the CrossFormat invariants), every encoded sample appears exactly   *)
(* once (SamplesOnce), every classic histogram has its +Inf bucket.        *)
(* The replay harness compares each real parser with Entries(fmt, ...).    *)
(*                                                                         *)
(* Mutations(payload) enumerates the token-level damage used for the       *)
(* totality part (never crash, entries or an error).                       *)
(***************************************************************************)
EXTENDS Integers, Sequences, FiniteSets, TLC, Json, Randomization

CONSTANTS MaxFams,      \* families per payload
          MaxMetrics,   \* metrics per family
          Types,        \* subset of {"counter","gauge","untyped","summary","histogram"}
          NameClasses,  \* subset of {"plain","total","utf8"}
          HelpClasses,  \* subset of {"none","plain","esc","empty"}
          Units,        \* subset of BOOLEAN
          LabelClasses, \* subset of {"none","plain","esc","uname"}
          ValClasses,   \* subset of {"int","frac","nan","pinf","ninf","tiny"}
          TsClasses,    \* subset of {"none","now","small","y2004","neg"}
          Exs,          \* subset of BOOLEAN
          Parts,        \* subset of {0, 2}: number of quantiles / finite buckets
          Infs,         \* subset of BOOLEAN: the +Inf bucket is given explicitly
          Mutate,       \* BOOLEAN: also emit the mutation list for the totality part
          SimPick       \* 0 = all families; n > 0: families drawn from a seeded random subset of n

Formats == {"text", "om", "proto"}

MetricsOf(t) ==
  [ls : LabelClasses, v : ValClasses, ts : TsClasses,
   ex : IF t \in {"counter", "histogram"} THEN Exs ELSE {FALSE},
   parts : IF t \in {"summary", "histogram"} THEN Parts ELSE {0},
   inf : IF t = "histogram" THEN Infs ELSE {FALSE}]

FamsOf(t) == [t : {t}, nm : NameClasses, help : HelpClasses, unit : Units,
              ms : UNION {[1..n -> MetricsOf(t)] : n \in 1..MaxMetrics}]
AllFams == UNION {FamsOf(t) : t \in Types}

\* metrics of one family must differ in their label sets (the harness adds the metric index as a label value,
\* so any two metrics are distinct series)

-----------------------------------------------------------------------------
(*                           per-format naming rules                        *)

\* the family name under which HELP/TYPE/UNIT are reported: OpenMetrics strips _total from counters
FamName(fmt, F) == IF fmt = "om" /\ F.t = "counter" /\ F.nm = "total" THEN "stripped" ELSE "full"

\* the type reported by the TYPE entry
TypeOf(fmt, F) ==
  CASE F.t = "untyped" -> "unknown"
    [] F.t = "counter" /\ fmt = "om" /\ F.nm # "total" -> "unknown"   \* expfmt: a counter without _total is written as unknown
    [] OTHER -> F.t

HasHelp(fmt, F) == IF fmt = "proto" THEN TRUE ELSE F.help # "none"    \* protobuf always reports a (possibly empty) help
HelpText(fmt, F) == IF F.help = "none" THEN "empty" ELSE F.help
HasUnit(fmt, F) == fmt # "text" /\ F.unit                              \* the text format has no UNIT

\* metadata entries in the order of the format
Meta(fmt, f, F) ==
  LET h == IF HasHelp(fmt, F) THEN <<[k |-> "help", f |-> f, nm |-> FamName(fmt, F), text |-> HelpText(fmt, F)]>> ELSE <<>>
      t == <<[k |-> "type", f |-> f, nm |-> FamName(fmt, F), t |-> TypeOf(fmt, F)]>>
      u == IF HasUnit(fmt, F) THEN <<[k |-> "unit", f |-> f, nm |-> FamName(fmt, F)]>> ELSE <<>>
  IN IF fmt = "proto" THEN h \o u \o t ELSE h \o t \o u

\* the parts (series) of one metric, in the order of the format
PartsOf(fmt, F, M) ==
  LET qs == IF M.parts = 2 THEN <<"p1", "p2">> ELSE <<>> IN
  CASE F.t \in {"counter", "gauge", "untyped"} -> <<"v">>
    [] F.t = "summary"   -> IF fmt = "proto" THEN <<"count", "sum">> \o qs ELSE qs \o <<"sum", "count">>
    [] F.t = "histogram" -> IF fmt = "proto" THEN <<"count", "sum">> \o qs \o <<"pinf">>      \* +Inf always present
                            ELSE qs \o <<"pinf">> \o <<"sum", "count">>

Suffix(F, part) ==
  CASE part \in {"sum", "count"} -> part
    [] F.t = "histogram" /\ part \in {"p1", "p2", "pinf"} -> "bucket"
    [] OTHER -> ""

\* the magic label of a part: quantile for summaries, le for histograms (values normalised to OpenMetrics floats)
MagicLabel(F, part) ==
  CASE F.t = "summary" /\ part \in {"p1", "p2"} -> "quantile"
    [] F.t = "histogram" /\ part \in {"p1", "p2", "pinf"} -> "le"
    [] OTHER -> ""

CanExemplar(fmt) == fmt # "text"
HasExemplar(fmt, F, M, part) ==
  /\ CanExemplar(fmt) /\ M.ex
  /\ \/ F.t = "counter" /\ part = "v"
     \/ F.t = "histogram" /\ part = "p1"          \* the harness puts the exemplar on the first finite bucket

\* __type__ / __unit__ labels (EnableTypeAndUnitLabels)
TypeLabel(fmt, tu, F) == IF tu /\ TypeOf(fmt, F) # "unknown" THEN TypeOf(fmt, F) ELSE ""
UnitLabel(fmt, tu, F) == tu /\ HasUnit(fmt, F)

Series(fmt, tu, f, F) ==
  LET one(m) == LET M == F.ms[m]
                    ps == PartsOf(fmt, F, M) IN
                [i \in 1..Len(ps) |->
                   [k |-> "ser", f |-> f, m |-> m, part |-> ps[i], sfx |-> Suffix(F, ps[i]), magic |-> MagicLabel(F, ps[i]),
                    ls |-> M.ls, v |-> M.v, ts |-> M.ts, ex |-> HasExemplar(fmt, F, M, ps[i]),
                    tl |-> TypeLabel(fmt, tu, F), ul |-> UnitLabel(fmt, tu, F)]]
      RECURSIVE upTo(_)
      upTo(m) == IF m = 0 THEN <<>> ELSE upTo(m - 1) \o one(m)
  IN upTo(Len(F.ms))

RECURSIVE EntriesUpTo(_, _, _, _)
EntriesUpTo(fmt, tu, p, f) ==
  IF f = 0 THEN <<>> ELSE EntriesUpTo(fmt, tu, p, f - 1) \o Meta(fmt, f, p[f]) \o Series(fmt, tu, f, p[f])
Entries(fmt, tu, p) == EntriesUpTo(fmt, tu, p, Len(p))

-----------------------------------------------------------------------------
(*                         totality: token-level damage                     *)
\* applied by the harness to the encoded bytes of each format: the n-th (first / middle / last) occurrence of a
\* character class is deleted, doubled or replaced
CharClasses == {"brace_open", "brace_close", "quote", "equal", "comma", "space", "newline", "hash", "backslash", "digit", "letter", "any"}
MutOps == {"delete", "double", "to_quote", "to_newline", "to_nul", "to_ff", "to_brace", "truncate_here"}
Occ == {"first", "middle", "last"}
Mutations == [c : CharClasses, op : MutOps, occ : Occ]

-----------------------------------------------------------------------------
VARIABLES payload, tu,
          es        \* es[fmt] = Entries(fmt, tu, payload), computed once per payload

\* for the seeded runs the families are drawn from a random sample (AllFams itself is too large to enumerate there)
SimFams == UNION {[t : {t}, nm : NameClasses, help : HelpClasses, unit : Units,
                   ms : UNION {[1..n -> RandomSubset(2, MetricsOf(t))] : n \in 1..MaxMetrics}] : t \in Types}
\* OpenMetrics requires the unit to be the suffix of the family name: a name ending in _total can only carry a unit
\* when it is a counter (whose family name drops _total)
ValidFam(F) == ~(F.unit /\ F.nm = "total" /\ F.t # "counter")
Pick == {F \in (IF SimPick > 0 THEN RandomSubset(SimPick, SimFams) ELSE AllFams) : ValidFam(F)}

Init == /\ payload \in UNION {[1..n -> Pick] : n \in 1..MaxFams}
        /\ tu \in BOOLEAN
        /\ es = [fmt \in Formats |-> Entries(fmt, tu, payload)]
\* the mutation list is emitted once per run
ASSUME Mutate => PrintT("@@MU " \o ToJson(Mutations))

Next == UNCHANGED <<payload, tu, es>>
Spec == Init /\ [][Next]_<<payload, tu, es>>

-----------------------------------------------------------------------------
(*                         properties of the formats                        *)

Range(q) == {q[i] : i \in DOMAIN q}
SerOf(fmt) == {e \in Range(es[fmt]) : e.k = "ser"}

\* projection of a series entry on what every format can express
Common(e) == [f |-> e.f, m |-> e.m, part |-> e.part, sfx |-> e.sfx, magic |-> e.magic, ls |-> e.ls, v |-> e.v, ts |-> e.ts]

\* the three formats yield the same samples, labels (apart from __type__/__unit__), values and timestamps
CrossFormatSamples == \A a, b \in Formats : {Common(e) : e \in SerOf(a)} = {Common(e) : e \in SerOf(b)}

\* the formats that have exemplars agree on them
CrossFormatExemplars == {Common(e) : e \in {x \in SerOf("om") : x.ex}} = {Common(e) : e \in {x \in SerOf("proto") : x.ex}}

\* metadata: the formats agree on help texts (where written) and on types up to the documented _total rule
MetaOf(fmt, kind) == {e \in Range(es[fmt]) : e.k = kind}
CrossFormatMeta ==
  /\ \A a \in {"text", "om"} : \A e \in MetaOf(a, "help") : \E x \in MetaOf("proto", "help") : x.f = e.f /\ x.text = e.text
  /\ \A a, b \in Formats : \A e \in MetaOf(a, "type") : \A x \in MetaOf(b, "type") :
        (e.f = x.f /\ e.t # x.t) => (payload[e.f].t = "counter" /\ payload[e.f].nm # "total" /\ "om" \in {a, b})
  /\ {e.f : e \in MetaOf("om", "unit")} = {e.f : e \in MetaOf("proto", "unit")}

\* every encoded sample appears exactly once in each stream
SamplesOnce == \A fmt \in Formats :
  LET q == es[fmt] IN
  \A i, j \in DOMAIN q : (q[i].k = "ser" /\ q[j].k = "ser" /\ i # j) => Common(q[i]) # Common(q[j])

\* a classic histogram always has its +Inf bucket, _sum and _count in every format
HistogramComplete == \A fmt \in Formats : \A f \in DOMAIN payload : payload[f].t = "histogram" =>
  \A m \in DOMAIN payload[f].ms : \A part \in {"pinf", "sum", "count"} :
     \E e \in SerOf(fmt) : e.f = f /\ e.m = m /\ e.part = part

\* metadata entries of a family precede its series, families stay in payload order
Ordered == \A fmt \in Formats :
  LET q == es[fmt] IN
  \A i, j \in DOMAIN q : i < j => (q[i].f < q[j].f \/ (q[i].f = q[j].f /\ (q[j].k # "ser" => q[i].k # "ser")))

\* recorded deviation of the parsers (see notes/C35.md); the flag tells the harness where it can show.
\* (KF-C35-1, OpenMetrics timestamp truncation, and KF-C35-2, stale __unit__ label, were found with this check and are
\* fixed; the replay now fails if either returns.)
\* KF-C35-3: the Prometheus text lexer only accepts digits as timestamp: a negative timestamp makes the parse fail
KF3 == \E f \in DOMAIN payload : \E m \in DOMAIN payload[f].ms : payload[f].ms[m].ts = "neg"


-----------------------------------------------------------------------------
Behaviour ==
  [payload |-> payload, tu |-> tu,
   text |-> es["text"], om |-> es["om"], proto |-> es["proto"],
   kf3 |-> KF3, mut |-> Mutate]

EmitAll == PrintT("@@TR " \o ToJson(Behaviour))
=============================================================================
