\* every single family with one metric over all classes
SPECIFICATION Spec
CONSTANTS
  MaxFams = 1
  MaxMetrics = 1
  Types = {"counter", "gauge", "untyped", "summary", "histogram"}
  NameClasses = {"plain", "total", "utf8"}
  HelpClasses = {"none", "esc"}
  Units = {FALSE, TRUE}
  LabelClasses = {"none", "esc", "uname"}
  ValClasses = {"int", "nan", "tiny"}
  TsClasses = {"none", "small", "neg"}
  Exs = {FALSE, TRUE}
  Parts = {0, 2}
  Infs = {FALSE, TRUE}
  Mutate = FALSE
  SimPick = 0
INVARIANTS CrossFormatSamples CrossFormatExemplars CrossFormatMeta SamplesOnce HistogramComplete Ordered EmitAll
CHECK_DEADLOCK FALSE
