\* pairs of groups: adjacency (same family / other family / gauge between / missing TYPE / timestamps / inconsistent group)
SPECIFICATION Spec
CONSTANTS
  MaxGroups = 2
  Shapes = {"full", "noinf"}
  Orders = {"asc"}
  TsVals = {0, 1, 2}
  Keeps = {FALSE, TRUE}
  WithEx = {FALSE}
  WithBad = TRUE
  WithNative = TRUE
  SimPick = 0
INVARIANTS TypeOK OutMatchesWant EmittedConsistent Drained EmitDone
CHECK_DEADLOCK FALSE
