\* one family with two metrics (the per-metric state machines of the parsers)
SPECIFICATION Spec
CONSTANTS
  MaxFams = 1
  MaxMetrics = 2
  Types = {"counter", "summary", "histogram"}
  NameClasses = {"total"}
  HelpClasses = {"empty"}
  Units = {FALSE}
  LabelClasses = {"plain"}
  ValClasses = {"int"}
  TsClasses = {"none", "now"}
  Exs = {FALSE, TRUE}
  Parts = {0, 2}
  Infs = {FALSE, TRUE}
  Mutate = FALSE
  SimPick = 0
INVARIANTS CrossFormatSamples CrossFormatExemplars CrossFormatMeta SamplesOnce HistogramComplete Ordered EmitAll
CHECK_DEADLOCK FALSE
