\* payloads of up to 3 families x 2 metrics over a seeded random subset of all families
SPECIFICATION Spec
CONSTANTS
  MaxFams = 3
  MaxMetrics = 2
  Types = {"counter", "gauge", "untyped", "summary", "histogram"}
  NameClasses = {"plain", "total", "utf8"}
  HelpClasses = {"none", "plain", "esc", "empty"}
  Units = {FALSE, TRUE}
  LabelClasses = {"none", "plain", "esc", "uname"}
  ValClasses = {"int", "frac", "nan", "pinf", "ninf", "tiny"}
  TsClasses = {"none", "now", "small", "y2004", "neg"}
  Exs = {FALSE, TRUE}
  Parts = {0, 2}
  Infs = {FALSE, TRUE}
  Mutate = FALSE
  SimPick = 8
INVARIANTS CrossFormatSamples CrossFormatExemplars CrossFormatMeta SamplesOnce HistogramComplete Ordered EmitAll
CHECK_DEADLOCK FALSE
