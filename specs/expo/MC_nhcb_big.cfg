\* thorough: triples of groups, check only
SPECIFICATION Spec
CONSTANTS
  MaxGroups = 3
  Shapes = {"full", "nocount"}
  Orders = {"asc", "mid"}
  TsVals = {0, 1}
  Keeps = {FALSE, TRUE}
  WithEx = {FALSE}
  WithBad = TRUE
  WithNative = FALSE
  SimPick = 0
INVARIANTS TypeOK OutMatchesWant EmittedConsistent Drained
CHECK_DEADLOCK FALSE
