\* payloads of up to 4 groups drawn from a seeded random subset of all groups (run with -seed; exhaustive over the subset)
SPECIFICATION Spec
CONSTANTS
  MaxGroups = 4
  Shapes = {"full", "noinf", "nocount", "onlyinf", "bare", "nobkt"}
  Orders = {"asc", "rev", "mid"}
  TsVals = {0, 1, 2}
  Keeps = {FALSE, TRUE}
  WithEx = {FALSE, TRUE}
  WithBad = TRUE
  WithNative = TRUE
  SimPick = 4
INVARIANTS TypeOK OutMatchesWant EmittedConsistent Drained EmitDone
CHECK_DEADLOCK FALSE
