\* single groups: every shape x line order x exemplars x timestamp (the conversion itself)
SPECIFICATION Spec
CONSTANTS
  MaxGroups = 1
  Shapes = {"full", "noinf", "nocount", "onlyinf", "bare", "nobkt"}
  Orders = {"asc", "rev", "mid"}
  TsVals = {0, 1}
  Keeps = {FALSE, TRUE}
  WithEx = {FALSE, TRUE}
  WithBad = TRUE
  WithNative = TRUE
  SimPick = 0
INVARIANTS TypeOK OutMatchesWant EmittedConsistent Drained EmitDone
CHECK_DEADLOCK FALSE
