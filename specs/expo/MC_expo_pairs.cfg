\* pairs of families (metadata carried over from one family to the next) and the mutation list
SPECIFICATION Spec
CONSTANTS
  MaxFams = 2
  MaxMetrics = 1
  Types = {"counter", "gauge", "untyped", "summary", "histogram"}
  NameClasses = {"plain", "total"}
  HelpClasses = {"none", "plain"}
  Units = {FALSE, TRUE}
  LabelClasses = {"plain"}
  ValClasses = {"frac"}
  TsClasses = {"none"}
  Exs = {FALSE}
  Parts = {2}
  Infs = {FALSE}
  Mutate = TRUE
  SimPick = 0
INVARIANTS CrossFormatSamples CrossFormatExemplars CrossFormatMeta SamplesOnce HistogramComplete Ordered EmitAll
CHECK_DEADLOCK FALSE
