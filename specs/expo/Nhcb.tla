-------------------------------- MODULE Nhcb --------------------------------
(***************************************************************************)
(* C36 - conversion of classic histograms to native histograms with        *)
(* custom buckets (NHCB) while parsing.                                     *)
(*                                                                         *)
(* A payload is a sequence of groups; a group is the set of lines of one   *)
(* classic histogram (one family, one label set, one timestamp) in some     *)
(* line order, or a plain gauge series, or (protobuf only) a metric that    *)
(* also carries an exponential native histogram.  Lines(payload) is the     *)
(* entry stream the wrapped text / OpenMetrics parser yields.               *)
(*                                                                         *)
(*  REFERENCE  Want(payload, keep): what the property demands - per group, *)
(*     in payload order: the classic lines (only with keep-classic, or when *)
(*     the group is not convertible), then one NHCB with the finite bounds, *)
(*     the de-cumulated counts, count, sum, the group's timestamp and the   *)
(*     exemplars of its lines.                                              *)
(*                                                                         *)
(*  TRANSCRIPTION of model/textparse/nhcbparse.go (NHCBParser.Next,         *)
(*     handleClassicHistogramSeries, processNHCB) and of                    *)
(*     util/convertnhcb.TempHistogram as a state machine over the lines:    *)
(*     one action per iteration of the loop in Next().                      *)
(*                                                                         *)
(* TLC checks Out = Want at the end of every payload (the deviations        *)
(* KF-C36-1/2/3 found with this model are fixed).  The harness renders      *)
(* each payload as text, OpenMetrics and protobuf, parses it with           *)
(* textparse.New(ConvertClassicHistogramsToNHCB) and compares with Want.    *)
(***************************************************************************)
EXTENDS Integers, Sequences, FiniteSets, TLC, Json, Randomization

CONSTANTS MaxGroups,  \* groups per payload
          Shapes,     \* subset of ShapeIds
          Orders,     \* subset of {"asc","rev","mid"}
          TsVals,     \* subset of 0..2 (0 = no timestamp)
          Keeps,      \* subset of BOOLEAN (keep classic histograms)
          WithEx,     \* subset of BOOLEAN: exemplars on the bucket lines
          WithBad,    \* BOOLEAN: allow the inconsistent group
          WithNative, \* BOOLEAN: allow groups that also have an exponential histogram (protobuf only)
          SimPick     \* 0 = all payloads; n > 0: groups drawn from a random subset of n groups (simulation-like runs)

INF == 9                      \* the +Inf bound; finite bounds are 1 and 2
LineIds == <<"b1", "b2", "bI", "c", "s">>

\* which lines of the classic histogram are exposed
ShapeLines(sh) == CASE sh = "full"    -> {"b1", "b2", "bI", "c", "s"}
                    [] sh = "noinf"   -> {"b1", "b2", "c", "s"}        \* +Inf bucket missing
                    [] sh = "nocount" -> {"b1", "bI", "s"}             \* _count missing
                    [] sh = "onlyinf" -> {"bI", "c", "s"}
                    [] sh = "bare"    -> {"b1", "b2"}                  \* no +Inf, no count, no sum
                    [] sh = "nobkt"   -> {"c", "s"}                    \* no bucket at all
                    [] sh = "bad"     -> {"b2", "c"}                   \* inconsistent: count below the last bucket, no +Inf
ShapeIds == {"full", "noinf", "nocount", "onlyinf", "bare", "nobkt"}

OrderOf(o) == CASE o = "asc" -> <<"b1", "b2", "bI", "c", "s">>
                [] o = "rev" -> <<"s", "c", "bI", "b2", "b1">>
                [] o = "mid" -> <<"c", "b2", "b1", "s", "bI">>

HistGroups == [k : {"hist"}, f : {"h", "k"}, ls : {"a", "b"}, sh : Shapes, ord : Orders, ts : TsVals,
               typed : BOOLEAN, ex : WithEx]
GaugeGroups == [k : {"gauge"}, f : {"g"}, ls : {"a"}, sh : {"full"}, ord : {"asc"}, ts : TsVals, typed : {TRUE}, ex : {FALSE}]
BadGroups == IF WithBad THEN [k : {"hist"}, f : {"h", "k"}, ls : {"x"}, sh : {"bad"}, ord : {"asc"}, ts : {0}, typed : {TRUE}, ex : {FALSE}]
             ELSE {}
NativeGroups == IF WithNative THEN [k : {"native"}, f : {"h", "k"}, ls : {"a", "b"}, sh : {"full"}, ord : {"asc"}, ts : TsVals,
                                    typed : {TRUE}, ex : {FALSE}]
                ELSE {}
Groups == HistGroups \cup GaugeGroups \cup BadGroups \cup NativeGroups

\* cumulative counts of group number g (distinct per group so that mixing groups is visible)
Cum(g, id) == CASE id = "b1" -> 2 * g [] id = "b2" -> 5 * g [] id = "bI" -> 7 * g [] id = "c" -> 7 * g [] id = "s" -> 100 + g
BadCum(g, id) == CASE id = "b2" -> 5 * g [] id = "c" -> 3 * g
LeOf(id) == CASE id = "b1" -> 1 [] id = "b2" -> 2 [] id = "bI" -> INF [] OTHER -> 0
SfxOf(id) == CASE id \in {"b1", "b2", "bI"} -> "bucket" [] id = "c" -> "count" [] id = "s" -> "sum"

\* a group is preceded by a TYPE line when its family differs from the previous group's (and it is `typed`)
NeedsType(p, g) == g = 1 \/ p[g - 1].f # p[g].f \/ p[g - 1].k # p[g].k
HasType(p, g) == NeedsType(p, g) /\ p[g].typed

RECURSIVE TypedAs(_, _)
\* the family/type the last TYPE line before group g announced: <<name, type>>
TypedAs(p, g) == IF g = 0 THEN <<"", "unknown">>
                 ELSE IF HasType(p, g) THEN <<p[g].f, IF p[g].k = "gauge" THEN "gauge" ELSE "histogram">>
                 ELSE TypedAs(p, g - 1)

SelectIds(sh, o) == SelectSeq(OrderOf(o), LAMBDA id : id \in ShapeLines(sh))

GroupLines(p, g) ==
  LET G == p[g] IN
  (IF HasType(p, g) THEN <<[k |-> "type", g |-> g, f |-> G.f, t |-> IF G.k = "gauge" THEN "gauge" ELSE "histogram"]>> ELSE <<>>)
  \o (IF G.k = "gauge"
      THEN <<[k |-> "ser", g |-> g, f |-> G.f, sfx |-> "none", id |-> "v", ls |-> G.ls, le |-> 0, v |-> 200 + g, ts |-> G.ts, ex |-> FALSE]>>
      ELSE LET ids == SelectIds(G.sh, G.ord) IN
           [i \in 1..Len(ids) |->
              [k |-> "ser", g |-> g, f |-> G.f, sfx |-> SfxOf(ids[i]), id |-> ids[i], ls |-> G.ls, le |-> LeOf(ids[i]),
               v |-> IF G.sh = "bad" THEN BadCum(g, ids[i]) ELSE Cum(g, ids[i]), ts |-> G.ts,
               ex |-> G.ex /\ ids[i] \in {"b1", "bI"}]])

RECURSIVE LinesUpTo(_, _)
LinesUpTo(p, g) == IF g = 0 THEN <<>> ELSE LinesUpTo(p, g - 1) \o GroupLines(p, g)
Lines(p) == LinesUpTo(p, Len(p))

-----------------------------------------------------------------------------
(*                               REFERENCE                                  *)

\* the group is a classic histogram announced by a TYPE line of its own family
Convertible(p, g) == p[g].k = "hist" /\ TypedAs(p, g) = <<p[g].f, "histogram">>

\* the NHCB of a consistent classic histogram: finite bounds ascending, de-cumulated counts (one more than bounds:
\* the last one is the +Inf bucket), count, sum
RefHist(G, g) ==
  LET L      == ShapeLines(G.sh)
      bnds   == SelectSeq(<<"b1", "b2">>, LAMBDA id : id \in L)
      cumOf(i) == Cum(g, bnds[i])
      lastC  == IF Len(bnds) = 0 THEN 0 ELSE cumOf(Len(bnds))
      count  == IF "c" \in L THEN Cum(g, "c") ELSE IF "bI" \in L THEN Cum(g, "bI") ELSE lastC
      infC   == IF "bI" \in L THEN Cum(g, "bI") ELSE count
  IN [bounds |-> [i \in 1..Len(bnds) |-> LeOf(bnds[i])],
      cnts   |-> [i \in 1..(Len(bnds) + 1) |->
                    IF i <= Len(bnds) THEN cumOf(i) - (IF i = 1 THEN 0 ELSE cumOf(i - 1)) ELSE infC - lastC],
      count  |-> count,
      sum    |-> IF "s" \in L THEN Cum(g, "s") ELSE 0]

SerEntry(l) == [k |-> "S", g |-> l.g, f |-> l.f, sfx |-> l.sfx, ls |-> l.ls, le |-> l.le, v |-> l.v, ts |-> l.ts]
HistEntry(G, g, h, ts, exs) == [k |-> "H", g |-> g, f |-> G.f, ls |-> G.ls, bounds |-> h.bounds, cnts |-> h.cnts,
                                count |-> h.count, sum |-> h.sum, ts |-> ts, ex |-> exs]
SerLines(p, g) == SelectSeq(GroupLines(p, g), LAMBDA l : l.k = "ser")
ExIds(p, g) == LET ls == SelectSeq(SerLines(p, g), LAMBDA l : l.ex) IN [i \in 1..Len(ls) |-> ls[i].id]

RefGroup(p, g, keep) ==
  LET G == p[g]
      S == [i \in 1..Len(SerLines(p, g)) |-> SerEntry(SerLines(p, g)[i])] IN
  CASE G.k = "gauge"  -> S
    [] G.k = "native" -> <<[k |-> "N", g |-> g, f |-> G.f, ls |-> G.ls, ts |-> G.ts, keep |-> keep]>>   \* exponential histogram, never an NHCB
    [] G.sh = "bad"   -> <<>>                                \* outcome of an inconsistent histogram is not fixed (ls = "x" is filtered)
    [] ~Convertible(p, g) -> S                               \* not announced as histogram: passes through unchanged
    [] OTHER -> (IF keep THEN S ELSE <<>>) \o <<HistEntry(G, g, RefHist(G, g), G.ts, ExIds(p, g))>>

RECURSIVE WantUpTo(_, _, _)
WantUpTo(p, g, keep) == IF g = 0 THEN <<>> ELSE WantUpTo(p, g - 1, keep) \o RefGroup(p, g, keep)
Want(p, keep) == WantUpTo(p, Len(p), keep)

-----------------------------------------------------------------------------
(*          TRANSCRIPTION of nhcbparse.go over the text entry stream         *)

VARIABLES payload, keep,          \* input (fixed at Init)
          lines, pos,             \* the wrapped parser: entry stream and position
          pstate,                 \* collectionState: "start" | "collecting" | "emitting"
          typ,                    \* p.bName, p.typ
          cached,                 \* p.entry + cached series (the entry read last)
          pts,                    \* p.ts: timestamp of the series read last
          temp, tempLs, tempEx,   \* p.tempNHCB, p.tempLsetNHCB, p.tempExemplars
          tempTs,                 \* p.tempTS / p.tempHasTS: timestamp of the series being collated (0 = none)
          last,                   \* p.lastHistogramName / p.lastHistogramLabelsHash
          out, done

vars == <<payload, keep, lines, pos, pstate, typ, cached, pts, temp, tempLs, tempEx, tempTs, last, out, done>>

EmptyTemp == [b |-> <<>>, count |-> 0, hasCount |-> FALSE, sum |-> 0, err |-> FALSE]

\* convertnhcb.TempHistogram.SetBucketCount
SetBucket(t, le, c) ==
  IF t.err THEN t
  ELSE IF t.b = <<>> THEN [t EXCEPT !.b = <<[le |-> le, c |-> c]>>]
  ELSE LET n == Len(t.b) IN
       IF t.b[n].le < le
       THEN IF c < t.b[n].c THEN [t EXCEPT !.err = TRUE] ELSE [t EXCEPT !.b = Append(@, [le |-> le, c |-> c])]
       ELSE IF t.b[n].le = le THEN t                                   \* duplicate sample, ignored
       ELSE LET i == CHOOSE j \in 1..n : t.b[j].le >= le /\ \A k \in 1..(j - 1) : t.b[k].le < le IN
            IF t.b[i].le = le THEN t
            ELSE IF i > 1 /\ c < t.b[i - 1].c THEN [t EXCEPT !.err = TRUE]
            ELSE IF c > t.b[i].c THEN [t EXCEPT !.err = TRUE]
            ELSE [t EXCEPT !.b = SubSeq(t.b, 1, i - 1) \o <<[le |-> le, c |-> c]>> \o SubSeq(t.b, i, n)]

\* TempHistogram.Convert: [err |-> TRUE] | [err |-> FALSE, bounds, cnts, count, sum, valid]
ConvErr == [err |-> TRUE]
NoHist == [k |-> "none"]
Convert(t) ==
  IF t.err THEN ConvErr
  ELSE LET count == IF ~t.hasCount /\ t.b # <<>> THEN t.b[Len(t.b)].c ELSE t.count
           b     == IF t.b = <<>> \/ t.b[Len(t.b)].le # INF THEN Append(t.b, [le |-> INF, c |-> count]) ELSE t.b
           n     == Len(b)
       IN IF count # b[n].c THEN ConvErr                                \* errCountMismatch
          ELSE LET cnts == [i \in 1..n |-> b[i].c - (IF i = 1 THEN 0 ELSE b[i - 1].c)] IN
               [err |-> FALSE, bounds |-> [i \in 1..(n - 1) |-> b[i].le], cnts |-> cnts, count |-> count, sum |-> t.sum,
                valid |-> \A i \in 1..n : cnts[i] >= 0]                 \* histogram.Validate: no negative bucket

\* NHCBParser.differentMetric for a series line
DifferentMetric(l) == typ[2] # "histogram" \/ last[1] # l.f \/ last[2] # l.ls

\* NHCBParser.handleClassicHistogramSeries: is the line collated (TRUE) or an ordinary series (FALSE)
IsClassic(l) == typ[2] = "histogram" /\ l.sfx # "none" /\ l.f = typ[1]

\* processClassicHistogramSeries + the update function, on an explicit state record
Collate(s, l) ==
  LET s1 == IF s.pstate # "collecting"
            THEN [s EXCEPT !.pstate = "collecting", !.last = <<l.f, l.ls>>, !.tempLs = [f |-> l.f, ls |-> l.ls, g |-> l.g],
                           !.tempTs = l.ts]
            ELSE s
      s2 == IF l.ex THEN [s1 EXCEPT !.tempEx = Append(@, l.id)] ELSE s1           \* storeExemplars
  IN CASE l.sfx = "bucket" -> [s2 EXCEPT !.temp = SetBucket(@, l.le, l.v)]
       [] l.sfx = "count"  -> [s2 EXCEPT !.temp = IF @.err THEN @ ELSE [@ EXCEPT !.count = l.v, !.hasCount = TRUE]]
       [] l.sfx = "sum"    -> [s2 EXCEPT !.temp = IF @.err THEN @ ELSE [@ EXCEPT !.sum = l.v]]

\* processNHCB: returns the state after it and the emitted entry (or NoHist).  The histogram carries the timestamp
\* remembered when the collation started; a result that fails Validate() is dropped like a failed conversion.
ProcessNHCB(s) ==
  IF s.pstate # "collecting" THEN [s |-> s, h |-> NoHist]
  ELSE LET r == Convert(s.temp) IN
       IF r.err \/ ~r.valid
       THEN [s |-> [s EXCEPT !.pstate = "start", !.temp = EmptyTemp, !.tempEx = <<>>], h |-> NoHist]
       ELSE [s |-> [s EXCEPT !.pstate = "emitting", !.temp = EmptyTemp, !.tempEx = <<>>],
             h |-> [k |-> "H", g |-> s.tempLs.g, f |-> s.tempLs.f, ls |-> s.tempLs.ls, bounds |-> r.bounds, cnts |-> r.cnts,
                    count |-> r.count, sum |-> r.sum, ts |-> s.tempTs, ex |-> s.tempEx]]

S0 == [pstate |-> pstate, temp |-> temp, tempLs |-> tempLs, tempEx |-> tempEx, tempTs |-> tempTs, last |-> last]
Install(s) == /\ pstate' = s.pstate /\ temp' = s.temp /\ tempLs' = s.tempLs /\ tempEx' = s.tempEx /\ tempTs' = s.tempTs /\ last' = s.last

\* handle a series line in state start/collecting (after a possible emission): collate or pass through
HandleSeries(s, l, pre) ==
  IF IsClassic(l)
  THEN /\ Install(Collate(s, l))
       /\ out' = out \o pre \o (IF keep THEN <<SerEntry(l)>> ELSE <<>>)
  ELSE /\ Install(s)
       /\ out' = out \o pre \o <<SerEntry(l)>>

\* Next(): state == stateEmitting - the NHCB was returned by the previous call, now deal with the cached entry
Resume ==
  /\ ~done /\ pstate = "emitting"
  /\ IF cached.k = "eof" THEN /\ done' = TRUE /\ Install([S0 EXCEPT !.pstate = "start"]) /\ UNCHANGED out
     ELSE IF cached.k = "ser" THEN /\ HandleSeries([S0 EXCEPT !.pstate = "start"], cached, <<>>) /\ UNCHANGED done
     ELSE /\ Install([S0 EXCEPT !.pstate = "start"]) /\ UNCHANGED <<out, done>>      \* a TYPE entry is returned as is
  /\ UNCHANGED <<payload, keep, lines, pos, typ, cached, pts>>

\* Next(): read one entry from the wrapped parser
Read ==
  /\ ~done /\ pstate # "emitting"
  /\ IF pos > Len(lines)
     THEN \* io.EOF: emit what was collected
          LET r == ProcessNHCB(S0) IN
          /\ Install(r.s)
          /\ out' = IF r.h.k = "none" THEN out ELSE Append(out, r.h)
          /\ cached' = [k |-> "eof"]
          /\ done' = (r.h.k = "none")
          /\ UNCHANGED <<pos, typ, pts>>
     ELSE LET l == lines[pos] IN
          /\ pos' = pos + 1
          /\ cached' = l
          /\ UNCHANGED done
          /\ IF l.k = "type"
             THEN LET r == ProcessNHCB(S0) IN                 \* bottom of the switch: if p.processNHCB() { return EntryHistogram }
                  /\ typ' = <<l.f, l.t>>
                  /\ Install(r.s)
                  /\ out' = IF r.h.k = "none" THEN out ELSE Append(out, r.h)
                  /\ UNCHANGED pts
             ELSE /\ pts' = l.ts                              \* p.bytes, p.ts, p.value = p.parser.Series()
                  /\ UNCHANGED typ
                  /\ IF pstate = "collecting" /\ DifferentMetric(l)
                     THEN LET r == ProcessNHCB(S0) IN
                          IF r.h.k # "none"
                          THEN /\ Install(r.s) /\ out' = Append(out, r.h)       \* the series stays cached for Resume
                          ELSE HandleSeries(r.s, l, <<>>)
                     ELSE HandleSeries(S0, l, <<>>)
  /\ UNCHANGED <<payload, keep, lines>>

Payloads(n) == [1..n -> IF SimPick > 0 THEN RandomSubset(SimPick, Groups) ELSE Groups]

\* normal form: `typed` only matters where a TYPE line would be written
\* and no series is exposed twice in one payload
Normal(p) == /\ \A g \in DOMAIN p : (~NeedsType(p, g) => p[g].typed) /\ (p[g].k # "hist" => p[g].typed)
             /\ \A g1, g2 \in DOMAIN p : (g1 # g2) => <<p[g1].f, p[g1].ls>> # <<p[g2].f, p[g2].ls>>

Init ==
  /\ payload \in {p \in UNION {Payloads(n) : n \in 1..MaxGroups} : Normal(p)}
  /\ keep \in Keeps
  /\ lines = Lines(payload) /\ pos = 1
  /\ pstate = "start" /\ typ = <<"", "unknown">> /\ cached = [k |-> "none"] /\ pts = 0
  /\ temp = EmptyTemp /\ tempLs = [f |-> "", ls |-> "", g |-> 0] /\ tempEx = <<>> /\ tempTs = 0 /\ last = <<"", "">>
  /\ out = <<>> /\ done = FALSE

Next == Resume \/ Read
Spec == Init /\ [][Next]_vars

-----------------------------------------------------------------------------
(*                              PROPERTIES                                  *)

\* the text formats cannot express native groups: the transcription runs on payloads without them
TextPayload == \A g \in DOMAIN payload : payload[g].k # "native"

Visible(q) == SelectSeq(q, LAMBDA e : e.ls # "x")

\* C36 on the design: the emitted stream is exactly the demanded one.  (Three deviations found with this model are
\* fixed in the code and removed from the transcription: KF-C36-1 timestamp of the following series, KF-C36-2 stale
\* collation after a validation failure, KF-C36-3 protobuf nil histogram - see notes/C36.md.)
OutMatchesWant == (done /\ TextPayload) => Visible(out) = Visible(Want(payload, keep))

\* every NHCB ever emitted is internally consistent: counts add up to count
EmittedConsistent == \A i \in DOMAIN out : out[i].k = "H" =>
                        LET h == out[i] IN
                        /\ Len(h.cnts) = Len(h.bounds) + 1
                        /\ h.count = (IF Len(h.cnts) = 0 THEN 0 ELSE
                                      LET RECURSIVE Sum(_) Sum(n) == IF n = 0 THEN 0 ELSE h.cnts[n] + Sum(n - 1) IN Sum(Len(h.cnts)))

\* the parser terminates with nothing left in collection
Drained == done => pstate = "start"

TypeOK == /\ pstate \in {"start", "collecting", "emitting"}
          /\ pos \in 1..(Len(lines) + 1)

-----------------------------------------------------------------------------
(*                               EMISSION                                   *)
Behaviour ==
  LET w == Want(payload, keep)
      differs == TextPayload /\ Visible(out) # Visible(w) IN
  [keep |-> keep, payload |-> payload, lines |-> lines, want |-> w,
   text |-> TextPayload,
   impl |-> IF differs THEN out ELSE <<>>]

EmitDone == ~done \/ PrintT("@@TR " \o ToJson(Behaviour))
=============================================================================
