-------------------------------- MODULE Indep --------------------------------
(***************************************************************************)
(* C33 -- the law: what one query evaluation returns is a function of      *)
(* (data, query, time parameters) only; other evaluations running in the   *)
(* same engine at the same time do not influence it, and an evaluation     *)
(* ends in a value, a user-facing error or annotations -- never in an      *)
(* internal error.                                                         *)
(*                                                                         *)
(* This module is the design-level model of the one thing evaluations of   *)
(* one promql.Engine share: the package-level slice pools (fPointPool,     *)
(* hPointPool, matrixSelectorHPool in promql/engine.go).  An evaluation    *)
(* takes buffers from the pool (getFPointSlice, ...), writes its own       *)
(* points into them, reads them back while computing and returns them      *)
(* (putFPointSlice, ...) when the node is done.  The discipline that makes *)
(* evaluations independent is: a buffer is owned by at most one running    *)
(* evaluation, and is not touched after it was put back.                   *)
(*                                                                         *)
(* Serial(q) is the result of evaluating q alone; results are modelled as  *)
(* the token the evaluation finds in its buffers when it finishes.         *)
(* Buggy = TRUE adds the two classical violations of the discipline (a     *)
(* buffer put back twice / used after put) and TLC finds the broken        *)
(* Independence within a few states -- the invariants are not vacuous.     *)
(*                                                                         *)
(* The observable part of the law (NoInternal, Independent) is evaluated   *)
(* by TLC on traces recorded from the real engine: Trace_Indep.tla.        *)
(***************************************************************************)
EXTENDS Integers, FiniteSets, TLC

CONSTANTS Queries,   \* opaque queries (with data and time parameters)
          Runs,      \* evaluation slots (goroutines calling Query.Exec)
          Bufs,      \* pooled buffers
          MaxHeld,   \* buffers one evaluation holds at a time
          Buggy      \* BOOLEAN: include the violations of the pool discipline

VARIABLES run,      \* slot -> [st, q, held, res]
          pool,     \* free buffers
          content   \* buffer -> token last written into it

vars == <<run, pool, content>>

Idle == [st |-> "idle", q |-> "", held |-> {}, stale |-> {}, res |-> ""]
Serial(q) == q                    \* evaluated alone, q yields its own token
Internal == "internal"

Init == /\ run = [r \in Runs |-> Idle]
        /\ pool = Bufs
        /\ content = [b \in Bufs |-> ""]

\* Query.Exec starts evaluating q in slot r
Start(r, q) == /\ run[r].st = "idle"
               /\ run' = [run EXCEPT ![r] = [Idle EXCEPT !.st = "running", !.q = q]]
               /\ UNCHANGED <<pool, content>>

\* getFPointSlice / getHPointSlice / getMatrixSelectorHPoints: take a buffer, fill it with own points.
\* (sync.Pool hands out a fresh buffer when it is empty: modelled by not being enabled, the
\*  evaluation then simply proceeds with the buffers it has.)
Get(r) == /\ run[r].st = "running" /\ Cardinality(run[r].held) < MaxHeld
          /\ \E b \in pool :
               /\ pool' = pool \ {b}
               /\ run' = [run EXCEPT ![r].held = @ \cup {b}]
               /\ content' = [content EXCEPT ![b] = run[r].q]
\* putFPointSlice / putHPointSlice: a node is done with a buffer
Put(r) == /\ run[r].st = "running"
          /\ \E b \in run[r].held :
               /\ pool' = pool \cup {b}
               /\ run' = [run EXCEPT ![r].held = @ \ {b}, ![r].stale = IF Buggy THEN @ \cup {b} ELSE @]
          /\ UNCHANGED content
\* deviation (Buggy): keep writing through a slice that was already put back
UseAfterPut(r) == /\ Buggy /\ run[r].st = "running"
                  /\ \E b \in run[r].stale : content' = [content EXCEPT ![b] = run[r].q]
                  /\ UNCHANGED <<run, pool>>
\* the evaluation reads its buffers and returns
Finish(r) == /\ run[r].st = "running"
             /\ run' = [run EXCEPT ![r].st = "done",
                                   ![r].res = IF \A b \in run[r].held : content[b] = run[r].q
                                              THEN Serial(run[r].q) ELSE Internal,
                                   ![r].held = {}]
             /\ pool' = pool \cup run[r].held
             /\ UNCHANGED content
\* the caller collected the result: the slot is free again
Collect(r) == /\ run[r].st = "done" /\ run' = [run EXCEPT ![r] = Idle] /\ UNCHANGED <<pool, content>>

Next == \E r \in Runs : \/ \E q \in Queries : Start(r, q)
                        \/ Get(r) \/ Put(r) \/ UseAfterPut(r) \/ Finish(r) \/ Collect(r)
Spec == Init /\ [][Next]_vars

-----------------------------------------------------------------------------
TypeOK == /\ pool \subseteq Bufs
          /\ \A r \in Runs : run[r].st \in {"idle", "running", "done"} /\ run[r].held \subseteq Bufs
\* the discipline: a buffer has at most one owner and is not free while owned
Exclusive == /\ \A r1, r2 \in Runs : r1 # r2 => run[r1].held \cap run[r2].held = {}
             /\ \A r \in Runs : run[r].held \cap pool = {}
\* THE LAW (1): a finished evaluation returns what the query returns when evaluated alone
Independence == \A r \in Runs : run[r].st = "done" => run[r].res = Serial(run[r].q)
\* THE LAW (2): never an internal error
NoInternal == \A r \in Runs : run[r].res # Internal
=============================================================================
