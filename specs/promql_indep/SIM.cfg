SPECIFICATION Spec
CONSTANTS
  MaxDepth = 3
  MaxStack = 3
  BatchSize = 12
  Datasets = {"full", "floats", "hist", "sparse"}
  IllTyped = TRUE
  EnumMode = FALSE
  EmitOn = TRUE
INVARIANTS TypeOK WellTyped Emit
CHECK_DEADLOCK FALSE
