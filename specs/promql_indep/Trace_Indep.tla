----------------------------- MODULE Trace_Indep -----------------------------
(***************************************************************************)
(* Trace validation for C33: the observable part of the law of Indep.tla   *)
(* evaluated by TLC on a trace recorded from the real promql.Engine.       *)
(*                                                                         *)
(* trace.ndjson, one event per line (seq = order under the tracer's lock): *)
(*   {"e":"serial","q":<id>,"cls":<class>,"dig":<digest>}  q evaluated     *)
(*        alone (no other evaluation running)                              *)
(*   {"e":"start","run":<n>,"q":<id>}   a concurrent evaluation begins     *)
(*   {"e":"end","run":<n>,"q":<id>,"cls":<class>,"dig":<digest>}           *)
(* class: "value" | "usererr" | "internal" | "panic"; digest: hash of the  *)
(* canonical result (series sorted by labels, exact values, annotations),  *)
(* or "~" & serial digest when only float rounding differs.                *)
(***************************************************************************)
EXTENDS Integers, Sequences, FiniteSets, TLC, Json

VARIABLES idx,      \* events consumed
          nserial,  \* number of serial events consumed: query q was evaluated alone by event q + 1
          running,  \* runs in flight: run -> q
          maxc,     \* largest number of evaluations in flight at once
          bad       \* first event that breaks the law ("" if none)

vars == <<idx, nserial, running, maxc, bad>>

Trace == ndJsonDeserialize("trace.ndjson")
N == Len(Trace)

Init == idx = 0 /\ nserial = 0 /\ running = <<>> /\ maxc = 0 /\ bad = ""

\* the evaluation of q alone (the harness records the serial pass first, in the order of the ids)
Known(q) == q < nserial
SerialOf(q) == Trace[q + 1]

Put(f, k, v) == [x \in DOMAIN f \cup {k} |-> IF x = k THEN v ELSE f[x]]
Drop(f, k) == [x \in DOMAIN f \ {k} |-> f[x]]
Max(a, b) == IF a > b THEN a ELSE b
OkClass(c) == c \in {"value", "usererr"}

Step ==
  /\ idx < N
  /\ idx' = idx + 1
  /\ LET ev == Trace[idx + 1] IN
     CASE ev.e = "serial" ->
            /\ nserial' = nserial + 1
            /\ bad' = IF bad = "" /\ (running # <<>> \/ ~OkClass(ev.cls) \/ ev.q # nserial \/ idx # nserial)
                        THEN "serial:" \o ToString(ev.q) ELSE bad
            /\ UNCHANGED <<running, maxc>>
       [] ev.e = "start" ->
            /\ running' = Put(running, ev.run, ev.q)
            /\ maxc' = Max(maxc, Cardinality(DOMAIN running) + 1)
            /\ bad' = IF bad = "" /\ (ev.run \in DOMAIN running \/ ~Known(ev.q))
                        THEN "start:" \o ToString(ev.run) ELSE bad
            /\ UNCHANGED nserial
       [] ev.e = "end" ->
            /\ running' = Drop(running, ev.run)
            /\ bad' = IF bad # "" THEN bad
                      ELSE IF ev.run \notin DOMAIN running \/ ~Known(ev.q) THEN "end-unknown:" \o ToString(ev.run)
                      ELSE IF ~OkClass(ev.cls) THEN "internal:" \o ToString(ev.q)
                      ELSE IF ev.cls # SerialOf(ev.q).cls \/ ev.dig # SerialOf(ev.q).dig THEN "dependent:" \o ToString(ev.q)
                      ELSE ""
            /\ UNCHANGED <<nserial, maxc>>

Next == Step
Spec == Init /\ [][Next]_vars

\* THE LAW on the recorded behaviour: no internal error, and every concurrent evaluation returned
\* exactly what the same query returned alone
LawHolds == bad = ""
\* the recorded schedule really was concurrent, and the whole trace was consumed
\* (checked at the end: "deadlock" state idx = N)
Consumed == idx = N => (running = <<>> /\ (N = 0 \/ maxc >= 2))
=============================================================================
