SPECIFICATION Spec
CONSTANTS
  Queries = {"q1", "q2"}
  Runs = {"r1", "r2", "r3"}
  Bufs = {"b1", "b2", "b3"}
  MaxHeld = 2
  Buggy = FALSE
INVARIANTS TypeOK Exclusive Independence NoInternal
CHECK_DEADLOCK FALSE
