------------------------------ MODULE QueryGen ------------------------------
(***************************************************************************)
(* C33 (exploration) -- the input space: syntactically valid PromQL        *)
(* queries (type-correct and, a few, type-incorrect), query time           *)
(* parameters, data sets, and *batches* of queries that are going to be    *)
(* evaluated concurrently in one engine.                                   *)
(*                                                                         *)
(* An expression is built bottom-up on a small stack, the way the parser   *)
(* reduces: Leaf pushes a selector / matrix selector / number / string,    *)
(* Apply pops the arguments of a template (function call, aggregation,     *)
(* binary operator with matching modifiers, subquery, unary minus) and     *)
(* pushes the printed result with its type.  Done moves a finished         *)
(* expression into the batch together with instant or range parameters.    *)
(* The text is produced here, in the spec (Print is string                 *)
(* concatenation); the harness does not construct queries.                 *)
(*                                                                         *)
(* Types: "v" instant vector, "m" range vector, "s" scalar, "t" string.    *)
(* A hole of a template is the string "$v", "$m", "$s" or "$t".            *)
(*                                                                         *)
(* The law that is observed on the real engine for every emitted batch is  *)
(* stated in Indep.tla (Independence, NoInternal) and evaluated by TLC on  *)
(* the recorded trace with Trace_Indep.tla.                                *)
(***************************************************************************)
EXTENDS Integers, Sequences, FiniteSets, TLC, Json

CONSTANTS
  MaxDepth,     \* nesting depth of an expression
  MaxStack,     \* stack bound
  BatchSize,    \* queries per batch (evaluated concurrently)
  Datasets,     \* names of the data sets the harness knows how to build
  IllTyped,     \* BOOLEAN: allow one type-incorrect argument per query
  EnumMode,     \* TRUE: no random walk -- enumerate every template once over representative leaves
  EmitOn

VARIABLES stack, batch, data, fin,
          kind    \* "" = the kind of the next step is still to be chosen (keeps random walks balanced)
vars == <<stack, batch, data, fin, kind>>

-----------------------------------------------------------------------------
(* Leaves                                                                   *)
Sels == {"m", "m{a=\"x\"}", "m{a!=\"x\",b=~\".*\"}", "c", "h", "hc", "mix", "stale", "gap", "nanv", "bk", "nosuch",
         "{__name__=~\"m|h\"}", "target_info"}
Rngs == {"30s", "1m", "5m", "15s"}
\* (the experimental anchored / smoothed modifiers come last)
VLeaves == {s \o m : s \in Sels, m \in {"", " offset 30s", " offset -30s", " @ 100", " @ end()", " @ 100 offset 1m",
                                       " smoothed", " @ 100 smoothed", " anchored"}}
MLeaves == {s \o "[" \o r \o "]" \o m : s \in Sels, r \in Rngs, m \in {"", " offset 30s", " @ 100", " @ start()",
                                                                     " anchored", " smoothed", " offset 30s anchored",
                                                                     " @ 100 smoothed"}}
SLeaves == {"0", "1", "2", "-1", "0.5", "NaN", "Inf", "-Inf", "1e308", "time()", "pi()", "9223372036854775807"}
TLeaves == {"\"a\"", "\"\"", "\"__name__\"", "\"le\""}
Leaves == {[ty |-> "v", s |-> x, d |-> 0, atom |-> TRUE, ill |-> FALSE, nd |-> FALSE] : x \in VLeaves}
     \cup {[ty |-> "m", s |-> x, d |-> 0, atom |-> TRUE, ill |-> FALSE, nd |-> FALSE] : x \in MLeaves}
     \cup {[ty |-> "s", s |-> x, d |-> 0, atom |-> TRUE, ill |-> FALSE, nd |-> FALSE] : x \in SLeaves}
     \cup {[ty |-> "t", s |-> x, d |-> 0, atom |-> TRUE, ill |-> FALSE, nd |-> FALSE] : x \in TLeaves}

-----------------------------------------------------------------------------
(* Templates: [p |-> pieces, ret |-> type, atom |-> prints as an atom]      *)
IsHole(x) == x \in {"$v", "$m", "$s", "$t"}
\* nd: the documentation leaves part of the result open (which of several tied / equally placed elements topk,
\* bottomk and limitk select), so the result need not be a function of (data, query, parameters)
T(p, r, a) == [p |-> p, ret |-> r, atom |-> a, h |-> SelectSeq(p, IsHole), nd |-> FALSE]
ND(tp) == [tp EXCEPT !.nd = TRUE]
Call1(f, h, r) == T(<<f \o "(", h, ")">>, r, TRUE)

RangeFns == {"rate", "increase", "delta", "irate", "idelta", "resets", "changes", "deriv", "avg_over_time",
             "sum_over_time", "min_over_time", "max_over_time", "count_over_time", "last_over_time",
             "first_over_time", "stddev_over_time", "stdvar_over_time", "present_over_time", "absent_over_time",
             "mad_over_time", "ts_of_max_over_time", "ts_of_min_over_time", "ts_of_last_over_time",
             "ts_of_first_over_time"}
VecFns == {"abs", "ceil", "floor", "exp", "ln", "log2", "sqrt", "sgn", "timestamp", "start_timestamp",
           "histogram_count", "histogram_sum", "histogram_avg", "histogram_stddev", "histogram_stdvar", "sort",
           "sort_desc", "absent", "day_of_week", "hour", "days_in_month", "sin", "acos", "deg"}
AggOps == {"sum", "avg", "min", "max", "count", "group", "stddev", "stdvar"}
Grps == {"", " by (a)", " without (a)", " by (a, b)", " by (__name__)", " without (le)"}
InlineS == {"0.5", "0", "1", "2", "-1", "NaN", "scalar(m)"}
ArithOps == {"+", "-", "*", "/", "%", "^", "atan2"}
CmpOps == {"==", "!=", ">", "<", ">=", "<="}
Matchings == {"", " on (a)", " ignoring (b)", " on ()", " on (a) group_left", " on (a) group_right (b)",
              " ignoring (a) group_left (b)", " on (a) fill (0)", " on (a) group_left fill_right (1)"}

Templates ==
     {Call1(f, "$m", "v") : f \in RangeFns}
\cup {Call1(f, "$v", "v") : f \in VecFns}
\cup {T(<<"quantile_over_time(", "$s", ", ", "$m", ")">>, "v", TRUE),
      T(<<"predict_linear(", "$m", ", ", "$s", ")">>, "v", TRUE),
      T(<<"double_exponential_smoothing(", "$m", ", 0.5, 0.5)">>, "v", TRUE),
      T(<<"double_exponential_smoothing(", "$m", ", ", "$s", ", ", "$s", ")">>, "v", TRUE),
      T(<<"histogram_quantile(", "$s", ", ", "$v", ")">>, "v", TRUE),
      T(<<"histogram_quantiles(", "$v", ", \"q\", 0.5, 0.9)">>, "v", TRUE),
      T(<<"histogram_fraction(", "$s", ", ", "$s", ", ", "$v", ")">>, "v", TRUE),
      T(<<"round(", "$v", ", ", "$s", ")">>, "v", TRUE),
      T(<<"clamp(", "$v", ", ", "$s", ", ", "$s", ")">>, "v", TRUE),
      T(<<"clamp_min(", "$v", ", ", "$s", ")">>, "v", TRUE),
      T(<<"scalar(", "$v", ")">>, "s", TRUE),
      T(<<"vector(", "$s", ")">>, "v", TRUE),
      T(<<"label_replace(", "$v", ", \"d\", \"$1-$1\", \"a\", \"(.*)\")">>, "v", TRUE),
      T(<<"label_replace(", "$v", ", \"__name__\", \"z\", \"a\", \".*\")">>, "v", TRUE),
      T(<<"label_join(", "$v", ", \"j\", \"-\", \"a\", \"b\")">>, "v", TRUE),
      T(<<"sort_by_label(", "$v", ", ", "$t", ")">>, "v", TRUE),
      T(<<"info(", "$v", ")">>, "v", TRUE),
      T(<<"info(", "$v", ", {k=~\".+\"})">>, "v", TRUE),
      \* modifiers on arguments the engine looks at as syntax (type assertions on the argument node)
      T(<<"info(", "$v", ", {k=~\".+\"} @ 100)">>, "v", TRUE),
      T(<<"info(", "$v", ", {k=\"v1\"} offset 30s)">>, "v", TRUE),
      T(<<"info(", "$v", ", {__name__=\"target_info\"} @ end())">>, "v", TRUE),
      T(<<"timestamp((", "$v", "))">>, "v", TRUE),
      \* the bare selector as a query of its own (a no-op reduction)
      T(<<"", "$m", "">>, "m", TRUE),
      T(<<"", "$v", "">>, "v", TRUE),
      T(<<"max_of(", "$s", ", ", "$s", ")">>, "s", TRUE),
      T(<<"min_of(", "$s", ", ", "$s", ")">>, "s", TRUE),
      T(<<"-", "$v">>, "v", FALSE),
      T(<<"-", "$s">>, "s", FALSE),
      \* subqueries
      T(<<"", "$v", "[1m:10s]">>, "m", TRUE),
      T(<<"", "$v", "[2m:]">>, "m", TRUE),
      T(<<"", "$v", "[5m:1m] offset 30s">>, "m", TRUE),
      T(<<"", "$v", "[1m:15s] @ 100">>, "m", TRUE)}
\cup {T(<<a \o g \o " (", "$v", ")">>, "v", TRUE) : a \in AggOps, g \in Grps}
\cup {T(<<a \o "(", "$s", ", ", "$v", ")" \o g>>, "v", TRUE) : a \in {"quantile", "limit_ratio"}, g \in {"", " by (a)", " without (b)"}}
\cup {ND(T(<<a \o "(", "$s", ", ", "$v", ")" \o g>>, "v", TRUE)) : a \in {"topk", "bottomk", "limitk"}, g \in {"", " by (a)", " without (b)"}}
\cup {T(<<"count_values" \o g \o " (", "$t", ", ", "$v", ")">>, "v", TRUE) : g \in {"", " by (a)"}}
\cup {T(<<"", "$v", " " \o o \o m \o " ", "$v">>, "v", FALSE) : o \in ArithOps \cup CmpOps, m \in Matchings}
\cup {T(<<"", "$v", " " \o o \o " bool" \o m \o " ", "$v">>, "v", FALSE) : o \in CmpOps, m \in {"", " on (a)"}}
\cup {T(<<"", "$v", " " \o o \o m \o " ", "$v">>, "v", FALSE) : o \in {"and", "or", "unless"}, m \in {"", " on (a)", " ignoring (b)"}}
\cup {T(<<"", "$v", " " \o o \o " ", "$s">>, "v", FALSE) : o \in ArithOps \cup CmpOps}
\cup {T(<<"", "$s", " " \o o \o " ", "$v">>, "v", FALSE) : o \in ArithOps \cup CmpOps}
\cup {T(<<"", "$v", " " \o o \o " bool ", "$s">>, "v", FALSE) : o \in CmpOps}
\cup {T(<<"", "$s", " " \o o \o " ", "$s">>, "s", FALSE) : o \in ArithOps}
\cup {T(<<"", "$s", " " \o o \o " bool ", "$s">>, "s", FALSE) : o \in CmpOps}
\* the same multi-argument forms with the scalar / string arguments written inline, so that they are
\* drawn as often as the one-argument functions (a random stack rarely holds the right mix of types)
\cup {T(<<"quantile_over_time(" \o c \o ", ", "$m", ")">>, "v", TRUE) : c \in InlineS}
\cup {T(<<"predict_linear(", "$m", ", " \o c \o ")">>, "v", TRUE) : c \in {"0", "60", "-30", "NaN", "1e308"}}
\cup {T(<<"histogram_quantile(" \o c \o ", ", "$v", ")">>, "v", TRUE) : c \in InlineS}
\cup {T(<<"histogram_fraction(" \o c \o ", ", "$v", ")">>, "v", TRUE) : c \in {"0, 1", "1, 0", "-Inf, +Inf", "NaN, 1", "0.5, 0.5"}}
\cup {T(<<"round(", "$v", ", " \o c \o ")">>, "v", TRUE) : c \in {"0.5", "0", "NaN", "-2", "Inf"}}
\cup {T(<<"clamp(", "$v", ", " \o c \o ")">>, "v", TRUE) : c \in {"0, 1", "1, 0", "NaN, 1", "-Inf, Inf"}}
\cup {ND(T(<<a \o "(" \o k \o ", ", "$v", ")" \o g>>, "v", TRUE)) : a \in {"topk", "bottomk", "limitk"}, k \in {"1", "2", "0", "-1", "1e308", "scalar(m)"},
                                                              g \in {"", " by (a)"}}
\cup {T(<<a \o "(" \o k \o ", ", "$v", ")" \o g>>, "v", TRUE) : a \in {"quantile", "limit_ratio"}, k \in InlineS \cup {"-0.5"}, g \in {"", " by (a)"}}
\cup {T(<<"count_values" \o g \o " (" \o l \o ", ", "$v", ")">>, "v", TRUE) : g \in {"", " without (a)"}, l \in {"\"v\"", "\"a\"", "\"__name__\""}}
\cup {T(<<"sort_by_label(", "$v", ", \"a\", \"b\")">>, "v", TRUE), T(<<"sort_by_label_desc(", "$v", ", \"b\")">>, "v", TRUE)}
\cup {T(<<"", "$v", " " \o o \o " " \o c>>, "v", FALSE) : o \in ArithOps \cup CmpOps, c \in {"0", "2", "NaN", "(-1)"}}
\cup {T(<<c \o " " \o o \o " ", "$v">>, "v", FALSE) : o \in ArithOps \cup CmpOps, c \in {"0", "2", "Inf"}}

HoleTy(x) == CASE x = "$v" -> "v" [] x = "$m" -> "m" [] x = "$s" -> "s" [] x = "$t" -> "t"
Holes(tp) == tp.h

-----------------------------------------------------------------------------
(* Printing                                                                 *)
Wrap(e) == IF e.atom THEN e.s ELSE "(" \o e.s \o ")"
\* fill the holes of pieces p, left to right, with the expressions args
RECURSIVE Fill(_, _)
Fill(p, args) ==
  IF p = <<>> THEN ""
  ELSE IF IsHole(Head(p)) THEN Wrap(Head(args)) \o Fill(Tail(p), Tail(args))
  ELSE Head(p) \o Fill(Tail(p), args)
MaxD(args) == IF args = <<>> THEN 0
              ELSE CHOOSE d \in {args[k].d : k \in 1..Len(args)} : \A k \in 1..Len(args) : args[k].d <= d

-----------------------------------------------------------------------------
(* Query time parameters (seconds): instant queries and range queries        *)
Params == {[k |-> "i", t |-> 100, e |-> 100, st |-> 0],
           [k |-> "i", t |-> 0, e |-> 0, st |-> 0],
           [k |-> "i", t |-> 290, e |-> 290, st |-> 0],
           [k |-> "i", t |-> 300, e |-> 300, st |-> 0],
           [k |-> "i", t |-> 100000, e |-> 100000, st |-> 0],
           [k |-> "r", t |-> 0, e |-> 300, st |-> 30],
           [k |-> "r", t |-> 50, e |-> 250, st |-> 7],
           [k |-> "r", t |-> 100, e |-> 100, st |-> 60],
           [k |-> "r", t |-> 200, e |-> 500, st |-> 100],
           [k |-> "r", t |-> 0, e |-> 300, st |-> 100],
           [k |-> "r", t |-> 10, e |-> 290, st |-> 140]}

-----------------------------------------------------------------------------
\* ---- EnumMode: every template, applied to each combination of a few representative leaves, as an instant
\* and as a range query over the data set that has every kind of series.  One query per initial state;
\* the driver groups them into batches of BatchSize in emission order.
Rep(ty, multi) ==
  CASE ty = "v" -> IF multi THEN {"m", "h"} ELSE {"m", "h", "mix", "nanv", "m @ 100", "gap smoothed"}
    [] ty = "m" -> {"m[1m]", "h[1m]", "mix[5m]", "stale[30s]", "c[1m]", "m[1m] @ 100", "gap[30s] anchored", "gap[1m] smoothed",
                    "c[1m] anchored"}
    [] ty = "s" -> {"2", "NaN"}
    [] ty = "t" -> {"\"a\""}
RepParams == {[k |-> "i", t |-> 100, e |-> 100, st |-> 0], [k |-> "i", t |-> 290, e |-> 290, st |-> 0],
              [k |-> "r", t |-> 0, e |-> 300, st |-> 30],
              \* a step larger than the lookback delta (1m) and than the ranges of the leaves: the engine has to
              \* seek its iterators between steps instead of walking them
              [k |-> "r", t |-> 0, e |-> 300, st |-> 100]}
EnumQueries ==
  UNION {LET hs == Holes(tp)
             n  == Len(hs)
             nv == Cardinality({k \in 1..n : hs[k] = "$v"})
             as == {a \in [1..n -> UNION {Rep(ty, FALSE) : ty \in {"v", "m", "s", "t"}}] :
                      \A k \in 1..n : a[k] \in Rep(HoleTy(hs[k]), nv > 1)}
         IN {[q |-> Fill(tp.p, [k \in 1..n |-> [s |-> a[k], atom |-> TRUE]]), ty |-> tp.ret, p |-> p, ill |-> FALSE, nd |-> tp.nd]
               : a \in as, p \in RepParams}
         : tp \in Templates}

Init == /\ stack = <<>> /\ kind = ""
        /\ IF EnumMode THEN data = "full" /\ fin = TRUE /\ \E x \in EnumQueries : batch = <<x>>
                       ELSE data \in Datasets /\ fin = FALSE /\ batch = <<>>
\* a type-incorrect argument is only ever introduced by the first reduction of a query
FirstReduction == \A k \in 1..Len(stack) : stack[k].d = 0

\* templates that can reduce the top of the stack with nbad type-incorrect arguments
Applicable(nbad) ==
  {tp \in Templates :
     LET hs == Holes(tp)  n == Len(hs) IN
     /\ n <= Len(stack)
     /\ LET args == SubSeq(stack, Len(stack) - n + 1, Len(stack))
            bad  == {k \in 1..n : args[k].ty # HoleTy(hs[k])}
        IN MaxD(args) < MaxDepth /\ Cardinality(bad) = nbad}

\* choose what to do next: push a leaf of some type, reduce (well typed, three times as likely), reduce
\* with one type-incorrect argument (only as the first reduction of a query), or finish the query
Pick ==
  /\ ~fin /\ kind = "" /\ Len(batch) < BatchSize
  /\ kind' \in (IF Len(stack) < MaxStack THEN {"lv", "lv2", "lm", "ls", "lt"} ELSE {})
              \cup (IF Applicable(0) # {} THEN {"ap", "ap2", "ap3"} ELSE {})
              \cup (IF IllTyped /\ FirstReduction /\ stack # <<>> /\ Applicable(1) # {} THEN {"ia"} ELSE {})
              \cup (IF stack # <<>> THEN {"dn"} ELSE {})
  /\ UNCHANGED <<stack, batch, data, fin>>

Leaf ==
  /\ kind \in {"lv", "lv2", "lm", "ls", "lt"}
  /\ \E l \in {x \in Leaves : x.ty = CASE kind \in {"lv", "lv2"} -> "v" [] kind = "lm" -> "m" [] kind = "ls" -> "s" [] OTHER -> "t"} :
        stack' = Append(stack, l)
  /\ kind' = ""
  /\ UNCHANGED <<batch, data, fin>>

\* reduce: the top Len(holes) entries are the arguments (in order)
Apply ==
  /\ kind \in {"ap", "ap2", "ap3", "ia"}
  /\ \E tp \in Applicable(IF kind = "ia" THEN 1 ELSE 0) :
       LET hs   == Holes(tp)
           n    == Len(hs)
           args == SubSeq(stack, Len(stack) - n + 1, Len(stack))
           bad  == {k \in 1..n : args[k].ty # HoleTy(hs[k])}
       IN /\ stack' = Append(SubSeq(stack, 1, Len(stack) - n),
                             [ty |-> tp.ret, s |-> Fill(tp.p, args), d |-> MaxD(args) + 1, atom |-> tp.atom,
                              ill |-> (bad # {} \/ \E k \in 1..n : args[k].ill),
                              nd |-> (tp.nd \/ \E k \in 1..n : args[k].nd)])
  /\ kind' = ""
  /\ UNCHANGED <<batch, data, fin>>

\* the expression on top of the stack is complete: it joins the batch with its time parameters
\* (unreduced entries below it are abandoned)
Done ==
  /\ kind = "dn"
  /\ LET e == stack[Len(stack)] IN
     \E p \in Params : batch' = Append(batch, [q |-> e.s, ty |-> e.ty, p |-> p, ill |-> e.ill, nd |-> e.nd])
  /\ stack' = <<>> /\ kind' = ""
  /\ UNCHANGED <<data, fin>>

\* bookkeeping, single successor: the batch is emitted exactly once
End == /\ ~fin /\ kind = "" /\ Len(batch) = BatchSize /\ fin' = TRUE /\ UNCHANGED <<stack, batch, data, kind>>

Next == Pick \/ Leaf \/ Apply \/ Done \/ End
Spec == Init /\ [][Next]_vars

-----------------------------------------------------------------------------
TypeOK ==
  /\ Len(stack) <= MaxStack /\ Len(batch) <= BatchSize
  /\ \A k \in 1..Len(stack) : stack[k].ty \in {"v", "m", "s", "t"} /\ stack[k].d <= MaxDepth
\* a query without an ill-typed step has exactly the type the templates promise (the harness checks
\* that the real parser agrees: such a query must parse)
WellTyped == \A k \in 1..Len(batch) : batch[k].ty \in {"v", "m", "s", "t"}

Emit == ~EmitOn \/ ~fin \/ PrintT("@@TR " \o ToJson([data |-> data, batch |-> batch]))
=============================================================================
