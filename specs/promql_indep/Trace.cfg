SPECIFICATION Spec
INVARIANTS LawHolds Consumed
CHECK_DEADLOCK FALSE
