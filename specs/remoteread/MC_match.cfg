SPECIFICATION Spec
CONSTANTS
  NSlots = 2
  PerSlot = 1
  Types = {"f", "h"}
  Sers = {"a", "b"}
  Matchers = {"all", "eqa", "re", "nea", "none"}
  Frames = {"tiny", "huge"}
  Exts = {FALSE, TRUE}
  Ranges = "all"
  EmitMode = "done"
INVARIANTS Conforms StreamedSamplesComplete NoDuplicateSeries
ACTION_CONSTRAINT Emit
CHECK_DEADLOCK FALSE
