-------------------------------- MODULE Read --------------------------------
(***************************************************************************)
(* C42: remote read (storage/remote/read_handler.go, codec.go, chunked.go) *)
(* over a real TSDB: the SAMPLES response, the STREAMED_XOR_CHUNKS         *)
(* response and a direct Querier must return the same series with the same *)
(* samples.                                                                *)
(*                                                                         *)
(* Stored data: series "a", "b" (label sets differing in one label), each  *)
(* a strictly increasing sequence of samples [t, ty], ty in f / h / fh.    *)
(* Model times 0..NSlots*PerSlot-1; time t lies in chunk slot t \div       *)
(* PerSlot: the head cuts a chunk whenever a sample enters a new slot      *)
(* (chunkRange boundary) or changes its type, so TLC controls the chunk    *)
(* layout through the sample times and types (`Chunks`).                   *)
(* Query: matcher class m, range [lo, hi], frame budget (tiny = every      *)
(* chunk its own frame, huge = one frame per series), external label.      *)
(*                                                                         *)
(* REFERENCE: `Expected` = the matching series that have a sample in       *)
(* [lo, hi], in label order, with exactly those samples; the remote        *)
(* results additionally carry the external labels.                         *)
(*                                                                         *)
(* TRANSCRIPTION:                                                          *)
(*   Sampled   ToQueryResult (floats and histograms in two lists per       *)
(*             series) -> FromQueryResult / concreteSeriesIterator         *)
(*             (merges the two lists by timestamp)                         *)
(*   Stream    StreamChunkedReadResponses: the chunks of a series that     *)
(*             overlap [lo, hi], cut into frames by the byte budget, one   *)
(*             ChunkedSeries per frame                                     *)
(*   Decode    NewChunkedSeriesSet: consecutive frames with equal labels   *)
(*             are re-assembled into one series, samples trimmed to        *)
(*             [lo, hi] by chunkedSeriesIterator                           *)
(* (Until commit 25688644ac every frame became a series of its own, so a   *)
(* series split over frames came out as several series with the same       *)
(* labels: former known finding KF-C42-1.)                                 *)
(***************************************************************************)
EXTENDS Integers, Sequences, FiniteSets, TLC, Json

CONSTANTS NSlots, PerSlot,   \* chunk slots x sample positions per slot
          Types,             \* subset of {"f", "h", "fh"}
          Sers,              \* subset of {"a", "b"}
          Matchers,          \* subset of {"all", "eqa", "re", "nea", "none"}
          Frames,            \* subset of {"tiny", "huge"}
          Exts,              \* subset of BOOLEAN: external label configured
          Ranges,            \* "all" : every lo <= hi ; "some" : a thinned set
          EmitMode           \* "done" | "none"

VARIABLES data,     \* [Sers -> Seq([t, ty])]
          slot,     \* Build cursor
          lay,      \* [Sers -> chunk layout of the series] (fixed once the data is complete)
          q,        \* [m, lo, hi, frame, ext]
          exp,      \* the reference result for (data, q)
          pc,       \* "build" | "query" | "serve" | "served" | "done"
          sampled,  \* client view of the SAMPLES response: Seq([l, samples])
          frames,   \* the stream: Seq([l, chunks])
          streamed  \* client view of the stream: Seq([l, samples])

vars == <<data, slot, lay, q, exp, pc, sampled, frames, streamed>>

MaxT == NSlots * PerSlot - 1
SerSeq == SelectSeq(<<"a", "b">>, LAMBDA s : s \in Sers)
NSer == Len(SerSeq)
Last(s) == s[Len(s)]

\* chunk layout of the head: a new chunk at every slot boundary and at every type change
RECURSIVE ChunksOf(_)
ChunksOf(ss) ==
  IF ss = <<>> THEN <<>>
  ELSE LET n == CHOOSE k \in 1..Len(ss) :
                  /\ \A j \in 1..k : ss[j].ty = ss[1].ty /\ ss[j].t \div PerSlot = ss[1].t \div PerSlot
                  /\ (k = Len(ss) \/ ss[k + 1].ty # ss[1].ty \/ ss[k + 1].t \div PerSlot # ss[1].t \div PerSlot)
       IN <<SubSeq(ss, 1, n)>> \o ChunksOf(SubSeq(ss, n + 1, Len(ss)))

Matches(m, s) == CASE m = "all" -> TRUE [] m = "eqa" -> s = "a" [] m = "re" -> TRUE [] m = "nea" -> s # "a" [] m = "none" -> FALSE
TrimQ(ss, qq) == SelectSeq(ss, LAMBDA x : x.t >= qq.lo /\ x.t <= qq.hi)
Trim(ss) == TrimQ(ss, q)
Overlaps(c) == c[1].t <= q.hi /\ Last(c).t >= q.lo        \* chunk meta [MinTime, MaxTime] intersects the range

-----------------------------------------------------------------------------
(* REFERENCE                                                                *)
ExpectedOf(qq) == LET ms == SelectSeq(SerSeq, LAMBDA s : Matches(qq.m, s) /\ TrimQ(data[s], qq) # <<>>)
                  IN [k \in 1..Len(ms) |-> [l |-> ms[k], samples |-> TrimQ(data[ms[k]], qq)]]
Expected == exp

-----------------------------------------------------------------------------
Init == /\ data = [s \in Sers |-> <<>>] /\ slot = 0
        /\ q = [m |-> "all", lo |-> 0, hi |-> 0, frame |-> "huge", ext |-> FALSE]
        /\ lay = [s \in Sers |-> <<>>] /\ exp = <<>>
        /\ pc = "build" /\ sampled = <<>> /\ frames = <<>> /\ streamed = <<>>

N == MaxT + 1
Build ==
  /\ pc = "build"
  /\ IF slot = NSer * N THEN pc' = "query" /\ lay' = [s \in Sers |-> ChunksOf(data[s])] /\ UNCHANGED <<data, slot>>
     ELSE /\ LET s == SerSeq[(slot \div N) + 1]
                 t == slot % N
             IN \/ UNCHANGED data
                \/ \E ty \in Types : data' = [data EXCEPT ![s] = Append(@, [t |-> t, ty |-> ty])]
          /\ slot' = slot + 1 /\ UNCHANGED <<pc, lay>>
  /\ UNCHANGED <<q, exp, sampled, frames, streamed>>

RangeOK(lo, hi) == lo <= hi /\ (Ranges = "all" \/ (lo + hi) % 2 = 0 \/ lo = 0 \/ hi = MaxT)
Query ==
  /\ pc = "query"
  /\ \E m \in Matchers, lo \in 0..MaxT, hi \in 0..MaxT, f \in Frames, e \in Exts :
       /\ RangeOK(lo, hi)
       /\ q' = [m |-> m, lo |-> lo, hi |-> hi, frame |-> f, ext |-> e]
       /\ exp' = ExpectedOf(q')
  /\ pc' = "serve"
  /\ UNCHANGED <<data, slot, lay, sampled, frames, streamed>>

\* the server side selection common to both response types: matching series with a chunk overlapping the range
Selected == SelectSeq(SerSeq, LAMBDA s : Matches(q.m, s) /\ \E k \in 1..Len(lay[s]) : Overlaps(lay[s][k]))

(* remoteReadSamples: Querier.Select -> ToQueryResult (two lists) ; client: FromQueryResult +        *)
(* concreteSeriesIterator, which merges floats and histograms by timestamp.                          *)
MergeByTime(fs, hs) == LET all == {fs[k] : k \in 1..Len(fs)} \cup {hs[k] : k \in 1..Len(hs)}
                       IN SelectSeq([t \in 1..N |-> IF \E x \in all : x.t = t - 1 THEN CHOOSE x \in all : x.t = t - 1 ELSE [t |-> -1, ty |-> "-"]],
                                    LAMBDA x : x.t >= 0)
(* remoteReadStreamedXORChunks: ChunkQuerier.Select(sorted) -> StreamChunkedReadResponses: per series  *)
(* the overlapping chunks, a frame is closed when the byte budget is used up or the series ends.     *)
FramesOf(s) == LET cs == SelectSeq(lay[s], Overlaps)
               IN IF q.frame = "huge" THEN <<[l |-> s, chunks |-> cs]>>
                  ELSE [k \in 1..Len(cs) |-> [l |-> s, chunks |-> <<cs[k]>>]]
RECURSIVE Concat(_)
Concat(ss) == IF ss = <<>> THEN <<>> ELSE ss[1] \o Concat(Tail(ss))

Serve ==
  /\ pc = "serve"
  /\ sampled' = LET sel == SelectSeq(Selected, LAMBDA s : TRUE)
                IN [k \in 1..Len(sel) |->
                      LET tr == Trim(data[sel[k]])
                      IN [l |-> sel[k], samples |-> MergeByTime(SelectSeq(tr, LAMBDA x : x.ty = "f"), SelectSeq(tr, LAMBDA x : x.ty # "f"))]]
  /\ frames' = Concat([k \in 1..Len(Selected) |-> FramesOf(Selected[k])])
  /\ pc' = "served"
  /\ UNCHANGED <<data, slot, lay, q, exp, streamed>>

\* NewChunkedSeriesSet: consecutive frames with the same labels are one series (chunkedSeriesSet.Next looks one
\* frame ahead since commit 25688644ac; before, every frame became a series of its own - formerly KF-C42-1);
\* chunkedSeriesIterator drops samples outside [mint, maxt]
RECURSIVE Assemble(_)
Assemble(fs) ==
  IF fs = <<>> THEN <<>>
  ELSE LET n == CHOOSE k \in 1..Len(fs) : /\ \A j \in 1..k : fs[j].l = fs[1].l
                                          /\ (k = Len(fs) \/ fs[k + 1].l # fs[1].l)
       IN <<[l |-> fs[1].l, chunks |-> Concat([j \in 1..n |-> fs[j].chunks])]>> \o Assemble(SubSeq(fs, n + 1, Len(fs)))
Decode ==
  /\ pc = "served"
  /\ streamed' = LET as == Assemble(frames)
                 IN [k \in 1..Len(as) |-> [l |-> as[k].l, samples |-> Trim(Concat(as[k].chunks))]]
  /\ pc' = "done"
  /\ UNCHANGED <<data, slot, lay, q, exp, sampled, frames>>

Next == Build \/ Query \/ Serve \/ Decode
Spec == Init /\ [][Next]_vars

-----------------------------------------------------------------------------
(* Properties.  Series without a sample in the range are not part of a result (NonEmpty).            *)
NonEmpty(r) == SelectSeq(r, LAMBDA x : x.samples # <<>>)
SampledMatchesRef  == pc = "done" => NonEmpty(sampled) = Expected
StreamedMatchesRef == pc = "done" => NonEmpty(streamed) = Expected
\* a series split over several frames (more than one overlapping chunk and a tiny frame budget): these are the
\* cases in which the former defect KF-C42-1 showed; kept as a coverage predicate, no longer an excuse
SplitSeries == pc = "done" /\ \E j, k \in 1..Len(frames) : j # k /\ frames[j].l = frames[k].l
NoDuplicateSeries == pc = "done" => \A j, k \in 1..Len(streamed) : j # k => streamed[j].l # streamed[k].l
Conforms == SampledMatchesRef /\ StreamedMatchesRef
\* even then nothing is lost or invented: per label set the streamed samples concatenate to the expected ones
StreamedSamplesComplete == pc = "done" =>
  \A s \in Sers : Concat([k \in 1..Len(SelectSeq(streamed, LAMBDA x : x.l = s)) |-> SelectSeq(streamed, LAMBDA x : x.l = s)[k].samples])
                  = (IF \E k \in 1..Len(Expected) : Expected[k].l = s
                     THEN (CHOOSE x \in {Expected[k] : k \in 1..Len(Expected)} : x.l = s).samples ELSE <<>>)

-----------------------------------------------------------------------------
Case == [data |-> [k \in 1..NSer |-> [l |-> SerSeq[k], samples |-> data[SerSeq[k]]]], per |-> PerSlot, q |-> q,
         kf |-> {}, split |-> SplitSeries,
         ref |-> Expected, nchunks |-> [k \in 1..NSer |-> Len(lay[SerSeq[k]])],
         code |-> [sampled |-> NonEmpty(sampled), streamed |-> NonEmpty(streamed)]]
Emit == \/ EmitMode # "done"
        \/ ~(pc' = "done" /\ pc # "done")
        \/ PrintT("@@TR " \o ToJson(Case'))
EmitWalk == pc # "done" \/ PrintT("@@TR " \o ToJson(Case))
=============================================================================
