SPECIFICATION Spec
CONSTANTS
  NSlots = 4
  PerSlot = 3
  Types = {"f", "h", "fh"}
  Sers = {"a", "b"}
  Matchers = {"all", "eqa", "re", "nea", "none"}
  Frames = {"tiny", "huge"}
  Exts = {FALSE, TRUE}
  Ranges = "all"
  EmitMode = "none"
INVARIANTS Conforms StreamedSamplesComplete NoDuplicateSeries EmitWalk
CHECK_DEADLOCK FALSE
