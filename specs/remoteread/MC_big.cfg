SPECIFICATION Spec
CONSTANTS
  NSlots = 3
  PerSlot = 2
  Types = {"f", "h", "fh"}
  Sers = {"a"}
  Matchers = {"all"}
  Frames = {"tiny", "huge"}
  Exts = {FALSE}
  Ranges = "all"
  EmitMode = "done"
INVARIANTS Conforms StreamedSamplesComplete NoDuplicateSeries
ACTION_CONSTRAINT Emit
CHECK_DEADLOCK FALSE
