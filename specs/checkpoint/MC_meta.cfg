SPECIFICATION Spec
CONSTANTS
  Labs = {"a", "b"}
  MaxT = 4
  MaxOps = 10
  Cuts = {TRUE}
  ExDts = {0, 2}
  Acts = {"Scrape", "Exemplar", "Meta", "Delete", "Evict", "Truncate", "Restart"}
  Script <- ScriptMeta
  PreCuts = {0, 3}
  MetaOrds = {"stream"}
  EmitMode = "class"
VIEW View
INVARIANTS TypeOK C15All
ACTION_CONSTRAINT Emit
CHECK_DEADLOCK FALSE
