SPECIFICATION Spec
CONSTANTS
  Labs = {"a", "b", "c"}
  MaxT = 12
  Cuts = {TRUE, FALSE}
  ExDts = {0, 1, 3}
  Acts = {"Scrape", "Exemplar", "Meta", "Delete", "Evict", "Truncate", "Restart"}
  Script <- NoScript
  PreCuts = {0, 1, 3}
  MetaOrds = {"stream"}
  EmitMode = "none"
INVARIANTS TypeOK C15All EmitWalk
CHECK_DEADLOCK FALSE
