SPECIFICATION Spec
CONSTANTS
  Labs = {"a", "b"}
  MaxT = 5
  MaxOps = 5
  Cuts = {TRUE}
  ExDts = {0, 2}
  Acts = {"Scrape", "Exemplar", "Meta", "Delete", "Evict", "Truncate", "Restart"}
  Script <- NoScript
  PreCuts = {0, 3}
  MetaOrds = {"stream"}
  EmitMode = "none"
VIEW View
INVARIANTS TypeOK RefClosedOrKF ReplayEquivOrKF NoLiveOrphan SamplesSurvive NoRefReuse
CHECK_DEADLOCK FALSE
