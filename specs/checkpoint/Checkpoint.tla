------------------------------ MODULE Checkpoint ------------------------------
(***************************************************************************)
(* C15 -- WAL truncation keeps everything replay still needs (head side).  *)
(*                                                                         *)
(* The module is a step-by-step transcription of the parts of tsdb.Head    *)
(* that decide what is written to, kept in and dropped from the WAL:       *)
(*                                                                         *)
(*   Scrape      headAppender.Append* + Commit -> headAppenderBase.log     *)
(*               (one series record for the new series, then one samples   *)
(*               record), tsdb/head_append.go                              *)
(*   Exemplar    headAppender.AppendExemplar + Commit                      *)
(*   Meta        headAppender.UpdateMetadata + Commit                      *)
(*   Delete      Head.Delete (tombstone record clamped to the series)      *)
(*   Evict       Head.truncateSelectedSeries/truncateStaleSeries ->        *)
(*               truncateSeries -> gcSeries (walExpiries[ref] = maxt) and  *)
(*               a full-range tombstone record, tsdb/head.go               *)
(*   Truncate    Head.Truncate = truncateMemory (gc: walExpiries[ref] =    *)
(*               actualInOrderMint) ; truncateWAL (NextSegment, "lower two *)
(*               thirds", wlog.Checkpoint with keepSeriesInWALCheckpointFn,*)
(*               WL.Truncate, expiry clean-up), tsdb/head.go and           *)
(*               tsdb/wlog/checkpoint.go                                   *)
(*   Restart     Head.Close ; wlog.NewSize (new segment) ; Head.Init ->    *)
(*               loadWAL over checkpoint + segments (multiRef, updateWAL-  *)
(*               Expiry, deleteSeriesByID) ; gc, tsdb/head_wal.go          *)
(*                                                                         *)
(* The log is a sequence of segments, a segment a sequence of records, a   *)
(* record a non-empty sequence of entries of one kind:                     *)
(*   "S" series (ref, lab)        "D" float sample (ref, t, v)             *)
(*   "X" exemplar (ref, t, v)     "T" tombstone (ref, [t, t2])             *)
(*   "M" metadata (ref, v)                                                 *)
(* `full` is the ghost copy of everything ever logged (the untruncated     *)
(* log).  Replay is the abstract Head.Init; Content is what a user can     *)
(* observe of a replayed head at or after the truncation time T.           *)
(*                                                                         *)
(* The property (named formulas below):                                    *)
(*   ReplayEquiv   Content(Replay(checkpoint \o segments)) =               *)
(*                 Content(Replay(full))                                   *)
(*   RefClosed     every non-series entry left in checkpoint \o segments   *)
(*                 is preceded by a series entry for its ref               *)
(* The code (and therefore this transcription) deviates from the literal   *)
(* statement in three ways that are recorded as known findings; the cfgs   *)
(* check `ReplayEquivOrKF` and `RefClosedOrKF`, and `NoLiveOrphan`,        *)
(* `SamplesSurvive` without any exception.                                 *)
(***************************************************************************)
EXTENDS RefClosed, TLC, Json

CONSTANTS Labs,      \* series label identities, e.g. {"a","b"}
          MaxT,      \* scrape clock runs 1..MaxT
          MaxOps,    \* history length bound
          Cuts,      \* subset of BOOLEAN: may a scrape start a new segment first
          ExDts,     \* exemplar timestamps relative to the last scrape time
          Acts,      \* enabled actions
          Script,    \* sequence of sets of action names: step i may only take an action of Script[i]
                     \* (scenario skeleton; <<>> = unconstrained)
          PreCuts,   \* numbers of extra (empty) segments cut right before a truncation (WAL growth since)
          MetaOrds,  \* subset of {"asc","desc"}: order of the checkpoint's metadata record (Go map order)
          EmitMode   \* "class" | "all" | "none"

VARIABLES segs,      \* sequence of segments still on disk; the last one is being written
          first,     \* segment number of segs[1]
          cp,        \* last checkpoint [idx, recs]; idx = -1: none
          full,      \* ghost: every entry ever logged
          hs,        \* series in the head: set of [ref, lab, smp, meta]
          exp,       \* Head.walExpiries: function ref -> keepUntil
          lastRef,   \* Head.lastSeriesID
          hmin, hmax,\* Head.minTime / maxTime
          minValid,  \* Head.minValidTime
          lastTr,    \* Head.lastWALTruncationTime
          inited,    \* Head.initialized()
          exNew,     \* newest exemplar timestamp per label set in the live exemplar storage
          now,       \* next scrape timestamp
          T,         \* ghost: highest truncation time requested so far (= blocks' max time)
          reused,    \* ghost: a series was issued a ref that occurs in the untruncated log (harmless once the ref is
                     \* gone from checkpoint + segments, but the untruncated log is no reference any more)
          reusedLive,\* ghost: a series was issued a ref that still occurs in checkpoint + segments
          nops, hist

vars == <<segs, first, cp, full, hs, exp, lastRef, hmin, hmax, minValid, lastTr, inited, exNew, now, T, reused, reusedLive, nops, hist>>
View == <<segs, first, cp, full, hs, exp, lastRef, hmin, hmax, minValid, lastTr, inited, exNew, now, T, reused, reusedLive>>

Max2(a, b) == IF a >= b THEN a ELSE b
Min2(a, b) == IF a <= b THEN a ELSE b
SetMax(S) == CHOOSE x \in S : \A y \in S : y <= x
SetMin(S) == CHOOSE x \in S : \A y \in S : x <= y

E(k, ref, lab, t, t2, v) == [k |-> k, ref |-> ref, lab |-> lab, t |-> t, t2 |-> t2, v |-> v]

RECURSIVE Flat(_)
Flat(ss) == IF ss = <<>> THEN <<>> ELSE Head(ss) \o Flat(Tail(ss))   \* seq of seqs -> seq

SMax(s) == SetMax({p[1] : p \in s.smp})
SMin(s) == SetMin({p[1] : p \in s.smp})
Refs(h) == {s.ref : s \in h}

SetF(f, k, v) == [x \in DOMAIN f \cup {k} |-> IF x = k THEN v ELSE f[x]]
\* Head.updateWALExpiry: max(keepUntil, walExpiries[id]) where a missing entry reads as 0
UpdExp(f, id, until) == SetF(f, id, Max2(until, IF id \in DOMAIN f THEN f[id] ELSE 0))

-----------------------------------------------------------------------------
(* Replay = Head.Init(minValidTime = Tm) over a sequence of entries.        *)

RP0 == [hs |-> {}, exp |-> <<>>, multi |-> <<>>, ex |-> {}, racy |-> {}, tb |-> {}, lastRef |-> 0, unk |-> 0,
        lo |-> INF, hi |-> NEG]

MapRef(st, r) == IF r \in DOMAIN st.multi THEN st.multi[r] ELSE r

\* one decoded entry, in the order of Head.loadWAL's main loop
Step(st0_, e, Tm) ==
  LET st == [st0_ EXCEPT !.lastRef = Max2(@, e.ref)] IN     \* advanceLastSeriesID: every ref found in the WAL
  CASE e.k = "S" ->
         LET same == {s \in st.hs : s.lab = e.lab}
             st1  == [st EXCEPT !.lastRef = Max2(@, e.ref)] IN
         IF same # {}   \* getOrCreateWithOptionalID found the labels: duplicate series record
           THEN [st1 EXCEPT !.multi = SetF(@, e.ref, (CHOOSE s \in same : TRUE).ref)]
           ELSE [st1 EXCEPT !.hs = @ \cup {[ref |-> e.ref, lab |-> e.lab, smp |-> {}, meta |-> 0]}]
    [] e.k = "D" ->
         IF e.t < Tm THEN st
         ELSE LET st1 == IF e.ref \in DOMAIN st.multi THEN [st EXCEPT !.exp = UpdExp(@, e.ref, e.t)] ELSE st
                  r   == MapRef(st, e.ref)
                  ss  == {s \in st1.hs : s.ref = r} IN
              IF ss = {} THEN [st1 EXCEPT !.unk = @ + 1]
              ELSE LET s == CHOOSE x \in ss : TRUE
                       st2 == [st1 EXCEPT !.lo = Min2(@, e.t), !.hi = Max2(@, e.t)] IN
                   IF s.smp # {} /\ e.t <= SMax(s) THEN st2     \* appendWALFloat: not in order, dropped
                   ELSE [st2 EXCEPT !.hs = (@ \ {s}) \cup {[s EXCEPT !.smp = @ \cup {<<e.t, e.v>>}]}]
    [] e.k = "T" ->
         LET st0 == [st EXCEPT !.lastRef = Max2(@, e.ref)] IN
         IF e.t = NEG /\ e.t2 = INF
           THEN \* full-range stone: the series was evicted here (deleteSeriesByID)
                LET r  == MapRef(st0, e.ref)
                    ss == {s \in st0.hs : s.ref = r} IN
                IF ss = {} THEN st0
                ELSE LET s == CHOOSE x \in ss : TRUE IN
                     \* loadWAL hands exemplars to a separate goroutine that looks the series up by ref
                     \* while deleteSeriesByID runs on a sample processor: whether an earlier exemplar of
                     \* this series is still added is a race in the code -> not compared ("racy")
                     [st0 EXCEPT !.hs = @ \ {s},
                                 !.racy = @ \cup {x \in st0.ex : x.lab = s.lab},
                                 !.ex = {x \in @ : x.lab # s.lab},
                                 !.exp = IF s.smp = {} THEN @ ELSE UpdExp(@, s.ref, SMax(s)),
                                 !.tb = {x \in @ : x.ref # s.ref}]
           ELSE IF e.t2 < Tm THEN st0
           ELSE LET st1 == IF e.ref \in DOMAIN st0.multi THEN [st0 EXCEPT !.exp = UpdExp(@, e.ref, e.t2)] ELSE st0
                    r   == MapRef(st0, e.ref) IN
                IF r \notin Refs(st1.hs) THEN [st1 EXCEPT !.unk = @ + 1]
                ELSE [st1 EXCEPT !.tb = @ \cup {[ref |-> r, lo |-> e.t, hi |-> e.t2]}]
    [] e.k = "X" ->
         IF e.t < Tm THEN st
         ELSE LET st1 == IF e.ref \in DOMAIN st.multi THEN [st EXCEPT !.exp = UpdExp(@, e.ref, e.t)] ELSE st
                  r   == MapRef(st, e.ref)
                  ss  == {s \in st1.hs : s.ref = r} IN
              IF ss = {} THEN [st1 EXCEPT !.unk = @ + 1]
              ELSE [st1 EXCEPT !.ex = @ \cup {[lab |-> (CHOOSE x \in ss : TRUE).lab, t |-> e.t, v |-> e.v]}]
    [] e.k = "M" ->
         LET r  == MapRef(st, e.ref)
             ss == {s \in st.hs : s.ref = r} IN
         IF ss = {} THEN [st EXCEPT !.unk = @ + 1]
         ELSE LET s == CHOOSE x \in ss : TRUE IN
              [st EXCEPT !.hs = (@ \ {s}) \cup {[s EXCEPT !.meta = e.v]}]

RECURSIVE RPFold(_, _, _, _)
RPFold(st, es, i, Tm) == IF i > Len(es) THEN st ELSE RPFold(Step(st, es[i], Tm), es, i + 1, Tm)

\* the deferred tail of Head.Init: minTime fix-up, then gc()
Finish(st) ==
  LET ini    == st.lo # INF
      gcMint == st.lo                                   \* = INF on an empty head
      dead   == {s \in st.hs : s.smp = {} \/ SMax(s) < gcMint}
      rest   == st.hs \ dead
      actual == IF rest = {} THEN gcMint ELSE SetMin({SMin(s) : s \in rest})
      dr     == Refs(dead)
  IN [hs |-> rest,
      exp |-> [r \in DOMAIN st.exp \cup dr |-> IF r \in dr THEN actual ELSE st.exp[r]],
      tb |-> {x \in st.tb : x.ref \notin dr /\ x.hi >= gcMint},
      ex |-> st.ex, racy |-> st.racy, lastRef |-> st.lastRef, unk |-> st.unk,
      inited |-> ini, hmin |-> st.lo, hmax |-> st.hi]

Replay(es, Tm) == Finish(RPFold(RP0, es, 1, Tm))

Cov(tb, ref, t) == \E x \in tb : x.ref = ref /\ x.lo <= t /\ t <= x.hi

\* what is observable of a replayed head at or after Tm
Content(fin, Tm, ign) ==
  LET ser(l) == {s \in fin.hs : s.lab = l} IN
  [smp  |-> [l \in Labs |-> UNION {{p \in s.smp : p[1] >= Tm /\ ~Cov(fin.tb, s.ref, p[1])} : s \in ser(l)}],
   del  |-> [l \in Labs |-> UNION {{t \in Tm..(MaxT + 3) : Cov(fin.tb, s.ref, t)} : s \in ser(l)}],
   meta |-> [l \in Labs |-> IF ser(l) = {} THEN 0 ELSE (CHOOSE s \in ser(l) : TRUE).meta],
   ex   |-> fin.ex \ ign]

\* scenario skeletons for the Script constant (cfg: Script <- Name)
NoScript == <<>>
\* churn, restart with a duplicate series record, then checkpoints
ScriptDup == <<{"Scrape"}, {"Scrape"}, {"Truncate", "Evict"}, {"Scrape"}, {"Restart"}, {"Scrape", "Meta", "Truncate"},
               {"Truncate", "Restart"}, {"Truncate", "Restart"}>>
\* side records (exemplar / metadata / tombstone) of a series that is then dropped or duplicated
ScriptSide == <<{"Scrape"}, {"Exemplar", "Meta", "Delete"}, {"Scrape", "Meta", "Exemplar"}, {"Scrape", "Evict", "Truncate"},
                {"Truncate", "Restart"}, {"Scrape", "Restart"}, {"Truncate"}>>
\* two refs of one label set, both with metadata, in one checkpoint: the latest must win (was KF-C15-3)
ScriptMeta == <<{"Scrape"}, {"Meta"}, {"Scrape"}, {"Truncate"}, {"Scrape"}, {"Meta"}, {"Meta"}, {"Restart"}, {"Truncate", "Meta"}, {"Truncate"}>>
\* the highest ref expires, restart, a new series: must get a fresh ref (was KF-C15-4)
ScriptReuse == <<{"Scrape"}, {"Scrape"}, {"Scrape", "Meta"}, {"Meta", "Scrape", "Exemplar"}, {"Truncate"},
                 {"Restart"}, {"Scrape"}>>

Allowed == IF nops < Len(Script) THEN Script[nops + 1] ELSE Acts

Log == (IF cp.idx >= 0 THEN Flat(cp.recs) ELSE <<>>) \o Flat(Flat(segs))

-----------------------------------------------------------------------------
Init == /\ segs = <<<<>>>> /\ first = 0 /\ cp = [idx |-> -1, recs |-> <<>>] /\ full = <<>>
        /\ hs = {} /\ exp = <<>> /\ lastRef = 0 /\ hmin = INF /\ hmax = NEG /\ minValid = NEG
        /\ lastTr = NEG /\ inited = FALSE /\ exNew = [l \in Labs |-> 0] /\ now = 1 /\ T = 0
        /\ reused = FALSE /\ reusedLive = FALSE /\ nops = 0 /\ hist = <<>>
        /\ TLCSet(1, {})

\* WL.Log(recs...) into the active segment (+ ghost copy)
Logged(sg, recs) == [sg EXCEPT ![Len(sg)] = @ \o recs]

RECURSIVE SeqOfSet(_)
SeqOfSet(S) == IF S = {} THEN <<>> ELSE LET x == SetMin(S) IN <<x>> \o SeqOfSet(S \ {x})
LabSeq == CHOOSE q \in [1..Cardinality(Labs) -> Labs] : \A i, j \in DOMAIN q : i # j => q[i] # q[j]

\* One appender: a sample at `now` for every label set in S; new series get the next refs in
\* label order (Append order); Commit logs the series record, then the samples record.
Scrape(S, cut) ==
  /\ "Scrape" \in Allowed /\ now <= MaxT /\ now >= minValid
  /\ LET order == SelectSeq(LabSeq, LAMBDA l : l \in S)
         isNew(l) == ~\E s \in hs : s.lab = l
         newLabs == SelectSeq(order, isNew)
         refOf(l) == IF isNew(l) THEN lastRef + (CHOOSE i \in 1..Len(newLabs) : newLabs[i] = l)
                     ELSE (CHOOSE s \in hs : s.lab = l).ref
         val(l) == (nops + 1) * 10 + (CHOOSE i \in 1..Len(order) : order[i] = l)
         srec == [i \in 1..Len(newLabs) |-> E("S", refOf(newLabs[i]), newLabs[i], 0, 0, 0)]
         drec == [i \in 1..Len(order) |-> E("D", refOf(order[i]), "", now, 0, val(order[i]))]
         recs == (IF Len(newLabs) > 0 THEN <<srec>> ELSE <<>>) \o <<drec>>
         sg == IF cut THEN Append(segs, <<>>) ELSE segs
     IN /\ segs' = Logged(sg, recs)
        /\ full' = full \o Flat(recs)
        /\ hs' = {[s EXCEPT !.smp = IF s.lab \in S THEN @ \cup {<<now, val(s.lab)>>} ELSE @] : s \in hs}
                 \cup {[ref |-> refOf(l), lab |-> l, smp |-> {<<now, val(l)>>}, meta |-> 0] : l \in {x \in S : isNew(x)}}
        /\ lastRef' = lastRef + Len(newLabs)
        /\ reused' = \E i \in 1..Len(newLabs), j \in 1..Len(full) : full[j].ref = lastRef + i
        /\ reusedLive' = \E i \in 1..Len(newLabs), j \in 1..Len(Log) : Log[j].ref = lastRef + i
        /\ hist' = Append(hist, [a |-> "Scrape", labs |-> order, cut |-> cut, t |-> now,
                                 refs |-> [i \in 1..Len(order) |-> refOf(order[i])],
                                 vals |-> [i \in 1..Len(order) |-> val(order[i])]])
  /\ hmin' = Min2(hmin, now) /\ hmax' = Max2(hmax, now) /\ inited' = TRUE /\ now' = now + 1
  /\ UNCHANGED <<first, cp, exp, minValid, lastTr, exNew, T>>

Exemplar(l, dt) ==
  /\ "Exemplar" \in Allowed
  /\ \E s \in hs : /\ s.lab = l
                   /\ LET t == now - 1 + dt
                          v == (nops + 1) * 10
                          rec == <<E("X", s.ref, "", t, 0, v)>> IN
                      /\ t > exNew[l] /\ t >= 1
                      /\ segs' = Logged(segs, <<rec>>) /\ full' = full \o rec
                      /\ exNew' = [exNew EXCEPT ![l] = t]
                      /\ hist' = Append(hist, [a |-> "Exemplar", lab |-> l, ref |-> s.ref, t |-> t, v |-> v])
  /\ UNCHANGED <<first, cp, hs, exp, lastRef, hmin, hmax, minValid, lastTr, inited, now, T, reused, reusedLive>>

Meta(l) ==
  /\ "Meta" \in Allowed
  /\ \E s \in hs : /\ s.lab = l /\ s.meta < 2
                   /\ LET rec == <<E("M", s.ref, "", 0, 0, s.meta + 1)>> IN
                      /\ segs' = Logged(segs, <<rec>>) /\ full' = full \o rec
                      /\ hs' = (hs \ {s}) \cup {[s EXCEPT !.meta = @ + 1]}
                      /\ hist' = Append(hist, [a |-> "Meta", lab |-> l, ref |-> s.ref, v |-> s.meta + 1])
  /\ UNCHANGED <<first, cp, exp, lastRef, hmin, hmax, minValid, lastTr, inited, exNew, now, T, reused, reusedLive>>

\* Head.Delete(lo, +inf, lab): clamped to the head's, then to the series' time range
Delete(l, lo) ==
  /\ "Delete" \in Allowed /\ inited
  /\ \E s \in hs : /\ s.lab = l
                   /\ LET lo2 == Max2(Max2(lo, hmin), SMin(s))
                          hi2 == Min2(hmax, SMax(s))
                          rec == <<E("T", s.ref, "", lo2, hi2, 0)>> IN
                      /\ lo2 <= hi2
                      /\ segs' = Logged(segs, <<rec>>) /\ full' = full \o rec
                      /\ hist' = Append(hist, [a |-> "Delete", lab |-> l, ref |-> s.ref, lo |-> lo, lo2 |-> lo2, hi2 |-> hi2])
  /\ UNCHANGED <<first, cp, hs, exp, lastRef, hmin, hmax, minValid, lastTr, inited, exNew, now, T, reused, reusedLive>>

\* Head.truncateSelectedSeries([ref], maxt = the series' last sample time): the samples were
\* persisted elsewhere (stale-series / selected-series block); gcSeries then a full-range stone.
Evict(l) ==
  /\ "Evict" \in Allowed /\ inited
  /\ \E s \in hs : /\ s.lab = l /\ hmin <= SMax(s)
                   /\ LET rec == <<E("T", s.ref, "", NEG, INF, 0)>> IN
                      /\ segs' = Logged(segs, <<rec>>) /\ full' = full \o rec
                      /\ hs' = hs \ {s}
                      /\ exp' = SetF(exp, s.ref, SMax(s))
                      /\ hist' = Append(hist, [a |-> "Evict", lab |-> l, ref |-> s.ref, maxt |-> SMax(s)])
  /\ UNCHANGED <<first, cp, lastRef, hmin, hmax, minValid, lastTr, inited, exNew, now, T, reused, reusedLive>>

\* wlog.Checkpoint: filter of one record (a sequence of entries of one kind)
FilterRec(rec, keep(_), m) ==
  LET k == rec[1].k IN
  CASE k = "S" -> SelectSeq(rec, LAMBDA e : keep(e.ref))
    [] k = "D" -> SelectSeq(rec, LAMBDA e : e.t >= m)
    [] k = "X" -> SelectSeq(rec, LAMBDA e : e.t >= m /\ keep(e.ref))     \* dropped with its series record
    [] k = "T" -> SelectSeq(rec, LAMBDA e : keep(e.ref) /\ e.t2 >= m)
    [] k = "M" -> <<>>
RECURSIVE FilterRecs(_, _, _)
FilterRecs(recs, keep(_), m) ==
  IF recs = <<>> THEN <<>>
  ELSE LET r == FilterRec(Head(recs), keep, m) IN
       (IF r = <<>> THEN <<>> ELSE <<r>>) \o FilterRecs(Tail(recs), keep, m)
\* latestMetadataMap: last metadata entry per kept ref, written in the order in which these last entries
\* occur in the input ("stream"); "reverse" is the opposite order (what Go map iteration could produce
\* before the repair of KF-C15-3; not explored by the cfgs any more)
LatestMeta(es, keep(_)) ==
  LET ms == SelectSeq(es, LAMBDA e : e.k = "M" /\ keep(e.ref))
      lastIdx == {i \in 1..Len(ms) : ~\E j \in (i + 1)..Len(ms) : ms[j].ref = ms[i].ref} IN
  SelectSeq([i \in 1..Len(ms) |-> [e |-> ms[i], last |-> i \in lastIdx]], LAMBDA x : x.last)
MetaRec(q, ord) ==
  LET n == Len(q) IN [i \in 1..n |-> IF ord = "stream" THEN q[i].e ELSE q[n + 1 - i].e]

Truncate(m, ord, k) ==
  /\ "Truncate" \in Allowed /\ m > T /\ m <= now
  /\ T' = m
  /\ IF ~inited
       THEN \* truncateMemory on an uninitialised head only moves the time bounds; no WAL work
            /\ hmin' = m /\ minValid' = m /\ hmax' = Max2(hmax, m) /\ inited' = TRUE
            /\ hist' = Append(hist, [a |-> "Truncate", m |-> m, ckpt |-> FALSE, ord |-> ord, k |-> 0, first |-> first,
                                     last |-> first + Len(segs) - 1])
            /\ ord = "stream" /\ k = 0
            /\ UNCHANGED <<segs, first, cp, full, hs, exp, lastRef, lastTr, exNew, now, reused, reusedLive>>
       ELSE
         LET memSkip == hmin >= m                      \* truncateMemory returns early
             dead  == IF memSkip THEN {} ELSE {s \in hs : SMax(s) < m}
             rest  == hs \ dead
             actual == IF rest = {} THEN m ELSE SetMin({SMin(s) : s \in rest})
             exp1  == [r \in DOMAIN exp \cup Refs(dead) |-> IF r \in Refs(dead) THEN actual ELSE exp[r]]
             walSkip == m <= lastTr
             segs0 == segs \o [i \in 1..k |-> <<>>]    \* k x WL.NextSegment before the truncation
             L     == first + Len(segs0) - 1           \* wlog.Segments: last = the active segment
             segs1 == Append(segs0, <<>>)              \* NextSegment
             last0 == L - 1
             last1 == first + ((last0 - first) * 2) \div 3
             ckpt  == ~walSkip /\ last0 >= 0 /\ last1 > first
             keep(id) == id \in Refs(rest) \/ (id \in DOMAIN exp1 /\ exp1[id] >= m)
             inRecs == (IF cp.idx >= 0 THEN cp.recs ELSE <<>>)
                       \o Flat([i \in 1..(last1 - first + 1) |-> segs1[i]])
             metas == LatestMeta(Flat(inRecs), keep)
             outRecs == FilterRecs(inRecs, keep, m)
                        \o (IF metas = <<>> THEN <<>> ELSE <<MetaRec(metas, ord)>>)
         IN /\ hs' = rest
            /\ IF memSkip THEN UNCHANGED <<hmin, minValid, hmax>>
               ELSE hmin' = m /\ minValid' = m /\ hmax' = Max2(hmax, m)
            /\ lastTr' = IF walSkip THEN lastTr ELSE m
            /\ IF walSkip THEN segs' = segs0 /\ UNCHANGED <<first, cp>> /\ exp' = exp1
               ELSE IF ~ckpt THEN segs' = segs1 /\ UNCHANGED <<first, cp>> /\ exp' = exp1
               ELSE /\ cp' = [idx |-> last1, recs |-> outRecs]
                    /\ segs' = SubSeq(segs1, last1 - first + 2, Len(segs1))
                    /\ first' = last1 + 1
                    /\ exp' = [r \in {x \in DOMAIN exp1 : exp1[x] >= m} |-> exp1[r]]
            /\ (ord # "stream") => (ckpt /\ Len(metas) > 1)          \* the order only matters then
            /\ hist' = Append(hist, [a |-> "Truncate", m |-> m, ckpt |-> ckpt, ord |-> ord, k |-> k,
                                     first |-> IF ckpt THEN last1 + 1 ELSE first,
                                     last |-> IF walSkip THEN L ELSE L + 1])
            /\ UNCHANGED <<full, lastRef, inited, exNew, now, reused, reusedLive>>

\* Head.Close ; wlog.NewSize (always starts a new segment) ; NewHead ; Init(T)
Restart ==
  /\ "Restart" \in Allowed
  /\ LET fin == Replay(Log, T) IN
     /\ hs' = fin.hs /\ exp' = fin.exp /\ lastRef' = fin.lastRef
     /\ inited' = fin.inited /\ hmin' = fin.hmin /\ hmax' = fin.hmax
     /\ exNew' = [l \in Labs |-> LET ts == {x.t : x \in {y \in fin.ex \cup fin.racy : y.lab = l}} IN IF ts = {} THEN 0 ELSE SetMax(ts)]
     /\ hist' = Append(hist, [a |-> "Restart", T |-> T, unk |-> fin.unk, nseries |-> Cardinality(fin.hs),
                              lastRef |-> fin.lastRef])
  /\ segs' = Append(segs, <<>>)
  /\ minValid' = T /\ lastTr' = NEG
  /\ UNCHANGED <<first, cp, full, now, T, reused, reusedLive>>

End == (nops = MaxOps \/ reused) /\ nops <= MaxOps /\ nops' = MaxOps + 1 /\ UNCHANGED <<segs, first, cp, full, hs, exp, lastRef, hmin, hmax, minValid, lastTr, inited, exNew, now, T, reused, reusedLive, hist>>

Step1 == \/ \E S \in (SUBSET Labs) \ {{}}, c \in Cuts : Scrape(S, c)
         \/ \E l \in Labs, dt \in ExDts : Exemplar(l, dt)
         \/ \E l \in Labs : Meta(l)
         \/ \E l \in Labs, lo \in {0, now - 1} : Delete(l, lo)
         \/ \E l \in Labs : Evict(l)
         \/ \E m \in (T + 1)..now, ord \in MetaOrds, k \in PreCuts : Truncate(m, ord, k)
         \/ Restart

Next == \/ nops < MaxOps /\ ~reused /\ Step1 /\ nops' = nops + 1      \* nothing is explored beyond a ref reuse
        \/ End

Spec == Init /\ [][Next]_vars

-----------------------------------------------------------------------------
(* The property.                                                            *)

\* what the two replays reconstruct at or after T
Racy == Replay(Log, T).racy \cup Replay(full, T).racy
CTrunc == Content(Replay(Log, T), T, Racy)
CWhole == Content(Replay(full, T), T, Racy)

\* literal statement, first sentence
ReplayEquiv == CTrunc = CWhole
\* literal statement, second sentence
RefClosed == RefClosedSeq(Log)

\* KF-C15-1: series records expire by *time* (walExpiries: keepUntil >= mint) while the segments
\* above the checkpointed two thirds are not filtered, so entries older than the truncation time,
\* full-range stones and metadata of a dropped series stay behind without their series record
\* (and an orphaned metadata entry is not re-attached to a later series with the same labels,
\* as the replay of the untruncated log would do).
KF_C15_1(L) == \A i \in Orphans(L) : ~Live(L[i], T) \/ L[i].k = "X"
\* metadata value v of label set l stems from an entry that is gone from L or orphaned in L
KF_C15_1m(L, F, l, v) ==
  \E i \in 1..Len(F) : /\ F[i].k = "M" /\ F[i].v = v
                        /\ \E j \in 1..(i - 1) : F[j].k = "S" /\ F[j].ref = F[i].ref /\ F[j].lab = l
                        /\ \A n \in 1..Len(L) : L[n] = F[i] => n \in Orphans(L)
\* KF-C15-2 (open; the checkpoint half is repaired: an exemplar is now dropped together with its series
\* record instead of being left orphaned in the checkpoint): gc()'s keepUntil ignores exemplar timestamps,
\* so an exemplar newer than the truncation time whose series was garbage-collected loses its series record
\* -- it is dropped by the checkpoint or orphaned in a segment above it -- and is lost by the replay.
KF_C15_2(a, b, L) ==
  /\ a.ex \subseteq b.ex
  /\ \A x \in b.ex \ a.ex : (\E i \in Orphans(L) : (L[i].k = "X" /\ L[i].t = x.t /\ L[i].v = x.v))
                             \/ (~\E i \in 1..Len(L) : (L[i].k = "X" /\ L[i].t = x.t /\ L[i].v = x.v))
\* (KF-C15-3, metadata written in Go map order, is repaired: MetaRec "stream".  KF-C15-4, a ref still
\* mentioned in the log re-issued after a restart, is repaired: Step raises lastRef from every entry; the ghost
\* `reused` must now stay FALSE -- NoRefReuse is an invariant of the cfgs.)

\* which known findings explain the difference between the two replays (empty: none needed)
\* an orphaned full-range stone no longer evicts the series, which lives on (with its metadata) under a
\* duplicate series record that is still in L
KF_C15_1t(L) == \E i \in Orphans(L) : FullRange(L[i])
MetaDropped(a, b, L, F) == \A l \in Labs : a.meta[l] # b.meta[l] => (KF_C15_1m(L, F, l, b.meta[l]) \/ KF_C15_1t(L))
Explain(a, b, L, F, ru) ==
  (IF ru THEN {"REF-REUSED"} ELSE {}) \cup
  (IF a.ex # b.ex /\ KF_C15_2(a, b, L) THEN {"KF-C15-2"} ELSE {})
  \cup (IF a.meta # b.meta /\ MetaDropped(a, b, L, F) THEN {"KF-C15-1"} ELSE {})
Explained(a, b, L, F) ==
  /\ a.smp = b.smp /\ a.del = b.del                      \* never excused
  /\ a.ex # b.ex => KF_C15_2(a, b, L)
  /\ a.meta # b.meta => MetaDropped(a, b, L, F)

\* the checkpoint's metadata record holds entries of two refs of one label set: their order decides which
\* metadata the series has after the replay (the harness repeats such histories: Go map order was random)
MetaDup(cpEs, L) == \E i, j \in 1..Len(cpEs) :
                      /\ cpEs[i].k = "M" /\ cpEs[j].k = "M" /\ cpEs[i].ref # cpEs[j].ref /\ cpEs[i].v # cpEs[j].v
                      /\ \E x, y \in 1..Len(L) : /\ L[x].k = "S" /\ L[y].k = "S" /\ L[x].lab = L[y].lab
                                                  /\ L[x].ref = cpEs[i].ref /\ L[y].ref = cpEs[j].ref

RefClosedOrKF == RefClosed \/ KF_C15_1(Log)
ReplayEquivOrKF == reused \/ ReplayEquiv \/ Explained(CTrunc, CWhole, Log, full)
\* a ref that still occurs in the (untruncated) log is never issued again
NoRefReuse == ~reusedLive

\* checked without exception: no entry that still matters is ever orphaned ...
NoLiveOrphan == \A i \in Orphans(Log) : ~Live(Log[i], T) \/ Log[i].k = "X"
\* ... and samples / tombstones at or after T are reconstructed exactly
SamplesSurvive == reused \/ (CTrunc.smp = CWhole.smp /\ CTrunc.del = CWhole.del)

\* the same formulas with the two replays evaluated once (used by the quick cfgs)
C15All ==
  LET L == Log  rt == Replay(L, T)  rf == Replay(full, T)  ign == rt.racy \cup rf.racy
      a == Content(rt, T, ign)  b == Content(rf, T, ign) IN
  /\ \A i \in Orphans(L) : ~Live(L[i], T) \/ L[i].k = "X"      \* NoLiveOrphan (= RefClosedOrKF)
  /\ (reused \/ a = b \/ Explained(a, b, L, full))             \* ReplayEquivOrKF, SamplesSurvive
  /\ ~reusedLive                                               \* NoRefReuse

TypeOK == /\ first >= 0 /\ Len(segs) >= 1 /\ cp.idx < first
          /\ \A s \in hs : s.smp # {}
          /\ \A s1, s2 \in hs : s1.lab = s2.lab => s1 = s2
          /\ lastRef >= 0 /\ \A s \in hs : s.ref <= lastRef

-----------------------------------------------------------------------------
(* Emission.                                                                *)

SegEntries == [i \in 1..Len(segs') |-> [seg |-> first' + i - 1, es |-> Flat(segs'[i])]]
Final == LET rt == Replay(Log', T')  rf == Replay(full', T')  ign == rt.racy \cup rf.racy
             a == Content(rt, T', ign)  b == Content(rf, T', ign) IN
         [T |-> T', tmax |-> MaxT + 3, want |-> b, got |-> a, racy |-> ign, unk |-> rt.unk,
          mdup |-> MetaDup(Flat(cp'.recs), Log'),
          kf |-> Explain(a, b, Log', full', reused'),
          cp |-> [idx |-> cp'.idx, es |-> Flat(cp'.recs)], segs |-> SegEntries,
          orph |-> [i \in 1..Cardinality(Orphans(Log')) |-> Log'[SeqOfSet(Orphans(Log'))[i]]]]
LogP == (IF cp'.idx >= 0 THEN Flat(cp'.recs) ELSE <<>>) \o Flat(Flat(segs'))

Class ==
  LET st == hist'[Len(hist')]
      orph == {OrphanClass(LogP[i], T') : i \in Orphans(LogP)}
      dup == \E i, j \in 1..Len(LogP) : i # j /\ LogP[i].k = "S" /\ LogP[j].k = "S" /\ LogP[i].lab = LogP[j].lab
      cpE == Flat(cp'.recs)
      \* series entries of the checkpoint kept by expiry only, entries exactly at the truncation time,
      \* live samples that depend on a ref which is not in the head, duplicate series inside the checkpoint
      kexp == Cardinality({cpE[i].ref : i \in {j \in 1..Len(cpE) : cpE[j].k = "S" /\ cpE[j].ref \notin Refs(hs')}})
      edge == {cpE[i].k : i \in {j \in 1..Len(cpE) : (cpE[j].k \in {"D", "X"} /\ cpE[j].t = T') \/ (cpE[j].k = "T" /\ cpE[j].t2 = T')}}
      dep  == {LogP[i].k : i \in {j \in 1..Len(LogP) : LogP[j].k # "S" /\ LogP[j].ref \notin Refs(hs') /\ Live(LogP[j], T')}}
      kinds == {cpE[i].k : i \in 1..Len(cpE)}
      nmeta == Cardinality({i \in 1..Len(full) : full[i].k = "M"})
      \* live exemplars that this step removed from the log (dropped together with their series record)
      xlost == \E i \in 1..Len(Log) : Log[i].k = "X" /\ Log[i].t >= T' /\ ~\E j \in 1..Len(LogP) : LogP[j] = Log[i]
      \* several refs in the checkpoint's metadata record (their order matters to the replay)
      mrefs == Cardinality({cpE[i].ref : i \in {j \in 1..Len(cpE) : cpE[j].k = "M"}})
  IN IF st.a = "Truncate" THEN <<"Truncate", st.ckpt, st.ord, orph, dup, DOMAIN exp' # {}, Cardinality(hs'),
                                 kexp, edge, dep, kinds, nmeta, xlost, mrefs, MetaDup(cpE, LogP), hs' = hs>>
     ELSE IF st.a = "Restart" THEN <<"Restart", st.unk > 0, orph, dup, DOMAIN exp' # {}, Cardinality(hs'), cp.idx >= 0, dep, kinds>>
     ELSE IF st.a = "Scrape" THEN <<"Scrape", Len(st.labs), st.cut, dup, orph, cp.idx >= 0, lastRef' - lastRef, reused'>>
     ELSE <<st.a, orph, dup, cp.idx >= 0>>

Out == PrintT("@@TR " \o ToJson([hist |-> hist', fin |-> Final, cl |-> ToString(Class)]))

Emit ==
  CASE EmitMode = "none" -> TRUE
    [] hist' = hist -> TRUE
    [] EmitMode = "all" -> Out
    [] OTHER -> LET cl == Class IN cl \in TLCGet(1) \/ (TLCSet(1, TLCGet(1) \cup {cl}) /\ Out)

\* simulation: print each walk once, at its End step
EmitWalk == nops <= MaxOps \/
            PrintT("@@TR " \o ToJson([hist |-> hist,
                     fin |-> [T |-> T, tmax |-> MaxT + 3, want |-> CWhole, got |-> CTrunc, racy |-> Racy, mdup |-> MetaDup(Flat(cp.recs), Log), unk |-> Replay(Log, T).unk, kf |-> Explain(CTrunc, CWhole, Log, full, reused),
                              cp |-> [idx |-> cp.idx, es |-> Flat(cp.recs)],
                              segs |-> [i \in 1..Len(segs) |-> [seg |-> first + i - 1, es |-> Flat(segs[i])]],
                              orph |-> [i \in 1..Cardinality(Orphans(Log)) |-> Log[SeqOfSet(Orphans(Log))[i]]]]]))
=============================================================================
