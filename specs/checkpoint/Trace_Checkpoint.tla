--------------------------- MODULE Trace_Checkpoint ---------------------------
(***************************************************************************)
(* Trace validation for C15: every line of trace.ndjson is the sequence of *)
(* entries the harness decoded from a real WAL directory (checkpoint, then *)
(* segments, in replay order) after a generated history, with the          *)
(* truncation time T of that history.  TLC evaluates RefClosed on each and *)
(* reports every orphan with its class as an "@@RC" line; the driver turns *)
(* them into verdicts (known finding or violation).                        *)
(***************************************************************************)
EXTENDS RefClosed, TLC, Json

Tr == ndJsonDeserialize("trace.ndjson")

VARIABLE i
Init == i = 0
Report(r) == LET o == Orphans(r.es) IN
             \/ o = {}
             \/ PrintT("@@RC " \o ToJson([id |-> r.id, T |-> r.T,
                        classes |-> {OrphanClass(r.es[j], r.T) : j \in o}
                                    \cup (IF \E j \in o, n \in 1..Len(r.es) : n > j /\ r.es[n].k = "S" /\ r.es[n].ref = r.es[j].ref
                                          THEN {"reused"} ELSE {}),   \* the orphan's ref was issued again (KF-C15-4)
                        first |-> r.es[CHOOSE j \in o : \A k \in o : j <= k]]))
Next == i < Len(Tr) /\ i' = i + 1 /\ Report(Tr[i + 1])
Spec == Init /\ [][Next]_i
=============================================================================
