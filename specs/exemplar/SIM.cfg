SPECIFICATION Spec
CONSTANTS
  Series = {"s1", "s2", "s3"}
  MaxTs = 5
  Vals = {1, 2, 3}
  HasTs = {TRUE, FALSE}
  Caps = {0, 1, 2, 3, 5}
  Sizes = {0, 1, 2, 3, 4, 6}
  Windows = {0, 1, 2, 4}
  EmitMode = "none"
INVARIANTS TypeOK Bounded Sorted EmitWalk
CHECK_DEADLOCK FALSE
