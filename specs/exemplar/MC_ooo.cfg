SPECIFICATION Spec
CONSTANTS
  Series = {"s1"}
  MaxTs = 5
  Vals = {1}
  HasTs = {TRUE}
  Caps = {3, 4}
  Sizes = {2}
  Windows = {5}
  MaxOps = 6
  EmitMode = "all"
VIEW View
INVARIANTS TypeOK Bounded Sorted
PROPERTIES EvictOldestFirst RejectedNotStored
ACTION_CONSTRAINT Emit
CHECK_DEADLOCK FALSE
