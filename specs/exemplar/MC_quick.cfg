SPECIFICATION Spec
CONSTANTS
  Series = {"s1", "s2"}
  MaxTs = 3
  Vals = {1, 2}
  HasTs = {TRUE}
  Caps = {0, 1, 3}
  Sizes = {0, 1, 2}
  Windows = {0, 2}
  MaxOps = 5
  EmitMode = "class"
VIEW View
INVARIANTS TypeOK Bounded Sorted EmitState
PROPERTIES EvictOldestFirst RejectedNotStored
ACTION_CONSTRAINT Emit
CHECK_DEADLOCK FALSE
