SPECIFICATION Spec
CONSTANTS
  Series = {"s1", "s2"}
  MaxTs = 3
  Vals = {1, 2}
  HasTs = {TRUE, FALSE}
  Caps = {0, 1, 2, 3}
  Sizes = {0, 1, 2, 3}
  Windows = {0, 1, 2}
  MaxOps = 6
  EmitMode = "none"
VIEW View
INVARIANTS TypeOK Bounded Sorted
PROPERTIES EvictOldestFirst RejectedNotStored
CHECK_DEADLOCK FALSE
