-------------------------------- MODULE Ring --------------------------------
(***************************************************************************)
(* Reference model of tsdb.CircularExemplarStorage (tsdb/exemplar.go).     *)
(*                                                                         *)
(* Abstract state: the sequence of *accepted and still retained* exemplars *)
(* in acceptance order (`ring`), the capacity and the out-of-order window. *)
(* The per-series doubly linked lists, nextIndex arithmetic, grow/shrink   *)
(* copying of the code are deliberately absent: the property (C21) says    *)
(* what must be retained and returned, and this module is that reference.  *)
(*                                                                         *)
(* Actions = public calls (the linearisation point of a sequential         *)
(* library is the return of the call, all under ce.lock):                  *)
(*   Add(e)      AddExemplar, preceded by ValidateExemplar on the same      *)
(*               pre-state (both results are predicted)                    *)
(*   Resize(n)   Resize                                                    *)
(*   SetWin(w)   SetOutOfOrderTimeWindow                                   *)
(* Select / IterateExemplars are observations predicted after every step.  *)
(***************************************************************************)
EXTENDS Integers, Sequences, FiniteSets, TLC, Json

CONSTANTS Series,      \* set of strings, e.g. {"s1","s2"}
          MaxTs,       \* timestamps 1..MaxTs
          Vals,        \* set of integer values
          Caps,        \* initial capacities
          Sizes,       \* arguments of Resize
          Windows,     \* out-of-order windows (0 = disabled)
          HasTs,       \* subset of BOOLEAN: values of Exemplar.HasTs explored
          MaxOps,      \* history length bound
          EmitMode     \* "class" | "all" | "none"

VARIABLES ring, cap, win, nops, hist

vars == <<ring, cap, win, nops, hist>>
View == <<ring, cap, win>>

Labs == {"la", "lb", "long"}            \* "la" hashes below "lb"; "long" exceeds the label length limit
Rank(l) == IF l = "la" THEN 1 ELSE 2
Ex == [s : Series, ts : 1..MaxTs, v : Vals, l : Labs, h : HasTs]

RECURSIVE ByTs(_, _, _)
ByTs(r, s, t) == IF t > MaxTs THEN <<>>
                 ELSE SelectSeq(r, LAMBDA e : e.s = s /\ e.ts = t) \o ByTs(r, s, t + 1)
\* the per-series view: retained exemplars of s, by timestamp, ties in acceptance order
ListOf(r, s) == ByTs(r, s, 1)

Last(q) == q[Len(q)]
Range(q) == {q[i] : i \in 1..Len(q)}

EqualsEx(a, b) == a.l = b.l /\ ((a.h \/ b.h) => a.ts = b.ts) /\ a.v = b.v

\* validateExemplar: order of the tests as documented in the code comments
Validate(r, c, w, e) ==
  IF c = 0 THEN "disabled"
  ELSE IF e.l = "long" THEN "labellen"
  ELSE LET L == ListOf(r, e.s) IN
       IF L = <<>> THEN "ok"
       ELSE LET n == Last(L) IN
            IF EqualsEx(n, e) THEN "dup"
            ELSE IF \/ (e.ts < n.ts /\ e.ts <= n.ts - w)
                    \/ (e.ts = n.ts /\ e.v < n.v)
                    \/ (e.ts = n.ts /\ e.v = n.v /\ Rank(e.l) < Rank(n.l))
                 THEN "ooo" ELSE "ok"

\* an accepted out-of-order exemplar lying inside [oldest, newest) whose timestamp is
\* already present in the series is assumed to be a duplicate and silently dropped
OOOInside(r, e) == LET L == ListOf(r, e.s) IN
                   L # <<>> /\ e.ts >= L[1].ts /\ e.ts < Last(L).ts
SilentDup(r, e) == OOOInside(r, e) /\ \E x \in Range(ListOf(r, e.s)) : x.ts = e.ts

Push(r, c, e) == IF Len(r) >= c THEN SubSeq(r, Len(r) - c + 2, Len(r)) \o <<e>> ELSE Append(r, e)
KeepLast(r, n) == IF Len(r) <= n THEN r ELSE SubSeq(r, Len(r) - n + 1, Len(r))

Lists(r) == [s \in Series |-> ListOf(r, s)]

Init == /\ ring = <<>>
        /\ cap \in Caps
        /\ win \in Windows
        /\ nops = 0
        /\ hist = <<[a |-> "Init", cap |-> cap, win |-> win]>>
        /\ TLCSet(1, {})

Add(e) ==
  LET v   == Validate(ring, cap, win, e)
      ret == IF v \in {"ok", "dup"} THEN "ok" ELSE v
      r2  == IF v = "ok" /\ ~SilentDup(ring, e) THEN Push(ring, cap, e) ELSE ring
  IN /\ ring' = r2
     /\ UNCHANGED <<cap, win>>
     /\ nops' = nops + 1
     /\ hist' = Append(hist, [a |-> "Add", e |-> e, val |-> v, ret |-> ret,
                              ring |-> r2, lists |-> Lists(r2)])

Resize(n) ==
  LET r2 == KeepLast(ring, n) IN
  /\ ring' = r2
  /\ cap' = n
  /\ UNCHANGED win
  /\ nops' = nops + 1
  /\ hist' = Append(hist, [a |-> "Resize", n |-> n, migrated |-> IF n = cap THEN 0 ELSE Len(r2),
                           ring |-> r2, lists |-> Lists(r2)])

SetWin(w) ==
  /\ w # win
  /\ win' = w
  /\ UNCHANGED <<ring, cap>>
  /\ nops' = nops + 1
  /\ hist' = Append(hist, [a |-> "SetWin", w |-> w, ring |-> ring, lists |-> Lists(ring)])

\* End is a bookkeeping step (single successor) so that a simulated walk can be printed exactly once
End == nops = MaxOps /\ nops' = MaxOps + 1 /\ UNCHANGED <<ring, cap, win, hist>>

Next == \/ /\ nops < MaxOps
           /\ \/ \E e \in Ex : Add(e)
              \/ \E n \in Sizes : Resize(n)
              \/ \E w \in Windows : SetWin(w)
        \/ End

Spec == Init /\ [][Next]_vars

-----------------------------------------------------------------------------
(* Properties of the reference itself (C21 as stated).                      *)

TypeOK == /\ cap \in Nat /\ win \in Nat
          /\ \A i \in 1..Len(ring) : ring[i] \in Ex /\ ring[i].l # "long"

\* never more than the capacity is retained
Bounded == Len(ring) <= cap

\* a query returns each series' retained exemplars in non-decreasing timestamp order,
\* and the lists partition the ring
Sorted == \A s \in Series : LET L == ListOf(ring, s) IN
            /\ \A i \in 1..(Len(L) - 1) : L[i].ts <= L[i + 1].ts
            /\ Range(L) = {e \in Range(ring) : e.s = s}

\* eviction is in acceptance order: the new ring is a suffix of (old ring [+ accepted exemplar])
IsSuffix(a, b) == Len(a) <= Len(b) /\ a = SubSeq(b, Len(b) - Len(a) + 1, Len(b))
EvictOldestFirst == [][ \/ IsSuffix(ring', ring)
                        \/ \E e \in Ex : IsSuffix(ring', Append(ring, e)) /\ Last(ring') = e ]_vars

\* a rejected exemplar is never stored
RejectedNotStored == [][ (hist' # hist /\ hist'[Len(hist')].a = "Add" /\ hist'[Len(hist')].ret # "ok") => ring' = ring ]_vars

-----------------------------------------------------------------------------
(* Behaviour emission for the replay harness (see lib/vlib.py).             *)

Pos(r, e) == LET L == ListOf(r, e.s) IN
             IF L = <<>> THEN "first"
             ELSE IF e.ts >= Last(L).ts THEN "tip"
             ELSE IF e.ts < L[1].ts THEN "tail" ELSE "mid"

Class(h, r, c, w) ==
  LET st == h[Len(h)] IN
  IF st.a = "Add" THEN
     LET e == st.e IN
     <<"Add", st.val, c, Len(r) >= c, SilentDup(r, e), Pos(r, e),
       IF Len(r) > 0 /\ Len(r) >= c THEN Pos(Tail(r), e) ELSE "same",
       IF Len(r) > 0 /\ Len(r) >= c THEN (IF r[1].s = e.s THEN "evictSame" ELSE "evictOther") ELSE "noEvict",
       Cardinality({x.s : x \in Range(r)}), e.h, w,
       \* is the list predecessor of e (its insertion anchor) the exemplar being evicted?
       LET L == ListOf(r, e.s)
           P == {i \in 1..Len(L) : L[i].ts <= e.ts} IN
       IF P = {} \/ Len(r) < c \/ r = <<>> THEN "na"
       ELSE IF L[CHOOSE i \in P : \A j \in P : j <= i] = r[1] THEN "anchorEvicted" ELSE "anchorKept">>
  ELSE IF st.a = "Resize" THEN
     <<"Resize", IF st.n > c THEN "grow" ELSE IF st.n < c THEN "shrink" ELSE "same",
       st.n, c, Len(r)>>
  ELSE <<"SetWin", st.w, Len(r)>>

Emit ==
  CASE EmitMode = "none" -> TRUE
    [] EmitMode = "all"  -> PrintT("@@TR " \o ToJson(hist'))
    [] hist' = hist -> TRUE
    [] OTHER -> LET cl == Class(hist', ring, cap, win) IN
                \/ cl \in TLCGet(1)
                \/ /\ TLCSet(1, TLCGet(1) \cup {cl})
                   /\ PrintT("@@TR " \o ToJson(hist'))

\* one witness behaviour per distinct abstract state (evaluated once per state under VIEW)
EmitState == EmitMode # "class" \/ PrintT("@@TR " \o ToJson(hist))

\* simulation: print each walk once, when it reaches its last step
EmitWalk == nops <= MaxOps \/ PrintT("@@TR " \o ToJson(hist))
=============================================================================
