------------------------------- MODULE HistMC -------------------------------
(* Constant values for the configurations of Hist (TLC cfg files cannot   *)
(* write negative numbers).  Q_ = MC_quick, Z_ = MC_zero, B_ = MC_big,     *)
(* S_ = SIM.                                                               *)
EXTENDS Hist

NegLo   == -4
S_Lo    == -6
S_Schemas == {-1, 0, 1, 2}
ThrZ0   == {-1000}
Q_PIdx  == {-1, 0, 1, 3}
Q_BPIdx == {0, 1, 2, 4}
Z_Thr   == {-1000, 2, 3, 4}
B_PIdx  == {-1, 0, 1, 2, 4}
B_BPIdx == {0, 1, 2, 4}
B_NIdx  == {1, 2}
B_Thr   == {-1000, 2, 3}
S_PIdx  == {-3, -2, -1, 0, 1, 2, 3, 4, 5, 7}
S_NIdx  == {-2, -1, 0, 1, 2, 3, 4}
S_Thr   == {-1000, -8, -3, 0, 1, 2, 3, 4, 5, 6, 8, 9, 16}
=============================================================================
