SPECIFICATION Spec
CONSTANTS
  SMax = 2
  Schemas = {2}
  IdxLo <- NegLo
  IdxHi = 8
  PIdx = {1}
  NIdx = {}
  BPIdx = {1}
  BNIdx = {}
  Counts = {1, 2}
  Thresholds <- ThrZ0
  ZeroCounts = {0}
  BZeroCounts = {0}
  Bounds = {1, 2, 3}
  Kinds = {"exp", "cb"}
  Types = {"float"}
  BTypes = {"float"}
  MaxP = 2
  MaxN = 0
  BMaxP = 1
  BMaxN = 0
  InitMode = "lib"
  BuildA = 0
  BuildB = 0
  Ops = {}
  MaxOps = 1
  EmitMode = "state"
VIEW View
INVARIANTS TypeOK C31Arith ReducePreserves ResetImplIsRef SelfNoReset EmitState
CHECK_DEADLOCK FALSE
