-------------------------------- MODULE Hist --------------------------------
(***************************************************************************)
(* Reference model of native histogram arithmetic                          *)
(* (model/histogram/float_histogram.go, histogram.go, generic.go).         *)
(*                                                                         *)
(* A histogram is (bucket type, schema, zero threshold, zero count,        *)
(* bucket index -> count for the positive and the negative side, count,    *)
(* sum, custom bounds) with INTEGER counts, so the reference is exact.     *)
(* Spans, delta encoding and slice reuse of the code are deliberately      *)
(* absent: the harness chooses concrete span layouts, the property (C31)   *)
(* talks about bucket totals only.                                         *)
(*                                                                         *)
(* Bucket boundaries are measured in "units" of 2^-(SMax+1) octaves:       *)
(*   upper bound of bucket i in schema s  =  2^(Bound(i,s) / 2^(SMax+1))   *)
(* so every boundary of every explored schema is an even integer and odd   *)
(* integers are thresholds strictly inside a bucket of the finest schema.  *)
(* ZT0 stands for a zero threshold of exactly 0.                           *)
(*                                                                         *)
(* The module is a two-register machine (A, B).  Actions = public calls:   *)
(*   Add / Sub / KAdd   A := A (+|-) B    FloatHistogram.Add/Sub/KahanAdd   *)
(*   Reduce(t)          A.ReduceResolution(t)   (Histogram and Float...)   *)
(*   Compact(m)         A.Compact(m)            (Histogram and Float...)   *)
(*   ToFloat            A := A.ToFloat(nil)                                *)
(*   Swap               exchange the registers (no call)                   *)
(* and input construction steps (New, Observe, Bump) which the harness     *)
(* replays by building the register from the state carried in the          *)
(* behaviour.  cur.DetectReset(prev) is predicted for (A,B) and (B,A)      *)
(* after every step.                                                       *)
(*                                                                         *)
(* *Ref operators  = what the property demands (count preserving).         *)
(* *Impl operators = transcription of the code's order of steps; TLC       *)
(* checks that they agree with *Ref on every pair (ImplIsRef,              *)
(* ResetImplIsRef).  Before the repairs of KF-C31-1/2 they differed        *)
(* exactly under StraddleKF, which is kept below as documentation.         *)
(***************************************************************************)
EXTENDS Integers, Sequences, FiniteSets, TLC, Json

CONSTANTS
  SMax,        \* finest exponential schema of the model
  Schemas,     \* exponential schemas explored, subset of (SMax-3)..SMax
  IdxLo, IdxHi,\* global bucket index window (must contain 0 and 1)
  PIdx, NIdx,  \* indices (own schema) that inputs may populate, positive / negative side
  BPIdx, BNIdx,\* the same for the library of second operands
  Counts,      \* counts of populated input buckets
  Thresholds,  \* zero thresholds of inputs, in units; ZT0 (= -1000) is "exactly 0"
  ZeroCounts,  \* zero counts of inputs
  BZeroCounts, \* the same for the library of second operands
  Bounds,      \* custom bound ids 1..k (symbolic, increasing)
  Kinds,       \* subset of {"exp","cb"}
  Types,       \* subset of {"float","int"}
  BTypes,      \* the same for the library of second operands
  MaxP, MaxN,  \* library: populated buckets per side of A
  BMaxP, BMaxN,\* library: populated buckets per side of B
  InitMode,    \* "lib": Init draws (A,B) from the library; "empty": registers are built by steps
  BuildA, BuildB, \* "empty" mode: number of construction steps for A and for B (first one is New)
  Ops,         \* subset of {"Add","Sub","KAdd","Reduce","Compact","ToFloat","Swap"}
  MaxOps,      \* history length bound (construction steps included)
  EmitMode     \* "all" | "state" | "walk" | "none"

VARIABLES A, B, nops, hist
vars == <<A, B, nops, hist>>
View == <<A, B, nops>>

ZT0   == -1000
CBS   == -53                       \* histogram.CustomBucketsSchema
IDX   == IdxLo..IdxHi
CBInf == IdxHi                     \* key of the +Inf custom bucket (custom buckets are keyed by upper bound id)

RECURSIVE Pow2(_)
Pow2(k) == IF k <= 0 THEN 1 ELSE 2 * Pow2(k - 1)

\* upper boundary of bucket i in schema s, in units; lower boundary is Bound(i-1, s)
\* (tables: TLC evaluates constant definitions once)
SAll == (SMax - 3)..SMax
BoundTab == TLCEval([s \in SAll |-> TLCEval([i \in (IdxLo - 1)..IdxHi |-> i * Pow2(SMax - s + 1)])])
Bound(i, s) == BoundTab[s][i]

\* targetIdx(): index of the bucket of the k-steps-coarser schema containing bucket i = ceil(i / 2^k)
UpTab == TLCEval([k \in 0..3 |-> TLCEval([i \in (IdxLo - 1)..IdxHi |-> ((i - 1) \div Pow2(k)) + 1])])
Up(i, k) == UpTab[k][i]
P2Tab == TLCEval([k \in 0..3 |-> Pow2(k)])

RECURSIVE SumTo(_, _)
SumTo(f, i) == IF i < IdxLo THEN 0 ELSE f[i] + SumTo(f, i - 1)
SumF(f) == SumTo(f, IdxHi)

Zero == TLCEval([i \in IDX |-> 0])
Pop(f) == {i \in IDX : f[i] # 0}
Min2(a, b) == IF a < b THEN a ELSE b
Max2(a, b) == IF a > b THEN a ELSE b

Total(h) == h.zc + SumF(h.p) + SumF(h.n)
NonNeg(h) == h.zc >= 0 /\ h.cnt >= 0 /\ \A i \in IDX : h.p[i] >= 0 /\ h.n[i] >= 0

Empty(ty, k, s, zt, zc, cv) ==
  [ty |-> ty, k |-> k, s |-> s, zt |-> zt, zc |-> zc, p |-> Zero, n |-> Zero,
   cnt |-> zc, sum |-> 0, cv |-> cv]

\* the bucket semantics of a histogram, ignoring the integer/float representation
Sem(h) == [h EXCEPT !.ty = "float"]

-----------------------------------------------------------------------------
(* Zero bucket widening: zeroCountForLargerThreshold / trimBucketsInZeroBucket *)

\* threshold T lies strictly inside bucket i of schema s
Inside(i, s, T) == Bound(i - 1, s) < T /\ T < Bound(i, s)

\* zeroCountForLargerThreshold, threshold part: a threshold inside a populated bucket
\* (either side: both sides share their boundaries) moves up to that bucket's upper boundary;
\* asking for the histogram's own threshold is the fast path and changes nothing.
WidenT(h, T) ==
  IF T = h.zt THEN T
  ELSE LET S == {i \in IDX : Inside(i, h.s, T) /\ (h.p[i] # 0 \/ h.n[i] # 0)} IN
       IF S = {} THEN T ELSE Bound(CHOOSE i \in S : TRUE, h.s)

\* zero count of h for a threshold T >= h.zt that WidenT leaves alone: every bucket starting below T is absorbed
ZCF(h, T) ==
  IF T = h.zt THEN h.zc
  ELSE h.zc + SumF([i \in IDX |-> IF Bound(i - 1, h.s) < T THEN h.p[i] + h.n[i] ELSE 0])

\* trimBucketsInZeroBucket: the absorbed buckets are removed
TrimF(f, s, zt, T) == IF T = zt THEN f ELSE TLCEval([i \in IDX |-> IF Bound(i - 1, s) < T THEN 0 ELSE f[i]])

\* reconcileZeroBuckets: the loop of the code (h = a is widened in place, other = b is only asked)
RECURSIVE Reconcile(_, _, _, _)
Reconcile(a, b, Ta, Tb) ==
  IF Ta = Tb THEN Ta
  ELSE LET Tb2 == IF Ta > Tb THEN WidenT(b, Ta) ELSE Tb
           Ta2 == IF Tb2 > Ta THEN (IF Tb2 = a.zt THEN Tb2 ELSE WidenT(a, Tb2)) ELSE Ta
       IN Reconcile(a, b, Ta2, Tb2)
CommonT(a, b) == Reconcile(a, b, a.zt, b.zt)

\* reduceResolution on one side: k schema steps down
\* (bucket j of the coarser schema is the union of buckets (j-1)*2^k+1 .. j*2^k)
RECURSIVE SumRange(_, _, _)
SumRange(f, lo, hi) == IF lo > hi THEN 0 ELSE (IF lo \in IDX THEN f[lo] ELSE 0) + SumRange(f, lo + 1, hi)
Red(f, k) == IF k = 0 THEN f
             ELSE TLCEval([j \in IDX |-> SumRange(f, Max2((j - 1) * P2Tab[k] + 1, IdxLo), Min2(j * P2Tab[k], IdxHi))])

-----------------------------------------------------------------------------
(* Custom buckets: keyed by the id of their upper bound, CBInf for the overflow bucket *)

CBKeys(cv) == cv \cup {CBInf}
\* bucket with upper bound u goes to the smallest surviving bound >= u (mapBuckets in addCustomBucketsWithMismatches)
Tgt(u, I) == LET W == {w \in CBKeys(I) : w >= u} IN CHOOSE w \in W : \A x \in W : w <= x
MapCB(f, I) == TLCEval([w \in IDX |-> IF w \in CBKeys(I)
                                      THEN SumF([u \in IDX |-> IF f[u] # 0 /\ Tgt(u, I) = w THEN f[u] ELSE 0])
                                      ELSE 0])

-----------------------------------------------------------------------------
(* Add / Sub (sg = 1 / -1).  Result replaces the receiver a; b is not modified. *)

Compatible(a, b) == a.k = b.k          \* checkSchemaAndBounds

AddCB(a, b, sg) ==
  LET I  == a.cv \cap b.cv
      ap == IF a.cv = b.cv THEN a.p ELSE MapCB(a.p, I)
      bp == IF a.cv = b.cv THEN b.p ELSE MapCB(b.p, I)
  IN [a EXCEPT !.p = TLCEval([i \in IDX |-> ap[i] + sg * bp[i]]), !.cv = I,
               !.cnt = a.cnt + sg * b.cnt, !.sum = a.sum + sg * b.sum]

\* REFERENCE: widen both zero buckets to the common threshold (each in its own schema),
\* then bring both to the lower resolution, then add bucket by bucket.
AddExpRef(a, b, sg) ==
  LET T  == CommonT(a, b)
      sm == Min2(a.s, b.s)
      ap == Red(TrimF(a.p, a.s, a.zt, T), a.s - sm)
      an == Red(TrimF(a.n, a.s, a.zt, T), a.s - sm)
      bp == Red(TrimF(b.p, b.s, b.zt, T), b.s - sm)
      bn == Red(TrimF(b.n, b.s, b.zt, T), b.s - sm)
  IN [a EXCEPT !.s = sm, !.zt = T, !.zc = ZCF(a, T) + sg * ZCF(b, T),
               !.p = TLCEval([i \in IDX |-> ap[i] + sg * bp[i]]),
               !.n = TLCEval([i \in IDX |-> an[i] + sg * bn[i]]),
               !.cnt = a.cnt + sg * b.cnt, !.sum = a.sum + sg * b.sum]

\* IMPLEMENTATION: FloatHistogram.Add — the receiver is widened and trimmed in its own schema and
\* then reduced; the other operand loses the buckets inside the common zero bucket in its own schema
\* (zeroBucketsWithinThreshold, the repair of KF-C31-1), is reduced, and addBuckets skips the leading
\* buckets whose upper bound in the common schema is <= threshold.
SkipLow(f, s, T) == TLCEval([i \in IDX |-> IF Bound(i, s) <= T THEN 0 ELSE f[i]])
AddExpImpl(a, b, sg) ==
  LET T  == CommonT(a, b)
      sm == Min2(a.s, b.s)
      ap == Red(TrimF(a.p, a.s, a.zt, T), a.s - sm)
      an == Red(TrimF(a.n, a.s, a.zt, T), a.s - sm)
      bp == SkipLow(Red(SkipLow(b.p, b.s, T), b.s - sm), sm, T)
      bn == SkipLow(Red(SkipLow(b.n, b.s, T), b.s - sm), sm, T)
  IN [a EXCEPT !.s = sm, !.zt = T, !.zc = ZCF(a, T) + sg * ZCF(b, T),
               !.p = TLCEval([i \in IDX |-> ap[i] + sg * bp[i]]),
               !.n = TLCEval([i \in IDX |-> an[i] + sg * bn[i]]),
               !.cnt = a.cnt + sg * b.cnt, !.sum = a.sum + sg * b.sum]

AddRef(a, b, sg)  == IF a.k = "cb" THEN AddCB(a, b, sg) ELSE AddExpRef(a, b, sg)
AddImpl(a, b, sg) == IF a.k = "cb" THEN AddCB(a, b, sg) ELSE AddExpImpl(a, b, sg)

\* Former KF-C31-1 / KF-C31-2 (repaired): a populated bucket of the finer histogram f is absorbed by the threshold T
\* (it starts below T) although the coarser bucket (schema sc) it is merged into ends above T.
StraddleKF(f, T, sc) ==
  /\ f.k = "exp" /\ f.s > sc /\ T # f.zt
  /\ \E i \in IDX : /\ f.p[i] # 0 \/ f.n[i] # 0
                    /\ Bound(i - 1, f.s) < T
                    /\ Bound(Up(i, f.s - sc), sc) > T

-----------------------------------------------------------------------------
(* ReduceResolution, Compact, ToFloat *)

ReduceOK(h, t) == h.k = "exp" /\ t < h.s
ReduceRef(h, t) == [h EXCEPT !.s = t, !.p = Red(h.p, h.s - t), !.n = Red(h.n, h.s - t)]
CompactRef(h) == h                                   \* no bucket total changes
ToFloatRef(h) == [h EXCEPT !.ty = "float"]           \* every count preserved

-----------------------------------------------------------------------------
(* DetectReset: cur.DetectReset(prev), hints Unknown/Gauge only *)

Decr(c, p) == \E i \in IDX : c[i] < p[i]

\* REFERENCE = the disjunction of the property statement
ResetRef(c, p) ==
  \/ c.k # p.k                                                   \* bucket type changed
  \/ c.cnt < p.cnt
  \/ /\ c.k = "exp"
     /\ \/ c.s > p.s                                             \* resolution increased
        \/ c.zt < p.zt                                           \* zero threshold decreased
        \/ WidenT(p, c.zt) # c.zt                                \* ... or cuts through a populated bucket
        \/ c.zc < ZCF(p, c.zt)
        \/ Decr(c.p, Red(TrimF(p.p, p.s, p.zt, c.zt), p.s - c.s))   \* after aligning prev to cur
        \/ Decr(c.n, Red(TrimF(p.n, p.s, p.zt, c.zt), p.s - c.s))
  \/ /\ c.k = "cb"
     /\ LET I == c.cv \cap p.cv IN Decr(MapCB(c.p, I), MapCB(p.p, I))   \* intersect mismatched bounds

\* IMPLEMENTATION: order of the tests of FloatHistogram.DetectReset; floatBucketIterator leaves out
\* prev's buckets inside cur's zero bucket in prev's own schema (repair of KF-C31-2), merges the rest
\* to cur's schema and skips merged buckets whose upper bound <= threshold.
ResetImpl(c, p) ==
  IF c.cnt < p.cnt THEN TRUE
  ELSE IF c.k = "cb" /\ p.k # "cb" THEN TRUE
  ELSE IF c.k = "cb" /\ c.cv # p.cv THEN LET I == c.cv \cap p.cv IN Decr(MapCB(c.p, I), MapCB(p.p, I))
  ELSE IF c.s > p.s THEN TRUE                                    \* also exponential cur after custom prev
  ELSE IF c.zt < p.zt THEN TRUE
  ELSE IF WidenT(p, c.zt) # c.zt THEN TRUE
  ELSE IF c.zc < ZCF(p, c.zt) THEN TRUE
  ELSE IF c.k = "cb" THEN Decr(c.p, p.p)
  ELSE \/ Decr(SkipLow(c.p, c.s, c.zt), SkipLow(Red(SkipLow(p.p, p.s, c.zt), p.s - c.s), c.s, c.zt))
       \/ Decr(SkipLow(c.n, c.s, c.zt), SkipLow(Red(SkipLow(p.n, p.s, c.zt), p.s - c.s), c.s, c.zt))

\* prediction carried in behaviours: "na" when a count is negative (not a histogram any more)
ResetObs(c, p) == IF NonNeg(c) /\ NonNeg(p) THEN (IF ResetRef(c, p) THEN "reset" ELSE "no") ELSE "na"
\* no known deviation of DetectReset is left (KF-C31-2 repaired): the code must answer as the reference
ResetKF(c, p)  == FALSE

-----------------------------------------------------------------------------
(* Input library *)

SubsetsUpTo(S, k) == {T \in SUBSET S : Cardinality(T) <= k}
FnOn(I) == {TLCEval([i \in IDX |-> IF i \in I THEN g[i] ELSE 0]) : g \in [I -> Counts]}
Sides(S, k) == UNION {FnOn(I) : I \in SubsetsUpTo(S, k)}

Mk(ty, k, s, zt, zc, cv, p, n) ==
  [ty |-> ty, k |-> k, s |-> s, zt |-> zt, zc |-> zc, p |-> p, n |-> n,
   cnt |-> zc + SumF(p) + SumF(n), sum |-> SumF([i \in IDX |-> i * (p[i] - n[i])]), cv |-> cv]

\* input buckets must end above the histogram's own zero threshold
OkIdx(S, s, zt) == {i \in S : Bound(i, s) > zt}

ExpLib(Ty, ZC, PI, NI, kp, kn) ==
  IF "exp" \notin Kinds THEN {} ELSE
  UNION {UNION {UNION {UNION { {Mk(ty, "exp", s, zt, zc, {}, p, n) :
                                   p \in Sides(OkIdx(PI, s, zt), kp), n \in Sides(OkIdx(NI, s, zt), kn)}
                               : zc \in ZC}
                        : zt \in Thresholds}
                 : s \in Schemas}
         : ty \in Ty}

CBLib(Ty, kp) ==
  IF "cb" \notin Kinds THEN {} ELSE
  UNION {UNION { {Mk(ty, "cb", CBS, ZT0, 0, cv, p, Zero) : p \in Sides(CBKeys(cv), kp)}
                 : cv \in SUBSET Bounds}
         : ty \in Ty}

LibA == ExpLib(Types, ZeroCounts, PIdx, NIdx, MaxP, MaxN) \cup CBLib(Types, MaxP)
LibB == ExpLib(BTypes, BZeroCounts, BPIdx, BNIdx, BMaxP, BMaxN) \cup CBLib(BTypes, BMaxP)

-----------------------------------------------------------------------------
(* Behaviour records *)

Bk(f) == {<<i, f[i]>> : i \in Pop(f)}
J(h) == [ty |-> h.ty, k |-> h.k, s |-> h.s, zt |-> h.zt, zc |-> h.zc, cnt |-> h.cnt, sum |-> h.sum,
         cv |-> h.cv, p |-> Bk(h.p), n |-> Bk(h.n)]

\* what every step predicts about the pair of registers after the step
ObsLite(a, b) ==
  [A |-> J(a), B |-> J(b),
   rAB |-> ResetObs(a, b), rBA |-> ResetObs(b, a),
   \* iAB / iBA: the answer of the code's order of tests where KF-C31-2 allows it to differ, else ""
   iAB |-> IF ResetKF(a, b) THEN (IF ResetImpl(a, b) THEN "reset" ELSE "no") ELSE "",
   iBA |-> IF ResetKF(b, a) THEN (IF ResetImpl(b, a) THEN "reset" ELSE "no") ELSE ""]

\* PickB and Check steps add "what-if" predictions the harness checks on copies of the registers:
\*   wAdd / wSub  result of A.Add(B) / A.Sub(B) (also KahanAdd), "" when not applicable,
\*   wKf          the known finding applies to them, wAddI / wSubI = what the code's order of steps yields then
\*   wRed         <<t, A.ReduceResolution(t)>> for every lower schema t
Obs(a, b) ==
  LET ar == a.ty = "float" /\ b.ty = "float" /\ Compatible(a, b)
      T  == IF ar /\ a.k = "exp" THEN CommonT(a, b) ELSE ZT0
      kf == FALSE                                   \* KF-C31-1 repaired: no deviation is accepted any more
  IN ObsLite(a, b) @@
     [wAdd |-> IF ar THEN J(AddRef(a, b, 1)) ELSE "", wSub |-> IF ar THEN J(AddRef(a, b, -1)) ELSE "",
      wKf |-> kf,
      wAddI |-> IF kf THEN J(AddImpl(a, b, 1)) ELSE "", wSubI |-> IF kf THEN J(AddImpl(a, b, -1)) ELSE "",
      wRed |-> IF a.k = "exp" THEN {<<t, J(ReduceRef(a, t))>> : t \in {u \in Schemas : u < a.s}} ELSE {}]

\* ld = registers the harness has to (re)build from the carried state before checking the predictions
Step(name, ld, args, a, b) == [op |-> name, ld |-> ld] @@ args @@ ObsLite(a, b)
Full(name, ld, a, b) == [op |-> name, ld |-> ld] @@ Obs(a, b)
\* construction steps carry the register under construction only (no predictions yet)
Light(name, ld, h) == [op |-> name, ld |-> ld, R |-> J(h)]

\* the first record only describes the index/schema frame; in "empty" mode the registers are trivial,
\* in "lib" mode the pair is complete (and rebuilt by the harness) after PickB
InitRec(a, b) == [op |-> "Init", ld |-> "", smin |-> SMax - 3, smax |-> SMax, cbinf |-> CBInf]

Init ==
  /\ IF InitMode = "lib"
     THEN A \in LibA /\ B = Empty("float", A.k, A.s, A.zt, 0, A.cv)      \* B is drawn by the first step (PickB)
     ELSE A = Empty("float", "exp", SMax, ZT0, 0, {}) /\ B = Empty("float", "exp", SMax, ZT0, 0, {})
  /\ nops = 0
  /\ hist = <<InitRec(A, B)>>

Building == InitMode = "empty" /\ nops < BuildA + BuildB
Target == IF nops < BuildA THEN "A" ELSE "B"
IsNewStep == nops = 0 \/ nops = BuildA

Put(name, ld, args, a, b) ==
  /\ A' = a /\ B' = b
  /\ nops' = nops + 1
  /\ hist' = Append(hist, Step(name, ld, args, a, b))

Build(name, h) ==
  /\ IF Target = "A" THEN A' = h /\ B' = B ELSE A' = A /\ B' = h
  /\ nops' = nops + 1
  /\ hist' = Append(hist, Light(name, Target, h))

\* "lib" mode: the second operand is drawn from the library (one successor per pair, so that
\* TLC's workers share the pairs)
PutFull(name, ld, a, b) ==
  /\ A' = a /\ B' = b
  /\ nops' = nops + 1
  /\ hist' = Append(hist, Full(name, ld, a, b))
PickB == \E h \in LibB : PutFull("PickB", "AB", A, h)

\* construction steps: the harness (re)builds the target register from the carried state
\* (the second operand gets the bucket type of the first: mixed types only yield the error path,
\* which the library configurations cover)
New ==
  \E ty \in Types, k \in (IF Target = "B" THEN {A.k} ELSE Kinds) :
    \/ /\ k = "exp"
       /\ \E s \in Schemas, zt \in Thresholds, zc \in ZeroCounts :
            Build("New", Empty(ty, "exp", s, zt, zc, {}))
    \/ /\ k = "cb"
       /\ \E cv \in SUBSET Bounds :
            Build("New", Empty(ty, "cb", CBS, ZT0, 0, cv))

ObserveIn(h) ==
  IF h.k = "exp"
  THEN {[h EXCEPT !.p[i] = @ + c, !.cnt = @ + c, !.sum = @ + c * i] : i \in OkIdx(PIdx, h.s, h.zt), c \in Counts}
       \cup {[h EXCEPT !.n[i] = @ + c, !.cnt = @ + c, !.sum = @ - c * i] : i \in OkIdx(NIdx, h.s, h.zt), c \in Counts}
       \cup {[h EXCEPT !.cnt = @ + 1]}                 \* an observation of NaN: count only
  ELSE {[h EXCEPT !.p[u] = @ + c, !.cnt = @ + c, !.sum = @ + c * u] : u \in CBKeys(h.cv), c \in Counts}
       \cup {[h EXCEPT !.cnt = @ + 1]}

Observe ==
  \E h \in ObserveIn(IF Target = "A" THEN A ELSE B) : Build("Observe", h)

\* no call: the full predictions for the current pair.  Taken after the construction and after every operation.
Check == PutFull("Check", "", A, B)
CheckDue == InitMode = "empty" /\ hist[Len(hist)].op # "Check"

BothFloat == A.ty = "float" /\ B.ty = "float"

\* A := A (+|-) B.  FloatHistogram.Add / Sub / KahanAdd
Arith(name, sg) ==
  /\ name \in Ops /\ BothFloat
  /\ IF Compatible(A, B)
     THEN LET r == AddRef(A, B, sg)
              kf == FALSE
          IN Put(name, "", [err |-> FALSE, kf |-> kf, impl |-> IF kf THEN J(AddImpl(A, B, sg)) ELSE ""], r, B)
     ELSE Put(name, "", [err |-> TRUE, kf |-> FALSE, impl |-> ""], A, B)       \* ErrHistogramsIncompatibleSchema

\* A.ReduceResolution(t); error (and no change) for custom buckets
Reduce ==
  /\ "Reduce" \in Ops
  /\ \/ A.k = "exp" /\ \E t \in Schemas : ReduceOK(A, t) /\ Put("Reduce", "", [t |-> t, err |-> FALSE], ReduceRef(A, t), B)
     \/ A.k = "cb" /\ Put("Reduce", "", [t |-> SMax - 1, err |-> TRUE], A, B)

\* A.Compact(m)
\* (maxEmptyBuckets cycles with the step number: one successor, so that random walks do not mostly compact)
Compact == "Compact" \in Ops /\ Put("Compact", "", [m |-> nops % 4], CompactRef(A), B)

\* A := A.ToFloat(nil)
ToFloat == "ToFloat" \in Ops /\ A.ty = "int" /\ Put("ToFloat", "", [z |-> 0], ToFloatRef(A), B)

Swap == "Swap" \in Ops /\ A # B /\ Put("Swap", "", [z |-> 0], B, A)

End == EmitMode = "walk" /\ nops = MaxOps /\ nops' = MaxOps + 1 /\ UNCHANGED <<A, B, hist>>

Next ==
  \/ /\ nops < MaxOps
     /\ IF Building THEN (IF IsNewStep THEN New ELSE Observe)
        ELSE IF InitMode = "lib" /\ nops = 0 THEN PickB
        ELSE IF CheckDue THEN Check
        ELSE \/ Arith("Add", 1) \/ Arith("Sub", -1) \/ Arith("KAdd", 1)
             \/ Reduce \/ Compact \/ ToFloat \/ Swap
  \/ End

Spec == Init /\ [][Next]_vars

-----------------------------------------------------------------------------
(* The property (C31) as invariants of the reference, checked by TLC on every reachable pair *)

WellFormed(h) ==
  /\ h.ty \in {"float", "int"} /\ h.k \in {"exp", "cb"}
  /\ h.p \in [IDX -> Int] /\ h.n \in [IDX -> Int]
  /\ h.k = "exp" => /\ h.cv = {}
                    \* no populated bucket lies entirely inside the zero bucket
                    /\ \A i \in IDX : (h.p[i] # 0 \/ h.n[i] # 0) => Bound(i, h.s) > h.zt
  /\ h.k = "cb" => /\ h.s = CBS /\ h.zt = ZT0 /\ h.zc = 0 /\ h.n = Zero
                   /\ Pop(h.p) \subseteq CBKeys(h.cv)
  /\ h.ty = "int" => NonNeg(h)
TypeOK == WellFormed(A) /\ WellFormed(B)

Arithable == BothFloat /\ Compatible(A, B)

\* adding/subtracting = bucket-wise: no observation is lost or counted twice
TotalPreserved(add, sub) ==
  /\ Total(add) = Total(A) + Total(B)
  /\ Total(sub) = Total(A) - Total(B)
\* ... and does not depend on which operand is the receiver
AddCommutes(add) == Sem(add) = [Sem(AddRef(B, A, 1)) EXCEPT !.sum = A.sum + B.sum]
\* the result is at the lower resolution and the wider zero bucket
LowerResWiderZero(add) == A.k = "exp" => add.s = Min2(A.s, B.s) /\ add.zt >= Max2(A.zt, B.zt)
\* the code's order of steps gives the reference result
ImplIsRef(add, sub) == AddImpl(A, B, 1) = add /\ AddImpl(A, B, -1) = sub
\* growth by addition is never a reset; the converse direction always is one
AddIsNoReset(add) == (NonNeg(A) /\ NonNeg(B)) =>
  /\ ~ResetRef(add, A)
  /\ (B.cnt > 0) => ResetRef(A, add)

\* (one invariant so that TLC evaluates the sums once per pair)
C31Arith == Arithable =>
  LET add == AddRef(A, B, 1)
      sub == AddRef(A, B, -1)
  IN /\ TotalPreserved(add, sub)
     /\ AddCommutes(add)
     /\ LowerResWiderZero(add)
     /\ ImplIsRef(add, sub)
     /\ AddIsNoReset(add)

\* resolution reduction never changes the total of any bucket, and composes
ReducePreserves == A.k = "exp" => \A t \in Schemas : ReduceOK(A, t) =>
  /\ Total(ReduceRef(A, t)) = Total(A)
  /\ \A u \in Schemas : ReduceOK(ReduceRef(A, t), u) => ReduceRef(ReduceRef(A, t), u) = ReduceRef(A, u)

\* DetectReset's order of tests decides the statement's disjunction
ResetImplIsRef == (NonNeg(A) /\ NonNeg(B)) => ResetImpl(A, B) = ResetRef(A, B)

\* a histogram never resets against itself or against an empty one of the same layout
SelfNoReset == NonNeg(A) => ~ResetRef(A, A)

-----------------------------------------------------------------------------
(* Behaviour emission (see lib/vlib.py) *)

Emit == EmitMode # "all" \/ hist' = hist \/ PrintT("@@TR " \o ToJson(hist'))
EmitState == EmitMode # "state" \/ Len(hist) < 2 \/ PrintT("@@TR " \o ToJson(hist))
EmitWalk == nops <= MaxOps \/ PrintT("@@TR " \o ToJson(hist))
=============================================================================
