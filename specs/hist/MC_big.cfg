SPECIFICATION Spec
CONSTANTS
  SMax = 2
  Schemas = {0, 1, 2}
  IdxLo <- NegLo
  IdxHi = 8
  PIdx <- B_PIdx
  NIdx <- B_NIdx
  BPIdx <- B_BPIdx
  BNIdx <- B_NIdx
  Counts = {1, 2}
  Thresholds <- B_Thr
  ZeroCounts = {1}
  BZeroCounts = {1}
  Bounds = {1, 2, 3}
  Kinds = {"exp"}
  Types = {"float"}
  BTypes = {"float"}
  MaxP = 2
  MaxN = 1
  BMaxP = 1
  BMaxN = 1
  InitMode = "lib"
  BuildA = 0
  BuildB = 0
  Ops = {}
  MaxOps = 1
  EmitMode = "none"
VIEW View
INVARIANTS TypeOK C31Arith ReducePreserves ResetImplIsRef SelfNoReset
CHECK_DEADLOCK FALSE
