SPECIFICATION Spec
CONSTANTS
  SMax = 2
  Schemas = {0, 1, 2}
  IdxLo <- NegLo
  IdxHi = 8
  PIdx = {1, 2}
  NIdx = {1, 2}
  BPIdx = {1, 2}
  BNIdx = {1}
  Counts = {1}
  Thresholds <- Z_Thr
  ZeroCounts = {1, 3}
  BZeroCounts = {1}
  Bounds = {1, 2, 3}
  Kinds = {"exp"}
  Types = {"float"}
  BTypes = {"float"}
  MaxP = 1
  MaxN = 1
  BMaxP = 1
  BMaxN = 1
  InitMode = "lib"
  BuildA = 0
  BuildB = 0
  Ops = {}
  MaxOps = 1
  EmitMode = "state"
VIEW View
INVARIANTS TypeOK C31Arith ReducePreserves ResetImplIsRef SelfNoReset EmitState
CHECK_DEADLOCK FALSE
