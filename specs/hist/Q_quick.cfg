SPECIFICATION QSpec
CONSTANTS
  SMax = 2
  Schemas = {0, 1, 2}
  IdxLo <- NegLo
  IdxHi = 8
  PIdx <- Q_PIdx
  NIdx <- Q_NIdx
  BPIdx = {}
  BNIdx = {}
  Counts = {1, 3}
  Thresholds <- ThrAll
  ZeroCounts = {0, 1, 3}
  BZeroCounts = {0}
  Bounds = {1, 2, 3}
  Kinds = {"exp", "cb"}
  Types = {"float"}
  BTypes = {"float"}
  MaxP = 2
  MaxN = 1
  BMaxP = 0
  BMaxN = 0
  InitMode = "lib"
  BuildA = 0
  BuildB = 0
  Ops = {}
  MaxOps = 1
  EmitMode = "none"
  QDen = 8
  FracPts <- Q_Pts
  CBounds = {1, 2, 3}
  CCounts = {0, 1, 2, 4}
VIEW QView
INVARIANTS TypeOK RankMonotone EmitQ
CHECK_DEADLOCK FALSE
