-------------------------------- MODULE HistQ --------------------------------
(***************************************************************************)
(* C32: what histogram_quantile / histogram_fraction / histogram_count /   *)
(* _sum / _avg must satisfy on a native histogram, and histogram_quantile  *)
(* on classic buckets (promql/quantile.go, promql/functions.go).           *)
(*                                                                         *)
(* Reuses the exact (integer count) histograms of Hist.tla.  For every     *)
(* histogram of the library the module decides, with integer arithmetic,   *)
(*   - which bucket(s) hold the rank q*count for q = k/QDen (RankBuckets:  *)
(*     the code walks the buckets upwards for q < 0.5 and downwards for    *)
(*     q >= 0.5; when the rank falls exactly on the border between two     *)
(*     populated buckets both hold it);                                    *)
(*   - an ordered list of query bounds (-Inf, bucket boundaries of both    *)
(*     signs, points inside buckets, 0, +Inf); fractions must be in [0,1], *)
(*     monotone under interval inclusion (which follows the order of the   *)
(*     list) and 1 over (-Inf,+Inf);                                       *)
(*   - count, sum (and their ratio) as carried by the histogram.           *)
(* Interpolated values themselves are not predicted (floating point).      *)
(* Classic bucket sets (cumulative counts, not necessarily monotonic) are  *)
(* enumerated by ClassicSets; histogram_quantile over them must not        *)
(* decrease with q.                                                        *)
(***************************************************************************)
EXTENDS Hist

CONSTANTS QDen,      \* quantile grid q = k / QDen, k = 0..QDen
          FracPts,   \* query bounds for exponential histograms: set of <<sign, units>> (sign -1/1) and <<0, 0>>
          CBounds,   \* classic histograms: upper bound ids 1..n (the +Inf bucket is implicit)
          CCounts    \* classic histograms: cumulative count values explored

\* populated buckets in ascending order of the values they hold:
\* negative side from the highest index down, zero bucket, positive side upwards
RECURSIVE NegDown(_, _), PosUp(_, _)
NegDown(h, i) == IF i < IdxLo THEN <<>>
                 ELSE (IF h.n[i] > 0 THEN <<[b |-> <<"n", i>>, c |-> h.n[i]]>> ELSE <<>>) \o NegDown(h, i - 1)
PosUp(h, i) == IF i > IdxHi THEN <<>>
               ELSE (IF h.p[i] > 0 THEN <<[b |-> <<"p", i>>, c |-> h.p[i]]>> ELSE <<>>) \o PosUp(h, i + 1)
Ordered(h) == NegDown(h, IdxHi)
              \o (IF h.zc > 0 THEN <<[b |-> <<"z", 0>>, c |-> h.zc]>> ELSE <<>>)
              \o PosUp(h, IdxLo)

RECURSIVE CumTo(_, _)
CumTo(q, j) == IF j = 0 THEN 0 ELSE q[j].c + CumTo(q, j - 1)

\* the bucket(s) holding rank (k/QDen)*n of a histogram with n > 0 observations, all in buckets
RankBuckets(h, k) ==
  LET q == Ordered(h)
      n == CumTo(q, Len(q))
      fwd == {j \in 1..Len(q) : CumTo(q, j) * QDen >= k * n}
      rev == {j \in 1..Len(q) : CumTo(q, j - 1) * QDen <= k * n}
      lo == CHOOSE j \in fwd : \A x \in fwd : j <= x          \* walking upwards: first bucket reaching the rank
      hi == CHOOSE j \in rev : \A x \in rev : j >= x          \* walking downwards
  IN IF n = 0 THEN {} ELSE {q[lo].b, q[hi].b}

\* Span layouts.  A histogram may carry buckets that are present in its spans with a count of 0
\* (they survive in stored samples; only arithmetic compacts them away).  Such buckets hold no
\* observation, so they never hold a rank and must not change any answer: every record names three
\* layouts of the same histogram -- no empty bucket, empty buckets just outside the populated range
\* of each side, and additionally every empty bucket inside it -- and all predictions apply to each.
MinS(S) == CHOOSE x \in S : \A y \in S : x <= y
MaxS(S) == CHOOSE x \in S : \A y \in S : x >= y
PopIdx(f) == {i \in IDX : f[i] > 0}
OuterPad(h, f) ==
  LET P == PopIdx(f) IN
  IF P = {} THEN {}
  ELSE IF h.k = "cb" THEN {u \in CBKeys(h.cv) \ P : u < MinS(P) \/ u > MaxS(P)}
  ELSE {i \in {MinS(P) - 1, MaxS(P) + 1} : i \in IDX /\ Bound(i, h.s) > h.zt}
InnerPad(h, f) ==
  LET P == PopIdx(f) IN
  IF P = {} THEN {}
  ELSE {i \in (IF h.k = "cb" THEN CBKeys(h.cv) ELSE IDX) : MinS(P) < i /\ i < MaxS(P) /\ f[i] = 0}
Layouts(h) == <<[p |-> {}, n |-> {}],
                [p |-> OuterPad(h, h.p), n |-> OuterPad(h, h.n)],
                [p |-> OuterPad(h, h.p) \cup InnerPad(h, h.p), n |-> OuterPad(h, h.n) \cup InnerPad(h, h.n)]>>

\* rank buckets never move downwards when q grows (so a quantile inside them cannot decrease by more
\* than the width of one bucket; inside one bucket the interpolation is the code's business)
RECURSIVE Pos(_, _, _)
Pos(q, b, j) == IF q[j].b = b THEN j ELSE Pos(q, b, j + 1)
RankMonotone == (nops = 0 /\ Total(A) > 0 /\ NonNeg(A)) =>
  LET q == Ordered(A)
      rb == TLCEval([k \in 0..QDen |-> RankBuckets(A, k)])
  IN \A k \in 0..(QDen - 1) :
       \A x \in rb[k], y \in rb[k + 1] :
          \/ Pos(q, x, 1) <= Pos(q, y, 1)
          \/ x \in rb[k + 1]                                   \* a tie shared by both ranks

\* query bounds in ascending order: <<"ninf">>, <<"pt", sign, units>> ..., <<"pinf">>
\* exponential: -2^(u/..) ascending = units descending on the negative side
PtLess(a, b) == a[1] * a[2] < b[1] * b[2]                      \* sign * units is monotone in the value, 0 for <<0,0>>
RECURSIVE SortPts(_)
SortPts(S) == IF S = {} THEN <<>>
              ELSE LET m == CHOOSE x \in S : \A y \in S : x = y \/ PtLess(x, y) IN <<m>> \o SortPts(S \ {m})
QBounds(h) == IF h.k = "cb"
             THEN <<<<"ninf">>>> \o [i \in 1..Cardinality(h.cv) |-> <<"cb", i>>] \o <<<<"cbmid">>, <<"pinf">>>>
             ELSE <<<<"ninf">>>> \o [i \in 1..Cardinality(FracPts) |-> <<"pt">> \o SortPts(FracPts)[i]] \o <<<<"pinf">>>>

QRec(h) == [op |-> "Query", H |-> J(h),
            cnt |-> h.cnt, sum |-> h.sum,          \* histogram_count / histogram_sum (and their ratio for _avg)
            ranks |-> [k \in 0..QDen |-> RankBuckets(h, k)],
            qden |-> QDen,
            layouts |-> Layouts(h),                \* buckets present with count 0, per layout
            bounds |-> QBounds(h)]

\* classic bucket sets: one cumulative count per upper bound and for +Inf, in any order of magnitude
ClassicSets == [CBounds \cup {0} -> CCounts]                   \* key 0 stands for the +Inf bucket
CRec(f) == [op |-> "Classic", counts |-> {<<b, f[b]>> : b \in DOMAIN f}, qden |-> QDen]

-----------------------------------------------------------------------------
\* one step per library histogram; then one step per classic bucket set from a designated state
QueryStep ==
  /\ nops = 0
  /\ nops' = 1
  /\ hist' = Append(hist, QRec(A))
  /\ UNCHANGED <<A, B>>

IsFirst == A.k = "cb" /\ A.cv = {} /\ Pop(A.p) = {}            \* one designated library element
ClassicStep ==
  /\ nops = 0 /\ IsFirst
  /\ \E f \in ClassicSets :
       /\ nops' = 2
       /\ hist' = Append(hist, CRec(f))
  /\ UNCHANGED <<A, B>>

QNext == QueryStep \/ ClassicStep
QSpec == Init /\ [][QNext]_vars

EmitQ == nops = 0 \/ PrintT("@@TR " \o ToJson(hist))
QView == <<A, nops, IF nops = 2 THEN hist[Len(hist)] ELSE 0>>
=============================================================================
