SPECIFICATION Spec
CONSTANTS
  SMax = 2
  Schemas = {0, 1, 2}
  IdxLo <- NegLo
  IdxHi = 8
  PIdx <- Q_PIdx
  NIdx = {}
  BPIdx <- Q_BPIdx
  BNIdx = {}
  Counts = {1, 2}
  Thresholds <- ThrZ0
  ZeroCounts = {0}
  BZeroCounts = {0}
  Bounds = {1, 2, 3}
  Kinds = {"exp"}
  Types = {"float"}
  BTypes = {"float"}
  MaxP = 3
  MaxN = 0
  BMaxP = 2
  BMaxN = 0
  InitMode = "lib"
  BuildA = 0
  BuildB = 0
  Ops = {}
  MaxOps = 1
  EmitMode = "state"
VIEW View
INVARIANTS TypeOK C31Arith ReducePreserves ResetImplIsRef SelfNoReset EmitState
CHECK_DEADLOCK FALSE
