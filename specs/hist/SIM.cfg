SPECIFICATION Spec
CONSTANTS
  SMax = 2
  Schemas <- S_Schemas
  IdxLo <- S_Lo
  IdxHi = 10
  PIdx <- S_PIdx
  NIdx <- S_NIdx
  BPIdx <- S_PIdx
  BNIdx <- S_NIdx
  Counts = {1, 2, 5}
  Thresholds <- S_Thr
  ZeroCounts = {0, 1, 3}
  BZeroCounts = {0, 1, 3}
  Bounds = {1, 2, 3, 4}
  Kinds = {"exp", "cb"}
  Types = {"float", "int"}
  BTypes = {"float"}
  MaxP = 0
  MaxN = 0
  BMaxP = 0
  BMaxN = 0
  InitMode = "empty"
  BuildA = 5
  BuildB = 4
  Ops = {"Add", "Sub", "KAdd", "Reduce", "Compact", "ToFloat", "Swap"}
  EmitMode = "walk"
INVARIANTS TypeOK EmitWalk
CHECK_DEADLOCK FALSE
