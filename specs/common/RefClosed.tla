------------------------------- MODULE RefClosed -------------------------------
(***************************************************************************)
(* The second sentence of C15 on a flat sequence of WAL entries            *)
(*   [k, ref, lab, t, t2, v],  k in {"S","D","X","T","M"}                  *)
(* (series, sample, exemplar, tombstone [t,t2], metadata).  Shared by      *)
(* Checkpoint.tla (the design) and Trace_Checkpoint.tla (entries decoded   *)
(* from the real WAL by the harness).                                      *)
(***************************************************************************)
EXTENDS Integers, Sequences, FiniteSets

INF == 1000000      \* math.MaxInt64
NEG == -1000000     \* math.MinInt64

\* positions of entries whose series entry does not precede them in replay order
Orphans(es) == {i \in 1..Len(es) : es[i].k # "S" /\ ~\E j \in 1..(i - 1) : es[j].k = "S" /\ es[j].ref = es[i].ref}

\* literal statement
RefClosedSeq(es) == Orphans(es) = {}

FullRange(e) == e.k = "T" /\ e.t = NEG /\ e.t2 = INF

\* can the entry still matter for data at or after the truncation time Tm ?
Live(e, Tm) == CASE e.k = "D" -> e.t >= Tm
                 [] e.k = "X" -> e.t >= Tm
                 [] e.k = "T" -> e.t2 >= Tm /\ ~FullRange(e)
                 [] OTHER -> FALSE

OrphanClass(e, Tm) == IF FullRange(e) THEN "Tfull"
                      ELSE IF e.k = "M" THEN "M"
                      ELSE e.k \o (IF Live(e, Tm) THEN ":live" ELSE ":old")
=============================================================================
