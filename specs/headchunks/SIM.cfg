SPECIFICATION Spec
CONSTANTS
  NChunks = 7
  BigChunks = {3, 6}
  QueueSize = 2
  MaxCuts = 3
  MaxTruncs = 3
  MaxRestarts = 3
  EmitMode = "walk"
INVARIANTS TypeOK ReadYourWrite PositionsAgree CutSeqAgrees NoMismatch RefMapBounded IterComplete EmitWalk
CHECK_DEADLOCK FALSE
