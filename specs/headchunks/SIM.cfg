SPECIFICATION Spec
CONSTANTS
  NChunks = 7
  BigChunks = {3, 6}
  QueueSize = 2
  MaxCuts = 3
  MaxTruncs = 3
  MaxRestarts = 3
  AllowKF = TRUE
  EmitMode = "walk"
INVARIANTS TypeOK ReadYourWriteKF PositionsAgreeKF CutSeqAgreesKF RefMapBounded IterCompleteKF EmitWalk
CHECK_DEADLOCK FALSE
