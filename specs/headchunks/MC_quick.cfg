SPECIFICATION Spec
CONSTANTS
  NChunks = 4
  BigChunks = {2}
  QueueSize = 2
  MaxCuts = 1
  MaxTruncs = 1
  MaxRestarts = 1
  EmitMode = "state"
VIEW View0
INVARIANTS TypeOK ReadYourWrite PositionsAgree CutSeqAgrees NoMismatch RefMapBounded IterComplete EmitState
PROPERTIES TruncateOnlyOlder
CHECK_DEADLOCK FALSE
