SPECIFICATION Spec
CONSTANTS
  NChunks = 5
  BigChunks = {2, 5}
  QueueSize = 2
  MaxCuts = 2
  MaxTruncs = 2
  MaxRestarts = 2
  EmitMode = "state"
VIEW View0
INVARIANTS TypeOK ReadYourWrite PositionsAgree CutSeqAgrees NoMismatch RefMapBounded IterComplete EmitState
PROPERTIES TruncateOnlyOlder
CHECK_DEADLOCK FALSE
