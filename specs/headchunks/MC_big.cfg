SPECIFICATION Spec
CONSTANTS
  NChunks = 5
  BigChunks = {2, 5}
  QueueSize = 2
  MaxCuts = 2
  MaxTruncs = 2
  MaxRestarts = 2
  AllowKF = TRUE
  EmitMode = "state"
VIEW View0
INVARIANTS TypeOK ReadYourWriteKF PositionsAgreeKF CutSeqAgreesKF RefMapBounded IterCompleteKF EmitState
PROPERTIES TruncateOnlyOlder
CHECK_DEADLOCK FALSE
