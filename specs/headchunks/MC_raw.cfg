SPECIFICATION Spec
CONSTANTS
  NChunks = 4
  BigChunks = {2}
  QueueSize = 2
  MaxCuts = 1
  MaxTruncs = 1
  MaxRestarts = 1
  AllowKF = TRUE
  EmitMode = "none"
VIEW View0
INVARIANTS TypeOK CutSeqAgrees
CHECK_DEADLOCK FALSE
