----------------------------- MODULE HeadChunks -----------------------------
(***************************************************************************)
(* Head chunks on disk (C25): ChunkDiskMapper with the asynchronous chunk  *)
(* write queue.                                                            *)
(*                                                                         *)
(* Code modelled (prometheus/tsdb/chunks):                                 *)
(*   head_chunks.go        ChunkDiskMapper.WriteChunk (ref taken from the   *)
(*                         eventual position under evtlPosMtx), writeChunk  *)
(*                         (cut, buffered write, chunkBuffer, flush),       *)
(*                         CutNewFile, Chunk (queue -> chunkBuffer -> mmap),*)
(*                         Truncate, Close, openMMapFiles, IterateAllChunks *)
(*   chunk_write_queue.go  addJob (chunkRefMap + job queue), the worker     *)
(*                         loop pop -> processJob (write, then delete from  *)
(*                         chunkRefMap)                                     *)
(*                                                                         *)
(* Processes: the writer (calls WriteChunk / CutNewFile / Truncate /       *)
(* Close+reopen) and the queue worker goroutine.  Worker actions are the   *)
(* code segments between the verifhook sites cwq.job.popped,               *)
(* cdm.write.after_cut, cwq.job.written, cwq.job.done.  Reading is a state  *)
(* function: ReadImpl(c) transcribes the lookup order of Chunk(ref).        *)
(*                                                                         *)
(* Chunks are numbered 1..NChunks in write order; chunk c's reference is    *)
(* <<file sequence, position in file>>.  "Big" chunks are at least as large *)
(* as the write buffer (written through and flushed at once).               *)
(***************************************************************************)
EXTENDS Integers, Sequences, FiniteSets, TLC, Json

CONSTANTS NChunks,      \* chunks 1..NChunks are written in this order
          BigChunks,    \* subset of 1..NChunks with len >= writeBufferSize
          QueueSize,    \* capacity of the job queue (WriteChunk blocks when it is full)
          MaxCuts, MaxTruncs, MaxRestarts,
          EmitMode      \* "all" | "state" | "none"

VARIABLES evSeq, evPos,   \* evtlPos: file sequence and number of chunks assigned in it (0 = offset 0)
          cutNext,        \* evtlPos.cutFile
          queue,          \* job queue: sequence of [c, cut, seq]
          refMap,         \* chunkWriteQueue.chunkRefMap (chunk ids)
          wpc, wjob,      \* worker pc: "idle" | "popped" | "cutdone" | "written" and its current job
          fileSet,        \* sequences of the existing head chunk files (mmappedChunkFiles)
          content,        \* [seq -> sequence of chunk ids appended to the file (incl. still buffered)]
          flushed,        \* [seq -> number of chunks of content[seq] that reached the file]
          curSeq,         \* curFileSequence (0 = no file open for writing)
          buf,            \* chunkBuffer (chunk ids written but possibly not flushed)
          ref,            \* [c -> <<seq, pos>>] for written chunks, <<0,0>> otherwise
          nextC,          \* next chunk to write
          lost,           \* chunks whose file was removed by Truncate
          ncut, ntrunc, nrestart,
          kf,             \* a cutAndExpectRef mismatch has happened: the mapper would be broken from then on (NoMismatch: never)
          hist

vars == <<evSeq, evPos, cutNext, queue, refMap, wpc, wjob, fileSet, content, flushed, curSeq, buf, ref, nextC, lost,
          ncut, ntrunc, nrestart, kf, hist>>
View0 == <<evSeq, evPos, cutNext, queue, refMap, wpc, wjob, fileSet, content, flushed, curSeq, buf, ref, nextC, lost,
           ncut, ntrunc, nrestart, kf>>

Chunks == 1..NChunks
MaxFile == NChunks + MaxRestarts + 2
Files == 1..MaxFile
NoJob == [c |-> 0, cut |-> FALSE, seq |-> 0]
MaxS(S) == IF S = {} THEN 0 ELSE CHOOSE x \in S : \A y \in S : y <= x
Written == {c \in Chunks : c < nextC}

Init ==
  /\ evSeq = 0 /\ evPos = 0 /\ cutNext = FALSE
  /\ queue = <<>> /\ refMap = {} /\ wpc = "idle" /\ wjob = NoJob
  /\ fileSet = {} /\ content = [f \in Files |-> <<>>] /\ flushed = [f \in Files |-> 0]
  /\ curSeq = 0 /\ buf = {}
  /\ ref = [c \in Chunks |-> <<0, 0>>] /\ nextC = 1 /\ lost = {}
  /\ ncut = 0 /\ ntrunc = 0 /\ nrestart = 0 /\ kf = FALSE
  /\ hist = <<>>

-----------------------------------------------------------------------------
(* File-level operations on a record fs = [set, content, flushed, cur, buf] *)

FS == [set |-> fileSet, content |-> content, flushed |-> flushed, cur |-> curSeq, buf |-> buf]
\* flushBuffer: everything appended to the current file reaches the file, chunkBuffer is cleared
Flush(fs) == IF fs.cur = 0 THEN fs
             ELSE [fs EXCEPT !.flushed[fs.cur] = Len(fs.content[fs.cur]), !.buf = {}]
\* cut(): finalize the current file, create the next file on disk (sequence = last on disk + 1)
Cut(fs) == LET f1 == Flush(fs)  n == MaxS(fs.set) + 1 IN
           [f1 EXCEPT !.set = @ \cup {n}, !.content[n] = <<>>, !.flushed[n] = 0, !.cur = n]
\* writeChunk body: buffered append + chunkBuffer.put; a big chunk is flushed at once
Put(fs, c) == LET f1 == [fs EXCEPT !.content[fs.cur] = Append(@, c), !.buf = @ \cup {c}] IN
              IF c \in BigChunks THEN Flush(f1) ELSE f1
\* processJob as a whole; when cut() does not produce the promised file sequence the chunk is not written
Mismatch(fs, job) == job.cut /\ job.seq # MaxS(fs.set) + 1
Process(fs, job) == IF Mismatch(fs, job) THEN Cut(fs) ELSE Put(IF job.cut THEN Cut(fs) ELSE fs, job.c)
RECURSIVE Drain(_, _)
Drain(fs, jobs) == IF jobs = <<>> THEN fs ELSE Drain(Process(fs, jobs[1]), Tail(jobs))
RECURSIVE DrainMismatch(_, _)
DrainMismatch(fs, jobs) == jobs # <<>> /\ (Mismatch(fs, jobs[1]) \/ DrainMismatch(Process(fs, jobs[1]), Tail(jobs)))

RECURSIVE Concat(_, _, _)
Concat(cont, S, f) == IF f > MaxFile THEN <<>> ELSE (IF f \in S THEN cont[f] ELSE <<>>) \o Concat(cont, S, f + 1)
\* IterateAllChunks after a clean restart: every chunk of the retained files, file by file
IterOf(fs) == Concat(fs.content, fs.set, 1)

\* Torn tail of the newest file (what a crash can leave): for a file cut after k complete chunks,
\* "boundary" = the cut is exactly at the end of chunk k, "inside" = somewhere inside chunk k+1
\* (or, for k = all chunks, inside the zero padding).  nomagic = fewer than 4 bytes: the file is
\* dropped by repairLastChunkFile.  Expected: the complete chunks before the cut, and a CorruptionErr
\* naming that file when the cut is inside a chunk.
TornTable(fs) ==
  IF fs.set = {} THEN [last |-> 0, nomagic |-> <<>>, cuts |-> <<>>]
  ELSE LET l     == MaxS(fs.set)
           prev  == Concat(fs.content, fs.set \ {l}, 1)
           n     == Len(fs.content[l])
       IN [last |-> l, nomagic |-> prev,
           cuts |-> [k \in 1..(n + 1) |->      \* index k stands for k-1 complete chunks
                      [boundary |-> [iter |-> prev \o SubSeq(fs.content[l], 1, k - 1), err |-> "none"],
                       inside   |-> [iter |-> prev \o SubSeq(fs.content[l], 1, k - 1),
                                     err |-> IF k - 1 < n THEN "corruption" ELSE "none"]]]]

PendingCut == (wpc = "popped" /\ wjob.cut) \/ \E i \in 1..Len(queue) : queue[i].cut
SetFS(fs) == /\ fileSet' = fs.set /\ content' = fs.content /\ flushed' = fs.flushed
             /\ curSeq' = fs.cur /\ buf' = fs.buf

\* ChunkDiskMapper.Chunk(ref): pending job -> chunkBuffer of the current file -> m-mapped file
ReadImpl(c) ==
  LET s == ref[c][1]  p == ref[c][2] IN
  IF c \in refMap THEN "ok"
  ELSE IF s = curSeq /\ c \in buf THEN "ok"
  ELSE IF s \notin fileSet THEN "nofile"
  ELSE IF p <= flushed[s] /\ p <= Len(content[s]) /\ content[s][p] = c THEN "ok"
  ELSE "garbage"

Live == Written \ lost
\* (last conjunct of every action) every step records what Chunk(ref) returns for each live chunk according to
\* the transcription (the property demands "ok" for all of them) and whether KF-C25-1 has struck
Log(rec) == hist' = Append(hist, rec @@ [rd |-> [c \in Chunks |-> IF c \in Live' THEN ReadImpl(c)' ELSE "na"], kf |-> kf'])

-----------------------------------------------------------------------------
(* Writer.                                                                  *)

\* WriteChunk: getNextChunkRef under evtlPosMtx, then addJob (chunkRefMap, job queue)
Write ==
  /\ nextC <= NChunks
  /\ Len(queue) < QueueSize                      \* otherwise jobs.push blocks
  /\ LET c   == nextC
         cut == cutNext \/ evPos = 0             \* shouldCutNewFile (file size limit not modelled)
         s   == IF cut THEN evSeq + 1 ELSE evSeq
         p   == IF cut THEN 1 ELSE evPos + 1
     IN /\ evSeq' = s /\ evPos' = p /\ cutNext' = FALSE
        /\ ref' = [ref EXCEPT ![c] = <<s, p>>]
        /\ refMap' = refMap \cup {c}
        /\ queue' = Append(queue, [c |-> c, cut |-> cut, seq |-> s])
        /\ nextC' = c + 1
        /\ UNCHANGED <<wpc, wjob, fileSet, content, flushed, curSeq, buf, lost, ncut, ntrunc, nrestart, kf>>
        /\ Log([a |-> "Write", c |-> c, big |-> (c \in BigChunks), cut |-> cut, seq |-> s, pos |-> p])

CutFile ==
  /\ ncut < MaxCuts /\ ~cutNext
  /\ cutNext' = TRUE /\ ncut' = ncut + 1
  /\ UNCHANGED <<evSeq, evPos, queue, refMap, wpc, wjob, fileSet, content, flushed, curSeq, buf, ref, nextC, lost, ntrunc, nrestart, kf>>
  /\ Log([a |-> "CutFile"])

\* Truncate(n): files below n and below the current file are unmapped and deleted; while no file is open for
\* writing (after a restart) the newest file is kept, because a queued job has been promised the sequence that
\* follows it and cut() names the new file after the files on disk (fix of KF-C25-1); a non-empty current file
\* triggers CutNewFile; when no file is left and the queue is empty the sequence restarts at 0
Truncate(n) ==
  /\ ntrunc < MaxTruncs
  /\ LET rm0  == {f \in fileSet : f < n /\ (curSeq = 0 \/ curSeq \notin fileSet \/ f < curSeq)}
         rm   == IF curSeq = 0 /\ rm0 = fileSet THEN rm0 \ {MaxS(fileSet)} ELSE rm0
         keep == fileSet \ rm
     IN /\ rm0 # {}                                              \* (a no-op truncation is not interesting)
        /\ fileSet' = keep
        /\ lost' = lost \cup {c \in Written : ref[c][1] \in rm}
        /\ cutNext' = (cutNext \/ (curSeq # 0 /\ Len(content[curSeq]) > 0))
        /\ evSeq' = IF keep = {} /\ refMap = {} THEN 0 ELSE evSeq
        /\ ntrunc' = ntrunc + 1
        /\ UNCHANGED <<evPos, queue, refMap, wpc, wjob, content, flushed, curSeq, buf, ref, nextC, ncut, nrestart, kf>>
        /\ Log([a |-> "Truncate", n |-> n, removed |-> rm, lost |-> lost'])

\* Close (the queue is drained by the worker, the current file finalized) and reopen; IterateAllChunks
Restart ==
  /\ nrestart < MaxRestarts
  /\ wpc = "idle" /\ ~kf
  /\ LET fs == Flush(Drain(FS, queue)) IN
     /\ fileSet' = fs.set /\ content' = fs.content /\ flushed' = fs.flushed
     /\ curSeq' = 0 /\ buf' = {}
     /\ evSeq' = MaxS(fs.set) /\ evPos' = 0 /\ cutNext' = FALSE
     /\ queue' = <<>> /\ refMap' = {}
     /\ nrestart' = nrestart + 1
     /\ kf' = DrainMismatch(FS, queue)
     /\ UNCHANGED <<wpc, wjob, ref, nextC, lost, ncut, ntrunc>>
     /\ Log([a |-> "Restart", iter |-> IterOf(fs), torn |-> TornTable(fs), mismatch |-> DrainMismatch(FS, queue)])

-----------------------------------------------------------------------------
(* Queue worker.                                                            *)

UnchW == UNCHANGED <<evSeq, evPos, cutNext, ref, nextC, lost, ncut, ntrunc, nrestart>>

\* jobs.pop                                                    [-> cwq.job.popped]
WPop == /\ wpc = "idle" /\ queue # <<>>
        /\ wjob' = queue[1] /\ queue' = Tail(queue) /\ wpc' = "popped"
        /\ UNCHANGED <<refMap, fileSet, content, flushed, curSeq, buf, kf>> /\ UnchW
        /\ Log([a |-> "WPop", c |-> queue[1].c])
\* writeChunk: cutAndExpectRef                                  [-> cdm.write.after_cut]
\* cut() names the new file after the last file on disk; if that were not the sequence promised in the
\* chunk reference the call would fail after the file switch and the chunk would never be written
\* (that was KF-C25-1; NoMismatch states that it cannot happen any more)
WCut == /\ wpc = "popped" /\ wjob.cut
        /\ SetFS(Cut(FS))
        /\ LET okseq == wjob.seq = MaxS(fileSet) + 1 IN
           /\ wpc' = IF okseq THEN "cutdone" ELSE "written"        \* error: callback(err), job counts as processed
           /\ kf' = (kf \/ ~okseq)
           /\ UNCHANGED <<queue, refMap, wjob>> /\ UnchW
           /\ Log([a |-> "WCut", c |-> wjob.c, seq |-> MaxS(fileSet) + 1, mismatch |-> ~okseq])
\* writeChunk: the chunk goes to the write buffer and the chunkBuffer [-> cwq.job.written]
WWrite == /\ wpc = "cutdone" \/ (wpc = "popped" /\ ~wjob.cut)
          /\ SetFS(Put(FS, wjob.c)) /\ wpc' = "written"
          /\ UNCHANGED <<queue, refMap, wjob, kf>> /\ UnchW
          /\ Log([a |-> "WWrite", c |-> wjob.c])
\* processJob: delete from chunkRefMap                           [-> cwq.job.done]
WDone == /\ wpc = "written"
         /\ refMap' = refMap \ {wjob.c} /\ wpc' = "idle" /\ wjob' = NoJob
         /\ UNCHANGED <<queue, fileSet, content, flushed, curSeq, buf, kf>> /\ UnchW
         /\ Log([a |-> "WDone", c |-> wjob.c])

Next == \/ Write \/ CutFile \/ (\E n \in 2..MaxFile : Truncate(n)) \/ Restart
        \/ WPop \/ WCut \/ WWrite \/ WDone
Spec == Init /\ [][Next]_vars

-----------------------------------------------------------------------------
-----------------------------------------------------------------------------
(* Properties.                                                              *)

TypeOK == /\ wpc \in {"idle", "popped", "cutdone", "written"}
          /\ Len(queue) <= QueueSize
          /\ refMap \subseteq Chunks /\ buf \subseteq Chunks
          /\ curSeq = 0 \/ curSeq \in fileSet

\* ReadYourWrite: every chunk handed to WriteChunk whose file was not truncated reads back
ReadYourWrite == \A c \in Written \ lost : ReadImpl(c) = "ok"

\* the reference handed out at WriteChunk is where the worker later puts the chunk
PositionsAgree == \A f \in fileSet : \A i \in 1..Len(content[f]) : ref[content[f][i]] = <<f, i>>
\* cutAndExpectRef never fails: the file created by cut() has the sequence promised in the reference
CutSeqAgrees == (wpc = "popped" /\ wjob.cut) => wjob.seq = MaxS(fileSet) + 1

\* the promised and the created file sequence never disagree
NoMismatch == ~kf

\* chunkRefMap never grows beyond the queue capacity + the job being processed
RefMapBounded == Cardinality(refMap) <= QueueSize + 1

\* after a (clean) restart iteration yields exactly the written, not truncated chunks in write order
IterComplete == (nrestart > 0 /\ refMap = {} /\ wpc = "idle" /\ queue = <<>> /\ curSeq = 0) =>
                  IterOf(FS) = SelectSeq([c \in 1..(nextC - 1) |-> c], LAMBDA c : c \notin lost)

\* Truncate(n) removes only files older than n, never the file being written
TruncateOnlyOlder ==
  [][(hist' # hist /\ hist'[Len(hist')].a = "Truncate") =>
       LET r == hist'[Len(hist')] IN
       /\ \A f \in r.removed : f < r.n /\ f # curSeq
       /\ fileSet' = fileSet \ r.removed]_vars

-----------------------------------------------------------------------------
(* Behaviour emission: the harness reads every chunk in `live` after every step. *)

Emit == CASE EmitMode = "all" -> PrintT("@@TR " \o ToJson([steps |-> hist', live |-> Live']))
          [] OTHER -> TRUE
\* simulation: print a walk when it cannot be extended any more
EmitWalk == EmitMode # "walk" \/ ENABLED Next \/ PrintT("@@TR " \o ToJson([steps |-> hist, live |-> Live]))
EmitState == EmitMode # "state" \/ PrintT("@@TR " \o ToJson([steps |-> hist, live |-> Live]))
=============================================================================
