#!/bin/sh
# Offline setup: verify tools and warm the Go build cache for the packages the harnesses live in.
set -e
cd "$(dirname "$0")"
java -version >/dev/null 2>&1 || { echo "java missing"; exit 1; }
test -f /opt/veriftools/tla/tla2tools.jar || { echo "tla2tools.jar missing"; exit 1; }
python3 lib/gen_manifest.py >/dev/null
python3 lib/warm.py || true
echo setup ok
