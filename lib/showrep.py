#!/usr/bin/env python3
"""dev aid: print a replay file of the Db harness compactly."""
import json, sys
r = json.load(open(sys.argv[1])); c = r['case']; print(r['sig'], 'step', c['step'], c.get('conc'))
print(r['msg'][:600])
for i, s in enumerate(c['behaviour'][:c['step'] + 1]):
    d = {k: v for k, v in s.items() if v not in ("", None, False) and k not in ('exp', 'R', 'W', 'cap', 'nblocks')}
    if s['a'] == 'Init': d = {k: s[k] for k in ('a', 'R', 'W', 'cap')}
    if s['a'] in ('Commit', 'Compact', 'CompactOOO', 'Reopen', 'Delete', 'Rollback'):
        d['exp'] = {k: [(e['t'], [(a['v'], a['ty']) for a in e['alts']]) for e in v] for k, v in (s.get('exp') or {}).items()}
    print(i, d)
