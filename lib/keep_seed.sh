#!/bin/sh
# usage: keep_seed.sh <Cxx> <n> "<what I ran / result>"
P=$1; N=$2; D=/verif/seeded/$P-$N; mkdir -p $D
cp /tmp/seed-$P-$N-out/patch.diff $D/; cp /tmp/seed-$P-$N-out/*_test.go $D/ 2>/dev/null; cp /tmp/seed-$P-$N-out/*.go $D/ 2>/dev/null
python3 - "$P" "$N" "$3" <<'PY'
import json,sys
P,N,ran=sys.argv[1:4]
m=json.load(open(f'/tmp/seed-{P}-{N}-out/meta.json'))
out={"property":P,"breaks":m.get("summary"),"needs":m.get("needs"),"files_touched":m.get("files_touched"),
     "author_tests_run":m.get("tests_run"),"demo_cmd":m.get("demo_cmd"),"coordinator_verification":ran}
json.dump(out,open(f'/verif/seeded/{P}-{N}/meta.json','w'),indent=1)
PY
echo kept $D
