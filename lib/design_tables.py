#!/usr/bin/env python3
"""Regenerate the generated sections of DESIGN.md (between the markers) from seeded/*/meta.json and known_findings.json."""
import json, os, glob, re
V = os.path.dirname(os.path.dirname(os.path.abspath(__file__)))
rows = []
for d in sorted(glob.glob(os.path.join(V, "seeded", "*"))):
    m = json.load(open(os.path.join(d, "meta.json")))
    ver = m.get("coordinator_verification", "")
    status = "caught"
    if "MISSED" in ver:
        status = "missed at first, caught after strengthening"
    if "thorough tier only" in ver or "Caught by the thorough tier only" in ver:
        status += " (thorough tier)"
    if "NOT CAUGHT" in ver:
        status = "not caught"
    br = (m.get("breaks") or "").replace("\n", " ")
    rows.append("| %s | %s | %s | %s |" % (os.path.basename(d), ", ".join(m.get("files_touched") or [])[:60], br[:230] + ("…" if len(br) > 230 else ""), status))
seed_tbl = "| seed | files | what it breaks | result |\n|---|---|---|---|\n" + "\n".join(rows)
kf = json.load(open(os.path.join(V, "known_findings.json")))["findings"]
fixed = [f for f in kf if f["status"] == "fixed"]
openf = [f for f in kf if f["status"] == "open"]
def line(f):
    w = re.sub(r"^fixed: property=\S+ \S+ ", "", f["what"]).replace("\n", " ")
    return "| %s | %s | %s | %s |" % (f["id"], f["property"], f.get("commit", ""), w[:260] + ("…" if len(w) > 260 else ""))
fx = "| id | property | commit | defect |\n|---|---|---|---|\n" + "\n".join(line(f) for f in fixed)
op = "| id | property | | defect |\n|---|---|---|---|\n" + "\n".join(line(f) for f in openf)
# per-property index from the check files
import ast
idx = []
for pid in [json.loads(l)["id"] for l in open(os.path.join(V, "properties.jsonl"))]:
    cp = os.path.join(V, "checks", pid + ".py")
    if not os.path.exists(cp):
        idx.append("| %s | — | — | not applicable (see §6) | | |" % pid); continue
    src = open(cp).read()
    specs = sorted(set(re.findall(r'ctx\.tlc\(\s*"([^"]+)",\s*"([^"]+)"', src)))
    specs += sorted(set((a, b) for a, b in re.findall(r'tlc\w*\(\s*ctx,\s*"([^"]+)",\s*"([^"]+)"', src)))
    hs = sorted(set(re.findall(r'"([A-Za-z0-9_/]+)",\s*\[([^\]]+)\]', src)))
    harn = "; ".join("%s/{%s}" % (a, ",".join(x.strip().strip('"') for x in b.split(",") if x.strip().startswith('"'))) for a, b in hs if "_test.go" in b)
    meta = None
    for node in ast.parse(src).body:
        if isinstance(node, ast.Assign) and any(getattr(t, "id", None) == "META" for t in node.targets):
            try: meta = ast.literal_eval(node.value)
            except Exception: meta = None
    sp = ", ".join(sorted(set("specs/%s/%s.tla" % (a, b) for a, b in specs))) or "(see check file)"
    kfo = [f["id"] for f in kf if f["property"] == pid and f["status"] == "open"]
    kff = [f["id"] for f in kf if f["property"] == pid and f["status"] == "fixed"]
    sd = [os.path.basename(d) for d in sorted(glob.glob(os.path.join(V, "seeded", pid + "-*")))]
    idx.append("| %s | %s | %s | %s | open: %s; fixed: %s | %s |" % (pid, sp, harn or "(see check file)", (meta or {}).get("level", "model_checking"),
               ", ".join(kfo) or "–", ", ".join(kff) or "–", ", ".join(sd) or "–"))
index_tbl = "| id | specification modules | harness (under harness/) | level | findings | seeds |\n|---|---|---|---|---|---|\n" + "\n".join(idx)
p = os.path.join(V, "DESIGN.md"); s = open(p).read()
def put(s, tag, body):
    a, b = "<!-- BEGIN %s -->" % tag, "<!-- END %s -->" % tag
    if a not in s:
        return s
    i, j = s.index(a) + len(a), s.index(b)
    return s[:i] + "\n" + body + "\n" + s[j:]
s = put(s, "INDEX", index_tbl); s = put(s, "SEEDS", seed_tbl); s = put(s, "FIXED", fx); s = put(s, "OPEN", op)
open(p, "w").write(s)
print("seeds", len(rows), "fixed", len(fixed), "open", len(openf))
